import CnlModel.Charconv
import CnlSpec.Decimal
import CnlProofs.CIntLemmas
/-!
# Helper lemmas for C13 / C14 (`to_chars`): Lean core only.

* layout arithmetic of `solve_fixed` / `solve_scientific` / the selection (`choose_safe`);
* digit strings of `to_chars_natural` (`natDigitsF_value`, `_head`, `_length`);
* the write loop against the buffer (`natWrite_spec`), the integer routine (`intToChars_contract`,
  `intToChars_ok`), capacity (`pow_two_lt_pow_ten`, `intText_le_capacity`);
* the numeral read back by the independent reader (`intText_value`);
* termination of the repaired `descale` (`descale_terminates`, measure `ie·(B+2) + headroom`), its loop
  invariant (`descale_ok`), the text lengths of both `fill`s (`sciText_length`, `fixedText_length`), the scaled
  routine (`toCharsPositive_contract`, `scaledToChars_contract`, `scaledToChars_stays_inside`);
* C14, fractional half: the value invariant of `descale` (`descaleNeg_value`, `descalePos_value`, `descale_value`,
  `descale_lossy_le`, `descale_lossy_le_succ`, `descale_lossless_binary`, `descale_lossless_small`); the digit strings read back
  (`natDigitsF_take_value`, `spanDigits_append`, `expValue_intText`, `unsignedDecimal_dot/_nodot`); both layouts
  denote the significand cut to the digits kept (`sciText_denotes`, `fixedText_denotes`, `Kept`,
  `toCharsPositive_denotes`, `choose_keeps_all`); the oracle's comparison (`within_intro`, `kept_within`,
  `kept_exactly`); the composition `scaledToChars_denotes`.
-/
namespace Cnl.Charconv
open Cnl Cnl.Spec


/-! ### layout arithmetic -/

theorem sci_fits (i : Info) (hpos : 0 < (solveSci i).numSig) (he : 0 ≤ i.expChars) :
    (solveSci i).numChars ≤ i.maxChars := by
  simp only [solveSci] at *; omega

theorem fixed_fits (i : Info) (hpos : 0 < (solveFixed i).numSig) :
    (solveFixed i).numChars ≤ i.maxChars := by
  by_cases h : i.numSig + i.exponent > i.maxChars
  · simp [solveFixed, h] at hpos
  · simp only [solveFixed, h, if_false] at hpos ⊢
    by_cases hr : i.exponent < 0 <;> simp [hr] at hpos ⊢ <;> omega

/-- the layout that is going to be filled keeps at least one digit and fits the space -/
def Safe (pick : Info → Choice) (i : Info) : Prop :=
  match pick i with
  | .sci s => 0 < s.numSig ∧ s.numChars ≤ i.maxChars
  | .fixed f => 0 < f.numSig ∧ f.numChars ≤ i.maxChars
  | .tooLarge => True

instance (pick : Info → Choice) (i : Info) : Decidable (Safe pick i) := by
  unfold Safe; split <;> infer_instance

theorem choose_safe (i : Info) (he : 0 ≤ i.expChars) : Safe choose i := by
  unfold Safe
  by_cases h1 : (solveSci i).numSig > 0 ∧ tupGt (solveSci i).numSig (-(solveSci i).numChars) (solveFixed i).numSig (-(solveFixed i).numChars) = true
  · have hc : choose i = .sci (solveSci i) := by unfold choose; exact if_pos h1
    rw [hc]; exact ⟨h1.1, sci_fits i h1.1 he⟩
  · by_cases h2 : (solveFixed i).numSig > 0
    · have hc : choose i = .fixed (solveFixed i) := by unfold choose; rw [if_neg h1, if_pos h2]
      rw [hc]; exact ⟨h2, fixed_fits i h2⟩
    · have hc : choose i = .tooLarge := by unfold choose; rw [if_neg h1, if_neg h2]
      rw [hc]; trivial

theorem chooseOrig_not_safe : ¬ Safe chooseOrig ⟨13, -17, 0, 2⟩ := by decide


theorem digitVal_itoc : ∀ d, d < 36 → digitVal (itoc d) = some d := by decide
theorem itoc_ne_zero_char : ∀ d, d < 36 → d ≠ 0 → itoc d ≠ '0' := by decide

theorem digitsValue_append (base : Nat) (xs ys : List Char) (acc : Nat) :
    digitsValue base (xs ++ ys) acc = (digitsValue base xs acc).bind (fun a => digitsValue base ys a) := by
  induction xs generalizing acc with
  | nil => simp [digitsValue]
  | cons c cs ih =>
    simp only [List.cons_append, digitsValue]
    cases digitVal c with
    | none => simp
    | some d =>
      by_cases h : d < base
      · simp [h, ih]
      · simp [h]

theorem digitsValue_single (base d acc : Nat) (hd : d < base) (hb : base ≤ 36) :
    digitsValue base [itoc d] acc = some (acc * base + d) := by
  simp [digitsValue, digitVal_itoc d (by omega), hd]

theorem natDigitsF_value (base : Nat) (h2 : 2 ≤ base) (h36 : base ≤ 36) :
    ∀ fuel v, 0 < v → v ≤ fuel → digitsValue base (natDigitsF base fuel v) 0 = some v := by
  intro fuel
  induction fuel with
  | zero => intro v h0 h1; omega
  | succ n ih =>
    intro v h0 h1
    have hm : v % base < base := Nat.mod_lt _ (by omega)
    have hdm := Nat.div_add_mod v base
    by_cases hq : v / base = 0
    · simp only [natDigitsF, hq, if_true]
      rw [digitsValue_single base _ 0 hm h36]
      rw [hq] at hdm; simp at hdm ⊢; omega
    · simp only [natDigitsF, hq, if_false]
      have hlt : v / base < v := Nat.div_lt_self h0 (by omega)
      rw [digitsValue_append, ih (v / base) (Nat.pos_of_ne_zero hq) (Nat.le_of_lt_succ (Nat.lt_of_lt_of_le hlt h1))]
      simp only [Option.bind]
      rw [digitsValue_single base _ _ hm h36]
      congr 1
      rw [Nat.mul_comm]; exact hdm

theorem natDigitsF_head (base : Nat) (h2 : 2 ≤ base) (h36 : base ≤ 36) :
    ∀ fuel v, 0 < v → v ≤ fuel → ∃ c rest, natDigitsF base fuel v = c :: rest ∧ c ≠ '0' := by
  intro fuel
  induction fuel with
  | zero => intro v h0 h1; omega
  | succ n ih =>
    intro v h0 h1
    have hm : v % base < base := Nat.mod_lt _ (by omega)
    have hdm := Nat.div_add_mod v base
    by_cases hq : v / base = 0
    · refine ⟨itoc (v % base), [], ?_, ?_⟩
      · simp [natDigitsF, hq]
      · apply itoc_ne_zero_char _ (by omega)
        rw [hq] at hdm; omega
    · have hlt : v / base < v := Nat.div_lt_self h0 (by omega)
      obtain ⟨c, rest, he, hc⟩ := ih (v / base) (Nat.pos_of_ne_zero hq) (Nat.le_of_lt_succ (Nat.lt_of_lt_of_le hlt h1))
      refine ⟨c, rest ++ [itoc (v % base)], ?_, hc⟩
      simp [natDigitsF, hq, he]

theorem natDigitsF_length (base : Nat) (h2 : 2 ≤ base) :
    ∀ fuel v k, 0 < v → v ≤ fuel → v < base ^ k → (natDigitsF base fuel v).length ≤ k := by
  intro fuel
  induction fuel with
  | zero => intro v k h0 h1; omega
  | succ n ih =>
    intro v k h0 h1 hk
    cases k with
    | zero => simp at hk; omega
    | succ k =>
      by_cases hq : v / base = 0
      · simp [natDigitsF, hq]
      · simp only [natDigitsF, hq, if_false, List.length_append, List.length_cons, List.length_nil]
        have hlt : v / base < v := Nat.div_lt_self h0 (by omega)
        have : v / base < base ^ k := by
          rw [Nat.div_lt_iff_lt_mul (by omega)]
          rw [Nat.pow_succ] at hk; exact hk
        have := ih (v / base) k (Nat.pos_of_ne_zero hq) (Nat.le_of_lt_succ (Nat.lt_of_lt_of_le hlt h1)) this
        omega

theorem natDigitsF_pos (base : Nat) : ∀ fuel v, 0 < fuel → 0 < (natDigitsF base fuel v).length := by
  intro fuel v h
  cases fuel with
  | zero => omega
  | succ n =>
    by_cases hq : v / base = 0 <;> simp [natDigitsF, hq]


/-- the cell list has the declared length -/
def Buf.WF (b : Buf) : Prop := b.cells.length = b.len

theorem fresh_WF (n : Nat) : (Buf.fresh n).WF := by simp [Buf.WF, Buf.fresh]

theorem natWrite_spec : ∀ (ds : List Char) (b : Buf) (p : Nat), b.WF → p ≤ b.len →
    ∃ r, natWrite ds b p = .ok r ∧ r.2.WF ∧ r.2.len = b.len ∧
      (r.1 = if p + ds.length ≤ b.len then some (p + ds.length) else none) ∧
      ∀ i, r.2.cells[i]? =
        if p ≤ i ∧ i < p + ds.length ∧ i < b.len then (ds[i - p]?).map some else b.cells[i]? := by
  intro ds
  induction ds with
  | nil =>
    intro b p hw hp
    refine ⟨(some p, b), rfl, hw, rfl, ?_, ?_⟩
    · simp [hp]
    · intro i
      have : ¬ (p ≤ i ∧ i < p + ([] : List Char).length ∧ i < b.len) := by simp; omega
      rw [if_neg this]
  | cons d ds ih =>
    intro b p hw hp
    by_cases hpl : p = b.len
    · refine ⟨(none, b), ?_, hw, rfl, ?_, ?_⟩
      · simp [natWrite, hpl]
      · have : ¬ (p + (d :: ds).length ≤ b.len) := by simp; omega
        rw [if_neg this]
      · intro i
        have : ¬ (p ≤ i ∧ i < p + (d :: ds).length ∧ i < b.len) := by omega
        rw [if_neg this]
    · have hlt : p < b.len := by omega
      have hw' : (⟨b.len, b.cells.set p (some d)⟩ : Buf).WF := by simp [Buf.WF]; exact hw
      obtain ⟨r, hr, hrw, hrl, hrp, hrc⟩ := ih ⟨b.len, b.cells.set p (some d)⟩ (p + 1) hw' (by simp; omega)
      refine ⟨r, ?_, hrw, hrl, ?_, ?_⟩
      · simp [natWrite, hpl, Buf.write, hlt, hr]
      · rw [hrp]; simp only [List.length_cons]
        by_cases h : p + 1 + ds.length ≤ b.len
        · have h' : p + (ds.length + 1) ≤ b.len := by omega
          rw [if_pos h, if_pos h']; congr 1; omega
        · have h' : ¬ p + (ds.length + 1) ≤ b.len := by omega
          rw [if_neg h, if_neg h']
      · intro i
        rw [hrc i]
        simp only [List.length_cons]
        have hpc : p < b.cells.length := by rw [hw]; exact hlt
        by_cases h1 : i = p
        · subst h1
          have c1 : ¬ (i + 1 ≤ i ∧ i < i + 1 + ds.length ∧ i < b.len) := by omega
          have c2 : (i ≤ i ∧ i < i + (ds.length + 1) ∧ i < b.len) := by omega
          rw [if_neg c1, if_pos c2]
          simp [hpc]
        · by_cases h2 : p < i
          · by_cases h3 : i < p + 1 + ds.length ∧ i < b.len
            · have c1 : (p + 1 ≤ i ∧ i < p + 1 + ds.length ∧ i < b.len) := by omega
              have c2 : (p ≤ i ∧ i < p + (ds.length + 1) ∧ i < b.len) := by omega
              rw [if_pos c1, if_pos c2]
              have : i - p = (i - (p + 1)) + 1 := by omega
              rw [this, List.getElem?_cons_succ]
            · have c1 : ¬ (p + 1 ≤ i ∧ i < p + 1 + ds.length ∧ i < b.len) := by omega
              have c2 : ¬ (p ≤ i ∧ i < p + (ds.length + 1) ∧ i < b.len) := by omega
              rw [if_neg c1, if_neg c2]
              simp [List.getElem?_set]; omega
          · have c1 : ¬ (p + 1 ≤ i ∧ i < p + 1 + ds.length ∧ i < b.len) := by omega
            have c2 : ¬ (p ≤ i ∧ i < p + (ds.length + 1) ∧ i < b.len) := by omega
            rw [if_neg c1, if_neg c2]
            simp [List.getElem?_set]; omega

/-- integer `to_chars_positive` on a well-formed buffer, `first ≤ last` -/
theorem natToChars_spec (b : Buf) (first v base : Nat) (hw : b.WF) (hf : first ≤ b.len) :
    ∃ r, natToChars b first v base = .ok r ∧ r.buf.WF ∧ r.buf.len = b.len ∧
      (r.ok = decide (first + (natDigits base v).length ≤ b.len)) ∧
      (r.ptr = some (if first + (natDigits base v).length ≤ b.len then first + (natDigits base v).length else b.len)) ∧
      ∀ i, r.buf.cells[i]? =
        if first ≤ i ∧ i < first + (natDigits base v).length ∧ i < b.len
        then ((natDigits base v)[i - first]?).map some else b.cells[i]? := by
  obtain ⟨r, hr, hrw, hrl, hrp, hrc⟩ := natWrite_spec (natDigits base v) b first hw hf
  unfold natToChars
  rw [hr]
  by_cases h : first + (natDigits base v).length ≤ b.len
  · rw [if_pos h] at hrp
    refine ⟨natResult r, rfl, ?_, ?_, ?_, ?_, ?_⟩ <;> simp [natResult, hrp, h, hrw, hrl]
    exact hrc
  · rw [if_neg h] at hrp
    refine ⟨natResult r, rfl, ?_, ?_, ?_, ?_, ?_⟩ <;> simp [natResult, hrp, h, hrw, hrl]
    exact hrc

theorem natAbs_tdiv_nat (a : Int) (b : Nat) : (a.tdiv b).natAbs = a.natAbs / b := by
  have := Int.natAbs_tdiv a b
  rw [Int.natAbs_natCast] at this
  exact this

theorem natAbs_tmod_nat (a : Int) (b : Nat) : (a.tmod b).natAbs = a.natAbs % b := by
  have := Int.natAbs_tmod a b
  rw [Int.natAbs_natCast] at this
  exact this

/-! ### the repaired negative branch: last digit split off before the sign is changed -/

theorem natDigitsF_fuel (base : Nat) (h2 : 2 ≤ base) :
    ∀ f1 f2 v, 0 < v → v ≤ f1 → v ≤ f2 → natDigitsF base f1 v = natDigitsF base f2 v := by
  intro f1
  induction f1 with
  | zero => intro f2 v h0 h1; omega
  | succ n ih =>
    intro f2 v h0 h1 h2'
    cases f2 with
    | zero => omega
    | succ m =>
      by_cases hq : v / base = 0
      · simp [natDigitsF, hq]
      · have hlt : v / base < v := Nat.div_lt_self h0 (by omega)
        simp only [natDigitsF, hq, if_false]
        rw [ih m (v / base) (Nat.pos_of_ne_zero hq) (by omega) (by omega)]

/-- one step of the recursion of `to_chars_natural`: the digits of the quotient, then the last digit -/
theorem natDigits_step (base n : Nat) (h2 : 2 ≤ base) (h0 : 0 < n) :
    natDigits base n = if n / base = 0 then [itoc (n % base)] else natDigits base (n / base) ++ [itoc (n % base)] := by
  unfold natDigits
  cases n with
  | zero => omega
  | succ m =>
    by_cases hq : (m + 1) / base = 0
    · simp [natDigitsF, hq]
    · have hlt : (m + 1) / base < m + 1 := Nat.div_lt_self h0 (by omega)
      simp only [natDigitsF, hq, if_false]
      rw [natDigitsF_fuel base h2 m ((m + 1) / base) ((m + 1) / base) (Nat.pos_of_ne_zero hq) (by omega) (Nat.le_refl _)]

theorem natWrite_append (xs ys : List Char) : ∀ (b : Buf) (p : Nat),
    natWrite (xs ++ ys) b p =
      match natWrite xs b p with
      | .ok (some p', b') => natWrite ys b' p'
      | r => r := by
  induction xs with
  | nil => intro b p; simp [natWrite]
  | cons x xs ih =>
    intro b p
    by_cases hp : p = b.len
    · simp [natWrite, hp]
    · by_cases hlt : p < b.len
      · simp only [List.cons_append, natWrite, hp, if_false, Buf.write, hlt, if_true]
        exact ih _ _
      · simp [natWrite, hp, Buf.write, hlt]

/-- the repaired negative branch writes exactly what `to_chars_positive` would write for the magnitude — for
EVERY negative value (the magnitude need not be a value of the type) -/
theorem negToChars_eq (b : Buf) (first : Nat) (v : Int) (base : Nat) (hv : v < 0) (h2 : 2 ≤ base) :
    negToChars b first v base = natToChars b first (-v).toNat base := by
  have hn0 : 0 < (-v).toNat := by omega
  have hA : (-v).toNat = v.natAbs := by omega
  have hd1 : (v.tdiv base).natAbs = v.natAbs / base := natAbs_tdiv_nat v base
  have hm1 : (v.tmod base).natAbs = v.natAbs % base := natAbs_tmod_nat v base
  have hd3 : v.tdiv (base : Int) ≤ 0 := by
    have : 0 ≤ (-v).tdiv (base : Int) := Int.tdiv_nonneg (by omega) (by omega)
    rw [Int.neg_tdiv] at this; omega
  have hm3 : v.tmod (base : Int) ≤ 0 := by
    have : 0 ≤ (-v).tmod (base : Int) := Int.tmod_nonneg _ (by omega)
    rw [Int.neg_tmod] at this; omega
  have hq : (-(v.tdiv base)).toNat = (-v).toNat / base := by rw [hA, ← hd1]; omega
  have hr : (-(v.tmod base)).toNat = (-v).toNat % base := by rw [hA, ← hm1]; omega
  have hq0 : v.tdiv (base : Int) = 0 ↔ (-v).toNat / base = 0 := by rw [hA, ← hd1]; omega
  unfold negToChars natToChars
  rw [natDigits_step base _ h2 hn0, hr]
  by_cases hz : (-v).toNat / base = 0
  · have hz' : v.tdiv (base : Int) = 0 := hq0.mpr hz
    simp only [hz, hz', if_true]
    by_cases hp : first = b.len
    · simp [natWrite, hp, natResult]
    · by_cases hlt : first < b.len
      · simp [natWrite, hp, Buf.write, hlt, natResult]
      · simp [natWrite, hp, Buf.write, hlt]
  · have hz' : ¬ v.tdiv (base : Int) = 0 := fun h => hz (hq0.mp h)
    simp only [hz, hz', if_false]
    rw [natWrite_append, hq]
    rcases hw : natWrite (natDigits base ((-v).toNat / base)) b first with ⟨o, b1⟩ | _ | _ | _ | _ | _
    all_goals try simp
    cases o with
    | none => simp [natResult]
    | some p =>
      by_cases hp : p = b1.len
      · simp [natWrite, hp, natResult]
      · by_cases hlt : p < b1.len
        · simp [natWrite, hp, Buf.write, hlt, natResult]
        · simp [natWrite, hp, Buf.write, hlt]

/-- the contract of C13 for one call on a buffer of `len` untouched cells -/
def Contract (len : Nat) (r : TCR) : Prop :=
  r.buf.len = len ∧ r.buf.WF ∧
  (r.ok = true → ∃ p, r.ptr = some p ∧ 0 < p ∧ p ≤ len ∧
      (∀ i, i < p → ∃ c, r.buf.cells[i]? = some (some c)) ∧
      (∀ i, p ≤ i → i < len → r.buf.cells[i]? = some none)) ∧
  (r.ok = false → r.ptr = some len)

theorem fresh_get (len i : Nat) (h : i < len) : (Buf.fresh len).cells[i]? = some none := by
  simp [Buf.fresh, List.getElem?_replicate, h]

/-- most negative value of the promoted type: the input the code as found did not support (`intToCharsOrig`) -/
def MostNegative (T : IntTy) (v : Int) : Prop := T.signed = true ∧ v < -(promote T).max
instance (T : IntTy) (v : Int) : Decidable (MostNegative T v) := by unfold MostNegative; infer_instance

theorem intToChars_contract (T : IntTy) (len : Nat) (v : Int) (base : Nat)
    (hb : 2 ≤ base ∧ base ≤ 36)
    (hu : T.signed = false → 0 ≤ v) :
    ∃ r, intToChars T (Buf.fresh len) v base = .ok r ∧ Contract len r := by
  have hbb : ¬ (base < 2 ∨ base > 36) := by omega
  unfold intToChars
  rw [if_neg hbb]
  by_cases hv : v = 0
  · rw [if_pos hv]
    by_cases hl : len = 0
    · subst hl
      refine ⟨⟨some 0, false, Buf.fresh 0⟩, by simp [Buf.fresh], ?_⟩
      simp [Contract, Buf.fresh, Buf.WF]
    · have hl' : (Buf.fresh len).len ≠ 0 := hl
      have h0 : 0 < (Buf.fresh len).len := Nat.pos_of_ne_zero hl
      simp only [hl', if_false, Buf.write, h0, if_true]
      refine ⟨_, rfl, rfl, ?_, ?_, ?_⟩
      · simp [Buf.WF, Buf.fresh]
      · intro _
        refine ⟨1, rfl, by omega, Nat.pos_of_ne_zero hl, ?_, ?_⟩
        · intro i hi
          have : i = 0 := by omega
          subst this
          refine ⟨'0', ?_⟩
          simp [Buf.fresh, List.getElem?_set]; omega
        · intro i h1 h2
          simp only [Buf.fresh]
          rw [List.getElem?_set]
          have : ¬ (0 = i) := by omega
          simp [this, List.getElem?_replicate, h2]
      · intro h; simp at h
  · rw [if_neg hv]
    by_cases hn : T.signed = true ∧ v < 0
    · rw [if_pos hn]
      by_cases hl : len < 2
      · have : (Buf.fresh len).len < 2 := hl
        rw [if_pos this]
        refine ⟨_, rfl, rfl, fresh_WF len, ?_, ?_⟩
        · intro h; simp at h
        · intro _; rfl
      · have h2 : ¬ (Buf.fresh len).len < 2 := hl
        have h0 : 0 < (Buf.fresh len).len := by simp only [Buf.fresh]; omega
        rw [if_neg h2]
        simp only [Buf.write, h0, if_true]
        rw [negToChars_eq _ 1 v base hn.2 hb.1]
        have hw' : (⟨(Buf.fresh len).len, (Buf.fresh len).cells.set 0 (some '-')⟩ : Buf).WF := by
          simp [Buf.WF, Buf.fresh]
        obtain ⟨r, hr, hrw, hrl, hro, hrp, hrc⟩ :=
          natToChars_spec ⟨(Buf.fresh len).len, (Buf.fresh len).cells.set 0 (some '-')⟩ 1 (-v).toNat base hw'
            (by simp only [Buf.fresh]; omega)
        refine ⟨r, hr, hrl, hrw, ?_, ?_⟩
        · intro hok
          rw [hro] at hok
          have hfit : 1 + (natDigits base (-v).toNat).length ≤ len := by
            have := of_decide_eq_true hok; simpa [Buf.fresh] using this
          have hfit' : 1 + (natDigits base (-v).toNat).length ≤ (Buf.fresh len).len := hfit
          refine ⟨1 + (natDigits base (-v).toNat).length, ?_, by omega, hfit, ?_, ?_⟩
          · rw [hrp]; simp only [hfit', if_true]
          · intro i hi
            rw [hrc i]
            by_cases h1 : 1 ≤ i
            · have c : (1 ≤ i ∧ i < 1 + (natDigits base (-v).toNat).length ∧ i < (Buf.fresh len).len) := by
                refine ⟨h1, hi, ?_⟩; simp only [Buf.fresh]; omega
              rw [if_pos c]
              have : i - 1 < (natDigits base (-v).toNat).length := by omega
              refine ⟨(natDigits base (-v).toNat)[i - 1], ?_⟩
              simp [List.getElem?_eq_getElem this]
            · have c : ¬ (1 ≤ i ∧ i < 1 + (natDigits base (-v).toNat).length ∧ i < (Buf.fresh len).len) := by omega
              rw [if_neg c]
              have : i = 0 := by omega
              subst this
              refine ⟨'-', ?_⟩
              simp [Buf.fresh, List.getElem?_set]; omega
          · intro i h1 h2
            rw [hrc i]
            have c : ¬ (1 ≤ i ∧ i < 1 + (natDigits base (-v).toNat).length ∧ i < (Buf.fresh len).len) := by omega
            rw [if_neg c]
            simp only [Buf.fresh]
            rw [List.getElem?_set]
            have : ¬ (0 = i) := by omega
            simp [this, List.getElem?_replicate, h2]
        · intro hok
          rw [hro] at hok
          have hfit : ¬ (1 + (natDigits base (-v).toNat).length ≤ (Buf.fresh len).len) := by simpa using hok
          rw [hrp]; simp only [hfit, if_false]; rfl
    · rw [if_neg hn]
      obtain ⟨r, hr, hrw, hrl, hro, hrp, hrc⟩ :=
        natToChars_spec (Buf.fresh len) 0 v.toNat base (fresh_WF len) (Nat.zero_le _)
      refine ⟨r, hr, hrl, hrw, ?_, ?_⟩
      · intro hok
        rw [hro] at hok
        have hfit : 0 + (natDigits base v.toNat).length ≤ (Buf.fresh len).len := by simpa using hok
        have hfl : (natDigits base v.toNat).length ≤ len := by simpa [Buf.fresh] using hfit
        refine ⟨(natDigits base v.toNat).length, ?_, ?_, hfl, ?_, ?_⟩
        · rw [hrp]; simp only [hfit, if_true]; simp
        · -- at least one digit: v > 0 here or T unsigned
          cases hvt : v.toNat with
          | zero =>
            exfalso
            have hle : v ≤ 0 := Int.toNat_eq_zero.mp hvt
            cases hs : T.signed with
            | false => have := hu hs; omega
            | true => exact hn ⟨hs, by omega⟩
          | succ n => exact natDigitsF_pos base _ _ (by omega)
        · intro i hi
          rw [hrc i]
          have c : (0 ≤ i ∧ i < 0 + (natDigits base v.toNat).length ∧ i < (Buf.fresh len).len) := by
            refine ⟨Nat.zero_le _, by omega, ?_⟩; simp only [Buf.fresh]; omega
          rw [if_pos c]
          refine ⟨(natDigits base v.toNat)[i], ?_⟩
          simp [List.getElem?_eq_getElem hi]
        · intro i h1 h2
          rw [hrc i]
          have c : ¬ (0 ≤ i ∧ i < 0 + (natDigits base v.toNat).length ∧ i < (Buf.fresh len).len) := by omega
          rw [if_neg c]
          exact fresh_get len i h2
      · intro hok
        rw [hro] at hok
        have hfit : ¬ (0 + (natDigits base v.toNat).length ≤ (Buf.fresh len).len) := by simpa using hok
        rw [hrp]; simp only [hfit, if_false]; rfl


/-! ### success exactly when the canonical numeral fits; capacity -/

theorem intText_length_neg (base : Nat) (v : Int) (h : v < 0) :
    (intText base v).length = 1 + (natDigits base (-v).toNat).length := by
  have h0 : v ≠ 0 := by omega
  simp [intText, h0, h]; omega

theorem intText_length_pos (base : Nat) (v : Int) (h : 0 < v) :
    (intText base v).length = (natDigits base v.toNat).length := by
  have h0 : v ≠ 0 := by omega
  have h1 : ¬ v < 0 := by omega
  simp [intText, h0, h1]

theorem intToChars_ok (T : IntTy) (len : Nat) (v : Int) (base : Nat)
    (hb : 2 ≤ base ∧ base ≤ 36)
    (hu : T.signed = false → 0 ≤ v) :
    ∃ r, intToChars T (Buf.fresh len) v base = .ok r ∧ r.ok = decide ((intText base v).length ≤ len) := by
  have hbb : ¬ (base < 2 ∨ base > 36) := by omega
  unfold intToChars
  rw [if_neg hbb]
  by_cases hv : v = 0
  · rw [if_pos hv]
    by_cases hl : len = 0
    · subst hl
      refine ⟨⟨some 0, false, Buf.fresh 0⟩, by simp [Buf.fresh], ?_⟩
      simp [intText, hv]
    · have hl' : (Buf.fresh len).len ≠ 0 := hl
      have h0 : 0 < (Buf.fresh len).len := Nat.pos_of_ne_zero hl
      simp only [hl', if_false, Buf.write, h0, if_true]
      refine ⟨_, rfl, ?_⟩
      simp [intText, hv]; omega
  · rw [if_neg hv]
    by_cases hn : T.signed = true ∧ v < 0
    · rw [if_pos hn]
      have hk : 0 < (natDigits base (-v).toNat).length :=
        natDigitsF_pos base _ _ (by omega)
      by_cases hl : len < 2
      · have : (Buf.fresh len).len < 2 := hl
        rw [if_pos this]
        refine ⟨_, rfl, ?_⟩
        rw [intText_length_neg base v hn.2]
        simp; omega
      · have h2 : ¬ (Buf.fresh len).len < 2 := hl
        have h0 : 0 < (Buf.fresh len).len := by simp only [Buf.fresh]; omega
        rw [if_neg h2]
        simp only [Buf.write, h0, if_true]
        rw [negToChars_eq _ 1 v base hn.2 hb.1]
        have hw' : (⟨(Buf.fresh len).len, (Buf.fresh len).cells.set 0 (some '-')⟩ : Buf).WF := by
          simp [Buf.WF, Buf.fresh]
        obtain ⟨r, hr, _, _, hro, _, _⟩ :=
          natToChars_spec ⟨(Buf.fresh len).len, (Buf.fresh len).cells.set 0 (some '-')⟩ 1 (-v).toNat base hw'
            (by simp only [Buf.fresh]; omega)
        refine ⟨r, hr, ?_⟩
        rw [hro, intText_length_neg base v hn.2]; rfl
    · rw [if_neg hn]
      have hpos : 0 < v := by
        cases hs : T.signed with
        | false => have := hu hs; omega
        | true =>
          have : ¬ v < 0 := fun h => hn ⟨hs, h⟩
          omega
      obtain ⟨r, hr, _, _, hro, _, _⟩ :=
        natToChars_spec (Buf.fresh len) 0 v.toNat base (fresh_WF len) (Nat.zero_le _)
      refine ⟨r, hr, ?_⟩
      rw [hro, intText_length_pos base v hpos]
      simp [Buf.fresh]

/-- `2^b < 10^a` makes `a/b` an upper estimate of `log10 2`: `d·a/b + 1` decimal digits hold every `d`-bit number -/
theorem pow_two_lt_pow_ten (a b : Nat) (hb : 0 < b) (hab : 2 ^ b < 10 ^ a) (d : Nat) :
    2 ^ d < 10 ^ (d * a / b + 1) := by
  by_cases hd : d = 0
  · subst hd; simp
  · have h1 : d * a < (d * a / b + 1) * b := by
      have := Nat.lt_mul_div_succ (d * a) hb
      calc d * a < b * (d * a / b + 1) := this
        _ = (d * a / b + 1) * b := Nat.mul_comm _ _
    have h2 : (2 ^ d) ^ b < (10 ^ (d * a / b + 1)) ^ b := by
      calc (2 ^ d) ^ b = (2 ^ b) ^ d := by rw [← Nat.pow_mul, ← Nat.pow_mul, Nat.mul_comm]
        _ < (10 ^ a) ^ d := Nat.pow_lt_pow_left hab hd
        _ = 10 ^ (d * a) := by rw [← Nat.pow_mul, Nat.mul_comm]
        _ < 10 ^ ((d * a / b + 1) * b) := Nat.pow_lt_pow_right (by omega) h1
        _ = (10 ^ (d * a / b + 1)) ^ b := by rw [Nat.pow_mul]
    exact (Nat.pow_lt_pow_iff_left (by omega)).mp h2

theorem two_pow_100000 : 2 ^ 100000 < 10 ^ 30103 := by decide +kernel
theorem two_pow_3321 : 2 ^ 3321 < 10 ^ 1000 := by decide +kernel

theorem natDigits_length_le (base v k : Nat) (h2 : 2 ≤ base) (h0 : 0 < v) (hk : v < base ^ k) :
    (natDigits base v).length ≤ k :=
  natDigitsF_length base h2 v v k h0 (Nat.le_refl _) hk

/-- `to_chars_capacity<T>` characters hold the numeral of every value of `T` -/
theorem intText_le_capacity (T : IntTy) (v : Int) (hr : T.InRange v) (hbits : 1 ≤ T.bits) :
    (intText 10 v).length ≤ intCapacity T := by
  have hp := pow_two_lt_pow_ten 30103 100000 (by omega) two_pow_100000 T.digits
  unfold intCapacity
  obtain ⟨hlo, hhi⟩ := hr
  by_cases hv : v = 0
  · simp [intText, hv]
  · by_cases hn : v < 0
    · rw [intText_length_neg 10 v hn]
      have hs : T.signed = true := by
        cases h : T.signed with
        | true => rfl
        | false => simp [IntTy.lowest, h] at hlo; omega
      have hd : T.digits = T.bits - 1 := by simp [IntTy.digits, hs]
      have hlt : (-v).toNat < 10 ^ (T.digits * 30103 / 100000 + 1) := by
        have : ((-v).toNat : Int) ≤ 2 ^ (T.bits - 1) := by
          simp [IntTy.lowest, hs] at hlo; omega
        have h' : (-v).toNat ≤ 2 ^ (T.bits - 1) := by exact_mod_cast this
        rw [hd] at hp ⊢; omega
      have := natDigits_length_le 10 (-v).toNat _ (by omega) (by omega) hlt
      simp [hs]; omega
    · have hpos : 0 < v := by omega
      rw [intText_length_pos 10 v hpos]
      have hlt : v.toNat < 10 ^ (T.digits * 30103 / 100000 + 1) := by
        have hmax : T.max < 2 ^ T.digits := by
          unfold IntTy.max IntTy.digits
          cases T.signed <;> simp <;> omega
        have : (v.toNat : Int) < 2 ^ T.digits := by
          have : (v.toNat : Int) = v := Int.toNat_of_nonneg (by omega)
          omega
        have h' : v.toNat < 2 ^ T.digits := by exact_mod_cast this
        omega
      have := natDigits_length_le 10 v.toNat _ (by omega) (by omega) hlt
      omega

/-! ### the repaired capacity in every base -/

/-- non-strict variant of `pow_two_lt_pow_ten` for any base: `2^b ≤ base^a` makes `a/b` an upper estimate of
`log_base 2`; `d·a/b + 1` digits hold every magnitude up to `2^d` INCLUSIVE (the most negative value of a
narrow signed type is printed too) -/
theorem pow_two_lt_pow_base (base a b : Nat) (h2 : 2 ≤ base) (hb : 0 < b) (hab : 2 ^ b ≤ base ^ a) (d : Nat) :
    2 ^ d < base ^ (d * a / b + 1) := by
  have h1 : d * a < (d * a / b + 1) * b := by
    have := Nat.lt_mul_div_succ (d * a) hb
    calc d * a < b * (d * a / b + 1) := this
      _ = (d * a / b + 1) * b := Nat.mul_comm _ _
  have h3 : (2 ^ d) ^ b < (base ^ (d * a / b + 1)) ^ b := by
    calc (2 ^ d) ^ b = (2 ^ b) ^ d := by rw [← Nat.pow_mul, ← Nat.pow_mul, Nat.mul_comm]
      _ ≤ (base ^ a) ^ d := Nat.pow_le_pow_left hab d
      _ = base ^ (d * a) := by rw [← Nat.pow_mul, Nat.mul_comm]
      _ < base ^ ((d * a / b + 1) * b) := Nat.pow_lt_pow_right (by omega) h1
      _ = (base ^ (d * a / b + 1)) ^ b := by rw [Nat.pow_mul]
  exact (Nat.pow_lt_pow_iff_left (by omega)).mp h3

/-- the table entries are upper estimates of `100000·log_base 2` (kernel arithmetic on 100000-bit numbers) -/
theorem digitsPerBit_3 : 2 ^ 100000 ≤ 3 ^ 63093 := by decide +kernel
theorem digitsPerBit_4 : 2 ^ 100000 ≤ 4 ^ 50000 := by decide +kernel
theorem digitsPerBit_8 : 2 ^ 100000 ≤ 8 ^ 33334 := by decide +kernel
theorem digitsPerBit_5 : 2 ^ 100000 ≤ 5 ^ 43068 := by decide +kernel
theorem digitsPerBit_6 : 2 ^ 100000 ≤ 6 ^ 38686 := by decide +kernel
theorem digitsPerBit_7 : 2 ^ 100000 ≤ 7 ^ 35621 := by decide +kernel
theorem digitsPerBit_9 : 2 ^ 100000 ≤ 9 ^ 31547 := by decide +kernel

theorem digitsPerBit_spec (base : Nat) (h2 : 2 ≤ base) (h10 : base < 10) :
    2 ^ 100000 ≤ base ^ digitsPerBit base := by
  have h : base = 2 ∨ base = 3 ∨ base = 4 ∨ base = 5 ∨ base = 6 ∨ base = 7 ∨ base = 8 ∨ base = 9 := by omega
  rcases h with h | h | h | h | h | h | h | h <;> subst h
  · exact Nat.le_refl _
  · exact digitsPerBit_3
  · exact digitsPerBit_4
  · exact digitsPerBit_5
  · exact digitsPerBit_6
  · exact digitsPerBit_7
  · exact digitsPerBit_8
  · exact digitsPerBit_9

/-- magnitude of every value of `T` is at most `2^digits` -/
theorem natAbs_le_two_pow_digits (T : IntTy) (v : Int) (hr : T.InRange v) (hbits : 1 ≤ T.bits) :
    v.natAbs ≤ 2 ^ T.digits := by
  obtain ⟨hlo, hhi⟩ := hr
  have hp : (0 : Int) < 2 ^ (T.bits - 1) := Int.pow_pos (by omega)
  have hq : (0 : Int) < 2 ^ T.bits := Int.pow_pos (by omega)
  have : (v.natAbs : Int) ≤ 2 ^ T.digits := by
    unfold IntTy.lowest at hlo; unfold IntTy.max at hhi; unfold IntTy.digits
    cases hs : T.signed <;> simp [hs] at hlo hhi ⊢ <;> omega
  exact_mod_cast this

theorem intText_length_le (base : Nat) (v : Int) (k : Nat) (h2 : 2 ≤ base) (hk : v.natAbs < base ^ k) :
    (intText base v).length ≤ (if v < 0 then 1 else 0) + k + (if v = 0 then 1 else 0) := by
  by_cases hv : v = 0
  · simp [intText, hv]
  · by_cases hn : v < 0
    · rw [intText_length_neg base v hn]
      have : (-v).toNat = v.natAbs := by omega
      have := natDigits_length_le base (-v).toNat k h2 (by omega) (by omega)
      simp [hn]; omega
    · rw [intText_length_pos base v (by omega)]
      have : v.toNat = v.natAbs := by omega
      have := natDigits_length_le base v.toNat k h2 (by omega) (by omega)
      simp [hn, hv]; omega

/-- `to_chars_capacity<T>{}(base)` characters hold the numeral of every value of `T` in every base -/
theorem intText_le_capacityB (T : IntTy) (v : Int) (base : Nat) (h2 : 2 ≤ base) (hr : T.InRange v)
    (hbits : 1 ≤ T.bits) : (intText base v).length ≤ intCapacityB T base := by
  have habs := natAbs_le_two_pow_digits T v hr hbits
  have hsgn : v < 0 → T.signed = true := by
    intro hn
    cases h : T.signed with
    | true => rfl
    | false => have := hr.1; simp [IntTy.lowest, h] at this; omega
  -- the number of digits granted, and that it is enough for `2^digits`
  have key : ∃ k, intCapacityB T base = (if T.signed then 1 else 0) + (k + 1) ∧ 2 ^ T.digits < base ^ (k + 1) := by
    unfold intCapacityB
    by_cases h10 : base < 10
    · refine ⟨T.digits * digitsPerBit base / 100000, by rw [if_pos h10], ?_⟩
      exact pow_two_lt_pow_base base (digitsPerBit base) 100000 h2 (by omega) (digitsPerBit_spec base h2 h10) T.digits
    · refine ⟨T.digits * 30103 / 100000, by rw [if_neg h10], ?_⟩
      have h := pow_two_lt_pow_ten 30103 100000 (by omega) two_pow_100000 T.digits
      exact Nat.lt_of_lt_of_le h (Nat.pow_le_pow_left (by omega) _)
  obtain ⟨k, hcap, hk⟩ := key
  have hlen := intText_length_le base v (k + 1) h2 (by omega)
  rw [hcap]
  by_cases hv : v = 0
  · subst hv
    have : (intText base 0).length = 1 := by simp [intText]
    omega
  · by_cases hn : v < 0
    · simp only [hsgn hn, if_true]
      simp only [hn, hv, if_true, if_false] at hlen
      omega
    · simp only [hn, hv, if_false] at hlen
      omega

/-! ### the numeral read back -/

theorem intText_value (base : Nat) (v : Int) (h2 : 2 ≤ base) (h36 : base ≤ 36) :
    Cnl.Spec.numeralValue base (intText base v) = some (decide (v < 0), v.natAbs) := by
  by_cases hv : v = 0
  · subst hv
    have : Cnl.Spec.digitVal '0' = some 0 := by decide
    have hb : 0 < base := by omega
    simp [intText, Cnl.Spec.numeralValue, Cnl.Spec.digitsValue, this, hb]
  · by_cases hn : v < 0
    · have hk := natDigitsF_value base h2 h36 (-v).toNat (-v).toNat (by omega) (Nat.le_refl _)
      obtain ⟨c, rest, he, _⟩ := natDigitsF_head base h2 h36 (-v).toNat (-v).toNat (by omega) (Nat.le_refl _)
      have he' : natDigits base (-v).toNat = c :: rest := he
      have hk' : Cnl.Spec.digitsValue base (natDigits base (-v).toNat) 0 = some (-v).toNat := hk
      simp only [intText, hv, hn, if_false, if_true, Cnl.Spec.numeralValue]
      rw [he'] at hk' ⊢
      simp [hk']; omega
    · have hpos : 0 < v := by omega
      have hk := natDigitsF_value base h2 h36 v.toNat v.toNat (by omega) (Nat.le_refl _)
      obtain ⟨c, rest, he, hc⟩ := natDigitsF_head base h2 h36 v.toNat v.toNat (by omega) (Nat.le_refl _)
      have he' : natDigits base v.toNat = c :: rest := he
      have hk' : Cnl.Spec.digitsValue base (natDigits base v.toNat) 0 = some v.toNat := hk
      have hcm : c ≠ '-' := by
        intro h; subst h
        rw [he'] at hk'
        simp [Cnl.Spec.digitsValue, Cnl.Spec.digitVal] at hk'
      simp only [intText, hv, hn, if_false]
      rw [he'] at hk' ⊢
      unfold Cnl.Spec.numeralValue
      split
      · rename_i heq; cases heq
      · rename_i heq; cases heq; exact absurd rfl hcm
      · simp [hk', hn]; omega

/-- no leading zero, no sign on its own -/
theorem intText_canonical (base : Nat) (v : Int) (h2 : 2 ≤ base) (h36 : base ≤ 36) (hv : v ≠ 0) :
    ∃ c rest, natDigits base v.natAbs = c :: rest ∧ c ≠ '0' :=
  natDigitsF_head base h2 h36 v.natAbs v.natAbs (by omega) (Nat.le_refl _)

/-! ### termination of the repaired `descale` -/

/-- `significand *= k` in a signed type: exact and in range, or undefined — never a silent change -/
theorem mulS_signed {S : IntTy} (hs : S.signed = true) {a : Int} {k : Nat} {v : Int}
    (h : mulS S a k = .ok v) : v = a * k ∧ S.lowest ≤ v ∧ v ≤ S.max := by
  unfold mulS arith at h
  simp only [hs, if_true] at h
  by_cases hr : S.InRange (a * k)
  · simp only [hr, if_true] at h
    cases h
    exact ⟨rfl, hr.1, hr.2⟩
  · simp only [hr, if_false] at h
    cases h

theorem mulS_cases (S : IntTy) (a : Int) (k : Nat) :
    (∃ v, mulS S a k = .ok v) ∨ (∃ u, mulS S a k = .ub u) := by
  unfold mulS
  split
  · exact Or.inl ⟨_, rfl⟩
  · exact Or.inr ⟨_, rfl⟩
  · exact Or.inr ⟨_, rfl⟩

/-- magnitude bound of a signed type -/
theorem natAbs_le_of_range {S : IntTy} (hs : S.signed = true) {v : Int} (h1 : S.lowest ≤ v) (h2 : v ≤ S.max) :
    v.natAbs ≤ 2 ^ (S.bits - 1) := by
  have hp : (0 : Int) < 2 ^ (S.bits - 1) := Int.pow_pos (by omega)
  simp only [IntTy.lowest, IntTy.max, hs, if_true] at h1 h2
  have : (v.natAbs : Int) ≤ 2 ^ (S.bits - 1) := by omega
  exact_mod_cast this

theorem descaleNeg_terminates (S : IntTy) (hs : S.signed = true) (neg : Bool) (R : Nat)
    (B : Nat) (hB : B = 2 ^ (S.bits - 1)) :
    ∀ fuel sig x ie k,
      ie * (B + 2) + (B - sig.natAbs) + 1 ≤ fuel →
      descaleNeg S neg R fuel sig x ie k ≠ .diverges := by
  intro fuel
  induction fuel with
  | zero => intro sig x ie k h; omega
  | succ n ih =>
    intro sig x ie k h
    cases ie with
    | zero => simp [descaleNeg]
    | succ ie =>
      rw [Nat.succ_mul] at h
      by_cases hc : sig.tmod R ≠ 0 ∧ oobSig S 10 neg sig = false
      · simp only [descaleNeg, hc, and_self, if_true, ne_eq, not_false_eq_true]
        rcases mulS_cases S sig 10 with ⟨s', hm⟩ | ⟨u, hm⟩
        · rw [hm]
          obtain ⟨he, hlo, hhi⟩ := mulS_signed hs hm
          simp only
          apply ih
          have hb := natAbs_le_of_range hs hlo hhi
          rw [← hB] at hb
          have hne : sig ≠ 0 := by
            intro h0; subst h0; simp at hc
          have h1 : s'.natAbs = sig.natAbs * 10 := by
            rw [he, Int.natAbs_mul]; rfl
          have h2 : 0 < sig.natAbs := Int.natAbs_pos.mpr hne
          rw [Nat.succ_mul]
          omega
        · rw [hm]; simp
      · simp only [descaleNeg, hc, if_false]
        apply ih
        omega


theorem max_ge_127 (S : IntTy) (hs : S.signed = true) (h8 : 8 ≤ S.bits) : 127 ≤ S.max := by
  have h : (2 : Int) ^ 7 ≤ 2 ^ (S.bits - 1) := two_pow_le (by omega)
  simp only [IntTy.max, hs, if_true]
  have : (2 : Int) ^ 7 = 128 := by decide
  omega

theorem descalePos_terminates (S : IntTy) (hs : S.signed = true) (h8 : 8 ≤ S.bits) (neg : Bool) (R : Nat)
    (hR : 1 ≤ R) (H : Nat) (hH : 1 ≤ H) (hHS : 10 * (H : Int) ≤ S.max) (B : Nat) (hB : B = 2 ^ (S.bits - 1)) :
    ∀ fuel sig x ie k, sig ≠ 0 → sig.natAbs ≤ B →
      ie * (B + 2) + sig.natAbs + 1 ≤ fuel →
      descalePos S H neg R fuel sig x ie k ≠ .diverges := by
  have hM := max_ge_127 S hs h8
  have hQ : 10 ≤ S.max / (H : Int) := Int.le_ediv_of_mul_le (by omega) hHS
  intro fuel
  induction fuel with
  | zero => intro sig x ie k _ _ h; omega
  | succ n ih =>
    intro sig x ie k hne hle h
    have habs := Int.natAbs_eq sig
    have hpos : 0 < sig.natAbs := Int.natAbs_pos.mpr hne
    have h10 : (sig.tmod 10).natAbs = sig.natAbs % 10 := Int.natAbs_tmod sig 10
    have hd10 : (sig.tdiv 10).natAbs = sig.natAbs / 10 := Int.natAbs_tdiv sig 10
    by_cases h1 : ie = 0 ∧ sig.tmod 10 ≠ 0
    · simp [descalePos, h1]
    · by_cases h2 : sig.tmod 10 = 0 ∨ oobSig S H neg sig = true
      · simp only [descalePos, h1, h2, if_false, if_true]
        have hbig : 10 ≤ sig.natAbs := by
          rcases h2 with h2 | h2
          · rw [h2] at h10; simp at h10; omega
          · unfold oobSig at h2
            generalize S.max / (H : Int) = Q at hQ h2
            cases neg with
            | true => simp only [if_true, decide_eq_true_eq] at h2; omega
            | false => simp at h2; omega
        apply ih
        · intro h0; rw [h0] at hd10; simp at hd10; omega
        · omega
        · omega
      · simp only [descalePos, h1, h2, if_false]
        have htm : sig.tmod 10 ≠ 0 := fun h0 => h2 (Or.inl h0)
        have hie : ie ≠ 0 := fun h0 => h1 ⟨h0, htm⟩
        rcases mulS_cases S sig R with ⟨s', hm⟩ | ⟨u, hm⟩
        · rw [hm]
          obtain ⟨he, hlo, hhi⟩ := mulS_signed hs hm
          simp only
          have hs'0 : s' ≠ 0 := by
            rw [he]
            intro h0
            rcases Int.mul_eq_zero.mp h0 with h0 | h0
            · exact hne h0
            · omega
          rw [if_neg hs'0]
          have hb := natAbs_le_of_range hs hlo hhi
          rw [← hB] at hb
          cases ie with
          | zero => exact absurd rfl hie
          | succ j =>
            rw [Nat.succ_mul] at h
            apply ih
            · exact hs'0
            · exact hb
            · simp only [Nat.add_sub_cancel]; omega
        · rw [hm]; simp


/-- the repaired `descale` returns (a value or undefined behaviour — never an endless loop) for every input,
exponent and input radix `R` with `10·max(R,10) ≤ max` (every `int` radix for a 64-bit significand), for every
signed significand type of at least 8 bits -/
theorem descale_terminates (S : IntTy) (hs : S.signed = true) (h8 : 8 ≤ S.bits) (input e : Int) (R : Nat)
    (hR : 1 ≤ R) (hRS : 10 * (R : Int) ≤ S.max) (hr : S.InRange input) : descale S input e R ≠ .diverges := by
  unfold descale
  by_cases h0 : input = 0
  · simp [h0]
  · simp only [h0, if_false]
    rw [IntTy.wrap_id (by omega) hr]
    have hBC : 2 ^ (S.bits - 1) ≤ 2 ^ S.bits := Nat.pow_le_pow_right (by omega) (by omega)
    have hmul : e.natAbs * (2 ^ (S.bits - 1) + 2) ≤ e.natAbs * (2 ^ S.bits + 2) :=
      Nat.mul_le_mul_left _ (by omega)
    have hfuel : descaleFuel S e.natAbs = e.natAbs * (2 ^ S.bits + 2) + (2 ^ S.bits + 2) + 1 := by
      unfold descaleFuel; rw [Nat.succ_mul]
    have hle := natAbs_le_of_range hs hr.1 hr.2
    by_cases hn : e < 0
    · simp only [hn, if_true]
      apply descaleNeg_terminates S hs _ R (2 ^ (S.bits - 1)) rfl
      rw [hfuel]; omega
    · simp only [hn, if_false]
      apply descalePos_terminates S hs h8 _ R hR (headroomRadix R) (by unfold headroomRadix; omega)
        (by have := max_ge_127 S hs h8; unfold headroomRadix; omega) (2 ^ (S.bits - 1)) rfl _ _ _ _ _ h0 hle
      rw [hfuel]; omega


/-! ### the two `fill`s and the scaled routine -/

theorem slice_some (ds : List Char) (lo hi : Int) (h0 : 0 ≤ lo) (h1 : lo ≤ hi) (h2 : hi ≤ ds.length) :
    ∃ t, slice ds lo hi = some t ∧ (t.length : Int) = hi - lo := by
  refine ⟨(ds.take hi.toNat).drop lo.toNat, by simp [slice, h1], ?_⟩
  simp only [List.length_drop, List.length_take]
  omega

theorem choose_sci {i : Info} {s : Sci} (h : choose i = .sci s) : s = solveSci i ∧ 0 < s.numSig := by
  unfold choose at h
  simp only at h
  split at h
  · rename_i hc; cases h; exact ⟨rfl, hc.1⟩
  · split at h <;> cases h

theorem choose_fixed {i : Info} {f : Fixed} (h : choose i = .fixed f) : f = solveFixed i ∧ 0 < f.numSig := by
  unfold choose at h
  simp only at h
  split at h
  · cases h
  · split at h
    · rename_i hc; cases h; exact ⟨rfl, hc⟩
    · cases h

theorem sciText_length (ds : List Char) (i : Info) (expText : List Char) (hn : i.numSig = ds.length)
    (he : i.expChars = expText.length) (hpos : 0 < (solveSci i).numSig) :
    ∃ t, sciText ds (solveSci i) expText = some t ∧ (t.length : Int) = (solveSci i).numChars := by
  have hle : (solveSci i).numSig ≤ ds.length := by simp only [solveSci]; omega
  obtain ⟨rest, hr, hl⟩ := slice_some ds 1 (solveSci i).numSig (by omega) (by omega) hle
  refine ⟨ds.take 1 ++ ['.'] ++ rest ++ ['e'] ++ expText, by simp [sciText, hr], ?_⟩
  have hds : 1 ≤ ds.length := by omega
  simp only [List.length_append, List.length_take, List.length_cons, List.length_nil]
  simp only [solveSci] at hl hpos ⊢
  omega

theorem fixedText_length (ds : List Char) (i : Info) (hn : i.numSig = ds.length) (hm : 0 ≤ i.maxChars)
    (hpos : 0 < (solveFixed i).numSig) :
    ∃ t, fixedText ds i.exponent (solveFixed i) i.maxChars = some t ∧ (t.length : Int) = (solveFixed i).numChars := by
  by_cases h : i.numSig + i.exponent > i.maxChars
  · simp [solveFixed, h] at hpos
  · by_cases hr : i.exponent < 0
    · -- a radix point: digits before it, '.', leading zeros, digits after it
      have e1 : (solveFixed i).leadingZeros = max 0 (-(i.numSig + i.exponent)) := by simp [solveFixed, h]
      have e2 : (solveFixed i).trailingZeros = 0 := by simp [solveFixed, h]; omega
      have e3 : (solveFixed i).hasRadix = true := by simp [solveFixed, h, hr]
      have e4 : (solveFixed i).numSig = i.numSig - max 0 (i.numSig + (solveFixed i).leadingZeros + 1 - i.maxChars) := by
        simp [solveFixed, h, hr]; omega
      have e5 : (solveFixed i).numChars = i.numSig + (solveFixed i).leadingZeros + 1 - max 0 (i.numSig + (solveFixed i).leadingZeros + 1 - i.maxChars) := by
        simp [solveFixed, h, hr]; omega
      generalize solveFixed i = f at *
      obtain ⟨ns, nc, L, Tz, hrx⟩ := f
      simp only at e1 e2 e3 e4 e5 hpos
      subst e2 e3
      unfold fixedText
      simp only [ne_eq, not_true_eq_false, if_false, if_true]
      by_cases hroom : max 0 ((ds.length : Int) + min 0 i.exponent) < i.maxChars
      · simp only [hroom, if_true]
        obtain ⟨frac, hf, hl⟩ := slice_some ds (max 0 ((ds.length : Int) + min 0 i.exponent)) ns
          (by omega) (by omega) (by omega)
        rw [hf]
        refine ⟨_, rfl, ?_⟩
        simp only [List.length_append, List.length_take, List.length_cons, List.length_nil, List.length_replicate]
        omega
      · simp only [hroom, if_false]
        refine ⟨_, rfl, ?_⟩
        simp only [List.length_take]
        omega
    · have e1 : (solveFixed i).leadingZeros = max 0 (-(i.numSig + i.exponent)) := by simp [solveFixed, h]
      have e2 : (solveFixed i).trailingZeros = i.exponent := by simp [solveFixed, h]; omega
      have e3 : (solveFixed i).hasRadix = false := by simp [solveFixed, h, hr]
      have e4 : (solveFixed i).numSig = i.numSig := by
        simp [solveFixed, h, hr]; omega
      have e5 : (solveFixed i).numChars = i.numSig + i.exponent := by
        simp [solveFixed, h, hr]; omega
      generalize solveFixed i = f at *
      obtain ⟨ns, nc, L, Tz, hrx⟩ := f
      simp only at e1 e2 e3 e4 e5 hpos
      subst e2 e3 e4 e5
      unfold fixedText
      simp only
      by_cases htz : i.exponent ≠ 0
      · simp only [htz, if_true, ne_eq, not_false_eq_true]
        refine ⟨_, rfl, ?_⟩
        simp only [List.length_append, List.length_take, List.length_replicate]
        omega
      · simp only [htz, if_false]
        by_cases hroom : max 0 ((ds.length : Int) + min 0 i.exponent) < i.maxChars
        · simp only [hroom, if_true]
          obtain ⟨frac, hf, hl⟩ := slice_some ds (max 0 ((ds.length : Int) + min 0 i.exponent)) i.numSig
            (by omega) (by omega) (by omega)
          rw [hf]
          refine ⟨_, rfl, ?_⟩
          simp only [List.length_append, List.length_take, List.length_cons, List.length_nil, List.length_replicate, Bool.false_eq_true, if_false]
          omega
        · simp only [hroom, if_false]
          refine ⟨_, rfl, ?_⟩
          simp only [List.length_take]
          omega


theorem fixed_numSig_le_numChars (i : Info) (hpos : 0 < (solveFixed i).numSig) :
    (solveFixed i).numSig ≤ (solveFixed i).numChars := by
  by_cases h : i.numSig + i.exponent > i.maxChars
  · simp [solveFixed, h] at hpos
  · simp only [solveFixed, h, if_false] at hpos ⊢
    by_cases hr : i.exponent < 0 <;> simp [hr] at hpos ⊢ <;> omega

theorem put_ok (b : Buf) (i : Nat) (cs : List Char) (h : i + cs.length ≤ b.len) :
    b.put i cs = .ok ⟨b.len, b.cells.take i ++ cs.map some ++ b.cells.drop (i + cs.length)⟩ := by
  simp [Buf.put, h]

/-- `_impl::to_chars_positive` of the scaled routine, for every digit string, exponent, buffer and offset:
either nothing is written and `{last, value_too_large}` is returned, or a non-empty text `t` that fits is
written at `[first, first + |t|)`, nothing else changes, and `{first + |t|, errc{}}` is returned.
In particular: never `oob`, never a failed assertion. -/
theorem toCharsPositive_contract (b : Buf) (first : Nat) (ds : List Char) (x : Int)
    (hds : ds ≠ []) (hf : first ≤ b.len) :
    toCharsPositive b first ds x = .ok ⟨some b.len, false, b⟩ ∨
    ∃ t : List Char, 0 < t.length ∧ first + t.length ≤ b.len ∧
      toCharsPositive b first ds x = .ok ⟨some (first + t.length), true,
        ⟨b.len, b.cells.take first ++ t.map some ++ b.cells.drop (first + t.length)⟩⟩ := by
  have hlen : 0 < ds.length := List.length_pos_iff.mpr hds
  unfold toCharsPositive toCharsPositiveWith
  simp only
  generalize hE : intText 10 (x + ↑ds.length - 1) = expText
  generalize hI : (⟨(ds.length : Int), x, (b.len : Int) - first, (expText.length : Int)⟩ : Info) = info
  have hn : info.numSig = ds.length := by rw [← hI]
  have he : info.expChars = expText.length := by rw [← hI]
  have hx : info.exponent = x := by rw [← hI]
  have hmc : info.maxChars = (b.len : Int) - first := by rw [← hI]
  have hm0 : 0 ≤ info.maxChars := by omega
  cases hc : choose info with
  | tooLarge => exact Or.inl rfl
  | sci s =>
    obtain ⟨hs, hpos⟩ := choose_sci hc
    subst hs
    right
    obtain ⟨t, ht, hl⟩ := sciText_length ds info expText hn he hpos
    have hfit := sci_fits info hpos (by omega)
    have hnc : 0 < (solveSci info).numChars := by simp only [solveSci] at hpos ⊢; omega
    have hput : first + t.length ≤ b.len := by omega
    refine ⟨t, by omega, hput, ?_⟩
    have hnp : ¬ ((solveSci info).numSig ≤ 0) := by omega
    simp only [hnp, if_false, ht, fillText, put_ok b first t hput]
    have : ¬ ((t.length : Int) ≠ (solveSci info).numChars) := by omega
    simp only [this, if_false]
  | fixed f =>
    obtain ⟨hs, hpos⟩ := choose_fixed hc
    subst hs
    right
    obtain ⟨t, ht, hl⟩ := fixedText_length ds info hn hm0 hpos
    have hfit := fixed_fits info hpos
    have hge := fixed_numSig_le_numChars info hpos
    have hput : first + t.length ≤ b.len := by omega
    refine ⟨t, by omega, hput, ?_⟩
    rw [hx, hmc] at ht
    simp only [ht, fillText, put_ok b first t hput]
    have : ¬ ((t.length : Int) ≠ (solveFixed info).numChars) := by omega
    simp only [this, if_false]


theorem splice_get (cells : List (Option Char)) (first : Nat) (t : List Char)
    (h : first + t.length ≤ cells.length) (i : Nat) :
    (cells.take first ++ t.map some ++ cells.drop (first + t.length))[i]? =
      if first ≤ i ∧ i < first + t.length then (t[i - first]?).map some else cells[i]? := by
  have hl : (cells.take first).length = first := by simp; omega
  by_cases h1 : i < first
  · have c : ¬ (first ≤ i ∧ i < first + t.length) := by omega
    rw [if_neg c, List.append_assoc, List.getElem?_append_left (by omega)]
    simp [List.getElem?_take, h1]
  · by_cases h2 : i < first + t.length
    · have c : (first ≤ i ∧ i < first + t.length) := by omega
      rw [if_pos c, List.append_assoc, List.getElem?_append_right (by omega), hl,
        List.getElem?_append_left (by simp; omega)]
      simp
    · have c : ¬ (first ≤ i ∧ i < first + t.length) := by omega
      rw [if_neg c, List.getElem?_append_right (by simp; omega)]
      simp only [List.length_append, List.length_map, hl, List.getElem?_drop]
      congr 1; omega


theorem splice_length (cells : List (Option Char)) (first : Nat) (t : List Char)
    (h : first + t.length ≤ cells.length) :
    (cells.take first ++ t.map some ++ cells.drop (first + t.length)).length = cells.length := by
  simp only [List.length_append, List.length_take, List.length_map, List.length_drop]
  omega

/-- a text spliced at `first` into a buffer whose cells `[0, first)` are written and whose other cells are
untouched leaves exactly `[0, first + |t|)` written -/
theorem contract_of_splice (b : Buf) (len first : Nat) (t : List Char) (hbl : b.len = len) (hw : b.WF)
    (hpre : ∀ i, i < first → ∃ c, b.cells[i]? = some (some c))
    (hpost : ∀ i, first ≤ i → i < len → b.cells[i]? = some none)
    (ht : 0 < t.length) (hfit : first + t.length ≤ b.len) :
    Contract len ⟨some (first + t.length), true,
      ⟨b.len, b.cells.take first ++ t.map some ++ b.cells.drop (first + t.length)⟩⟩ := by
  have hcl : first + t.length ≤ b.cells.length := by rw [hw]; exact hfit
  refine ⟨hbl, ?_, ?_, ?_⟩
  · simp only [Buf.WF]; rw [splice_length _ _ _ hcl]; exact hw
  · intro _
    refine ⟨first + t.length, rfl, by omega, by omega, ?_, ?_⟩
    · intro i hi
      simp only
      rw [splice_get _ _ _ hcl]
      by_cases h1 : first ≤ i
      · rw [if_pos ⟨h1, hi⟩]
        have : i - first < t.length := by omega
        exact ⟨t[i - first], by simp [List.getElem?_eq_getElem this]⟩
      · have c : ¬ (first ≤ i ∧ i < first + t.length) := by omega
        rw [if_neg c]; exact hpre i (by omega)
    · intro i h1 h2
      simp only
      rw [splice_get _ _ _ hcl]
      have c : ¬ (first ≤ i ∧ i < first + t.length) := by omega
      rw [if_neg c]; exact hpost i (by omega) h2
  · intro h; simp at h

theorem contract_of_failure (b : Buf) (len : Nat) (hbl : b.len = len) (hw : b.WF) :
    Contract len ⟨some b.len, false, b⟩ := by
  refine ⟨hbl, hw, ?_, ?_⟩
  · intro h; simp at h
  · intro _; rw [hbl]

/-- `cnl::to_chars` on a non-zero `scaled_integer`, given what `descale` returned -/
theorem scaledToChars_contract (T : IntTy) (e : Int) (radix len : Nat) (rep : Int) (d : Desc)
    (hlen : len ≠ 0) (hrep : rep ≠ 0)
    (hd : descale (sigTy T) rep e radix = .ok d) (h0 : d.sig ≠ 0) :
    ∃ r, scaledToChars T e radix len rep = .ok r ∧ Contract len r := by
  have hds : natDigits 10 d.sig.natAbs ≠ [] := by
    have := natDigitsF_pos 10 d.sig.natAbs d.sig.natAbs (Int.natAbs_pos.mpr h0)
    intro h; unfold natDigits at h; rw [h] at this; simp at this
  have hpos : 0 < len := Nat.pos_of_ne_zero hlen
  unfold scaledToChars scaledToCharsWith
  simp only [hlen, hrep, if_false, hd, h0]
  by_cases hn : d.sig < 0
  · simp only [hn, if_true, Buf.write, Buf.fresh, hpos]
    have hw' : (⟨len, (List.replicate len (none : Option Char)).set 0 (some '-')⟩ : Buf).WF := by simp [Buf.WF]
    rcases toCharsPositive_contract ⟨len, (List.replicate len none).set 0 (some '-')⟩ 1 _ d.exp hds (by simp; omega) with h | ⟨t, ht0, htf, h⟩
    · exact ⟨_, h, contract_of_failure _ len rfl hw'⟩
    · refine ⟨_, h, contract_of_splice _ len 1 t rfl hw' ?_ ?_ ht0 htf⟩
      · intro i hi
        have : i = 0 := by omega
        subst this
        exact ⟨'-', by simp [List.getElem?_set]; omega⟩
      · intro i h1 h2
        simp only
        rw [List.getElem?_set]
        have : ¬ (0 = i) := by omega
        simp [this, List.getElem?_replicate, h2]
  · simp only [hn, if_false]
    rcases toCharsPositive_contract (Buf.fresh len) 0 _ d.exp hds (Nat.zero_le _) with h | ⟨t, ht0, htf, h⟩
    · exact ⟨_, h, contract_of_failure _ len rfl (fresh_WF len)⟩
    · refine ⟨_, h, contract_of_splice _ len 0 t rfl (fresh_WF len) ?_ ?_ ht0 htf⟩
      · intro i hi; omega
      · intro i _ h2; exact fresh_get len i h2


/-! ### `descale` returns: loop invariant (range, sign, non-zero), and the composed theorem -/

/-- the loop invariant of `descale` on the significand: in range of `S`, non-zero, sign as the input's -/
def SigOK (S : IntTy) (neg : Bool) (sig : Int) : Prop :=
  S.lowest ≤ sig ∧ sig ≤ S.max ∧ (if neg = true then sig < 0 else 0 < sig)

theorem sigOK_ne_zero {S : IntTy} {neg : Bool} {sig : Int} (h : SigOK S neg sig) : ¬ (sig = 0) := by
  obtain ⟨_, _, h3⟩ := h
  cases neg <;> simp at h3 <;> omega

theorem lowest_signed (S : IntTy) (hs : S.signed = true) : S.lowest = -S.max - 1 := by
  simp only [IntTy.lowest, IntTy.max, hs, if_true]; omega

/-- either a two's complement signed type, or an unsigned one -/
theorem lowest_cases (S : IntTy) : S.lowest = -S.max - 1 ∨ (S.lowest = 0 ∧ S.signed = false) := by
  cases hs : S.signed with
  | true => left; simp only [IntTy.lowest, IntTy.max, hs, if_true]; omega
  | false => right; simp [IntTy.lowest, hs]

theorem max_ge_127_any (S : IntTy) (h8 : 8 ≤ S.bits) : 127 ≤ S.max := by
  have h : (2 : Int) ^ 7 ≤ 2 ^ (S.bits - 1) := two_pow_le (by omega)
  have h' : (2 : Int) ^ 7 ≤ 2 ^ S.bits := two_pow_le (by omega)
  have : (2 : Int) ^ 7 = 128 := by decide
  unfold IntTy.max
  split <;> omega

/-- magnitude bound of any type -/
theorem natAbs_le_of_range_any {S : IntTy} {v : Int} (h1 : S.lowest ≤ v) (h2 : v ≤ S.max) :
    v.natAbs ≤ 2 ^ S.bits := by
  have hp : (0 : Int) < 2 ^ (S.bits - 1) := Int.pow_pos (by omega)
  have hq : (2 : Int) ^ (S.bits - 1) ≤ 2 ^ S.bits := two_pow_le (by omega)
  have : (v.natAbs : Int) ≤ 2 ^ S.bits := by
    unfold IntTy.lowest at h1; unfold IntTy.max at h2
    cases hs : S.signed <;> simp [hs] at h1 h2 <;> omega
  exact_mod_cast this

theorem mulS_ok {S : IntTy} (hb : 1 ≤ S.bits) {a : Int} {k : Nat} (h : S.InRange (a * k)) :
    mulS S a k = .ok (a * k) := by
  unfold mulS; rw [arith_ok hb h]

theorem step_mul10 (S : IntTy) (neg : Bool) (sig : Int)
    (h : SigOK S neg sig) (ho : oobSig S 10 neg sig = false) :
    S.InRange (sig * (10 : Nat)) ∧ SigOK S neg (sig * (10 : Nat)) := by
  have hl := lowest_cases S
  obtain ⟨h1, h2, h3⟩ := h
  unfold oobSig at ho
  unfold SigOK IntTy.InRange
  cases neg with
  | true =>
    simp only [if_true, decide_eq_false_iff_not] at ho h3 ⊢
    have : ((10 : Nat) : Int) = 10 := rfl
    rw [this]; omega
  | false =>
    simp at ho h3 ⊢
    have : ((10 : Nat) : Int) = 10 := rfl
    omega

/-- the quotient `max / H` of the headroom test: at least ten, and `(max/H)·H ≤ max < (max/H + 1)·H` -/
theorem headroom_quot (S : IntTy) (H : Nat) (hH : 1 ≤ H) (hHS : 10 * (H : Int) ≤ S.max) :
    10 ≤ S.max / (H : Int) ∧ S.max / (H : Int) * H ≤ S.max ∧ S.max < (S.max / (H : Int) + 1) * H := by
  have hpos : (0 : Int) < H := by omega
  exact ⟨Int.le_ediv_of_mul_le hpos hHS, Int.ediv_mul_le _ (by omega), Int.lt_ediv_add_one_mul_self _ hpos⟩

/-- inside the headroom for `H ≥ R`, `significand *= R` stays in the type -/
theorem step_mulR (S : IntTy) (H : Nat) (neg : Bool) (sig : Int) (R : Nat)
    (hR1 : 1 ≤ R) (hRH : R ≤ H) (hH : 1 ≤ H) (hHS : 10 * (H : Int) ≤ S.max)
    (h : SigOK S neg sig) (ho : oobSig S H neg sig = false) :
    S.InRange (sig * R) ∧ SigOK S neg (sig * R) := by
  have hl := lowest_cases S
  obtain ⟨hQ10, hQH, _⟩ := headroom_quot S H hH hHS
  obtain ⟨h1, h2, h3⟩ := h
  have hRi1 : (1 : Int) ≤ R := by exact_mod_cast hR1
  have hRH' : (R : Int) ≤ H := by exact_mod_cast hRH
  unfold oobSig at ho
  generalize S.max / (H : Int) = Q at hQ10 hQH ho
  have hQR : Q * R ≤ Q * H := Int.mul_le_mul_of_nonneg_left hRH' (by omega)
  unfold SigOK IntTy.InRange
  cases neg with
  | true =>
    simp only [if_true, decide_eq_false_iff_not] at ho h3 ⊢
    have a1 : -Q * R ≤ sig * R := Int.mul_le_mul_of_nonneg_right (by omega) (by omega)
    rw [Int.neg_mul] at a1
    have a2 : sig * R ≤ sig * 1 := Int.mul_le_mul_of_nonpos_left (by omega) hRi1
    omega
  | false =>
    simp at ho h3 ⊢
    have a1 : sig * R ≤ Q * R := Int.mul_le_mul_of_nonneg_right (by omega) (by omega)
    have a2 : sig * 1 ≤ sig * R := Int.mul_le_mul_of_nonneg_left hRi1 (by omega)
    omega

theorem step_div (S : IntTy) (hl0 : S.lowest ≤ 0) (hm0 : 0 ≤ S.max) (neg : Bool) (sig : Int) (k : Nat) (hk2 : 2 ≤ k)
    (h : SigOK S neg sig) (hbig : sig.tmod k = 0 ∨ k ≤ sig.natAbs) :
    SigOK S neg (sig.tdiv k) := by
  obtain ⟨h1, h2, h3⟩ := h
  have hq : (sig.tdiv k).natAbs = sig.natAbs / k := natAbs_tdiv_nat sig k
  have hne : sig ≠ 0 := by
    cases neg <;> simp at h3 <;> omega
  have hpos : 0 < sig.natAbs := Int.natAbs_pos.mpr hne
  have hge : k ≤ sig.natAbs := by
    rcases hbig with hb | hb
    · have hm : (sig.tmod k).natAbs = sig.natAbs % k := natAbs_tmod_nat sig k
      rw [hb] at hm
      exact Nat.le_of_dvd hpos (Nat.dvd_of_mod_eq_zero (by simpa using hm.symm))
    · exact hb
  have hq1 : 0 < sig.natAbs / k := Nat.div_pos hge (by omega)
  have hq2 : sig.natAbs / k ≤ sig.natAbs := Nat.div_le_self _ _
  have e1 := Int.natAbs_eq sig
  have e2 := Int.natAbs_eq (sig.tdiv k)
  unfold SigOK
  cases neg with
  | true =>
    simp only [if_true] at h3 ⊢
    have hs : 0 ≤ (-sig).tdiv k := Int.tdiv_nonneg (by omega) (by omega)
    rw [Int.neg_tdiv] at hs
    omega
  | false =>
    simp at h3 ⊢
    have hs : 0 ≤ sig.tdiv k := Int.tdiv_nonneg (by omega) (by omega)
    omega

theorem oob_big (S : IntTy) (hM : 127 ≤ S.max) (neg : Bool) (sig : Int) (h : SigOK S neg sig)
    (ho : oobSig S 10 neg sig = true) : 13 ≤ sig.natAbs := by
  obtain ⟨_, _, h3⟩ := h
  unfold oobSig at ho
  cases neg with
  | true => simp only [if_true, decide_eq_true_eq] at ho h3; omega
  | false => simp at ho h3; omega

/-- out of the headroom for a factor of ten, the magnitude is at least any radix `R` with `10·R ≤ max` -/
theorem oob_ge_radix (S : IntTy) (R : Nat) (hRS : 10 * (R : Int) ≤ S.max) (neg : Bool) (sig : Int) (h : SigOK S neg sig)
    (ho : oobSig S 10 neg sig = true) : R ≤ sig.natAbs := by
  obtain ⟨_, _, h3⟩ := h
  unfold oobSig at ho
  cases neg with
  | true => simp only [if_true, decide_eq_true_eq] at ho h3; omega
  | false => simp at ho h3; omega

/-- out of the headroom for any `H` with `10·H ≤ max`, the magnitude is at least eleven -/
theorem oob_bigH (S : IntTy) (H : Nat) (hH : 1 ≤ H) (hHS : 10 * (H : Int) ≤ S.max) (neg : Bool) (sig : Int)
    (h : SigOK S neg sig) (ho : oobSig S H neg sig = true) : 11 ≤ sig.natAbs := by
  obtain ⟨hQ10, _, _⟩ := headroom_quot S H hH hHS
  obtain ⟨_, _, h3⟩ := h
  unfold oobSig at ho
  generalize S.max / (H : Int) = Q at hQ10 ho
  cases neg with
  | true => simp only [if_true, decide_eq_true_eq] at ho h3; omega
  | false => simp at ho h3; omega

theorem sigOK_bounds (S : IntTy) : S.lowest ≤ 0 ∧ 0 ≤ S.max := by
  have hp : (0 : Int) < 2 ^ (S.bits - 1) := Int.pow_pos (by omega)
  have hq : (0 : Int) < 2 ^ S.bits := Int.pow_pos (by omega)
  unfold IntTy.lowest IntTy.max
  cases S.signed <;> simp <;> omega

theorem descaleNeg_ok (S : IntTy) (h8 : 8 ≤ S.bits) (neg : Bool) (R : Nat)
    (hR2 : 2 ≤ R) (hRS : 10 * (R : Int) ≤ S.max) (B : Nat) (hB : B = 2 ^ S.bits) :
    ∀ fuel sig x ie k, SigOK S neg sig →
      ie * (B + 2) + (B - sig.natAbs) + 1 ≤ fuel →
      ∃ d, descaleNeg S neg R fuel sig x ie k = .ok d ∧ SigOK S neg d.sig := by
  have hM := max_ge_127_any S h8
  obtain ⟨hl0, hm0⟩ := sigOK_bounds S
  intro fuel
  induction fuel with
  | zero => intro sig x ie k _ h; omega
  | succ n ih =>
    intro sig x ie k hok h
    cases ie with
    | zero => exact ⟨⟨sig, x, k⟩, by simp [descaleNeg], hok⟩
    | succ ie =>
      rw [Nat.succ_mul] at h
      by_cases hc : sig.tmod R ≠ 0 ∧ oobSig S 10 neg sig = false
      · obtain ⟨hin, hok'⟩ := step_mul10 S neg sig hok hc.2
        simp only [descaleNeg, hc, and_self, if_true, ne_eq, not_false_eq_true, mulS_ok (by omega) hin]
        apply ih _ _ _ _ hok'
        have hb := natAbs_le_of_range_any hok'.1 hok'.2.1
        rw [← hB] at hb
        have hne : sig ≠ 0 := by
          intro h0; subst h0; simp at hc
        have h1 : (sig * ((10 : Nat) : Int)).natAbs = sig.natAbs * 10 := by
          rw [Int.natAbs_mul]; rfl
        have h2 : 0 < sig.natAbs := Int.natAbs_pos.mpr hne
        rw [Nat.succ_mul]
        omega
      · simp only [descaleNeg, hc, if_false]
        have hbig : sig.tmod R = 0 ∨ R ≤ sig.natAbs := by
          by_cases ht : sig.tmod R = 0
          · exact Or.inl ht
          · right
            have ho : oobSig S 10 neg sig = true := by
              cases hoo : oobSig S 10 neg sig with
              | true => rfl
              | false => exact absurd ⟨ht, hoo⟩ hc
            exact oob_ge_radix S R hRS neg sig hok ho
        apply ih _ _ _ _ (step_div S hl0 hm0 neg sig R hR2 hok hbig)
        omega

theorem descalePos_ok (S : IntTy) (h8 : 8 ≤ S.bits) (neg : Bool) (R : Nat)
    (hR1 : 1 ≤ R) (H : Nat) (hRH : R ≤ H) (hH : 1 ≤ H) (hHS : 10 * (H : Int) ≤ S.max) (B : Nat) (hB : B = 2 ^ S.bits) :
    ∀ fuel sig x ie k, SigOK S neg sig →
      ie * (B + 2) + sig.natAbs + 1 ≤ fuel →
      ∃ d, descalePos S H neg R fuel sig x ie k = .ok d ∧ SigOK S neg d.sig := by
  have hM := max_ge_127_any S h8
  obtain ⟨hl0, hm0⟩ := sigOK_bounds S
  intro fuel
  induction fuel with
  | zero => intro sig x ie k _ h; omega
  | succ n ih =>
    intro sig x ie k hok h
    have hd10 : (sig.tdiv 10).natAbs = sig.natAbs / 10 := Int.natAbs_tdiv sig 10
    by_cases h1 : ie = 0 ∧ sig.tmod 10 ≠ 0
    · exact ⟨⟨sig, x, k⟩, by simp [descalePos, h1], hok⟩
    · by_cases h2 : sig.tmod 10 = 0 ∨ oobSig S H neg sig = true
      · simp only [descalePos, h1, h2, if_false, if_true]
        have hbig : sig.tmod ((10 : Nat) : Int) = 0 ∨ 10 ≤ sig.natAbs := by
          rcases h2 with h2 | h2
          · exact Or.inl h2
          · right; have := oob_bigH S H hH hHS neg sig hok h2; omega
        have hsd : SigOK S neg (sig.tdiv 10) := step_div S hl0 hm0 neg sig 10 (by omega) hok hbig
        apply ih _ _ _ _ hsd
        have hne : sig ≠ 0 := by
          obtain ⟨_, _, h3⟩ := hok
          cases neg <;> simp at h3 <;> omega
        have hpos : 0 < sig.natAbs := Int.natAbs_pos.mpr hne
        omega
      · simp only [descalePos, h1, h2, if_false]
        have htm : sig.tmod 10 ≠ 0 := fun h0 => h2 (Or.inl h0)
        have hie : ie ≠ 0 := fun h0 => h1 ⟨h0, htm⟩
        have ho : oobSig S H neg sig = false := by
          cases hoo : oobSig S H neg sig with
          | false => rfl
          | true => exact absurd (Or.inr hoo) h2
        obtain ⟨hin, hok'⟩ := step_mulR S H neg sig R hR1 hRH hH hHS hok ho
        simp only [mulS_ok (by omega) hin, sigOK_ne_zero hok', if_false]
        have hb := natAbs_le_of_range_any hok'.1 hok'.2.1
        rw [← hB] at hb
        cases ie with
        | zero => exact absurd rfl hie
        | succ j =>
          rw [Nat.succ_mul] at h
          apply ih _ _ _ _ hok'
          simp only [Nat.add_sub_cancel]; omega

/-- the headroom radix of the loop for non-negative exponents is at least ten and at least the input radix -/
theorem headroom_ge (R : Nat) : 10 ≤ headroomRadix R ∧ R ≤ headroomRadix R := by
  unfold headroomRadix; omega

theorem headroom_fits (S : IntTy) (h8 : 8 ≤ S.bits) (R : Nat) (hRS : 10 * (R : Int) ≤ S.max) :
    10 * ((headroomRadix R : Nat) : Int) ≤ S.max := by
  have := max_ge_127_any S h8
  unfold headroomRadix; omega

/-- the repaired `descale` returns a non-zero in-range significand of the input's sign for every non-zero
input: no overflow (`ub`), no endless loop -/
theorem descale_ok (S : IntTy) (h8 : 8 ≤ S.bits) (input e : Int) (R : Nat)
    (hR2 : 2 ≤ R) (hRS : 10 * (R : Int) ≤ S.max) (hr : S.InRange input) (h0 : input ≠ 0) :
    ∃ d, descale S input e R = .ok d ∧ SigOK S (decide (input < 0)) d.sig := by
  unfold descale
  simp only [h0, if_false]
  rw [IntTy.wrap_id (by omega) hr]
  have hok : SigOK S (decide (input < 0)) input := by
    refine ⟨hr.1, hr.2, ?_⟩
    by_cases hn : input < 0 <;> simp [hn]; omega
  have hBC : 2 ^ (S.bits - 1) ≤ 2 ^ S.bits := Nat.pow_le_pow_right (by omega) (by omega)
  have hmul : e.natAbs * (2 ^ (S.bits - 1) + 2) ≤ e.natAbs * (2 ^ S.bits + 2) :=
    Nat.mul_le_mul_left _ (by omega)
  have hfuel : descaleFuel S e.natAbs = e.natAbs * (2 ^ S.bits + 2) + (2 ^ S.bits + 2) + 1 := by
    unfold descaleFuel; rw [Nat.succ_mul]
  have hle := natAbs_le_of_range_any hr.1 hr.2
  by_cases hn : e < 0
  · simp only [hn, if_true]
    apply descaleNeg_ok S h8 _ R hR2 hRS (2 ^ S.bits) rfl _ _ _ _ _ hok
    rw [hfuel]; omega
  · simp only [hn, if_false]
    apply descalePos_ok S h8 _ R (by omega) (headroomRadix R) (headroom_ge R).2 (by have := (headroom_ge R).1; omega)
      (headroom_fits S h8 R hRS) (2 ^ S.bits) rfl _ _ _ _ _ hok
    rw [hfuel]; omega


theorem sigTy_bits (T : IntTy) : 8 ≤ (sigTy T).bits := by
  unfold sigTy
  split
  · rename_i h; unfold IntTy.digits at h; split at h <;> omega
  · decide

/-- the significand type has at least 64 bits: ten times any `int` radix fits -/
theorem sigTy_max_ge (T : IntTy) : 2 ^ 63 - 1 ≤ (sigTy T).max := by
  unfold sigTy
  split
  · rename_i h
    unfold IntTy.digits at h
    unfold IntTy.max
    cases hs : T.signed
    · simp only [hs, Bool.false_eq_true, if_false] at h ⊢
      have hp : (2 : Int) ^ 63 ≤ 2 ^ T.bits := two_pow_le (by omega)
      omega
    · simp only [hs, if_true] at h ⊢
      have hp : (2 : Int) ^ 63 ≤ 2 ^ (T.bits - 1) := two_pow_le (by omega)
      omega
  · decide

/-- `Radix` is an `int` template parameter: `10·Radix ≤ max(significand type)` always holds -/
theorem sigTy_radix_fits (T : IntTy) (radix : Nat) (h : radix < 2 ^ 31) : 10 * (radix : Int) ≤ (sigTy T).max := by
  have h1 := sigTy_max_ge T
  have h2 : (radix : Int) < 2 ^ 31 := by exact_mod_cast h
  have e63 : (2 : Int) ^ 63 = 9223372036854775808 := by decide
  have e31 : (2 : Int) ^ 31 = 2147483648 := by decide
  omega

/-- `cnl::to_chars` on `scaled_integer<T, power<e, radix>>` for every value, exponent, buffer length and every radix
`≥ 2` (with `10·radix ≤ max` of the significand type: every `int` radix, `sigTy_radix_fits`), signed or unsigned
significand type (`int64_t` for every rep of at most 63 digits, or the wider rep): the call returns normally and meets
the C13 contract.  No exception is left: the most negative significand has a numeral since the repair. -/
theorem scaledToChars_stays_inside (T : IntTy) (e : Int) (radix len : Nat) (rep : Int)
    (hr : (sigTy T).InRange rep) (hR2 : 2 ≤ radix) (hRS : 10 * (radix : Int) ≤ (sigTy T).max) :
    ∃ r, scaledToChars T e radix len rep = .ok r ∧ Contract len r := by
  by_cases hlen : len = 0
  · subst hlen
    exact ⟨⟨some 0, false, Buf.fresh 0⟩, by simp [scaledToChars, scaledToCharsWith],
      contract_of_failure (Buf.fresh 0) 0 rfl (fresh_WF 0)⟩
  · by_cases hrep : rep = 0
    · have hpos : 0 < len := Nat.pos_of_ne_zero hlen
      refine ⟨⟨some 1, true, ⟨len, (List.replicate len none).set 0 (some '0')⟩⟩, ?_, rfl, ?_, ?_, ?_⟩
      · simp [scaledToChars, scaledToCharsWith, hlen, hrep, Buf.write, Buf.fresh, hpos]
      · simp [Buf.WF]
      · intro _
        refine ⟨1, rfl, by omega, hpos, ?_, ?_⟩
        · intro i hi
          have : i = 0 := by omega
          subst this
          exact ⟨'0', by simp [List.getElem?_set]; omega⟩
        · intro i h1 h2
          simp only
          rw [List.getElem?_set]
          have : ¬ (0 = i) := by omega
          simp [this, List.getElem?_replicate, h2]
      · intro h; simp at h
    · obtain ⟨d, hd, hok⟩ := descale_ok (sigTy T) (sigTy_bits T) rep e radix hR2 hRS hr hrep
      have h0 : d.sig ≠ 0 := by
        obtain ⟨_, _, h3⟩ := hok
        by_cases hn : rep < 0 <;> simp [hn] at h3 <;> omega
      exact scaledToChars_contract T e radix len rep d hlen hrep hd h0

/-- in particular for an UNSIGNED significand type (`uint64_t`, `unsigned __int128`, wider unsigned reps) -/
theorem scaledToChars_stays_inside_unsigned (T : IntTy) (e : Int) (radix len : Nat) (rep : Int)
    (_hS : (sigTy T).signed = false) (hr : (sigTy T).InRange rep) (hR2 : 2 ≤ radix)
    (hRS : 10 * (radix : Int) ≤ (sigTy T).max) :
    ∃ r, scaledToChars T e radix len rep = .ok r ∧ Contract len r :=
  scaledToChars_stays_inside T e radix len rep hr hR2 hRS

/-- an unsigned significand type is the rep type itself -/
theorem sigTy_unsigned (T : IntTy) (hS : (sigTy T).signed = false) : sigTy T = T := by
  unfold sigTy at hS ⊢
  split
  · rfl
  · rename_i h; rw [if_neg h] at hS; exact absurd hS (by decide)

/-- termination for every significand type, signed or not, and every radix with `10·R ≤ max` -/
theorem descale_terminates_any (S : IntTy) (h8 : 8 ≤ S.bits) (input e : Int) (R : Nat)
    (hR2 : 2 ≤ R) (hRS : 10 * (R : Int) ≤ S.max) (hr : S.InRange input) : descale S input e R ≠ .diverges := by
  by_cases h0 : input = 0
  · simp [descale, h0]
  · obtain ⟨d, hd, _⟩ := descale_ok S h8 input e R hR2 hRS hr h0
    rw [hd]; intro h; cases h

/-! ### the text left in the buffer by the integer routine -/

/-- the text of a result whose cells `[0, |t|)` hold the characters of `t` -/
theorem text_of_cells (r : TCR) (t : List Char) (hp : r.ptr = some t.length)
    (hc : ∀ i, i < t.length → r.buf.cells[i]? = (t[i]?).map some) : r.text = t := by
  unfold TCR.text
  rw [hp]
  apply List.ext_getElem?
  intro i
  simp only [List.getElem?_map, List.getElem?_take]
  by_cases hi : i < t.length
  · simp only [hi, if_true, hc i hi]
    simp [List.getElem?_eq_getElem hi]
  · simp only [hi, if_false]
    simp [List.getElem?_eq_none (Nat.le_of_not_lt hi)]

/-- on success the buffer holds exactly the canonical numeral -/
theorem intToChars_text (T : IntTy) (len : Nat) (v : Int) (base : Nat)
    (hb : 2 ≤ base ∧ base ≤ 36)
    (hu : T.signed = false → 0 ≤ v) :
    ∃ r, intToChars T (Buf.fresh len) v base = .ok r ∧ (r.ok = true → r.text = intText base v) := by
  have hbb : ¬ (base < 2 ∨ base > 36) := by omega
  unfold intToChars
  rw [if_neg hbb]
  by_cases hv : v = 0
  · rw [if_pos hv]
    by_cases hl : len = 0
    · subst hl
      exact ⟨⟨some 0, false, Buf.fresh 0⟩, by simp [Buf.fresh], by intro h; simp at h⟩
    · have hl' : (Buf.fresh len).len ≠ 0 := hl
      have h0 : 0 < (Buf.fresh len).len := Nat.pos_of_ne_zero hl
      simp only [hl', if_false, Buf.write, h0, if_true]
      refine ⟨_, rfl, ?_⟩
      intro _
      have ht : intText base v = ['0'] := by simp [intText, hv]
      rw [ht]
      apply text_of_cells _ ['0'] rfl
      intro i hi
      have : i = 0 := by simpa using hi
      subst this
      simp [Buf.fresh, List.getElem?_set]; omega
  · rw [if_neg hv]
    by_cases hn : T.signed = true ∧ v < 0
    · rw [if_pos hn]
      by_cases hl : len < 2
      · have : (Buf.fresh len).len < 2 := hl
        rw [if_pos this]
        exact ⟨_, rfl, by intro h; simp at h⟩
      · have h2 : ¬ (Buf.fresh len).len < 2 := hl
        have h0 : 0 < (Buf.fresh len).len := by simp only [Buf.fresh]; omega
        rw [if_neg h2]
        simp only [Buf.write, h0, if_true]
        rw [negToChars_eq _ 1 v base hn.2 hb.1]
        have hw' : (⟨(Buf.fresh len).len, (Buf.fresh len).cells.set 0 (some '-')⟩ : Buf).WF := by
          simp [Buf.WF, Buf.fresh]
        obtain ⟨r, hr, _, _, hro, hrp, hrc⟩ :=
          natToChars_spec ⟨(Buf.fresh len).len, (Buf.fresh len).cells.set 0 (some '-')⟩ 1 (-v).toNat base hw'
            (by simp only [Buf.fresh]; omega)
        refine ⟨r, hr, ?_⟩
        intro hok
        rw [hro] at hok
        have hfit : 1 + (natDigits base (-v).toNat).length ≤ (Buf.fresh len).len := of_decide_eq_true hok
        have ht : intText base v = '-' :: natDigits base (-v).toNat := by simp [intText, hv, hn.2]
        rw [ht]
        apply text_of_cells
        · rw [hrp]; simp only [hfit, if_true, List.length_cons]; congr 1; omega
        · intro i hi
          simp only [List.length_cons] at hi
          rw [hrc i]
          by_cases h1 : 1 ≤ i
          · have c : (1 ≤ i ∧ i < 1 + (natDigits base (-v).toNat).length ∧ i < (Buf.fresh len).len) := by
              refine ⟨h1, by omega, ?_⟩; omega
            rw [if_pos c]
            have : i = (i - 1) + 1 := by omega
            rw [this, List.getElem?_cons_succ]; simp
          · have c : ¬ (1 ≤ i ∧ i < 1 + (natDigits base (-v).toNat).length ∧ i < (Buf.fresh len).len) := by omega
            rw [if_neg c]
            have : i = 0 := by omega
            subst this
            simp [Buf.fresh, List.getElem?_set]; omega
    · rw [if_neg hn]
      have hpos : 0 < v := by
        cases hs : T.signed with
        | false => have := hu hs; omega
        | true =>
          have : ¬ v < 0 := fun h => hn ⟨hs, h⟩
          omega
      obtain ⟨r, hr, _, _, hro, hrp, hrc⟩ :=
        natToChars_spec (Buf.fresh len) 0 v.toNat base (fresh_WF len) (Nat.zero_le _)
      refine ⟨r, hr, ?_⟩
      intro hok
      rw [hro] at hok
      have hfit : 0 + (natDigits base v.toNat).length ≤ (Buf.fresh len).len := of_decide_eq_true hok
      have hnn : ¬ v < 0 := by omega
      have ht : intText base v = natDigits base v.toNat := by simp [intText, hv, hnn]
      rw [ht]
      apply text_of_cells
      · rw [hrp]; simp only [hfit, if_true]; simp
      · intro i hi
        rw [hrc i]
        have c : (0 ≤ i ∧ i < 0 + (natDigits base v.toNat).length ∧ i < (Buf.fresh len).len) := by
          refine ⟨Nat.zero_le _, by omega, ?_⟩; omega
        rw [if_pos c]; simp


/-! ### C14, fractional half: the value invariant of `descale` -/

theorem natAbs_split (sig : Int) (k : Nat) :
    sig.natAbs = k * (sig.tdiv k).natAbs + (sig.tmod k).natAbs := by
  rw [natAbs_tdiv_nat, natAbs_tmod_nat]; exact (Nat.div_add_mod _ _).symm

theorem oob_gt (S : IntTy) (H : Nat) (hH : 1 ≤ H) (hHS : 10 * (H : Int) ≤ S.max) (neg : Bool) (sig : Int)
    (h : SigOK S neg sig) (ho : oobSig S H neg sig = true) : S.max.toNat < H * sig.natAbs := by
  obtain ⟨hQ10, _, hQlt⟩ := headroom_quot S H hH hHS
  obtain ⟨_, _, h3⟩ := h
  unfold oobSig at ho
  generalize S.max / (H : Int) = Q at hQ10 hQlt ho
  have hc : ((H * sig.natAbs : Nat) : Int) = (sig.natAbs : Int) * H := by rw [Int.natCast_mul, Int.mul_comm]
  have hge : Q + 1 ≤ (sig.natAbs : Int) := by
    cases neg with
    | true => simp only [if_true, decide_eq_true_eq] at ho h3; omega
    | false => simp at ho h3; omega
  have hm : (Q + 1) * H ≤ (sig.natAbs : Int) * H := Int.mul_le_mul_of_nonneg_right hge (by omega)
  omega

theorem div_step_arith (R a' r T M A Q j c : Nat)
    (h1 : A * Q ≤ a' * T)
    (h2 : a' * T * M ≤ A * Q * M + a' * T * (j * c))
    (hr : r = 0 ∨ r * M ≤ c * (R * a' + r)) :
    A * (Q * R) ≤ (R * a' + r) * T ∧
    (R * a' + r) * T * M ≤ A * (Q * R) * M + (R * a' + r) * T * ((j + if r = 0 then 0 else 1) * c) := by
  have f1 := Nat.mul_le_mul_left R h1
  have f2 := Nat.mul_le_mul_left R h2
  constructor
  · grind
  · by_cases h0 : r = 0
    · subst h0; simp only [if_true]; grind
    · have hr' : r * M ≤ c * (R * a' + r) := by
        rcases hr with h | h
        · exact absurd h h0
        · exact h
      have f3 := Nat.mul_le_mul_right T hr'
      simp only [h0, if_false]
      grind

/-- the remainder lost by a division that happens out of headroom is small against the significand -/
theorem lossy_rem_small (S : IntTy) (neg : Bool) (sig : Int) (R : Nat) (hR1 : 1 ≤ R)
    (H : Nat) (hH : 1 ≤ H) (hHS : 10 * (H : Int) ≤ S.max) (hok : SigOK S neg sig)
    (h : sig.tmod R = 0 ∨ oobSig S H neg sig = true) :
    (sig.tmod R).natAbs = 0 ∨
    (sig.tmod R).natAbs * S.max.toNat ≤ H * (R - 1) * (R * (sig.tdiv R).natAbs + (sig.tmod R).natAbs) := by
  rcases h with h | h
  · left; rw [h]; rfl
  · right
    rw [← natAbs_split]
    have h1 := oob_gt S H hH hHS neg sig hok h
    have h2 : (sig.tmod R).natAbs ≤ R - 1 := by
      rw [natAbs_tmod_nat]
      have := Nat.mod_lt sig.natAbs (by omega : 0 < R)
      omega
    have := Nat.mul_le_mul h2 (Nat.le_of_lt h1)
    grind

/-- value invariant of the negative-exponent loop, relative to the state it is entered with:
`m` multiplications by ten and `j` lossy divisions later, `|d.sig|·R^ie ≤ |sig|·10^m`, and the shortfall is at most
`j · 10(R−1)/max` of the entry value -/
theorem descaleNeg_value (S : IntTy) (h8 : 8 ≤ S.bits) (neg : Bool) (R : Nat)
    (hR2 : 2 ≤ R) (hRS : 10 * (R : Int) ≤ S.max) :
    ∀ fuel sig x ie k d, SigOK S neg sig → descaleNeg S neg R fuel sig x ie k = .ok d →
      ∃ m j : Nat, d.exp = x - m ∧ d.lossy = k + j ∧
        d.sig.natAbs * R ^ ie ≤ sig.natAbs * 10 ^ m ∧
        sig.natAbs * 10 ^ m * S.max.toNat ≤
          d.sig.natAbs * R ^ ie * S.max.toNat + sig.natAbs * 10 ^ m * (j * (10 * (R - 1))) ∧
        j ≤ ie := by
  have hM := max_ge_127_any S h8
  obtain ⟨hl0, hm0⟩ := sigOK_bounds S
  intro fuel
  induction fuel with
  | zero => intro sig x ie k d _ h; simp [descaleNeg] at h
  | succ n ih =>
    intro sig x ie k d hok h
    cases ie with
    | zero =>
      simp only [descaleNeg] at h
      cases h
      exact ⟨0, 0, by simp, by simp, by simp, by simp, Nat.le_refl _⟩
    | succ ie =>
      by_cases hc : sig.tmod R ≠ 0 ∧ oobSig S 10 neg sig = false
      · obtain ⟨hin, hok'⟩ := step_mul10 S neg sig hok hc.2
        simp only [descaleNeg, hc, and_self, if_true, ne_eq, not_false_eq_true, mulS_ok (by omega) hin] at h
        obtain ⟨m, j, e1, e2, e3, e4, e5⟩ := ih _ _ _ _ _ hok' h
        have hn : (sig * ((10 : Nat) : Int)).natAbs = sig.natAbs * 10 := by
          rw [Int.natAbs_mul]; rfl
        rw [hn] at e3 e4
        refine ⟨m + 1, j, by omega, e2, ?_, ?_, e5⟩
        · rw [Nat.pow_succ]; grind
        · rw [Nat.pow_succ]; grind
      · simp only [descaleNeg, hc, if_false] at h
        have hor : sig.tmod R = 0 ∨ oobSig S 10 neg sig = true := by
          by_cases ht : sig.tmod R = 0
          · exact Or.inl ht
          · right
            cases hoo : oobSig S 10 neg sig with
            | true => rfl
            | false => exact absurd ⟨ht, hoo⟩ hc
        have hbig : sig.tmod R = 0 ∨ R ≤ sig.natAbs := by
          rcases hor with ht | ho
          · exact Or.inl ht
          · right; exact oob_ge_radix S R hRS neg sig hok ho
        have hok' := step_div S hl0 hm0 neg sig R hR2 hok hbig
        obtain ⟨m, j, e1, e2, e3, e4, e5⟩ := ih _ _ _ _ _ hok' h
        have hsm := lossy_rem_small S neg sig R (by omega) 10 (by omega) (by omega) hok hor
        have hsplit := natAbs_split sig R
        obtain ⟨g1, g2⟩ := div_step_arith R (sig.tdiv R).natAbs (sig.tmod R).natAbs (10 ^ m) S.max.toNat
          d.sig.natAbs (R ^ ie) j (10 * (R - 1)) e3 e4 hsm
        rw [← hsplit] at g1 g2
        refine ⟨m, j + (if (sig.tmod R).natAbs = 0 then 0 else 1), e1, ?_, ?_, ?_, by split <;> omega⟩
        · rw [e2]
          by_cases ht : sig.tmod R = 0
          · have h0 : (sig.tmod R).natAbs = 0 := by omega
            have hn : ¬ (sig.tmod R ≠ 0) := by omega
            rw [if_neg hn, if_pos h0]; rfl
          · have h0 : (sig.tmod R).natAbs ≠ 0 := by omega
            rw [if_pos ht, if_neg h0]; omega
        · rw [Nat.pow_succ]; exact g1
        · rw [Nat.pow_succ]; exact g2

/-- value invariant of the non-negative-exponent loop, relative to the state it is entered with -/
theorem descalePos_value (S : IntTy) (h8 : 8 ≤ S.bits) (neg : Bool) (R : Nat)
    (hR1 : 1 ≤ R) (H : Nat) (hRH : R ≤ H) (hH : 1 ≤ H) (hHS : 10 * (H : Int) ≤ S.max) :
    ∀ fuel sig x ie k d, SigOK S neg sig → descalePos S H neg R fuel sig x ie k = .ok d →
      ∃ m j : Nat, d.exp = x + m ∧ d.lossy = k + j ∧
        d.sig.natAbs * 10 ^ m ≤ sig.natAbs * R ^ ie ∧
        sig.natAbs * R ^ ie * S.max.toNat ≤
          d.sig.natAbs * 10 ^ m * S.max.toNat + sig.natAbs * R ^ ie * (j * (H * 9)) := by
  have hM := max_ge_127_any S h8
  obtain ⟨hl0, hm0⟩ := sigOK_bounds S
  intro fuel
  induction fuel with
  | zero => intro sig x ie k d _ h; simp [descalePos] at h
  | succ n ih =>
    intro sig x ie k d hok h
    by_cases h1 : ie = 0 ∧ sig.tmod 10 ≠ 0
    · simp only [descalePos, h1, and_self, if_true, ne_eq, not_false_eq_true] at h
      cases h
      refine ⟨0, 0, by simp, by simp, ?_, ?_⟩ <;> simp [h1.1]
    · by_cases h2 : sig.tmod 10 = 0 ∨ oobSig S H neg sig = true
      · simp only [descalePos, h1, h2, if_false, if_true] at h
        have hor : sig.tmod ((10 : Nat) : Int) = 0 ∨ oobSig S H neg sig = true := h2
        have hbig : sig.tmod ((10 : Nat) : Int) = 0 ∨ 10 ≤ sig.natAbs := by
          rcases h2 with h2 | h2
          · exact Or.inl h2
          · right; have := oob_bigH S H hH hHS neg sig hok h2; omega
        have hok' : SigOK S neg (sig.tdiv 10) := step_div S hl0 hm0 neg sig 10 (by omega) hok hbig
        obtain ⟨m, j, e1, e2, e3, e4⟩ := ih _ _ _ _ _ hok' h
        have hsm := lossy_rem_small S neg sig 10 (by omega) H hH hHS hok hor
        have hsplit := natAbs_split sig 10
        have e3' : d.sig.natAbs * 10 ^ m ≤ (sig.tdiv ((10 : Nat) : Int)).natAbs * R ^ ie := e3
        have e4' : (sig.tdiv ((10 : Nat) : Int)).natAbs * R ^ ie * S.max.toNat ≤
            d.sig.natAbs * 10 ^ m * S.max.toNat + (sig.tdiv ((10 : Nat) : Int)).natAbs * R ^ ie * (j * (H * 9)) := e4
        obtain ⟨g1, g2⟩ := div_step_arith 10 (sig.tdiv ((10 : Nat) : Int)).natAbs (sig.tmod ((10 : Nat) : Int)).natAbs (R ^ ie)
          S.max.toNat d.sig.natAbs (10 ^ m) j (H * 9) e3' e4' hsm
        rw [← hsplit] at g1 g2
        refine ⟨m + 1, j + (if (sig.tmod ((10 : Nat) : Int)).natAbs = 0 then 0 else 1), by omega, ?_, ?_, ?_⟩
        · rw [e2]
          by_cases ht : sig.tmod 10 = 0
          · have h0 : (sig.tmod ((10 : Nat) : Int)).natAbs = 0 := by
              have : sig.tmod ((10 : Nat) : Int) = 0 := ht
              omega
            have hn : ¬ (sig.tmod 10 ≠ 0) := by omega
            rw [if_neg hn, if_pos h0]; rfl
          · have h0 : (sig.tmod ((10 : Nat) : Int)).natAbs ≠ 0 := by
              have : sig.tmod ((10 : Nat) : Int) ≠ 0 := ht
              omega
            rw [if_pos ht, if_neg h0]; omega
        · rw [Nat.pow_succ]; exact g1
        · rw [Nat.pow_succ]; exact g2
      · simp only [descalePos, h1, h2, if_false] at h
        have htm : sig.tmod 10 ≠ 0 := fun h0 => h2 (Or.inl h0)
        have hie : ie ≠ 0 := fun h0 => h1 ⟨h0, htm⟩
        have ho : oobSig S H neg sig = false := by
          cases hoo : oobSig S H neg sig with
          | false => rfl
          | true => exact absurd (Or.inr hoo) h2
        obtain ⟨hin, hok'⟩ := step_mulR S H neg sig R hR1 hRH hH hHS hok ho
        simp only [mulS_ok (by omega) hin, sigOK_ne_zero hok', if_false] at h
        cases ie with
        | zero => exact absurd rfl hie
        | succ i =>
          simp only [Nat.add_sub_cancel] at h
          obtain ⟨m, j, e1, e2, e3, e4⟩ := ih _ _ _ _ _ hok' h
          have hn : (sig * (R : Int)).natAbs = sig.natAbs * R := by
            rw [Int.natAbs_mul]; rfl
          rw [hn] at e3 e4
          refine ⟨m, j, e1, e2, ?_, ?_⟩
          · rw [Nat.pow_succ]; grind
          · rw [Nat.pow_succ]; grind
/-- loss per lossy division, as a multiple of `value / max`: `10(R−1)` in the negative-exponent loop (the
remainder of a division by `R` is at most `R−1`, the significand exceeds `max/10`), `9·max(R,10)` in the other (the
remainder of a division by ten is at most 9, the significand exceeds `max/max(R,10)`): `90` for the radixes 2…10 -/
def lossUnit (R : Nat) (e : Int) : Nat := if e < 0 then 10 * (R - 1) else headroomRadix R * 9

theorem lossUnit_le (R : Nat) (e : Int) (hR : R ≤ 10) : lossUnit R e ≤ 90 := by
  unfold lossUnit headroomRadix; split <;> omega

/-- **value invariant of `descale`** (signed significand type, every input, exponent, radix `R ≥ 2` with `10·R ≤ max`):
with `num/den = |input|·R^e`, `s = |d.sig|`, `x = d.exp`:
`s·10^x ≤ num/den` and `num/den − s·10^x ≤ (num/den) · lossy · lossUnit / max`, cross-multiplied in ℕ -/
theorem descale_value (S : IntTy) (h8 : 8 ≤ S.bits) (input e : Int) (R : Nat)
    (hR2 : 2 ≤ R) (hRS : 10 * (R : Int) ≤ S.max) (hr : S.InRange input) (h0 : input ≠ 0) (d : Desc)
    (hd : descale S input e R = .ok d) :
    d.sig.natAbs * 10 ^ d.exp.toNat * (exactFrac input.natAbs R e).2 ≤
      (exactFrac input.natAbs R e).1 * 10 ^ (-d.exp).toNat ∧
    (exactFrac input.natAbs R e).1 * 10 ^ (-d.exp).toNat * S.max.toNat ≤
      d.sig.natAbs * 10 ^ d.exp.toNat * (exactFrac input.natAbs R e).2 * S.max.toNat +
      (exactFrac input.natAbs R e).1 * 10 ^ (-d.exp).toNat * (d.lossy * lossUnit R e) := by
  unfold descale at hd
  simp only [h0, if_false] at hd
  rw [IntTy.wrap_id (by omega) hr] at hd
  have hok : SigOK S (decide (input < 0)) input := by
    refine ⟨hr.1, hr.2, ?_⟩
    by_cases hn : input < 0 <;> simp [hn]; omega
  by_cases hn : e < 0
  · simp only [hn, if_true] at hd
    obtain ⟨m, j, e1, e2, e3, e4, _⟩ := descaleNeg_value S h8 _ R hR2 hRS _ _ _ _ _ d hok hd
    have hx1 : d.exp.toNat = 0 := by omega
    have hx2 : (-d.exp).toNat = m := by omega
    have hge : ¬ e ≥ 0 := by omega
    have hie : (-e).toNat = e.natAbs := by omega
    have hj : d.lossy = j := by omega
    simp only [exactFrac, hge, if_false, hx1, hx2, lossUnit, hn, if_true, hie, hj, Nat.pow_zero, Nat.mul_one]
    exact ⟨e3, e4⟩
  · simp only [hn, if_false] at hd
    obtain ⟨m, j, e1, e2, e3, e4⟩ := descalePos_value S h8 _ R (by omega) (headroomRadix R) (headroom_ge R).2 (by have := (headroom_ge R).1; omega)
      (headroom_fits S h8 R hRS) _ _ _ _ _ d hok hd
    have hx1 : d.exp.toNat = m := by omega
    have hx2 : (-d.exp).toNat = 0 := by omega
    have hge : e ≥ 0 := by omega
    have hie : e.toNat = e.natAbs := by omega
    have hj : d.lossy = j := by omega
    simp only [exactFrac, hge, if_true, hx1, hx2, lossUnit, hn, if_false, hie, hj, Nat.pow_zero, Nat.mul_one]
    exact ⟨e3, e4⟩


/-- for a negative exponent at most `|e|` divisions happen at all, so at most `|e|` are lossy -/
theorem descale_lossy_le (S : IntTy) (h8 : 8 ≤ S.bits) (input e : Int) (R : Nat)
    (hR2 : 2 ≤ R) (hRS : 10 * (R : Int) ≤ S.max) (hr : S.InRange input) (h0 : input ≠ 0) (he : e < 0) (d : Desc)
    (hd : descale S input e R = .ok d) : d.lossy ≤ e.natAbs := by
  unfold descale at hd
  simp only [h0, if_false] at hd
  rw [IntTy.wrap_id (by omega) hr] at hd
  have hok : SigOK S (decide (input < 0)) input := by
    refine ⟨hr.1, hr.2, ?_⟩
    by_cases hn : input < 0 <;> simp [hn]; omega
  simp only [he, if_true] at hd
  obtain ⟨m, j, _, e2, _, _, e5⟩ := descaleNeg_value S h8 _ R hR2 hRS _ _ _ _ _ d hok hd
  omega

theorem two_pow_mod_five (n : Nat) : ((2 : Int) ^ n) % 5 ≠ 0 := by
  induction n with
  | zero => decide
  | succ k ih => rw [Int.pow_succ]; omega

/-- after a division by ten the significand is back inside the headroom -/
theorem not_oob_after_div (S : IntTy) (neg : Bool) (sig : Int) (h : SigOK S neg sig) :
    oobSig S 10 neg (sig.tdiv 10) = false := by
  obtain ⟨h1, h2, h3⟩ := h
  unfold oobSig
  cases neg with
  | true =>
    simp only [if_true, decide_eq_false_iff_not] at h3 ⊢
    -- only a signed type has negative values
    have hs : S.signed = true := by
      cases hs : S.signed with
      | true => rfl
      | false => simp [IntTy.lowest, hs] at h1; omega
    have hl := lowest_signed S hs
    have hp := two_pow_mod_five (S.bits - 1)
    have hmax : S.max = 2 ^ (S.bits - 1) - 1 := by simp only [IntTy.max, hs, if_true]
    have e1 : sig.tdiv 10 = -((-sig).tdiv 10) := by rw [Int.neg_tdiv]; omega
    have e2 : (-sig).tdiv 10 = (-sig) / 10 := Int.tdiv_eq_ediv_of_nonneg (by omega)
    rw [e1, e2]
    generalize (2 : Int) ^ (S.bits - 1) = P at *
    omega
  | false =>
    simp at h3 ⊢
    have e2 : sig.tdiv 10 = sig / 10 := Int.tdiv_eq_ediv_of_nonneg (by omega)
    rw [e2]
    omega

/-- a lossy division needs the significand out of headroom, and only a multiplication by the input radix takes it
there: at most one lossy division per unit of the input exponent, plus one at the start -/
theorem descalePos_lossy_le (S : IntTy) (h8 : 8 ≤ S.bits) (neg : Bool) (R : Nat)
    (hR1 : 1 ≤ R) (hR : R ≤ 10) :
    ∀ fuel sig x ie k d, SigOK S neg sig → descalePos S 10 neg R fuel sig x ie k = .ok d →
      d.lossy ≤ k + ie + (if oobSig S 10 neg sig = true then 1 else 0) := by
  have hM := max_ge_127_any S h8
  obtain ⟨hl0, hm0⟩ := sigOK_bounds S
  intro fuel
  induction fuel with
  | zero => intro sig x ie k d _ h; simp [descalePos] at h
  | succ n ih =>
    intro sig x ie k d hok h
    by_cases h1 : ie = 0 ∧ sig.tmod 10 ≠ 0
    · simp only [descalePos, h1, and_self, if_true, ne_eq, not_false_eq_true] at h
      cases h; simp only; omega
    · by_cases h2 : sig.tmod 10 = 0 ∨ oobSig S 10 neg sig = true
      · simp only [descalePos, h1, h2, if_false, if_true] at h
        have hbig : sig.tmod ((10 : Nat) : Int) = 0 ∨ 10 ≤ sig.natAbs := by
          rcases h2 with h2 | h2
          · exact Or.inl h2
          · right; have := oob_big S hM neg sig hok h2; omega
        have hok' : SigOK S neg (sig.tdiv 10) := step_div S hl0 hm0 neg sig 10 (by omega) hok hbig
        have := ih _ _ _ _ d hok' h
        rw [not_oob_after_div S neg sig hok] at this
        by_cases ht : sig.tmod 10 = 0
        · rw [if_neg (by omega)] at this
          simp only [Bool.false_eq_true, if_false] at this
          omega
        · have ho : oobSig S 10 neg sig = true := by
            rcases h2 with h2 | h2
            · exact absurd h2 ht
            · exact h2
          rw [if_pos ht] at this
          rw [ho]
          simp only [Bool.false_eq_true, if_false, if_true] at this ⊢
          omega
      · simp only [descalePos, h1, h2, if_false] at h
        have htm : sig.tmod 10 ≠ 0 := fun h0 => h2 (Or.inl h0)
        have hie : ie ≠ 0 := fun h0 => h1 ⟨h0, htm⟩
        have ho : oobSig S 10 neg sig = false := by
          cases hoo : oobSig S 10 neg sig with
          | false => rfl
          | true => exact absurd (Or.inr hoo) h2
        obtain ⟨hin, hok'⟩ := step_mulR S 10 neg sig R hR1 hR (by omega) (by omega) hok ho
        simp only [mulS_ok (by omega) hin, sigOK_ne_zero hok', if_false] at h
        cases ie with
        | zero => exact absurd rfl hie
        | succ i =>
          simp only [Nat.add_sub_cancel] at h
          have := ih _ _ _ _ d hok' h
          have hle : (if oobSig S 10 neg (sig * (R : Int)) = true then 1 else 0) ≤ 1 := by split <;> omega
          omega

/-- the number of lossy divisions is bounded by the input exponent: `|e|` for negative, `e + 1` for non-negative -/
theorem descale_lossy_le_succ (S : IntTy) (h8 : 8 ≤ S.bits) (input e : Int) (R : Nat)
    (hR2 : 2 ≤ R) (hR : R ≤ 10) (hr : S.InRange input) (h0 : input ≠ 0) (d : Desc)
    (hd : descale S input e R = .ok d) : d.lossy ≤ e.natAbs + 1 := by
  by_cases he : e < 0
  · have := descale_lossy_le S h8 input e R hR2 (by have := max_ge_127_any S h8; omega) hr h0 he d hd
    omega
  · unfold descale at hd
    simp only [h0, if_false] at hd
    rw [IntTy.wrap_id (by omega) hr] at hd
    have hok : SigOK S (decide (input < 0)) input := by
      refine ⟨hr.1, hr.2, ?_⟩
      by_cases hn : input < 0 <;> simp [hn]; omega
    simp only [he, if_false] at hd
    have hH : headroomRadix R = 10 := by unfold headroomRadix; omega
    have e10 : ((10 : Nat) : Int) = 10 := rfl
    rw [hH, e10] at hd
    have := descalePos_lossy_le S h8 _ R (by omega) hR _ _ _ _ _ d hok hd
    have hle : (if oobSig S 10 (decide (input < 0)) input = true then 1 else 0) ≤ 1 := by split <;> omega
    omega

/-! ### reading the digit strings back -/

theorem isDigit_itoc : ∀ d, d < 10 → isDigit (itoc d) = true := by decide

def AllDigit (cs : List Char) : Prop := ∀ c ∈ cs, isDigit c = true

theorem natDigitsF_allDigit : ∀ fuel v, AllDigit (natDigitsF 10 fuel v) := by
  intro fuel
  induction fuel with
  | zero => intro v c hc; simp [natDigitsF] at hc
  | succ n ih =>
    intro v c hc
    have hm : isDigit (itoc (v % 10)) = true := isDigit_itoc _ (Nat.mod_lt _ (by omega))
    by_cases hq : v / 10 = 0
    · simp [natDigitsF, hq] at hc; rw [hc]; exact hm
    · simp only [natDigitsF, hq, if_false, List.mem_append, List.mem_singleton] at hc
      rcases hc with hc | hc
      · exact ih _ c hc
      · rw [hc]; exact hm

theorem natDigits_allDigit (v : Nat) : AllDigit (natDigits 10 v) := natDigitsF_allDigit v v

theorem allDigit_take {cs : List Char} (h : AllDigit cs) (n : Nat) : AllDigit (cs.take n) :=
  fun c hc => h c (List.mem_of_mem_take hc)

theorem allDigit_drop {cs : List Char} (h : AllDigit cs) (n : Nat) : AllDigit (cs.drop n) :=
  fun c hc => h c (List.mem_of_mem_drop hc)

theorem allDigit_zeros (z : Nat) : AllDigit (List.replicate z '0') := by
  intro c hc
  rw [(List.mem_replicate.mp hc).2]; decide

theorem allDigit_append {xs ys : List Char} (hx : AllDigit xs) (hy : AllDigit ys) : AllDigit (xs ++ ys) := by
  intro c hc
  rcases List.mem_append.mp hc with h | h
  · exact hx c h
  · exact hy c h

/-- the rest of a text after a run of digits: empty, or starting with a non-digit -/
def Stops (rest : List Char) : Prop := rest = [] ∨ ∃ c r, rest = c :: r ∧ isDigit c = false

theorem spanDigits_append (xs rest : List Char) (hx : AllDigit xs) (hr : Stops rest) :
    spanDigits (xs ++ rest) = (xs, rest) := by
  induction xs with
  | nil =>
    rcases hr with h | ⟨c, r, h, hc⟩
    · subst h; rfl
    · subst h; simp [spanDigits, hc]
  | cons c cs ih =>
    have hc : isDigit c = true := hx c (by simp)
    have := ih (fun d hd => hx d (by simp [hd]))
    simp [spanDigits, hc, this]

/-- a prefix of the digit string of `v` is the numeral of `v` with the other digits divided away -/
theorem natDigitsF_take_value (base : Nat) (h2 : 2 ≤ base) (h36 : base ≤ 36) :
    ∀ fuel v, 0 < v → v ≤ fuel → ∀ n, n ≤ (natDigitsF base fuel v).length →
      digitsValue base ((natDigitsF base fuel v).take n) 0 =
        some (v / base ^ ((natDigitsF base fuel v).length - n)) := by
  intro fuel
  induction fuel with
  | zero => intro v h0 h1; omega
  | succ k ih =>
    intro v h0 h1 n hn
    by_cases hfull : n = (natDigitsF base (k + 1) v).length
    · rw [hfull, List.take_length, Nat.sub_self, Nat.pow_zero, Nat.div_one]
      exact natDigitsF_value base h2 h36 (k + 1) v h0 h1
    · by_cases hq : v / base = 0
      · simp only [natDigitsF, hq, if_true, List.length_cons, List.length_nil] at hn hfull ⊢
        have : n = 0 := by omega
        subst this
        simp [digitsValue, hq]
      · simp only [natDigitsF, hq, if_false, List.length_append, List.length_cons, List.length_nil] at hn hfull ⊢
        have hlt : v / base < v := Nat.div_lt_self h0 (by omega)
        have hn' : n ≤ (natDigitsF base k (v / base)).length := by omega
        rw [List.take_append_of_le_length hn',
          ih (v / base) (Nat.pos_of_ne_zero hq) (Nat.le_of_lt_succ (Nat.lt_of_lt_of_le hlt h1)) n hn']
        congr 1
        have : (natDigitsF base k (v / base)).length + 1 - n = ((natDigitsF base k (v / base)).length - n) + 1 := by omega
        rw [this, Nat.pow_succ, Nat.mul_comm, Nat.div_div_eq_div_mul]

theorem natDigits_take_value (v n : Nat) (h0 : 0 < v) (hn : n ≤ (natDigits 10 v).length) :
    digitsValue 10 ((natDigits 10 v).take n) 0 = some (v / 10 ^ ((natDigits 10 v).length - n)) :=
  natDigitsF_take_value 10 (by omega) (by omega) v v h0 (Nat.le_refl _) n hn

theorem digitsValue_zeros (z acc : Nat) : digitsValue 10 (List.replicate z '0') acc = some (acc * 10 ^ z) := by
  induction z generalizing acc with
  | zero => simp [digitsValue]
  | succ k ih =>
    have h0 : digitVal '0' = some 0 := by decide
    simp only [List.replicate_succ, digitsValue, h0]
    rw [if_pos (by omega), ih, Nat.pow_succ]
    congr 1
    rw [Nat.add_zero, Nat.mul_assoc, Nat.mul_comm 10]

theorem digitsValue_zeros_left (z : Nat) (xs : List Char) :
    digitsValue 10 (List.replicate z '0' ++ xs) 0 = digitsValue 10 xs 0 := by
  rw [digitsValue_append, digitsValue_zeros]; simp

theorem digitsValue_zeros_right (z : Nat) (xs : List Char) (v : Nat) (h : digitsValue 10 xs 0 = some v) :
    digitsValue 10 (xs ++ List.replicate z '0') 0 = some (v * 10 ^ z) := by
  rw [digitsValue_append, h]; simp [digitsValue_zeros]

theorem expValue_intText (E : Int) : expValue ('e' :: intText 10 E) = some E := by
  by_cases h0 : E = 0
  · subst h0; decide
  · by_cases hn : E < 0
    · have hk := natDigitsF_value 10 (by omega) (by omega) (-E).toNat (-E).toNat (by omega) (Nat.le_refl _)
      have hk' : digitsValue 10 (natDigits 10 (-E).toNat) 0 = some (-E).toNat := hk
      obtain ⟨c, rest, he, _⟩ := natDigitsF_head 10 (by omega) (by omega) (-E).toNat (-E).toNat (by omega) (Nat.le_refl _)
      have he' : natDigits 10 (-E).toNat = c :: rest := he
      simp only [intText, h0, hn, if_false, if_true, expValue]
      rw [he'] at hk' ⊢
      simp [hk']; omega
    · have hpos : 0 < E := by omega
      have hk := natDigitsF_value 10 (by omega) (by omega) E.toNat E.toNat (by omega) (Nat.le_refl _)
      have hk' : digitsValue 10 (natDigits 10 E.toNat) 0 = some E.toNat := hk
      obtain ⟨c, rest, he, _⟩ := natDigitsF_head 10 (by omega) (by omega) E.toNat E.toNat (by omega) (Nat.le_refl _)
      have he' : natDigits 10 E.toNat = c :: rest := he
      have hcm : c ≠ '-' := by
        intro h; subst h; rw [he'] at hk'
        simp [digitsValue, digitVal] at hk'
      have hcp : c ≠ '+' := by
        intro h; subst h; rw [he'] at hk'
        simp [digitsValue, digitVal] at hk'
      simp only [intText, h0, hn, if_false]
      rw [he'] at hk' ⊢
      unfold expValue
      split
      · rename_i heq; cases heq
      · rename_i heq; cases heq; exact absurd rfl hcm
      · rename_i heq; cases heq; exact absurd rfl hcp
      · rename_i heq; cases heq; simp [hk']; omega
      · rename_i h1 h2 h3 h4; exact absurd rfl (h4 _)
theorem unsignedDecimal_dot (ip fp tail : List Char) (hi : AllDigit ip) (hf : AllDigit fp)
    (ht : tail = [] ∨ ∃ r, tail = 'e' :: r) (hne : ¬ (ip = [] ∧ fp = []))
    (m : Nat) (hv : digitsValue 10 (ip ++ fp) 0 = some m) (E : Int) (hE : expValue tail = some E) :
    unsignedDecimal (ip ++ '.' :: (fp ++ tail)) = some (m, E - (fp.length : Int)) := by
  have s1 : spanDigits (ip ++ '.' :: (fp ++ tail)) = (ip, '.' :: (fp ++ tail)) :=
    spanDigits_append ip _ hi (Or.inr ⟨'.', _, rfl, by decide⟩)
  have s2 : spanDigits (fp ++ tail) = (fp, tail) := by
    apply spanDigits_append fp _ hf
    rcases ht with h | ⟨r, h⟩
    · exact Or.inl h
    · exact Or.inr ⟨'e', r, h, by decide⟩
  have hne' : ¬ (ip.isEmpty = true ∧ fp.isEmpty = true) := by
    simpa [List.isEmpty_iff] using hne
  simp only [unsignedDecimal, s1, s2, hne', if_false, hv, hE]

theorem unsignedDecimal_nodot (ip : List Char) (hi : AllDigit ip) (hne : ip ≠ [])
    (m : Nat) (hv : digitsValue 10 ip 0 = some m) :
    unsignedDecimal ip = some (m, 0) := by
  have s1 : spanDigits ip = (ip, []) := by
    have := spanDigits_append ip [] hi (Or.inl rfl)
    simpa using this
  have hne' : ¬ (ip.isEmpty = true ∧ ([] : List Char).isEmpty = true) := by
    simpa [List.isEmpty_iff] using hne
  have hE : expValue [] = some 0 := rfl
  simp only [unsignedDecimal, s1, hne', if_false, List.append_nil, hv, hE]
  simp

theorem take_one_append_drop (ds : List Char) (n : Nat) (h : 1 ≤ n) :
    ds.take 1 ++ (ds.take n).drop 1 = ds.take n := by
  have : ds.take 1 = (ds.take n).take 1 := by
    rw [List.take_take]; congr 1; omega
  rw [this, List.take_append_drop]

theorem take_append_drop_take (ds : List Char) (a n : Nat) (h : a ≤ n) :
    ds.take a ++ (ds.take n).drop a = ds.take n := by
  have : ds.take a = (ds.take n).take a := by
    rw [List.take_take]; congr 1; omega
  rw [this, List.take_append_drop]

/-- the scientific layout reads back as the first `ns` digits, the last of them with weight `10^(x + dropped)` -/
theorem sciText_denotes (sig : Nat) (h0 : 0 < sig) (x : Int) (s : Sci)
    (h1 : 0 < s.numSig) (h2 : s.numSig ≤ (natDigits 10 sig).length) :
    ∃ t, sciText (natDigits 10 sig) s (intText 10 (x + (natDigits 10 sig).length - 1)) = some t ∧
      unsignedDecimal t = some (sig / 10 ^ ((natDigits 10 sig).length - s.numSig.toNat),
        x + (((natDigits 10 sig).length - s.numSig.toNat : Nat) : Int)) := by
  generalize hds : natDigits 10 sig = ds at *
  have had : AllDigit ds := by rw [← hds]; exact natDigits_allDigit sig
  have hsl : slice ds 1 s.numSig = some ((ds.take s.numSig.toNat).drop 1) := by
    have : (1 : Int) ≤ s.numSig := by omega
    simp [slice, this]
  have hv := natDigits_take_value sig s.numSig.toNat h0 (by rw [hds]; omega)
  rw [hds] at hv
  refine ⟨ds.take 1 ++ ['.'] ++ (ds.take s.numSig.toNat).drop 1 ++ ['e'] ++ intText 10 (x + ds.length - 1),
    by simp only [sciText, hsl], ?_⟩
  have hE := expValue_intText (x + ds.length - 1)
  have hcat : ds.take 1 ++ (ds.take s.numSig.toNat).drop 1 = ds.take s.numSig.toNat :=
    take_one_append_drop ds _ (by omega)
  have := unsignedDecimal_dot (ds.take 1) ((ds.take s.numSig.toNat).drop 1)
    ('e' :: intText 10 (x + ds.length - 1)) (allDigit_take had 1) (allDigit_drop (allDigit_take had _) 1)
    (Or.inr ⟨_, rfl⟩)
    (by
      intro h
      have hl : (ds.take 1).length = 1 := by simp; omega
      rw [h.1] at hl; simp at hl)
    _ (by rw [hcat]; exact hv) _ hE
  have hl : (((ds.take s.numSig.toNat).drop 1).length : Int) = s.numSig - 1 := by
    simp only [List.length_drop, List.length_take]; omega
  rw [hl] at this
  have he : x + (ds.length : Int) - 1 - (s.numSig - 1) = x + ((ds.length - s.numSig.toNat : Nat) : Int) := by omega
  rw [he] at this
  simpa [List.append_assoc] using this

/-- `(m, e)` is the significand `sig·10^x` (a digit string of length `len`, `ns` digits granted by the layout)
written out in full with its trailing zeros, or cut to its `kept` leading digits -/
def Kept (sig : Nat) (x : Int) (len : Nat) (ns : Int) (m : Nat) (e : Int) : Prop :=
  (0 ≤ x ∧ m = sig * 10 ^ x.toNat ∧ e = 0) ∨
  (∃ kept : Nat, 0 < kept ∧ kept ≤ len ∧ (ns = len → kept = len) ∧
    m = sig / 10 ^ (len - kept) ∧ e = x + ((len - kept : Nat) : Int))

theorem natDigits_value (sig : Nat) (h0 : 0 < sig) : digitsValue 10 (natDigits 10 sig) 0 = some sig :=
  natDigitsF_value 10 (by omega) (by omega) sig sig h0 (Nat.le_refl _)

theorem natDigits_ne_nil (sig : Nat) (h0 : 0 < sig) : natDigits 10 sig ≠ [] := by
  have := natDigitsF_pos 10 sig sig h0
  intro h; unfold natDigits at h; rw [h] at this; simp at this

/-- the fixed layout reads back as the digits kept -/
theorem fixedText_denotes (sig : Nat) (h0 : 0 < sig) (i : Info)
    (hn : i.numSig = (natDigits 10 sig).length) (hm : 0 ≤ i.maxChars)
    (hpos : 0 < (solveFixed i).numSig) :
    ∃ t m e, fixedText (natDigits 10 sig) i.exponent (solveFixed i) i.maxChars = some t ∧
      unsignedDecimal t = some (m, e) ∧
      Kept sig i.exponent (natDigits 10 sig).length (solveFixed i).numSig m e := by
  have hfull := natDigits_value sig h0
  have hnil := natDigits_ne_nil sig h0
  have htk : ∀ n, n ≤ (natDigits 10 sig).length → digitsValue 10 ((natDigits 10 sig).take n) 0 =
      some (sig / 10 ^ ((natDigits 10 sig).length - n)) := fun n h => natDigits_take_value sig n h0 h
  have had : AllDigit (natDigits 10 sig) := natDigits_allDigit sig
  generalize natDigits 10 sig = ds at *
  have hlen : 0 < ds.length := List.length_pos_iff.mpr hnil
  by_cases h : i.numSig + i.exponent > i.maxChars
  · simp [solveFixed, h] at hpos
  · by_cases hr : i.exponent < 0
    · have e1 : (solveFixed i).leadingZeros = max 0 (-(i.numSig + i.exponent)) := by simp [solveFixed, h]
      have e2 : (solveFixed i).trailingZeros = 0 := by simp [solveFixed, h]; omega
      have e3 : (solveFixed i).hasRadix = true := by simp [solveFixed, h, hr]
      have e4 : (solveFixed i).numSig = i.numSig - max 0 (i.numSig + (solveFixed i).leadingZeros + 1 - i.maxChars) := by
        simp [solveFixed, h, hr]; omega
      generalize solveFixed i = f at *
      obtain ⟨ns, nc, L, Tz, hrx⟩ := f
      simp only at e1 e2 e3 e4 hpos
      subst e2 e3
      unfold fixedText
      simp only [ne_eq, not_true_eq_false, if_false, if_true]
      generalize hnI : max 0 ((ds.length : Int) + min 0 i.exponent) = nInt
      by_cases hroom : nInt < i.maxChars
      · simp only [hroom, if_true]
        have hle : nInt ≤ ns := by omega
        have hsl : slice ds nInt ns = some ((ds.take ns.toNat).drop nInt.toNat) := by simp [slice, hle]
        rw [hsl]
        have hv := htk ns.toNat (by omega)
        have hcat : digitsValue 10 (ds.take nInt.toNat ++ (List.replicate L.toNat '0' ++ (ds.take ns.toNat).drop nInt.toNat)) 0
            = some (sig / 10 ^ (ds.length - ns.toNat)) := by
          by_cases hz : nInt = 0
          · rw [hz]; simp only [Int.toNat_zero, List.take_zero, List.nil_append, List.drop_zero]
            rw [digitsValue_zeros_left]; exact hv
          · have hL : L.toNat = 0 := by omega
            rw [hL]; simp only [List.replicate_zero, List.nil_append]
            rw [take_append_drop_take ds _ _ (by omega)]; exact hv
        have := unsignedDecimal_dot (ds.take nInt.toNat) (List.replicate L.toNat '0' ++ (ds.take ns.toNat).drop nInt.toNat) []
          (allDigit_take had _) (allDigit_append (allDigit_zeros _) (allDigit_drop (allDigit_take had _) _))
          (Or.inl rfl)
          (by
            intro hh
            have hl : (List.replicate L.toNat '0' ++ (ds.take ns.toNat).drop nInt.toNat).length = 0 := by rw [hh.2]; rfl
            have hl2 : (ds.take nInt.toNat).length = 0 := by rw [hh.1]; rfl
            simp only [List.length_append, List.length_replicate, List.length_drop, List.length_take] at hl hl2
            omega)
          _ hcat 0 rfl
        have hfl : (0 : Int) - ((List.replicate L.toNat '0' ++ (ds.take ns.toNat).drop nInt.toNat).length : Int) =
            i.exponent + ((ds.length - ns.toNat : Nat) : Int) := by
          simp only [List.length_append, List.length_replicate, List.length_drop, List.length_take]
          omega
        rw [hfl] at this
        exact ⟨_, _, _, rfl, by simpa [List.append_assoc] using this, Or.inr ⟨ns.toNat, by omega, by omega, by omega, rfl, rfl⟩⟩
      · simp only [hroom, if_false]
        have hv := htk nInt.toNat (by omega)
        have hne : ds.take nInt.toNat ≠ [] := by
          intro hh
          have hl : (ds.take nInt.toNat).length = 0 := by rw [hh]; rfl
          simp only [List.length_take] at hl
          omega
        have := unsignedDecimal_nodot (ds.take nInt.toNat) (allDigit_take had _) hne _ hv
        exact ⟨_, _, _, rfl, this, Or.inr ⟨nInt.toNat, by omega, by omega, by omega, rfl, by omega⟩⟩
    · have e1 : (solveFixed i).leadingZeros = max 0 (-(i.numSig + i.exponent)) := by simp [solveFixed, h]
      have e2 : (solveFixed i).trailingZeros = i.exponent := by simp [solveFixed, h]; omega
      have e3 : (solveFixed i).hasRadix = false := by simp [solveFixed, h, hr]
      have e4 : (solveFixed i).numSig = i.numSig := by
        simp [solveFixed, h, hr]; omega
      generalize solveFixed i = f at *
      obtain ⟨ns, nc, L, Tz, hrx⟩ := f
      simp only at e1 e2 e3 e4 hpos
      subst e2 e3 e4
      unfold fixedText
      simp only
      have hnI : (max 0 ((ds.length : Int) + min 0 i.exponent)).toNat = ds.length := by omega
      by_cases htz : i.exponent ≠ 0
      · simp only [htz, if_true, ne_eq, not_false_eq_true, hnI, List.take_length]
        have hv := digitsValue_zeros_right i.exponent.toNat ds sig hfull
        have := unsignedDecimal_nodot (ds ++ List.replicate i.exponent.toNat '0')
          (allDigit_append had (allDigit_zeros _)) (by simp [hnil]) _ hv
        exact ⟨_, _, _, rfl, this, Or.inl ⟨by omega, rfl, rfl⟩⟩
      · have hx0 : i.exponent = 0 := by omega
        have := unsignedDecimal_nodot ds had hnil _ hfull
        have hK : Kept sig i.exponent ds.length i.numSig sig 0 := Or.inl ⟨by omega, by simp [hx0], rfl⟩
        simp only [htz, if_false]
        by_cases hroom : max 0 ((ds.length : Int) + min 0 i.exponent) < i.maxChars
        · have hsl : slice ds (max 0 ((ds.length : Int) + min 0 i.exponent)) i.numSig = some [] := by
            have hle : max 0 ((ds.length : Int) + min 0 i.exponent) ≤ i.numSig := by omega
            simp only [slice, hle, if_true, hnI]
            have : i.numSig.toNat = ds.length := by omega
            rw [this]; simp
          have hL : L.toNat = 0 := by omega
          simp only [hroom, if_true, hsl, hnI, List.take_length, hL]
          exact ⟨_, _, _, rfl, by simpa using this, hK⟩
        · simp only [hroom, if_false, hnI, List.take_length]
          exact ⟨_, _, _, rfl, this, hK⟩
theorem trunc_within_arith (m r sig Pc Pu Pn Pd Pp den num M kc : Nat)
    (hs : sig = m * Pc + r) (hr : r < Pc) (hkey : Pu * Pn = Pc * Pp * Pd)
    (hPn : 0 < Pn) (hM : 0 < M) (hden : 0 < den) (hPp : 0 < Pp) (hPd : 0 < Pd)
    (hv1 : sig * Pp * den ≤ num * Pn)
    (hv2 : num * Pn * M ≤ sig * Pp * den * M + num * Pn * kc) :
    m * Pu * den ≤ num * Pd ∧
    num * Pd * M < m * Pu * den * M + Pu * den * M + num * Pd * kc := by
  subst hs
  have hW : 0 < Pp * Pd * den := Nat.mul_pos (Nat.mul_pos hPp hPd) hden
  -- scaled by Pn
  have eA : (m * Pu * den) * Pn = m * Pc * (Pp * Pd * den) := by
    have : m * Pu * den * Pn = m * den * (Pu * Pn) := by grind
    rw [this, hkey]; grind
  have eB : (Pu * den) * Pn = Pc * (Pp * Pd * den) := by
    have : Pu * den * Pn = den * (Pu * Pn) := by grind
    rw [this, hkey]; grind
  have f1 := Nat.mul_le_mul_right Pd hv1
  have f2 := Nat.mul_le_mul_right Pd hv2
  have f3 : r * (Pp * Pd * den) * M < Pc * (Pp * Pd * den) * M :=
    Nat.mul_lt_mul_of_pos_right (Nat.mul_lt_mul_of_pos_right hr hW) hM
  constructor
  · apply Nat.le_of_mul_le_mul_right _ hPn
    rw [eA]; grind
  · apply Nat.lt_of_mul_lt_mul_right (a := Pn)
    have e1 : (m * Pu * den * M + Pu * den * M + num * Pd * kc) * Pn =
        (m * Pu * den * Pn) * M + (Pu * den * Pn) * M + num * Pd * kc * Pn := by grind
    rw [e1, eA, eB]
    grind
theorem within_intro (neg : Bool) (m : Nat) (e : Int) (num den aN aD : Nat)
    (h1 : m * 10 ^ e.toNat * den ≤ num * 10 ^ (-e).toNat)
    (h2 : num * 10 ^ (-e).toNat * aD <
      m * 10 ^ e.toNat * den * aD + 10 ^ e.toNat * den * aD + num * 10 ^ (-e).toNat * aN) :
    (⟨neg, m, e⟩ : Dec).within num den aN aD = true := by
  have u1 : (max e 0).toNat = e.toNat := by omega
  have u2 : (max (-e) 0).toNat = (-e).toNat := by omega
  simp only [Dec.within, u1, u2, Bool.and_eq_true, decide_eq_true_eq]
  refine ⟨h1, ?_⟩
  have h3 := Nat.mul_le_mul_right aD h1
  rw [Nat.sub_mul]
  omega

theorem exactly_intro (neg : Bool) (m : Nat) (e : Int) (num den : Nat)
    (h1 : m * 10 ^ e.toNat * den = num * 10 ^ (-e).toNat) :
    (⟨neg, m, e⟩ : Dec).exactly num den = true := by
  have u1 : (max e 0).toNat = e.toNat := by omega
  have u2 : (max (-e) 0).toNat = (-e).toNat := by omega
  simp only [Dec.exactly, u1, u2, decide_eq_true_eq]
  exact h1

/-- a value `s·10^x` that is at most `num/den` and short of it by at most `kc/M` of it, printed with the digits
kept by a layout, passes the oracle's comparison with allowance `kc/M` -/
theorem kept_within (neg : Bool) (sig : Nat) (x : Int) (len : Nat) (ns : Int) (m : Nat) (e : Int)
    (hK : Kept sig x len ns m e) (num den M kc : Nat) (hM : 0 < M) (hden : 0 < den)
    (hv1 : sig * 10 ^ x.toNat * den ≤ num * 10 ^ (-x).toNat)
    (hv2 : num * 10 ^ (-x).toNat * M ≤ sig * 10 ^ x.toNat * den * M + num * 10 ^ (-x).toNat * kc) :
    (⟨neg, m, e⟩ : Dec).within num den kc M = true := by
  apply within_intro
  all_goals rcases hK with ⟨hx, hm, he⟩ | ⟨kept, hk0, hk1, _, hm, he⟩
  · subst hm he
    have : (-x).toNat = 0 := by omega
    rw [this] at hv1
    simpa using hv1
  · have hkey : 10 ^ e.toNat * 10 ^ (-x).toNat = 10 ^ (len - kept) * 10 ^ x.toNat * 10 ^ (-e).toNat := by
      rw [← Nat.pow_add, ← Nat.pow_add, ← Nat.pow_add]; congr 1; omega
    have hs : sig = m * 10 ^ (len - kept) + sig % 10 ^ (len - kept) := by
      rw [hm]; exact (Nat.div_add_mod' _ _).symm
    exact (trunc_within_arith m _ sig _ _ _ _ _ den num M kc hs (Nat.mod_lt _ (Nat.pow_pos (by omega))) hkey
      (Nat.pow_pos (by omega)) hM hden (Nat.pow_pos (by omega)) (Nat.pow_pos (by omega)) hv1 hv2).1
  · subst hm he
    have h0 : (-x).toNat = 0 := by omega
    rw [h0] at hv2
    have : 0 < den * M := Nat.mul_pos hden hM
    simp only [Int.toNat_zero, Int.neg_zero, Nat.pow_zero, Nat.mul_one, Nat.one_mul] at hv2 ⊢
    omega
  · have hkey : 10 ^ e.toNat * 10 ^ (-x).toNat = 10 ^ (len - kept) * 10 ^ x.toNat * 10 ^ (-e).toNat := by
      rw [← Nat.pow_add, ← Nat.pow_add, ← Nat.pow_add]; congr 1; omega
    have hs : sig = m * 10 ^ (len - kept) + sig % 10 ^ (len - kept) := by
      rw [hm]; exact (Nat.div_add_mod' _ _).symm
    exact (trunc_within_arith m _ sig _ _ _ _ _ den num M kc hs (Nat.mod_lt _ (Nat.pow_pos (by omega))) hkey
      (Nat.pow_pos (by omega)) hM hden (Nat.pow_pos (by omega)) (Nat.pow_pos (by omega)) hv1 hv2).2

/-- … and is exact when no digit was cut and the value itself is exact -/
theorem kept_exactly (neg : Bool) (sig : Nat) (x : Int) (len : Nat) (ns : Int) (m : Nat) (e : Int)
    (hK : Kept sig x len ns m e) (hall : ns = len) (num den : Nat)
    (hv : sig * 10 ^ x.toNat * den = num * 10 ^ (-x).toNat) :
    (⟨neg, m, e⟩ : Dec).exactly num den = true := by
  apply exactly_intro
  rcases hK with ⟨hx, hm, he⟩ | ⟨kept, hk0, hk1, hkl, hm, he⟩
  · subst hm he
    have : (-x).toNat = 0 := by omega
    rw [this] at hv
    simpa using hv
  · have := hkl hall
    subst this
    simp only [Nat.sub_self, Nat.pow_zero, Nat.div_one] at hm he
    subst hm
    have : e = x := by omega
    subst this
    exact hv
/-- length of the fixed notation that shows all `n` digits: `ddd000`, `dd.ddd`, `.000ddd` -/
def fixedFullLen (n x : Int) : Int := if x ≥ 0 then n + x else if n + x > 0 then n + 1 else 1 - x

/-- one of the two complete notations fits into `room` characters -/
def FullFits (i : Info) : Prop :=
  i.numSig + 2 + i.expChars ≤ i.maxChars ∨ fixedFullLen i.numSig i.exponent ≤ i.maxChars

theorem solveSci_numSig_le (i : Info) : (solveSci i).numSig ≤ i.numSig := by
  simp only [solveSci]; omega

theorem solveFixed_numSig_le (i : Info) (hn : 0 ≤ i.numSig) : (solveFixed i).numSig ≤ i.numSig := by
  by_cases h : i.numSig + i.exponent > i.maxChars
  · simp [solveFixed, h]; exact hn
  · simp only [solveFixed, h, if_false]; omega

theorem solveSci_full (i : Info) (h : i.numSig + 2 + i.expChars ≤ i.maxChars) : (solveSci i).numSig = i.numSig := by
  simp only [solveSci]; omega

theorem solveFixed_full (i : Info) (hn : 0 < i.numSig) (h : fixedFullLen i.numSig i.exponent ≤ i.maxChars) :
    (solveFixed i).numSig = i.numSig := by
  unfold fixedFullLen at h
  by_cases hx : i.exponent ≥ 0
  · rw [if_pos hx] at h
    have h' : ¬ i.numSig + i.exponent > i.maxChars := by omega
    have hr : ¬ i.exponent < 0 := by omega
    simp only [solveFixed, h', if_false, hr, decide_false]
    simp; omega
  · rw [if_neg hx] at h
    have hr : i.exponent < 0 := by omega
    by_cases hp : i.numSig + i.exponent > 0
    · rw [if_pos hp] at h
      have h' : ¬ i.numSig + i.exponent > i.maxChars := by omega
      simp only [solveFixed, h', if_false, hr, decide_true, if_true]
      omega
    · rw [if_neg hp] at h
      have h' : ¬ i.numSig + i.exponent > i.maxChars := by omega
      simp only [solveFixed, h', if_false, hr, decide_true, if_true]
      omega

/-- when a complete notation fits, the selected layout keeps every digit -/
theorem choose_keeps_all (i : Info) (hn : 0 < i.numSig) (hfit : FullFits i) :
    (∀ s, choose i = .sci s → s.numSig = i.numSig) ∧ (∀ f, choose i = .fixed f → f.numSig = i.numSig) ∧
    choose i ≠ .tooLarge := by
  have a1 := solveSci_numSig_le i
  have a2 := solveFixed_numSig_le i (by omega)
  have key : (solveSci i).numSig = i.numSig ∨ (solveFixed i).numSig = i.numSig := by
    rcases hfit with h | h
    · exact Or.inl (solveSci_full i h)
    · exact Or.inr (solveFixed_full i hn h)
  by_cases h1 : (solveSci i).numSig > 0 ∧ tupGt (solveSci i).numSig (-(solveSci i).numChars) (solveFixed i).numSig (-(solveFixed i).numChars) = true
  · have hc : choose i = .sci (solveSci i) := by unfold choose; exact if_pos h1
    have ht := h1.2
    simp only [tupGt, Bool.or_eq_true, Bool.and_eq_true, decide_eq_true_eq] at ht
    rw [hc]
    refine ⟨?_, ?_, ?_⟩
    · intro s hs; cases hs; omega
    · intro f hf; cases hf
    · intro h; cases h
  · have hfs : (solveFixed i).numSig = i.numSig := by
      rcases key with k | k
      · have hp : (solveSci i).numSig > 0 := by omega
        have ht : ¬ tupGt (solveSci i).numSig (-(solveSci i).numChars) (solveFixed i).numSig (-(solveFixed i).numChars) = true :=
          fun h => h1 ⟨hp, h⟩
        simp only [tupGt, Bool.or_eq_true, Bool.and_eq_true, decide_eq_true_eq] at ht
        omega
      · exact k
    have h2 : (solveFixed i).numSig > 0 := by omega
    have hc : choose i = .fixed (solveFixed i) := by unfold choose; rw [if_neg h1, if_pos h2]
    rw [hc]
    refine ⟨?_, ?_, ?_⟩
    · intro s hs; cases hs
    · intro f hf; cases hf; exact hfs
    · intro h; cases h

/-- the `Info` that `to_chars_positive` builds -/
def infoOf (len first n : Nat) (x : Int) : Info :=
  ⟨(n : Int), x, (len : Int) - first, ((intText 10 (x + n - 1)).length : Int)⟩

/-- `_impl::to_chars_positive` on the digit string of `sig > 0` with exponent `x`: either `value_too_large` and
nothing written, or the text `t` written at `first` reads back (independent reader) as `m·10^e`, which is
`sig·10^x` in full or cut to its leading digits (`Kept`); all digits are kept when a complete notation fits -/
theorem toCharsPositive_denotes (b : Buf) (first : Nat) (sig : Nat) (h0 : 0 < sig) (x : Int) (hf : first ≤ b.len) :
    toCharsPositive b first (natDigits 10 sig) x = .ok ⟨some b.len, false, b⟩ ∨
    ∃ (t : List Char) (m : Nat) (e ns : Int), 0 < t.length ∧ first + t.length ≤ b.len ∧
      toCharsPositive b first (natDigits 10 sig) x = .ok ⟨some (first + t.length), true,
        ⟨b.len, b.cells.take first ++ t.map some ++ b.cells.drop (first + t.length)⟩⟩ ∧
      unsignedDecimal t = some (m, e) ∧ Kept sig x (natDigits 10 sig).length ns m e ∧
      (FullFits (infoOf b.len first (natDigits 10 sig).length x) → ns = (natDigits 10 sig).length) := by
  have hds := natDigits_ne_nil sig h0
  have hlen : 0 < (natDigits 10 sig).length := List.length_pos_iff.mpr hds
  unfold toCharsPositive toCharsPositiveWith infoOf
  simp only
  generalize hE : intText 10 (x + ↑(natDigits 10 sig).length - 1) = expText
  generalize hI : (⟨((natDigits 10 sig).length : Int), x, (b.len : Int) - first, (expText.length : Int)⟩ : Info) = info
  have hn : info.numSig = (natDigits 10 sig).length := by rw [← hI]
  have he : info.expChars = expText.length := by rw [← hI]
  have hx : info.exponent = x := by rw [← hI]
  have hmc : info.maxChars = (b.len : Int) - first := by rw [← hI]
  have hm0 : 0 ≤ info.maxChars := by omega
  cases hc : choose info with
  | tooLarge => exact Or.inl rfl
  | sci s =>
    obtain ⟨hs, hpos⟩ := choose_sci hc
    right
    have hle : s.numSig ≤ (natDigits 10 sig).length := by
      rw [hs]; have := solveSci_numSig_le info; omega
    obtain ⟨t, ht, hu⟩ := sciText_denotes sig h0 x s hpos hle
    obtain ⟨t', ht', hl⟩ := sciText_length (natDigits 10 sig) info expText hn he (by rw [← hs]; exact hpos)
    rw [hE, hs] at ht
    rw [ht] at ht'; cases ht'
    have hfit := sci_fits info (by rw [← hs]; exact hpos) (by omega)
    have hnc : 0 < (solveSci info).numChars := by
      have := hpos; rw [hs] at this; simp only [solveSci] at this ⊢; omega
    have hput : first + t.length ≤ b.len := by omega
    refine ⟨t, _, _, s.numSig, by omega, hput, ?_, hu, ?_, ?_⟩
    · have hnp : ¬ (s.numSig ≤ 0) := by omega
      rw [← hs] at ht
      simp only [hnp, if_false, ht, fillText, put_ok b first t hput]
      have : ¬ ((t.length : Int) ≠ s.numChars) := by rw [hs]; omega
      simp only [this, if_false]
    · exact Or.inr ⟨s.numSig.toNat, by omega, by omega, by omega, rfl, rfl⟩
    · intro hff
      have := (choose_keeps_all info (by omega) hff).1 s hc
      omega
  | fixed f =>
    obtain ⟨hs, hpos⟩ := choose_fixed hc
    subst hs
    right
    obtain ⟨t, m, e, ht, hu, hK⟩ := fixedText_denotes sig h0 info hn hm0 hpos
    obtain ⟨t', ht', hl⟩ := fixedText_length (natDigits 10 sig) info hn hm0 hpos
    rw [ht] at ht'; cases ht'
    have hfit := fixed_fits info hpos
    have hge := fixed_numSig_le_numChars info hpos
    have hput : first + t.length ≤ b.len := by omega
    rw [hx] at hK
    refine ⟨t, m, e, (solveFixed info).numSig, by omega, hput, ?_, hu, hK, ?_⟩
    · rw [hx, hmc] at ht
      simp only [ht, fillText, put_ok b first t hput]
      have : ¬ ((t.length : Int) ≠ (solveFixed info).numChars) := by omega
      simp only [this, if_false]
    · intro hff
      have := (choose_keeps_all info (by omega) hff).2.1 _ hc
      omega

/-! ### the text of the result and its sign -/

theorem text_of_splice (len first : Nat) (cells : List (Option Char)) (t pre : List Char) (ok : Bool)
    (hpre : cells.take first = pre.map some) (hl : pre.length = first) :
    TCR.text ⟨some (first + t.length), ok,
      ⟨len, cells.take first ++ t.map some ++ cells.drop (first + t.length)⟩⟩ = pre ++ t := by
  unfold TCR.text
  simp only
  rw [hpre]
  have : (pre.map some ++ t.map some).length = first + t.length := by simp [hl]
  rw [List.take_left' this]
  simp [List.map_append, Function.comp_def]

theorem unsignedDecimal_minus (rest : List Char) : unsignedDecimal ('-' :: rest) = none := by
  have h : isDigit '-' = false := by decide
  simp [unsignedDecimal, spanDigits, h]

theorem decimalValue_neg (t : List Char) (m : Nat) (e : Int) (h : unsignedDecimal t = some (m, e)) :
    decimalValue ('-' :: t) = some ⟨true, m, e⟩ := by
  simp [decimalValue, h]

theorem decimalValue_pos (t : List Char) (m : Nat) (e : Int) (h : unsignedDecimal t = some (m, e)) :
    decimalValue t = some ⟨false, m, e⟩ := by
  unfold decimalValue
  split
  · rw [unsignedDecimal_minus] at h; cases h
  · simp [h]

/-! ### composition: the text of `scaled_integer` denotes the value -/

theorem exactFrac_den_pos (a R : Nat) (e : Int) (hR : 0 < R) : 0 < (exactFrac a R e).2 := by
  unfold exactFrac
  split
  · exact Nat.one_pos
  · exact Nat.pow_pos hR

/-- what a positive-routine result says about the text, given the characters `pre` already written -/
theorem scaled_denotes_core (first : Nat) (pre : List Char) (b : Buf) (r : TCR) (sig : Nat) (h0 : 0 < sig) (x : Int)
    (hf : first ≤ b.len) (hpre : b.cells.take first = pre.map some) (hl : pre.length = first)
    (hrun : toCharsPositive b first (natDigits 10 sig) x = .ok r) (hok : r.ok = true) :
    ∃ (t : List Char) (m : Nat) (e ns : Int), r.text = pre ++ t ∧ unsignedDecimal t = some (m, e) ∧
      Kept sig x (natDigits 10 sig).length ns m e ∧
      (FullFits (infoOf b.len first (natDigits 10 sig).length x) → ns = (natDigits 10 sig).length) := by
  rcases toCharsPositive_denotes b first sig h0 x hf with h | ⟨t, m, e, ns, _, _, h, hu, hK, hF⟩
  · rw [h] at hrun; cases hrun; simp at hok
  · rw [h] at hrun; cases hrun
    exact ⟨t, m, e, ns, text_of_splice _ _ _ _ _ _ hpre hl, hu, hK, hF⟩

/-- **`cnl::to_chars` of a non-zero `scaled_integer`: the text denotes the value.**  For every rep type (signed or
unsigned significand type), every exponent, radix `≥ 2` with `10·radix ≤ max`, buffer length and value: when the call succeeds, the
characters `[first, p)`, read by the independent reader, are a decimal `±m·10^x'` with the sign of the value,
`m·10^x' ≤ |rep|·radix^e`, and `|rep|·radix^e − m·10^x' < 10^x' + |rep|·radix^e · lossy·lossUnit/max`
(`Dec.within`, the oracle's comparison); it is exactly the value when `descale` took no lossy division and one of
the two complete notations fits the buffer -/
theorem scaledToChars_denotes (T : IntTy) (e : Int) (radix len : Nat) (rep : Int)
    (hr : (sigTy T).InRange rep) (hR2 : 2 ≤ radix) (hRS : 10 * (radix : Int) ≤ (sigTy T).max)
    (hrep : rep ≠ 0) (r : TCR) (hrun : scaledToChars T e radix len rep = .ok r) (hok : r.ok = true) :
    ∃ dsc d, descale (sigTy T) rep e radix = .ok dsc ∧ decimalValue r.text = some d ∧
      d.neg = decide (rep < 0) ∧
      d.within (exactFrac rep.natAbs radix e).1 (exactFrac rep.natAbs radix e).2
        (dsc.lossy * lossUnit radix e) (sigTy T).max.toNat = true ∧
      (dsc.lossy = 0 →
        FullFits (infoOf len (if rep < 0 then 1 else 0) (natDigits 10 dsc.sig.natAbs).length dsc.exp) →
        d.exactly (exactFrac rep.natAbs radix e).1 (exactFrac rep.natAbs radix e).2 = true) := by
  have h8 := sigTy_bits T
  by_cases hlen : len = 0
  · subst hlen
    simp [scaledToChars, scaledToCharsWith] at hrun
    subst hrun; simp at hok
  obtain ⟨dsc, hd, hsok⟩ := descale_ok (sigTy T) h8 rep e radix hR2 hRS hr hrep
  have hsign : (rep < 0 ↔ dsc.sig < 0) ∧ dsc.sig ≠ 0 := by
    obtain ⟨_, _, h3⟩ := hsok
    by_cases hn : rep < 0 <;> simp [hn] at h3 ⊢ <;> omega
  obtain ⟨hv1, hv2⟩ := descale_value (sigTy T) h8 rep e radix hR2 hRS hr hrep dsc hd
  have hM : 0 < (sigTy T).max.toNat := by
    have := max_ge_127_any (sigTy T) h8; omega
  have hden := exactFrac_den_pos rep.natAbs radix e (by omega)
  have hpos : 0 < len := Nat.pos_of_ne_zero hlen
  have h0 : 0 < dsc.sig.natAbs := Int.natAbs_pos.mpr hsign.2
  -- both branches end the same way
  have finish : ∀ (t : List Char) (m : Nat) (x' ns : Int) (first : Nat),
      unsignedDecimal t = some (m, x') →
      Kept dsc.sig.natAbs dsc.exp (natDigits 10 dsc.sig.natAbs).length ns m x' →
      (FullFits (infoOf len first (natDigits 10 dsc.sig.natAbs).length dsc.exp) →
        ns = (natDigits 10 dsc.sig.natAbs).length) →
      first = (if rep < 0 then 1 else 0) →
      ∀ neg : Bool,
      (⟨neg, m, x'⟩ : Dec).within (exactFrac rep.natAbs radix e).1 (exactFrac rep.natAbs radix e).2
        (dsc.lossy * lossUnit radix e) (sigTy T).max.toNat = true ∧
      (dsc.lossy = 0 →
        FullFits (infoOf len (if rep < 0 then 1 else 0) (natDigits 10 dsc.sig.natAbs).length dsc.exp) →
        (⟨neg, m, x'⟩ : Dec).exactly (exactFrac rep.natAbs radix e).1 (exactFrac rep.natAbs radix e).2 = true) := by
    intro t m x' ns first _ hK hF hfirst neg
    refine ⟨kept_within neg _ _ _ _ _ _ hK _ _ _ _ hM hden hv1 hv2, ?_⟩
    intro hl0 hff
    rw [← hfirst] at hff
    apply kept_exactly neg _ _ _ _ _ _ hK (hF hff)
    rw [hl0] at hv2
    simp only [Nat.zero_mul, Nat.mul_zero, Nat.add_zero] at hv2
    have := Nat.le_of_mul_le_mul_right hv2 hM
    omega
  unfold scaledToChars scaledToCharsWith at hrun
  simp only [hlen, hrep, if_false, hd, hsign.2] at hrun
  by_cases hn : dsc.sig < 0
  · have hrn : rep < 0 := hsign.1.mpr hn
    simp only [hn, if_true, Buf.write, Buf.fresh, hpos] at hrun
    obtain ⟨t, m, x', ns, htx, hu, hK, hF⟩ :=
      scaled_denotes_core 1 ['-'] ⟨len, (List.replicate len none).set 0 (some '-')⟩ r dsc.sig.natAbs h0 dsc.exp
        (by simp; omega)
        (by
          cases len with
          | zero => omega
          | succ k => simp [List.replicate_succ])
        rfl hrun hok
    obtain ⟨g1, g2⟩ := finish t m x' ns 1 hu hK hF (by simp [hrn]) true
    refine ⟨dsc, ⟨true, m, x'⟩, hd, ?_, by simp [hrn], g1, g2⟩
    rw [htx]; exact decimalValue_neg t m x' hu
  · have hrn : ¬ rep < 0 := fun h => hn (hsign.1.mp h)
    simp only [hn, if_false] at hrun
    obtain ⟨t, m, x', ns, htx, hu, hK, hF⟩ :=
      scaled_denotes_core 0 [] (Buf.fresh len) r dsc.sig.natAbs h0 dsc.exp
        (Nat.zero_le _) (by simp) rfl hrun hok
    obtain ⟨g1, g2⟩ := finish t m x' ns 0 hu hK hF (by simp [hrn]) false
    refine ⟨dsc, ⟨false, m, x'⟩, hd, ?_, by simp [hrn], g1, g2⟩
    rw [htx]; exact decimalValue_pos t m x' hu

/-! ### when `descale` is lossless -/

/-- invariant of the lossless run of the binary negative-exponent loop: the value `a·5^ie` that the significand
is heading for stays below `B` (for an even significand the pending halving is taken into account) -/
def LosslessInv (B a ie : Nat) : Prop :=
  ∀ i, ie = i + 1 → (if a % 2 = 0 then (a / 2) * 5 ^ i ≤ B else a * 5 ^ (i + 1) ≤ B)

theorem losslessInv_init (a ie : Nat) : LosslessInv (a * 5 ^ ie) a ie := by
  intro i hi
  subst hi
  split
  · have h1 : a / 2 ≤ a := Nat.div_le_self _ _
    have h2 := Nat.mul_le_mul_right (5 ^ i) h1
    rw [Nat.pow_succ]
    have : a * 5 ^ i ≤ a * (5 ^ i * 5) := Nat.mul_le_mul_left _ (Nat.le_mul_of_pos_right _ (by omega))
    omega
  · exact Nat.le_refl _

theorem descaleNeg_lossless (S : IntTy) (h8 : 8 ≤ S.bits) (neg : Bool) (B : Nat)
    (hB : 10 * B ≤ S.max.toNat) :
    ∀ fuel sig x ie k d, SigOK S neg sig → LosslessInv B sig.natAbs ie →
      descaleNeg S neg 2 fuel sig x ie k = .ok d → d.lossy = k := by
  have hM := max_ge_127_any S h8
  obtain ⟨hl0, hm0⟩ := sigOK_bounds S
  intro fuel
  induction fuel with
  | zero => intro sig x ie k d _ _ h; simp [descaleNeg] at h
  | succ n ih =>
    intro sig x ie k d hok hinv h
    cases ie with
    | zero => simp only [descaleNeg] at h; cases h; rfl
    | succ ie =>
      have hI := hinv ie rfl
      have hmod : (sig.tmod ((2 : Nat) : Int)).natAbs = sig.natAbs % 2 := natAbs_tmod_nat sig 2
      have hdiv : (sig.tdiv ((2 : Nat) : Int)).natAbs = sig.natAbs / 2 := natAbs_tdiv_nat sig 2
      by_cases hc : sig.tmod ((2 : Nat) : Int) ≠ 0 ∧ oobSig S 10 neg sig = false
      · obtain ⟨hin, hok'⟩ := step_mul10 S neg sig hok hc.2
        simp only [descaleNeg, hc, and_self, if_true, ne_eq, not_false_eq_true, mulS_ok (by omega) hin] at h
        apply ih _ _ _ _ _ hok' _ h
        have hn : (sig * ((10 : Nat) : Int)).natAbs = sig.natAbs * 10 := by
          rw [Int.natAbs_mul]; rfl
        have hodd : ¬ sig.natAbs % 2 = 0 := by omega
        rw [if_neg hodd] at hI
        intro i hi
        have : i = ie := by omega
        subst this
        rw [hn]
        have e1 : sig.natAbs * 10 % 2 = 0 := by omega
        have e2 : sig.natAbs * 10 / 2 = sig.natAbs * 5 := by omega
        rw [if_pos e1, e2]
        rw [Nat.pow_succ] at hI
        grind
      · have ht : sig.tmod ((2 : Nat) : Int) = 0 := by
          by_cases ht : sig.tmod ((2 : Nat) : Int) = 0
          · exact ht
          · exfalso
            have ho : oobSig S 10 neg sig = true := by
              cases hoo : oobSig S 10 neg sig with
              | true => rfl
              | false => exact absurd ⟨ht, hoo⟩ hc
            have hgt := oob_gt S 10 (by omega) (by omega) neg sig hok ho
            have hodd : ¬ sig.natAbs % 2 = 0 := by omega
            rw [if_neg hodd] at hI
            have : sig.natAbs * 1 ≤ sig.natAbs * 5 ^ (ie + 1) :=
              Nat.mul_le_mul_left _ (Nat.pow_pos (by omega))
            omega
        simp only [descaleNeg, hc, if_false] at h
        have hk : (if sig.tmod ((2 : Nat) : Int) ≠ 0 then k + 1 else k) = k := by
          rw [if_neg (by omega)]
        rw [hk] at h
        have hok' := step_div S hl0 hm0 neg sig 2 (by omega) hok (Or.inl ht)
        apply ih _ _ _ _ _ hok' _ h
        have hev : sig.natAbs % 2 = 0 := by omega
        rw [if_pos hev] at hI
        intro i hi
        subst hi
        rw [hdiv]
        rw [Nat.pow_succ] at hI
        split
        · have h1 : sig.natAbs / 2 / 2 ≤ sig.natAbs / 2 := Nat.div_le_self _ _
          have h2 := Nat.mul_le_mul_right (5 ^ i) h1
          have : sig.natAbs / 2 * 5 ^ i ≤ sig.natAbs / 2 * (5 ^ i * 5) :=
            Nat.mul_le_mul_left _ (Nat.le_mul_of_pos_right _ (by omega))
          omega
        · rw [Nat.pow_succ]; exact hI

/-- **no lossy division for short binary fractions**: for a negative exponent and input radix 2, when
`|input|·5^|e|` — the significand of the exact expansion — is at most `max/10` (18 digits for `int64_t`),
`descale` is lossless, so (`descale_value`) `s·10^x = |input|·2^e` exactly -/
theorem descale_lossless_binary (S : IntTy) (h8 : 8 ≤ S.bits) (input e : Int)
    (hr : S.InRange input) (h0 : input ≠ 0) (he : e < 0)
    (hB : 10 * (input.natAbs * 5 ^ e.natAbs) ≤ S.max.toNat) (d : Desc)
    (hd : descale S input e 2 = .ok d) : d.lossy = 0 := by
  unfold descale at hd
  simp only [h0, if_false] at hd
  rw [IntTy.wrap_id (by omega) hr] at hd
  have hok : SigOK S (decide (input < 0)) input := by
    refine ⟨hr.1, hr.2, ?_⟩
    by_cases hn : input < 0 <;> simp [hn]; omega
  simp only [he, if_true] at hd
  exact descaleNeg_lossless S h8 _ _ hB _ _ _ _ _ d hok (losslessInv_init _ _) hd

theorem descalePos_lossless (S : IntTy) (h8 : 8 ≤ S.bits) (neg : Bool) (R : Nat)
    (hR1 : 1 ≤ R) (hRS : 10 * (R : Int) ≤ S.max) (B : Nat) (hB : 10 * B ≤ S.max.toNat) :
    ∀ fuel sig x ie k d, SigOK S neg sig → sig.natAbs * R ^ ie ≤ B →
      descalePos S (headroomRadix R) neg R fuel sig x ie k = .ok d → d.lossy = k := by
  have hM := max_ge_127_any S h8
  have hH := headroom_ge R
  have hH1 : 1 ≤ headroomRadix R := by omega
  have hHS := headroom_fits S h8 R hRS
  obtain ⟨hl0, hm0⟩ := sigOK_bounds S
  intro fuel
  induction fuel with
  | zero => intro sig x ie k d _ _ h; simp [descalePos] at h
  | succ n ih =>
    intro sig x ie k d hok hinv h
    -- while multiplications remain the significand is inside the headroom
    have hno : ie ≠ 0 → oobSig S (headroomRadix R) neg sig = false := by
      intro hie
      cases hoo : oobSig S (headroomRadix R) neg sig with
      | false => rfl
      | true =>
        exfalso
        have hgt := oob_gt S (headroomRadix R) hH1 hHS neg sig hok hoo
        obtain ⟨i, hi⟩ := Nat.exists_eq_succ_of_ne_zero hie
        rw [hi, Nat.pow_succ] at hinv
        have h1 : sig.natAbs * R ≤ sig.natAbs * (R ^ i * R) :=
          Nat.mul_le_mul_left _ (Nat.le_mul_of_pos_left _ (Nat.pow_pos (by omega)))
        have h3 : headroomRadix R ≤ 10 * R := by unfold headroomRadix; omega
        have h2 : headroomRadix R * sig.natAbs ≤ 10 * (sig.natAbs * R) :=
          calc headroomRadix R * sig.natAbs ≤ (10 * R) * sig.natAbs := Nat.mul_le_mul_right _ h3
            _ = 10 * (sig.natAbs * R) := by rw [Nat.mul_assoc, Nat.mul_comm R]
        omega
    by_cases h1 : ie = 0 ∧ sig.tmod 10 ≠ 0
    · simp only [descalePos, h1, and_self, if_true, ne_eq, not_false_eq_true] at h
      cases h; rfl
    · by_cases h2 : sig.tmod 10 = 0 ∨ oobSig S (headroomRadix R) neg sig = true
      · simp only [descalePos, h1, h2, if_false, if_true] at h
        have ht : sig.tmod 10 = 0 := by
          rcases h2 with h2 | h2
          · exact h2
          · by_cases hie : ie = 0
            · by_cases ht : sig.tmod 10 = 0
              · exact ht
              · exact absurd ⟨hie, ht⟩ h1
            · rw [hno hie] at h2; cases h2
        have hk : (if sig.tmod 10 ≠ 0 then k + 1 else k) = k := by rw [if_neg (by omega)]
        rw [hk] at h
        have hok' : SigOK S neg (sig.tdiv 10) :=
          step_div S hl0 hm0 neg sig 10 (by omega) hok (Or.inl ht)
        apply ih _ _ _ _ _ hok' _ h
        have hdiv : (sig.tdiv ((10 : Nat) : Int)).natAbs = sig.natAbs / 10 := natAbs_tdiv_nat sig 10
        have hdiv' : (sig.tdiv 10).natAbs = sig.natAbs / 10 := hdiv
        rw [hdiv']
        have := Nat.mul_le_mul_right (R ^ ie) (Nat.div_le_self sig.natAbs 10)
        omega
      · simp only [descalePos, h1, h2, if_false] at h
        have htm : sig.tmod 10 ≠ 0 := fun h0 => h2 (Or.inl h0)
        have hie : ie ≠ 0 := fun h0 => h1 ⟨h0, htm⟩
        obtain ⟨hin, hok'⟩ := step_mulR S (headroomRadix R) neg sig R hR1 hH.2 hH1 hHS hok (hno hie)
        simp only [mulS_ok (by omega) hin, sigOK_ne_zero hok', if_false] at h
        cases ie with
        | zero => exact absurd rfl hie
        | succ i =>
          simp only [Nat.add_sub_cancel] at h
          apply ih _ _ _ _ _ hok' _ h
          have hn : (sig * (R : Int)).natAbs = sig.natAbs * R := by
            rw [Int.natAbs_mul]; rfl
          rw [hn]
          rw [Nat.pow_succ] at hinv
          grind

/-- **no lossy division for small integers**: for a non-negative exponent, when `|input|·R^e ≤ max/10`, `descale`
is lossless -/
theorem descale_lossless_small (S : IntTy) (h8 : 8 ≤ S.bits) (input e : Int) (R : Nat)
    (hR1 : 1 ≤ R) (hRS : 10 * (R : Int) ≤ S.max) (hr : S.InRange input) (h0 : input ≠ 0) (he : 0 ≤ e)
    (hB : 10 * (input.natAbs * R ^ e.natAbs) ≤ S.max.toNat) (d : Desc)
    (hd : descale S input e R = .ok d) : d.lossy = 0 := by
  unfold descale at hd
  simp only [h0, if_false] at hd
  rw [IntTy.wrap_id (by omega) hr] at hd
  have hok : SigOK S (decide (input < 0)) input := by
    refine ⟨hr.1, hr.2, ?_⟩
    by_cases hn : input < 0 <;> simp [hn]; omega
  have hn : ¬ e < 0 := by omega
  simp only [hn, if_false] at hd
  exact descalePos_lossless S h8 _ R hR1 hRS _ hB _ _ _ _ _ d hok (Nat.le_refl _) hd

/-! ### the capacity of `scaled_integer` (`to_chars_static`, `to_string`, `operator<<`) -/

theorem fillText_ok {b : Buf} {first : Nat} {text : Option (List Char)} {n : Int} {r : TCR}
    (h : fillText b first text n = .ok r) : r.ok = true := by
  unfold fillText at h
  split at h
  · cases h
  · split at h
    · split at h
      · cases h
      · cases h; rfl
    · cases h
    · cases h

theorem choose_not_tooLarge (i : Info) (h : 0 < (solveFixed i).numSig ∨ 0 < (solveSci i).numSig) :
    choose i ≠ .tooLarge := by
  unfold choose
  simp only
  by_cases hf : (solveFixed i).numSig > 0
  · split
    · intro h; cases h
    · intro h; cases h
  · have hs : 0 < (solveSci i).numSig := by
      rcases h with h | h
      · exact absurd h hf
      · exact h
    have ht : tupGt (solveSci i).numSig (-(solveSci i).numChars) (solveFixed i).numSig (-(solveFixed i).numChars) = true := by
      unfold tupGt
      have : (solveSci i).numSig > (solveFixed i).numSig := by omega
      simp [this]
    rw [if_pos ⟨hs, ht⟩]; intro h; cases h

/-- the positive-value routine succeeds whenever one of the two layouts keeps a digit -/
theorem toCharsPositive_succeeds (b : Buf) (first : Nat) (ds : List Char) (x : Int)
    (hk : 0 < (solveFixed (infoOf b.len first ds.length x)).numSig ∨
          0 < (solveSci (infoOf b.len first ds.length x)).numSig) :
    ∀ r, toCharsPositive b first ds x = .ok r → r.ok = true := by
  intro r h
  have hne := choose_not_tooLarge _ hk
  unfold toCharsPositive toCharsPositiveWith at h
  simp only at h
  unfold infoOf at hne
  split at h
  · split at h
    · cases h
    · exact fillText_ok h
  · exact fillText_ok h
  · rename_i hc; exact absurd hc hne

/-- `n + m` digits: a positive `s` followed by `m` zeros is below `10^K` only if it has at most `K` digits -/
theorem digits_add_le (s m K : Nat) (hs : 0 < s) (h : s * 10 ^ m < 10 ^ K) :
    (natDigits 10 s).length + m ≤ K := by
  by_cases hm : m ≤ K
  · have hK : 10 ^ K = 10 ^ (K - m) * 10 ^ m := by rw [← Nat.pow_add]; congr 1; omega
    rw [hK] at h
    have hlt : s < 10 ^ (K - m) := Nat.lt_of_mul_lt_mul_right h
    have := natDigits_length_le 10 s (K - m) (by omega) hs hlt
    omega
  · exfalso
    have h1 : 10 ^ K < 10 ^ m := Nat.pow_lt_pow_right (by omega) (by omega)
    have h2 : 10 ^ m ≤ s * 10 ^ m := Nat.le_mul_of_pos_left _ hs
    omega

/-- `num_digits_from_binary(N, 10)` decimal digits hold every `N`-bit number (and `2^N` itself) -/
theorem fromBinary10_spec (N : Nat) : 2 ^ N < 10 ^ ((N * 1000 + 3322) / 3321) := by
  have h := pow_two_lt_pow_ten 1000 3321 (by omega) two_pow_3321 N
  exact Nat.lt_of_lt_of_le h (Nat.pow_le_pow_right (by omega) (by omega))

/-- `R ≤ 2^used_digits(R−1)` -/
theorem le_two_pow_usedDigits (R : Nat) (hR : 1 ≤ R) : R ≤ 2 ^ usedDigits (R - 1) := by
  unfold usedDigits
  split
  · omega
  · have := @Nat.lt_log2_self (R - 1)
    omega

/-- `num_digits_to_binary(E, R)` for EVERY radix `≥ 2`: a natural number; for `R ≠ 10` enough bits for `R^E`
(`E·used_digits(R−1)` in general, `E`, `3E`, `4E` for 2, 8, 16);
for `R = 10` the estimate `(3322·E + 678)/1000` can be ONE BIT SHORT (e.g. `E = 60`: 199 bits, `10^60 > 2^199`) -/
theorem toBinary_spec (E R : Nat) (hR2 : 2 ≤ R) :
    ∃ tb : Nat, numDigitsToBinary (E : Int) R = tb ∧ (R ≠ 10 → R ^ E ≤ 2 ^ tb) ∧
      (R = 10 → 3322 * E ≤ tb * 1000 + 321) := by
  have pw : ∀ (r k : Nat), r ≤ 2 ^ k → r ^ E ≤ 2 ^ (E * k) := by
    intro r k h
    calc r ^ E ≤ (2 ^ k) ^ E := Nat.pow_le_pow_left h E
      _ = 2 ^ (E * k) := by rw [← Nat.pow_mul, Nat.mul_comm]
  unfold numDigitsToBinary
  split
  · exact ⟨E, rfl, fun _ => Nat.le_refl _, fun h => absurd h (by decide)⟩
  · exact ⟨E * 3, rfl, fun _ => pw 8 3 (by decide), fun h => absurd h (by decide)⟩
  · refine ⟨(E * 3322 + 678) / 1000, ?_, fun h => absurd rfl h, fun _ => by omega⟩
    rw [Int.tdiv_eq_ediv_of_nonneg (by omega)]
    omega
  · exact ⟨E * 4, rfl, fun _ => pw 16 4 (by decide), fun h => absurd h (by decide)⟩
  · rename_i _ _ h10 _
    exact ⟨E * usedDigits (R - 1), by simp, fun _ => pw R _ (le_two_pow_usedDigits R (by omega)), fun h => absurd h h10⟩

/-- the capacity for a non-negative exponent: sign + `num_digits_from_binary(digits + tb, 10)` -/
theorem scaledCapacity_nonneg_exp (T : IntTy) (e : Int) (R : Nat) (he : 0 ≤ e) (tb : Nat)
    (htb : numDigitsToBinary e R = tb) :
    scaledCapacity T e R =
      (((if T.signed then 1 else 0) + ((T.digits + tb) * 1000 + 3322) / 3321 : Nat) : Int) := by
  unfold scaledCapacity
  have h1 : max (-e) 0 = 0 := by omega
  have h2 : max 0 e = e := by omega
  simp only [h1, h2, htb, numDigitsFromBinary]
  rw [Int.tdiv_eq_ediv_of_nonneg (by omega)]
  cases T.signed <;> simp <;> omega

/-- the value bound behind the capacity: `|rep|·R^E < 10^K` with `K = num_digits_from_binary(digits + tb, 10)`;
for radix ten this needs the side condition on the digit count (true of every built-in type) -/
theorem value_lt_capacity (D E R tb a : Nat) (ha : a ≤ 2 ^ D)
    (h1 : R ≠ 10 → R ^ E ≤ 2 ^ tb) (h2 : R = 10 → 3322 * E ≤ tb * 1000 + 321)
    (hside : R = 10 → 320 ≤ D * 1000 % 3321) :
    a * R ^ E < 10 ^ (((D + tb) * 1000 + 3322) / 3321) := by
  by_cases h10 : R = 10
  · subst h10
    have hq := pow_two_lt_pow_ten 1000 3321 (by omega) two_pow_3321 D
    have h2' := h2 rfl
    have hs' := hside rfl
    have hle : D * 1000 / 3321 + 1 + E ≤ ((D + tb) * 1000 + 3322) / 3321 := by omega
    calc a * 10 ^ E < 10 ^ (D * 1000 / 3321 + 1) * 10 ^ E :=
          Nat.mul_lt_mul_of_pos_right (Nat.lt_of_le_of_lt ha hq) (Nat.pow_pos (by omega))
      _ = 10 ^ (D * 1000 / 3321 + 1 + E) := (Nat.pow_add 10 (D * 1000 / 3321 + 1) E).symm
      _ ≤ 10 ^ (((D + tb) * 1000 + 3322) / 3321) := Nat.pow_le_pow_right (by omega) hle
  · calc a * R ^ E ≤ 2 ^ D * 2 ^ tb := Nat.mul_le_mul ha (h1 h10)
      _ = 2 ^ (D + tb) := by rw [Nat.pow_add]
      _ < 10 ^ (((D + tb) * 1000 + 3322) / 3321) := fromBinary10_spec (D + tb)

/-- for a non-negative input exponent the decimal exponent is non-negative and the value is never exceeded -/
theorem descale_nonneg_exp (S : IntTy) (h8 : 8 ≤ S.bits) (input e : Int) (R : Nat) (hR2 : 2 ≤ R) (hRS : 10 * (R : Int) ≤ S.max)
    (hr : S.InRange input) (h0 : input ≠ 0) (he : 0 ≤ e) (d : Desc) (hd : descale S input e R = .ok d) :
    ∃ m : Nat, d.exp = m ∧ d.sig.natAbs * 10 ^ m ≤ input.natAbs * R ^ e.natAbs := by
  unfold descale at hd
  simp only [h0, if_false] at hd
  rw [IntTy.wrap_id (by omega) hr] at hd
  have hok : SigOK S (decide (input < 0)) input := by
    refine ⟨hr.1, hr.2, ?_⟩
    by_cases hn : input < 0 <;> simp [hn]; omega
  have hn : ¬ e < 0 := by omega
  simp only [hn, if_false] at hd
  obtain ⟨m, j, e1, _, e3, _⟩ := descalePos_value S h8 _ R (by omega) (headroomRadix R) (headroom_ge R).2 (by have := (headroom_ge R).1; omega)
    (headroom_fits S h8 R hRS) _ _ _ _ _ d hok hd
  exact ⟨m, by omega, e3⟩

/-- every value of the rep type is a value of the significand type -/
theorem sigTy_range (T : IntTy) (rep : Int) (hr : T.InRange rep) : (sigTy T).InRange rep := by
  unfold sigTy
  split
  · exact hr
  · rename_i h
    obtain ⟨h1, h2⟩ := hr
    unfold IntTy.digits at h
    unfold IntTy.InRange IntTy.lowest IntTy.max at *
    have e63 : (2 : Int) ^ 63 = 9223372036854775808 := by decide
    cases hs : T.signed
    · simp only [hs, if_false, Bool.false_eq_true] at h h1 h2
      have hp : (2 : Int) ^ T.bits ≤ 2 ^ 63 := two_pow_le (by omega)
      simp [i64]; omega
    · simp only [hs, if_true] at h h1 h2
      have hp : (2 : Int) ^ (T.bits - 1) ≤ 2 ^ 63 := two_pow_le (by omega)
      simp [i64]; omega

/-- success of `cnl::to_chars` on a non-zero `scaled_integer`, given what `descale` returned and that one of the
layouts keeps a digit in the space left after the sign -/
theorem scaledToChars_ok_of (T : IntTy) (e : Int) (radix len : Nat) (rep : Int) (d : Desc)
    (hlen : len ≠ 0) (hrep : rep ≠ 0)
    (hd : descale (sigTy T) rep e radix = .ok d) (h0 : d.sig ≠ 0)
    (hk : 0 < (solveFixed (infoOf len (if d.sig < 0 then 1 else 0) (natDigits 10 d.sig.natAbs).length d.exp)).numSig ∨
          0 < (solveSci (infoOf len (if d.sig < 0 then 1 else 0) (natDigits 10 d.sig.natAbs).length d.exp)).numSig) :
    ∀ r, scaledToChars T e radix len rep = .ok r → r.ok = true := by
  intro r hrun
  have hpos : 0 < len := Nat.pos_of_ne_zero hlen
  unfold scaledToChars scaledToCharsWith at hrun
  simp only [hlen, hrep, if_false, hd, h0] at hrun
  by_cases hn : d.sig < 0
  · simp only [hn, if_true, Buf.write, Buf.fresh, hpos] at hrun hk
    exact toCharsPositive_succeeds ⟨len, (List.replicate len none).set 0 (some '-')⟩ 1 _ d.exp hk r hrun
  · simp only [hn, if_false] at hrun hk
    exact toCharsPositive_succeeds (Buf.fresh len) 0 _ d.exp hk r hrun

/-- `staticText` of a run that meets the contract and succeeds -/
theorem staticText_ok (cap : Nat) (run : Nat → Res TCR) (r : TCR) (hrun : run cap = .ok r)
    (hc : Contract cap r) (hok : r.ok = true) : ∃ t, staticText (cap : Int) run = .ok t := by
  obtain ⟨p, hp, hp0, hple, _⟩ := hc.2.2.1 hok
  refine ⟨r.text, ?_⟩
  unfold staticText
  have hc0 : ¬ ((cap : Int) < 0) := by omega
  simp only [hc0, if_false, Int.toNat_natCast, hrun, hok, hp]
  have : ¬ (p = 0 ∨ p > cap) := by omega
  simp [this]

/-- **the capacity of `scaled_integer` suffices — non-negative exponents.**  For every rep type, every value,
every exponent `e ≥ 0` and EVERY radix `≥ 2` (for radix ten: digit counts with `1000·digits mod 3321 ≥ 320`, which
holds for 7, 8, 15, 16, 31, 32, 63, 64, 127, 128), `to_chars_static` succeeds — for every value, the most negative one included -/
theorem scaledStaticText_nonneg_exp (T : IntTy) (e : Int) (R : Nat) (rep : Int)
    (he : 0 ≤ e) (hR2 : 2 ≤ R) (hRS : 10 * (R : Int) ≤ (sigTy T).max)
    (hside : R = 10 → 320 ≤ T.digits * 1000 % 3321) (hbits : 1 ≤ T.bits) (hr : T.InRange rep) :
    ∃ t, scaledStaticText T e R rep = .ok t := by
  obtain ⟨tb, htb, hp1, hp2⟩ := toBinary_spec e.natAbs R hR2
  have hee : ((e.natAbs : Nat) : Int) = e := by omega
  rw [hee] at htb
  have hcap := scaledCapacity_nonneg_exp T e R he tb htb
  generalize hK : ((T.digits + tb) * 1000 + 3322) / 3321 = K at hcap
  have hK1 : 1 ≤ K := by omega
  have hval := value_lt_capacity T.digits e.natAbs R tb rep.natAbs (natAbs_le_two_pow_digits T rep hr hbits) hp1 hp2 hside
  rw [hK] at hval
  generalize hlen : (if T.signed then 1 else 0) + K = len at hcap
  have hlen0 : len ≠ 0 := by omega
  unfold scaledStaticText
  rw [hcap]
  have hrs := sigTy_range T rep hr
  by_cases hrep : rep = 0
  · obtain ⟨r, hrun, hc⟩ := scaledToChars_stays_inside T e R len rep hrs hR2 hRS
    have hok : r.ok = true := by
      have : scaledToChars T e R len rep = .ok ⟨some 1, true, ⟨len, (List.replicate len none).set 0 (some '0')⟩⟩ := by
        have hpos : 0 < len := Nat.pos_of_ne_zero hlen0
        simp [scaledToChars, scaledToCharsWith, hlen0, hrep, Buf.write, Buf.fresh, hpos]
      rw [this] at hrun; cases hrun; rfl
    exact staticText_ok len _ r hrun hc hok
  · obtain ⟨d, hd, hsok⟩ := descale_ok (sigTy T) (sigTy_bits T) rep e R hR2 hRS hrs hrep
    have hsign : (rep < 0 ↔ d.sig < 0) ∧ d.sig ≠ 0 := by
      obtain ⟨_, _, h3⟩ := hsok
      by_cases hn : rep < 0 <;> simp [hn] at h3 ⊢ <;> omega
    obtain ⟨r, hrun, hc⟩ := scaledToChars_contract T e R len rep d hlen0 hrep hd hsign.2
    obtain ⟨m, hm, hle⟩ := descale_nonneg_exp (sigTy T) (sigTy_bits T) rep e R hR2 hRS hrs hrep he d hd
    have hs0 : 0 < d.sig.natAbs := Int.natAbs_pos.mpr hsign.2
    have hdig := digits_add_le d.sig.natAbs m K hs0 (Nat.lt_of_le_of_lt hle hval)
    -- a negative value needs a signed rep type: the sign's cell is part of the capacity
    have hfirst : (if d.sig < 0 then 1 else 0) + K ≤ len := by
      by_cases hn : d.sig < 0
      · have hrn : rep < 0 := hsign.1.mpr hn
        have hsg : T.signed = true := by
          cases hs : T.signed with
          | true => rfl
          | false => have := hr.1; simp [IntTy.lowest, hs] at this; omega
        simp only [hsg, if_true] at hlen
        simp only [hn, if_true]; omega
      · simp only [hn, if_false]; omega
    have hn0 : 0 < (natDigits 10 d.sig.natAbs).length := by
      have := natDigitsF_pos 10 d.sig.natAbs d.sig.natAbs hs0
      exact this
    have hk : 0 < (solveFixed (infoOf len (if d.sig < 0 then 1 else 0) (natDigits 10 d.sig.natAbs).length d.exp)).numSig := by
      generalize (natDigits 10 d.sig.natAbs).length = n at hdig hn0 ⊢
      generalize (if d.sig < 0 then 1 else 0) = first at hfirst ⊢
      simp only [solveFixed, infoOf, hm]
      have hgt : ¬ ((n : Int) + (m : Int) > (len : Int) - (first : Int)) := by omega
      rw [if_neg hgt]
      have hm0 : ¬ ((m : Int) < 0) := by omega
      simp only [hm0, decide_false, Bool.false_eq_true, if_false]
      omega
    have hok := scaledToChars_ok_of T e R len rep d hlen0 hrep hd hsign.2 (Or.inl hk) r hrun
    exact staticText_ok len _ r hrun hc hok

end Cnl.Charconv
