import CnlModel.Charconv
import CnlSpec.Decimal
import CnlProofs.CIntLemmas
/-!
# Helper lemmas for C13 / C14 (`to_chars`): Lean core only.

* layout arithmetic of `solve_fixed` / `solve_scientific` / the selection (`choose_safe`);
* digit strings of `to_chars_natural` (`natDigitsF_value`, `_head`, `_length`);
* the write loop against the buffer (`natWrite_spec`), the integer routine (`intToChars_contract`,
  `intToChars_ok`), capacity (`pow_two_lt_pow_ten`, `intText_le_capacity`);
* the numeral read back by the independent reader (`intText_value`);
* termination of the repaired `descale` (`descale_terminates`, measure `ie·(B+2) + headroom`), its loop
  invariant (`descale_ok`), the text lengths of both `fill`s (`sciText_length`, `fixedText_length`), the scaled
  routine (`toCharsPositive_contract`, `scaledToChars_contract`, `scaledToChars_stays_inside`).
-/
namespace Cnl.Charconv
open Cnl Cnl.Spec


/-! ### layout arithmetic -/

theorem sci_fits (i : Info) (hpos : 0 < (solveSci i).numSig) (he : 0 ≤ i.expChars) :
    (solveSci i).numChars ≤ i.maxChars := by
  simp only [solveSci] at *; omega

theorem fixed_fits (i : Info) (hpos : 0 < (solveFixed i).numSig) :
    (solveFixed i).numChars ≤ i.maxChars := by
  by_cases h : i.numSig + i.exponent > i.maxChars
  · simp [solveFixed, h] at hpos
  · simp only [solveFixed, h, if_false] at hpos ⊢
    by_cases hr : i.exponent < 0 <;> simp [hr] at hpos ⊢ <;> omega

/-- the layout that is going to be filled keeps at least one digit and fits the space -/
def Safe (pick : Info → Choice) (i : Info) : Prop :=
  match pick i with
  | .sci s => 0 < s.numSig ∧ s.numChars ≤ i.maxChars
  | .fixed f => 0 < f.numSig ∧ f.numChars ≤ i.maxChars
  | .tooLarge => True

instance (pick : Info → Choice) (i : Info) : Decidable (Safe pick i) := by
  unfold Safe; split <;> infer_instance

theorem choose_safe (i : Info) (he : 0 ≤ i.expChars) : Safe choose i := by
  unfold Safe
  by_cases h1 : (solveSci i).numSig > 0 ∧ tupGt (solveSci i).numSig (-(solveSci i).numChars) (solveFixed i).numSig (-(solveFixed i).numChars) = true
  · have hc : choose i = .sci (solveSci i) := by unfold choose; exact if_pos h1
    rw [hc]; exact ⟨h1.1, sci_fits i h1.1 he⟩
  · by_cases h2 : (solveFixed i).numSig > 0
    · have hc : choose i = .fixed (solveFixed i) := by unfold choose; rw [if_neg h1, if_pos h2]
      rw [hc]; exact ⟨h2, fixed_fits i h2⟩
    · have hc : choose i = .tooLarge := by unfold choose; rw [if_neg h1, if_neg h2]
      rw [hc]; trivial

theorem chooseOrig_not_safe : ¬ Safe chooseOrig ⟨13, -17, 0, 2⟩ := by decide


theorem digitVal_itoc : ∀ d, d < 36 → digitVal (itoc d) = some d := by decide
theorem itoc_ne_zero_char : ∀ d, d < 36 → d ≠ 0 → itoc d ≠ '0' := by decide

theorem digitsValue_append (base : Nat) (xs ys : List Char) (acc : Nat) :
    digitsValue base (xs ++ ys) acc = (digitsValue base xs acc).bind (fun a => digitsValue base ys a) := by
  induction xs generalizing acc with
  | nil => simp [digitsValue]
  | cons c cs ih =>
    simp only [List.cons_append, digitsValue]
    cases digitVal c with
    | none => simp
    | some d =>
      by_cases h : d < base
      · simp [h, ih]
      · simp [h]

theorem digitsValue_single (base d acc : Nat) (hd : d < base) (hb : base ≤ 36) :
    digitsValue base [itoc d] acc = some (acc * base + d) := by
  simp [digitsValue, digitVal_itoc d (by omega), hd]

theorem natDigitsF_value (base : Nat) (h2 : 2 ≤ base) (h36 : base ≤ 36) :
    ∀ fuel v, 0 < v → v ≤ fuel → digitsValue base (natDigitsF base fuel v) 0 = some v := by
  intro fuel
  induction fuel with
  | zero => intro v h0 h1; omega
  | succ n ih =>
    intro v h0 h1
    have hm : v % base < base := Nat.mod_lt _ (by omega)
    have hdm := Nat.div_add_mod v base
    by_cases hq : v / base = 0
    · simp only [natDigitsF, hq, if_true]
      rw [digitsValue_single base _ 0 hm h36]
      rw [hq] at hdm; simp at hdm ⊢; omega
    · simp only [natDigitsF, hq, if_false]
      have hlt : v / base < v := Nat.div_lt_self h0 (by omega)
      rw [digitsValue_append, ih (v / base) (Nat.pos_of_ne_zero hq) (Nat.le_of_lt_succ (Nat.lt_of_lt_of_le hlt h1))]
      simp only [Option.bind]
      rw [digitsValue_single base _ _ hm h36]
      congr 1
      rw [Nat.mul_comm]; exact hdm

theorem natDigitsF_head (base : Nat) (h2 : 2 ≤ base) (h36 : base ≤ 36) :
    ∀ fuel v, 0 < v → v ≤ fuel → ∃ c rest, natDigitsF base fuel v = c :: rest ∧ c ≠ '0' := by
  intro fuel
  induction fuel with
  | zero => intro v h0 h1; omega
  | succ n ih =>
    intro v h0 h1
    have hm : v % base < base := Nat.mod_lt _ (by omega)
    have hdm := Nat.div_add_mod v base
    by_cases hq : v / base = 0
    · refine ⟨itoc (v % base), [], ?_, ?_⟩
      · simp [natDigitsF, hq]
      · apply itoc_ne_zero_char _ (by omega)
        rw [hq] at hdm; omega
    · have hlt : v / base < v := Nat.div_lt_self h0 (by omega)
      obtain ⟨c, rest, he, hc⟩ := ih (v / base) (Nat.pos_of_ne_zero hq) (Nat.le_of_lt_succ (Nat.lt_of_lt_of_le hlt h1))
      refine ⟨c, rest ++ [itoc (v % base)], ?_, hc⟩
      simp [natDigitsF, hq, he]

theorem natDigitsF_length (base : Nat) (h2 : 2 ≤ base) :
    ∀ fuel v k, 0 < v → v ≤ fuel → v < base ^ k → (natDigitsF base fuel v).length ≤ k := by
  intro fuel
  induction fuel with
  | zero => intro v k h0 h1; omega
  | succ n ih =>
    intro v k h0 h1 hk
    cases k with
    | zero => simp at hk; omega
    | succ k =>
      by_cases hq : v / base = 0
      · simp [natDigitsF, hq]
      · simp only [natDigitsF, hq, if_false, List.length_append, List.length_cons, List.length_nil]
        have hlt : v / base < v := Nat.div_lt_self h0 (by omega)
        have : v / base < base ^ k := by
          rw [Nat.div_lt_iff_lt_mul (by omega)]
          rw [Nat.pow_succ] at hk; exact hk
        have := ih (v / base) k (Nat.pos_of_ne_zero hq) (Nat.le_of_lt_succ (Nat.lt_of_lt_of_le hlt h1)) this
        omega

theorem natDigitsF_pos (base : Nat) : ∀ fuel v, 0 < fuel → 0 < (natDigitsF base fuel v).length := by
  intro fuel v h
  cases fuel with
  | zero => omega
  | succ n =>
    by_cases hq : v / base = 0 <;> simp [natDigitsF, hq]


/-- the cell list has the declared length -/
def Buf.WF (b : Buf) : Prop := b.cells.length = b.len

theorem fresh_WF (n : Nat) : (Buf.fresh n).WF := by simp [Buf.WF, Buf.fresh]

theorem natWrite_spec : ∀ (ds : List Char) (b : Buf) (p : Nat), b.WF → p ≤ b.len →
    ∃ r, natWrite ds b p = .ok r ∧ r.2.WF ∧ r.2.len = b.len ∧
      (r.1 = if p + ds.length ≤ b.len then some (p + ds.length) else none) ∧
      ∀ i, r.2.cells[i]? =
        if p ≤ i ∧ i < p + ds.length ∧ i < b.len then (ds[i - p]?).map some else b.cells[i]? := by
  intro ds
  induction ds with
  | nil =>
    intro b p hw hp
    refine ⟨(some p, b), rfl, hw, rfl, ?_, ?_⟩
    · simp [hp]
    · intro i
      have : ¬ (p ≤ i ∧ i < p + ([] : List Char).length ∧ i < b.len) := by simp; omega
      rw [if_neg this]
  | cons d ds ih =>
    intro b p hw hp
    by_cases hpl : p = b.len
    · refine ⟨(none, b), ?_, hw, rfl, ?_, ?_⟩
      · simp [natWrite, hpl]
      · have : ¬ (p + (d :: ds).length ≤ b.len) := by simp; omega
        rw [if_neg this]
      · intro i
        have : ¬ (p ≤ i ∧ i < p + (d :: ds).length ∧ i < b.len) := by omega
        rw [if_neg this]
    · have hlt : p < b.len := by omega
      have hw' : (⟨b.len, b.cells.set p (some d)⟩ : Buf).WF := by simp [Buf.WF]; exact hw
      obtain ⟨r, hr, hrw, hrl, hrp, hrc⟩ := ih ⟨b.len, b.cells.set p (some d)⟩ (p + 1) hw' (by simp; omega)
      refine ⟨r, ?_, hrw, hrl, ?_, ?_⟩
      · simp [natWrite, hpl, Buf.write, hlt, hr]
      · rw [hrp]; simp only [List.length_cons]
        by_cases h : p + 1 + ds.length ≤ b.len
        · have h' : p + (ds.length + 1) ≤ b.len := by omega
          rw [if_pos h, if_pos h']; congr 1; omega
        · have h' : ¬ p + (ds.length + 1) ≤ b.len := by omega
          rw [if_neg h, if_neg h']
      · intro i
        rw [hrc i]
        simp only [List.length_cons]
        have hpc : p < b.cells.length := by rw [hw]; exact hlt
        by_cases h1 : i = p
        · subst h1
          have c1 : ¬ (i + 1 ≤ i ∧ i < i + 1 + ds.length ∧ i < b.len) := by omega
          have c2 : (i ≤ i ∧ i < i + (ds.length + 1) ∧ i < b.len) := by omega
          rw [if_neg c1, if_pos c2]
          simp [hpc]
        · by_cases h2 : p < i
          · by_cases h3 : i < p + 1 + ds.length ∧ i < b.len
            · have c1 : (p + 1 ≤ i ∧ i < p + 1 + ds.length ∧ i < b.len) := by omega
              have c2 : (p ≤ i ∧ i < p + (ds.length + 1) ∧ i < b.len) := by omega
              rw [if_pos c1, if_pos c2]
              have : i - p = (i - (p + 1)) + 1 := by omega
              rw [this, List.getElem?_cons_succ]
            · have c1 : ¬ (p + 1 ≤ i ∧ i < p + 1 + ds.length ∧ i < b.len) := by omega
              have c2 : ¬ (p ≤ i ∧ i < p + (ds.length + 1) ∧ i < b.len) := by omega
              rw [if_neg c1, if_neg c2]
              simp [List.getElem?_set]; omega
          · have c1 : ¬ (p + 1 ≤ i ∧ i < p + 1 + ds.length ∧ i < b.len) := by omega
            have c2 : ¬ (p ≤ i ∧ i < p + (ds.length + 1) ∧ i < b.len) := by omega
            rw [if_neg c1, if_neg c2]
            simp [List.getElem?_set]; omega

/-- integer `to_chars_positive` on a well-formed buffer, `first ≤ last` -/
theorem natToChars_spec (b : Buf) (first v base : Nat) (hw : b.WF) (hf : first ≤ b.len) :
    ∃ r, natToChars b first v base = .ok r ∧ r.buf.WF ∧ r.buf.len = b.len ∧
      (r.ok = decide (first + (natDigits base v).length ≤ b.len)) ∧
      (r.ptr = some (if first + (natDigits base v).length ≤ b.len then first + (natDigits base v).length else b.len)) ∧
      ∀ i, r.buf.cells[i]? =
        if first ≤ i ∧ i < first + (natDigits base v).length ∧ i < b.len
        then ((natDigits base v)[i - first]?).map some else b.cells[i]? := by
  obtain ⟨r, hr, hrw, hrl, hrp, hrc⟩ := natWrite_spec (natDigits base v) b first hw hf
  unfold natToChars
  rw [hr]
  by_cases h : first + (natDigits base v).length ≤ b.len
  · rw [if_pos h] at hrp
    refine ⟨natResult r, rfl, ?_, ?_, ?_, ?_, ?_⟩ <;> simp [natResult, hrp, h, hrw, hrl]
    exact hrc
  · rw [if_neg h] at hrp
    refine ⟨natResult r, rfl, ?_, ?_, ?_, ?_, ?_⟩ <;> simp [natResult, hrp, h, hrw, hrl]
    exact hrc

/-- the contract of C13 for one call on a buffer of `len` untouched cells -/
def Contract (len : Nat) (r : TCR) : Prop :=
  r.buf.len = len ∧ r.buf.WF ∧
  (r.ok = true → ∃ p, r.ptr = some p ∧ 0 < p ∧ p ≤ len ∧
      (∀ i, i < p → ∃ c, r.buf.cells[i]? = some (some c)) ∧
      (∀ i, p ≤ i → i < len → r.buf.cells[i]? = some none)) ∧
  (r.ok = false → r.ptr = some len)

theorem fresh_get (len i : Nat) (h : i < len) : (Buf.fresh len).cells[i]? = some none := by
  simp [Buf.fresh, List.getElem?_replicate, h]

/-- most negative value of the promoted type: the documented unsupported input -/
def MostNegative (T : IntTy) (v : Int) : Prop := T.signed = true ∧ v < -(promote T).max
instance (T : IntTy) (v : Int) : Decidable (MostNegative T v) := by unfold MostNegative; infer_instance

theorem intToChars_contract (T : IntTy) (len : Nat) (v : Int) (base : Nat)
    (hb : 2 ≤ base ∧ base ≤ 36) (hm : ¬ MostNegative T v)
    (hu : T.signed = false → 0 ≤ v) :
    ∃ r, intToChars T (Buf.fresh len) v base = .ok r ∧ Contract len r := by
  have hbb : ¬ (base < 2 ∨ base > 36) := by omega
  unfold intToChars
  rw [if_neg hbb]
  by_cases hv : v = 0
  · rw [if_pos hv]
    by_cases hl : len = 0
    · subst hl
      refine ⟨⟨some 0, false, Buf.fresh 0⟩, by simp [Buf.fresh], ?_⟩
      simp [Contract, Buf.fresh, Buf.WF]
    · have hl' : (Buf.fresh len).len ≠ 0 := hl
      have h0 : 0 < (Buf.fresh len).len := Nat.pos_of_ne_zero hl
      simp only [hl', if_false, Buf.write, h0, if_true]
      refine ⟨_, rfl, rfl, ?_, ?_, ?_⟩
      · simp [Buf.WF, Buf.fresh]
      · intro _
        refine ⟨1, rfl, by omega, Nat.pos_of_ne_zero hl, ?_, ?_⟩
        · intro i hi
          have : i = 0 := by omega
          subst this
          refine ⟨'0', ?_⟩
          simp [Buf.fresh, List.getElem?_set]; omega
        · intro i h1 h2
          simp only [Buf.fresh]
          rw [List.getElem?_set]
          have : ¬ (0 = i) := by omega
          simp [this, List.getElem?_replicate, h2]
      · intro h; simp at h
  · rw [if_neg hv]
    by_cases hn : T.signed = true ∧ v < 0
    · rw [if_pos hn]
      by_cases hl : len < 2
      · have : (Buf.fresh len).len < 2 := hl
        rw [if_pos this]
        refine ⟨_, rfl, rfl, fresh_WF len, ?_, ?_⟩
        · intro h; simp at h
        · intro _; rfl
      · have h2 : ¬ (Buf.fresh len).len < 2 := hl
        have h0 : 0 < (Buf.fresh len).len := by simp only [Buf.fresh]; omega
        rw [if_neg h2]
        simp only [Buf.write, h0, if_true]
        have hmn : ¬ (v < -(promote T).max) := fun h => hm ⟨hn.1, h⟩
        simp only [hmn, if_false]
        have hw' : (⟨(Buf.fresh len).len, (Buf.fresh len).cells.set 0 (some '-')⟩ : Buf).WF := by
          simp [Buf.WF, Buf.fresh]
        obtain ⟨r, hr, hrw, hrl, hro, hrp, hrc⟩ :=
          natToChars_spec ⟨(Buf.fresh len).len, (Buf.fresh len).cells.set 0 (some '-')⟩ 1 (-v).toNat base hw'
            (by simp only [Buf.fresh]; omega)
        refine ⟨r, hr, hrl, hrw, ?_, ?_⟩
        · intro hok
          rw [hro] at hok
          have hfit : 1 + (natDigits base (-v).toNat).length ≤ len := by
            have := of_decide_eq_true hok; simpa [Buf.fresh] using this
          have hfit' : 1 + (natDigits base (-v).toNat).length ≤ (Buf.fresh len).len := hfit
          refine ⟨1 + (natDigits base (-v).toNat).length, ?_, by omega, hfit, ?_, ?_⟩
          · rw [hrp]; simp only [hfit', if_true]
          · intro i hi
            rw [hrc i]
            by_cases h1 : 1 ≤ i
            · have c : (1 ≤ i ∧ i < 1 + (natDigits base (-v).toNat).length ∧ i < (Buf.fresh len).len) := by
                refine ⟨h1, hi, ?_⟩; simp only [Buf.fresh]; omega
              rw [if_pos c]
              have : i - 1 < (natDigits base (-v).toNat).length := by omega
              refine ⟨(natDigits base (-v).toNat)[i - 1], ?_⟩
              simp [List.getElem?_eq_getElem this]
            · have c : ¬ (1 ≤ i ∧ i < 1 + (natDigits base (-v).toNat).length ∧ i < (Buf.fresh len).len) := by omega
              rw [if_neg c]
              have : i = 0 := by omega
              subst this
              refine ⟨'-', ?_⟩
              simp [Buf.fresh, List.getElem?_set]; omega
          · intro i h1 h2
            rw [hrc i]
            have c : ¬ (1 ≤ i ∧ i < 1 + (natDigits base (-v).toNat).length ∧ i < (Buf.fresh len).len) := by omega
            rw [if_neg c]
            simp only [Buf.fresh]
            rw [List.getElem?_set]
            have : ¬ (0 = i) := by omega
            simp [this, List.getElem?_replicate, h2]
        · intro hok
          rw [hro] at hok
          have hfit : ¬ (1 + (natDigits base (-v).toNat).length ≤ (Buf.fresh len).len) := by simpa using hok
          rw [hrp]; simp only [hfit, if_false]; rfl
    · rw [if_neg hn]
      obtain ⟨r, hr, hrw, hrl, hro, hrp, hrc⟩ :=
        natToChars_spec (Buf.fresh len) 0 v.toNat base (fresh_WF len) (Nat.zero_le _)
      refine ⟨r, hr, hrl, hrw, ?_, ?_⟩
      · intro hok
        rw [hro] at hok
        have hfit : 0 + (natDigits base v.toNat).length ≤ (Buf.fresh len).len := by simpa using hok
        have hfl : (natDigits base v.toNat).length ≤ len := by simpa [Buf.fresh] using hfit
        refine ⟨(natDigits base v.toNat).length, ?_, ?_, hfl, ?_, ?_⟩
        · rw [hrp]; simp only [hfit, if_true]; simp
        · -- at least one digit: v > 0 here or T unsigned
          cases hvt : v.toNat with
          | zero =>
            exfalso
            have hle : v ≤ 0 := Int.toNat_eq_zero.mp hvt
            cases hs : T.signed with
            | false => have := hu hs; omega
            | true => exact hn ⟨hs, by omega⟩
          | succ n => exact natDigitsF_pos base _ _ (by omega)
        · intro i hi
          rw [hrc i]
          have c : (0 ≤ i ∧ i < 0 + (natDigits base v.toNat).length ∧ i < (Buf.fresh len).len) := by
            refine ⟨Nat.zero_le _, by omega, ?_⟩; simp only [Buf.fresh]; omega
          rw [if_pos c]
          refine ⟨(natDigits base v.toNat)[i], ?_⟩
          simp [List.getElem?_eq_getElem hi]
        · intro i h1 h2
          rw [hrc i]
          have c : ¬ (0 ≤ i ∧ i < 0 + (natDigits base v.toNat).length ∧ i < (Buf.fresh len).len) := by omega
          rw [if_neg c]
          exact fresh_get len i h2
      · intro hok
        rw [hro] at hok
        have hfit : ¬ (0 + (natDigits base v.toNat).length ≤ (Buf.fresh len).len) := by simpa using hok
        rw [hrp]; simp only [hfit, if_false]; rfl


/-! ### success exactly when the canonical numeral fits; capacity -/

theorem intText_length_neg (base : Nat) (v : Int) (h : v < 0) :
    (intText base v).length = 1 + (natDigits base (-v).toNat).length := by
  have h0 : v ≠ 0 := by omega
  simp [intText, h0, h]; omega

theorem intText_length_pos (base : Nat) (v : Int) (h : 0 < v) :
    (intText base v).length = (natDigits base v.toNat).length := by
  have h0 : v ≠ 0 := by omega
  have h1 : ¬ v < 0 := by omega
  simp [intText, h0, h1]

theorem intToChars_ok (T : IntTy) (len : Nat) (v : Int) (base : Nat)
    (hb : 2 ≤ base ∧ base ≤ 36) (hm : ¬ MostNegative T v)
    (hu : T.signed = false → 0 ≤ v) :
    ∃ r, intToChars T (Buf.fresh len) v base = .ok r ∧ r.ok = decide ((intText base v).length ≤ len) := by
  have hbb : ¬ (base < 2 ∨ base > 36) := by omega
  unfold intToChars
  rw [if_neg hbb]
  by_cases hv : v = 0
  · rw [if_pos hv]
    by_cases hl : len = 0
    · subst hl
      refine ⟨⟨some 0, false, Buf.fresh 0⟩, by simp [Buf.fresh], ?_⟩
      simp [intText, hv]
    · have hl' : (Buf.fresh len).len ≠ 0 := hl
      have h0 : 0 < (Buf.fresh len).len := Nat.pos_of_ne_zero hl
      simp only [hl', if_false, Buf.write, h0, if_true]
      refine ⟨_, rfl, ?_⟩
      simp [intText, hv]; omega
  · rw [if_neg hv]
    by_cases hn : T.signed = true ∧ v < 0
    · rw [if_pos hn]
      have hk : 0 < (natDigits base (-v).toNat).length :=
        natDigitsF_pos base _ _ (by omega)
      by_cases hl : len < 2
      · have : (Buf.fresh len).len < 2 := hl
        rw [if_pos this]
        refine ⟨_, rfl, ?_⟩
        rw [intText_length_neg base v hn.2]
        simp; omega
      · have h2 : ¬ (Buf.fresh len).len < 2 := hl
        have h0 : 0 < (Buf.fresh len).len := by simp only [Buf.fresh]; omega
        rw [if_neg h2]
        simp only [Buf.write, h0, if_true]
        have hmn : ¬ (v < -(promote T).max) := fun h => hm ⟨hn.1, h⟩
        simp only [hmn, if_false]
        have hw' : (⟨(Buf.fresh len).len, (Buf.fresh len).cells.set 0 (some '-')⟩ : Buf).WF := by
          simp [Buf.WF, Buf.fresh]
        obtain ⟨r, hr, _, _, hro, _, _⟩ :=
          natToChars_spec ⟨(Buf.fresh len).len, (Buf.fresh len).cells.set 0 (some '-')⟩ 1 (-v).toNat base hw'
            (by simp only [Buf.fresh]; omega)
        refine ⟨r, hr, ?_⟩
        rw [hro, intText_length_neg base v hn.2]; rfl
    · rw [if_neg hn]
      have hpos : 0 < v := by
        cases hs : T.signed with
        | false => have := hu hs; omega
        | true =>
          have : ¬ v < 0 := fun h => hn ⟨hs, h⟩
          omega
      obtain ⟨r, hr, _, _, hro, _, _⟩ :=
        natToChars_spec (Buf.fresh len) 0 v.toNat base (fresh_WF len) (Nat.zero_le _)
      refine ⟨r, hr, ?_⟩
      rw [hro, intText_length_pos base v hpos]
      simp [Buf.fresh]

/-- `2^b < 10^a` makes `a/b` an upper estimate of `log10 2`: `d·a/b + 1` decimal digits hold every `d`-bit number -/
theorem pow_two_lt_pow_ten (a b : Nat) (hb : 0 < b) (hab : 2 ^ b < 10 ^ a) (d : Nat) :
    2 ^ d < 10 ^ (d * a / b + 1) := by
  by_cases hd : d = 0
  · subst hd; simp
  · have h1 : d * a < (d * a / b + 1) * b := by
      have := Nat.lt_mul_div_succ (d * a) hb
      calc d * a < b * (d * a / b + 1) := this
        _ = (d * a / b + 1) * b := Nat.mul_comm _ _
    have h2 : (2 ^ d) ^ b < (10 ^ (d * a / b + 1)) ^ b := by
      calc (2 ^ d) ^ b = (2 ^ b) ^ d := by rw [← Nat.pow_mul, ← Nat.pow_mul, Nat.mul_comm]
        _ < (10 ^ a) ^ d := Nat.pow_lt_pow_left hab hd
        _ = 10 ^ (d * a) := by rw [← Nat.pow_mul, Nat.mul_comm]
        _ < 10 ^ ((d * a / b + 1) * b) := Nat.pow_lt_pow_right (by omega) h1
        _ = (10 ^ (d * a / b + 1)) ^ b := by rw [Nat.pow_mul]
    exact (Nat.pow_lt_pow_iff_left (by omega)).mp h2

theorem two_pow_100000 : 2 ^ 100000 < 10 ^ 30103 := by decide +kernel
theorem two_pow_3321 : 2 ^ 3321 < 10 ^ 1000 := by decide +kernel

theorem natDigits_length_le (base v k : Nat) (h2 : 2 ≤ base) (h0 : 0 < v) (hk : v < base ^ k) :
    (natDigits base v).length ≤ k :=
  natDigitsF_length base h2 v v k h0 (Nat.le_refl _) hk

/-- `to_chars_capacity<T>` characters hold the numeral of every value of `T` -/
theorem intText_le_capacity (T : IntTy) (v : Int) (hr : T.InRange v) (hbits : 1 ≤ T.bits) :
    (intText 10 v).length ≤ intCapacity T := by
  have hp := pow_two_lt_pow_ten 30103 100000 (by omega) two_pow_100000 T.digits
  unfold intCapacity
  obtain ⟨hlo, hhi⟩ := hr
  by_cases hv : v = 0
  · simp [intText, hv]
  · by_cases hn : v < 0
    · rw [intText_length_neg 10 v hn]
      have hs : T.signed = true := by
        cases h : T.signed with
        | true => rfl
        | false => simp [IntTy.lowest, h] at hlo; omega
      have hd : T.digits = T.bits - 1 := by simp [IntTy.digits, hs]
      have hlt : (-v).toNat < 10 ^ (T.digits * 30103 / 100000 + 1) := by
        have : ((-v).toNat : Int) ≤ 2 ^ (T.bits - 1) := by
          simp [IntTy.lowest, hs] at hlo; omega
        have h' : (-v).toNat ≤ 2 ^ (T.bits - 1) := by exact_mod_cast this
        rw [hd] at hp ⊢; omega
      have := natDigits_length_le 10 (-v).toNat _ (by omega) (by omega) hlt
      simp [hs]; omega
    · have hpos : 0 < v := by omega
      rw [intText_length_pos 10 v hpos]
      have hlt : v.toNat < 10 ^ (T.digits * 30103 / 100000 + 1) := by
        have hmax : T.max < 2 ^ T.digits := by
          unfold IntTy.max IntTy.digits
          cases T.signed <;> simp <;> omega
        have : (v.toNat : Int) < 2 ^ T.digits := by
          have : (v.toNat : Int) = v := Int.toNat_of_nonneg (by omega)
          omega
        have h' : v.toNat < 2 ^ T.digits := by exact_mod_cast this
        omega
      have := natDigits_length_le 10 v.toNat _ (by omega) (by omega) hlt
      omega

/-! ### the numeral read back -/

theorem intText_value (base : Nat) (v : Int) (h2 : 2 ≤ base) (h36 : base ≤ 36) :
    Cnl.Spec.numeralValue base (intText base v) = some (decide (v < 0), v.natAbs) := by
  by_cases hv : v = 0
  · subst hv
    have : Cnl.Spec.digitVal '0' = some 0 := by decide
    have hb : 0 < base := by omega
    simp [intText, Cnl.Spec.numeralValue, Cnl.Spec.digitsValue, this, hb]
  · by_cases hn : v < 0
    · have hk := natDigitsF_value base h2 h36 (-v).toNat (-v).toNat (by omega) (Nat.le_refl _)
      obtain ⟨c, rest, he, _⟩ := natDigitsF_head base h2 h36 (-v).toNat (-v).toNat (by omega) (Nat.le_refl _)
      have he' : natDigits base (-v).toNat = c :: rest := he
      have hk' : Cnl.Spec.digitsValue base (natDigits base (-v).toNat) 0 = some (-v).toNat := hk
      simp only [intText, hv, hn, if_false, if_true, Cnl.Spec.numeralValue]
      rw [he'] at hk' ⊢
      simp [hk']; omega
    · have hpos : 0 < v := by omega
      have hk := natDigitsF_value base h2 h36 v.toNat v.toNat (by omega) (Nat.le_refl _)
      obtain ⟨c, rest, he, hc⟩ := natDigitsF_head base h2 h36 v.toNat v.toNat (by omega) (Nat.le_refl _)
      have he' : natDigits base v.toNat = c :: rest := he
      have hk' : Cnl.Spec.digitsValue base (natDigits base v.toNat) 0 = some v.toNat := hk
      have hcm : c ≠ '-' := by
        intro h; subst h
        rw [he'] at hk'
        simp [Cnl.Spec.digitsValue, Cnl.Spec.digitVal] at hk'
      simp only [intText, hv, hn, if_false]
      rw [he'] at hk' ⊢
      unfold Cnl.Spec.numeralValue
      split
      · rename_i heq; cases heq
      · rename_i heq; cases heq; exact absurd rfl hcm
      · simp [hk', hn]; omega

/-- no leading zero, no sign on its own -/
theorem intText_canonical (base : Nat) (v : Int) (h2 : 2 ≤ base) (h36 : base ≤ 36) (hv : v ≠ 0) :
    ∃ c rest, natDigits base v.natAbs = c :: rest ∧ c ≠ '0' :=
  natDigitsF_head base h2 h36 v.natAbs v.natAbs (by omega) (Nat.le_refl _)

/-! ### termination of the repaired `descale` -/

theorem natAbs_tdiv_nat (a : Int) (b : Nat) : (a.tdiv b).natAbs = a.natAbs / b := by
  have := Int.natAbs_tdiv a b
  rw [Int.natAbs_natCast] at this
  exact this

theorem natAbs_tmod_nat (a : Int) (b : Nat) : (a.tmod b).natAbs = a.natAbs % b := by
  have := Int.natAbs_tmod a b
  rw [Int.natAbs_natCast] at this
  exact this

/-- `significand *= k` in a signed type: exact and in range, or undefined — never a silent change -/
theorem mulS_signed {S : IntTy} (hs : S.signed = true) {a : Int} {k : Nat} {v : Int}
    (h : mulS S a k = .ok v) : v = a * k ∧ S.lowest ≤ v ∧ v ≤ S.max := by
  unfold mulS arith at h
  simp only [hs, if_true] at h
  by_cases hr : S.InRange (a * k)
  · simp only [hr, if_true] at h
    cases h
    exact ⟨rfl, hr.1, hr.2⟩
  · simp only [hr, if_false] at h
    cases h

theorem mulS_cases (S : IntTy) (a : Int) (k : Nat) :
    (∃ v, mulS S a k = .ok v) ∨ (∃ u, mulS S a k = .ub u) := by
  unfold mulS
  split
  · exact Or.inl ⟨_, rfl⟩
  · exact Or.inr ⟨_, rfl⟩
  · exact Or.inr ⟨_, rfl⟩

/-- magnitude bound of a signed type -/
theorem natAbs_le_of_range {S : IntTy} (hs : S.signed = true) {v : Int} (h1 : S.lowest ≤ v) (h2 : v ≤ S.max) :
    v.natAbs ≤ 2 ^ (S.bits - 1) := by
  have hp : (0 : Int) < 2 ^ (S.bits - 1) := Int.pow_pos (by omega)
  simp only [IntTy.lowest, IntTy.max, hs, if_true] at h1 h2
  have : (v.natAbs : Int) ≤ 2 ^ (S.bits - 1) := by omega
  exact_mod_cast this

theorem descaleNeg_terminates (S : IntTy) (hs : S.signed = true) (neg : Bool) (R : Nat)
    (B : Nat) (hB : B = 2 ^ (S.bits - 1)) :
    ∀ fuel sig x ie k,
      ie * (B + 2) + (B - sig.natAbs) + 1 ≤ fuel →
      descaleNeg S neg R fuel sig x ie k ≠ .diverges := by
  intro fuel
  induction fuel with
  | zero => intro sig x ie k h; omega
  | succ n ih =>
    intro sig x ie k h
    cases ie with
    | zero => simp [descaleNeg]
    | succ ie =>
      rw [Nat.succ_mul] at h
      by_cases hc : sig.tmod R ≠ 0 ∧ oobSig S neg sig = false
      · simp only [descaleNeg, hc, and_self, if_true, ne_eq, not_false_eq_true]
        rcases mulS_cases S sig 10 with ⟨s', hm⟩ | ⟨u, hm⟩
        · rw [hm]
          obtain ⟨he, hlo, hhi⟩ := mulS_signed hs hm
          simp only
          apply ih
          have hb := natAbs_le_of_range hs hlo hhi
          rw [← hB] at hb
          have hne : sig ≠ 0 := by
            intro h0; subst h0; simp at hc
          have h1 : s'.natAbs = sig.natAbs * 10 := by
            rw [he, Int.natAbs_mul]; rfl
          have h2 : 0 < sig.natAbs := Int.natAbs_pos.mpr hne
          rw [Nat.succ_mul]
          omega
        · rw [hm]; simp
      · simp only [descaleNeg, hc, if_false]
        apply ih
        omega


theorem max_ge_127 (S : IntTy) (hs : S.signed = true) (h8 : 8 ≤ S.bits) : 127 ≤ S.max := by
  have h : (2 : Int) ^ 7 ≤ 2 ^ (S.bits - 1) := two_pow_le (by omega)
  simp only [IntTy.max, hs, if_true]
  have : (2 : Int) ^ 7 = 128 := by decide
  omega

theorem descalePos_terminates (S : IntTy) (hs : S.signed = true) (h8 : 8 ≤ S.bits) (neg : Bool) (R : Nat)
    (hR : 1 ≤ R) (B : Nat) (hB : B = 2 ^ (S.bits - 1)) :
    ∀ fuel sig x ie k, sig ≠ 0 → sig.natAbs ≤ B →
      ie * (B + 2) + sig.natAbs + 1 ≤ fuel →
      descalePos S neg R fuel sig x ie k ≠ .diverges := by
  have hM := max_ge_127 S hs h8
  intro fuel
  induction fuel with
  | zero => intro sig x ie k _ _ h; omega
  | succ n ih =>
    intro sig x ie k hne hle h
    have habs := Int.natAbs_eq sig
    have hpos : 0 < sig.natAbs := Int.natAbs_pos.mpr hne
    have h10 : (sig.tmod 10).natAbs = sig.natAbs % 10 := Int.natAbs_tmod sig 10
    have hd10 : (sig.tdiv 10).natAbs = sig.natAbs / 10 := Int.natAbs_tdiv sig 10
    by_cases h1 : ie = 0 ∧ sig.tmod 10 ≠ 0
    · simp [descalePos, h1]
    · by_cases h2 : sig.tmod 10 = 0 ∨ oobSig S neg sig = true
      · simp only [descalePos, h1, h2, if_false, if_true]
        have hbig : 10 ≤ sig.natAbs := by
          rcases h2 with h2 | h2
          · rw [h2] at h10; simp at h10; omega
          · unfold oobSig at h2
            cases neg with
            | true => simp only [if_true, decide_eq_true_eq] at h2; omega
            | false => simp at h2; omega
        apply ih
        · intro h0; rw [h0] at hd10; simp at hd10; omega
        · omega
        · omega
      · simp only [descalePos, h1, h2, if_false]
        have htm : sig.tmod 10 ≠ 0 := fun h0 => h2 (Or.inl h0)
        have hie : ie ≠ 0 := fun h0 => h1 ⟨h0, htm⟩
        rcases mulS_cases S sig R with ⟨s', hm⟩ | ⟨u, hm⟩
        · rw [hm]
          obtain ⟨he, hlo, hhi⟩ := mulS_signed hs hm
          simp only
          have hb := natAbs_le_of_range hs hlo hhi
          rw [← hB] at hb
          cases ie with
          | zero => exact absurd rfl hie
          | succ j =>
            rw [Nat.succ_mul] at h
            apply ih
            · rw [he]
              intro h0
              rcases Int.mul_eq_zero.mp h0 with h0 | h0
              · exact hne h0
              · omega
            · exact hb
            · simp only [Nat.add_sub_cancel]; omega
        · rw [hm]; simp


/-- the repaired `descale` returns (a value or undefined behaviour — never an endless loop) for every input,
exponent and input radix, for every signed significand type of at least 8 bits -/
theorem descale_terminates (S : IntTy) (hs : S.signed = true) (h8 : 8 ≤ S.bits) (input e : Int) (R : Nat)
    (hR : 1 ≤ R) (hr : S.InRange input) : descale S input e R ≠ .diverges := by
  unfold descale
  by_cases h0 : input = 0
  · simp [h0]
  · simp only [h0, if_false]
    rw [IntTy.wrap_id (by omega) hr]
    have hBC : 2 ^ (S.bits - 1) ≤ 2 ^ S.bits := Nat.pow_le_pow_right (by omega) (by omega)
    have hmul : e.natAbs * (2 ^ (S.bits - 1) + 2) ≤ e.natAbs * (2 ^ S.bits + 2) :=
      Nat.mul_le_mul_left _ (by omega)
    have hfuel : descaleFuel S e.natAbs = e.natAbs * (2 ^ S.bits + 2) + (2 ^ S.bits + 2) + 1 := by
      unfold descaleFuel; rw [Nat.succ_mul]
    have hle := natAbs_le_of_range hs hr.1 hr.2
    by_cases hn : e < 0
    · simp only [hn, if_true]
      apply descaleNeg_terminates S hs _ R (2 ^ (S.bits - 1)) rfl
      rw [hfuel]; omega
    · simp only [hn, if_false]
      apply descalePos_terminates S hs h8 _ R hR (2 ^ (S.bits - 1)) rfl _ _ _ _ _ h0 hle
      rw [hfuel]; omega


/-! ### the two `fill`s and the scaled routine -/

theorem slice_some (ds : List Char) (lo hi : Int) (h0 : 0 ≤ lo) (h1 : lo ≤ hi) (h2 : hi ≤ ds.length) :
    ∃ t, slice ds lo hi = some t ∧ (t.length : Int) = hi - lo := by
  refine ⟨(ds.take hi.toNat).drop lo.toNat, by simp [slice, h1], ?_⟩
  simp only [List.length_drop, List.length_take]
  omega

theorem choose_sci {i : Info} {s : Sci} (h : choose i = .sci s) : s = solveSci i ∧ 0 < s.numSig := by
  unfold choose at h
  simp only at h
  split at h
  · rename_i hc; cases h; exact ⟨rfl, hc.1⟩
  · split at h <;> cases h

theorem choose_fixed {i : Info} {f : Fixed} (h : choose i = .fixed f) : f = solveFixed i ∧ 0 < f.numSig := by
  unfold choose at h
  simp only at h
  split at h
  · cases h
  · split at h
    · rename_i hc; cases h; exact ⟨rfl, hc⟩
    · cases h

theorem sciText_length (ds : List Char) (i : Info) (expText : List Char) (hn : i.numSig = ds.length)
    (he : i.expChars = expText.length) (hpos : 0 < (solveSci i).numSig) :
    ∃ t, sciText ds (solveSci i) expText = some t ∧ (t.length : Int) = (solveSci i).numChars := by
  have hle : (solveSci i).numSig ≤ ds.length := by simp only [solveSci]; omega
  obtain ⟨rest, hr, hl⟩ := slice_some ds 1 (solveSci i).numSig (by omega) (by omega) hle
  refine ⟨ds.take 1 ++ ['.'] ++ rest ++ ['e'] ++ expText, by simp [sciText, hr], ?_⟩
  have hds : 1 ≤ ds.length := by omega
  simp only [List.length_append, List.length_take, List.length_cons, List.length_nil]
  simp only [solveSci] at hl hpos ⊢
  omega

theorem fixedText_length (ds : List Char) (i : Info) (hn : i.numSig = ds.length) (hm : 0 ≤ i.maxChars)
    (hpos : 0 < (solveFixed i).numSig) :
    ∃ t, fixedText ds i.exponent (solveFixed i) i.maxChars = some t ∧ (t.length : Int) = (solveFixed i).numChars := by
  by_cases h : i.numSig + i.exponent > i.maxChars
  · simp [solveFixed, h] at hpos
  · by_cases hr : i.exponent < 0
    · -- a radix point: digits before it, '.', leading zeros, digits after it
      have e1 : (solveFixed i).leadingZeros = max 0 (-(i.numSig + i.exponent)) := by simp [solveFixed, h]
      have e2 : (solveFixed i).trailingZeros = 0 := by simp [solveFixed, h]; omega
      have e3 : (solveFixed i).hasRadix = true := by simp [solveFixed, h, hr]
      have e4 : (solveFixed i).numSig = i.numSig - max 0 (i.numSig + (solveFixed i).leadingZeros + 1 - i.maxChars) := by
        simp [solveFixed, h, hr]; omega
      have e5 : (solveFixed i).numChars = i.numSig + (solveFixed i).leadingZeros + 1 - max 0 (i.numSig + (solveFixed i).leadingZeros + 1 - i.maxChars) := by
        simp [solveFixed, h, hr]; omega
      generalize solveFixed i = f at *
      obtain ⟨ns, nc, L, Tz, hrx⟩ := f
      simp only at e1 e2 e3 e4 e5 hpos
      subst e2 e3
      unfold fixedText
      simp only [ne_eq, not_true_eq_false, if_false, if_true]
      by_cases hroom : max 0 ((ds.length : Int) + min 0 i.exponent) < i.maxChars
      · simp only [hroom, if_true]
        obtain ⟨frac, hf, hl⟩ := slice_some ds (max 0 ((ds.length : Int) + min 0 i.exponent)) ns
          (by omega) (by omega) (by omega)
        rw [hf]
        refine ⟨_, rfl, ?_⟩
        simp only [List.length_append, List.length_take, List.length_cons, List.length_nil, List.length_replicate]
        omega
      · simp only [hroom, if_false]
        refine ⟨_, rfl, ?_⟩
        simp only [List.length_take]
        omega
    · have e1 : (solveFixed i).leadingZeros = max 0 (-(i.numSig + i.exponent)) := by simp [solveFixed, h]
      have e2 : (solveFixed i).trailingZeros = i.exponent := by simp [solveFixed, h]; omega
      have e3 : (solveFixed i).hasRadix = false := by simp [solveFixed, h, hr]
      have e4 : (solveFixed i).numSig = i.numSig := by
        simp [solveFixed, h, hr]; omega
      have e5 : (solveFixed i).numChars = i.numSig + i.exponent := by
        simp [solveFixed, h, hr]; omega
      generalize solveFixed i = f at *
      obtain ⟨ns, nc, L, Tz, hrx⟩ := f
      simp only at e1 e2 e3 e4 e5 hpos
      subst e2 e3 e4 e5
      unfold fixedText
      simp only
      by_cases htz : i.exponent ≠ 0
      · simp only [htz, if_true, ne_eq, not_false_eq_true]
        refine ⟨_, rfl, ?_⟩
        simp only [List.length_append, List.length_take, List.length_replicate]
        omega
      · simp only [htz, if_false]
        by_cases hroom : max 0 ((ds.length : Int) + min 0 i.exponent) < i.maxChars
        · simp only [hroom, if_true]
          obtain ⟨frac, hf, hl⟩ := slice_some ds (max 0 ((ds.length : Int) + min 0 i.exponent)) i.numSig
            (by omega) (by omega) (by omega)
          rw [hf]
          refine ⟨_, rfl, ?_⟩
          simp only [List.length_append, List.length_take, List.length_cons, List.length_nil, List.length_replicate, Bool.false_eq_true, if_false]
          omega
        · simp only [hroom, if_false]
          refine ⟨_, rfl, ?_⟩
          simp only [List.length_take]
          omega


theorem fixed_numSig_le_numChars (i : Info) (hpos : 0 < (solveFixed i).numSig) :
    (solveFixed i).numSig ≤ (solveFixed i).numChars := by
  by_cases h : i.numSig + i.exponent > i.maxChars
  · simp [solveFixed, h] at hpos
  · simp only [solveFixed, h, if_false] at hpos ⊢
    by_cases hr : i.exponent < 0 <;> simp [hr] at hpos ⊢ <;> omega

theorem put_ok (b : Buf) (i : Nat) (cs : List Char) (h : i + cs.length ≤ b.len) :
    b.put i cs = .ok ⟨b.len, b.cells.take i ++ cs.map some ++ b.cells.drop (i + cs.length)⟩ := by
  simp [Buf.put, h]

/-- `_impl::to_chars_positive` of the scaled routine, for every digit string, exponent, buffer and offset:
either nothing is written and `{last, value_too_large}` is returned, or a non-empty text `t` that fits is
written at `[first, first + |t|)`, nothing else changes, and `{first + |t|, errc{}}` is returned.
In particular: never `oob`, never a failed assertion. -/
theorem toCharsPositive_contract (b : Buf) (first : Nat) (ds : List Char) (x : Int)
    (hds : ds ≠ []) (hf : first ≤ b.len) :
    toCharsPositive b first ds x = .ok ⟨some b.len, false, b⟩ ∨
    ∃ t : List Char, 0 < t.length ∧ first + t.length ≤ b.len ∧
      toCharsPositive b first ds x = .ok ⟨some (first + t.length), true,
        ⟨b.len, b.cells.take first ++ t.map some ++ b.cells.drop (first + t.length)⟩⟩ := by
  have hlen : 0 < ds.length := List.length_pos_iff.mpr hds
  unfold toCharsPositive toCharsPositiveWith
  simp only
  generalize hE : intText 10 (x + ↑ds.length - 1) = expText
  generalize hI : (⟨(ds.length : Int), x, (b.len : Int) - first, (expText.length : Int)⟩ : Info) = info
  have hn : info.numSig = ds.length := by rw [← hI]
  have he : info.expChars = expText.length := by rw [← hI]
  have hx : info.exponent = x := by rw [← hI]
  have hmc : info.maxChars = (b.len : Int) - first := by rw [← hI]
  have hm0 : 0 ≤ info.maxChars := by omega
  cases hc : choose info with
  | tooLarge => exact Or.inl rfl
  | sci s =>
    obtain ⟨hs, hpos⟩ := choose_sci hc
    subst hs
    right
    obtain ⟨t, ht, hl⟩ := sciText_length ds info expText hn he hpos
    have hfit := sci_fits info hpos (by omega)
    have hnc : 0 < (solveSci info).numChars := by simp only [solveSci] at hpos ⊢; omega
    have hput : first + t.length ≤ b.len := by omega
    refine ⟨t, by omega, hput, ?_⟩
    have hnp : ¬ ((solveSci info).numSig ≤ 0) := by omega
    simp only [hnp, if_false, ht, fillText, put_ok b first t hput]
    have : ¬ ((t.length : Int) ≠ (solveSci info).numChars) := by omega
    simp only [this, if_false]
  | fixed f =>
    obtain ⟨hs, hpos⟩ := choose_fixed hc
    subst hs
    right
    obtain ⟨t, ht, hl⟩ := fixedText_length ds info hn hm0 hpos
    have hfit := fixed_fits info hpos
    have hge := fixed_numSig_le_numChars info hpos
    have hput : first + t.length ≤ b.len := by omega
    refine ⟨t, by omega, hput, ?_⟩
    rw [hx, hmc] at ht
    simp only [ht, fillText, put_ok b first t hput]
    have : ¬ ((t.length : Int) ≠ (solveFixed info).numChars) := by omega
    simp only [this, if_false]


theorem splice_get (cells : List (Option Char)) (first : Nat) (t : List Char)
    (h : first + t.length ≤ cells.length) (i : Nat) :
    (cells.take first ++ t.map some ++ cells.drop (first + t.length))[i]? =
      if first ≤ i ∧ i < first + t.length then (t[i - first]?).map some else cells[i]? := by
  have hl : (cells.take first).length = first := by simp; omega
  by_cases h1 : i < first
  · have c : ¬ (first ≤ i ∧ i < first + t.length) := by omega
    rw [if_neg c, List.append_assoc, List.getElem?_append_left (by omega)]
    simp [List.getElem?_take, h1]
  · by_cases h2 : i < first + t.length
    · have c : (first ≤ i ∧ i < first + t.length) := by omega
      rw [if_pos c, List.append_assoc, List.getElem?_append_right (by omega), hl,
        List.getElem?_append_left (by simp; omega)]
      simp
    · have c : ¬ (first ≤ i ∧ i < first + t.length) := by omega
      rw [if_neg c, List.getElem?_append_right (by simp; omega)]
      simp only [List.length_append, List.length_map, hl, List.getElem?_drop]
      congr 1; omega


theorem splice_length (cells : List (Option Char)) (first : Nat) (t : List Char)
    (h : first + t.length ≤ cells.length) :
    (cells.take first ++ t.map some ++ cells.drop (first + t.length)).length = cells.length := by
  simp only [List.length_append, List.length_take, List.length_map, List.length_drop]
  omega

/-- a text spliced at `first` into a buffer whose cells `[0, first)` are written and whose other cells are
untouched leaves exactly `[0, first + |t|)` written -/
theorem contract_of_splice (b : Buf) (len first : Nat) (t : List Char) (hbl : b.len = len) (hw : b.WF)
    (hpre : ∀ i, i < first → ∃ c, b.cells[i]? = some (some c))
    (hpost : ∀ i, first ≤ i → i < len → b.cells[i]? = some none)
    (ht : 0 < t.length) (hfit : first + t.length ≤ b.len) :
    Contract len ⟨some (first + t.length), true,
      ⟨b.len, b.cells.take first ++ t.map some ++ b.cells.drop (first + t.length)⟩⟩ := by
  have hcl : first + t.length ≤ b.cells.length := by rw [hw]; exact hfit
  refine ⟨hbl, ?_, ?_, ?_⟩
  · simp only [Buf.WF]; rw [splice_length _ _ _ hcl]; exact hw
  · intro _
    refine ⟨first + t.length, rfl, by omega, by omega, ?_, ?_⟩
    · intro i hi
      simp only
      rw [splice_get _ _ _ hcl]
      by_cases h1 : first ≤ i
      · rw [if_pos ⟨h1, hi⟩]
        have : i - first < t.length := by omega
        exact ⟨t[i - first], by simp [List.getElem?_eq_getElem this]⟩
      · have c : ¬ (first ≤ i ∧ i < first + t.length) := by omega
        rw [if_neg c]; exact hpre i (by omega)
    · intro i h1 h2
      simp only
      rw [splice_get _ _ _ hcl]
      have c : ¬ (first ≤ i ∧ i < first + t.length) := by omega
      rw [if_neg c]; exact hpost i (by omega) h2
  · intro h; simp at h

theorem contract_of_failure (b : Buf) (len : Nat) (hbl : b.len = len) (hw : b.WF) :
    Contract len ⟨some b.len, false, b⟩ := by
  refine ⟨hbl, hw, ?_, ?_⟩
  · intro h; simp at h
  · intro _; rw [hbl]

/-- `cnl::to_chars` on a non-zero `scaled_integer`, given what `descale` returned -/
theorem scaledToChars_contract (T : IntTy) (e : Int) (radix len : Nat) (rep : Int) (d : Desc)
    (hlen : len ≠ 0) (hrep : rep ≠ 0)
    (hd : descale (sigTy T) rep e radix = .ok d) (h0 : d.sig ≠ 0)
    (hmn : ¬ ((sigTy T).signed = true ∧ d.sig < -(sigTy T).max)) :
    ∃ r, scaledToChars T e radix len rep = .ok r ∧ Contract len r := by
  have hds : natDigits 10 d.sig.natAbs ≠ [] := by
    have := natDigitsF_pos 10 d.sig.natAbs d.sig.natAbs (Int.natAbs_pos.mpr h0)
    intro h; unfold natDigits at h; rw [h] at this; simp at this
  have hpos : 0 < len := Nat.pos_of_ne_zero hlen
  unfold scaledToChars scaledToCharsWith
  simp only [hlen, hrep, if_false, hd, h0, hmn]
  by_cases hn : d.sig < 0
  · simp only [hn, if_true, Buf.write, Buf.fresh, hpos]
    have hw' : (⟨len, (List.replicate len (none : Option Char)).set 0 (some '-')⟩ : Buf).WF := by simp [Buf.WF]
    rcases toCharsPositive_contract ⟨len, (List.replicate len none).set 0 (some '-')⟩ 1 _ d.exp hds (by simp; omega) with h | ⟨t, ht0, htf, h⟩
    · exact ⟨_, h, contract_of_failure _ len rfl hw'⟩
    · refine ⟨_, h, contract_of_splice _ len 1 t rfl hw' ?_ ?_ ht0 htf⟩
      · intro i hi
        have : i = 0 := by omega
        subst this
        exact ⟨'-', by simp [List.getElem?_set]; omega⟩
      · intro i h1 h2
        simp only
        rw [List.getElem?_set]
        have : ¬ (0 = i) := by omega
        simp [this, List.getElem?_replicate, h2]
  · simp only [hn, if_false]
    rcases toCharsPositive_contract (Buf.fresh len) 0 _ d.exp hds (Nat.zero_le _) with h | ⟨t, ht0, htf, h⟩
    · exact ⟨_, h, contract_of_failure _ len rfl (fresh_WF len)⟩
    · refine ⟨_, h, contract_of_splice _ len 0 t rfl (fresh_WF len) ?_ ?_ ht0 htf⟩
      · intro i hi; omega
      · intro i _ h2; exact fresh_get len i h2


/-! ### `descale` returns: loop invariant (range, sign, non-zero), and the composed theorem -/

/-- the loop invariant of `descale` on the significand: in range of `S`, non-zero, sign as the input's -/
def SigOK (S : IntTy) (neg : Bool) (sig : Int) : Prop :=
  S.lowest ≤ sig ∧ sig ≤ S.max ∧ (if neg = true then sig < 0 else 0 < sig)

theorem lowest_signed (S : IntTy) (hs : S.signed = true) : S.lowest = -S.max - 1 := by
  simp only [IntTy.lowest, IntTy.max, hs, if_true]; omega

theorem mulS_ok {S : IntTy} (hb : 1 ≤ S.bits) {a : Int} {k : Nat} (h : S.InRange (a * k)) :
    mulS S a k = .ok (a * k) := by
  unfold mulS; rw [arith_ok hb h]

theorem step_mul10 (S : IntTy) (hs : S.signed = true) (neg : Bool) (sig : Int)
    (h : SigOK S neg sig) (ho : oobSig S neg sig = false) :
    S.InRange (sig * (10 : Nat)) ∧ SigOK S neg (sig * (10 : Nat)) := by
  have hl := lowest_signed S hs
  obtain ⟨h1, h2, h3⟩ := h
  unfold oobSig at ho
  unfold SigOK IntTy.InRange
  cases neg with
  | true =>
    simp only [if_true, decide_eq_false_iff_not] at ho h3 ⊢
    have : ((10 : Nat) : Int) = 10 := rfl
    rw [this]; omega
  | false =>
    simp at ho h3 ⊢
    have : ((10 : Nat) : Int) = 10 := rfl
    omega

theorem step_mulR (S : IntTy) (hs : S.signed = true) (neg : Bool) (sig : Int) (R : Nat)
    (hR1 : 1 ≤ R) (hR : R ≤ 10)
    (h : SigOK S neg sig) (ho : oobSig S neg sig = false) :
    S.InRange (sig * R) ∧ SigOK S neg (sig * R) := by
  have hl := lowest_signed S hs
  obtain ⟨h1, h2, h3⟩ := h
  have hRi : (R : Int) ≤ 10 := by exact_mod_cast hR
  have hRi1 : (1 : Int) ≤ R := by exact_mod_cast hR1
  unfold oobSig at ho
  unfold SigOK IntTy.InRange
  cases neg with
  | true =>
    simp only [if_true, decide_eq_false_iff_not] at ho h3 ⊢
    have a1 : sig * 10 ≤ sig * R := Int.mul_le_mul_of_nonpos_left (by omega) hRi
    have a2 : sig * R ≤ sig * 1 := Int.mul_le_mul_of_nonpos_left (by omega) hRi1
    omega
  | false =>
    simp at ho h3 ⊢
    have a1 : sig * R ≤ sig * 10 := Int.mul_le_mul_of_nonneg_left hRi (by omega)
    have a2 : sig * 1 ≤ sig * R := Int.mul_le_mul_of_nonneg_left hRi1 (by omega)
    omega

theorem step_div (S : IntTy) (hl0 : S.lowest ≤ 0) (hm0 : 0 ≤ S.max) (neg : Bool) (sig : Int) (k : Nat) (hk2 : 2 ≤ k)
    (h : SigOK S neg sig) (hbig : sig.tmod k = 0 ∨ k ≤ sig.natAbs) :
    SigOK S neg (sig.tdiv k) := by
  obtain ⟨h1, h2, h3⟩ := h
  have hq : (sig.tdiv k).natAbs = sig.natAbs / k := natAbs_tdiv_nat sig k
  have hne : sig ≠ 0 := by
    cases neg <;> simp at h3 <;> omega
  have hpos : 0 < sig.natAbs := Int.natAbs_pos.mpr hne
  have hge : k ≤ sig.natAbs := by
    rcases hbig with hb | hb
    · have hm : (sig.tmod k).natAbs = sig.natAbs % k := natAbs_tmod_nat sig k
      rw [hb] at hm
      exact Nat.le_of_dvd hpos (Nat.dvd_of_mod_eq_zero (by simpa using hm.symm))
    · exact hb
  have hq1 : 0 < sig.natAbs / k := Nat.div_pos hge (by omega)
  have hq2 : sig.natAbs / k ≤ sig.natAbs := Nat.div_le_self _ _
  have e1 := Int.natAbs_eq sig
  have e2 := Int.natAbs_eq (sig.tdiv k)
  unfold SigOK
  cases neg with
  | true =>
    simp only [if_true] at h3 ⊢
    have hs : 0 ≤ (-sig).tdiv k := Int.tdiv_nonneg (by omega) (by omega)
    rw [Int.neg_tdiv] at hs
    omega
  | false =>
    simp at h3 ⊢
    have hs : 0 ≤ sig.tdiv k := Int.tdiv_nonneg (by omega) (by omega)
    omega

theorem oob_big (S : IntTy) (hM : 127 ≤ S.max) (neg : Bool) (sig : Int) (h : SigOK S neg sig)
    (ho : oobSig S neg sig = true) : 13 ≤ sig.natAbs := by
  obtain ⟨_, _, h3⟩ := h
  unfold oobSig at ho
  cases neg with
  | true => simp only [if_true, decide_eq_true_eq] at ho h3; omega
  | false => simp at ho h3; omega


theorem sigOK_bounds (S : IntTy) (hs : S.signed = true) : S.lowest ≤ 0 ∧ 0 ≤ S.max := by
  have hp : (0 : Int) < 2 ^ (S.bits - 1) := Int.pow_pos (by omega)
  simp only [IntTy.lowest, IntTy.max, hs, if_true]; omega

theorem descaleNeg_ok (S : IntTy) (hs : S.signed = true) (h8 : 8 ≤ S.bits) (neg : Bool) (R : Nat)
    (hR2 : 2 ≤ R) (hR : R ≤ 10) (B : Nat) (hB : B = 2 ^ (S.bits - 1)) :
    ∀ fuel sig x ie k, SigOK S neg sig →
      ie * (B + 2) + (B - sig.natAbs) + 1 ≤ fuel →
      ∃ d, descaleNeg S neg R fuel sig x ie k = .ok d ∧ SigOK S neg d.sig := by
  have hM := max_ge_127 S hs h8
  obtain ⟨hl0, hm0⟩ := sigOK_bounds S hs
  intro fuel
  induction fuel with
  | zero => intro sig x ie k _ h; omega
  | succ n ih =>
    intro sig x ie k hok h
    cases ie with
    | zero => exact ⟨⟨sig, x, k⟩, by simp [descaleNeg], hok⟩
    | succ ie =>
      rw [Nat.succ_mul] at h
      by_cases hc : sig.tmod R ≠ 0 ∧ oobSig S neg sig = false
      · obtain ⟨hin, hok'⟩ := step_mul10 S hs neg sig hok hc.2
        simp only [descaleNeg, hc, and_self, if_true, ne_eq, not_false_eq_true, mulS_ok (by omega) hin]
        apply ih _ _ _ _ hok'
        have hb := natAbs_le_of_range hs hok'.1 hok'.2.1
        rw [← hB] at hb
        have hne : sig ≠ 0 := by
          intro h0; subst h0; simp at hc
        have h1 : (sig * ((10 : Nat) : Int)).natAbs = sig.natAbs * 10 := by
          rw [Int.natAbs_mul]; rfl
        have h2 : 0 < sig.natAbs := Int.natAbs_pos.mpr hne
        rw [Nat.succ_mul]
        omega
      · simp only [descaleNeg, hc, if_false]
        have hbig : sig.tmod R = 0 ∨ R ≤ sig.natAbs := by
          by_cases ht : sig.tmod R = 0
          · exact Or.inl ht
          · right
            have ho : oobSig S neg sig = true := by
              cases hoo : oobSig S neg sig with
              | true => rfl
              | false => exact absurd ⟨ht, hoo⟩ hc
            have := oob_big S hM neg sig hok ho
            omega
        apply ih _ _ _ _ (step_div S hl0 hm0 neg sig R hR2 hok hbig)
        omega

theorem descalePos_ok (S : IntTy) (hs : S.signed = true) (h8 : 8 ≤ S.bits) (neg : Bool) (R : Nat)
    (hR1 : 1 ≤ R) (hR : R ≤ 10) (B : Nat) (hB : B = 2 ^ (S.bits - 1)) :
    ∀ fuel sig x ie k, SigOK S neg sig →
      ie * (B + 2) + sig.natAbs + 1 ≤ fuel →
      ∃ d, descalePos S neg R fuel sig x ie k = .ok d ∧ SigOK S neg d.sig := by
  have hM := max_ge_127 S hs h8
  obtain ⟨hl0, hm0⟩ := sigOK_bounds S hs
  intro fuel
  induction fuel with
  | zero => intro sig x ie k _ h; omega
  | succ n ih =>
    intro sig x ie k hok h
    have hd10 : (sig.tdiv 10).natAbs = sig.natAbs / 10 := Int.natAbs_tdiv sig 10
    by_cases h1 : ie = 0 ∧ sig.tmod 10 ≠ 0
    · exact ⟨⟨sig, x, k⟩, by simp [descalePos, h1], hok⟩
    · by_cases h2 : sig.tmod 10 = 0 ∨ oobSig S neg sig = true
      · simp only [descalePos, h1, h2, if_false, if_true]
        have hbig : sig.tmod ((10 : Nat) : Int) = 0 ∨ 10 ≤ sig.natAbs := by
          rcases h2 with h2 | h2
          · exact Or.inl h2
          · right; have := oob_big S hM neg sig hok h2; omega
        have hsd : SigOK S neg (sig.tdiv 10) := step_div S hl0 hm0 neg sig 10 (by omega) hok hbig
        apply ih _ _ _ _ hsd
        have hne : sig ≠ 0 := by
          obtain ⟨_, _, h3⟩ := hok
          cases neg <;> simp at h3 <;> omega
        have hpos : 0 < sig.natAbs := Int.natAbs_pos.mpr hne
        omega
      · simp only [descalePos, h1, h2, if_false]
        have htm : sig.tmod 10 ≠ 0 := fun h0 => h2 (Or.inl h0)
        have hie : ie ≠ 0 := fun h0 => h1 ⟨h0, htm⟩
        have ho : oobSig S neg sig = false := by
          cases hoo : oobSig S neg sig with
          | false => rfl
          | true => exact absurd (Or.inr hoo) h2
        obtain ⟨hin, hok'⟩ := step_mulR S hs neg sig R hR1 hR hok ho
        simp only [mulS_ok (by omega) hin]
        have hb := natAbs_le_of_range hs hok'.1 hok'.2.1
        rw [← hB] at hb
        cases ie with
        | zero => exact absurd rfl hie
        | succ j =>
          rw [Nat.succ_mul] at h
          apply ih _ _ _ _ hok'
          simp only [Nat.add_sub_cancel]; omega

/-- the repaired `descale` returns a non-zero in-range significand of the input's sign for every non-zero
input: no overflow (`ub`), no endless loop -/
theorem descale_ok (S : IntTy) (hs : S.signed = true) (h8 : 8 ≤ S.bits) (input e : Int) (R : Nat)
    (hR2 : 2 ≤ R) (hR : R ≤ 10) (hr : S.InRange input) (h0 : input ≠ 0) :
    ∃ d, descale S input e R = .ok d ∧ SigOK S (decide (input < 0)) d.sig := by
  unfold descale
  simp only [h0, if_false]
  rw [IntTy.wrap_id (by omega) hr]
  have hok : SigOK S (decide (input < 0)) input := by
    refine ⟨hr.1, hr.2, ?_⟩
    by_cases hn : input < 0 <;> simp [hn]; omega
  have hBC : 2 ^ (S.bits - 1) ≤ 2 ^ S.bits := Nat.pow_le_pow_right (by omega) (by omega)
  have hmul : e.natAbs * (2 ^ (S.bits - 1) + 2) ≤ e.natAbs * (2 ^ S.bits + 2) :=
    Nat.mul_le_mul_left _ (by omega)
  have hfuel : descaleFuel S e.natAbs = e.natAbs * (2 ^ S.bits + 2) + (2 ^ S.bits + 2) + 1 := by
    unfold descaleFuel; rw [Nat.succ_mul]
  have hle := natAbs_le_of_range hs hr.1 hr.2
  by_cases hn : e < 0
  · simp only [hn, if_true]
    apply descaleNeg_ok S hs h8 _ R hR2 hR (2 ^ (S.bits - 1)) rfl _ _ _ _ _ hok
    rw [hfuel]; omega
  · simp only [hn, if_false]
    apply descalePos_ok S hs h8 _ R (by omega) hR (2 ^ (S.bits - 1)) rfl _ _ _ _ _ hok
    rw [hfuel]; omega


theorem sigTy_bits (T : IntTy) : 8 ≤ (sigTy T).bits := by
  unfold sigTy
  split
  · rename_i h; unfold IntTy.digits at h; split at h <;> omega
  · decide

/-- `cnl::to_chars` on `scaled_integer<T, power<e, radix>>` for every value, exponent, radix 2…10 and buffer
length, when the significand type is signed (`int64_t` for every rep of at most 63 digits, or a wider signed
rep): the call returns normally and meets the C13 contract — or the descaled significand is the most
negative value of its type (the one open finding) -/
theorem scaledToChars_stays_inside (T : IntTy) (e : Int) (radix len : Nat) (rep : Int)
    (hS : (sigTy T).signed = true) (hr : (sigTy T).InRange rep) (hR2 : 2 ≤ radix) (hR : radix ≤ 10) :
    (∃ r, scaledToChars T e radix len rep = .ok r ∧ Contract len r) ∨
    scaledToChars T e radix len rep = .unreachable "assert: most negative value" := by
  by_cases hlen : len = 0
  · left
    subst hlen
    exact ⟨⟨some 0, false, Buf.fresh 0⟩, by simp [scaledToChars, scaledToCharsWith],
      contract_of_failure (Buf.fresh 0) 0 rfl (fresh_WF 0)⟩
  · by_cases hrep : rep = 0
    · left
      have hpos : 0 < len := Nat.pos_of_ne_zero hlen
      refine ⟨⟨some 1, true, ⟨len, (List.replicate len none).set 0 (some '0')⟩⟩, ?_, rfl, ?_, ?_, ?_⟩
      · simp [scaledToChars, scaledToCharsWith, hlen, hrep, Buf.write, Buf.fresh, hpos]
      · simp [Buf.WF]
      · intro _
        refine ⟨1, rfl, by omega, hpos, ?_, ?_⟩
        · intro i hi
          have : i = 0 := by omega
          subst this
          exact ⟨'0', by simp [List.getElem?_set]; omega⟩
        · intro i h1 h2
          simp only
          rw [List.getElem?_set]
          have : ¬ (0 = i) := by omega
          simp [this, List.getElem?_replicate, h2]
      · intro h; simp at h
    · obtain ⟨d, hd, hok⟩ := descale_ok (sigTy T) hS (sigTy_bits T) rep e radix hR2 hR hr hrep
      have h0 : d.sig ≠ 0 := by
        obtain ⟨_, _, h3⟩ := hok
        by_cases hn : rep < 0 <;> simp [hn] at h3 <;> omega
      by_cases hmn : (sigTy T).signed = true ∧ d.sig < -(sigTy T).max
      · right
        unfold scaledToChars scaledToCharsWith
        simp only [hlen, hrep, if_false, hd, h0, hmn, and_self, if_true]
      · left
        exact scaledToChars_contract T e radix len rep d hlen hrep hd h0 hmn


/-! ### the text left in the buffer by the integer routine -/

/-- the text of a result whose cells `[0, |t|)` hold the characters of `t` -/
theorem text_of_cells (r : TCR) (t : List Char) (hp : r.ptr = some t.length)
    (hc : ∀ i, i < t.length → r.buf.cells[i]? = (t[i]?).map some) : r.text = t := by
  unfold TCR.text
  rw [hp]
  apply List.ext_getElem?
  intro i
  simp only [List.getElem?_map, List.getElem?_take]
  by_cases hi : i < t.length
  · simp only [hi, if_true, hc i hi]
    simp [List.getElem?_eq_getElem hi]
  · simp only [hi, if_false]
    simp [List.getElem?_eq_none (Nat.le_of_not_lt hi)]

/-- on success the buffer holds exactly the canonical numeral -/
theorem intToChars_text (T : IntTy) (len : Nat) (v : Int) (base : Nat)
    (hb : 2 ≤ base ∧ base ≤ 36) (hm : ¬ MostNegative T v)
    (hu : T.signed = false → 0 ≤ v) :
    ∃ r, intToChars T (Buf.fresh len) v base = .ok r ∧ (r.ok = true → r.text = intText base v) := by
  have hbb : ¬ (base < 2 ∨ base > 36) := by omega
  unfold intToChars
  rw [if_neg hbb]
  by_cases hv : v = 0
  · rw [if_pos hv]
    by_cases hl : len = 0
    · subst hl
      exact ⟨⟨some 0, false, Buf.fresh 0⟩, by simp [Buf.fresh], by intro h; simp at h⟩
    · have hl' : (Buf.fresh len).len ≠ 0 := hl
      have h0 : 0 < (Buf.fresh len).len := Nat.pos_of_ne_zero hl
      simp only [hl', if_false, Buf.write, h0, if_true]
      refine ⟨_, rfl, ?_⟩
      intro _
      have ht : intText base v = ['0'] := by simp [intText, hv]
      rw [ht]
      apply text_of_cells _ ['0'] rfl
      intro i hi
      have : i = 0 := by simpa using hi
      subst this
      simp [Buf.fresh, List.getElem?_set]; omega
  · rw [if_neg hv]
    by_cases hn : T.signed = true ∧ v < 0
    · rw [if_pos hn]
      by_cases hl : len < 2
      · have : (Buf.fresh len).len < 2 := hl
        rw [if_pos this]
        exact ⟨_, rfl, by intro h; simp at h⟩
      · have h2 : ¬ (Buf.fresh len).len < 2 := hl
        have h0 : 0 < (Buf.fresh len).len := by simp only [Buf.fresh]; omega
        rw [if_neg h2]
        simp only [Buf.write, h0, if_true]
        have hmn : ¬ (v < -(promote T).max) := fun h => hm ⟨hn.1, h⟩
        simp only [hmn, if_false]
        have hw' : (⟨(Buf.fresh len).len, (Buf.fresh len).cells.set 0 (some '-')⟩ : Buf).WF := by
          simp [Buf.WF, Buf.fresh]
        obtain ⟨r, hr, _, _, hro, hrp, hrc⟩ :=
          natToChars_spec ⟨(Buf.fresh len).len, (Buf.fresh len).cells.set 0 (some '-')⟩ 1 (-v).toNat base hw'
            (by simp only [Buf.fresh]; omega)
        refine ⟨r, hr, ?_⟩
        intro hok
        rw [hro] at hok
        have hfit : 1 + (natDigits base (-v).toNat).length ≤ (Buf.fresh len).len := of_decide_eq_true hok
        have ht : intText base v = '-' :: natDigits base (-v).toNat := by simp [intText, hv, hn.2]
        rw [ht]
        apply text_of_cells
        · rw [hrp]; simp only [hfit, if_true, List.length_cons]; congr 1; omega
        · intro i hi
          simp only [List.length_cons] at hi
          rw [hrc i]
          by_cases h1 : 1 ≤ i
          · have c : (1 ≤ i ∧ i < 1 + (natDigits base (-v).toNat).length ∧ i < (Buf.fresh len).len) := by
              refine ⟨h1, by omega, ?_⟩; omega
            rw [if_pos c]
            have : i = (i - 1) + 1 := by omega
            rw [this, List.getElem?_cons_succ]; simp
          · have c : ¬ (1 ≤ i ∧ i < 1 + (natDigits base (-v).toNat).length ∧ i < (Buf.fresh len).len) := by omega
            rw [if_neg c]
            have : i = 0 := by omega
            subst this
            simp [Buf.fresh, List.getElem?_set]; omega
    · rw [if_neg hn]
      have hpos : 0 < v := by
        cases hs : T.signed with
        | false => have := hu hs; omega
        | true =>
          have : ¬ v < 0 := fun h => hn ⟨hs, h⟩
          omega
      obtain ⟨r, hr, _, _, hro, hrp, hrc⟩ :=
        natToChars_spec (Buf.fresh len) 0 v.toNat base (fresh_WF len) (Nat.zero_le _)
      refine ⟨r, hr, ?_⟩
      intro hok
      rw [hro] at hok
      have hfit : 0 + (natDigits base v.toNat).length ≤ (Buf.fresh len).len := of_decide_eq_true hok
      have hnn : ¬ v < 0 := by omega
      have ht : intText base v = natDigits base v.toNat := by simp [intText, hv, hnn]
      rw [ht]
      apply text_of_cells
      · rw [hrp]; simp only [hfit, if_true]; simp
      · intro i hi
        rw [hrc i]
        have c : (0 ≤ i ∧ i < 0 + (natDigits base v.toNat).length ∧ i < (Buf.fresh len).len) := by
          refine ⟨Nat.zero_le _, by omega, ?_⟩; omega
        rw [if_pos c]; simp


end Cnl.Charconv
