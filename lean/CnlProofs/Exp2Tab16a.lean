import CnlProofs.Exp2Tab16a_0
import CnlProofs.Exp2Tab16a_1
import CnlProofs.Exp2Tab16a_2
import CnlProofs.Exp2Tab16a_3
/-!
# Kernel-checked table for `u16_m15`: all 65 536 inputs (four parts checked in parallel modules)
-/
open Cnl Cnl.Exp2 Cnl.Exp2Proofs
namespace Cnl.Exp2Tab16a

theorem table : ∀ rep, (Fmt.rep ⟨16, false, -15⟩).InRange rep → boundOK ⟨16, false, -15⟩ 3 rep = true := by
  intro rep h
  have hl : lowestF (Fmt.rep ⟨16, false, -15⟩) = (Fmt.rep ⟨16, false, -15⟩).lowest := lowestF_eq _
  have h1 : (Fmt.rep ⟨16, false, -15⟩).lowest ≤ rep := h.1
  have h2 : rep ≤ (Fmt.rep ⟨16, false, -15⟩).max := h.2
  have hlo : (Fmt.rep ⟨16, false, -15⟩).lowest = 0 := by decide
  have hhi : (Fmt.rep ⟨16, false, -15⟩).max = 65535 := by decide
  rw [hlo] at h1 hl; rw [hhi] at h2
  by_cases c1 : rep < 0 + 16384
  · exact sweep_spec part0 rep (by rw [hl]; omega) (by rw [hl]; omega)
  · by_cases c2 : rep < 0 + 32768
    · exact sweep_spec part1 rep (by rw [hl]; omega) (by rw [hl]; omega)
    · by_cases c3 : rep < 0 + 49152
      · exact sweep_spec part2 rep (by rw [hl]; omega) (by rw [hl]; omega)
      · exact sweep_spec part3 rep (by rw [hl]; omega) (by rw [hl]; omega)

end Cnl.Exp2Tab16a
