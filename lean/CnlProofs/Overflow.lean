import CnlProofs.CIntLemmas
import CnlProofs.Elastic
import CnlProofs.Rounding
import CnlModel.Overflow
import CnlSpec.Overflow
/-!
# Lemmas for C06 / C07: the overflow tags

* evaluation lemmas for the built-in operators of `CnlModel.CInt` on values that the common type
  holds unchanged;
* how the usual arithmetic conversions relate the ranges of the operand types and the common type;
* every portable predicate of `is_overflow.h` evaluates, without undefined behaviour, to the
  mathematical comparison it stands for;
* the assembled tagged operators (`checkedBin`, `checkedNeg`, `checkedConvert`).

Lean core only.
-/
set_option linter.unusedVariables false
set_option linter.unusedSimpArgs false
set_option linter.unusedSectionVars false

namespace Cnl.Overflow
open Cnl Cnl.Spec Cnl.Rounding Cnl.Elastic

/-! ## the specification's three cases -/

theorem want_pos {tag : OvTag} (ht : tag ≠ .nat) {T : IntTy} {e : Int} (h : e > T.max) :
    checkedWant tag T e = react tag true T := by
  cases tag <;> simp [checkedWant, react, h] at ht ⊢

theorem want_neg {tag : OvTag} (ht : tag ≠ .nat) {T : IntTy} {e : Int} (h : e < T.lowest) :
    checkedWant tag T e = react tag false T := by
  have h0 := zero_le_max T
  have : ¬ e > T.max := by omega
  cases tag <;> simp [checkedWant, react, h, this] at ht ⊢

theorem want_in {tag : OvTag} {T : IntTy} {e : Int} (h : T.InRange e) :
    checkedWant tag T e = .ok (T, e) := by
  have h1 : ¬ e > T.max := by have := h.2; omega
  have h2 : ¬ e < T.lowest := by have := h.1; omega
  simp [checkedWant, h1, h2]

/-- an evaluation that executes nothing undefined, reaches no internal `unreachable`, and is a
well-formed instantiation (`.ill` marks programs that do not compile) -/
def Good {α : Type} (x : Res α) : Prop := x.isDefined = true ∧ ∀ m, x ≠ .ill m

theorem good_ok {α : Type} (a : α) : Good (Res.ok a) := ⟨rfl, fun _ h => by cases h⟩

/-- the outcome the specification prescribes is never undefined for the three checked tags -/
theorem want_defined {tag : OvTag} (ht : tag = .sat ∨ tag = .thr ∨ tag = .trp) (T : IntTy) (e : Int) :
    Good (checkedWant tag T e) := by
  rcases ht with h | h | h <;> subst h <;> simp only [checkedWant] <;> (repeat' split) <;>
    exact ⟨rfl, fun _ h => by cases h⟩

theorem want_not_ill {tag : OvTag} (T : IntTy) (e : Int) (m : String) : checkedWant tag T e ≠ .ill m := by
  cases tag <;> unfold checkedWant <;> (repeat' split) <;> simp

/-! ## built-in operators on values the common type holds unchanged -/

section ev
variable {A B T : IntTy} (h : usualArith A B = T) (hb : 1 ≤ T.bits) {v w : Int}
include h hb

theorem cAdd_ev (hv : T.InRange v) (hw : T.InRange w) (he : T.InRange (v + w)) :
    cBin .add (A, v) (B, w) = .ok (T, v + w) := by
  simp only [cBin, h, IntTy.wrap_id hb hv, IntTy.wrap_id hb hw, arith_ok hb he]

theorem cSub_ev (hv : T.InRange v) (hw : T.InRange w) (he : T.InRange (v - w)) :
    cBin .sub (A, v) (B, w) = .ok (T, v - w) := by
  simp only [cBin, h, IntTy.wrap_id hb hv, IntTy.wrap_id hb hw, arith_ok hb he]

theorem cMul_ev (hv : T.InRange v) (hw : T.InRange w) (he : T.InRange (v * w)) :
    cBin .mul (A, v) (B, w) = .ok (T, v * w) := by
  simp only [cBin, h, IntTy.wrap_id hb hv, IntTy.wrap_id hb hw, arith_ok hb he]

theorem cDiv_ev (hv : T.InRange v) (hw : T.InRange w) (h0 : w ≠ 0)
    (hov : ¬(T.signed = true ∧ v = T.lowest ∧ w = -1)) (he : T.InRange (v.tdiv w)) :
    cBin .div (A, v) (B, w) = .ok (T, v.tdiv w) := by
  simp only [cBin, h, IntTy.wrap_id hb hv, IntTy.wrap_id hb hw, h0, hov, ite_false, arith_ok hb he]

theorem cCmp_ev (op : CmpOp) (hv : T.InRange v) (hw : T.InRange w) :
    cCmp op (A, v) (B, w) = cmpInt op v w := by
  simp only [cCmp, h, IntTy.wrap_id hb hv, IntTy.wrap_id hb hw]
  cases op <;> rfl
end ev

/-! ## ranges of the operand types and of the common type -/

theorem digits_le_promote (t : IntTy) : t.digits ≤ (promote t).digits := by
  unfold promote
  split
  · simp only [IntTy.digits, i32]; split <;> simp <;> omega
  · exact Nat.le_refl _

/-- the common type has at least the digits of either promoted operand type -/
theorem usualArith_digits_ge (L R : IntTy) :
    (promote L).digits ≤ (usualArith L R).digits ∧ (promote R).digits ≤ (usualArith L R).digits := by
  rw [usualArith_key]
  have hL := promote_bits_ge32 L
  have hR := promote_bits_ge32 R
  generalize promote L = A at *; generalize promote R = B at *
  obtain ⟨ab, as⟩ := A; obtain ⟨bb, bs⟩ := B
  simp only at hL hR
  cases as <;> cases bs <;> simp [key, IntTy.digits] <;> split <;> simp <;> omega

theorem digits_le_usualArith (L R : IntTy) :
    L.digits ≤ (usualArith L R).digits ∧ R.digits ≤ (usualArith L R).digits := by
  have := usualArith_digits_ge L R
  have := digits_le_promote L
  have := digits_le_promote R
  omega

/-- an unsigned common type is one of the operand types, and that operand type is unsigned -/
theorem usualArith_unsigned {L R : IntTy} (h : (usualArith L R).signed = false) :
    (usualArith L R = L ∧ L.signed = false) ∨ (usualArith L R = R ∧ R.signed = false) := by
  rcases usualArith_cases L R with e | e
  · rw [e] at h ⊢; have := promote_unsigned h; exact Or.inl ⟨this.2, this.1⟩
  · rw [e] at h ⊢; have := promote_unsigned h; exact Or.inr ⟨this.2, this.1⟩

/-- with operands of one signedness an unsigned common type means unsigned operands -/
theorem same_sign_unsigned {L R : IntTy} (hs : L.signed = R.signed) (h : (usualArith L R).signed = false) :
    L.signed = false ∧ R.signed = false := by
  rcases usualArith_unsigned h with ⟨_, e⟩ | ⟨_, e⟩
  · exact ⟨e, hs ▸ e⟩
  · exact ⟨hs ▸ e, e⟩

theorem pow_digits_pos (t : IntTy) : (0 : Int) < 2^t.digits := two_pow_pos _

/-- bounds of an in-range value by the digits of its type -/
theorem range_digits {t : IntTy} {v : Int} (h : t.InRange v) :
    -(2^t.digits : Int) ≤ v ∧ v ≤ 2^t.digits - 1 ∧ (t.signed = false → 0 ≤ v) := by
  unfold IntTy.InRange at h
  rw [IntTy.max_eq, IntTy.lowest_eq] at h
  have := pow_digits_pos t
  refine ⟨?_, h.2, fun hs => ?_⟩
  · split at h <;> omega
  · simp [hs] at h; exact h.1

/-- a value of an operand type is held unchanged by a type with at least its digits that is
signed or whose operand type is unsigned -/
theorem fits_of_digits {A T : IntTy} {v : Int} (hd : A.digits ≤ T.digits)
    (hs : T.signed = false → A.signed = false) (h : A.InRange v) : T.InRange v := by
  have ⟨h1, h2, h3⟩ := range_digits h
  exact inRange_of_digits' hd h1 h2 (fun ht => h3 (hs ht))

theorem fits_left {L R : IntTy} {l : Int} (hs : (usualArith L R).signed = false → L.signed = false)
    (h : L.InRange l) : (usualArith L R).InRange l :=
  fits_of_digits (digits_le_usualArith L R).1 hs h

theorem fits_right {L R : IntTy} {r : Int} (hs : (usualArith L R).signed = false → R.signed = false)
    (h : R.InRange r) : (usualArith L R).InRange r :=
  fits_of_digits (digits_le_usualArith L R).2 hs h

/-- any operand value is at most the maximum of the common type -/
theorem le_max_left {L R : IntTy} {l : Int} (h : L.InRange l) : l ≤ (usualArith L R).max := by
  have ⟨_, h2, _⟩ := range_digits h
  have := two_pow_le (digits_le_usualArith L R).1
  rw [IntTy.max_eq]; omega

theorem le_max_right {L R : IntTy} {r : Int} (h : R.InRange r) : r ≤ (usualArith L R).max := by
  have ⟨_, h2, _⟩ := range_digits h
  have := two_pow_le (digits_le_usualArith L R).2
  rw [IntTy.max_eq]; omega

/-- … and at least the lowest value of a signed common type -/
theorem ge_lowest_left {L R : IntTy} {l : Int} (hT : (usualArith L R).signed = true) (h : L.InRange l) :
    (usualArith L R).lowest ≤ l :=
  (fits_left (fun h' => by rw [hT] at h'; cases h') h).1

theorem ge_lowest_right {L R : IntTy} {r : Int} (hT : (usualArith L R).signed = true) (h : R.InRange r) :
    (usualArith L R).lowest ≤ r :=
  (fits_right (fun h' => by rw [hT] at h'; cases h') h).1

theorem usualArith_promote_left (L : IntTy) : usualArith L (promote L) = promote L := by
  have := (usualArith_absorb L L).2.2.1
  rwa [usualArith_self] at this

theorem usualArith_promote_self (L : IntTy) : usualArith (promote L) (promote L) = promote L := by
  rw [usualArith_self, promote_promote]

theorem nonneg_of_unsigned {t : IntTy} {v : Int} (hs : t.signed = false) (h : t.InRange v) : 0 ≤ v :=
  (range_digits h).2.2 hs

/-- `lowest = -max - 1` for signed, `0` for unsigned types -/
theorem lowest_max (t : IntTy) : t.lowest = if t.signed then -t.max - 1 else 0 := by
  unfold IntTy.lowest IntTy.max
  cases t.signed
  · simp
  · simp only [ite_true]; omega

/-! ## unary minus -/

theorem checkedNeg_eq {tag : OvTag} (ht : tag ≠ .nat) {L : IntTy} (hL : 1 ≤ L.bits) {l : Int}
    (hl : L.InRange l) : checkedNeg tag (L, l) = checkedWant tag (promote L) (-l) := by
  have hP := promote_bits_ge hL
  have hlP := promote_inRange hL hl
  have h0 := zero_le_max (promote L)
  have hlm := lowest_max (promote L)
  have htag : (tag == OvTag.nat) = false := by simpa using ht
  simp only [checkedNeg, htag, isOverflowNeg, tmax, Bool.false_eq_true, ite_false, ite_true]
  by_cases hs : (promote L).signed = true
  · simp only [hs, ite_true] at hlm
    have hm : (promote L).InRange (-(promote L).max) := ⟨by omega, by omega⟩
    have hmax : (promote L).InRange (promote L).max := ⟨by omega, by omega⟩
    have hneg : cNeg (promote L, (promote L).max) = .ok (promote L, -(promote L).max) := by
      simp only [cNeg, promote_promote, IntTy.wrap_id hP hmax, arith_ok hP hm]
    simp only [hs, andThen, ite_true, hneg, Res.bind_ok, Res.pure_eq,
      cCmp_ev (usualArith_promote_left L) hP .lt hlP hm, cmpInt, Bool.not_true, Bool.false_and]
    by_cases hlt : l < -(promote L).max
    · simp only [hlt, decide_true, ite_true]
      exact (want_pos ht (by omega)).symm
    · have hr : (promote L).InRange (-l) := ⟨by have := hlP.2; omega, by omega⟩
      simp only [hlt, decide_false, Bool.false_eq_true, ite_false, cNeg, IntTy.wrap_id hP hlP, arith_ok hP hr]
      exact (want_in hr).symm
  · have hs' : (promote L).signed = false := by simpa using hs
    simp only [hs', Bool.false_eq_true, ite_false] at hlm
    have hl0 : 0 ≤ l := nonneg_of_unsigned hs' hlP
    simp only [hs', andThen, Bool.false_eq_true, ite_false, Res.bind_ok, Bool.not_false, Bool.true_and]
    by_cases hz : l = 0
    · subst hz
      have hr : (promote L).InRange (-0) := ⟨by omega, by omega⟩
      simp only [bne_self_eq_false, Bool.false_eq_true, ite_false, cNeg, IntTy.wrap_id hP hlP, arith_ok hP hr]
      exact (want_in hr).symm
    · have : (l != 0) = true := by simpa using hz
      simp only [this, ite_true]
      exact (want_neg ht (by omega)).symm

/-! ## conversion -/

theorem max_le_max_of_digits {A B : IntTy} (h : A.digits ≤ B.digits) : A.max ≤ B.max := by
  have := two_pow_le h
  rw [IntTy.max_eq, IntTy.max_eq]; omega

theorem max_lt_max_of_digits {A B : IntTy} (h : A.digits < B.digits) : A.max < B.max := by
  have := two_pow_le (show A.digits + 1 ≤ B.digits from h)
  rw [two_pow_succ] at this
  have := pow_digits_pos A
  rw [IntTy.max_eq, IntTy.max_eq]; omega

theorem checkedConvert_eq {tag : OvTag} (ht : tag ≠ .nat) {S D : IntTy} (hS : 1 ≤ S.digits) (hD : 1 ≤ D.bits)
    {v : Int} (hv : S.InRange v) : checkedConvert tag D (S, v) = checkedWant tag D v := by
  have hSb : 1 ≤ S.bits := by have := digits_le_bits S; omega
  have hP := promote_bits_ge hSb
  have hvP := promote_inRange hSb hv
  have hD0 := zero_le_max D
  have hS0 := zero_le_max S
  have ⟨hv1, hv2, hv3⟩ := range_digits hv
  simp only [checkedConvert, posDigits, negDigits, tmax, tlow, convert]
  -- positive
  by_cases hp : D.digits < S.digits
  · have hmS : S.InRange D.max := ⟨by omega, by have := max_lt_max_of_digits hp; omega⟩
    simp only [hp, decide_true, Bool.true_and, IntTy.wrap_id hSb hmS,
      cCmp_ev (usualArith_self S) hP .gt hvP (promote_inRange hSb hmS), cmpInt]
    by_cases hgt : v > D.max
    · simp only [hgt, decide_true, ite_true]; exact (want_pos ht hgt).symm
    · simp only [hgt, decide_false, Bool.false_eq_true, ite_false]
      exact convert_neg_part ht hS hD hv hgt
  · have hle : v ≤ D.max := by
      have := max_le_max_of_digits (show S.digits ≤ D.digits by omega); have := hv.2; omega
    simp only [hp, decide_false, Bool.false_and, Bool.false_eq_true, ite_false]
    exact convert_neg_part ht hS hD hv (by omega)
where
  convert_neg_part {tag : OvTag} (ht : tag ≠ .nat) {S D : IntTy} (hS : 1 ≤ S.digits) (hD : 1 ≤ D.bits)
      {v : Int} (hv : S.InRange v) (hgt : ¬ v > D.max) :
      (if (decide ((if D.signed = true then D.digits else 0) < if S.signed = true then S.digits else 0) &&
            cCmp CmpOp.lt (S, v) (S, S.wrap D.lowest)) = true
        then react tag false D else Res.ok (D, D.wrap v)) = checkedWant tag D v := by
    have hSb : 1 ≤ S.bits := by have := digits_le_bits S; omega
    have hP := promote_bits_ge hSb
    have hvP := promote_inRange hSb hv
    have hD0 := zero_le_max D
    have hS0 := zero_le_max S
    have ⟨hv1, hv2, hv3⟩ := range_digits hv
    have hfin : D.lowest ≤ v → (Res.ok (D, D.wrap v) : Res TV) = checkedWant tag D v := by
      intro h
      have hr : D.InRange v := ⟨h, by omega⟩
      rw [IntTy.wrap_id hD hr]; exact (want_in hr).symm
    by_cases hn : (if D.signed = true then D.digits else 0) < if S.signed = true then S.digits else 0
    · have hSs : S.signed = true := by
        by_cases h : S.signed = true
        · exact h
        · simp [h] at hn
      have hlS : S.InRange D.lowest := by
        refine ⟨?_, by omega⟩
        rw [IntTy.lowest_eq, IntTy.lowest_eq]
        simp only [hSs, ite_true] at hn ⊢
        by_cases hDs : D.signed = true
        · simp only [hDs, ite_true] at hn ⊢
          have := two_pow_le (Nat.le_of_lt hn); omega
        · simp only [hDs] at hn ⊢
          have := pow_digits_pos S; simp; omega
      simp only [hn, decide_true, Bool.true_and, IntTy.wrap_id hSb hlS,
        cCmp_ev (usualArith_self S) hP .lt hvP (promote_inRange hSb hlS), cmpInt]
      by_cases hlt : v < D.lowest
      · simp only [hlt, decide_true, ite_true]; exact (want_neg ht hlt).symm
      · simp only [hlt, decide_false, Bool.false_eq_true, ite_false]
        exact hfin (by omega)
    · simp only [hn, decide_false, Bool.false_and, Bool.false_eq_true, ite_false]
      apply hfin
      by_cases hSs : S.signed = true
      · simp only [hSs, ite_true] at hn
        by_cases hDs : D.signed = true
        · simp only [hDs, ite_true] at hn
          rw [IntTy.lowest_eq]; simp only [hDs, ite_true]
          have := two_pow_le (show S.digits ≤ D.digits by omega); omega
        · simp only [hDs] at hn; simp at hn; omega
      · have := hv3 (by simpa using hSs); omega

/-! ## the intrinsic path: `__builtin_*_overflow`, then the polarity deduced from the operands -/

theorem cmp_zero_same {A : IntTy} (hA : 1 ≤ A.bits) (op : CmpOp) {v : Int} (hv : A.InRange v) :
    cCmp op (A, v) (zero A) = cmpInt op v 0 := by
  have h0 := zero_le_max A
  exact cCmp_ev (usualArith_self A) (promote_bits_ge hA) op (promote_inRange hA hv)
    (promote_inRange hA ⟨h0.1, h0.2⟩)

theorem measurePolarity_eq {A : IntTy} (hA : 1 ≤ A.bits) {v : Int} (hv : A.InRange v) :
    measurePolarity (A, v) = if v > 0 then 1 else if v < 0 then -1 else 0 := by
  simp only [measurePolarity, cmp_zero_same hA _ hv, cmpInt, decide_eq_true_eq]

theorem builtin_add_eq {tag : OvTag} (ht : tag ≠ .nat) {L R : IntTy} (hL : 1 ≤ L.bits) (hR : 1 ≤ R.bits)
    {l r : Int} (hl : L.InRange l) (hr : R.InRange r) :
    checkedBin .builtin tag .add (L, l) (R, r) = checkedWant tag (usualArith L R) (l + r) := by
  have htag : (tag == OvTag.nat) = false := by simpa using ht
  have hT1 : 1 ≤ (usualArith L R).bits := by have := usualArith_bits_ge L R; omega
  have h0 := zero_le_max (usualArith L R)
  have hlm := le_max_left (R := R) hl
  have hrm := le_max_right (L := L) hr
  simp only [checkedBin, htag, hasBuiltin, binResultTy, builtinOverflow, overflowPolarity,
    cmp_zero_same hL _ hl, cmp_zero_same hR _ hr, cmpInt, IntTy.inRange]
  by_cases hin : (usualArith L R).InRange (l + r)
  · simp [hin, IntTy.wrap_id hT1 hin]; exact (want_in hin).symm
  · simp only [hin, decide_false, Bool.not_false, Bool.false_eq_true, ite_false]
    have hin' : ¬((usualArith L R).lowest ≤ l + r ∧ l + r ≤ (usualArith L R).max) := hin
    by_cases hp : l > 0 ∧ r > 0
    · simp [hp.1, hp.2]; exact (want_pos ht (by omega)).symm
    · have : (decide (l > 0) && decide (r > 0)) = false := by simpa using hp
      simp [this]
      exact (want_neg ht (by omega)).symm

/-- a negative right operand forces the left operand above the lowest value of the common type -/
theorem lowest_le_left_of_neg {L R : IntTy} {l r : Int} (hl : L.InRange l) (hr : R.InRange r) (hneg : r < 0) :
    (usualArith L R).lowest ≤ l := by
  by_cases hT : (usualArith L R).signed = true
  · exact ge_lowest_left hT hl
  · have hT' : (usualArith L R).signed = false := by simpa using hT
    have hlm := lowest_max (usualArith L R)
    simp only [hT', Bool.false_eq_true, ite_false] at hlm
    rcases usualArith_unsigned hT' with ⟨_, e⟩ | ⟨_, e⟩
    · have := nonneg_of_unsigned e hl; omega
    · have := nonneg_of_unsigned e hr; omega

theorem lowest_le_right_of_neg {L R : IntTy} {l r : Int} (hl : L.InRange l) (hr : R.InRange r) (hneg : l < 0) :
    (usualArith L R).lowest ≤ r := by
  by_cases hT : (usualArith L R).signed = true
  · exact ge_lowest_right hT hr
  · have hT' : (usualArith L R).signed = false := by simpa using hT
    have hlm := lowest_max (usualArith L R)
    simp only [hT', Bool.false_eq_true, ite_false] at hlm
    rcases usualArith_unsigned hT' with ⟨_, e⟩ | ⟨_, e⟩
    · have := nonneg_of_unsigned e hl; omega
    · have := nonneg_of_unsigned e hr; omega

theorem builtin_sub_eq {tag : OvTag} (ht : tag ≠ .nat) {L R : IntTy} (hL : 1 ≤ L.bits) (hR : 1 ≤ R.bits)
    {l r : Int} (hl : L.InRange l) (hr : R.InRange r) :
    checkedBin .builtin tag .sub (L, l) (R, r) = checkedWant tag (usualArith L R) (l - r) := by
  have htag : (tag == OvTag.nat) = false := by simpa using ht
  have hT1 : 1 ≤ (usualArith L R).bits := by have := usualArith_bits_ge L R; omega
  have h0 := zero_le_max (usualArith L R)
  have hlm := le_max_left (R := R) hl
  simp only [checkedBin, htag, hasBuiltin, binResultTy, builtinOverflow, overflowPolarity,
    cmp_zero_same hR _ hr, cmpInt, IntTy.inRange]
  by_cases hin : (usualArith L R).InRange (l - r)
  · simp [hin, IntTy.wrap_id hT1 hin]; exact (want_in hin).symm
  · simp only [hin, decide_false, Bool.not_false, Bool.false_eq_true, ite_false]
    have hin' : ¬((usualArith L R).lowest ≤ l - r ∧ l - r ≤ (usualArith L R).max) := hin
    by_cases hp : r < 0
    · have := lowest_le_left_of_neg hl hr hp
      simp [hp]; exact (want_pos ht (by omega)).symm
    · simp [hp]
      exact (want_neg ht (by omega)).symm

theorem builtin_mul_eq {tag : OvTag} (ht : tag ≠ .nat) {L R : IntTy} (hL : 1 ≤ L.bits) (hR : 1 ≤ R.bits)
    {l r : Int} (hl : L.InRange l) (hr : R.InRange r) :
    checkedBin .builtin tag .mul (L, l) (R, r) = checkedWant tag (usualArith L R) (l * r) := by
  have htag : (tag == OvTag.nat) = false := by simpa using ht
  have hT1 : 1 ≤ (usualArith L R).bits := by have := usualArith_bits_ge L R; omega
  have h0 := zero_le_max (usualArith L R)
  simp only [checkedBin, htag, hasBuiltin, binResultTy, builtinOverflow, overflowPolarity,
    measurePolarity_eq hL hl, measurePolarity_eq hR hr, IntTy.inRange]
  by_cases hin : (usualArith L R).InRange (l * r)
  · simp [hin, IntTy.wrap_id hT1 hin]; exact (want_in hin).symm
  · simp only [hin, decide_false, Bool.not_false, Bool.false_eq_true, ite_false]
    have hin' : ¬((usualArith L R).lowest ≤ l * r ∧ l * r ≤ (usualArith L R).max) := hin
    have hl0 : l ≠ 0 := by intro h; subst h; simp at hin'; omega
    have hr0 : r ≠ 0 := by intro h; subst h; simp at hin'; omega
    by_cases hlp : l > 0 <;> by_cases hrp : r > 0
    · have := Int.mul_pos hlp hrp
      simp [hlp, hrp]; exact (want_pos ht (by omega)).symm
    · have hrn : r < 0 := by omega
      have := Int.mul_neg_of_pos_of_neg hlp hrn
      have : ¬ (0 < r) := by omega
      simp [hlp, hrn, this]; exact (want_neg ht (by omega)).symm
    · have hln : l < 0 := by omega
      have := Int.mul_neg_of_neg_of_pos hln hrp
      have : ¬ (0 < l) := by omega
      simp [hln, hrp, this]; exact (want_neg ht (by omega)).symm
    · have hln : l < 0 := by omega
      have hrn : r < 0 := by omega
      have := Int.mul_pos_of_neg_of_neg hln hrn
      have : ¬ (0 < l) := by omega
      have : ¬ (0 < r) := by omega
      simp [hln, hrn, *]; exact (want_pos ht (by omega)).symm

/-! ## division (both paths use the portable test) -/

theorem hasBuiltin_portable (op : BinOp) : hasBuiltin .portable op = false := rfl
theorem hasBuiltin_div (path : Path) : hasBuiltin path .div = false := by cases path <;> rfl
theorem hasBuiltin_shl (path : Path) : hasBuiltin path .shl = false := by cases path <;> rfl
theorem hasBuiltin_shr (path : Path) : hasBuiltin path .shr = false := by cases path <;> rfl

/-- comparison with an `int` literal -/
theorem cmp_lit {A : IntTy} (hA : 1 ≤ A.bits) (op : CmpOp) {v k : Int} (hv : A.InRange v)
    (hk : (promote A).InRange k) : cCmp op (A, v) (lit k) = cmpInt op v k :=
  cCmp_ev (usualArith_i32 A) (promote_bits_ge hA) op (promote_inRange hA hv) hk

theorem signed_of_same_sign {L R : IntTy} (hs : L.signed = R.signed) (h : L.signed = true) :
    (usualArith L R).signed = true := by
  by_cases hT : (usualArith L R).signed = true
  · exact hT
  · have := (same_sign_unsigned hs (by simpa using hT)).1
    rw [h] at this; cases this

theorem minus_one_inRange {A : IntTy} (hs : A.signed = true) : (promote A).InRange (-1) := by
  have ⟨h1, h2⟩ := lo_hi (promote A) (promote_bits_ge32 A)
  have hlm := lowest_max (promote A)
  simp only [promote_signed_of_signed hs, ite_true] at hlm
  exact ⟨by omega, by omega⟩

theorem lowest_inRange (T : IntTy) : T.InRange T.lowest := by
  have := zero_le_max T; exact ⟨by omega, by omega⟩

theorem max_inRange (T : IntTy) : T.InRange T.max := by
  have := zero_le_max T; exact ⟨by omega, by omega⟩

theorem checkedBin_div_eq (path : Path) {tag : OvTag} (ht : tag ≠ .nat) {L R : IntTy}
    (hL : 1 ≤ L.bits) (hR : 1 ≤ R.bits) (hs : L.signed = R.signed)
    {l r : Int} (hl : L.InRange l) (hr : R.InRange r) (hr0 : r ≠ 0) :
    checkedBin path tag .div (L, l) (R, r) = checkedWant tag (usualArith L R) (l.tdiv r) := by
  have htag : (tag == OvTag.nat) = false := by simpa using ht
  have h32 := usualArith_bits_ge L R
  have hT1 : 1 ≤ (usualArith L R).bits := by omega
  have h0 := zero_le_max (usualArith L R)
  have hlm := lowest_max (usualArith L R)
  have hsu := same_sign_unsigned hs
  have hlT : (usualArith L R).InRange l := fits_left (fun h => (hsu h).1) hl
  have hrT : (usualArith L R).InRange r := fits_right (fun h => (hsu h).2) hr
  have hLT : usualArith L (usualArith L R) = usualArith L R := (usualArith_absorb L R).2.2.1
  simp only [checkedBin, htag, hasBuiltin_div, binResultTy, isOverflowBin, Bool.false_eq_true, ite_false,
    Res.bind_ok]
  have hfin : ¬(l = -(usualArith L R).max - 1 ∧ r = -1) →
      cBin .div (L, l) (R, r) = checkedWant tag (usualArith L R) (l.tdiv r) := by
    intro hov
    have hq := tdiv_inRange h32 hlT hrT hr0 hov
    have hov' : ¬((usualArith L R).signed = true ∧ l = (usualArith L R).lowest ∧ r = -1) := by
      intro ⟨h1, h2, h3⟩; apply hov; simp only [h1, ite_true] at hlm; omega
    rw [cDiv_ev rfl hT1 hlT hrT hr0 hov' hq]
    exact (want_in hq).symm
  by_cases hLs : L.signed = true
  · have hTs := signed_of_same_sign hs hLs
    simp only [hTs, ite_true] at hlm
    have hRs : R.signed = true := hs ▸ hLs
    simp only [hLs, ite_true, andThen, rbool, tlow, cmp_lit hR .eq hr (minus_one_inRange hRs),
      cCmp_ev hLT hT1 .eq hlT (lowest_inRange _), cmpInt]
    by_cases h1 : r = -1
    · by_cases h2 : l = (usualArith L R).lowest
      · simp only [h1, h2, decide_true, ite_true, Res.bind_ok]
        refine (want_pos ht ?_).symm
        rw [show (-1 : Int) = -(1:Int) by rfl, Int.tdiv_neg, Int.tdiv_one]; omega
      · simp only [h1, h2, decide_true, decide_false, ite_true, Res.bind_ok, Bool.false_eq_true, ite_false]
        rw [← h1]; exact hfin (by omega)
    · simp only [h1, decide_false, Bool.false_eq_true, ite_false, Res.bind_ok]
      exact hfin (by omega)
  · have hLu : L.signed = false := by simpa using hLs
    have := nonneg_of_unsigned hLu hl
    simp only [hLu, Bool.false_eq_true, ite_false, Res.bind_ok]
    exact hfin (by omega)

/-! ## integer facts used by the portable multiplication test -/

theorem tdiv_lt_iff {A c b : Int} (hA : 0 ≤ A) (hc : 0 < c) : A.tdiv c < b ↔ A < b * c := by
  rw [Int.tdiv_eq_ediv_of_nonneg hA]; exact Int.ediv_lt_iff_lt_mul hc

theorem mul_test_pp {M l r : Int} (hM : 0 ≤ M) (hr : 0 < r) : M.tdiv r < l ↔ l * r > M :=
  tdiv_lt_iff hM hr

theorem mul_test_nn {M l r : Int} (hM : 0 ≤ M) (hr : r < 0) : M.tdiv r > l ↔ l * r > M := by
  have h := tdiv_lt_iff (b := -l) hM (show 0 < -r by omega)
  rw [Int.tdiv_neg, Int.neg_mul_neg] at h
  omega

theorem mul_test_np {m l r : Int} (hm : m ≤ 0) (hr : 0 < r) : m.tdiv r > l ↔ l * r < m := by
  have h := tdiv_lt_iff (A := -m) (b := -l) (by omega) hr
  rw [Int.neg_tdiv, Int.neg_mul] at h
  omega

theorem mul_test_pn {m l r : Int} (hm : m ≤ 0) (hr : r < 0) : m.tdiv r < l ↔ l * r < m := by
  have h := tdiv_lt_iff (A := -m) (b := l) (c := -r) (by omega) (by omega)
  rw [Int.neg_tdiv_neg, Int.mul_neg] at h
  omega

/-- product of bounded magnitudes -/
theorem mul_le_of_bounds {x y X Y : Int} (hx : 0 ≤ x) (hxX : x ≤ X) (hy : 0 ≤ y) (hyY : y ≤ Y) :
    x * y ≤ X * Y := Int.mul_le_mul hxX hyY hy (by omega)

/-- sign cases of a product, as linear facts about the atom `l * r` -/
theorem mul_sign_facts (l r : Int) :
    (0 ≤ l → 0 ≤ r → 0 ≤ l * r) ∧ (l ≤ 0 → r ≤ 0 → 0 ≤ l * r) ∧
    (0 ≤ l → r ≤ 0 → l * r ≤ 0) ∧ (l ≤ 0 → 0 ≤ r → l * r ≤ 0) :=
  ⟨Int.mul_nonneg, Int.mul_nonneg_of_nonpos_of_nonpos, Int.mul_nonpos_of_nonneg_of_nonpos,
   Int.mul_nonpos_of_nonpos_of_nonneg⟩

/-- `|l| ≤ a`, `|r| ≤ b` bounds the product, with the corner `(-a)·(-b)` singled out -/
theorem mul_mag_bound {l r a b : Int} (hl1 : -a ≤ l) (hl2 : l ≤ a - 1) (hr1 : -b ≤ r) (hr2 : r ≤ b - 1) :
    -(a * b) ≤ l * r ∧ l * r ≤ a * b ∧ (l * r = a * b → l = -a ∧ r = -b) := by
  have ⟨s1, s2, s3, s4⟩ := mul_sign_facts l r
  by_cases h1 : 0 ≤ l <;> by_cases h2 : 0 ≤ r
  · have h := mul_le_of_bounds h1 hl2 h2 hr2
    have e : (a - 1) * (b - 1) = a * b - a - b + 1 := by grind
    have := s1 h1 h2
    generalize l * r = p at *; generalize a * b = q at *; omega
  · have h := mul_le_of_bounds h1 hl2 (show 0 ≤ -r by omega) (show -r ≤ b by omega)
    have e : (a - 1) * b = a * b - b := by grind
    rw [Int.mul_neg] at h
    have := s3 h1 (by omega)
    generalize l * r = p at *; generalize a * b = q at *; omega
  · have h := mul_le_of_bounds (show 0 ≤ -l by omega) (show -l ≤ a by omega) h2 hr2
    have e : a * (b - 1) = a * b - a := by grind
    rw [Int.neg_mul] at h
    have := s4 (by omega) h2
    generalize l * r = p at *; generalize a * b = q at *; omega
  · have h := mul_le_of_bounds (show 0 ≤ -l by omega) (show -l ≤ a by omega) (show 0 ≤ -r by omega) (show -r ≤ b by omega)
    rw [Int.neg_mul_neg] at h
    have := s2 (by omega) (by omega)
    refine ⟨by omega, h, fun he => ?_⟩
    -- equality forces both corners
    by_cases hc : l = -a
    · subst hc
      by_cases hc2 : r = -b
      · exact ⟨rfl, hc2⟩
      · exfalso
        have h' := mul_le_of_bounds (show 0 ≤ -(-a) by omega) (Int.le_refl _) (show 0 ≤ -r by omega) (show -r ≤ b - 1 by omega)
        rw [Int.neg_mul_neg] at h'
        have e : - -a * (b - 1) = a * b - a := by grind
        generalize -a * r = p at *; generalize a * b = q at *; omega
    · exfalso
      have h' := mul_le_of_bounds (show 0 ≤ -l by omega) (show -l ≤ a - 1 by omega) (show 0 ≤ -r by omega) (show -r ≤ b by omega)
      rw [Int.neg_mul_neg] at h'
      have e : (a - 1) * b = a * b - b := by grind
      generalize l * r = p at *; generalize a * b = q at *; omega

/-! ## the digit guards: when a guard is false the overflow it guards is impossible -/

theorem add_le_max_of_digits {L R : IntTy} {l r : Int} (hl : L.InRange l) (hr : R.InRange r)
    (hd : ¬ max L.digits R.digits + 1 > (usualArith L R).digits) : l + r ≤ (usualArith L R).max := by
  have ⟨_, h2, _⟩ := range_digits hl
  have ⟨_, h2', _⟩ := range_digits hr
  have hp := two_pow_le (show max L.digits R.digits + 1 ≤ (usualArith L R).digits by omega)
  rw [two_pow_succ] at hp
  have := two_pow_max_l L.digits R.digits
  have := two_pow_max_r L.digits R.digits
  rw [IntTy.max_eq]; omega

theorem add_ge_lowest_of_digits {L R : IntTy} {l r : Int} (hl : L.InRange l) (hr : R.InRange r)
    (hlT : (usualArith L R).InRange l) (hrT : (usualArith L R).InRange r)
    (hd : ¬ max L.digits R.digits + 1 > (usualArith L R).digits) : (usualArith L R).lowest ≤ l + r := by
  have ⟨h1, _, _⟩ := range_digits hl
  have ⟨h1', _, _⟩ := range_digits hr
  have hp := two_pow_le (show max L.digits R.digits + 1 ≤ (usualArith L R).digits by omega)
  rw [two_pow_succ] at hp
  have := two_pow_max_l L.digits R.digits
  have := two_pow_max_r L.digits R.digits
  rw [IntTy.lowest_eq]
  by_cases hT : (usualArith L R).signed = true
  · simp only [hT, ite_true]; omega
  · have hT' : (usualArith L R).signed = false := by simpa using hT
    have := nonneg_of_unsigned hT' hlT
    have := nonneg_of_unsigned hT' hrT
    simp only [hT', Bool.false_eq_true, ite_false]; omega

theorem sub_le_max_of_digits {L R : IntTy} {l r : Int} (hl : L.InRange l) (hr : R.InRange r)
    (hd : ¬ max L.digits (negDigits R) + 1 > (usualArith L R).digits) : l - r ≤ (usualArith L R).max := by
  have ⟨_, h2, _⟩ := range_digits hl
  have ⟨h1', _, h3'⟩ := range_digits hr
  have hp := two_pow_le (show max L.digits (negDigits R) + 1 ≤ (usualArith L R).digits by omega)
  rw [two_pow_succ] at hp
  have := two_pow_max_l L.digits (negDigits R)
  have := two_pow_max_r L.digits (negDigits R)
  have := two_pow_pos (max L.digits (negDigits R))
  rw [IntTy.max_eq]
  by_cases hRs : R.signed = true
  · simp only [negDigits, hRs, ite_true] at *; omega
  · have := h3' (by simpa using hRs); omega

theorem sub_ge_lowest_of_digits {L R : IntTy} {l r : Int} (hl : L.InRange l) (hr : R.InRange r)
    (hd : ¬ max L.digits R.digits + 1 > (usualArith L R).digits) : (usualArith L R).lowest ≤ l - r := by
  have ⟨h1, _, _⟩ := range_digits hl
  have ⟨_, h2', _⟩ := range_digits hr
  have hp := two_pow_le (show max L.digits R.digits + 1 ≤ (usualArith L R).digits by omega)
  rw [two_pow_succ] at hp
  have := two_pow_max_l L.digits R.digits
  have := two_pow_max_r L.digits R.digits
  rw [IntTy.lowest_eq]
  by_cases hT : (usualArith L R).signed = true
  · simp only [hT, ite_true]; omega
  · exfalso
    rcases usualArith_unsigned (by simpa using hT) with ⟨e, _⟩ | ⟨e, _⟩ <;> rw [e] at hd <;> omega

/-- the one digit configuration in which the multiplication guard is too weak: both operand types
signed and the digit counts add up to exactly the digits of the result (`(-2^a)·(-2^b) = 2^(a+b)`).
It cannot occur for widths that are multiples of 8. -/
def MulGuardExact (L R : IntTy) : Prop :=
  L.signed = true ∧ R.signed = true ∧ L.digits + R.digits = (usualArith L R).digits

instance (L R : IntTy) : Decidable (MulGuardExact L R) := by unfold MulGuardExact; exact inferInstance

theorem mul_inRange_of_digits {L R : IntTy} {l r : Int} (hl : L.InRange l) (hr : R.InRange r)
    (hlT : (usualArith L R).InRange l) (hrT : (usualArith L R).InRange r) (hg : ¬ MulGuardExact L R)
    (hd : ¬ L.digits + R.digits > (usualArith L R).digits) : (usualArith L R).InRange (l * r) := by
  have ⟨h1, h2, h3⟩ := range_digits hl
  have ⟨h1', h2', h3'⟩ := range_digits hr
  have hp := two_pow_le (show L.digits + R.digits ≤ (usualArith L R).digits by omega)
  rw [two_pow_add] at hp
  have ⟨b1, b2, b3⟩ := mul_mag_bound h1 h2 h1' h2'
  have ⟨s1, s2, s3, s4⟩ := mul_sign_facts l r
  have hpa := pow_digits_pos L
  have hpb := pow_digits_pos R
  unfold IntTy.InRange
  rw [IntTy.max_eq, IntTy.lowest_eq]
  constructor
  · by_cases hT : (usualArith L R).signed = true
    · simp only [hT, ite_true]; omega
    · have hT' : (usualArith L R).signed = false := by simpa using hT
      have := nonneg_of_unsigned hT' hlT
      have := nonneg_of_unsigned hT' hrT
      simp only [hT', Bool.false_eq_true, ite_false]; exact s1 ‹_› ‹_›
  · by_cases he : l * r = 2^L.digits * 2^R.digits
    · have ⟨e1, e2⟩ := b3 he
      have hLs : L.signed = true := by
        by_cases h : L.signed = true
        · exact h
        · have := h3 (by simpa using h); omega
      have hRs : R.signed = true := by
        by_cases h : R.signed = true
        · exact h
        · have := h3' (by simpa using h); omega
      have hlt : L.digits + R.digits < (usualArith L R).digits := by
        have : L.digits + R.digits ≠ (usualArith L R).digits := fun h => hg ⟨hLs, hRs, h⟩
        omega
      have hp' := two_pow_le (show L.digits + R.digits + 1 ≤ (usualArith L R).digits by omega)
      rw [two_pow_succ, two_pow_add] at hp'
      have := Int.mul_pos hpa hpb
      omega
    · omega


/-! ## the portable predicates on operands the common type holds unchanged -/

section portable
variable {L R : IntTy} (hL : 1 ≤ L.bits) (hR : 1 ≤ R.bits) {l r : Int} (hl : L.InRange l) (hr : R.InRange r)
  (hlT : (usualArith L R).InRange l) (hrT : (usualArith L R).InRange r)
include hL hR hl hr hlT hrT

theorem add_pos_eq :
    isOverflowBin .add true (L, l) (R, r) = .ok (decide (l + r > (usualArith L R).max)) := by
  have hT1 : 1 ≤ (usualArith L R).bits := by have := usualArith_bits_ge L R; omega
  have h0 := zero_le_max (usualArith L R)
  have hl1 := hlT.1; have hl2 := hlT.2; have hr1 := hrT.1; have hr2 := hrT.2
  have hTR := (usualArith_absorb L R).2.1
  have hTT := (usualArith_absorb L R).2.2.2.2
  simp only [isOverflowBin, binResultTy, posDigits, tmax, convert, cmp_zero_same hL _ hl, cmp_zero_same hR _ hr,
    cmpInt, IntTy.wrap_id hT1 hlT]
  by_cases hd : max L.digits R.digits + 1 > (usualArith L R).digits
  · simp only [hd, decide_true, andThen, ite_true]
    by_cases h1 : l > 0
    · by_cases h2 : r > 0
      · have he : (usualArith L R).InRange ((usualArith L R).max - r) := ⟨by omega, by omega⟩
        have hi : l > (usualArith L R).max - r ↔ l + r > (usualArith L R).max := by omega
        simp only [h1, h2, decide_true, ite_true, cSub_ev hTR hT1 (max_inRange _) hrT he, Res.bind_ok,
          Res.pure_eq, cCmp_ev hTT hT1 .gt hlT he, cmpInt, hi]
      · have := hlT.2
        have : ¬ l + r > (usualArith L R).max := by omega
        simp only [h1, h2, decide_true, decide_false, ite_true, Bool.false_eq_true, ite_false, this]
    · have := hrT.2
      have : ¬ l + r > (usualArith L R).max := by omega
      simp only [h1, decide_false, Bool.false_eq_true, ite_false, this]
  · have := add_le_max_of_digits hl hr hd
    have : ¬ l + r > (usualArith L R).max := by omega
    simp only [hd, decide_false, andThen, Bool.false_eq_true, ite_false, this]

theorem add_neg_eq :
    isOverflowBin .add false (L, l) (R, r) = .ok (decide (l + r < (usualArith L R).lowest)) := by
  have hT1 : 1 ≤ (usualArith L R).bits := by have := usualArith_bits_ge L R; omega
  have h0 := zero_le_max (usualArith L R)
  have hl1 := hlT.1; have hl2 := hlT.2; have hr1 := hrT.1; have hr2 := hrT.2
  have hTR := (usualArith_absorb L R).2.1
  have hTT := (usualArith_absorb L R).2.2.2.2
  simp only [isOverflowBin, binResultTy, posDigits, tlow, convert, cmp_zero_same hL _ hl, cmp_zero_same hR _ hr,
    cmpInt, IntTy.wrap_id hT1 hlT]
  by_cases hd : max L.digits R.digits + 1 > (usualArith L R).digits
  · simp only [hd, decide_true, andThen, ite_true]
    by_cases h1 : l < 0
    · by_cases h2 : r < 0
      · have he : (usualArith L R).InRange ((usualArith L R).lowest - r) := ⟨by omega, by have := hrT.1; omega⟩
        have hi : l < (usualArith L R).lowest - r ↔ l + r < (usualArith L R).lowest := by omega
        simp only [h1, h2, decide_true, ite_true, cSub_ev hTR hT1 (lowest_inRange _) hrT he, Res.bind_ok,
          Res.pure_eq, cCmp_ev hTT hT1 .lt hlT he, cmpInt, hi]
      · have := hlT.1
        have : ¬ l + r < (usualArith L R).lowest := by omega
        simp only [h1, h2, decide_true, decide_false, ite_true, Bool.false_eq_true, ite_false, this]
    · have := hrT.1
      have : ¬ l + r < (usualArith L R).lowest := by omega
      simp only [h1, decide_false, Bool.false_eq_true, ite_false, this]
  · have := add_ge_lowest_of_digits hl hr hlT hrT hd
    have : ¬ l + r < (usualArith L R).lowest := by omega
    simp only [hd, decide_false, andThen, Bool.false_eq_true, ite_false, this]

theorem sub_pos_eq :
    isOverflowBin .sub true (L, l) (R, r) = .ok (decide (l - r > (usualArith L R).max)) := by
  have hT1 : 1 ≤ (usualArith L R).bits := by have := usualArith_bits_ge L R; omega
  have h0 := zero_le_max (usualArith L R)
  have hl1 := hlT.1; have hl2 := hlT.2; have hr1 := hrT.1; have hr2 := hrT.2
  have hlm := lowest_max (usualArith L R)
  have hTR := (usualArith_absorb L R).2.1
  have hLT := (usualArith_absorb L R).2.2.1
  simp only [isOverflowBin, binResultTy, posDigits, tmax, cmp_zero_same hR _ hr, cmpInt]
  by_cases hd : max L.digits (negDigits R) + 1 > (usualArith L R).digits
  · simp only [hd, decide_true, andThen, ite_true]
    by_cases h2 : r < 0
    · have hTs : (usualArith L R).signed = true := by
        by_cases h : (usualArith L R).signed = true
        · exact h
        · have := nonneg_of_unsigned (by simpa using h) hrT; omega
      simp only [hTs, ite_true] at hlm
      have he : (usualArith L R).InRange ((usualArith L R).max + r) := ⟨by have := hrT.1; omega, by omega⟩
      have hi : l > (usualArith L R).max + r ↔ l - r > (usualArith L R).max := by omega
      simp only [h2, decide_true, ite_true, cAdd_ev hTR hT1 (max_inRange _) hrT he, Res.bind_ok,
        Res.pure_eq, cCmp_ev hLT hT1 .gt hlT he, cmpInt, hi]
    · have := hlT.2
      have : ¬ l - r > (usualArith L R).max := by omega
      simp only [h2, decide_false, Bool.false_eq_true, ite_false, this]
  · have := sub_le_max_of_digits hl hr hd
    have : ¬ l - r > (usualArith L R).max := by omega
    simp only [hd, decide_false, andThen, Bool.false_eq_true, ite_false, this]

theorem sub_neg_eq :
    isOverflowBin .sub false (L, l) (R, r) = .ok (decide (l - r < (usualArith L R).lowest)) := by
  have hT1 : 1 ≤ (usualArith L R).bits := by have := usualArith_bits_ge L R; omega
  have h0 := zero_le_max (usualArith L R)
  have hl1 := hlT.1; have hl2 := hlT.2; have hr1 := hrT.1; have hr2 := hrT.2
  have hlm := lowest_max (usualArith L R)
  have hTR := (usualArith_absorb L R).2.1
  have hLT := (usualArith_absorb L R).2.2.1
  have hz : (promote R).InRange 0 := by have := zero_le_max (promote R); exact ⟨by omega, by omega⟩
  simp only [isOverflowBin, binResultTy, posDigits, tlow, cmp_lit hR _ hr hz, cmpInt]
  by_cases hd : max L.digits R.digits + 1 > (usualArith L R).digits
  · simp only [hd, decide_true, andThen, ite_true]
    by_cases h2 : r ≥ 0
    · have he : (usualArith L R).InRange ((usualArith L R).lowest + r) := by
        refine ⟨by omega, ?_⟩
        have := hrT.2
        split at hlm <;> omega
      have hi : l < (usualArith L R).lowest + r ↔ l - r < (usualArith L R).lowest := by omega
      simp only [h2, decide_true, ite_true, cAdd_ev hTR hT1 (lowest_inRange _) hrT he, Res.bind_ok,
        Res.pure_eq, cCmp_ev hLT hT1 .lt hlT he, cmpInt, hi]
    · have := hlT.1
      have : ¬ l - r < (usualArith L R).lowest := by omega
      simp only [h2, decide_false, Bool.false_eq_true, ite_false, this]
  · have := sub_ge_lowest_of_digits hl hr hd
    have : ¬ l - r < (usualArith L R).lowest := by omega
    simp only [hd, decide_false, andThen, Bool.false_eq_true, ite_false, this]

end portable

section portable_mul
variable {L R : IntTy} (hL : 1 ≤ L.bits) (hR : 1 ≤ R.bits) {l r : Int} (hl : L.InRange l) (hr : R.InRange r)
  (hlT : (usualArith L R).InRange l) (hrT : (usualArith L R).InRange r) (hg : ¬ MulGuardExact L R)
include hL hR hl hr hlT hrT hg

theorem mul_pos_eq :
    isOverflowBin .mul true (L, l) (R, r) = .ok (decide (l * r > (usualArith L R).max)) := by
  have h32 := usualArith_bits_ge L R
  have hT1 : 1 ≤ (usualArith L R).bits := by omega
  have h0 := zero_le_max (usualArith L R)
  have hl1 := hlT.1; have hl2 := hlT.2; have hr1 := hrT.1; have hr2 := hrT.2
  have hlm := lowest_max (usualArith L R)
  have hTR := (usualArith_absorb L R).2.1
  have hTL := (usualArith_absorb L R).2.2.2.1
  have ⟨s1, s2, s3, s4⟩ := mul_sign_facts l r
  simp only [isOverflowBin, binResultTy, posDigits, tmax, cmp_zero_same hL _ hl, cmp_zero_same hR _ hr, cmpInt]
  by_cases hd : L.digits + R.digits > (usualArith L R).digits
  · simp only [hd, decide_true, andThen, ite_true]
    have hov : ∀ r : Int, ¬((usualArith L R).max = -(usualArith L R).max - 1 ∧ r = -1) := by intro r; omega
    have hov' : ∀ r : Int, ¬((usualArith L R).signed = true ∧ (usualArith L R).max = (usualArith L R).lowest ∧ r = -1) := by
      intro r ⟨h1, h2, _⟩; simp only [h1, ite_true] at hlm; omega
    by_cases h1 : l > 0
    · by_cases h2 : r > 0
      · have hq := tdiv_inRange h32 (max_inRange _) hrT (by omega) (hov r)
        simp only [h1, h2, decide_true, ite_true, cDiv_ev hTR hT1 (max_inRange _) hrT (by omega) (hov' r) hq,
          Res.bind_ok, Res.pure_eq, cCmp_ev hTL hT1 .lt hq hlT, cmpInt, mul_test_pp h0.2 h2]
      · have := s3 (by omega) (by omega)
        have : ¬ l * r > (usualArith L R).max := by omega
        simp only [h1, h2, decide_true, decide_false, ite_true, Bool.false_eq_true, ite_false, this]
    · by_cases h2 : r < 0
      · have hq := tdiv_inRange h32 (max_inRange _) hrT (by omega) (hov r)
        simp only [h1, h2, decide_true, decide_false, ite_true, Bool.false_eq_true, ite_false,
          cDiv_ev hTR hT1 (max_inRange _) hrT (by omega) (hov' r) hq,
          Res.bind_ok, Res.pure_eq, cCmp_ev hTL hT1 .gt hq hlT, cmpInt, mul_test_nn h0.2 h2]
      · have := s4 (by omega) (by omega)
        have : ¬ l * r > (usualArith L R).max := by omega
        simp only [h1, h2, decide_false, Bool.false_eq_true, ite_false, this]
  · have := (mul_inRange_of_digits hl hr hlT hrT hg hd).2
    have : ¬ l * r > (usualArith L R).max := by omega
    simp only [hd, decide_false, andThen, Bool.false_eq_true, ite_false, this]

theorem mul_neg_eq :
    isOverflowBin .mul false (L, l) (R, r) = .ok (decide (l * r < (usualArith L R).lowest)) := by
  have h32 := usualArith_bits_ge L R
  have hT1 : 1 ≤ (usualArith L R).bits := by omega
  have h0 := zero_le_max (usualArith L R)
  have hl1 := hlT.1; have hl2 := hlT.2; have hr1 := hrT.1; have hr2 := hrT.2
  have hlm := lowest_max (usualArith L R)
  have hTR := (usualArith_absorb L R).2.1
  have hTL := (usualArith_absorb L R).2.2.2.1
  have ⟨s1, s2, s3, s4⟩ := mul_sign_facts l r
  simp only [isOverflowBin, binResultTy, posDigits, tlow, cmp_zero_same hL _ hl, cmp_zero_same hR _ hr, cmpInt]
  by_cases hd : L.digits + R.digits > (usualArith L R).digits
  · simp only [hd, decide_true, andThen, ite_true]
    by_cases h1 : l < 0
    · by_cases h2 : r > 0
      · have hov : ¬((usualArith L R).lowest = -(usualArith L R).max - 1 ∧ r = -1) := by omega
        have hov' : ¬((usualArith L R).signed = true ∧ (usualArith L R).lowest = (usualArith L R).lowest ∧ r = -1) := by omega
        have hq := tdiv_inRange h32 (lowest_inRange _) hrT (by omega) hov
        simp only [h1, h2, decide_true, ite_true, cDiv_ev hTR hT1 (lowest_inRange _) hrT (by omega) hov' hq,
          Res.bind_ok, Res.pure_eq, cCmp_ev hTL hT1 .gt hq hlT, cmpInt, mul_test_np h0.1 h2]
      · have := s2 (by omega) (by omega)
        have : ¬ l * r < (usualArith L R).lowest := by omega
        simp only [h1, h2, decide_true, decide_false, ite_true, Bool.false_eq_true, ite_false, this]
    · by_cases h2 : r < 0
      · have hRs : R.signed = true := by
          by_cases h : R.signed = true
          · exact h
          · have := nonneg_of_unsigned (by simpa using h) hr; omega
        simp only [h1, h2, decide_true, decide_false, ite_true, Bool.false_eq_true, ite_false,
          cmp_lit hR .ne hr (minus_one_inRange hRs), cmpInt]
        by_cases h3 : r = -1
        · subst h3
          have hTs : (usualArith L R).signed = true := by
            by_cases h : (usualArith L R).signed = true
            · exact h
            · have := nonneg_of_unsigned (by simpa using h) hrT; omega
          simp only [hTs, ite_true] at hlm
          have : ¬ l * -1 < (usualArith L R).lowest := by omega
          simp only [ne_eq, not_true_eq_false, decide_false, Bool.false_eq_true, ite_false, this]
        · have hov : ¬((usualArith L R).lowest = -(usualArith L R).max - 1 ∧ r = -1) := by omega
          have hov' : ¬((usualArith L R).signed = true ∧ (usualArith L R).lowest = (usualArith L R).lowest ∧ r = -1) := by omega
          have hq := tdiv_inRange h32 (lowest_inRange _) hrT (by omega) hov
          simp only [ne_eq, h3, not_false_eq_true, decide_true, ite_true,
            cDiv_ev hTR hT1 (lowest_inRange _) hrT (by omega) hov' hq,
            Res.bind_ok, Res.pure_eq, cCmp_ev hTL hT1 .lt hq hlT, cmpInt, mul_test_pn h0.1 h2]
      · have := s1 (by omega) (by omega)
        have : ¬ l * r < (usualArith L R).lowest := by omega
        simp only [h1, h2, decide_false, Bool.false_eq_true, ite_false, this]
  · have := (mul_inRange_of_digits hl hr hlT hrT hg hd).1
    have : ¬ l * r < (usualArith L R).lowest := by omega
    simp only [hd, decide_false, andThen, Bool.false_eq_true, ite_false, this]

end portable_mul

/-! ## the portable path assembled -/

section portable_all
variable {tag : OvTag} (ht : tag ≠ .nat) {L R : IntTy} (hL : 1 ≤ L.bits) (hR : 1 ≤ R.bits) {l r : Int}
  (hl : L.InRange l) (hr : R.InRange r)
  (hlT : (usualArith L R).InRange l) (hrT : (usualArith L R).InRange r)
include ht hL hR hl hr hlT hrT

theorem portable_add_fits :
    checkedBin .portable tag .add (L, l) (R, r) = checkedWant tag (usualArith L R) (l + r) := by
  have htag : (tag == OvTag.nat) = false := by simpa using ht
  have hT1 : 1 ≤ (usualArith L R).bits := by have := usualArith_bits_ge L R; omega
  simp only [checkedBin, htag, hasBuiltin_portable, binResultTy, Bool.false_eq_true, ite_false,
    add_pos_eq hL hR hl hr hlT hrT, add_neg_eq hL hR hl hr hlT hrT, Res.bind_ok]
  by_cases hp : l + r > (usualArith L R).max
  · simp only [hp, decide_true, ite_true]; exact (want_pos ht hp).symm
  · by_cases hn : l + r < (usualArith L R).lowest
    · simp only [hp, hn, decide_true, decide_false, Bool.false_eq_true, ite_false, ite_true, Res.bind_ok]
      exact (want_neg ht hn).symm
    · have he : (usualArith L R).InRange (l + r) := ⟨by omega, by omega⟩
      simp only [hp, hn, decide_false, Bool.false_eq_true, ite_false, Res.bind_ok, cAdd_ev rfl hT1 hlT hrT he]
      exact (want_in he).symm

theorem portable_sub_fits :
    checkedBin .portable tag .sub (L, l) (R, r) = checkedWant tag (usualArith L R) (l - r) := by
  have htag : (tag == OvTag.nat) = false := by simpa using ht
  have hT1 : 1 ≤ (usualArith L R).bits := by have := usualArith_bits_ge L R; omega
  simp only [checkedBin, htag, hasBuiltin_portable, binResultTy, Bool.false_eq_true, ite_false,
    sub_pos_eq hL hR hl hr hlT hrT, sub_neg_eq hL hR hl hr hlT hrT, Res.bind_ok]
  by_cases hp : l - r > (usualArith L R).max
  · simp only [hp, decide_true, ite_true]; exact (want_pos ht hp).symm
  · by_cases hn : l - r < (usualArith L R).lowest
    · simp only [hp, hn, decide_true, decide_false, Bool.false_eq_true, ite_false, ite_true, Res.bind_ok]
      exact (want_neg ht hn).symm
    · have he : (usualArith L R).InRange (l - r) := ⟨by omega, by omega⟩
      simp only [hp, hn, decide_false, Bool.false_eq_true, ite_false, Res.bind_ok, cSub_ev rfl hT1 hlT hrT he]
      exact (want_in he).symm

theorem portable_mul_fits (hg : ¬ MulGuardExact L R) :
    checkedBin .portable tag .mul (L, l) (R, r) = checkedWant tag (usualArith L R) (l * r) := by
  have htag : (tag == OvTag.nat) = false := by simpa using ht
  have hT1 : 1 ≤ (usualArith L R).bits := by have := usualArith_bits_ge L R; omega
  simp only [checkedBin, htag, hasBuiltin_portable, binResultTy, Bool.false_eq_true, ite_false,
    mul_pos_eq hL hR hl hr hlT hrT hg, mul_neg_eq hL hR hl hr hlT hrT hg, Res.bind_ok]
  by_cases hp : l * r > (usualArith L R).max
  · simp only [hp, decide_true, ite_true]; exact (want_pos ht hp).symm
  · by_cases hn : l * r < (usualArith L R).lowest
    · simp only [hp, hn, decide_true, decide_false, Bool.false_eq_true, ite_false, ite_true, Res.bind_ok]
      exact (want_neg ht hn).symm
    · have he : (usualArith L R).InRange (l * r) := ⟨by omega, by omega⟩
      simp only [hp, hn, decide_false, Bool.false_eq_true, ite_false, Res.bind_ok, cMul_ev rfl hT1 hlT hrT he]
      exact (want_in he).symm

end portable_all

/-- widths that are multiples of 8 (all built-in types) never hit the weak multiplication guard -/
theorem not_mulGuardExact_of_bytes {L R : IntTy} (hL : 8 ∣ L.bits) (hR : 8 ∣ R.bits) (hL0 : 1 ≤ L.bits)
    (hR0 : 1 ≤ R.bits) : ¬ MulGuardExact L R := by
  intro ⟨h1, h2, h3⟩
  rw [usualArith_key] at h3
  have e1 : L.digits = L.bits - 1 := by simp [IntTy.digits, h1]
  have e2 : R.digits = R.bits - 1 := by simp [IntTy.digits, h2]
  have p1 : (promote L).digits = (promote L).bits - 1 := by simp [IntTy.digits, promote_signed_of_signed h1]
  have p2 : (promote R).digits = (promote R).bits - 1 := by simp [IntTy.digits, promote_signed_of_signed h2]
  have q1 : (promote L).bits = if L.bits < 32 then 32 else L.bits := by unfold promote; split <;> simp [i32]
  have q2 : (promote R).bits = if R.bits < 32 then 32 else R.bits := by unfold promote; split <;> simp [i32]
  have k1 : key (promote L) = 2 * (promote L).bits := by simp [key, promote_signed_of_signed h1]
  have k2 : key (promote R) = 2 * (promote R).bits := by simp [key, promote_signed_of_signed h2]
  obtain ⟨a, ha⟩ := hL
  obtain ⟨b, hb⟩ := hR
  split at h3 <;> split at q1 <;> split at q2 <;> omega


/-! ## integer facts used by the shift tests -/

theorem shl_test_pos {l a b : Int} (ha : 0 < a) (hb : 0 < b) (hl : 0 < l) :
    l / a ≠ 0 ↔ l * b > a * b - 1 := by
  have h1 : 0 ≤ l / a := Int.ediv_nonneg (by omega) (by omega)
  have h2 := Int.ediv_lt_iff_lt_mul (a := l) (b := 1) ha
  have h3 := Int.mul_le_mul_right (a := b) (b := a) (c := l) hb
  rw [Int.one_mul] at h2
  omega

theorem shl_test_neg {l a b : Int} (ha : 0 < a) (hb : 0 < b) (hl : l < 0) :
    l / a ≠ -1 ↔ l * b < -(a * b) := by
  have h1 : l / a < 0 := Int.ediv_neg_of_neg_of_pos hl ha
  have h2 := Int.ediv_lt_iff_lt_mul (a := l) (b := -1) ha
  have h3 := Int.mul_lt_mul_right (a := b) (b := l) (c := -a) hb
  rw [Int.neg_mul, Int.one_mul] at h2
  rw [Int.neg_mul] at h3
  omega

theorem shr_pos_bounds {l a : Int} (ha : 0 < a) (hl : 0 ≤ l) : 0 ≤ l / a ∧ l / a ≤ l := by
  have h1 : 0 ≤ l / a := Int.ediv_nonneg hl (by omega)
  have ⟨e1, e2, e3⟩ := ediv_emod_facts l a ha
  have : l / a ≤ a * (l / a) := by
    have := Int.mul_le_mul_of_nonneg_right (show 1 ≤ a by omega) h1
    omega
  omega

theorem shr_neg_bounds {l a : Int} (ha : 0 < a) (hl : l < 0) : l ≤ l / a ∧ l / a ≤ -1 := by
  have h1 : l / a < 0 := Int.ediv_neg_of_neg_of_pos hl ha
  refine ⟨Int.le_ediv_of_mul_le ha ?_, by omega⟩
  have := Int.mul_le_mul_of_nonneg_right (show 1 ≤ a by omega) (show 0 ≤ -l by omega)
  rw [Int.mul_neg, Int.mul_neg, Int.mul_comm a l] at this
  omega

theorem mul_pow_ge {l b : Int} (hb : 0 < b) (hl : 1 ≤ l) : b ≤ l * b := by
  have := Int.mul_le_mul_of_nonneg_right hl (show 0 ≤ b by omega); omega

theorem mul_pow_le {l b : Int} (hb : 0 < b) (hl : l ≤ -1) : l * b ≤ -b := by
  have := Int.mul_le_mul_of_nonneg_right hl (show 0 ≤ b by omega); omega

theorem mul_pow_le2 {l b : Int} (hb : 0 < b) (hl : l ≤ -2) : l * b ≤ -2 * b := by
  exact Int.mul_le_mul_of_nonneg_right hl (show 0 ≤ b by omega)


/-! ## left shift -/

theorem usualArith_i32_left (A : IntTy) : usualArith i32 A = promote A := by
  rw [usualArith_key]
  have := key_promote_ge A
  have h64 : key (promote i32) = 64 := by decide
  split
  · apply key_inj; omega
  · rfl

theorem cShr_ev {A B : IntTy} {v : Int} {k : Nat} (hk : k < (promote A).bits) :
    cBin .shr (A, v) (B, (k : Int)) = .ok (promote A, v / 2^k) := by
  have : ¬((k : Int) < 0 ∨ (k : Int) ≥ (promote A).bits) := by omega
  simp only [cBin, this, ite_false, Int.toNat_natCast]

theorem cShl_ev {A B : IntTy} {v : Int} {k : Nat} (hk : k < (promote A).bits) :
    cBin .shl (A, v) (B, (k : Int)) = .ok (promote A, (promote A).wrap (v * 2^k)) := by
  have : ¬((k : Int) < 0 ∨ (k : Int) ≥ (promote A).bits) := by omega
  simp only [cBin, this, ite_false, Int.toNat_natCast]

theorem promote_bits_le_int {L : IntTy} (hw : L.bits ≤ 2147483647) : (promote L).bits ≤ 2147483647 := by
  unfold promote; split
  · simp [i32]
  · exact hw

theorem hasMostNegative_signed {T : IntTy} (hs : T.signed = true) : hasMostNegative T = true := by
  simp only [hasMostNegative, hs, IntTy.lowest, IntTy.max, ite_true, Bool.true_and, decide_eq_true_eq]
  omega

theorem max_promote_bits (L : IntTy) : max (promote L).bits L.bits = (promote L).bits :=
  Nat.max_eq_left (promote_bits_le L)

theorem isShift_shl : isShift .shl = true := by decide
theorem isShift_shr : isShift .shr = true := by decide

section shl
variable {L R : IntTy} (hL : 1 ≤ L.bits) (hR : 1 ≤ R.bits) (hw : L.bits ≤ 2147483647) {l : Int} {j : Nat}
  (hl : L.InRange l) (hr : R.InRange (j : Int))
include hL hR hw hl hr

theorem shl_pos_eq :
    isOverflowBin .shl true (L, l) (R, (j : Int)) = .ok (decide (l * 2^j > (promote L).max)) := by
  have hT1 := promote_bits_ge hL
  have hlT := promote_inRange hL hl
  have hl1 := hlT.1; have hl2 := hlT.2
  have hrP := promote_inRange hR hr
  have hPR1 := promote_bits_ge hR
  have h0 := zero_le_max (promote L)
  have h0R := zero_le_max (promote R)
  have hz : (promote L).InRange 0 := ⟨h0.1, h0.2⟩
  have hz' : (promote (promote L)).InRange 0 := by rw [promote_promote]; exact hz
  have hzR : (promote R).InRange 0 := ⟨h0R.1, h0R.2⟩
  have hdb := digits_le_bits (promote L)
  have hbits := promote_bits_le_int hw
  have hR32 := (lo_hi (promote R) (promote_bits_ge32 R)).2
  have hdR : (promote R).InRange ((promote L).digits : Int) := ⟨by omega, by omega⟩
  have hpj := two_pow_pos j
  have hmax := IntTy.max_eq (promote L)
  simp only [isOverflowBin, binResultTy, posDigits, cmp_lit hL .gt hl hz, cmp_lit hR .gt hr hzR,
    cmp_lit hR .lt hr hdR, cmpInt, andThen]
  by_cases h1 : l > 0
  · by_cases h2 : (j : Int) > 0
    · by_cases h3 : (j : Int) < (promote L).digits
      · have hk : (promote R).InRange (((promote L).digits : Int) - j) := ⟨by omega, by omega⟩
        have hsub := cSub_ev (usualArith_i32_left R) hPR1 hdR hrP hk
        have ek : ((promote L).digits : Int) - j = (((promote L).digits - j : Nat) : Int) := by omega
        have hkb : (promote L).digits - j < (promote L).bits := by omega
        have hpk := two_pow_pos ((promote L).digits - j)
        have ⟨b1, b2⟩ := shr_pos_bounds (l := l) hpk (by omega)
        have hs : (promote L).InRange (l / 2^((promote L).digits - j)) := ⟨by omega, by omega⟩
        have e2 : (2:Int)^(promote L).digits = 2^((promote L).digits - j) * 2^j := by
          rw [← two_pow_add]; congr 1; omega
        have ht := shl_test_pos (l := l) hpk hpj h1
        rw [← e2, ← hmax] at ht
        simp only [h1, h2, h3, decide_true, ite_true, lit, hsub, Res.bind_ok, ek, cShr_ev hkb, Res.pure_eq]
        rw [show ((i32, (0:Int)) : TV) = lit 0 from rfl, cmp_lit hT1 .ne hs hz']
        simp only [cmpInt, ht]
      · have hge : (promote L).digits ≤ j := by omega
        have := two_pow_le hge
        have := mul_pow_ge hpj (show 1 ≤ l by omega)
        have : l * 2^j > (promote L).max := by omega
        simp only [h1, h2, h3, decide_true, decide_false, ite_true, Bool.false_eq_true, ite_false, this]
    · have hj0 : j = 0 := by omega
      subst hj0
      have : ¬ l * 2^0 > (promote L).max := by simp; omega
      simp only [h1, h2, decide_true, decide_false, ite_true, Bool.false_eq_true, ite_false, this]
  · have := (mul_sign_facts l (2^j)).2.2.2 (by omega) (by omega)
    have : ¬ l * 2^j > (promote L).max := by omega
    simp only [h1, decide_false, Bool.false_eq_true, ite_false, this]

theorem shl_neg_eq :
    isOverflowBin .shl false (L, l) (R, (j : Int)) = .ok (decide (l * 2^j < (promote L).lowest)) := by
  have hT1 := promote_bits_ge hL
  have hlT := promote_inRange hL hl
  have hl1 := hlT.1; have hl2 := hlT.2
  have hrP := promote_inRange hR hr
  have hPR1 := promote_bits_ge hR
  have h0 := zero_le_max (promote L)
  have h0R := zero_le_max (promote R)
  have hzR : (promote R).InRange 0 := ⟨h0R.1, h0R.2⟩
  have hdb := digits_le_bits (promote L)
  have hbits := promote_bits_le_int hw
  have hR32 := (lo_hi (promote R) (promote_bits_ge32 R)).2
  have hpj := two_pow_pos j
  have hlow := IntTy.lowest_eq (promote L)
  simp only [isOverflowBin, binResultTy, posDigits]
  by_cases hLs : L.signed = true
  · have hTs := promote_signed_of_signed hLs
    have hbd := IntTy.bits_eq_digits_succ hTs hT1
    have hdR : (promote R).InRange ((promote L).digits : Int) := ⟨by omega, by omega⟩
    have hdR1 : (promote R).InRange (((promote L).digits : Int) + 1) := ⟨by omega, by omega⟩
    have hm1 : (promote L).InRange (-1) := by
      have := minus_one_inRange hLs; exact this
    have hm1' : (promote (promote L)).InRange (-1) := by rw [promote_promote]; exact hm1
    simp only [hTs, ite_true] at hlow
    simp only [hLs, hasMostNegative_signed hTs, ite_true, Bool.not_true, Bool.false_eq_true, ite_false,
      cmp_lit hL .lt hl (by
      have := zero_le_max (promote L); exact ⟨this.1, this.2⟩), cmp_lit hR .gt hr hzR,
      cmp_lit hR .lt hr hdR1, cmpInt, andThen]
    by_cases h1 : l < 0
    · by_cases h2 : (j : Int) > 0
      · by_cases h3 : (j : Int) < (promote L).digits + 1
        · have hk : (promote R).InRange (((promote L).digits : Int) - j) := ⟨by omega, by omega⟩
          have hsub := cSub_ev (usualArith_i32_left R) hPR1 hdR hrP hk
          have ek : ((promote L).digits : Int) - j = (((promote L).digits - j : Nat) : Int) := by omega
          have hkb : (promote L).digits - j < (promote L).bits := by omega
          have hpk := two_pow_pos ((promote L).digits - j)
          have ⟨b1, b2⟩ := shr_neg_bounds (l := l) hpk h1
          have hs : (promote L).InRange (l / 2^((promote L).digits - j)) := ⟨by omega, by omega⟩
          have e2 : (2:Int)^(promote L).digits = 2^((promote L).digits - j) * 2^j := by
            rw [← two_pow_add]; congr 1; omega
          have ht := shl_test_neg (l := l) hpk hpj h1
          rw [← e2, ← hlow] at ht
          simp only [h1, h2, h3, decide_true, ite_true, lit, hsub, Res.bind_ok, ek, cShr_ev hkb, Res.pure_eq]
          rw [show ((i32, (-1:Int)) : TV) = lit (-1) from rfl, cmp_lit hT1 .ne hs hm1']
          simp only [cmpInt, ht]
        · have : l * 2^j < (promote L).lowest := by
            have := two_pow_le (show (promote L).digits + 1 ≤ j by omega)
            rw [two_pow_succ] at this
            have := mul_pow_le hpj (show l ≤ -1 by omega)
            have := pow_digits_pos (promote L)
            omega
          simp only [h1, h2, h3, decide_true, decide_false, ite_true, Bool.false_eq_true, ite_false, this]
      · have hj0 : j = 0 := by omega
        subst hj0
        have : ¬ l * 2^0 < (promote L).lowest := by simp; omega
        simp only [h1, h2, decide_true, decide_false, ite_true, Bool.false_eq_true, ite_false, this]
    · have := (mul_sign_facts l (2^j)).1 (by omega) (by omega)
      have : ¬ l * 2^j < (promote L).lowest := by omega
      simp only [h1, decide_false, Bool.false_eq_true, ite_false, this]
  · have hLu : L.signed = false := by simpa using hLs
    have := nonneg_of_unsigned hLu hl
    have := (mul_sign_facts l (2^j)).1 (by omega) (by omega)
    have : ¬ l * 2^j < (promote L).lowest := by omega
    simp only [hLu, Bool.not_false, ite_true, this, decide_false]

/-- the as-found negative test is exact outside `-1 << digits` -/
theorem shl_neg_orig_eq (hm : ¬(l = -1 ∧ j = (promote L).digits)) :
    isOverflowShlNegOrig (L, l) (R, (j : Int)) = .ok (decide (l * 2^j < (promote L).lowest)) := by
  have hT1 := promote_bits_ge hL
  have hlT := promote_inRange hL hl
  have hl1 := hlT.1; have hl2 := hlT.2
  have hrP := promote_inRange hR hr
  have hPR1 := promote_bits_ge hR
  have h0 := zero_le_max (promote L)
  have h0R := zero_le_max (promote R)
  have hzR : (promote R).InRange 0 := ⟨h0R.1, h0R.2⟩
  have hdb := digits_le_bits (promote L)
  have hbits := promote_bits_le_int hw
  have hR32 := (lo_hi (promote R) (promote_bits_ge32 R)).2
  have hdR : (promote R).InRange ((promote L).digits : Int) := ⟨by omega, by omega⟩
  have hpj := two_pow_pos j
  have hlow := IntTy.lowest_eq (promote L)
  simp only [isOverflowShlNegOrig, binResultTy, posDigits]
  by_cases hLs : L.signed = true
  · have hTs := promote_signed_of_signed hLs
    have hm1 : (promote L).InRange (-1) := by
      have := minus_one_inRange hLs; exact this
    have hm1' : (promote (promote L)).InRange (-1) := by rw [promote_promote]; exact hm1
    simp only [hTs, ite_true] at hlow
    simp only [hLs, Bool.not_true, Bool.false_eq_true, ite_false, cmp_lit hL .lt hl (by
      have := zero_le_max (promote L); exact ⟨this.1, this.2⟩), cmp_lit hR .gt hr hzR,
      cmp_lit hR .lt hr hdR, cmpInt, andThen]
    by_cases h1 : l < 0
    · by_cases h2 : (j : Int) > 0
      · by_cases h3 : (j : Int) < (promote L).digits
        · have hk : (promote R).InRange (((promote L).digits : Int) - j) := ⟨by omega, by omega⟩
          have hsub := cSub_ev (usualArith_i32_left R) hPR1 hdR hrP hk
          have ek : ((promote L).digits : Int) - j = (((promote L).digits - j : Nat) : Int) := by omega
          have hkb : (promote L).digits - j < (promote L).bits := by omega
          have hpk := two_pow_pos ((promote L).digits - j)
          have ⟨b1, b2⟩ := shr_neg_bounds (l := l) hpk h1
          have hs : (promote L).InRange (l / 2^((promote L).digits - j)) := ⟨by omega, by omega⟩
          have e2 : (2:Int)^(promote L).digits = 2^((promote L).digits - j) * 2^j := by
            rw [← two_pow_add]; congr 1; omega
          have ht := shl_test_neg (l := l) hpk hpj h1
          rw [← e2, ← hlow] at ht
          simp only [h1, h2, h3, decide_true, ite_true, lit, hsub, Res.bind_ok, ek, cShr_ev hkb, Res.pure_eq]
          rw [show ((i32, (-1:Int)) : TV) = lit (-1) from rfl, cmp_lit hT1 .ne hs hm1']
          simp only [cmpInt, ht]
        · have hge : (promote L).digits ≤ j := by omega
          have : l * 2^j < (promote L).lowest := by
            by_cases hj : j = (promote L).digits
            · have := mul_pow_le2 hpj (show l ≤ -2 by omega)
              rw [hj] at this hpj ⊢; omega
            · have := two_pow_le (show (promote L).digits + 1 ≤ j by omega)
              rw [two_pow_succ] at this
              have := mul_pow_le hpj (show l ≤ -1 by omega)
              have := pow_digits_pos (promote L)
              omega
          simp only [h1, h2, h3, decide_true, decide_false, ite_true, Bool.false_eq_true, ite_false, this]
      · have hj0 : j = 0 := by omega
        subst hj0
        have : ¬ l * 2^0 < (promote L).lowest := by simp; omega
        simp only [h1, h2, decide_true, decide_false, ite_true, Bool.false_eq_true, ite_false, this]
    · have := (mul_sign_facts l (2^j)).1 (by omega) (by omega)
      have : ¬ l * 2^j < (promote L).lowest := by omega
      simp only [h1, decide_false, Bool.false_eq_true, ite_false, this]
  · have hLu : L.signed = false := by simpa using hLs
    have := nonneg_of_unsigned hLu hl
    have := (mul_sign_facts l (2^j)).1 (by omega) (by omega)
    have : ¬ l * 2^j < (promote L).lowest := by omega
    simp only [hLu, Bool.not_false, ite_true, this, decide_false]

/-- the as-found negative test agrees with the repaired one except at `-1 << digits` -/
theorem shl_neg_orig_minus_one (hm : l = -1 ∧ j = (promote L).digits) :
    isOverflowShlNegOrig (L, l) (R, (j : Int)) = .ok true := by
  obtain ⟨rfl, rfl⟩ := hm
  have hLs : L.signed = true := by
    by_cases h : L.signed = true
    · exact h
    · have := nonneg_of_unsigned (by simpa using h) hl; omega
  have hrP := promote_inRange hR hr
  have h0R := zero_le_max (promote R)
  have hzR : (promote R).InRange 0 := ⟨h0R.1, h0R.2⟩
  have h0 := zero_le_max (promote L)
  have hz : (promote L).InRange 0 := ⟨h0.1, h0.2⟩
  have hd31 : 31 ≤ (promote L).digits := by
    have := promote_bits_ge32 L
    have := IntTy.bits_eq_digits_succ (promote_signed_of_signed hLs) (promote_bits_ge hL)
    omega
  simp only [isOverflowShlNegOrig, binResultTy, posDigits, hLs, Bool.not_true, Bool.false_eq_true, ite_false,
    cmp_lit hL .lt hl hz, cmp_lit hR .gt hr hzR, cmp_lit hR .lt hr hrP, cmpInt, andThen]
  have h1 : ((promote L).digits : Int) > 0 := by omega
  have h2 : (promote L).digits ≠ 0 := by omega
  simp [h1, h2]

/-- a non-zero left operand whose exact product is in range was shifted by less than the width -/
theorem shl_count_lt_bits (hl0 : l ≠ 0) (he : (promote L).InRange (l * 2^j)) : j < (promote L).bits := by
  have hT1 := promote_bits_ge hL
  have hlT := promote_inRange hL hl
  have hpj := two_pow_pos j
  have hmax := IntTy.max_eq (promote L)
  have hlow := IntTy.lowest_eq (promote L)
  have hdb := digits_le_bits (promote L)
  have he1 := he.1; have he2 := he.2
  by_cases hlp : l > 0
  · by_cases hge : (promote L).digits ≤ j
    · have := two_pow_le hge
      have := mul_pow_ge hpj (show 1 ≤ l by omega)
      omega
    · omega
  · have hTs : (promote L).signed = true := by
      by_cases h : (promote L).signed = true
      · exact h
      · have := nonneg_of_unsigned (by simpa using h) hlT; omega
    have hb := IntTy.bits_eq_digits_succ hTs hT1
    simp only [hTs, ite_true] at hlow
    by_cases hge : (promote L).digits + 1 ≤ j
    · have := two_pow_le hge
      rw [two_pow_succ] at this
      have := mul_pow_le hpj (show l ≤ -1 by omega)
      have := pow_digits_pos (promote L)
      omega
    · omega

/-- `<<` under a reacting tag, every operand type pair, every count `j ≥ 0`: the outcome the tag
prescribes for `l · 2^j` in the promoted left operand type (no excluded class after the repairs) -/
theorem checkedBin_shl_eq (path : Path) {tag : OvTag} (ht : tag ≠ .nat) :
    checkedBin path tag .shl (L, l) (R, (j : Int)) = checkedWant tag (promote L) (l * 2^j) := by
  have htag : (tag == OvTag.nat) = false := by simpa using ht
  have hT1 := promote_bits_ge hL
  have hlT := promote_inRange hL hl
  have h0 := zero_le_max (promote L)
  have hpj := two_pow_pos j
  have hbits := promote_bits_le_int hw
  have hR32 := (lo_hi (promote R) (promote_bits_ge32 R)).2
  have h0R := zero_le_max (promote R)
  have hbR : (promote R).InRange ((promote L).bits : Int) := ⟨by omega, by omega⟩
  have hzL : (promote L).InRange 0 := ⟨h0.1, h0.2⟩
  simp only [checkedBin, htag, hasBuiltin_shl, binResultTy, Bool.false_eq_true, ite_false,
    shl_pos_eq hL hR hw hl hr, shl_neg_eq hL hR hw hl hr, Res.bind_ok, isShift_shl, Bool.true_and,
    max_promote_bits, cmp_lit hR .ge hr hbR, cmp_lit hL .lt hl hzL, cmpInt]
  by_cases hp : l * 2^j > (promote L).max
  · simp only [hp, decide_true, ite_true]; exact (want_pos ht hp).symm
  · by_cases hn : l * 2^j < (promote L).lowest
    · simp only [hp, hn, decide_true, decide_false, Bool.false_eq_true, ite_false, ite_true, Res.bind_ok]
      exact (want_neg ht hn).symm
    · have he : (promote L).InRange (l * 2^j) := ⟨by omega, by omega⟩
      by_cases hjb : j < (promote L).bits
      · have hc : ¬ ((j : Int) ≥ (promote L).bits) := by omega
        simp only [hp, hn, hc, decide_false, Bool.and_false, Bool.false_eq_true, ite_false, Res.bind_ok,
          cShl_ev hjb, IntTy.wrap_id hT1 he]
        exact (want_in he).symm
      · have hl0 : l = 0 := by
          by_cases h : l = 0
          · exact h
          · exact absurd (shl_count_lt_bits hL hR hw hl hr h he) hjb
        subst hl0
        have hc : (j : Int) ≥ (promote L).bits := by omega
        have hlt : ¬ ((0 : Int) < 0) := by omega
        simp only [hp, hn, hc, hlt, decide_true, decide_false, Bool.and_true, isShift_shl,
          Bool.false_eq_true, ite_false, ite_true, Res.bind_ok, lit, convert, IntTy.wrap_id hT1 hzL]
        rw [Int.zero_mul] at he ⊢
        exact (want_in he).symm

/-- outside the two repaired classes the as-found tagged `<<` is the repaired one -/
theorem checkedShiftOrig_shl_eq (path : Path) {tag : OvTag}
    (hz : ¬(l = 0 ∧ j ≥ (promote L).bits)) (hm : ¬(l = -1 ∧ j = (promote L).digits)) :
    checkedShiftOrig tag .shl (L, l) (R, (j : Int)) = checkedBin path tag .shl (L, l) (R, (j : Int)) := by
  by_cases htn : tag = .nat
  · subst htn; simp [checkedShiftOrig, checkedBin]
  · have htag : (tag == OvTag.nat) = false := by simpa using htn
    have hbits := promote_bits_le_int hw
    have hR32 := (lo_hi (promote R) (promote_bits_ge32 R)).2
    have h0R := zero_le_max (promote R)
    have h0 := zero_le_max (promote L)
    have hbR : (promote R).InRange ((promote L).bits : Int) := ⟨by omega, by omega⟩
    have hzL : (promote L).InRange 0 := ⟨h0.1, h0.2⟩
    simp only [checkedShiftOrig, checkedBin, htag, hasBuiltin_shl, binResultTy, Bool.false_eq_true, ite_false,
      shl_pos_eq hL hR hw hl hr, shl_neg_eq hL hR hw hl hr, shl_neg_orig_eq hL hR hw hl hr hm, Res.bind_ok,
      isShift_shl, Bool.true_and, max_promote_bits, cmp_lit hR .ge hr hbR, cmp_lit hL .lt hl hzL, cmpInt,
      beq_self_eq_true, ite_true]
    by_cases hp : l * 2^j > (promote L).max
    · simp only [hp, decide_true, ite_true]
    · by_cases hn : l * 2^j < (promote L).lowest
      · simp only [hp, hn, decide_true, decide_false, Bool.false_eq_true, ite_false, ite_true, Res.bind_ok]
      · have he : (promote L).InRange (l * 2^j) := ⟨by omega, by omega⟩
        have hjb : j < (promote L).bits := by
          by_cases h : l = 0
          · omega
          · exact shl_count_lt_bits hL hR hw hl hr h he
        have hc : ¬ ((j : Int) ≥ (promote L).bits) := by omega
        simp only [hp, hn, hc, decide_false, Bool.false_eq_true, ite_false, Res.bind_ok]

/-- `>>` under a reacting tag, every operand type pair, every count `j ≥ 0` (counts at and beyond the
width included): the floor quotient `l / 2^j` in the promoted left operand type, never a signal -/
theorem checkedBin_shr_eq (path : Path) {tag : OvTag} (ht : tag ≠ .nat) :
    checkedBin path tag .shr (L, l) (R, (j : Int)) = .ok (promote L, l / 2^j) := by
  have htag : (tag == OvTag.nat) = false := by simpa using ht
  have hT1 := promote_bits_ge hL
  have hlT := promote_inRange hL hl
  have h0 := zero_le_max (promote L)
  have hpj := two_pow_pos j
  have hbits := promote_bits_le_int hw
  have hR32 := (lo_hi (promote R) (promote_bits_ge32 R)).2
  have h0R := zero_le_max (promote R)
  have hbR : (promote R).InRange ((promote L).bits : Int) := ⟨by omega, by omega⟩
  have hzL : (promote L).InRange 0 := ⟨h0.1, h0.2⟩
  simp only [checkedBin, htag, hasBuiltin_shr, binResultTy, Bool.false_eq_true, ite_false,
    isOverflowBin, Res.bind_ok, isShift_shr, Bool.true_and, max_promote_bits,
    cmp_lit hR .ge hr hbR, cmp_lit hL .lt hl hzL, cmpInt]
  by_cases hjb : j < (promote L).bits
  · have hc : ¬ ((j : Int) ≥ (promote L).bits) := by omega
    simp only [hc, decide_false, Bool.and_false, Bool.false_eq_true, ite_false, cShr_ev hjb]
  · have hc : (j : Int) ≥ (promote L).bits := by omega
    -- every bit is shifted out: |l| < 2^(bits-1) ≤ 2^j
    have hmax := IntTy.max_eq (promote L)
    have hlow := IntTy.lowest_eq (promote L)
    have hdb := digits_le_bits (promote L)
    have hpd := pow_digits_pos (promote L)
    have hle := two_pow_le (show (promote L).digits ≤ j by omega)
    have hl1 := hlT.1; have hl2 := hlT.2
    by_cases hneg : l < 0
    · have hTs : (promote L).signed = true := by
        by_cases h : (promote L).signed = true
        · exact h
        · have := nonneg_of_unsigned (by simpa using h) hlT; omega
      simp only [hTs, ite_true] at hlow
      have hm1 : (promote L).InRange (-1) := ⟨by omega, by omega⟩
      have hq : l / 2^j = -1 := by
        have h1 := Int.ediv_neg_of_neg_of_pos hneg hpj
        have h2 : -1 ≤ l / 2^j := Int.le_ediv_of_mul_le hpj (by omega)
        omega
      simp only [hc, hneg, decide_true, Bool.and_true, isShift_shr, ite_true, lit, convert,
        IntTy.wrap_id hT1 hm1, hq]
    · have hq : l / 2^j = 0 := Int.ediv_eq_zero_of_lt (by omega) (by
        split at hlow <;> omega)
      simp only [hc, hneg, decide_true, decide_false, Bool.and_true, isShift_shr, Bool.false_eq_true,
        ite_true, ite_false, lit, convert, IntTy.wrap_id hT1 hzL, hq]

end shl

/-! ## totality (C07) -/

/-- the three checked tags -/
def Checked (tag : OvTag) : Prop := tag = .sat ∨ tag = .thr ∨ tag = .trp

instance (tag : OvTag) : Decidable (Checked tag) := by unfold Checked; exact inferInstance

theorem Checked.ne_nat {tag : OvTag} (h : Checked tag) : tag ≠ .nat := by
  rcases h with h | h | h <;> subst h <;> decide

theorem react_defined {tag : OvTag} (h : Checked tag) (pos : Bool) (T : IntTy) :
    Good (react tag pos T) := by
  rcases h with h | h | h <;> subst h <;> exact ⟨rfl, fun _ h => by cases h⟩

def IsOk {α : Type} (x : Res α) : Prop := ∃ a, x = .ok a

theorem isOk_ok {α : Type} (a : α) : IsOk (Res.ok a) := ⟨a, rfl⟩

theorem andThen_isOk {a : Bool} {b : Res Bool} (h : a = true → IsOk b) : IsOk (andThen a b) := by
  cases a
  · exact ⟨false, rfl⟩
  · exact h rfl

theorem ite_isOk {α : Type} {c : Prop} [Decidable c] {x y : Res α} (hx : c → IsOk x) (hy : ¬c → IsOk y) :
    IsOk (if c then x else y) := by
  by_cases h : c
  · simp only [h, ite_true]; exact hx h
  · simp only [h, ite_false]; exact hy h

/-- the tagged operator on the portable branch is defined as soon as both tests return and the
built-in operator is defined whenever neither test fires -/
theorem checkedBin_defined {path : Path} {tag : OvTag} (ht : Checked tag) {op : BinOp} {x y : TV}
    (hB : hasBuiltin path op = false) (hS : isShift op = false)
    (hP : IsOk (isOverflowBin op true x y)) (hN : IsOk (isOverflowBin op false x y))
    (hC : isOverflowBin op true x y = .ok false → isOverflowBin op false x y = .ok false →
      Good (cBin op x y)) :
    Good (checkedBin path tag op x y) := by
  have htag : (tag == OvTag.nat) = false := by simpa using ht.ne_nat
  obtain ⟨p, hp⟩ := hP
  obtain ⟨n, hn⟩ := hN
  simp only [checkedBin, htag, hB, hp, hn, Bool.false_eq_true, ite_false, Res.bind_ok]
  cases p
  · cases n
    · simp only [hS, Bool.false_and, Bool.false_eq_true, ite_false, Res.bind_ok]; exact hC hp hn
    · simp only [Bool.false_eq_true, ite_false, ite_true, Res.bind_ok]; exact react_defined ht _ _
  · simp only [ite_true]; exact react_defined ht _ _

theorem arith_unsigned {T : IntTy} (hu : T.signed = false) (e : Int) : arith T e = .ok (T, T.wrap e) := by
  simp [arith, hu]

theorem cBin_unsigned_isOk {A B T : IntTy} (h : usualArith A B = T) (hu : T.signed = false) {op : BinOp}
    (hop : op = .add ∨ op = .sub ∨ op = .mul) (a b : Int) : IsOk (cBin op (A, a) (B, b)) := by
  rcases hop with e | e | e <;> subst e <;> simp only [cBin, h, arith_unsigned hu] <;> exact isOk_ok _

theorem cDiv_unsigned_isOk {A B T : IntTy} (h : usualArith A B = T) (hu : T.signed = false) {a b : Int}
    (hb : T.wrap b ≠ 0) : IsOk (cBin .div (A, a) (B, b)) := by
  simp only [cBin, h, hb, hu, arith_unsigned hu, ite_false, Bool.false_eq_true, false_and]
  exact isOk_ok _

theorem bind_isOk {α β : Type} {x : Res α} {f : α → Res β} (hx : IsOk x) (hf : ∀ a, IsOk (f a)) :
    IsOk (x >>= f) := by
  obtain ⟨a, rfl⟩ := hx
  exact hf a

theorem emod_ne_zero_of_small {r N : Int} (h1 : -N < r) (h2 : r < N) (h0 : r ≠ 0) : r % N ≠ 0 := by
  intro h
  have hd := Int.dvd_of_emod_eq_zero h
  exact h0 (Int.eq_zero_of_dvd_of_natAbs_lt_natAbs hd (by omega))

theorem usualArith_bits_ge_both (L R : IntTy) :
    L.bits ≤ (usualArith L R).bits ∧ R.bits ≤ (usualArith L R).bits := by
  have h1 := promote_bits_le L
  have h2 := promote_bits_le R
  rw [usualArith_key]
  by_cases hk : key (promote R) ≤ key (promote L)
  · simp only [hk, ite_true]
    unfold key at hk
    constructor
    · exact h1
    · split at hk <;> split at hk <;> omega
  · simp only [hk, ite_false]
    unfold key at hk
    constructor
    · split at hk <;> split at hk <;> omega
    · exact h2

/-- a non-zero operand stays non-zero when converted to the common type -/
theorem wrap_ne_zero_right {L R : IntTy} (hR : 1 ≤ R.bits) {r : Int} (hr : R.InRange r) (h0 : r ≠ 0) :
    (usualArith L R).wrap r ≠ 0 := by
  have hT1 : 1 ≤ (usualArith L R).bits := by have := usualArith_bits_ge L R; omega
  by_cases hfit : (usualArith L R).signed = false → R.signed = false
  · rw [IntTy.wrap_id hT1 (fits_right hfit hr)]; exact h0
  · have hTu : (usualArith L R).signed = false := by
      by_cases h : (usualArith L R).signed = false
      · exact h
      · exact absurd (fun h' => absurd h' h) hfit
    have hRs : R.signed = true := by
      by_cases h : R.signed = true
      · exact h
      · exact absurd (fun _ => by simpa using h) hfit
    have ⟨r1, r2, _⟩ := range_digits hr
    have hb := IntTy.bits_eq_digits_succ hRs hR
    have := two_pow_le (show R.digits + 1 ≤ (usualArith L R).bits by
      have := (usualArith_bits_ge_both L R).2; omega)
    rw [two_pow_succ] at this
    have := pow_digits_pos R
    simp only [IntTy.wrap, hTu, Bool.false_eq_true, ite_false]
    exact emod_ne_zero_of_small (by omega) (by omega) h0


theorem isOk_defined {α : Type} {x : Res α} (h : IsOk x) : Good x := by
  obtain ⟨a, rfl⟩ := h; exact good_ok a

section total
variable {tag : OvTag} (ht : Checked tag) {L R : IntTy} (hL : 1 ≤ L.bits) (hR : 1 ≤ R.bits) {l r : Int}
  (hl : L.InRange l) (hr : R.InRange r)
include hL hR hl hr

/-- with an unsigned common type every portable test of `+ - *` returns (unsigned arithmetic
wraps; the divisions inside the multiplication tests are guarded by `rhs ≠ 0`) -/
theorem isOverflow_isOk_unsigned (hu : (usualArith L R).signed = false) {op : BinOp}
    (hop : op = .add ∨ op = .sub ∨ op = .mul) (pos : Bool) :
    IsOk (isOverflowBin op pos (L, l) (R, r)) := by
  have hTR := (usualArith_absorb L R).2.1
  have hdiv : r ≠ 0 → ∀ a, IsOk (cBin .div ((usualArith L R), a) (R, r)) :=
    fun h0 a => cDiv_unsigned_isOk hTR hu (wrap_ne_zero_right hR hr h0)
  have hgt : cCmp .gt (R, r) (zero R) = true → r ≠ 0 := by
    rw [cmp_zero_same hR _ hr]; simp only [cmpInt, decide_eq_true_eq]; omega
  have hlt : cCmp .lt (R, r) (zero R) = true → r ≠ 0 := by
    rw [cmp_zero_same hR _ hr]; simp only [cmpInt, decide_eq_true_eq]; omega
  rcases hop with e | e | e <;> subst e <;> cases pos <;>
    simp only [isOverflowBin, binResultTy, tmax, tlow]
  · -- add, negative
    refine andThen_isOk fun _ => andThen_isOk fun _ => andThen_isOk fun _ =>
      bind_isOk (cBin_unsigned_isOk hTR hu (Or.inr (Or.inl rfl)) _ _) fun _ => isOk_ok _
  · refine andThen_isOk fun _ => andThen_isOk fun _ => andThen_isOk fun _ =>
      bind_isOk (cBin_unsigned_isOk hTR hu (Or.inr (Or.inl rfl)) _ _) fun _ => isOk_ok _
  · -- sub, negative
    refine andThen_isOk fun _ => andThen_isOk fun _ =>
      bind_isOk (cBin_unsigned_isOk hTR hu (Or.inl rfl) _ _) fun _ => isOk_ok _
  · refine andThen_isOk fun _ => andThen_isOk fun _ =>
      bind_isOk (cBin_unsigned_isOk hTR hu (Or.inl rfl) _ _) fun _ => isOk_ok _
  · -- mul, negative
    refine andThen_isOk fun _ => ite_isOk
      (fun _ => andThen_isOk fun h => bind_isOk (hdiv (hgt h) _) fun _ => isOk_ok _)
      (fun _ => andThen_isOk fun h => andThen_isOk fun _ => bind_isOk (hdiv (hlt h) _) fun _ => isOk_ok _)
  · refine andThen_isOk fun _ => ite_isOk
      (fun _ => andThen_isOk fun h => bind_isOk (hdiv (hgt h) _) fun _ => isOk_ok _)
      (fun _ => andThen_isOk fun h => bind_isOk (hdiv (hlt h) _) fun _ => isOk_ok _)

include ht

theorem builtin_arith_defined {op : BinOp} (hop : op = .add ∨ op = .sub ∨ op = .mul) :
    Good (checkedBin .builtin tag op (L, l) (R, r)) := by
  rcases hop with e | e | e <;> subst e
  · rw [builtin_add_eq ht.ne_nat hL hR hl hr]; exact want_defined ht _ _
  · rw [builtin_sub_eq ht.ne_nat hL hR hl hr]; exact want_defined ht _ _
  · rw [builtin_mul_eq ht.ne_nat hL hR hl hr]; exact want_defined ht _ _

theorem portable_arith_defined {op : BinOp} (hop : op = .add ∨ op = .sub ∨ op = .mul)
    (hg : op = .mul → ¬ MulGuardExact L R) :
    Good (checkedBin .portable tag op (L, l) (R, r)) := by
  by_cases hTs : (usualArith L R).signed = true
  · have hlT : (usualArith L R).InRange l := fits_left (fun h => by rw [hTs] at h; cases h) hl
    have hrT : (usualArith L R).InRange r := fits_right (fun h => by rw [hTs] at h; cases h) hr
    rcases hop with e | e | e <;> subst e
    · rw [portable_add_fits ht.ne_nat hL hR hl hr hlT hrT]; exact want_defined ht _ _
    · rw [portable_sub_fits ht.ne_nat hL hR hl hr hlT hrT]; exact want_defined ht _ _
    · rw [portable_mul_fits ht.ne_nat hL hR hl hr hlT hrT (hg rfl)]; exact want_defined ht _ _
  · have hu : (usualArith L R).signed = false := by simpa using hTs
    exact checkedBin_defined ht (hasBuiltin_portable _) (by rcases hop with e | e | e <;> subst e <;> rfl)
      (isOverflow_isOk_unsigned hL hR hl hr hu hop true) (isOverflow_isOk_unsigned hL hR hl hr hu hop false)
      (fun _ _ => isOk_defined (cBin_unsigned_isOk rfl hu hop _ _))

/-- division under a checked tag is defined for every type pair, mixed signedness included -/
theorem div_defined (path : Path) (hr0 : r ≠ 0) :
    Good (checkedBin path tag .div (L, l) (R, r)) := by
  have h32 := usualArith_bits_ge L R
  have hT1 : 1 ≤ (usualArith L R).bits := by omega
  have hLT : usualArith L (usualArith L R) = usualArith L R := (usualArith_absorb L R).2.2.1
  have hlm := lowest_max (usualArith L R)
  have h0 := zero_le_max (usualArith L R)
  apply checkedBin_defined ht (hasBuiltin_div path) rfl
  · simp only [isOverflowBin, rbool]
    exact ite_isOk (fun _ => andThen_isOk fun _ => isOk_ok _) (fun _ => isOk_ok _)
  · simp only [isOverflowBin]; exact isOk_ok _
  · intro hp _
    by_cases hTs : (usualArith L R).signed = true
    · have hlT : (usualArith L R).InRange l := fits_left (fun h => by rw [hTs] at h; cases h) hl
      have hrT : (usualArith L R).InRange r := fits_right (fun h => by rw [hTs] at h; cases h) hr
      simp only [hTs, ite_true] at hlm
      have hov' : ¬((usualArith L R).signed = true ∧ l = (usualArith L R).lowest ∧ r = -1) := by
        intro ⟨_, h1, h2⟩
        have hLs : L.signed = true := by
          by_cases h : L.signed = true
          · exact h
          · have := nonneg_of_unsigned (by simpa using h) hl; omega
        have hRs : R.signed = true := by
          by_cases h : R.signed = true
          · exact h
          · have := nonneg_of_unsigned (by simpa using h) hr; omega
        simp only [isOverflowBin, binResultTy, hLs, ite_true, andThen, rbool, tlow,
          cmp_lit hR .eq hr (minus_one_inRange hRs), cCmp_ev hLT hT1 .eq hlT (lowest_inRange _), cmpInt] at hp
        simp [h1, h2] at hp
      have hov : ¬(l = -(usualArith L R).max - 1 ∧ r = -1) := by
        intro ⟨h1, h2⟩; exact hov' ⟨hTs, by omega, h2⟩
      have hq := tdiv_inRange h32 hlT hrT hr0 hov
      rw [cDiv_ev rfl hT1 hlT hrT hr0 hov' hq]; exact good_ok _
    · have hu : (usualArith L R).signed = false := by simpa using hTs
      exact isOk_defined (cDiv_unsigned_isOk rfl hu (wrap_ne_zero_right hR hr hr0))

end total

section total_shl
variable {tag : OvTag} (ht : Checked tag) {L R : IntTy} (hL : 1 ≤ L.bits) (hR : 1 ≤ R.bits)
  (hw : L.bits ≤ 2147483647) {l : Int} {j : Nat} (hl : L.InRange l) (hr : R.InRange (j : Int))
include ht hL hR hw hl hr

theorem shl_defined (path : Path) :
    Good (checkedBin path tag .shl (L, l) (R, (j : Int))) := by
  rw [checkedBin_shl_eq hL hR hw hl hr path ht.ne_nat]; exact want_defined ht _ _

theorem shr_defined (path : Path) :
    Good (checkedBin path tag .shr (L, l) (R, (j : Int))) := by
  rw [checkedBin_shr_eq hL hR hw hl hr path ht.ne_nat]; exact good_ok _

end total_shl

theorem neg_defined {tag : OvTag} (ht : Checked tag) {L : IntTy} (hL : 1 ≤ L.bits) {l : Int}
    (hl : L.InRange l) : Good (checkedNeg tag (L, l)) := by
  rw [checkedNeg_eq ht.ne_nat hL hl]; exact want_defined ht _ _

theorem convert_defined {tag : OvTag} (ht : Checked tag) {S D : IntTy} (hS : 1 ≤ S.digits) (hD : 1 ≤ D.bits)
    {v : Int} (hv : S.InRange v) : Good (checkedConvert tag D (S, v)) := by
  rw [checkedConvert_eq ht.ne_nat hS hD hv]; exact want_defined ht _ _


/-! ## chains: an overflow_integer converted as a number, radix-changing scaling under the tag -/

/-- what the specification returns as a value is a value of the result type, in its range -/
theorem want_ok_inRange {tag : OvTag} (ht : tag ≠ .nat) {T : IntTy} {e : Int} {a : TV}
    (h : checkedWant tag T e = .ok a) : a = (T, a.2) ∧ T.InRange a.2 := by
  by_cases h1 : e > T.max
  · rw [want_pos ht h1] at h
    cases tag <;> simp [react] at h ht
    subst h; exact ⟨rfl, max_inRange T⟩
  · by_cases h2 : e < T.lowest
    · rw [want_neg ht h2] at h
      cases tag <;> simp [react] at h ht
      subst h; exact ⟨rfl, lowest_inRange T⟩
    · have hin : T.InRange e := ⟨by omega, by omega⟩
      rw [want_in hin] at h
      cases h; exact ⟨rfl, hin⟩

/-- converting the prescribed outcome once more to its own type changes nothing -/
theorem want_bind_convert_self {tag : OvTag} (ht : tag ≠ .nat) {T : IntTy} (hT : 1 ≤ T.digits) (e : Int) :
    (checkedWant tag T e >>= checkedConvert tag T) = checkedWant tag T e := by
  have hTb : 1 ≤ T.bits := by unfold IntTy.digits at hT; split at hT <;> omega
  cases hw : checkedWant tag T e with
  | ok a =>
    obtain ⟨ha, hin⟩ := want_ok_inRange ht hw
    show checkedConvert tag T a = .ok a
    rw [ha, checkedConvert_eq ht hT hTb hin, want_in hin]
  | _ => rfl

/-- … and converting it to another type is the prescribed outcome for its value there -/
theorem want_bind_convert {tag : OvTag} (ht : tag ≠ .nat) {T D : IntTy} (hT : 1 ≤ T.digits) (hD : 1 ≤ D.bits) (e : Int) :
    (checkedWant tag T e >>= checkedConvert tag D) = (checkedWant tag T e >>= fun y => checkedWant tag D y.2) := by
  cases hw : checkedWant tag T e with
  | ok a =>
    obtain ⟨ha, hin⟩ := want_ok_inRange ht hw
    show checkedConvert tag D a = checkedWant tag D a.2
    rw [ha, checkedConvert_eq ht hT hD hin]
  | _ => rfl

theorem good_bind {α β : Type} {x : Res α} {f : α → Res β} (hx : Good x) (hf : ∀ a, Good (f a)) : Good (x >>= f) := by
  cases x with
  | ok a => exact hf a
  | ub k => exact absurd hx.1 (by simp [Res.isDefined])
  | unreachable m => exact absurd hx.1 (by simp [Res.isDefined])
  | oob i => exact absurd hx.1 (by simp [Res.isDefined])
  | diverges => exact absurd hx.1 (by simp [Res.isDefined])
  | ill m => exact absurd rfl (hx.2 m)
  | trap p => exact ⟨rfl, fun _ h => by cases h⟩
  | throws p => exact ⟨rfl, fun _ h => by cases h⟩

/-- the multiplying stage of a radix-changing conversion on the intrinsic path, source type at least `int` wide:
`scaled_integer<S, power<0, rS>>` → `scaled_integer<overflow_integer<D, tag>, power<-k, rD>>` multiplies by `rD^k`
under the tag in the source type, then converts to `D` under the tag -/
theorem radixConvert_mul_eq {tag : OvTag} (ht : tag ≠ .nat) {S D : IntTy} (hp32 : promote S = S) (hS : 1 ≤ S.digits)
    (hD : 1 ≤ D.bits) (rS rD : Nat) (k : Nat) (hk : 0 < k) (hp : S.InRange ((rD : Int) ^ k)) {v : Int}
    (hv : S.InRange v) :
    radixConvert .builtin tag S 0 rS D (-(k : Int)) rD v =
      (checkedWant tag S (v * (rD : Int) ^ k) >>= fun y => checkedWant tag D y.2) := by
  have hSb : 1 ≤ S.bits := by unfold IntTy.digits at hS; split at hS <;> omega
  have h1 : ¬ ((0 : Int) > 0) := by omega
  have h2 : -(k : Int) < 0 := by omega
  have h3 : ¬ ((0 : Int) < 0) := by omega
  have h4 : ¬ (-(k : Int) > 0) := by omega
  have h5 : ¬ (- -(k : Int) = 0) := by omega
  have h6 : - -(k : Int) > 0 := by omega
  have hna : (- -(k : Int)).natAbs = k := by omega
  have hua : usualArith S S = S := by rw [usualArith_self, hp32]
  have hin : S.inRange ((rD : Int) ^ k) = true := by simpa [IntTy.inRange] using hp
  have hmul := builtin_mul_eq ht hSb hSb hv hp
  rw [hua] at hmul
  simp only [radixConvert, scaleStep, h1, h2, h3, h4, h5, h6, hna, hp32, hin, ite_true, ite_false, Res.pure_eq,
    Bool.not_true, Bool.false_eq_true, bind_assoc, Res.bind_ok, hmul]
  rw [want_bind_convert_self ht hS, want_bind_convert ht hS hD]


end Cnl.Overflow
