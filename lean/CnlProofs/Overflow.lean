import CnlProofs.CIntLemmas
import CnlProofs.Elastic
import CnlProofs.Rounding
import CnlModel.Overflow
import CnlSpec.Overflow
/-!
# Lemmas for C06 / C07: the overflow tags

* evaluation lemmas for the built-in operators of `CnlModel.CInt` on values that the common type
  holds unchanged;
* how the usual arithmetic conversions relate the ranges of the operand types and the common type;
* every portable predicate of `is_overflow.h` evaluates, without undefined behaviour, to the
  mathematical comparison it stands for;
* the assembled tagged operators (`checkedBin`, `checkedNeg`, `checkedConvert`).

Lean core only.
-/
set_option linter.unusedVariables false
set_option linter.unusedSimpArgs false
set_option linter.unusedSectionVars false

namespace Cnl.Overflow
open Cnl Cnl.Spec Cnl.Rounding Cnl.Elastic

/-! ## the specification's three cases -/

theorem want_pos {tag : OvTag} (ht : tag ≠ .nat) {T : IntTy} {e : Int} (h : e > T.max) :
    checkedWant tag T e = react tag true T := by
  cases tag <;> simp [checkedWant, react, h] at ht ⊢

theorem want_neg {tag : OvTag} (ht : tag ≠ .nat) {T : IntTy} {e : Int} (h : e < T.lowest) :
    checkedWant tag T e = react tag false T := by
  have h0 := zero_le_max T
  have : ¬ e > T.max := by omega
  cases tag <;> simp [checkedWant, react, h, this] at ht ⊢

theorem want_in {tag : OvTag} {T : IntTy} {e : Int} (h : T.InRange e) :
    checkedWant tag T e = .ok (T, e) := by
  have h1 : ¬ e > T.max := by have := h.2; omega
  have h2 : ¬ e < T.lowest := by have := h.1; omega
  simp [checkedWant, h1, h2]

/-- the outcome the specification prescribes is never undefined for the three checked tags -/
theorem want_defined {tag : OvTag} (ht : tag = .sat ∨ tag = .thr ∨ tag = .trp) (T : IntTy) (e : Int) :
    (checkedWant tag T e).isDefined = true := by
  rcases ht with h | h | h <;> subst h <;> simp only [checkedWant] <;> (repeat' split) <;> rfl

theorem want_not_ill {tag : OvTag} (T : IntTy) (e : Int) (m : String) : checkedWant tag T e ≠ .ill m := by
  cases tag <;> unfold checkedWant <;> (repeat' split) <;> simp

/-! ## built-in operators on values the common type holds unchanged -/

section ev
variable {A B T : IntTy} (h : usualArith A B = T) (hb : 1 ≤ T.bits) {v w : Int}
include h hb

theorem cAdd_ev (hv : T.InRange v) (hw : T.InRange w) (he : T.InRange (v + w)) :
    cBin .add (A, v) (B, w) = .ok (T, v + w) := by
  simp only [cBin, h, IntTy.wrap_id hb hv, IntTy.wrap_id hb hw, arith_ok hb he]

theorem cSub_ev (hv : T.InRange v) (hw : T.InRange w) (he : T.InRange (v - w)) :
    cBin .sub (A, v) (B, w) = .ok (T, v - w) := by
  simp only [cBin, h, IntTy.wrap_id hb hv, IntTy.wrap_id hb hw, arith_ok hb he]

theorem cMul_ev (hv : T.InRange v) (hw : T.InRange w) (he : T.InRange (v * w)) :
    cBin .mul (A, v) (B, w) = .ok (T, v * w) := by
  simp only [cBin, h, IntTy.wrap_id hb hv, IntTy.wrap_id hb hw, arith_ok hb he]

theorem cDiv_ev (hv : T.InRange v) (hw : T.InRange w) (h0 : w ≠ 0)
    (hov : ¬(T.signed = true ∧ v = T.lowest ∧ w = -1)) (he : T.InRange (v.tdiv w)) :
    cBin .div (A, v) (B, w) = .ok (T, v.tdiv w) := by
  simp only [cBin, h, IntTy.wrap_id hb hv, IntTy.wrap_id hb hw, h0, hov, ite_false, arith_ok hb he]

theorem cCmp_ev (op : CmpOp) (hv : T.InRange v) (hw : T.InRange w) :
    cCmp op (A, v) (B, w) = cmpInt op v w := by
  simp only [cCmp, h, IntTy.wrap_id hb hv, IntTy.wrap_id hb hw]
  cases op <;> rfl
end ev

/-! ## ranges of the operand types and of the common type -/

theorem digits_le_promote (t : IntTy) : t.digits ≤ (promote t).digits := by
  unfold promote
  split
  · simp only [IntTy.digits, i32]; split <;> simp <;> omega
  · exact Nat.le_refl _

/-- the common type has at least the digits of either promoted operand type -/
theorem usualArith_digits_ge (L R : IntTy) :
    (promote L).digits ≤ (usualArith L R).digits ∧ (promote R).digits ≤ (usualArith L R).digits := by
  rw [usualArith_key]
  have hL := promote_bits_ge32 L
  have hR := promote_bits_ge32 R
  generalize promote L = A at *; generalize promote R = B at *
  obtain ⟨ab, as⟩ := A; obtain ⟨bb, bs⟩ := B
  simp only at hL hR
  cases as <;> cases bs <;> simp [key, IntTy.digits] <;> split <;> simp <;> omega

theorem digits_le_usualArith (L R : IntTy) :
    L.digits ≤ (usualArith L R).digits ∧ R.digits ≤ (usualArith L R).digits := by
  have := usualArith_digits_ge L R
  have := digits_le_promote L
  have := digits_le_promote R
  omega

/-- an unsigned common type is one of the operand types, and that operand type is unsigned -/
theorem usualArith_unsigned {L R : IntTy} (h : (usualArith L R).signed = false) :
    (usualArith L R = L ∧ L.signed = false) ∨ (usualArith L R = R ∧ R.signed = false) := by
  rcases usualArith_cases L R with e | e
  · rw [e] at h ⊢; have := promote_unsigned h; exact Or.inl ⟨this.2, this.1⟩
  · rw [e] at h ⊢; have := promote_unsigned h; exact Or.inr ⟨this.2, this.1⟩

/-- with operands of one signedness an unsigned common type means unsigned operands -/
theorem same_sign_unsigned {L R : IntTy} (hs : L.signed = R.signed) (h : (usualArith L R).signed = false) :
    L.signed = false ∧ R.signed = false := by
  rcases usualArith_unsigned h with ⟨_, e⟩ | ⟨_, e⟩
  · exact ⟨e, hs ▸ e⟩
  · exact ⟨hs ▸ e, e⟩

theorem pow_digits_pos (t : IntTy) : (0 : Int) < 2^t.digits := two_pow_pos _

/-- bounds of an in-range value by the digits of its type -/
theorem range_digits {t : IntTy} {v : Int} (h : t.InRange v) :
    -(2^t.digits : Int) ≤ v ∧ v ≤ 2^t.digits - 1 ∧ (t.signed = false → 0 ≤ v) := by
  unfold IntTy.InRange at h
  rw [IntTy.max_eq, IntTy.lowest_eq] at h
  have := pow_digits_pos t
  refine ⟨?_, h.2, fun hs => ?_⟩
  · split at h <;> omega
  · simp [hs] at h; exact h.1

/-- a value of an operand type is held unchanged by a type with at least its digits that is
signed or whose operand type is unsigned -/
theorem fits_of_digits {A T : IntTy} {v : Int} (hd : A.digits ≤ T.digits)
    (hs : T.signed = false → A.signed = false) (h : A.InRange v) : T.InRange v := by
  have ⟨h1, h2, h3⟩ := range_digits h
  exact inRange_of_digits' hd h1 h2 (fun ht => h3 (hs ht))

theorem fits_left {L R : IntTy} {l : Int} (hs : (usualArith L R).signed = false → L.signed = false)
    (h : L.InRange l) : (usualArith L R).InRange l :=
  fits_of_digits (digits_le_usualArith L R).1 hs h

theorem fits_right {L R : IntTy} {r : Int} (hs : (usualArith L R).signed = false → R.signed = false)
    (h : R.InRange r) : (usualArith L R).InRange r :=
  fits_of_digits (digits_le_usualArith L R).2 hs h

/-- any operand value is at most the maximum of the common type -/
theorem le_max_left {L R : IntTy} {l : Int} (h : L.InRange l) : l ≤ (usualArith L R).max := by
  have ⟨_, h2, _⟩ := range_digits h
  have := two_pow_le (digits_le_usualArith L R).1
  rw [IntTy.max_eq]; omega

theorem le_max_right {L R : IntTy} {r : Int} (h : R.InRange r) : r ≤ (usualArith L R).max := by
  have ⟨_, h2, _⟩ := range_digits h
  have := two_pow_le (digits_le_usualArith L R).2
  rw [IntTy.max_eq]; omega

/-- … and at least the lowest value of a signed common type -/
theorem ge_lowest_left {L R : IntTy} {l : Int} (hT : (usualArith L R).signed = true) (h : L.InRange l) :
    (usualArith L R).lowest ≤ l :=
  (fits_left (fun h' => by rw [hT] at h'; cases h') h).1

theorem ge_lowest_right {L R : IntTy} {r : Int} (hT : (usualArith L R).signed = true) (h : R.InRange r) :
    (usualArith L R).lowest ≤ r :=
  (fits_right (fun h' => by rw [hT] at h'; cases h') h).1

theorem usualArith_promote_left (L : IntTy) : usualArith L (promote L) = promote L := by
  have := (usualArith_absorb L L).2.2.1
  rwa [usualArith_self] at this

theorem usualArith_promote_self (L : IntTy) : usualArith (promote L) (promote L) = promote L := by
  rw [usualArith_self, promote_promote]

theorem nonneg_of_unsigned {t : IntTy} {v : Int} (hs : t.signed = false) (h : t.InRange v) : 0 ≤ v :=
  (range_digits h).2.2 hs

/-- `lowest = -max - 1` for signed, `0` for unsigned types -/
theorem lowest_max (t : IntTy) : t.lowest = if t.signed then -t.max - 1 else 0 := by
  unfold IntTy.lowest IntTy.max
  cases t.signed
  · simp
  · simp only [ite_true]; omega

/-! ## unary minus -/

theorem checkedNeg_eq {tag : OvTag} (ht : tag ≠ .nat) {L : IntTy} (hL : 1 ≤ L.bits) {l : Int}
    (hl : L.InRange l) : checkedNeg tag (L, l) = checkedWant tag (promote L) (-l) := by
  have hP := promote_bits_ge hL
  have hlP := promote_inRange hL hl
  have h0 := zero_le_max (promote L)
  have hlm := lowest_max (promote L)
  have htag : (tag == OvTag.nat) = false := by simpa using ht
  simp only [checkedNeg, htag, isOverflowNeg, tmax, Bool.false_eq_true, ite_false, ite_true]
  by_cases hs : (promote L).signed = true
  · simp only [hs, ite_true] at hlm
    have hm : (promote L).InRange (-(promote L).max) := ⟨by omega, by omega⟩
    have hmax : (promote L).InRange (promote L).max := ⟨by omega, by omega⟩
    have hneg : cNeg (promote L, (promote L).max) = .ok (promote L, -(promote L).max) := by
      simp only [cNeg, promote_promote, IntTy.wrap_id hP hmax, arith_ok hP hm]
    simp only [hs, andThen, ite_true, hneg, Res.bind_ok, Res.pure_eq,
      cCmp_ev (usualArith_promote_left L) hP .lt hlP hm, cmpInt, Bool.not_true, Bool.false_and]
    by_cases hlt : l < -(promote L).max
    · simp only [hlt, decide_true, ite_true]
      exact (want_pos ht (by omega)).symm
    · have hr : (promote L).InRange (-l) := ⟨by have := hlP.2; omega, by omega⟩
      simp only [hlt, decide_false, Bool.false_eq_true, ite_false, cNeg, IntTy.wrap_id hP hlP, arith_ok hP hr]
      exact (want_in hr).symm
  · have hs' : (promote L).signed = false := by simpa using hs
    simp only [hs', Bool.false_eq_true, ite_false] at hlm
    have hl0 : 0 ≤ l := nonneg_of_unsigned hs' hlP
    simp only [hs', andThen, Bool.false_eq_true, ite_false, Res.bind_ok, Bool.not_false, Bool.true_and]
    by_cases hz : l = 0
    · subst hz
      have hr : (promote L).InRange (-0) := ⟨by omega, by omega⟩
      simp only [bne_self_eq_false, Bool.false_eq_true, ite_false, cNeg, IntTy.wrap_id hP hlP, arith_ok hP hr]
      exact (want_in hr).symm
    · have : (l != 0) = true := by simpa using hz
      simp only [this, ite_true]
      exact (want_neg ht (by omega)).symm

/-! ## conversion -/

theorem max_le_max_of_digits {A B : IntTy} (h : A.digits ≤ B.digits) : A.max ≤ B.max := by
  have := two_pow_le h
  rw [IntTy.max_eq, IntTy.max_eq]; omega

theorem max_lt_max_of_digits {A B : IntTy} (h : A.digits < B.digits) : A.max < B.max := by
  have := two_pow_le (show A.digits + 1 ≤ B.digits from h)
  rw [two_pow_succ] at this
  have := pow_digits_pos A
  rw [IntTy.max_eq, IntTy.max_eq]; omega

theorem checkedConvert_eq {tag : OvTag} (ht : tag ≠ .nat) {S D : IntTy} (hS : 1 ≤ S.digits) (hD : 1 ≤ D.bits)
    {v : Int} (hv : S.InRange v) : checkedConvert tag D (S, v) = checkedWant tag D v := by
  have hSb : 1 ≤ S.bits := by have := digits_le_bits S; omega
  have hP := promote_bits_ge hSb
  have hvP := promote_inRange hSb hv
  have hD0 := zero_le_max D
  have hS0 := zero_le_max S
  have ⟨hv1, hv2, hv3⟩ := range_digits hv
  simp only [checkedConvert, posDigits, negDigits, tmax, tlow, convert]
  -- positive
  by_cases hp : D.digits < S.digits
  · have hmS : S.InRange D.max := ⟨by omega, by have := max_lt_max_of_digits hp; omega⟩
    simp only [hp, decide_true, Bool.true_and, IntTy.wrap_id hSb hmS,
      cCmp_ev (usualArith_self S) hP .gt hvP (promote_inRange hSb hmS), cmpInt]
    by_cases hgt : v > D.max
    · simp only [hgt, decide_true, ite_true]; exact (want_pos ht hgt).symm
    · simp only [hgt, decide_false, Bool.false_eq_true, ite_false]
      exact convert_neg_part ht hS hD hv hgt
  · have hle : v ≤ D.max := by
      have := max_le_max_of_digits (show S.digits ≤ D.digits by omega); have := hv.2; omega
    simp only [hp, decide_false, Bool.false_and, Bool.false_eq_true, ite_false]
    exact convert_neg_part ht hS hD hv (by omega)
where
  convert_neg_part {tag : OvTag} (ht : tag ≠ .nat) {S D : IntTy} (hS : 1 ≤ S.digits) (hD : 1 ≤ D.bits)
      {v : Int} (hv : S.InRange v) (hgt : ¬ v > D.max) :
      (if (decide ((if D.signed = true then D.digits else 0) < if S.signed = true then S.digits else 0) &&
            cCmp CmpOp.lt (S, v) (S, S.wrap D.lowest)) = true
        then react tag false D else Res.ok (D, D.wrap v)) = checkedWant tag D v := by
    have hSb : 1 ≤ S.bits := by have := digits_le_bits S; omega
    have hP := promote_bits_ge hSb
    have hvP := promote_inRange hSb hv
    have hD0 := zero_le_max D
    have hS0 := zero_le_max S
    have ⟨hv1, hv2, hv3⟩ := range_digits hv
    have hfin : D.lowest ≤ v → (Res.ok (D, D.wrap v) : Res TV) = checkedWant tag D v := by
      intro h
      have hr : D.InRange v := ⟨h, by omega⟩
      rw [IntTy.wrap_id hD hr]; exact (want_in hr).symm
    by_cases hn : (if D.signed = true then D.digits else 0) < if S.signed = true then S.digits else 0
    · have hSs : S.signed = true := by
        by_cases h : S.signed = true
        · exact h
        · simp [h] at hn
      have hlS : S.InRange D.lowest := by
        refine ⟨?_, by omega⟩
        rw [IntTy.lowest_eq, IntTy.lowest_eq]
        simp only [hSs, ite_true] at hn ⊢
        by_cases hDs : D.signed = true
        · simp only [hDs, ite_true] at hn ⊢
          have := two_pow_le (Nat.le_of_lt hn); omega
        · simp only [hDs] at hn ⊢
          have := pow_digits_pos S; simp; omega
      simp only [hn, decide_true, Bool.true_and, IntTy.wrap_id hSb hlS,
        cCmp_ev (usualArith_self S) hP .lt hvP (promote_inRange hSb hlS), cmpInt]
      by_cases hlt : v < D.lowest
      · simp only [hlt, decide_true, ite_true]; exact (want_neg ht hlt).symm
      · simp only [hlt, decide_false, Bool.false_eq_true, ite_false]
        exact hfin (by omega)
    · simp only [hn, decide_false, Bool.false_and, Bool.false_eq_true, ite_false]
      apply hfin
      by_cases hSs : S.signed = true
      · simp only [hSs, ite_true] at hn
        by_cases hDs : D.signed = true
        · simp only [hDs, ite_true] at hn
          rw [IntTy.lowest_eq]; simp only [hDs, ite_true]
          have := two_pow_le (show S.digits ≤ D.digits by omega); omega
        · simp only [hDs] at hn; simp at hn; omega
      · have := hv3 (by simpa using hSs); omega

/-! ## the intrinsic path: `__builtin_*_overflow`, then the polarity deduced from the operands -/

theorem cmp_zero_same {A : IntTy} (hA : 1 ≤ A.bits) (op : CmpOp) {v : Int} (hv : A.InRange v) :
    cCmp op (A, v) (zero A) = cmpInt op v 0 := by
  have h0 := zero_le_max A
  exact cCmp_ev (usualArith_self A) (promote_bits_ge hA) op (promote_inRange hA hv)
    (promote_inRange hA ⟨h0.1, h0.2⟩)

theorem measurePolarity_eq {A : IntTy} (hA : 1 ≤ A.bits) {v : Int} (hv : A.InRange v) :
    measurePolarity (A, v) = if v > 0 then 1 else if v < 0 then -1 else 0 := by
  simp only [measurePolarity, cmp_zero_same hA _ hv, cmpInt, decide_eq_true_eq]

theorem builtin_add_eq {tag : OvTag} (ht : tag ≠ .nat) {L R : IntTy} (hL : 1 ≤ L.bits) (hR : 1 ≤ R.bits)
    {l r : Int} (hl : L.InRange l) (hr : R.InRange r) :
    checkedBin .builtin tag .add (L, l) (R, r) = checkedWant tag (usualArith L R) (l + r) := by
  have htag : (tag == OvTag.nat) = false := by simpa using ht
  have hT1 : 1 ≤ (usualArith L R).bits := by have := usualArith_bits_ge L R; omega
  have h0 := zero_le_max (usualArith L R)
  have hlm := le_max_left (R := R) hl
  have hrm := le_max_right (L := L) hr
  simp only [checkedBin, htag, hasBuiltin, binResultTy, builtinOverflow, overflowPolarity,
    cmp_zero_same hL _ hl, cmp_zero_same hR _ hr, cmpInt, IntTy.inRange]
  by_cases hin : (usualArith L R).InRange (l + r)
  · simp [hin, IntTy.wrap_id hT1 hin]; exact (want_in hin).symm
  · simp only [hin, decide_false, Bool.not_false, Bool.false_eq_true, ite_false]
    have hin' : ¬((usualArith L R).lowest ≤ l + r ∧ l + r ≤ (usualArith L R).max) := hin
    by_cases hp : l > 0 ∧ r > 0
    · simp [hp.1, hp.2]; exact (want_pos ht (by omega)).symm
    · have : (decide (l > 0) && decide (r > 0)) = false := by simpa using hp
      simp [this]
      exact (want_neg ht (by omega)).symm

/-- a negative right operand forces the left operand above the lowest value of the common type -/
theorem lowest_le_left_of_neg {L R : IntTy} {l r : Int} (hl : L.InRange l) (hr : R.InRange r) (hneg : r < 0) :
    (usualArith L R).lowest ≤ l := by
  by_cases hT : (usualArith L R).signed = true
  · exact ge_lowest_left hT hl
  · have hT' : (usualArith L R).signed = false := by simpa using hT
    have hlm := lowest_max (usualArith L R)
    simp only [hT', Bool.false_eq_true, ite_false] at hlm
    rcases usualArith_unsigned hT' with ⟨_, e⟩ | ⟨_, e⟩
    · have := nonneg_of_unsigned e hl; omega
    · have := nonneg_of_unsigned e hr; omega

theorem lowest_le_right_of_neg {L R : IntTy} {l r : Int} (hl : L.InRange l) (hr : R.InRange r) (hneg : l < 0) :
    (usualArith L R).lowest ≤ r := by
  by_cases hT : (usualArith L R).signed = true
  · exact ge_lowest_right hT hr
  · have hT' : (usualArith L R).signed = false := by simpa using hT
    have hlm := lowest_max (usualArith L R)
    simp only [hT', Bool.false_eq_true, ite_false] at hlm
    rcases usualArith_unsigned hT' with ⟨_, e⟩ | ⟨_, e⟩
    · have := nonneg_of_unsigned e hl; omega
    · have := nonneg_of_unsigned e hr; omega

theorem builtin_sub_eq {tag : OvTag} (ht : tag ≠ .nat) {L R : IntTy} (hL : 1 ≤ L.bits) (hR : 1 ≤ R.bits)
    {l r : Int} (hl : L.InRange l) (hr : R.InRange r) :
    checkedBin .builtin tag .sub (L, l) (R, r) = checkedWant tag (usualArith L R) (l - r) := by
  have htag : (tag == OvTag.nat) = false := by simpa using ht
  have hT1 : 1 ≤ (usualArith L R).bits := by have := usualArith_bits_ge L R; omega
  have h0 := zero_le_max (usualArith L R)
  have hlm := le_max_left (R := R) hl
  simp only [checkedBin, htag, hasBuiltin, binResultTy, builtinOverflow, overflowPolarity,
    cmp_zero_same hR _ hr, cmpInt, IntTy.inRange]
  by_cases hin : (usualArith L R).InRange (l - r)
  · simp [hin, IntTy.wrap_id hT1 hin]; exact (want_in hin).symm
  · simp only [hin, decide_false, Bool.not_false, Bool.false_eq_true, ite_false]
    have hin' : ¬((usualArith L R).lowest ≤ l - r ∧ l - r ≤ (usualArith L R).max) := hin
    by_cases hp : r < 0
    · have := lowest_le_left_of_neg hl hr hp
      simp [hp]; exact (want_pos ht (by omega)).symm
    · simp [hp]
      exact (want_neg ht (by omega)).symm

theorem builtin_mul_eq {tag : OvTag} (ht : tag ≠ .nat) {L R : IntTy} (hL : 1 ≤ L.bits) (hR : 1 ≤ R.bits)
    {l r : Int} (hl : L.InRange l) (hr : R.InRange r) :
    checkedBin .builtin tag .mul (L, l) (R, r) = checkedWant tag (usualArith L R) (l * r) := by
  have htag : (tag == OvTag.nat) = false := by simpa using ht
  have hT1 : 1 ≤ (usualArith L R).bits := by have := usualArith_bits_ge L R; omega
  have h0 := zero_le_max (usualArith L R)
  simp only [checkedBin, htag, hasBuiltin, binResultTy, builtinOverflow, overflowPolarity,
    measurePolarity_eq hL hl, measurePolarity_eq hR hr, IntTy.inRange]
  by_cases hin : (usualArith L R).InRange (l * r)
  · simp [hin, IntTy.wrap_id hT1 hin]; exact (want_in hin).symm
  · simp only [hin, decide_false, Bool.not_false, Bool.false_eq_true, ite_false]
    have hin' : ¬((usualArith L R).lowest ≤ l * r ∧ l * r ≤ (usualArith L R).max) := hin
    have hl0 : l ≠ 0 := by intro h; subst h; simp at hin'; omega
    have hr0 : r ≠ 0 := by intro h; subst h; simp at hin'; omega
    by_cases hlp : l > 0 <;> by_cases hrp : r > 0
    · have := Int.mul_pos hlp hrp
      simp [hlp, hrp]; exact (want_pos ht (by omega)).symm
    · have hrn : r < 0 := by omega
      have := Int.mul_neg_of_pos_of_neg hlp hrn
      have : ¬ (0 < r) := by omega
      simp [hlp, hrn, this]; exact (want_neg ht (by omega)).symm
    · have hln : l < 0 := by omega
      have := Int.mul_neg_of_neg_of_pos hln hrp
      have : ¬ (0 < l) := by omega
      simp [hln, hrp, this]; exact (want_neg ht (by omega)).symm
    · have hln : l < 0 := by omega
      have hrn : r < 0 := by omega
      have := Int.mul_pos_of_neg_of_neg hln hrn
      have : ¬ (0 < l) := by omega
      have : ¬ (0 < r) := by omega
      simp [hln, hrn, *]; exact (want_pos ht (by omega)).symm

/-! ## division (both paths use the portable test) -/

theorem hasBuiltin_portable (op : BinOp) : hasBuiltin .portable op = false := rfl
theorem hasBuiltin_div (path : Path) : hasBuiltin path .div = false := by cases path <;> rfl
theorem hasBuiltin_shl (path : Path) : hasBuiltin path .shl = false := by cases path <;> rfl
theorem hasBuiltin_shr (path : Path) : hasBuiltin path .shr = false := by cases path <;> rfl

/-- comparison with an `int` literal -/
theorem cmp_lit {A : IntTy} (hA : 1 ≤ A.bits) (op : CmpOp) {v k : Int} (hv : A.InRange v)
    (hk : (promote A).InRange k) : cCmp op (A, v) (lit k) = cmpInt op v k :=
  cCmp_ev (usualArith_i32 A) (promote_bits_ge hA) op (promote_inRange hA hv) hk

theorem signed_of_same_sign {L R : IntTy} (hs : L.signed = R.signed) (h : L.signed = true) :
    (usualArith L R).signed = true := by
  by_cases hT : (usualArith L R).signed = true
  · exact hT
  · have := (same_sign_unsigned hs (by simpa using hT)).1
    rw [h] at this; cases this

theorem minus_one_inRange {A : IntTy} (hs : A.signed = true) : (promote A).InRange (-1) := by
  have ⟨h1, h2⟩ := lo_hi (promote A) (promote_bits_ge32 A)
  have hlm := lowest_max (promote A)
  simp only [promote_signed_of_signed hs, ite_true] at hlm
  exact ⟨by omega, by omega⟩

theorem lowest_inRange (T : IntTy) : T.InRange T.lowest := by
  have := zero_le_max T; exact ⟨by omega, by omega⟩

theorem max_inRange (T : IntTy) : T.InRange T.max := by
  have := zero_le_max T; exact ⟨by omega, by omega⟩

theorem checkedBin_div_eq (path : Path) {tag : OvTag} (ht : tag ≠ .nat) {L R : IntTy}
    (hL : 1 ≤ L.bits) (hR : 1 ≤ R.bits) (hs : L.signed = R.signed)
    {l r : Int} (hl : L.InRange l) (hr : R.InRange r) (hr0 : r ≠ 0) :
    checkedBin path tag .div (L, l) (R, r) = checkedWant tag (usualArith L R) (l.tdiv r) := by
  have htag : (tag == OvTag.nat) = false := by simpa using ht
  have h32 := usualArith_bits_ge L R
  have hT1 : 1 ≤ (usualArith L R).bits := by omega
  have h0 := zero_le_max (usualArith L R)
  have hlm := lowest_max (usualArith L R)
  have hsu := same_sign_unsigned hs
  have hlT : (usualArith L R).InRange l := fits_left (fun h => (hsu h).1) hl
  have hrT : (usualArith L R).InRange r := fits_right (fun h => (hsu h).2) hr
  have hLT : usualArith L (usualArith L R) = usualArith L R := (usualArith_absorb L R).2.2.1
  simp only [checkedBin, htag, hasBuiltin_div, binResultTy, isOverflowBin, Bool.false_eq_true, ite_false,
    Res.bind_ok]
  have hfin : ¬(l = -(usualArith L R).max - 1 ∧ r = -1) →
      cBin .div (L, l) (R, r) = checkedWant tag (usualArith L R) (l.tdiv r) := by
    intro hov
    have hq := tdiv_inRange h32 hlT hrT hr0 hov
    have hov' : ¬((usualArith L R).signed = true ∧ l = (usualArith L R).lowest ∧ r = -1) := by
      intro ⟨h1, h2, h3⟩; apply hov; simp only [h1, ite_true] at hlm; omega
    rw [cDiv_ev rfl hT1 hlT hrT hr0 hov' hq]
    exact (want_in hq).symm
  by_cases hLs : L.signed = true
  · have hTs := signed_of_same_sign hs hLs
    simp only [hTs, ite_true] at hlm
    have hRs : R.signed = true := hs ▸ hLs
    simp only [hLs, ite_true, andThen, rbool, tlow, cmp_lit hR .eq hr (minus_one_inRange hRs),
      cCmp_ev hLT hT1 .eq hlT (lowest_inRange _), cmpInt]
    by_cases h1 : r = -1
    · by_cases h2 : l = (usualArith L R).lowest
      · simp only [h1, h2, decide_true, ite_true, Res.bind_ok]
        refine (want_pos ht ?_).symm
        rw [show (-1 : Int) = -(1:Int) by rfl, Int.tdiv_neg, Int.tdiv_one]; omega
      · simp only [h1, h2, decide_true, decide_false, ite_true, Res.bind_ok, Bool.false_eq_true, ite_false]
        rw [← h1]; exact hfin (by omega)
    · simp only [h1, decide_false, Bool.false_eq_true, ite_false, Res.bind_ok]
      exact hfin (by omega)
  · have hLu : L.signed = false := by simpa using hLs
    have := nonneg_of_unsigned hLu hl
    simp only [hLu, Bool.false_eq_true, ite_false, Res.bind_ok]
    exact hfin (by omega)

/-! ## integer facts used by the portable multiplication test -/

theorem tdiv_lt_iff {A c b : Int} (hA : 0 ≤ A) (hc : 0 < c) : A.tdiv c < b ↔ A < b * c := by
  rw [Int.tdiv_eq_ediv_of_nonneg hA]; exact Int.ediv_lt_iff_lt_mul hc

theorem mul_test_pp {M l r : Int} (hM : 0 ≤ M) (hr : 0 < r) : M.tdiv r < l ↔ l * r > M :=
  tdiv_lt_iff hM hr

theorem mul_test_nn {M l r : Int} (hM : 0 ≤ M) (hr : r < 0) : M.tdiv r > l ↔ l * r > M := by
  have h := tdiv_lt_iff (b := -l) hM (show 0 < -r by omega)
  rw [Int.tdiv_neg, Int.neg_mul_neg] at h
  omega

theorem mul_test_np {m l r : Int} (hm : m ≤ 0) (hr : 0 < r) : m.tdiv r > l ↔ l * r < m := by
  have h := tdiv_lt_iff (A := -m) (b := -l) (by omega) hr
  rw [Int.neg_tdiv, Int.neg_mul] at h
  omega

theorem mul_test_pn {m l r : Int} (hm : m ≤ 0) (hr : r < 0) : m.tdiv r < l ↔ l * r < m := by
  have h := tdiv_lt_iff (A := -m) (b := l) (c := -r) (by omega) (by omega)
  rw [Int.neg_tdiv_neg, Int.mul_neg] at h
  omega

/-- product of bounded magnitudes -/
theorem mul_le_of_bounds {x y X Y : Int} (hx : 0 ≤ x) (hxX : x ≤ X) (hy : 0 ≤ y) (hyY : y ≤ Y) :
    x * y ≤ X * Y := Int.mul_le_mul hxX hyY hy (by omega)

/-- sign cases of a product, as linear facts about the atom `l * r` -/
theorem mul_sign_facts (l r : Int) :
    (0 ≤ l → 0 ≤ r → 0 ≤ l * r) ∧ (l ≤ 0 → r ≤ 0 → 0 ≤ l * r) ∧
    (0 ≤ l → r ≤ 0 → l * r ≤ 0) ∧ (l ≤ 0 → 0 ≤ r → l * r ≤ 0) :=
  ⟨Int.mul_nonneg, Int.mul_nonneg_of_nonpos_of_nonpos, Int.mul_nonpos_of_nonneg_of_nonpos,
   Int.mul_nonpos_of_nonpos_of_nonneg⟩

/-- `|l| ≤ a`, `|r| ≤ b` bounds the product, with the corner `(-a)·(-b)` singled out -/
theorem mul_mag_bound {l r a b : Int} (hl1 : -a ≤ l) (hl2 : l ≤ a - 1) (hr1 : -b ≤ r) (hr2 : r ≤ b - 1) :
    -(a * b) ≤ l * r ∧ l * r ≤ a * b ∧ (l * r = a * b → l = -a ∧ r = -b) := by
  have ⟨s1, s2, s3, s4⟩ := mul_sign_facts l r
  by_cases h1 : 0 ≤ l <;> by_cases h2 : 0 ≤ r
  · have h := mul_le_of_bounds h1 hl2 h2 hr2
    have e : (a - 1) * (b - 1) = a * b - a - b + 1 := by grind
    have := s1 h1 h2
    generalize l * r = p at *; generalize a * b = q at *; omega
  · have h := mul_le_of_bounds h1 hl2 (show 0 ≤ -r by omega) (show -r ≤ b by omega)
    have e : (a - 1) * b = a * b - b := by grind
    rw [Int.mul_neg] at h
    have := s3 h1 (by omega)
    generalize l * r = p at *; generalize a * b = q at *; omega
  · have h := mul_le_of_bounds (show 0 ≤ -l by omega) (show -l ≤ a by omega) h2 hr2
    have e : a * (b - 1) = a * b - a := by grind
    rw [Int.neg_mul] at h
    have := s4 (by omega) h2
    generalize l * r = p at *; generalize a * b = q at *; omega
  · have h := mul_le_of_bounds (show 0 ≤ -l by omega) (show -l ≤ a by omega) (show 0 ≤ -r by omega) (show -r ≤ b by omega)
    rw [Int.neg_mul_neg] at h
    have := s2 (by omega) (by omega)
    refine ⟨by omega, h, fun he => ?_⟩
    -- equality forces both corners
    by_cases hc : l = -a
    · subst hc
      by_cases hc2 : r = -b
      · exact ⟨rfl, hc2⟩
      · exfalso
        have h' := mul_le_of_bounds (show 0 ≤ -(-a) by omega) (Int.le_refl _) (show 0 ≤ -r by omega) (show -r ≤ b - 1 by omega)
        rw [Int.neg_mul_neg] at h'
        have e : - -a * (b - 1) = a * b - a := by grind
        generalize -a * r = p at *; generalize a * b = q at *; omega
    · exfalso
      have h' := mul_le_of_bounds (show 0 ≤ -l by omega) (show -l ≤ a - 1 by omega) (show 0 ≤ -r by omega) (show -r ≤ b by omega)
      rw [Int.neg_mul_neg] at h'
      have e : (a - 1) * b = a * b - b := by grind
      generalize l * r = p at *; generalize a * b = q at *; omega

end Cnl.Overflow
