import CnlProofs.Wide
import CnlModel.WideCmp
/-!
# CnlProofs.WideCmp — comparison of multi-limb `wide_integer`s of different widths

`widenCtor_spec`: the converting constructor of the wider `uintwide_t` keeps the value (reduced to the
destination format, which only matters when a negative value goes to an unsigned format).
`cmpMixed_converts`: the repaired comparison is the comparison of the two values converted to the wider
format; `cmpMixed_spec`: for equal signedness that is the comparison of the values themselves.
Lean core only.
-/
namespace Cnl.Wide.CmpMixed
open Cnl Cnl.Wide Cnl.WideSpec
open Cnl.Wide.Bridge (Val)

theorem wrapTwos_of_inRange {N : Nat} {s : Bool} {x : Int} (hN : 1 ≤ N) (h : InRange N s x) :
    wrapTwos N s x = x := by
  have hp := Bridge.two_pow_pred (N := N) hN
  unfold InRange at h
  unfold wrapTwos
  cases s
  · simp only [Bool.false_eq_true, if_false] at h ⊢
    exact Int.emod_eq_of_lt h.1 h.2
  · simp only [if_true] at h ⊢
    rw [Int.emod_eq_of_lt (by omega) (by omega)]
    omega

theorem N_le {f g : Fmt} (hwe : f.w = g.w) (hle : f.n ≤ g.n) : f.N ≤ g.N := by
  unfold Fmt.N; rw [hwe]; exact Nat.mul_le_mul_left _ hle

theorem n_lt_of_N_lt {f g : Fmt} (hwe : f.w = g.w) (h : f.N < g.N) : f.n < g.n := by
  unfold Fmt.N at h; rw [hwe] at h
  exact Nat.lt_of_mul_lt_mul_left h

theorem n_eq_of_N_eq {f g : Fmt} (hw : 1 ≤ f.w) (hwe : f.w = g.w) (h : f.N = g.N) : f.n = g.n := by
  unfold Fmt.N at h; rw [hwe] at h
  exact Nat.eq_of_mul_eq_mul_left (by omega) h

/-- zero extension to the limb count of `g` -/
theorem pad_spec {f g : Fmt} {a : Limbs} (hwe : f.w = g.w) (hle : f.n ≤ g.n) (ha : Val f a) :
    Val g (a ++ zeros (g.n - a.length)) ∧ toNat g.w (a ++ zeros (g.n - a.length)) = toNat f.w a := by
  refine ⟨⟨?_, ?_⟩, ?_⟩
  · rw [Shift.WF_append]; exact ⟨by rw [← hwe]; exact ha.1, Shift.WF_zeros _ _⟩
  · rw [List.length_append, Shift.length_zeros, ha.2]; omega
  · rw [Shift.toNat_append, Shift.toNat_zeros, Nat.mul_zero, Nat.add_zero, hwe]

/-- the widening constructor: the value, reduced to the destination format -/
theorem widenCtor_spec {f g : Fmt} {a : Limbs} (hw : 1 ≤ f.w) (hwe : f.w = g.w) (hn : 1 ≤ f.n) (hle : f.n ≤ g.n)
    (ha : Val f a) :
    Val g (widenCtor f g a) ∧ toInt g (widenCtor f g a) = wrapTwos g.N g.signed (toInt f a) := by
  have hgw : 1 ≤ g.w := by omega
  have hgn : 1 ≤ g.n := by omega
  have hNg := Bridge.N_pos hgw hgn
  have hNf := Bridge.N_pos hw hn
  have hNle := N_le hwe hle
  unfold widenCtor
  by_cases hneg : isNeg f a = true
  · simp only [hneg, Bool.not_true, Bool.false_eq_true, if_false]
    obtain ⟨_, hvu⟩ := Arith.neg_toInt hw hn ha
    obtain ⟨h1, _, _⟩ := Basic.negate_spec ha.1
    rw [Arith.len_pow ha] at h1
    obtain ⟨hpv, hpt⟩ := pad_spec hwe hle hvu
    obtain ⟨k1, k2, k3⟩ := Basic.negate_spec hpv.1
    have hv : Val g (negate g.w (negate f.w a ++ zeros (g.n - (negate f.w a).length))) := ⟨k2, k3.trans hpv.2⟩
    refine ⟨hv, ?_⟩
    rw [Arith.len_pow hpv] at k1
    refine Arith.toInt_of_nat_mod hNg hv k1 ?_
    rw [hpt, h1, Arith.toInt_eq_isNeg hw hn ha, if_pos hneg]
    -- the pattern of a negative value is positive
    have hA : toNat f.w a ≥ 2^(f.N - 1) := by
      have := Arith.isNeg_eq hw hn ha
      rw [hneg] at this
      have := this.symm
      simp only [Bool.and_eq_true, decide_eq_true_eq] at this
      exact this.2
    have hApos : 0 < toNat f.w a := Nat.lt_of_lt_of_le (Nat.two_pow_pos _) hA
    have hlt := Bridge.val_lt ha
    have hPQ : 2^f.N ≤ 2^g.N := Nat.pow_le_pow_right (by decide) hNle
    have hmod : (2^f.N - toNat f.w a) % 2^f.N = 2^f.N - toNat f.w a := Nat.mod_eq_of_lt (by omega)
    rw [hmod]
    have e : ((2^g.N - (2^f.N - toNat f.w a) : Nat) : Int)
        = ((toNat f.w a : Int) - 2^f.N) + 2^g.N * 1 := by
      rw [Int.ofNat_sub (by omega), Int.ofNat_sub (Nat.le_of_lt hlt), Arith.cast_pow, Arith.cast_pow]
      omega
    exact Bridge.cong_of_eq_add_mul e
  · have hneg' : isNeg f a = false := by cases h : isNeg f a <;> simp_all
    simp only [hneg', Bool.not_false, if_true]
    obtain ⟨hpv, hpt⟩ := pad_spec hwe hle ha
    refine ⟨hpv, ?_⟩
    apply Bridge.toInt_of_cong hNg hpv
    rw [hpt, Arith.toInt_eq_isNeg hw hn ha, hneg']
    simp

theorem int_two_pow_le {a b : Nat} (h : a ≤ b) : (2:Int)^a ≤ 2^b := by
  have h' : (2:Nat)^a ≤ 2^b := Nat.pow_le_pow_right (by decide) h
  rw [← Arith.cast_pow a, ← Arith.cast_pow b]
  exact_mod_cast h'

theorem inRange_mono {N M : Nat} {s : Bool} {x : Int} (hN : 1 ≤ N) (hle : N ≤ M) (h : InRange N s x) :
    InRange M s x := by
  have h1 : (2:Int)^N ≤ 2^M := int_two_pow_le hle
  have h2 : (2:Int)^(N-1) ≤ 2^(M-1) := int_two_pow_le (by omega)
  unfold InRange at *
  cases s
  · simp only [Bool.false_eq_true, if_false] at h ⊢; omega
  · simp only [if_true] at h ⊢; omega

/-- an unsigned value fits every strictly wider signed format -/
theorem inRange_unsigned_to_signed {N M : Nat} {x : Int} (hlt : N < M) (h : InRange N false x) :
    InRange M true x := by
  have h1 : (2:Int)^N ≤ 2^(M-1) := int_two_pow_le (by omega)
  have h0 : (0:Int) < 2^(M-1) := Int.pow_pos (by decide)
  unfold InRange at *
  simp only [Bool.false_eq_true, if_false, if_true] at h ⊢
  omega

/-- a non-negative signed value fits every wider unsigned format -/
theorem inRange_nonneg_to_unsigned {N M : Nat} {x : Int} (hN : 1 ≤ N) (hle : N ≤ M) (h : InRange N true x) (h0 : 0 ≤ x) :
    InRange M false x := by
  have h1 : (2:Int)^N ≤ 2^M := int_two_pow_le hle
  have hp := Bridge.two_pow_pred (N := N) hN
  have hpos : (0:Int) < 2^(N-1) := Int.pow_pos (by decide)
  unfold InRange at *
  simp only [Bool.false_eq_true, if_false, if_true] at h ⊢
  omega

/-- `static_cast` to the wider format `W` (or a copy): a value of `W`, reading as the source value reduced to `W` -/
theorem convTo_spec {f W : Fmt} {a : Limbs} (hw : 1 ≤ f.w) (hwe : f.w = W.w) (hn : 1 ≤ f.n)
    (hle : f = W ∨ f.N < W.N) (ha : Val f a) :
    Val W (convTo f W a) ∧ toInt W (convTo f W a) = wrapTwos W.N W.signed (toInt f a) := by
  unfold convTo
  rcases hle with heq | hlt
  · subst heq
    simp only [if_true]
    exact ⟨ha, (Bridge.wrap_toInt (Bridge.N_pos hw hn) ha).symm⟩
  · have hne : f ≠ W := by intro h; subst h; omega
    simp only [hne, hlt, if_false, if_true]
    exact widenCtor_spec hw hwe hn (Nat.le_of_lt (n_lt_of_N_lt hwe hlt)) ha

/-- the format both operands are converted to -/
def wider (f g : Fmt) : Fmt := if f.N < g.N then g else f

/-- the repaired comparison: both values converted to the wider format, compared as integers -/
theorem cmpMixed_converts {f g : Fmt} {a b : Limbs} (op : CmpOp) (hw : 1 ≤ f.w) (hwe : f.w = g.w)
    (hfn : 1 ≤ f.n) (hgn : 1 ≤ g.n) (hne : f.N ≠ g.N) (ha : Val f a) (hb : Val g b) :
    cmpMixed f g op a b
      = .ok (specCmp op (wrapTwos (wider f g).N (wider f g).signed (toInt f a))
                        (wrapTwos (wider f g).N (wider f g).signed (toInt g b))) := by
  have hgw : 1 ≤ g.w := by omega
  have hwf : cmpWellFormed f g = true := by
    unfold cmpWellFormed
    simp [hwe, hne]
  unfold cmpMixed wider
  simp only [hwf, Bool.not_true, Bool.false_eq_true, if_false, hne]
  by_cases hlt : f.N < g.N
  · simp only [hlt, if_true]
    obtain ⟨va, ea⟩ := convTo_spec (W := g) hw hwe hfn (Or.inr hlt) ha
    obtain ⟨vb, eb⟩ := convTo_spec (W := g) hgw rfl hgn (Or.inl rfl) hb
    rw [Arith.cmpOp_spec op hgw hgn va vb, ea, eb]
  · have hgt : g.N < f.N := by omega
    simp only [hlt, if_false]
    obtain ⟨va, ea⟩ := convTo_spec (W := f) hw rfl hfn (Or.inl rfl) ha
    obtain ⟨vb, eb⟩ := convTo_spec (W := f) hgw hwe.symm hgn (Or.inr hgt) hb
    rw [Arith.cmpOp_spec op hw hfn va vb, ea, eb]

/-- equal signedness (the instantiations that exist for every pair of widths): by value -/
theorem cmpMixed_spec {f g : Fmt} {a b : Limbs} (op : CmpOp) (hw : 1 ≤ f.w) (hwe : f.w = g.w)
    (hs : f.signed = g.signed) (hfn : 1 ≤ f.n) (hgn : 1 ≤ g.n) (ha : Val f a) (hb : Val g b) :
    cmpMixed f g op a b = .ok (specCmp op (toInt f a) (toInt g b)) := by
  have hgw : 1 ≤ g.w := by omega
  have hNf := Bridge.N_pos hw hfn
  have hNg := Bridge.N_pos hgw hgn
  have ra := Bridge.toInt_range hNf ha
  have rb := Bridge.toInt_range hNg hb
  by_cases hne : f.N = g.N
  · have hn := n_eq_of_N_eq hw hwe hne
    have hfg : f = g := by
      cases f; cases g; simp only [Fmt.mk.injEq]; exact ⟨hwe, hn, hs⟩
    subst hfg
    have hwf : cmpWellFormed f f = true := by unfold cmpWellFormed; simp
    unfold cmpMixed
    simp only [hwf, Bool.not_true, Bool.false_eq_true, if_false, if_true]
    rw [Arith.cmpOp_spec op hw hfn ha hb]
  · rw [cmpMixed_converts op hw hwe hfn hgn hne ha hb]
    unfold wider
    by_cases hlt : f.N < g.N
    · simp only [hlt, if_true]
      rw [wrapTwos_of_inRange hNg rb, wrapTwos_of_inRange hNg (hs ▸ inRange_mono hNf (Nat.le_of_lt hlt) ra)]
    · have hgt : g.N < f.N := by omega
      simp only [hlt, if_false]
      rw [wrapTwos_of_inRange hNf ra, wrapTwos_of_inRange hNf (hs ▸ inRange_mono hNg (Nat.le_of_lt hgt) rb)]

/-- different signedness and different widths (these instantiations compile too): by value whenever the wider
format is the signed one, or the operand of the narrower, signed format is non-negative -/
theorem cmpMixed_mixed_signedness {f g : Fmt} {a b : Limbs} (op : CmpOp) (hw : 1 ≤ f.w) (hwe : f.w = g.w)
    (hfn : 1 ≤ f.n) (hgn : 1 ≤ g.n) (hlt : f.N < g.N) (hs : f.signed ≠ g.signed) (ha : Val f a) (hb : Val g b)
    (hv : g.signed = true ∨ 0 ≤ toInt f a) :
    cmpMixed f g op a b = .ok (specCmp op (toInt f a) (toInt g b))
    ∧ cmpMixed g f op b a = .ok (specCmp op (toInt g b) (toInt f a)) := by
  have hgw : 1 ≤ g.w := by omega
  have hNf := Bridge.N_pos hw hfn
  have hNg := Bridge.N_pos hgw hgn
  have ra := Bridge.toInt_range hNf ha
  have rb := Bridge.toInt_range hNg hb
  have hfit : InRange g.N g.signed (toInt f a) := by
    cases hgs : g.signed
    · have hfs : f.signed = true := by cases h : f.signed <;> simp_all
      rw [hfs] at ra
      rcases hv with h | h
      · rw [hgs] at h; cases h
      · exact inRange_nonneg_to_unsigned hNf (Nat.le_of_lt hlt) ra h
    · have hfs : f.signed = false := by cases h : f.signed <;> simp_all
      rw [hfs] at ra
      exact inRange_unsigned_to_signed hlt ra
  refine ⟨?_, ?_⟩
  · rw [cmpMixed_converts op hw hwe hfn hgn (by omega) ha hb]
    unfold wider
    simp only [hlt, if_true]
    rw [wrapTwos_of_inRange hNg rb, wrapTwos_of_inRange hNg hfit]
  · rw [cmpMixed_converts op hgw hwe.symm hgn hfn (by omega) hb ha]
    unfold wider
    have : ¬ g.N < f.N := by omega
    simp only [this, if_false]
    rw [wrapTwos_of_inRange hNg rb, wrapTwos_of_inRange hNg hfit]

/-- the limbs of the two's-complement pattern read back as the value -/
theorem encode_spec {f : Fmt} (v : Int) (hN : 1 ≤ f.N) :
    Val f (encode f v) ∧ toInt f (encode f v) = wrapTwos f.N f.signed v := by
  have hv : Val f (encode f v) := ⟨Basic.ofNat_WF _ _ _, Basic.ofNat_length _ _ _⟩
  refine ⟨hv, ?_⟩
  apply Bridge.toInt_of_cong hN hv
  have hpos : (0:Int) < 2^f.N := Int.pow_pos (by decide)
  have h0 : 0 ≤ v % 2^f.N := Int.emod_nonneg _ (by omega)
  have hlt : v % 2^f.N < 2^f.N := Int.emod_lt_of_pos _ hpos
  have hnat : (v % 2^f.N).toNat < 2^f.N := by
    have : ((v % 2^f.N).toNat : Int) < ((2^f.N : Nat) : Int) := by
      rw [Int.toNat_of_nonneg h0, Arith.cast_pow]; exact hlt
    exact_mod_cast this
  unfold encode
  rw [Basic.toNat_ofNat]
  show (((v % 2^f.N).toNat % 2^(f.w * f.n) : Nat) : Int) % 2^f.N = v % 2^f.N
  have : 2^(f.w * f.n) = 2^f.N := rfl
  rw [this, Nat.mod_eq_of_lt hnat, Int.toNat_of_nonneg h0]
  exact Int.emod_emod_of_dvd _ (Int.dvd_refl _)

/-- what `storage` says about a multi-limb format -/
theorem storage_multi {d : Nat} {t : IntTy} {f : Fmt} (ht : 1 ≤ t.bits) (h : storage d t = .multi f) :
    f.w = t.bits ∧ f.signed = t.signed ∧ 1 ≤ f.n := by
  unfold storage at h
  by_cases hd : d > maxDigits t
  · simp only [hd, if_true] at h
    injection h with h
    subst h
    refine ⟨rfl, rfl, ?_⟩
    show 1 ≤ (d + (if t.signed = true then 1 else 0) + t.bits - 1) / t.bits
    have hd1 : 1 ≤ d := by unfold maxDigits at hd; split at hd <;> omega
    apply (Nat.le_div_iff_mul_le (by omega)).mpr
    omega
  · simp only [hd, if_false] at h
    cases h

/-- `wide_integer<dl, nl> OP wide_integer<dr, nr>`, both multi-limb, on values of the storage ranges -/
theorem wideCmp_multi {dl dr : Nat} {nl nr : IntTy} {f g : Fmt} (op : CmpOp) {l r : Int}
    (hb : 1 ≤ nl.bits) (hbe : nl.bits = nr.bits) (hs : nl.signed = nr.signed)
    (hf : storage dl nl = .multi f) (hg : storage dr nr = .multi g)
    (hl : InRange f.N f.signed l) (hr : InRange g.N g.signed r) :
    wideCmp dl nl dr nr op l r = .ok (specCmp op l r) := by
  obtain ⟨fw, fs, fn⟩ := storage_multi hb hf
  obtain ⟨gw, gs, gn⟩ := storage_multi (by omega) hg
  have hw : 1 ≤ f.w := by omega
  have hgw : 1 ≤ g.w := by omega
  have hNf := Bridge.N_pos hw fn
  have hNg := Bridge.N_pos hgw gn
  obtain ⟨va, ea⟩ := encode_spec (f := f) l hNf
  obtain ⟨vb, eb⟩ := encode_spec (f := g) r hNg
  unfold wideCmp wideCmpWith
  simp only [hf, hg]
  rw [cmpMixed_spec op hw (by omega) (by rw [fs, gs, hs]) fn gn va vb, ea, eb,
    wrapTwos_of_inRange hNf hl, wrapTwos_of_inRange hNg hr]

end Cnl.Wide.CmpMixed
