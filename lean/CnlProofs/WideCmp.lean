import CnlProofs.Wide
import CnlProofs.Scaled
import CnlModel.WideCmp
/-!
# CnlProofs.WideCmp — comparison of multi-limb `wide_integer`s of different widths

`widenCtor_spec`: the converting constructor of the wider `uintwide_t` keeps the value (reduced to the
destination format, which only matters when a negative value goes to an unsigned format).
`cmpMixedOrig2_converts`: after the first repair the comparison is the comparison of the two values converted to
the wider format; `cmpMixedOrig2_of_fit`: by value whenever both values fit that format.
`negTestMulti_spec`, `lhsNegative_spec`, `rhsNegative_spec`: the sign test of the second repair and its two outcomes;
`cmpMixed_by_value`: the repaired comparison of two multi-limb formats of different widths is the comparison of the
values, whatever the signedness; `cmpMixed_spec`: equal signedness, any two limb counts;
`wideCmp_multi`, `wideCmp_builtin_multi`, `wideCmp_multi_builtin`: the same through the storage rule, for every
pair of `wide_integer` types of which at least one has multi-limb storage.
Lean core only.
-/
namespace Cnl.Wide.CmpMixed
open Cnl Cnl.Wide Cnl.WideSpec
open Cnl.Wide.Bridge (Val)

theorem wrapTwos_of_inRange {N : Nat} {s : Bool} {x : Int} (hN : 1 ≤ N) (h : InRange N s x) :
    wrapTwos N s x = x := by
  have hp := Bridge.two_pow_pred (N := N) hN
  unfold InRange at h
  unfold wrapTwos
  cases s
  · simp only [Bool.false_eq_true, if_false] at h ⊢
    exact Int.emod_eq_of_lt h.1 h.2
  · simp only [if_true] at h ⊢
    rw [Int.emod_eq_of_lt (by omega) (by omega)]
    omega

theorem N_le {f g : Fmt} (hwe : f.w = g.w) (hle : f.n ≤ g.n) : f.N ≤ g.N := by
  unfold Fmt.N; rw [hwe]; exact Nat.mul_le_mul_left _ hle

theorem n_lt_of_N_lt {f g : Fmt} (hwe : f.w = g.w) (h : f.N < g.N) : f.n < g.n := by
  unfold Fmt.N at h; rw [hwe] at h
  exact Nat.lt_of_mul_lt_mul_left h

theorem n_eq_of_N_eq {f g : Fmt} (hw : 1 ≤ f.w) (hwe : f.w = g.w) (h : f.N = g.N) : f.n = g.n := by
  unfold Fmt.N at h; rw [hwe] at h
  exact Nat.eq_of_mul_eq_mul_left (by omega) h

/-- zero extension to the limb count of `g` -/
theorem pad_spec {f g : Fmt} {a : Limbs} (hwe : f.w = g.w) (hle : f.n ≤ g.n) (ha : Val f a) :
    Val g (a ++ zeros (g.n - a.length)) ∧ toNat g.w (a ++ zeros (g.n - a.length)) = toNat f.w a := by
  refine ⟨⟨?_, ?_⟩, ?_⟩
  · rw [Shift.WF_append]; exact ⟨by rw [← hwe]; exact ha.1, Shift.WF_zeros _ _⟩
  · rw [List.length_append, Shift.length_zeros, ha.2]; omega
  · rw [Shift.toNat_append, Shift.toNat_zeros, Nat.mul_zero, Nat.add_zero, hwe]

/-- the widening constructor: the value, reduced to the destination format -/
theorem widenCtor_spec {f g : Fmt} {a : Limbs} (hw : 1 ≤ f.w) (hwe : f.w = g.w) (hn : 1 ≤ f.n) (hle : f.n ≤ g.n)
    (ha : Val f a) :
    Val g (widenCtor f g a) ∧ toInt g (widenCtor f g a) = wrapTwos g.N g.signed (toInt f a) := by
  have hgw : 1 ≤ g.w := by omega
  have hgn : 1 ≤ g.n := by omega
  have hNg := Bridge.N_pos hgw hgn
  have hNf := Bridge.N_pos hw hn
  have hNle := N_le hwe hle
  unfold widenCtor
  by_cases hneg : isNeg f a = true
  · simp only [hneg, Bool.not_true, Bool.false_eq_true, if_false]
    obtain ⟨_, hvu⟩ := Arith.neg_toInt hw hn ha
    obtain ⟨h1, _, _⟩ := Basic.negate_spec ha.1
    rw [Arith.len_pow ha] at h1
    obtain ⟨hpv, hpt⟩ := pad_spec hwe hle hvu
    obtain ⟨k1, k2, k3⟩ := Basic.negate_spec hpv.1
    have hv : Val g (negate g.w (negate f.w a ++ zeros (g.n - (negate f.w a).length))) := ⟨k2, k3.trans hpv.2⟩
    refine ⟨hv, ?_⟩
    rw [Arith.len_pow hpv] at k1
    refine Arith.toInt_of_nat_mod hNg hv k1 ?_
    rw [hpt, h1, Arith.toInt_eq_isNeg hw hn ha, if_pos hneg]
    -- the pattern of a negative value is positive
    have hA : toNat f.w a ≥ 2^(f.N - 1) := by
      have := Arith.isNeg_eq hw hn ha
      rw [hneg] at this
      have := this.symm
      simp only [Bool.and_eq_true, decide_eq_true_eq] at this
      exact this.2
    have hApos : 0 < toNat f.w a := Nat.lt_of_lt_of_le (Nat.two_pow_pos _) hA
    have hlt := Bridge.val_lt ha
    have hPQ : 2^f.N ≤ 2^g.N := Nat.pow_le_pow_right (by decide) hNle
    have hmod : (2^f.N - toNat f.w a) % 2^f.N = 2^f.N - toNat f.w a := Nat.mod_eq_of_lt (by omega)
    rw [hmod]
    have e : ((2^g.N - (2^f.N - toNat f.w a) : Nat) : Int)
        = ((toNat f.w a : Int) - 2^f.N) + 2^g.N * 1 := by
      rw [Int.ofNat_sub (by omega), Int.ofNat_sub (Nat.le_of_lt hlt), Arith.cast_pow, Arith.cast_pow]
      omega
    exact Bridge.cong_of_eq_add_mul e
  · have hneg' : isNeg f a = false := by cases h : isNeg f a <;> simp_all
    simp only [hneg', Bool.not_false, if_true]
    obtain ⟨hpv, hpt⟩ := pad_spec hwe hle ha
    refine ⟨hpv, ?_⟩
    apply Bridge.toInt_of_cong hNg hpv
    rw [hpt, Arith.toInt_eq_isNeg hw hn ha, hneg']
    simp

theorem int_two_pow_le {a b : Nat} (h : a ≤ b) : (2:Int)^a ≤ 2^b := by
  have h' : (2:Nat)^a ≤ 2^b := Nat.pow_le_pow_right (by decide) h
  rw [← Arith.cast_pow a, ← Arith.cast_pow b]
  exact_mod_cast h'

theorem inRange_mono {N M : Nat} {s : Bool} {x : Int} (hN : 1 ≤ N) (hle : N ≤ M) (h : InRange N s x) :
    InRange M s x := by
  have h1 : (2:Int)^N ≤ 2^M := int_two_pow_le hle
  have h2 : (2:Int)^(N-1) ≤ 2^(M-1) := int_two_pow_le (by omega)
  unfold InRange at *
  cases s
  · simp only [Bool.false_eq_true, if_false] at h ⊢; omega
  · simp only [if_true] at h ⊢; omega

/-- an unsigned value fits every strictly wider signed format -/
theorem inRange_unsigned_to_signed {N M : Nat} {x : Int} (hlt : N < M) (h : InRange N false x) :
    InRange M true x := by
  have h1 : (2:Int)^N ≤ 2^(M-1) := int_two_pow_le (by omega)
  have h0 : (0:Int) < 2^(M-1) := Int.pow_pos (by decide)
  unfold InRange at *
  simp only [Bool.false_eq_true, if_false, if_true] at h ⊢
  omega

/-- a non-negative signed value fits every wider unsigned format -/
theorem inRange_nonneg_to_unsigned {N M : Nat} {x : Int} (hN : 1 ≤ N) (hle : N ≤ M) (h : InRange N true x) (h0 : 0 ≤ x) :
    InRange M false x := by
  have h1 : (2:Int)^N ≤ 2^M := int_two_pow_le hle
  have hp := Bridge.two_pow_pred (N := N) hN
  have hpos : (0:Int) < 2^(N-1) := Int.pow_pos (by decide)
  unfold InRange at *
  simp only [Bool.false_eq_true, if_false, if_true] at h ⊢
  omega

/-- `static_cast` to the wider format `W` (or a copy): a value of `W`, reading as the source value reduced to `W` -/
theorem convTo_spec {f W : Fmt} {a : Limbs} (hw : 1 ≤ f.w) (hwe : f.w = W.w) (hn : 1 ≤ f.n)
    (hle : f = W ∨ f.N < W.N) (ha : Val f a) :
    Val W (convTo f W a) ∧ toInt W (convTo f W a) = wrapTwos W.N W.signed (toInt f a) := by
  unfold convTo
  rcases hle with heq | hlt
  · subst heq
    simp only [if_true]
    exact ⟨ha, (Bridge.wrap_toInt (Bridge.N_pos hw hn) ha).symm⟩
  · have hne : f ≠ W := by intro h; subst h; omega
    simp only [hne, hlt, if_false, if_true]
    exact widenCtor_spec hw hwe hn (Nat.le_of_lt (n_lt_of_N_lt hwe hlt)) ha

/-- the format both operands are converted to -/
def wider (f g : Fmt) : Fmt := if f.N < g.N then g else f

/-- after the first repair: both values converted to the wider format, compared as integers -/
theorem cmpMixedOrig2_converts {f g : Fmt} {a b : Limbs} (op : CmpOp) (hw : 1 ≤ f.w) (hwe : f.w = g.w)
    (hfn : 1 ≤ f.n) (hgn : 1 ≤ g.n) (hne : f.N ≠ g.N) (ha : Val f a) (hb : Val g b) :
    cmpMixedOrig2 f g op a b
      = .ok (specCmp op (wrapTwos (wider f g).N (wider f g).signed (toInt f a))
                        (wrapTwos (wider f g).N (wider f g).signed (toInt g b))) := by
  have hgw : 1 ≤ g.w := by omega
  have hwf : cmpWellFormed f g = true := by
    unfold cmpWellFormed
    simp [hwe, hne]
  unfold cmpMixedOrig2 wider
  simp only [hwf, Bool.not_true, Bool.false_eq_true, if_false, hne]
  by_cases hlt : f.N < g.N
  · simp only [hlt, if_true]
    obtain ⟨va, ea⟩ := convTo_spec (W := g) hw hwe hfn (Or.inr hlt) ha
    obtain ⟨vb, eb⟩ := convTo_spec (W := g) hgw rfl hgn (Or.inl rfl) hb
    rw [Arith.cmpOp_spec op hgw hgn va vb, ea, eb]
  · have hgt : g.N < f.N := by omega
    simp only [hlt, if_false]
    obtain ⟨va, ea⟩ := convTo_spec (W := f) hw rfl hfn (Or.inl rfl) ha
    obtain ⟨vb, eb⟩ := convTo_spec (W := f) hgw hwe.symm hgn (Or.inr hgt) hb
    rw [Arith.cmpOp_spec op hw hfn va vb, ea, eb]

theorem wider_N_pos {f g : Fmt} (hf : 1 ≤ f.N) (hg : 1 ≤ g.N) : 1 ≤ (wider f g).N := by
  unfold wider; split <;> assumption

/-- the conversion to the wider format compares by value whenever both values fit that format -/
theorem cmpMixedOrig2_of_fit {f g : Fmt} {a b : Limbs} (op : CmpOp) (hw : 1 ≤ f.w) (hwe : f.w = g.w)
    (hfn : 1 ≤ f.n) (hgn : 1 ≤ g.n) (hne : f.N ≠ g.N) (ha : Val f a) (hb : Val g b)
    (hfa : InRange (wider f g).N (wider f g).signed (toInt f a))
    (hfb : InRange (wider f g).N (wider f g).signed (toInt g b)) :
    cmpMixedOrig2 f g op a b = .ok (specCmp op (toInt f a) (toInt g b)) := by
  have hN := wider_N_pos (Bridge.N_pos hw hfn) (Bridge.N_pos (f := g) (by omega) hgn)
  rw [cmpMixedOrig2_converts op hw hwe hfn hgn hne ha hb, wrapTwos_of_inRange hN hfa, wrapTwos_of_inRange hN hfb]

/-- a value of the narrower format fits the wider one unless it is negative and the wider format unsigned -/
theorem fits_wider {n W : Fmt} {x : Int} (hN : 1 ≤ n.N) (hlt : n.N < W.N) (hx : InRange n.N n.signed x)
    (h0 : n.signed = true → W.signed = false → 0 ≤ x) : InRange W.N W.signed x := by
  cases hn : n.signed <;> cases hW : W.signed <;> rw [hn] at hx
  · exact inRange_mono hN (Nat.le_of_lt hlt) hx
  · exact inRange_unsigned_to_signed hlt hx
  · exact inRange_nonneg_to_unsigned hN (Nat.le_of_lt hlt) hx (h0 hn hW)
  · exact inRange_mono hN (Nat.le_of_lt hlt) hx

/-! ## the second repair: a negative operand of the signed type decides -/

/-- `uintwide_t(0)`: a value of the format, reading 0 (whatever the limb width) -/
theorem fromBuiltin_zero {f : Fmt} (hn : 1 ≤ f.n) :
    Val f (fromBuiltin f i32 0) ∧ toNat f.w (fromBuiltin f i32 0) = 0 := by
  have e : fromBuiltin f i32 0 = fromUnsigned f 32 0 := by
    simp [fromBuiltin, fromSigned, i32]
  rw [e]; unfold fromUnsigned
  by_cases h : 32 ≤ f.w
  · simp only [h, if_true]
    obtain ⟨m, hm⟩ : ∃ m, f.n = m + 1 := ⟨f.n - 1, by omega⟩
    have e : (0 :: zeros (f.n - 1)).take f.n = 0 :: zeros m := by
      rw [hm]; simp [zeros]
    rw [e]
    refine ⟨⟨Shift.WF_cons.mpr ⟨Nat.two_pow_pos _, Shift.WF_zeros _ _⟩, by simp [zeros, hm]⟩, ?_⟩
    simp [toNat, Shift.toNat_zeros]
  · simp only [h, if_false]
    have hcle : Nat.min f.n ((32 + f.w - 1) / f.w) ≤ f.n := Nat.min_le_left _ _
    generalize Nat.min f.n ((32 + f.w - 1) / f.w) = cnt at *
    refine ⟨⟨Shift.WF_append.mpr ⟨Basic.ofNat_WF _ _ _, Shift.WF_zeros _ _⟩, ?_⟩, ?_⟩
    · rw [List.length_append, Basic.ofNat_length, Conv.length_zeros']; omega
    · rw [Shift.toNat_append, Shift.toNat_zeros, Basic.toNat_ofNat]; simp

/-- `to_rep(x) < 0` on a multi-limb representation tests the sign of the value -/
theorem negTestMulti_spec {f : Fmt} {a : Limbs} (hw : 1 ≤ f.w) (hn : 1 ≤ f.n) (ha : Val f a) :
    negTestMulti f a = decide (toInt f a < 0) := by
  obtain ⟨hz, ez⟩ := fromBuiltin_zero (f := f) hn
  have e0 : toInt f (fromBuiltin f i32 0) = 0 := by
    unfold toInt
    rw [ez]
    have : ¬ (0 ≥ 2^(f.N - 1)) := by have := Nat.two_pow_pos (f.N - 1); omega
    simp [this]
  unfold negTestMulti
  rw [Arith.cmpOp_spec .lt hw hn ha hz, e0]
  rfl

/-- `Operator()(-1, 0)` is the relation between any negative and any non-negative number -/
theorem lhsNegative_spec (op : CmpOp) {x y : Int} (hx : x < 0) (hy : 0 ≤ y) : lhsNegative op = specCmp op x y := by
  have e : ∀ op, lhsNegative op = specCmp op (-1) 0 := by intro op; cases op <;> decide
  rw [e]
  cases op <;> simp only [specCmp] <;> rw [Bool.eq_iff_iff] <;> simp only [decide_eq_true_eq] <;> omega

/-- `Operator()(0, -1)` is the relation between any non-negative and any negative number -/
theorem rhsNegative_spec (op : CmpOp) {x y : Int} (hx : 0 ≤ x) (hy : y < 0) : rhsNegative op = specCmp op x y := by
  have e : ∀ op, rhsNegative op = specCmp op 0 (-1) := by intro op; cases op <;> decide
  rw [e]
  cases op <;> simp only [specCmp] <;> rw [Bool.eq_iff_iff] <;> simp only [decide_eq_true_eq] <;> omega

theorem cmpMixed_unfold {f g : Fmt} {a b : Limbs} (op : CmpOp) (hwf : cmpWellFormed f g = true) :
    cmpMixed f g op a b =
      if (f.signed && !g.signed && negTestMulti f a) = true then .ok (lhsNegative op)
      else if (!f.signed && g.signed && negTestMulti g b) = true then .ok (rhsNegative op)
      else cmpMixedOrig2 f g op a b := by
  unfold cmpMixed cmpMixedOrig2
  simp only [hwf, Bool.not_true, Bool.false_eq_true, if_false]

/-- equal signedness: the sign test is not instantiated -/
theorem cmpMixed_same_sign {f g : Fmt} {a b : Limbs} (op : CmpOp) (hs : f.signed = g.signed) :
    cmpMixed f g op a b = cmpMixedOrig2 f g op a b := by
  unfold cmpMixed cmpMixedOrig2
  cases hg : g.signed <;> simp [hs, hg]

/-- **the repaired comparison of two multi-limb formats of different widths is by value**, whatever the two
signednesses and whichever operand is the wider one -/
theorem cmpMixed_by_value {f g : Fmt} {a b : Limbs} (op : CmpOp) (hw : 1 ≤ f.w) (hwe : f.w = g.w)
    (hfn : 1 ≤ f.n) (hgn : 1 ≤ g.n) (hne : f.N ≠ g.N) (ha : Val f a) (hb : Val g b) :
    cmpMixed f g op a b = .ok (specCmp op (toInt f a) (toInt g b)) := by
  have hgw : 1 ≤ g.w := by omega
  have hNf := Bridge.N_pos hw hfn
  have hNg := Bridge.N_pos hgw hgn
  have ra := Bridge.toInt_range hNf ha
  have rb := Bridge.toInt_range hNg hb
  have hwf : cmpWellFormed f g = true := by
    unfold cmpWellFormed
    simp [hwe, hne]
  rw [cmpMixed_unfold op hwf, negTestMulti_spec hw hfn ha, negTestMulti_spec hgw hgn hb]
  by_cases c1 : (f.signed && !g.signed && decide (toInt f a < 0)) = true
  · rw [if_pos c1]
    simp only [Bool.and_eq_true, Bool.not_eq_true', decide_eq_true_eq] at c1
    obtain ⟨⟨_, hgs⟩, hneg⟩ := c1
    rw [hgs] at rb
    unfold InRange at rb
    simp only [Bool.false_eq_true, if_false] at rb
    rw [lhsNegative_spec op hneg rb.1]
  · rw [if_neg c1]
    by_cases c2 : (!f.signed && g.signed && decide (toInt g b < 0)) = true
    · rw [if_pos c2]
      simp only [Bool.and_eq_true, Bool.not_eq_true', decide_eq_true_eq] at c2
      obtain ⟨⟨hfs, _⟩, hneg⟩ := c2
      rw [hfs] at ra
      unfold InRange at ra
      simp only [Bool.false_eq_true, if_false] at ra
      rw [rhsNegative_spec op ra.1 hneg]
    · rw [if_neg c2]
      have ha0 : f.signed = true → g.signed = false → 0 ≤ toInt f a := by
        intro h1 h2
        simp only [h1, h2, Bool.not_false, Bool.and_self, Bool.true_and, decide_eq_true_eq] at c1
        omega
      have hb0 : g.signed = true → f.signed = false → 0 ≤ toInt g b := by
        intro h1 h2
        simp only [h1, h2, Bool.not_false, Bool.and_self, Bool.true_and, decide_eq_true_eq] at c2
        omega
      apply cmpMixedOrig2_of_fit op hw hwe hfn hgn hne ha hb
      · unfold wider
        by_cases hlt : f.N < g.N
        · simp only [hlt, if_true]; exact fits_wider hNf hlt ra ha0
        · simp only [hlt, if_false]; exact ra
      · unfold wider
        by_cases hlt : f.N < g.N
        · simp only [hlt, if_true]; exact rb
        · simp only [hlt, if_false]; exact fits_wider hNg (by omega) rb hb0

/-- equal signedness (the instantiations that exist for every pair of widths, equal widths included): by value -/
theorem cmpMixed_spec {f g : Fmt} {a b : Limbs} (op : CmpOp) (hw : 1 ≤ f.w) (hwe : f.w = g.w)
    (hs : f.signed = g.signed) (hfn : 1 ≤ f.n) (hgn : 1 ≤ g.n) (ha : Val f a) (hb : Val g b) :
    cmpMixed f g op a b = .ok (specCmp op (toInt f a) (toInt g b)) := by
  by_cases hne : f.N = g.N
  · have hn := n_eq_of_N_eq hw hwe hne
    have hfg : f = g := by
      cases f; cases g; simp only [Fmt.mk.injEq]; exact ⟨hwe, hn, hs⟩
    subst hfg
    have hwf : cmpWellFormed f f = true := by unfold cmpWellFormed; simp
    rw [cmpMixed_same_sign op rfl]
    unfold cmpMixedOrig2
    simp only [hwf, Bool.not_true, Bool.false_eq_true, if_false, if_true]
    rw [Arith.cmpOp_spec op hw hfn ha hb]
  · exact cmpMixed_by_value op hw hwe hfn hgn hne ha hb

/-- different signedness and different widths (these instantiations compile too): by value, with the wider
operand on either side -/
theorem cmpMixed_mixed_signedness {f g : Fmt} {a b : Limbs} (op : CmpOp) (hw : 1 ≤ f.w) (hwe : f.w = g.w)
    (hfn : 1 ≤ f.n) (hgn : 1 ≤ g.n) (hlt : f.N < g.N) (ha : Val f a) (hb : Val g b) :
    cmpMixed f g op a b = .ok (specCmp op (toInt f a) (toInt g b))
    ∧ cmpMixed g f op b a = .ok (specCmp op (toInt g b) (toInt f a)) :=
  ⟨cmpMixed_by_value op hw hwe hfn hgn (by omega) ha hb,
   cmpMixed_by_value op (by omega) hwe.symm hgn hfn (by omega) hb ha⟩

/-- after the first repair only: by value when the wider format is the signed one or the operand of the narrower
format is non-negative -/
theorem cmpMixedOrig2_mixed_signedness {f g : Fmt} {a b : Limbs} (op : CmpOp) (hw : 1 ≤ f.w) (hwe : f.w = g.w)
    (hfn : 1 ≤ f.n) (hgn : 1 ≤ g.n) (hlt : f.N < g.N) (ha : Val f a) (hb : Val g b)
    (hv : g.signed = true ∨ 0 ≤ toInt f a) :
    cmpMixedOrig2 f g op a b = .ok (specCmp op (toInt f a) (toInt g b))
    ∧ cmpMixedOrig2 g f op b a = .ok (specCmp op (toInt g b) (toInt f a)) := by
  have hgw : 1 ≤ g.w := by omega
  have hNf := Bridge.N_pos hw hfn
  have hNg := Bridge.N_pos hgw hgn
  have ra := Bridge.toInt_range hNf ha
  have rb := Bridge.toInt_range hNg hb
  have hfit : InRange g.N g.signed (toInt f a) :=
    fits_wider hNf hlt ra (fun _ h2 => by
      rcases hv with h | h
      · rw [h2] at h; cases h
      · exact h)
  refine ⟨?_, ?_⟩
  · apply cmpMixedOrig2_of_fit op hw hwe hfn hgn (by omega) ha hb <;> unfold wider <;> simp only [hlt, if_true]
    · exact hfit
    · exact rb
  · have hnlt : ¬ g.N < f.N := by omega
    apply cmpMixedOrig2_of_fit op hgw hwe.symm hgn hfn (by omega) hb ha <;> unfold wider <;> simp only [hnlt, if_false]
    · exact rb
    · exact hfit

/-- the limbs of the two's-complement pattern read back as the value -/
theorem encode_spec {f : Fmt} (v : Int) (hN : 1 ≤ f.N) :
    Val f (encode f v) ∧ toInt f (encode f v) = wrapTwos f.N f.signed v := by
  have hv : Val f (encode f v) := ⟨Basic.ofNat_WF _ _ _, Basic.ofNat_length _ _ _⟩
  refine ⟨hv, ?_⟩
  apply Bridge.toInt_of_cong hN hv
  have hpos : (0:Int) < 2^f.N := Int.pow_pos (by decide)
  have h0 : 0 ≤ v % 2^f.N := Int.emod_nonneg _ (by omega)
  have hlt : v % 2^f.N < 2^f.N := Int.emod_lt_of_pos _ hpos
  have hnat : (v % 2^f.N).toNat < 2^f.N := by
    have : ((v % 2^f.N).toNat : Int) < ((2^f.N : Nat) : Int) := by
      rw [Int.toNat_of_nonneg h0, Arith.cast_pow]; exact hlt
    exact_mod_cast this
  unfold encode
  rw [Basic.toNat_ofNat]
  show (((v % 2^f.N).toNat % 2^(f.w * f.n) : Nat) : Int) % 2^f.N = v % 2^f.N
  have : 2^(f.w * f.n) = 2^f.N := rfl
  rw [this, Nat.mod_eq_of_lt hnat, Int.toNat_of_nonneg h0]
  exact Int.emod_emod_of_dvd _ (Int.dvd_refl _)

/-- what `storage` says about a multi-limb format -/
theorem storage_multi {d : Nat} {t : IntTy} {f : Fmt} (ht : 1 ≤ t.bits) (h : storage d t = .multi f) :
    f.w = t.bits ∧ f.signed = t.signed ∧ 1 ≤ f.n := by
  unfold storage at h
  by_cases hd : d > maxDigits t
  · simp only [hd, if_true] at h
    injection h with h
    subst h
    refine ⟨rfl, rfl, ?_⟩
    show 1 ≤ (d + (if t.signed = true then 1 else 0) + t.bits - 1) / t.bits
    have hd1 : 1 ≤ d := by unfold maxDigits at hd; split at hd <;> omega
    apply (Nat.le_div_iff_mul_le (by omega)).mpr
    omega
  · simp only [hd, if_false] at h
    cases h

/-- a multi-limb format is wider than every built-in integer -/
theorem storage_multi_wide {d : Nat} {t : IntTy} {f : Fmt} (ht : 1 ≤ t.bits) (h : storage d t = .multi f) :
    129 ≤ f.N := by
  unfold storage at h
  by_cases hd : d > maxDigits t
  · simp only [hd, if_true] at h
    injection h with h
    subst h
    show 129 ≤ t.bits * ((d + (if t.signed = true then 1 else 0) + t.bits - 1) / t.bits)
    have := Conv.ceil_mul_ge (w := t.bits) (b := d + (if t.signed = true then 1 else 0)) ht
    unfold maxDigits at hd
    split at hd <;> simp_all <;> omega
  · simp only [hd, if_false] at h
    cases h

/-- what `storage` says about a single-word representation -/
theorem storage_builtin {d : Nat} {t s : IntTy} (h : storage d t = .builtin s) :
    8 ≤ s.bits ∧ s.bits ≤ 128 ∧ s.signed = t.signed := by
  unfold storage at h
  by_cases hd : d > maxDigits t
  · simp only [hd, if_true] at h
    cases h
  · simp only [hd, if_false] at h
    injection h with h
    subst h
    unfold setDigits
    refine ⟨?_, ?_, rfl⟩ <;> dsimp only <;> (repeat' split) <;> omega

/-- the range of a built-in type in the terms of the wide formats -/
theorem inRange_of_intTy {t : IntTy} {v : Int} (_ht : 1 ≤ t.bits) (h : t.InRange v) : InRange t.bits t.signed v := by
  unfold IntTy.InRange IntTy.max IntTy.lowest at h
  unfold InRange
  cases hs : t.signed <;> simp only [hs, Bool.false_eq_true, if_false, if_true] at h ⊢ <;> omega

/-- a value of a built-in type fits a strictly wider format unless it is negative and the format unsigned -/
theorem builtin_fits {t : IntTy} {W : Fmt} {x : Int} (ht : 1 ≤ t.bits) (hlt : t.bits < W.N) (hx : t.InRange x)
    (h0 : t.signed = true → W.signed = false → 0 ≤ x) : InRange W.N W.signed x := by
  have hx' := inRange_of_intTy ht hx
  cases hn : t.signed <;> cases hW : W.signed <;> rw [hn] at hx'
  · exact inRange_mono ht (Nat.le_of_lt hlt) hx'
  · exact inRange_unsigned_to_signed hlt hx'
  · exact inRange_nonneg_to_unsigned ht (Nat.le_of_lt hlt) hx' (h0 hn hW)
  · exact inRange_mono ht (Nat.le_of_lt hlt) hx'

/-- `to_rep(x) < 0` on a signed single-word representation tests the sign of the value -/
theorem negTestBuiltin_spec {t : IntTy} {v : Int} (ht : 1 ≤ t.bits) (hs : t.signed = true) (hv : t.InRange v) :
    cCmp .lt (t, v) (i32, 0) = decide (v < 0) := by
  have hsg : (usualArith t i32).signed = true :=
    ScaledP.usualArith_signed (promote_signed_of_signed hs) (promote_signed_of_signed rfl)
  rw [ScaledP.cCmp_value .lt rfl (ScaledP.usualArith_bits_pos t i32)
    (ScaledP.inRange_common_of_left ht hv (Or.inl hsg))
    (ScaledP.inRange_common_of_right (L := t) (R := i32) (by decide) (by decide) (Or.inl hsg))]
  rfl

/-- the constructor from a built-in integer keeps the value (reduced to the format) -/
theorem fromBuiltin_spec {f : Fmt} {t : IntTy} {v : Int} (hw : 1 ≤ f.w) (hn : 1 ≤ f.n) (ht : 1 ≤ t.bits)
    (hb : t.bits ≤ f.N) (hv : t.InRange v) :
    Val f (fromBuiltin f t v) ∧ toInt f (fromBuiltin f t v) = wrapTwos f.N f.signed v := by
  obtain ⟨h1, h2, h3⟩ := Conv.fromBuiltin_toNat hw hn ht hb hv
  refine ⟨⟨h2, h3⟩, ?_⟩
  apply Bridge.toInt_of_cong (Bridge.N_pos hw hn) ⟨h2, h3⟩
  rw [h1, Int.toNat_of_nonneg (Int.emod_nonneg _ (by have : (0:Int) < 2^f.N := Int.pow_pos (by decide); omega))]
  exact Int.emod_emod_of_dvd _ (Int.dvd_refl _)

/-- `wide_integer<dl, nl> OP wide_integer<dr, nr>`, both multi-limb (same limb width; of different storage widths
or of the same signedness — the pairs that compile), on values of the storage ranges -/
theorem wideCmp_multi {dl dr : Nat} {nl nr : IntTy} {f g : Fmt} (op : CmpOp) {l r : Int}
    (hb : 1 ≤ nl.bits) (hbe : nl.bits = nr.bits) (hs : nl.signed = nr.signed ∨ f.N ≠ g.N)
    (hf : storage dl nl = .multi f) (hg : storage dr nr = .multi g)
    (hl : InRange f.N f.signed l) (hr : InRange g.N g.signed r) :
    wideCmp dl nl dr nr op l r = .ok (specCmp op l r) := by
  obtain ⟨fw, fs, fn⟩ := storage_multi hb hf
  obtain ⟨gw, gs, gn⟩ := storage_multi (by omega) hg
  have hw : 1 ≤ f.w := by omega
  have hgw : 1 ≤ g.w := by omega
  have hNf := Bridge.N_pos hw fn
  have hNg := Bridge.N_pos hgw gn
  obtain ⟨va, ea⟩ := encode_spec (f := f) l hNf
  obtain ⟨vb, eb⟩ := encode_spec (f := g) r hNg
  unfold wideCmp
  simp only [hf, hg]
  rcases hs with hs | hne
  · rw [cmpMixed_spec op hw (by omega) (by rw [fs, gs, hs]) fn gn va vb, ea, eb,
      wrapTwos_of_inRange hNf hl, wrapTwos_of_inRange hNg hr]
  · rw [cmpMixed_by_value op hw (by omega) fn gn hne va vb, ea, eb,
      wrapTwos_of_inRange hNf hl, wrapTwos_of_inRange hNg hr]

/-- a single-word `wide_integer` on the left, a multi-limb one on the right, any narrowest types -/
theorem wideCmp_builtin_multi {dl dr : Nat} {nl nr : IntTy} {s : IntTy} {g : Fmt} (op : CmpOp) {l r : Int}
    (hbr : 1 ≤ nr.bits) (hsb : storage dl nl = .builtin s) (hg : storage dr nr = .multi g)
    (hl : s.InRange l) (hr : InRange g.N g.signed r) :
    wideCmp dl nl dr nr op l r = .ok (specCmp op l r) := by
  obtain ⟨gw, _, gn⟩ := storage_multi hbr hg
  have hN129 := storage_multi_wide hbr hg
  obtain ⟨s8, s128, _⟩ := storage_builtin hsb
  have hsb1 : 1 ≤ s.bits := by omega
  have hgw : 1 ≤ g.w := by omega
  have hNg := Bridge.N_pos hgw gn
  obtain ⟨vb, eb⟩ := encode_spec (f := g) r hNg
  rw [wrapTwos_of_inRange hNg hr] at eb
  obtain ⟨va, ea⟩ := fromBuiltin_spec (f := g) hgw gn hsb1 (by omega) hl
  have hconv : ∀ (h0 : s.signed = true → g.signed = false → 0 ≤ l),
      cmpOp g op (fromBuiltin g s l) (encode g r) = specCmp op l r := by
    intro h0
    rw [Arith.cmpOp_spec op hgw gn va vb, ea, eb, wrapTwos_of_inRange hNg (builtin_fits hsb1 (by omega) hl h0)]
  unfold wideCmp
  simp only [hsb, hg]
  rw [negTestMulti_spec hgw gn vb, eb]
  cases hss : s.signed <;> cases hgs : g.signed
  · simp only [Bool.false_and, Bool.and_false, Bool.false_eq_true, if_false, Bool.not_false]
    rw [hconv (fun h => by rw [hss] at h; cases h)]
  · simp only [Bool.false_and, Bool.false_eq_true, if_false, Bool.not_false, Bool.true_and]
    have hl0 : 0 ≤ l := by
      have := hl.1; unfold IntTy.lowest at this; simpa [hss] using this
    by_cases hneg : r < 0
    · simp only [hneg, decide_true, if_true]
      rw [rhsNegative_spec op hl0 hneg]
    · simp only [hneg, decide_false, Bool.false_eq_true, if_false]
      rw [hconv (fun h => by rw [hss] at h; cases h)]
  · simp only [Bool.true_and, Bool.not_false, Bool.not_true, Bool.false_and, Bool.false_eq_true, if_false]
    rw [negTestBuiltin_spec hsb1 hss hl]
    have hr0 : 0 ≤ r := by
      rw [hgs] at hr; unfold InRange at hr; simp only [Bool.false_eq_true, if_false] at hr; exact hr.1
    by_cases hneg : l < 0
    · simp only [hneg, decide_true, if_true]
      rw [lhsNegative_spec op hneg hr0]
    · simp only [hneg, decide_false, Bool.false_eq_true, if_false]
      rw [hconv (fun _ _ => by omega)]
  · simp only [Bool.not_true, Bool.false_and, Bool.and_false, Bool.false_eq_true, if_false]
    rw [hconv (fun _ h => by rw [hgs] at h; cases h)]

/-- a multi-limb `wide_integer` on the left, a single-word one on the right -/
theorem wideCmp_multi_builtin {dl dr : Nat} {nl nr : IntTy} {f : Fmt} {t : IntTy} (op : CmpOp) {l r : Int}
    (hbl : 1 ≤ nl.bits) (hf : storage dl nl = .multi f) (htb : storage dr nr = .builtin t)
    (hl : InRange f.N f.signed l) (hr : t.InRange r) :
    wideCmp dl nl dr nr op l r = .ok (specCmp op l r) := by
  obtain ⟨fw, _, fn⟩ := storage_multi hbl hf
  have hN129 := storage_multi_wide hbl hf
  obtain ⟨t8, t128, _⟩ := storage_builtin htb
  have htb1 : 1 ≤ t.bits := by omega
  have hw : 1 ≤ f.w := by omega
  have hNf := Bridge.N_pos hw fn
  obtain ⟨va, ea⟩ := encode_spec (f := f) l hNf
  rw [wrapTwos_of_inRange hNf hl] at ea
  obtain ⟨vb, eb⟩ := fromBuiltin_spec (f := f) hw fn htb1 (by omega) hr
  have hconv : ∀ (h0 : t.signed = true → f.signed = false → 0 ≤ r),
      cmpOp f op (encode f l) (fromBuiltin f t r) = specCmp op l r := by
    intro h0
    rw [Arith.cmpOp_spec op hw fn va vb, ea, eb, wrapTwos_of_inRange hNf (builtin_fits htb1 (by omega) hr h0)]
  unfold wideCmp
  simp only [hf, htb]
  rw [negTestMulti_spec hw fn va, ea]
  cases hfs : f.signed <;> cases hts : t.signed
  · simp only [Bool.false_and, Bool.and_false, Bool.false_eq_true, if_false, Bool.not_false]
    rw [hconv (fun h => by rw [hts] at h; cases h)]
  · simp only [Bool.false_and, Bool.false_eq_true, if_false, Bool.not_false, Bool.true_and]
    rw [negTestBuiltin_spec htb1 hts hr]
    have hl0 : 0 ≤ l := by
      rw [hfs] at hl; unfold InRange at hl; simp only [Bool.false_eq_true, if_false] at hl; exact hl.1
    by_cases hneg : r < 0
    · simp only [hneg, decide_true, if_true]
      rw [rhsNegative_spec op hl0 hneg]
    · simp only [hneg, decide_false, Bool.false_eq_true, if_false]
      rw [hconv (fun _ _ => by omega)]
  · simp only [Bool.true_and, Bool.not_false, Bool.not_true, Bool.false_and, Bool.false_eq_true, if_false]
    have hr0 : 0 ≤ r := by
      have := hr.1; unfold IntTy.lowest at this; simpa [hts] using this
    by_cases hneg : l < 0
    · simp only [hneg, decide_true, if_true]
      rw [lhsNegative_spec op hneg hr0]
    · simp only [hneg, decide_false, Bool.false_eq_true, if_false]
      rw [hconv (fun h => by rw [hts] at h; cases h)]
  · simp only [Bool.not_true, Bool.false_and, Bool.and_false, Bool.false_eq_true, if_false]
    rw [hconv (fun _ h => by rw [hfs] at h; cases h)]

end Cnl.Wide.CmpMixed
