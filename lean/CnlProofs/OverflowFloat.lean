import CnlProofs.RoundCvt
import CnlProofs.Overflow
import CnlModel.OverflowFloat
/-!
# Lemmas for the overflow test of a floating-point → integer conversion (C06 / C07 / C11)

The repaired `is_overflow_convert<polarity, false, true>` (`CnlModel/OverflowFloat.lean`) flags a
finite floating-point operand **iff its real value lies outside `[lowest, max]`** of the destination:

* `RealGt s m e a` / `RealLt s m e a`: the real number `(-1)^s · m · 2^e` is greater / less than the
  integer `a` (an inequality between integers: both sides scaled by `2^(-min e 0)`);
* `fCmp_val`: a built-in comparison with a finite value that denotes the integer `a` (`Val`) decides the
  comparison of the real value with `a`;
* `ofInt_limit_up`: an integer `2^D - 1` with more digits than the format holds converts to `2^D`
  (round to nearest, ties to even: always up) — the reason the as-found strict comparison missed the
  values at the limit;
* `no_value_between`: a significand of `prec < D` bits cannot denote a value strictly between `2^D - 1`
  and `2^D`, so `≥ 2^D` is `> 2^D - 1`;
* `flag_pos_iff`, `flag_neg_iff`: the two polarities for any destination described by `DestLimits`
  whose limits are `2^D - 1` and one of `0`, `-2^D`, `-(2^D - 1)` (`GoodDest`): built-in integers and
  elastic_integer alike, every format with `D ≤ emax`.

Lean core only.
-/
set_option linter.unusedVariables false
set_option linter.unusedSimpArgs false

namespace Cnl.Overflow
open Cnl Cnl.FloatP

/-- `(-1)^s · m · 2^e > a` -/
def RealGt (s : Bool) (m : Nat) (e : Int) (a : Int) : Prop :=
  sval s m * 2^(e - min e 0).toNat > a * 2^(-(min e 0)).toNat

/-- `(-1)^s · m · 2^e < a` -/
def RealLt (s : Bool) (m : Nat) (e : Int) (a : Int) : Prop :=
  sval s m * 2^(e - min e 0).toNat < a * 2^(-(min e 0)).toNat

instance (s : Bool) (m : Nat) (e a : Int) : Decidable (RealGt s m e a) := by unfold RealGt; exact inferInstance
instance (s : Bool) (m : Nat) (e a : Int) : Decidable (RealLt s m e a) := by unfold RealLt; exact inferInstance

/-- the finite value `y` denotes the integer `a` -/
def Val (y : FVal) (a : Int) : Prop :=
  ∃ s M E, y = .fin s M E ∧ sval s M * 2^(E - min E 0).toNat = a * 2^(-(min E 0)).toNat

theorem val_of_intRep {y : FVal} {a : Int} (h : IntRep y a) : Val y a := by
  obtain ⟨s, M, E, rfl, hE, hv⟩ := h
  refine ⟨s, M, E, rfl, ?_⟩
  have : min E 0 = E := by omega
  rw [this, Int.sub_self, Int.toNat_zero, Int.pow_zero, Int.mul_one, hv]

theorem pow_toNat_add {a b : Int} (ha : 0 ≤ a) (hb : 0 ≤ b) : (2:Int)^a.toNat * 2^b.toNat = 2^(a + b).toNat := by
  rw [← Int.pow_add]; congr 1; omega

/-- rescaling both sides of a comparison to a finer common quantum -/
theorem scale_to (v : Int) {a b : Int} (ha : 0 ≤ a) (hb : 0 ≤ b) :
    v * 2^a.toNat * 2^b.toNat = v * 2^(a + b).toNat := by
  rw [Int.mul_assoc, pow_toNat_add ha hb]

theorem lt_scale (A B : Int) (k : Nat) : A * 2^k < B * 2^k ↔ A < B := mul_two_pow_lt_iff A B k

theorem le_scale (A B : Int) (k : Nat) : A * 2^k ≤ B * 2^k ↔ A ≤ B := by
  have := lt_scale B A k; omega

/-- the four order comparisons against a finite value denoting the integer `a` -/
theorem fCmp_val (s : Bool) (m : Nat) (e : Int) {y : FVal} {a : Int} (hy : Val y a) :
    fCmp .gt (.fin s m e) y = decide (RealGt s m e a) ∧
    fCmp .ge (.fin s m e) y = decide (¬ RealLt s m e a) ∧
    fCmp .lt (.fin s m e) y = decide (RealLt s m e a) ∧
    fCmp .le (.fin s m e) y = decide (¬ RealGt s m e a) := by
  obtain ⟨s2, M, E, rfl, hv⟩ := hy
  -- everything at the common quantum q0 = min (min e E) 0
  have key : ∀ q : Int, q ≤ e → q ≤ E → q ≤ 0 →
      (FVal.scaled s m e (if e ≤ E then e else E) < FVal.scaled s2 M E (if e ≤ E then e else E)
        ↔ RealLt s m e a) ∧
      (FVal.scaled s m e (if e ≤ E then e else E) > FVal.scaled s2 M E (if e ≤ E then e else E)
        ↔ RealGt s m e a) := by
    intro q hqe hqE hq0
    have hq' : (if e ≤ E then e else E) = min e E := by
      by_cases h : e ≤ E
      · simp only [h, ite_true]; omega
      · simp only [h, ite_false]; omega
    rw [hq', scaled_eq, scaled_eq]
    -- X, Y at quantum q
    have hX : sval s m * 2^(e - min e E).toNat * 2^(min e E - q).toNat = sval s m * 2^(e - q).toNat := by
      rw [scale_to _ (by omega) (by omega)]; congr 2; omega
    have hY : sval s2 M * 2^(E - min e E).toNat * 2^(min e E - q).toNat = a * 2^(-q).toNat := by
      rw [scale_to _ (by omega) (by omega)]
      have : sval s2 M * 2^(E - q).toNat = sval s2 M * 2^(E - min E 0).toNat * 2^(min E 0 - q).toNat := by
        rw [scale_to _ (by omega) (by omega)]; congr 2; omega
      rw [show E - min e E + (min e E - q) = E - q by omega, this, hv, scale_to _ (by omega) (by omega)]
      congr 2; omega
    have hX' : sval s m * 2^(e - min e 0).toNat * 2^(min e 0 - q).toNat = sval s m * 2^(e - q).toNat := by
      rw [scale_to _ (by omega) (by omega)]; congr 2; omega
    have hA' : a * 2^(-(min e 0)).toNat * 2^(min e 0 - q).toNat = a * 2^(-q).toNat := by
      rw [scale_to _ (by omega) (by omega)]; congr 2; omega
    unfold RealLt RealGt
    constructor
    · rw [← lt_scale _ _ (min e E - q).toNat, hX, hY, ← hX', ← hA', lt_scale]
    · show _ < _ ↔ _ < _
      rw [← lt_scale _ _ (min e E - q).toNat, hX, hY, ← hX', ← hA', lt_scale]
  have ⟨kl, kg⟩ := key (min (min e E) 0) (by omega) (by omega) (by omega)
  simp only [fCmp, FVal.cmp?]
  generalize FVal.scaled s m e _ = X at kl kg ⊢
  generalize FVal.scaled s2 M E _ = Y at kl kg ⊢
  have hgl : RealGt s m e a → ¬ RealLt s m e a := by
    unfold RealGt RealLt; omega
  by_cases h1 : X < Y
  · have hl := kl.1 h1
    have hg : ¬ RealGt s m e a := fun h => hgl h hl
    simp [h1, hl, hg]
  · by_cases h2 : X = Y
    · have hl : ¬ RealLt s m e a := fun h => by have := kl.2 h; omega
      have hg : ¬ RealGt s m e a := fun h => by have := kg.2 h; omega
      simp [h1, h2, hl, hg]
    · have hg : RealGt s m e a := kg.1 (by omega)
      have hl : ¬ RealLt s m e a := hgl hg
      simp [h1, h2, hl, hg]

/-! ## what the limits convert to -/

theorem log2_pow_pred {D : Nat} (hD : 1 ≤ D) : (2^D - 1).log2 = D - 1 := by
  have hp := Nat.two_pow_pos D
  have hn : 2^D - 1 ≠ 0 := by
    have : 2 ≤ 2^D := by
      calc 2 = 2^1 := rfl
        _ ≤ 2^D := Nat.pow_le_pow_right (by decide) hD
    omega
  have h1 : (2^D - 1).log2 < D := (Nat.log2_lt hn).2 (by omega)
  have h2 := Nat.log2_self_le hn
  by_cases h : (2^D - 1).log2 = D - 1
  · exact h
  · exfalso
    have hlt : (2^D - 1).log2 + 1 ≤ D - 1 := by omega
    have : 2^((2^D - 1).log2 + 1) ≤ 2^(D-1) := Nat.pow_le_pow_right (by decide) hlt
    have h3 : 2^D - 1 < 2^((2^D - 1).log2 + 1) := Nat.lt_log2_self
    have h4 : 2^D = 2 * 2^(D-1) := by
      rw [← Nat.pow_succ']; congr 1; omega
    have := Nat.two_pow_pos (D-1)
    omega

/-- `(P·u - 1)` over `u`, ties to even, is `P` (`P` even, `u ≥ 2`) -/
theorem rhe_pred {P u : Nat} (hP : 2 ≤ P) (hPe : P % 2 = 0) (hu : 2 ≤ u) :
    roundHalfEven (P * u - 1) u = P := by
  have hn : P * u - 1 = (u - 1) + (P - 1) * u := by
    have : P * u = (P - 1) * u + u := by
      rw [← Nat.succ_mul]; congr 1; omega
    omega
  have hq : (P * u - 1) / u = P - 1 := by
    rw [hn, Nat.add_mul_div_right _ _ (by omega), Nat.div_eq_of_lt (by omega)]; omega
  have hr : (P * u - 1) % u = u - 1 := by
    rw [hn, Nat.add_mul_mod_self_right, Nat.mod_eq_of_lt (by omega)]
  simp only [roundHalfEven, hq, hr]
  have h1 : ¬ (2 * (u - 1) < u) := by omega
  simp only [h1, ite_false]
  by_cases h2 : u < 2 * (u - 1)
  · simp only [h2, ite_true]; omega
  · have : ¬ ((P - 1) % 2 = 0) := by omega
    simp only [h2, ite_false, this]; omega

/-- an integer `±(2^D - 1)` with more digits than the format holds converts to `±2^D` -/
theorem ofInt_limit_up (f : Fmt) (hf : FmtOk f) (neg : Bool) {D : Nat} (hD : f.prec < D) (hmax : (D : Int) ≤ f.emax) :
    f.roundND neg (2^D - 1) 1 = .fin neg (2^(f.prec - 1)) ((D : Int) - f.prec + 1) := by
  obtain ⟨h1, h2, h3⟩ := hf
  have hp := Nat.two_pow_pos D
  have hn : 2^D - 1 ≠ 0 := by
    have : 2^1 ≤ 2^D := Nat.pow_le_pow_right (by decide) (by omega)
    omega
  have hlog := log2_pow_pred (show 1 ≤ D by omega)
  have hil : ilog2Q (2^D - 1) 1 = ((D - 1 : Nat) : Int) := by
    have := ilog2Q_pow2 hn 0
    rw [Nat.pow_zero] at this
    rw [this, hlog]; omega
  have hnl : ¬ (((D - 1 : Nat) : Int) < f.emin) := by omega
  have hsh : 0 ≤ ((D - 1 : Nat) : Int) - ((f.prec : Int) - 1) := by omega
  have hshn : (((D - 1 : Nat) : Int) - ((f.prec : Int) - 1)).toNat = D - f.prec := by omega
  have hsplit : 2^D = 2^f.prec * 2^(D - f.prec) := by
    rw [← Nat.pow_add]; congr 1; omega
  have hu : 2 ≤ 2^(D - f.prec) := by
    calc 2 = 2^1 := rfl
      _ ≤ 2^(D - f.prec) := Nat.pow_le_pow_right (by decide) (by omega)
  have hP : 2 ≤ 2^f.prec := by
    calc 2 = 2^1 := rfl
      _ ≤ 2^f.prec := Nat.pow_le_pow_right (by decide) (by omega)
  have hPe : 2^f.prec % 2 = 0 := by
    have : 2^f.prec = 2 * 2^(f.prec - 1) := by
      rw [← Nat.pow_succ']; congr 1; omega
    omega
  have hm : roundHalfEven (2^D - 1) (1 * 2^(D - f.prec)) = 2^f.prec := by
    rw [Nat.one_mul, hsplit]; exact rhe_pred hP hPe hu
  have hfin : ¬ (f.emax < ((D - 1 : Nat) : Int) - ((f.prec : Int) - 1) + 1 + ((f.prec : Int) - 1)) := by omega
  simp only [Fmt.roundND, hn, ite_false, hil, hnl, hsh, ite_true, hshn, hm, hfin]
  congr 1; omega

theorem val_limit_up_pos (f : Fmt) (hf : FmtOk f) {D : Nat} (hD : f.prec < D) (hmax : (D : Int) ≤ f.emax) :
    Val (f.ofInt (2^D - 1)) (2^D) := by
  have hp := two_pow_pos D
  have h1 : (1:Int) ≤ 2^D := by omega
  have hneg : decide ((2:Int)^D - 1 < 0) = false := by simp; omega
  have hna : ((2:Int)^D - 1).natAbs = 2^D - 1 := by
    have : ((2:Int)^D - 1) = ((2^D - 1 : Nat) : Int) := by
      have := Nat.two_pow_pos D
      rw [Int.natCast_sub (by omega), natCast_two_pow]; rfl
    rw [this, Int.natAbs_natCast]
  unfold Fmt.ofInt
  rw [hneg, hna, ofInt_limit_up f hf false hD hmax]
  refine ⟨false, _, _, rfl, ?_⟩
  obtain ⟨g1, g2, g3⟩ := hf
  have hmin : min ((D : Int) - f.prec + 1) 0 = 0 := by omega
  rw [hmin]
  simp only [sval, Bool.false_eq_true, ite_false, Int.sub_zero, Int.neg_zero, Int.toNat_zero, Int.pow_zero, Int.mul_one,
    natCast_two_pow]
  rw [← Int.pow_add]; congr 1; omega

theorem val_limit_up_neg (f : Fmt) (hf : FmtOk f) {D : Nat} (hD : f.prec < D) (hmax : (D : Int) ≤ f.emax) :
    Val (f.ofInt (-(2^D - 1))) (-(2^D)) := by
  have hp := two_pow_pos D
  obtain ⟨g1, g2, g3⟩ := hf
  have h2 : (2:Int) ≤ 2^D := by
    have := two_pow_le (show 1 ≤ D by omega); simpa using this
  have hneg : decide (-((2:Int)^D - 1) < 0) = true := by simp; omega
  have hna : (-((2:Int)^D - 1)).natAbs = 2^D - 1 := by
    have : ((2:Int)^D - 1) = ((2^D - 1 : Nat) : Int) := by
      have := Nat.two_pow_pos D
      rw [Int.natCast_sub (by omega), natCast_two_pow]; rfl
    rw [Int.natAbs_neg, this, Int.natAbs_natCast]
  unfold Fmt.ofInt
  rw [hneg, hna, ofInt_limit_up f ⟨g1, g2, g3⟩ true hD hmax]
  refine ⟨true, _, _, rfl, ?_⟩
  have hmin : min ((D : Int) - f.prec + 1) 0 = 0 := by omega
  rw [hmin]
  simp only [sval, ite_true, Int.sub_zero, Int.neg_zero, Int.toNat_zero, Int.pow_zero, Int.mul_one, natCast_two_pow]
  rw [Int.neg_mul, ← Int.pow_add]; congr 2; omega

/-- `-2^k` (the most negative number of a two's complement type) converts exactly -/
theorem val_neg_pow (f : Fmt) (hf : FmtOk f) {k : Nat} (hmax : (k : Int) ≤ f.emax) :
    Val (f.ofInt (-(2^k))) (-(2^k)) := by
  obtain ⟨g1, g2, g3⟩ := hf
  have hp := two_pow_pos k
  have hneg : decide (-((2:Int)^k) < 0) = true := by simp; omega
  have hna : (-((2:Int)^k)).natAbs = 1 * 2^k := by
    rw [Int.natAbs_neg, ← natCast_two_pow, Int.natAbs_natCast, Nat.one_mul]
  have hl1 : Nat.log2 1 = 0 := by decide
  have hone : 1 < 2^f.prec := by
    calc 1 < 2^1 := by decide
      _ ≤ 2^f.prec := Nat.pow_le_pow_right (by decide) (by omega)
  have := roundND_exact f true (N := 1) (by decide) hone k 0 (by rw [hl1]; omega) (by rw [hl1]; omega)
  rw [Nat.pow_zero] at this
  unfold Fmt.ofInt
  rw [hneg, hna, this, hl1]
  refine ⟨true, _, _, rfl, ?_⟩
  simp only [sval, ite_true, Nat.one_mul, Nat.sub_zero, natCast_two_pow]
  generalize hE' : ((0 : Nat) : Int) + (k : Int) - ((0 : Nat) : Int) - ((f.prec : Int) - 1) = E
  have hEv : E = (k : Int) - ((f.prec : Int) - 1) := by omega
  by_cases hE : (0:Int) ≤ E
  · have hmin : min E 0 = 0 := by omega
    rw [hmin]
    simp only [Int.sub_zero, Int.neg_zero, Int.toNat_zero, Int.pow_zero, Int.mul_one]
    rw [Int.neg_mul, ← Int.pow_add]; congr 2; omega
  · have hmin : min E 0 = E := by omega
    rw [hmin, Int.sub_self, Int.toNat_zero, Int.pow_zero, Int.mul_one, Int.neg_mul, ← Int.pow_add]
    congr 2; omega

/-! ## no value of the format lies strictly between the limit and the power of two above it -/

theorem no_value_between (s : Bool) {m : Nat} (e : Int) {p D : Nat} (hm : m < 2^p) (hpD : p < D) :
    RealGt s m e (2^D - 1) ↔ ¬ RealLt s m e (2^D) := by
  unfold RealGt RealLt
  have hK := two_pow_pos (-(min e 0)).toNat
  by_cases he : 0 ≤ e
  · have hmin : min e 0 = 0 := by omega
    rw [hmin]
    simp only [Int.neg_zero, Int.toNat_zero, Int.pow_zero, Int.mul_one]
    omega
  · have hmin : min e 0 = e := by omega
    rw [hmin, Int.sub_self, Int.toNat_zero, Int.pow_zero, Int.mul_one]
    -- |sval| < 2^p ≤ 2^(D-1) ≤ 2^D - 1 ≤ (2^D - 1)·K
    have hsv : sval s m < 2^p := by
      have : ((m : Nat) : Int) < 2^p := by rw [← natCast_two_pow]; exact_mod_cast hm
      unfold sval; split <;> omega
    have hpp := two_pow_le (show p ≤ D - 1 by omega)
    have hD2 : (2:Int)^D = 2 * 2^(D-1) := by
      rw [← two_pow_succ]; congr 1; omega
    have hpos := two_pow_pos (D-1)
    rw [hmin] at hK
    have h1 : (2:Int)^D - 1 ≤ (2^D - 1) * 2^(-e).toNat := by
      have := Int.mul_le_mul_of_nonneg_left (show (1:Int) ≤ 2^(-e).toNat by omega) (show (0:Int) ≤ 2^D - 1 by omega)
      omega
    have h2 : (2:Int)^D ≤ 2^D * 2^(-e).toNat := by
      have := Int.mul_le_mul_of_nonneg_left (show (1:Int) ≤ 2^(-e).toNat by omega) (show (0:Int) ≤ 2^D by omega)
      omega
    constructor
    · intro h; omega
    · intro h; omega

theorem no_value_between_neg (s : Bool) {m : Nat} (e : Int) {p D : Nat} (hm : m < 2^p) (hpD : p < D) :
    RealLt s m e (-(2^D - 1)) ↔ ¬ RealGt s m e (-(2^D)) := by
  unfold RealGt RealLt
  have hK := two_pow_pos (-(min e 0)).toNat
  by_cases he : 0 ≤ e
  · have hmin : min e 0 = 0 := by omega
    rw [hmin]
    simp only [Int.neg_zero, Int.toNat_zero, Int.pow_zero, Int.mul_one]
    omega
  · have hmin : min e 0 = e := by omega
    rw [hmin, Int.sub_self, Int.toNat_zero, Int.pow_zero, Int.mul_one]
    have hsv : -(2^p : Int) < sval s m := by
      have : ((m : Nat) : Int) < 2^p := by rw [← natCast_two_pow]; exact_mod_cast hm
      unfold sval; split <;> omega
    have hpp := two_pow_le (show p ≤ D - 1 by omega)
    have hD2 : (2:Int)^D = 2 * 2^(D-1) := by
      rw [← two_pow_succ]; congr 1; omega
    have hpos := two_pow_pos (D-1)
    rw [hmin] at hK
    have h1 : (2:Int)^D - 1 ≤ (2^D - 1) * 2^(-e).toNat := by
      have := Int.mul_le_mul_of_nonneg_left (show (1:Int) ≤ 2^(-e).toNat by omega) (show (0:Int) ≤ 2^D - 1 by omega)
      omega
    have h2 : (2:Int)^D ≤ 2^D * 2^(-e).toNat := by
      have := Int.mul_le_mul_of_nonneg_left (show (1:Int) ≤ 2^(-e).toNat by omega) (show (0:Int) ≤ 2^D by omega)
      omega
    rw [Int.neg_mul, Int.neg_mul]
    constructor
    · intro h; omega
    · intro h; omega

/-! ## the repaired test is exact -/

/-- the destinations the test is instantiated with: `max = 2^digits - 1`, `lowest` one of `0`
(unsigned), `-2^digits` (two's complement) or `-(2^digits - 1)` (symmetric, elastic_integer) -/
def GoodDest (d : DestLimits) : Prop :=
  d.max = 2^d.digits - 1 ∧
  ((d.signed = false ∧ d.lowest = 0) ∨ (d.signed = true ∧ d.lowest = -(2^d.digits)) ∨
   (d.signed = true ∧ d.lowest = -(2^d.digits - 1)))

theorem natAbs_lt_of_digits {D p : Nat} (h : D ≤ p) : ((2:Int)^D - 1).natAbs < 2^p := by
  have hp := two_pow_pos D
  have := two_pow_le h
  have h2 : ((2^p : Nat) : Int) = 2^p := natCast_two_pow p
  omega

/-- positive polarity: flagged iff the real value exceeds `max` -/
theorem flag_pos_iff (f : Fmt) (hf : FmtOk f) (d : DestLimits) (hd : GoodDest d) (hmax : (d.digits : Int) ≤ f.emax)
    (s : Bool) (m : Nat) (e : Int) (hm : m < 2^f.prec) :
    isOverflowConvertFloat f d true (.fin s m e) = decide (RealGt s m e d.max) := by
  obtain ⟨hdm, _⟩ := hd
  simp only [isOverflowConvertFloat, floatHoldsLimit, ite_true, Bool.not_true, Bool.false_and, Bool.false_eq_true,
    ite_false]
  by_cases hh : d.digits ≤ f.prec
  · have hv : Val (f.ofInt d.max) d.max := by
      rw [hdm]; exact val_of_intRep (ofInt_intRep f hf _ (natAbs_lt_of_digits hh))
    simp only [hh, decide_true, ite_true, (fCmp_val s m e hv).1]
  · have hv : Val (f.ofInt d.max) (2^d.digits) := by
      rw [hdm]; exact val_limit_up_pos f hf (by omega) hmax
    rw [hdm] at hv
    simp only [hh, decide_false, Bool.false_eq_true, ite_false, hdm, (fCmp_val s m e hv).2.1]
    have := no_value_between s e hm (show f.prec < d.digits by omega)
    by_cases hg : RealGt s m e (2^d.digits - 1)
    · simp [hg, this.1 hg]
    · have : ¬¬ RealLt s m e (2^d.digits) := fun h => hg (this.2 h)
      simp [hg, this]

/-- negative polarity: flagged iff the real value is below `lowest` -/
theorem flag_neg_iff (f : Fmt) (hf : FmtOk f) (d : DestLimits) (hd : GoodDest d) (hmax : (d.digits : Int) ≤ f.emax)
    (s : Bool) (m : Nat) (e : Int) (hm : m < 2^f.prec) :
    isOverflowConvertFloat f d false (.fin s m e) = decide (RealLt s m e d.lowest) := by
  obtain ⟨hdm, hlow⟩ := hd
  have hp := two_pow_pos d.digits
  simp only [isOverflowConvertFloat, floatHoldsLimit, Bool.false_eq_true, ite_false, Bool.not_false, Bool.true_and]
  rcases hlow with ⟨hs, hl⟩ | ⟨hs, hl⟩ | ⟨hs, hl⟩
  · -- unsigned: lowest = 0
    have hv : Val (f.ofInt d.lowest) d.lowest := by
      rw [hl]; exact val_of_intRep (ofInt_intRep f hf 0 (by simpa using Nat.two_pow_pos f.prec))
    simp only [hs, Bool.not_false, Bool.true_or, ite_true, (fCmp_val s m e hv).2.2.1]
  · -- two's complement: lowest = -2^digits, always exact
    have hmn : d.hasMostNegative = true := by
      simp only [DestLimits.hasMostNegative, hs, hl, hdm, Bool.true_and, decide_eq_true_eq]; omega
    have hv : Val (f.ofInt d.lowest) d.lowest := by
      rw [hl]; exact val_neg_pow f hf hmax
    simp only [hs, hmn, Bool.not_true, Bool.false_or, ite_true, (fCmp_val s m e hv).2.2.1]
  · -- symmetric: lowest = -(2^digits - 1)
    have hmn : d.hasMostNegative = false := by
      simp only [DestLimits.hasMostNegative, hs, hl, hdm, Bool.true_and, decide_eq_false_iff_not]; omega
    simp only [hs, hmn, Bool.not_true, Bool.false_or, Bool.false_eq_true, ite_false]
    by_cases hh : d.digits ≤ f.prec
    · have hv : Val (f.ofInt d.lowest) d.lowest := by
        rw [hl]
        have := natAbs_lt_of_digits hh
        exact val_of_intRep (ofInt_intRep f hf _ (by rw [Int.natAbs_neg]; exact this))
      simp only [hh, decide_true, ite_true, (fCmp_val s m e hv).2.2.1]
    · have hv : Val (f.ofInt d.lowest) (-(2^d.digits)) := by
        rw [hl]; exact val_limit_up_neg f hf (by omega) hmax
      rw [hl] at hv
      simp only [hh, decide_false, Bool.false_eq_true, ite_false, hl, (fCmp_val s m e hv).2.2.2]
      have := no_value_between_neg s e hm (show f.prec < d.digits by omega)
      by_cases hg : RealLt s m e (-(2^d.digits - 1))
      · simp [hg, this.1 hg]
      · have : ¬¬ RealGt s m e (-(2^d.digits)) := fun h => hg (this.2 h)
        simp [hg, this]

/-! ## the conversion assembled -/

theorem goodDest_ofIntTy (D : IntTy) : GoodDest (.ofIntTy D) := by
  have hmax := IntTy.max_eq D
  have hlow := IntTy.lowest_eq D
  refine ⟨hmax, ?_⟩
  by_cases hs : D.signed = true
  · simp only [hs, ite_true] at hlow
    exact Or.inr (Or.inl ⟨hs, hlow⟩)
  · have hs' : D.signed = false := by simpa using hs
    simp only [hs', Bool.false_eq_true, ite_false] at hlow
    exact Or.inl ⟨hs', hlow⟩

theorem goodDest_elastic (D : Nat) : GoodDest (.elastic D) :=
  ⟨rfl, Or.inr (Or.inr ⟨rfl, rfl⟩)⟩

/-- a real value inside `[lowest, max]` truncates to an integer inside it -/
theorem trunc_inRange (D : IntTy) (s : Bool) (m : Nat) (e : Int)
    (hg : ¬ RealGt s m e D.max) (hl : ¬ RealLt s m e D.lowest) : D.InRange (truncInt s m e) := by
  have h0 := Cnl.Rounding.zero_le_max D
  unfold RealGt at hg; unfold RealLt at hl
  rw [truncInt_eq]
  by_cases he : 0 ≤ e
  · have hmin : min e 0 = 0 := by omega
    rw [hmin] at hg hl
    simp only [Int.sub_zero, Int.neg_zero, Int.toNat_zero, Int.pow_zero, Int.mul_one] at hg hl
    simp only [he, ite_true]
    exact ⟨by omega, by omega⟩
  · have hmin : min e 0 = e := by omega
    rw [hmin, Int.sub_self, Int.toNat_zero, Int.pow_zero, Int.mul_one] at hg hl
    simp only [he, ite_false]
    have hK := two_pow_pos (-e).toNat
    generalize (2:Int)^(-e).toNat = K at hg hl hK ⊢
    have hm0 : (0:Int) ≤ (m : Int) := Int.natCast_nonneg m
    have e1 : (D.max + 1) * K = D.max * K + K := by rw [Int.add_mul, Int.one_mul]
    have e2 : (-D.lowest + 1) * K = -(D.lowest * K) + K := by rw [Int.add_mul, Int.one_mul, Int.neg_mul]
    cases s
    · simp only [sval, Bool.false_eq_true, ite_false] at hg hl ⊢
      rw [Int.tdiv_eq_ediv_of_nonneg hm0]
      have h1 : (0:Int) ≤ (m:Int) / K := Int.ediv_nonneg hm0 (by omega)
      have h2 : (m:Int) / K < D.max + 1 := (Int.ediv_lt_iff_lt_mul hK).2 (by omega)
      exact ⟨by omega, by omega⟩
    · simp only [sval, ite_true] at hg hl ⊢
      rw [Int.neg_tdiv, Int.tdiv_eq_ediv_of_nonneg hm0]
      have h1 : (0:Int) ≤ (m:Int) / K := Int.ediv_nonneg hm0 (by omega)
      have h2 : (m:Int) / K < -D.lowest + 1 := (Int.ediv_lt_iff_lt_mul hK).2 (by omega)
      exact ⟨by omega, by omega⟩

/-- conversion from a finite floating-point value under a reacting tag, every format with
`digits D ≤ emax` and every integer type: positive overflow iff the real value exceeds `max`,
negative overflow iff it is below `lowest`, otherwise the value truncated toward zero -/
theorem checkedConvertFloat_eq {tag : OvTag} (ht : tag ≠ .nat) (f : Fmt) (hf : FmtOk f) (D : IntTy)
    (hmax : (D.digits : Int) ≤ f.emax) (s : Bool) (m : Nat) (e : Int) (hm : m < 2^f.prec) :
    checkedConvertFloat tag f D (.fin s m e) =
      if RealGt s m e D.max then react tag true D
      else if RealLt s m e D.lowest then react tag false D
      else .ok (D, truncInt s m e) := by
  have htag : (tag == OvTag.nat) = false := by simpa using ht
  have hp := flag_pos_iff f hf (.ofIntTy D) (goodDest_ofIntTy D) hmax s m e hm
  have hn := flag_neg_iff f hf (.ofIntTy D) (goodDest_ofIntTy D) hmax s m e hm
  simp only [DestLimits.ofIntTy] at hp hn
  simp only [checkedConvertFloat, checkedConvertFloatWith, htag, Bool.false_eq_true, ite_false, DestLimits.ofIntTy,
    hp, hn, decide_eq_true_eq]
  by_cases hg : RealGt s m e D.max
  · simp [hg]
  · by_cases hl : RealLt s m e D.lowest
    · simp [hg, hl]
    · have hr := trunc_inRange D s m e hg hl
      simp [hg, hl, fToInt, intoRange, hr, Res.map]

end Cnl.Overflow
