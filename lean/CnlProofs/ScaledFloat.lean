import CnlProofs.FloatFaithful
import CnlModel.ScaledFloat
import CnlSpec.ScaledFloat
/-!
# CnlProofs.ScaledFloat — scaled_integer ↔ floating point, radix 2 (property C04)

* `roundND_formula` — closed form of `Fmt.roundND` on `n · 2^t / 2^b` whenever the value is not below the
  normal range: the rounded `prec`-bit significand `rsig prec n` depends on `n` only, the exponent is shifted
  — *rounding to `prec` significant bits commutes with multiplication by a power of two* — and `mk` applies
  the carry into the next binade and the overflow to `±∞`;
* `toFloat_eq_ofDyadic` — `toFloat f 2 rep e = f.ofDyadic (rep < 0) |rep| e` (the format's own
  round-to-nearest-even of the exact dyadic `rep · 2^e`), including overflow to `±∞`;
* `fl_nearest`, `fl_tie_even` — `FloatFaithful.fl` is a nearest `p`-bit number, ties to even;
* `mk_nearest` — the datum produced by `roundND_formula` satisfies `ScaledFloatSpec.IsNearestEven`;
* `toFloat_exact`, `round_trip` — values with at most `prec` significant bits.

Lean core only.
-/
set_option linter.unusedVariables false
set_option linter.unusedSimpArgs false

namespace Cnl.ScaledFloatP
open Cnl Cnl.Spec Cnl.FloatP Cnl.FloatFaithful Cnl.ScaledFloat

/-! ## closed form of `roundND` outside the subnormal range -/

/-- `n` shifted left so that it has at least `p` bits -/
def padded (p n : Nat) : Nat := n * 2^(p - 1 - n.log2)

/-- the `p`-bit significand of `n ≠ 0` rounded to nearest even, in `[2^(p-1), 2^p]` -/
def rsig (p n : Nat) : Nat := roundHalfEven (padded p n) (2^(n.log2 - (p - 1)))

/-- significand after the carry of a rounded significand in `[2^(prec-1), 2^prec]` into the next binade -/
def mkSig (f : Fmt) (m : Nat) : Nat := if m = 2 ^ f.prec then 2 ^ (f.prec - 1) else m
/-- exponent after the carry -/
def mkExp (f : Fmt) (m : Nat) (sh : Int) : Int := if m = 2 ^ f.prec then sh + 1 else sh

/-- assemble a datum from a rounded significand in `[2^(prec-1), 2^prec]`: carry, overflow to `±∞` -/
def mk (f : Fmt) (s : Bool) (m : Nat) (sh : Int) : FVal :=
  if f.emax < mkExp f m sh + ((f.prec : Int) - 1) then .inf s else .fin s (mkSig f m) (mkExp f m sh)

theorem mul_two_pow_ne_zero {n : Nat} (hn : n ≠ 0) (t : Nat) : n * 2^t ≠ 0 := by
  have := Nat.two_pow_pos t
  intro h; rcases Nat.mul_eq_zero.1 h with h | h <;> omega

theorem roundND_formula (f : Fmt) (hp : 1 ≤ f.prec) (s : Bool) {n : Nat} (hn : n ≠ 0) (t b : Nat)
    (hmin : f.emin ≤ (n.log2 : Int) + t - b) :
    f.roundND s (n * 2^t) (2^b) = mk f s (rsig f.prec n) ((n.log2 : Int) + t - b - ((f.prec : Int) - 1)) := by
  have hne := mul_two_pow_ne_zero hn t
  have hlog : ilog2Q (n * 2^t) (2^b) = (n.log2 : Int) + t - b := by
    rw [ilog2Q_pow2 hne, log2_mul_two_pow hn]; omega
  have hnotlt : ¬ ((n.log2 : Int) + t - b < f.emin) := by omega
  have hm : (if 0 ≤ (n.log2 : Int) + t - b - ((f.prec : Int) - 1)
        then roundHalfEven (n * 2^t) (2^b * 2^((n.log2 : Int) + t - b - ((f.prec : Int) - 1)).toNat)
        else roundHalfEven (n * 2^t * 2^(-((n.log2 : Int) + t - b - ((f.prec : Int) - 1))).toNat) (2^b))
      = rsig f.prec n := by
    unfold rsig padded
    split
    · rename_i h
      have e1 : n * 2^t = n * 2^(f.prec - 1 - n.log2)
          * 2^(((n.log2 : Int) + t - b - ((f.prec : Int) - 1)).toNat + b - (n.log2 - (f.prec - 1))) := by
        rw [Nat.mul_assoc, ← Nat.pow_add]; congr 2; omega
      have e2 : 2^b * 2^((n.log2 : Int) + t - b - ((f.prec : Int) - 1)).toNat = 2^(n.log2 - (f.prec - 1))
          * 2^(((n.log2 : Int) + t - b - ((f.prec : Int) - 1)).toNat + b - (n.log2 - (f.prec - 1))) := by
        rw [← Nat.pow_add, ← Nat.pow_add]; congr 1; omega
      rw [e1, e2, rhe_mul_right _ _ (Nat.two_pow_pos _)]
    · rename_i h
      have e1 : n * 2^t * 2^(-((n.log2 : Int) + t - b - ((f.prec : Int) - 1))).toNat
          = n * 2^(f.prec - 1 - n.log2) * 2^(b - (n.log2 - (f.prec - 1))) := by
        rw [Nat.mul_assoc, Nat.mul_assoc, ← Nat.pow_add, ← Nat.pow_add]; congr 2; omega
      have e2 : 2^b = 2^(n.log2 - (f.prec - 1)) * 2^(b - (n.log2 - (f.prec - 1))) := by
        rw [← Nat.pow_add]; congr 1; omega
      rw [e1]
      conv => lhs; arg 2; rw [e2]
      rw [rhe_mul_right _ _ (Nat.two_pow_pos _)]
  simp only [Fmt.roundND, hne, ite_false, hlog, hnotlt, hm, mk, mkSig, mkExp]
  rfl

/-- `ofDyadic` on `n · 2^t` at exponent `e` -/
theorem ofDyadic_formula (f : Fmt) (hp : 1 ≤ f.prec) (s : Bool) {n : Nat} (hn : n ≠ 0) (t : Nat) (e : Int)
    (hmin : f.emin ≤ (n.log2 : Int) + t + e) :
    f.ofDyadic s (n * 2^t) e = mk f s (rsig f.prec n) ((n.log2 : Int) + t + e - ((f.prec : Int) - 1)) := by
  unfold Fmt.ofDyadic
  split
  · rename_i h
    have := roundND_formula f hp s hn (t + e.toNat) 0 (by omega)
    rw [Nat.pow_zero] at this
    rw [Nat.mul_assoc, ← Nat.pow_add, this]; congr 1; omega
  · rename_i h
    have := roundND_formula f hp s hn t (-e).toNat (by omega)
    rw [this]; congr 1; omega

theorem ofDyadic_formula0 (f : Fmt) (hp : 1 ≤ f.prec) (s : Bool) {n : Nat} (hn : n ≠ 0) (e : Int)
    (hmin : f.emin ≤ (n.log2 : Int) + e) :
    f.ofDyadic s n e = mk f s (rsig f.prec n) ((n.log2 : Int) + e - ((f.prec : Int) - 1)) := by
  have := ofDyadic_formula f hp s hn 0 e (by omega)
  rw [Nat.pow_zero, Nat.mul_one] at this
  rw [this]; congr 1

/-! ## the rounded significand -/

theorem log2_padded {p n : Nat} (hn : n ≠ 0) : (padded p n).log2 = n.log2 + (p - 1 - n.log2) :=
  log2_mul_two_pow hn _

theorem padded_ne_zero {p n : Nat} (hn : n ≠ 0) : padded p n ≠ 0 := mul_two_pow_ne_zero hn _

theorem ulp_padded {p n : Nat} (hn : n ≠ 0) (hp : 1 ≤ p) : ulp p (padded p n) = 2^(n.log2 - (p - 1)) := by
  unfold ulp; rw [log2_padded hn]; congr 1; omega

theorem rsig_eq {p n : Nat} (hn : n ≠ 0) (hp : 1 ≤ p) :
    rsig p n = roundHalfEven (padded p n) (ulp p (padded p n)) := by
  rw [ulp_padded hn hp]; rfl

theorem rsig_bounds {p n : Nat} (hn : n ≠ 0) (hp : 1 ≤ p) : 2^(p-1) ≤ rsig p n ∧ rsig p n ≤ 2^p := by
  rw [rsig_eq hn hp]
  have hX := padded_ne_zero (p := p) hn
  have hq1 := pow_le_div_ulp (p := p) hp (by rw [log2_padded hn]; omega) hX
  have hq2 := div_ulp_lt (p := p) hp (padded p n)
  rcases rhe_cases (padded p n) (ulp p (padded p n)) with e | e <;> omega

theorem rhe_one (x : Nat) : roundHalfEven x 1 = x := by
  simp [roundHalfEven, Nat.mod_one]

/-- a normal significand is its own rounding -/
theorem rsig_normal {p m : Nat} (hp : 1 ≤ p) (h1 : 2^(p-1) ≤ m) (h2 : m < 2^p) : rsig p m = m := by
  have hL := log2_normal hp h1 h2
  unfold rsig padded
  rw [hL, Nat.sub_self, Nat.pow_zero, Nat.mul_one, rhe_one]

/-! ## scaled → floating point is one rounding of the exact value -/

theorem prec_pos {f : Fmt} (hf : FmtOk f) : 1 ≤ f.prec := Nat.le_trans (by decide) hf.1

theorem ofInt_formula (f : Fmt) (hf : FmtOk f) {rep : Int} (h0 : rep ≠ 0) :
    f.ofInt rep = mk f (decide (rep < 0)) (rsig f.prec rep.natAbs)
      ((rep.natAbs.log2 : Int) - ((f.prec : Int) - 1)) := by
  have hn : rep.natAbs ≠ 0 := by omega
  have := roundND_formula f (prec_pos hf) (decide (rep < 0)) hn 0 0 (by have := hf.2.1; omega)
  rw [Nat.pow_zero, Nat.mul_one] at this
  unfold Fmt.ofInt
  rw [this]; congr 1

/-- a normal datum times an exact power of two: the exponent moves, or the product overflows -/
theorem mul_fin_pow2F (f : Fmt) (hf : FmtOk f) (s : Bool) {m : Nat} (E e : Int)
    (h1 : 2^(f.prec-1) ≤ m) (h2 : m < 2^f.prec) (hmin : f.emin ≤ ((f.prec : Int) - 1) + E + e) :
    f.mul (.fin s m E) (pow2F f e)
      = if f.emax < E + e + ((f.prec : Int) - 1) then .inf s else .fin s m (E + e) := by
  have hp := prec_pos hf
  have hm : m ≠ 0 := by have := Nat.two_pow_pos (f.prec-1); omega
  have hL := log2_normal hp h1 h2
  have hne : m ≠ 2^f.prec := by omega
  simp only [Fmt.mul, pow2F, Bool.bne_false]
  rw [ofDyadic_formula f hp s hm (f.prec - 1) _ (by rw [hL]; omega), rsig_normal hp h1 h2, hL]
  have ee : ((f.prec - 1 : Nat) : Int) + ((f.prec - 1 : Nat) : Int) + (E + (e - ((f.prec : Int) - 1))) - ((f.prec : Int) - 1)
      = E + e := by omega
  rw [ee]
  simp only [mk, mkSig, mkExp, hne, ite_false]

/-- the assembled datum times an exact power of two is the datum assembled at the shifted exponent -/
theorem mk_mul_pow2F (f : Fmt) (hf : FmtOk f) (s : Bool) {r : Nat} (sh e : Int)
    (h1 : 2^(f.prec-1) ≤ r) (h2 : r ≤ 2^f.prec)
    (hfin : ¬ f.emax < (if r = 2^f.prec then sh + 1 else sh) + ((f.prec : Int) - 1))
    (hmin : f.emin ≤ ((f.prec : Int) - 1) + sh + e) :
    f.mul (mk f s r sh) (pow2F f e) = mk f s r (sh + e) := by
  have hp := prec_pos hf
  have hpp : 2^f.prec = 2 * 2^(f.prec - 1) := by rw [pow_split (show f.prec = 1 + (f.prec - 1) by omega)]
  have hp0 := Nat.two_pow_pos (f.prec - 1)
  by_cases hr : r = 2^f.prec
  · simp only [hr, ite_true] at hfin
    simp only [mk, mkSig, mkExp, hr, ite_true, hfin, ite_false]
    rw [mul_fin_pow2F f hf s (sh + 1) e (Nat.le_refl _) (by omega) (by omega)]
    have ee : sh + 1 + e = sh + e + 1 := by omega
    rw [ee]
  · simp only [hr, ite_false] at hfin
    simp only [mk, mkSig, mkExp, hr, ite_false, hfin]
    rw [mul_fin_pow2F f hf s sh e h1 (by omega) hmin]

/-- the powers `2^e` and `2^|e|` that `power_value<Float, e, 2>` computes are normal numbers -/
def PowNormal (f : Fmt) (e : Int) : Prop := f.emin ≤ e ∧ e ≤ f.emax ∧ -e ≤ f.emax

instance (f : Fmt) (e : Int) : Decidable (PowNormal f e) := by unfold PowNormal; exact inferInstance

/-- `static_cast<Float>(rep)` is finite: the rounded magnitude does not exceed the largest finite value -/
def CastFinite (f : Fmt) (rep : Int) : Prop :=
  rep = 0 ∨ ¬ f.emax < (if rsig f.prec rep.natAbs = 2^f.prec then (rep.natAbs.log2 : Int) + 1 else rep.natAbs.log2)

instance (f : Fmt) (rep : Int) : Decidable (CastFinite f rep) := by unfold CastFinite; exact inferInstance

theorem castFinite_of_lt (f : Fmt) (hf : FmtOk f) {rep : Int} (h : rep.natAbs < 2^f.emax.toNat) : CastFinite f rep := by
  by_cases h0 : rep = 0
  · exact Or.inl h0
  · right
    have := log2_lt_emax hf (by omega) h
    split <;> omega

theorem toFloat_zero (f : Fmt) (hf : FmtOk f) (e : Int) (hpw : PowNormal f e) :
    toFloat f 2 0 e = .fin false 0 f.qmin := by
  obtain ⟨a, b, c⟩ := hpw
  unfold toFloat
  rw [powerValueF_two f hf e a b c]
  have h0 : f.ofInt 0 = .fin false 0 f.qmin := by simp [Fmt.ofInt, Fmt.roundND]
  rw [h0]
  simp only [pow2F, Fmt.mul, Bool.bne_false, Nat.zero_mul, ofDyadic_zero]

/-- **scaled → floating point is the format's rounding of the exact value `rep · 2^e`** (overflow included) -/
theorem toFloat_eq_ofDyadic (f : Fmt) (hf : FmtOk f) (rep : Int) (e : Int) (hpw : PowNormal f e)
    (hc : CastFinite f rep) :
    toFloat f 2 rep e = f.ofDyadic (decide (rep < 0)) rep.natAbs e := by
  by_cases h0 : rep = 0
  · subst h0
    rw [toFloat_zero f hf e hpw]
    simp [ofDyadic_zero]
  · have hp := prec_pos hf
    have hn : rep.natAbs ≠ 0 := by omega
    obtain ⟨a, b, c⟩ := hpw
    have hfin : ¬ f.emax < (if rsig f.prec rep.natAbs = 2^f.prec then (rep.natAbs.log2 : Int) + 1 else rep.natAbs.log2) := by
      rcases hc with hc | hc
      · exact absurd hc h0
      · exact hc
    obtain ⟨hr1, hr2⟩ := rsig_bounds hn hp
    unfold toFloat
    rw [powerValueF_two f hf e a b c, ofInt_formula f hf h0,
      mk_mul_pow2F f hf _ _ e hr1 hr2 (by split <;> (split at hfin <;> omega)) (by omega),
      ofDyadic_formula0 f hp _ hn e (by omega)]
    congr 1; omega

/-! ## `fl` is a nearest `p`-bit number, ties to even -/

theorem rhe_mul_char (x u : Nat) (hu : 0 < u) :
    ∃ D r, x = D + r ∧ r < u ∧ D = x / u * u ∧ r = x % u ∧
      ((roundHalfEven x u * u = D ∧ 2 * r ≤ u ∧ (2 * r = u → roundHalfEven x u % 2 = 0)) ∨
       (roundHalfEven x u * u = D + u ∧ u ≤ 2 * r ∧ (2 * r = u → roundHalfEven x u % 2 = 0))) := by
  refine ⟨x / u * u, x % u, ?_, Nat.mod_lt x hu, rfl, rfl, ?_⟩
  · have := Nat.div_add_mod x u; rw [Nat.mul_comm] at this; omega
  · unfold roundHalfEven
    by_cases h1 : 2 * (x % u) < u
    · left; simp only [h1, ite_true]; exact ⟨trivial, by omega, by omega⟩
    · by_cases h2 : u < 2 * (x % u)
      · right; simp only [h1, h2, ite_false, ite_true]; exact ⟨by rw [Nat.add_mul, Nat.one_mul], by omega, by omega⟩
      · by_cases h3 : x / u % 2 = 0
        · left; simp only [h1, h2, h3, ite_false, ite_true]; exact ⟨trivial, by omega, fun _ => trivial⟩
        · right; simp only [h1, h2, h3, ite_false]; exact ⟨by rw [Nat.add_mul, Nat.one_mul], by omega, fun _ => by omega⟩

/-- no number with at most `p` significant bits is closer to `x` than `fl p x` (`|a − b|` written with
truncated subtraction) -/
theorem fl_nearest {p g x : Nat} (hp : 1 ≤ p) (hg : G p g) :
    (fl p x - x) + (x - fl p x) ≤ (g - x) + (x - g) := by
  obtain ⟨D, r, hx, hr, hD, hrm, hc⟩ := rhe_mul_char x (ulp p x) (ulp_pos p x)
  have hdn : g ≤ x → g ≤ D := fun h => hD ▸ dn_max hp hg h
  have hup : x ≤ g → (r = 0 ∨ D + ulp p x ≤ g) := by
    intro h
    have := up_min hp hg h
    unfold up dn at this
    rw [← hrm, ← hD] at this
    by_cases h0 : r = 0
    · exact Or.inl h0
    · right; simpa [h0] using this
  unfold fl
  generalize ulp p x = u at *
  by_cases hgx : g ≤ x
  · have := hdn hgx
    rcases hc with ⟨hy, h1, _⟩ | ⟨hy, h1, _⟩ <;> omega
  · have := hup (by omega)
    rcases hc with ⟨hy, h1, _⟩ | ⟨hy, h1, _⟩ <;> omega

/-- a different `p`-bit number is exactly as close only at a midpoint, and then the significand chosen is even -/
theorem fl_tie_even {p g x : Nat} (hp : 1 ≤ p) (hg : G p g) (hne : g ≠ fl p x)
    (htie : (fl p x - x) + (x - fl p x) = (g - x) + (x - g)) : roundHalfEven x (ulp p x) % 2 = 0 := by
  obtain ⟨D, r, hx, hr, hD, hrm, hc⟩ := rhe_mul_char x (ulp p x) (ulp_pos p x)
  have hdn : g ≤ x → g ≤ D := fun h => hD ▸ dn_max hp hg h
  have hup : x ≤ g → (r = 0 ∨ D + ulp p x ≤ g) := by
    intro h
    have := up_min hp hg h
    unfold up dn at this
    rw [← hrm, ← hD] at this
    by_cases h0 : r = 0
    · exact Or.inl h0
    · right; simpa [h0] using this
  unfold fl at hne htie
  generalize ulp p x = u at *
  by_cases hgx : g ≤ x
  · have := hdn hgx
    rcases hc with ⟨hy, h1, h3⟩ | ⟨hy, h1, h3⟩
    · exfalso; omega
    · exact h3 (by omega)
  · have := hup (by omega)
    rcases hc with ⟨hy, h1, h3⟩ | ⟨hy, h1, h3⟩
    · exact h3 (by omega)
    · exfalso; omega

/-- `fl` of `n` expressed in a unit fine enough for `p` bits: the rounded significand is `rsig p n` -/
theorem fl_scaled {p n : Nat} (hn : n ≠ 0) (hp : 1 ≤ p) {d : Nat} (hd : p - 1 - n.log2 ≤ d) :
    roundHalfEven (n * 2^d) (ulp p (n * 2^d)) = rsig p n ∧ ulp p (n * 2^d) = 2^(n.log2 + d + 1 - p) := by
  have hu : ulp p (n * 2^d) = 2^(n.log2 + d + 1 - p) := by
    unfold ulp; rw [log2_mul_two_pow hn]
  refine ⟨?_, hu⟩
  rw [hu]
  unfold rsig padded
  have e1 : n * 2^d = n * 2^(p - 1 - n.log2) * 2^(d - (p - 1 - n.log2)) := by
    rw [Nat.mul_assoc, ← Nat.pow_add]; congr 2; omega
  have e2 : 2^(n.log2 + d + 1 - p) = 2^(n.log2 - (p - 1)) * 2^(d - (p - 1 - n.log2)) := by
    rw [← Nat.pow_add]; congr 1; omega
  rw [e1, e2, rhe_mul_right _ _ (Nat.two_pow_pos _)]

/-! ## the assembled datum is the nearest datum, ties to even -/

open Cnl.ScaledFloatSpec

theorem signed_eq_sval (s : Bool) (m : Nat) : signed s m = sval s m := rfl

theorem units_signed (s : Bool) (m : Nat) (E q : Int) :
    units (signed s m) E q = signed s (m * 2^(E - q).toNat) := by
  unfold units; rw [signed_eq_sval, signed_eq_sval, sval_mul, natCast_two_pow]

theorem units_rescale (a : Int) {ea q0 q : Int} (h1 : q0 ≤ q) (h2 : q ≤ ea) :
    units a ea q0 = units a ea q * 2^(q - q0).toNat := by
  unfold units; rw [Int.mul_assoc, ← Int.pow_add]; congr 2; omega

theorem mkSig_even (f : Fmt) (hf : FmtOk f) {r : Nat} (h : r % 2 = 0) : mkSig f r % 2 = 0 := by
  unfold mkSig
  split
  · have : 2^(f.prec - 1) = 2 * 2^(f.prec - 2) := by
      rw [pow_split (show f.prec - 1 = 1 + (f.prec - 2) by have := hf.1; omega)]
    rw [this]; exact Nat.mul_mod_right _ _
  · exact h

/-- the comparison of distances in a unit `2^q0` fine enough for all three numbers -/
theorem nearest_core (f : Fmt) (hf : FmtOk f) (s : Bool) {n : Nat} (hn : n ≠ 0) (e : Int)
    (s2 : Bool) {m2 : Nat} (hm2 : m2 < 2^f.prec) (E2 q0 : Int)
    (hq1 : q0 ≤ e - ((f.prec - 1 - n.log2 : Nat) : Int)) (hq2 : q0 ≤ E2) :
    (units (signed s (mkSig f (rsig f.prec n))) (mkExp f (rsig f.prec n) ((n.log2 : Int) + e - ((f.prec : Int) - 1))) q0
        - units (signed s n) e q0).natAbs
      ≤ (units (signed s2 m2) E2 q0 - units (signed s n) e q0).natAbs
    ∧ ((units (signed s (mkSig f (rsig f.prec n))) (mkExp f (rsig f.prec n) ((n.log2 : Int) + e - ((f.prec : Int) - 1))) q0
        - units (signed s n) e q0).natAbs
      = (units (signed s2 m2) E2 q0 - units (signed s n) e q0).natAbs →
      units (signed s2 m2) E2 q0
        ≠ units (signed s (mkSig f (rsig f.prec n))) (mkExp f (rsig f.prec n) ((n.log2 : Int) + e - ((f.prec : Int) - 1))) q0 →
      mkSig f (rsig f.prec n) % 2 = 0) := by
  have hp := prec_pos hf
  have hd : f.prec - 1 - n.log2 ≤ (e - q0).toNat := by omega
  obtain ⟨hrs, hu⟩ := fl_scaled hn hp hd
  have hy : units (signed s (mkSig f (rsig f.prec n))) (mkExp f (rsig f.prec n) ((n.log2 : Int) + e - ((f.prec : Int) - 1))) q0
      = signed s (fl f.prec (n * 2^(e - q0).toNat)) := by
    rw [units_signed]; congr 1
    unfold fl; rw [hrs, hu]
    by_cases hr : rsig f.prec n = 2^f.prec
    · simp only [mkSig, mkExp, hr, ite_true]
      rw [← Nat.pow_add, ← Nat.pow_add]; congr 1; omega
    · simp only [mkSig, mkExp, hr, ite_false]
      congr 2; omega
  have hg : G f.prec (m2 * 2^(E2 - q0).toNat) := G_of_rep _ hm2
  rw [hy, units_signed s n, units_signed s2 m2]
  have key := fl_nearest (x := n * 2^(e - q0).toNat) hp hg
  have key0 := fl_nearest (x := n * 2^(e - q0).toNat) hp (G_zero f.prec)
  have tie := fun hne ht => mkSig_even f hf (hrs ▸ fl_tie_even (x := n * 2^(e - q0).toNat) hp hg hne ht)
  have tie0 := fun hne ht => mkSig_even f hf (hrs ▸ fl_tie_even (x := n * 2^(e - q0).toNat) hp (G_zero f.prec) hne ht)
  generalize fl f.prec (n * 2^(e - q0).toNat) = Y at *
  generalize n * 2^(e - q0).toNat = X at *
  generalize m2 * 2^(E2 - q0).toNat = g at *
  generalize mkSig f (rsig f.prec n) % 2 = par at *
  cases s <;> cases s2 <;> simp only [signed, ite_true, ite_false, Bool.false_eq_true] <;> refine ⟨by omega, fun h1 h2 => ?_⟩
  · exact tie (by omega) (by omega)
  · exact tie0 (by omega) (by omega)
  · exact tie0 (by omega) (by omega)
  · exact tie (by omega) (by omega)

theorem canonical_iff (f : Fmt) (s : Bool) (m : Nat) (E : Int) :
    f.Canonical (.fin s m E) = true ↔
      ((m < 2^f.prec ∧ f.qmin ≤ E) ∧ E + ((f.prec : Int) - 1) ≤ f.emax) ∧ (2^(f.prec - 1) ≤ m ∨ E = f.qmin) := by
  simp only [Fmt.Canonical, Bool.and_eq_true, Bool.or_eq_true, decide_eq_true_eq]

theorem natAbs_sub_mul (a b K : Int) : (a * K - b * K).natAbs = (a - b).natAbs * K.natAbs := by
  rw [← Int.sub_mul, Int.natAbs_mul]

/-- **the datum assembled from the rounded significand is the correctly rounded value of `±n · 2^e`** -/
theorem mk_nearest (f : Fmt) (hf : FmtOk f) (s : Bool) {n : Nat} (hn : n ≠ 0) (e : Int)
    (hmin : f.emin ≤ (n.log2 : Int) + e)
    (hfin : ¬ f.emax < mkExp f (rsig f.prec n) ((n.log2 : Int) + e - ((f.prec : Int) - 1)) + ((f.prec : Int) - 1)) :
    IsNearestEven f (signed s n) e (mk f s (rsig f.prec n) ((n.log2 : Int) + e - ((f.prec : Int) - 1))) := by
  have hp := prec_pos hf
  obtain ⟨hr1, hr2⟩ := rsig_bounds hn hp
  have hpp : 2^f.prec = 2 * 2^(f.prec - 1) := by rw [pow_split (show f.prec = 1 + (f.prec - 1) by omega)]
  have hp0 := Nat.two_pow_pos (f.prec - 1)
  have hq : f.qmin = f.emin - ((f.prec : Int) - 1) := rfl
  have hE : (n.log2 : Int) + e - ((f.prec : Int) - 1) ≤ mkExp f (rsig f.prec n) ((n.log2 : Int) + e - ((f.prec : Int) - 1)) := by
    unfold mkExp; split <;> omega
  have hS1 : 2^(f.prec - 1) ≤ mkSig f (rsig f.prec n) := by unfold mkSig; split <;> omega
  have hS2 : mkSig f (rsig f.prec n) < 2^f.prec := by unfold mkSig; split <;> omega
  have hmk : mk f s (rsig f.prec n) ((n.log2 : Int) + e - ((f.prec : Int) - 1))
      = .fin s (mkSig f (rsig f.prec n)) (mkExp f (rsig f.prec n) ((n.log2 : Int) + e - ((f.prec : Int) - 1))) := by
    simp only [mk, hfin, ite_false]
  rw [hmk]
  refine ⟨s, _, _, rfl, ?_, fun s2 m2 E2 hc2 => ?_⟩
  · rw [canonical_iff]
    exact ⟨⟨⟨hS2, by omega⟩, by omega⟩, Or.inl hS1⟩
  · rw [canonical_iff] at hc2
    have hm2 := hc2.1.1.1
    generalize hE' : mkExp f (rsig f.prec n) ((n.log2 : Int) + e - ((f.prec : Int) - 1)) = E' at *
    generalize hq' : min e (min E' E2) = q
    have hqe : q ≤ e := by omega
    have hqE : q ≤ E' := by omega
    have hqE2 : q ≤ E2 := by omega
    have hq0 : min (e - ((f.prec - 1 - n.log2 : Nat) : Int)) E2 ≤ q := by omega
    have core := nearest_core f hf s hn e s2 hm2 E2 (min (e - ((f.prec - 1 - n.log2 : Nat) : Int)) E2)
      (Int.min_le_left _ _) (Int.min_le_right _ _)
    rw [hE'] at core
    generalize min (e - ((f.prec - 1 - n.log2 : Nat) : Int)) E2 = q0 at *
    rw [units_rescale _ hq0 hqe, units_rescale _ hq0 hqE, units_rescale _ hq0 hqE2,
      natAbs_sub_mul, natAbs_sub_mul] at core
    have hK : 0 < ((2:Int)^(q - q0).toNat).natAbs := by
      have := two_pow_pos (q - q0).toNat; omega
    have hK' : (2:Int)^(q - q0).toNat ≠ 0 := by
      have := two_pow_pos (q - q0).toNat; omega
    unfold dist
    refine ⟨Nat.le_of_mul_le_mul_right core.1 hK, fun h1 h2 => core.2 (by rw [h1]) ?_⟩
    intro h; exact h2 (Int.eq_of_mul_eq_mul_right hK' h)

/-! ## scaled → floating point: correctly rounded, overflow, exact -/

/-- the rounded product `rep · 2^e` does not exceed the largest finite value of the format -/
def ProductFinite (f : Fmt) (rep : Int) (e : Int) : Prop :=
  rep = 0 ∨ ¬ f.emax < mkExp f (rsig f.prec rep.natAbs) ((rep.natAbs.log2 : Int) + e - ((f.prec : Int) - 1)) + ((f.prec : Int) - 1)

instance (f : Fmt) (rep : Int) (e : Int) : Decidable (ProductFinite f rep e) := by
  unfold ProductFinite; exact inferInstance

/-- `|rep| · 2^e < 2^emax` is enough -/
theorem productFinite_of_lt (f : Fmt) (rep : Int) (e : Int) (h : (rep.natAbs.log2 : Int) + 1 + e ≤ f.emax) :
    ProductFinite f rep e := by
  right; unfold mkExp; split <;> omega

theorem toFloat_nearest (f : Fmt) (hf : FmtOk f) (rep : Int) (e : Int) (hpw : PowNormal f e)
    (hc : CastFinite f rep) (hfin : ProductFinite f rep e) :
    IsNearestEven f rep e (toFloat f 2 rep e) := by
  rw [toFloat_eq_ofDyadic f hf rep e hpw hc]
  have hp := prec_pos hf
  by_cases h0 : rep = 0
  · subst h0
    have hq : f.qmin = f.emin - ((f.prec : Int) - 1) := rfl
    obtain ⟨h1, h2, h3⟩ := hf
    have hz : f.ofDyadic (decide ((0:Int) < 0)) (Int.natAbs 0) e = .fin false 0 f.qmin := by simp [ofDyadic_zero]
    rw [hz]
    refine ⟨false, 0, f.qmin, rfl, ?_, fun s2 m2 E2 _ => ?_⟩
    · rw [canonical_iff]
      exact ⟨⟨⟨Nat.two_pow_pos _, Int.le_refl _⟩, by omega⟩, Or.inr rfl⟩
    · refine ⟨?_, fun _ _ => rfl⟩
      simp [dist, units, signed]
  · have hn : rep.natAbs ≠ 0 := by omega
    have hfin' := hfin.resolve_left h0
    have hmin : f.emin ≤ (rep.natAbs.log2 : Int) + e := by have := hpw.1; omega
    rw [ofDyadic_formula0 f hp _ hn e hmin]
    have := mk_nearest f hf (decide (rep < 0)) hn e hmin hfin'
    rw [signed_eq_sval, sval_sign_natAbs] at this
    exact this

/-- beyond the largest finite value the conversion yields the infinity of the sign of `rep` -/
theorem toFloat_overflow (f : Fmt) (hf : FmtOk f) (rep : Int) (e : Int) (hpw : PowNormal f e)
    (hc : CastFinite f rep) (hinf : ¬ ProductFinite f rep e) :
    toFloat f 2 rep e = .inf (decide (rep < 0)) := by
  have hp := prec_pos hf
  have h0 : rep ≠ 0 := fun h => hinf (Or.inl h)
  have hn : rep.natAbs ≠ 0 := by omega
  have h1 : f.emax < mkExp f (rsig f.prec rep.natAbs) ((rep.natAbs.log2 : Int) + e - ((f.prec : Int) - 1)) + ((f.prec : Int) - 1) :=
    Decidable.byContradiction (fun h => hinf (Or.inr h))
  rw [toFloat_eq_ofDyadic f hf rep e hpw hc,
    ofDyadic_formula0 f hp _ hn e (by have := hpw.1; omega)]
  simp only [mk, h1, ite_true]

/-- a magnitude with at most `p` significant bits: the rounded significand is the magnitude itself -/
theorem rsig_exact {p n : Nat} (hn : n ≠ 0) (hp : 1 ≤ p) (hG : G p n) :
    rsig p n * 2^(n.log2 - (p - 1)) = n * 2^(p - 1 - n.log2) ∧ rsig p n < 2^p := by
  have hu := ulp_padded (p := p) hn hp
  have hmod : padded p n % 2^(n.log2 - (p - 1)) = 0 := by
    by_cases hk : n.log2 - (p - 1) = 0
    · rw [hk, Nat.pow_zero]; exact Nat.mod_one _
    · have hc : p - 1 - n.log2 = 0 := by omega
      unfold padded; rw [hc, Nat.pow_zero, Nat.mul_one]
      have : ulp p n = 2^(n.log2 - (p - 1)) := by unfold ulp; congr 1; omega
      rw [← this]; exact hG
  have hr : rsig p n = padded p n / 2^(n.log2 - (p - 1)) := rhe_of_dvd (Nat.two_pow_pos _) hmod
  constructor
  · rw [hr, Nat.div_mul_cancel (Nat.dvd_of_mod_eq_zero hmod)]; rfl
  · rw [hr, ← hu]; exact div_ulp_lt hp _

/-- with at most `prec` significant bits in `rep`, the conversion is exact (no rounding at all) -/
theorem toFloat_exact (f : Fmt) (hf : FmtOk f) (rep : Int) (e : Int) (hpw : PowNormal f e)
    (hG : G f.prec rep.natAbs) (hcast : (rep.natAbs.log2 : Int) ≤ f.emax)
    (hmax : (rep.natAbs.log2 : Int) + e ≤ f.emax) :
    (rep ≠ 0 → toFloat f 2 rep e = .fin (decide (rep < 0)) (rsig f.prec rep.natAbs)
        ((rep.natAbs.log2 : Int) + e - ((f.prec : Int) - 1)))
    ∧ IsExact rep e (toFloat f 2 rep e) := by
  have hp := prec_pos hf
  by_cases h0 : rep = 0
  · subst h0
    refine ⟨fun h => absurd rfl h, ?_⟩
    rw [toFloat_zero f hf e hpw]
    exact ⟨false, 0, f.qmin, rfl, by simp [units, signed]⟩
  · have hn : rep.natAbs ≠ 0 := by omega
    obtain ⟨hx, hlt⟩ := rsig_exact hn hp hG
    have hne : rsig f.prec rep.natAbs ≠ 2^f.prec := by omega
    have hc : CastFinite f rep := by
      right; rw [if_neg hne]; omega
    have hval : toFloat f 2 rep e = .fin (decide (rep < 0)) (rsig f.prec rep.natAbs)
        ((rep.natAbs.log2 : Int) + e - ((f.prec : Int) - 1)) := by
      rw [toFloat_eq_ofDyadic f hf rep e hpw hc, ofDyadic_formula0 f hp _ hn e (by have := hpw.1; omega)]
      have : ¬ f.emax < (rep.natAbs.log2 : Int) + e - ((f.prec : Int) - 1) + ((f.prec : Int) - 1) := by omega
      simp only [mk, mkSig, mkExp, hne, ite_false, this]
    refine ⟨fun _ => hval, ?_⟩
    rw [hval]
    refine ⟨_, _, _, rfl, ?_⟩
    have h2 : ∀ q, units rep e q = units (signed (decide (rep < 0)) rep.natAbs) e q := by
      intro q; rw [signed_eq_sval, sval_sign_natAbs]
    rw [h2, units_signed, units_signed]
    congr 1
    have e1 : ((rep.natAbs.log2 : Int) + e - ((f.prec : Int) - 1)
        - min e ((rep.natAbs.log2 : Int) + e - ((f.prec : Int) - 1))).toNat = rep.natAbs.log2 - (f.prec - 1) := by omega
    have e2 : (e - min e ((rep.natAbs.log2 : Int) + e - ((f.prec : Int) - 1))).toNat = f.prec - 1 - rep.natAbs.log2 := by omega
    rw [e1, e2]; exact hx

/-! ## scaled → floating point → the same scaled type -/

theorem roundDyadic_trunc_exact (s : Bool) {r n k c : Nat} (hx : r * 2^k = n * 2^c) (hkc : k = 0 ∨ c = 0) :
    roundDyadic .truncate (sval s r) ((k : Int) - c) = sval s n := by
  by_cases hc : c = 0
  · subst hc
    have h0 : 0 ≤ (k : Int) - (0 : Nat) := by omega
    have e0 : ((k : Int) - (0 : Nat)).toNat = k := by omega
    rw [Nat.pow_zero, Nat.mul_one] at hx
    simp only [roundDyadic, h0, ite_true, e0]
    rw [← natCast_two_pow, ← sval_mul, hx]
  · have hk : k = 0 := by omega
    subst hk
    have h0 : ¬ 0 ≤ ((0 : Nat) : Int) - c := by omega
    have e0 : (-(((0 : Nat) : Int) - c)).toNat = c := by omega
    rw [Nat.pow_zero, Nat.mul_one] at hx
    simp only [roundDyadic, h0, ite_false, e0, roundShift]
    rw [← natCast_two_pow, sval_tdiv, hx, Nat.mul_div_cancel _ (Nat.two_pow_pos c)]

/-- converting to a floating type that holds all significant bits of `rep`, and back, is the identity -/
theorem round_trip (f : Fmt) (hf : FmtOk f) (D : IntTy) (rep : Int) (e : Int) (hpw : PowNormal f e) (hpf : PowF f e)
    (hG : G f.prec rep.natAbs) (hcast : (rep.natAbs.log2 : Int) ≤ f.emax)
    (hmax : (rep.natAbs.log2 : Int) + e ≤ f.emax) (hD : D.InRange rep) :
    fromFloat f 2 D e (toFloat f 2 rep e) = .ok rep := by
  have hp := prec_pos hf
  by_cases h0 : rep = 0
  · subst h0
    rw [toFloat_zero f hf e hpw, fromFloat_eval f hf D e hpf false 0 f.qmin (Or.inl rfl)]
    have : roundDyadic .truncate (sval false 0) (f.qmin - e) = 0 := by
      simp [roundDyadic, roundShift, sval]
    rw [this]; simp only [intoRange, hD, ite_true]
  · have hn : rep.natAbs ≠ 0 := by omega
    obtain ⟨hx, hlt⟩ := rsig_exact hn hp hG
    obtain ⟨hr1, _⟩ := rsig_bounds hn hp
    have hL := log2_normal hp hr1 hlt
    have hemin := hf.2.1
    rw [(toFloat_exact f hf rep e hpw hG hcast hmax).1 h0,
      fromFloat_eval f hf D e hpf _ _ _ (Or.inr ⟨hlt, by rw [hL]; omega, by rw [hL]; omega⟩)]
    have ee : (rep.natAbs.log2 : Int) + e - ((f.prec : Int) - 1) - e
        = ((rep.natAbs.log2 - (f.prec - 1) : Nat) : Int) - ((f.prec - 1 - rep.natAbs.log2 : Nat) : Int) := by omega
    rw [ee, roundDyadic_trunc_exact _ hx (by omega), sval_sign_natAbs]
    simp only [intoRange, hD, ite_true]

/-- a representation type with at most `p` digits only holds values with at most `p` significant bits
(the lowest value `-2^digits` of a signed type is a power of two) -/
theorem G_of_inRange {S : IntTy} {rep : Int} (h : S.InRange rep) {p : Nat} (hp : 1 ≤ p) (hd : S.digits ≤ p) :
    G p rep.natAbs := by
  obtain ⟨h1, h2⟩ := h
  rw [IntTy.max_eq] at h2
  rw [IntTy.lowest_eq] at h1
  have hc := natCast_two_pow S.digits
  have hle : rep.natAbs ≤ 2^S.digits := by
    split at h1 <;> omega
  by_cases he : rep.natAbs = 2^S.digits
  · rw [he]; exact G_two_pow hp _
  · have : 2^S.digits ≤ 2^p := Nat.pow_le_pow_right (by decide) hd
    exact G_of_lt hp (by omega)

/-- the magnitude is below `2^emax` for every representation type with at most `emax` digits -/
theorem log2_le_of_inRange {S : IntTy} {rep : Int} (h : S.InRange rep) {M : Int} (hd : (S.digits : Int) ≤ M) :
    (rep.natAbs.log2 : Int) ≤ M := by
  obtain ⟨h1, h2⟩ := h
  rw [IntTy.max_eq] at h2
  rw [IntTy.lowest_eq] at h1
  have hc := natCast_two_pow S.digits
  have hle : rep.natAbs ≤ 2^S.digits := by
    split at h1 <;> omega
  have := log2_mono hle
  rw [Nat.log2_two_pow] at this
  omega

end Cnl.ScaledFloatP
