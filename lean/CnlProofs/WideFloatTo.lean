import CnlProofs.RoundCvt
import CnlProofs.Wide
import CnlModel.WideFloat
/-!
# CnlProofs.WideFloatTo — `uintwide_t` → floating point is exact on values that fit the significand

`Cnl.WideFloat.toFloat` (the model of `uintwide_t::extract_builtin_floating_point_type<F>()`) accumulates the
limbs from the least significant upwards: every set bit is one `long double` addition, every bit one
`long double` doubling of `ldexp_runner`, every limb one conversion `long double → F` and one addition in `F`.
This file proves that **none of these operations rounds** when the magnitude of the integer has at most
`prec F` significant bits (`|v| = M · 2^t`, `M < 2^prec F`) and lies below the overflow threshold of `F`:

* `toFloat_exact`  : `toFloat L F f a = F.ofInt (toInt f a)` — the conversion returns `static_cast<F>` of the
  mathematical value, for every limb width `1 ≤ w ≤ prec L`, every limb count `n ≥ 1` with `w·n ≤ emax L`
  (so that `ldexp_runner` stays finite), signed or unsigned, including `lowest()` (`-2^(N-1)`, which negates to
  itself as an unsigned magnitude);
* `toFloat_value`  : the datum explicitly, `(-1)^{v<0} · (M·2^(prec-1-log2 M)) · 2^(log2 M + t - (prec-1))`,
  `+0` for `v = 0`.

Everything is proved (nothing is left as a `Full…` statement).  Ingredients, all for arbitrary formats with `FmtOk`:

* `Rp F n` (at most `prec F` significant bits) is closed under `% 2^k`, `/ 2^k`, `· 2^k`, hence under taking a
  window of bits (`rp_window`); `InR F n` (no overflow) is monotone;
* (E0) `cN_exact`, `roundND_scale`; (E1) `add_isN`/`add_cN`; (E2) `cvt_isN`/`cvt_cN`; (E3) `pw_mul_two`/`cN_pow_mul_two`:
  rounding, addition, format conversion and doubling are exact on representable naturals
  (`IsN x n`: `x` is a finite non-negative datum of value `n`, in any representation);
* `bitLoop_spec`, `bitLoop_limb`: one limb `x` of weight `2^p` leaves `ld = x·2^p`, `ldexp_runner = 2^(p+w)`;
* `limbLoop_spec`: after `cnt` limbs the accumulator is `T mod 2^(p + w·cnt)`;
* `msbFrom_spec`, `msb_spec`, `ilim_spec`, `toNat_take_ilim`: `msb` is `⌊log₂⌋`, the loop visits every non-zero
  limb and stays inside the array;
* `abs_spec`: `is_neg` is the sign and the (conditionally negated) limbs hold `|v|`; `roundND_neg`, `ofInt_eq_cN`.

Lean core only.
-/

namespace Cnl.WideFloat.ToP
open Cnl Cnl.Wide Cnl.WideFloat Cnl.FloatP

/-! ## representable naturals -/

/-- the datum of the natural number `n` in the format (`= F.ofInt n`) -/
def cN (F : FFmt) (n : Nat) : FVal := F.roundND false n 1

/-- `n` has at most `prec F` significant bits -/
def Rp (F : FFmt) (n : Nat) : Prop := ∃ M t, n = M * 2^t ∧ M < 2^F.prec

/-- `n` is below the overflow threshold of the format -/
def InR (F : FFmt) (n : Nat) : Prop := n = 0 ∨ (n.log2 : Int) ≤ F.emax

theorem rp_zero (F : FFmt) : Rp F 0 := ⟨0, 0, by simp, Nat.two_pow_pos _⟩

theorem rp_of_lt {F : FFmt} {n : Nat} (h : n < 2^F.prec) : Rp F n := ⟨n, 0, by simp, h⟩

theorem rp_mul_pow {F : FFmt} {n : Nat} (h : Rp F n) (k : Nat) : Rp F (n * 2^k) := by
  obtain ⟨M, t, rfl, hM⟩ := h
  exact ⟨M, t + k, by rw [Nat.mul_assoc, ← Nat.pow_add], hM⟩

theorem rp_mod_pow {F : FFmt} {n : Nat} (h : Rp F n) (k : Nat) : Rp F (n % 2^k) := by
  obtain ⟨M, t, rfl, hM⟩ := h
  by_cases hk : k ≤ t
  · have e : M * 2^t = (M * 2^(t - k)) * 2^k := by
      rw [Nat.mul_assoc, ← Nat.pow_add]; congr 2; omega
    rw [e, Nat.mul_mod_left]
    exact rp_zero F
  · have e : 2^k = 2^(k - t) * 2^t := by rw [← Nat.pow_add]; congr 1; omega
    rw [e, Nat.mul_mod_mul_right]
    refine ⟨M % 2^(k - t), t, rfl, Nat.lt_of_le_of_lt (Nat.mod_le _ _) hM⟩

theorem rp_div_pow {F : FFmt} {n : Nat} (h : Rp F n) (k : Nat) : Rp F (n / 2^k) := by
  obtain ⟨M, t, rfl, hM⟩ := h
  by_cases hk : k ≤ t
  · have e : M * 2^t = (M * 2^(t - k)) * 2^k := by
      rw [Nat.mul_assoc, ← Nat.pow_add]; congr 2; omega
    rw [e, Nat.mul_div_cancel _ (Nat.two_pow_pos _)]
    exact ⟨M, t - k, rfl, hM⟩
  · have e : 2^k = 2^t * 2^(k - t) := by rw [← Nat.pow_add]; congr 1; omega
    rw [e, ← Nat.div_div_eq_div_mul, Nat.mul_div_cancel _ (Nat.two_pow_pos _)]
    exact rp_of_lt (Nat.lt_of_le_of_lt (Nat.div_le_self _ _) hM)

/-- a window of the bits of `n` -/
theorem rp_window {F : FFmt} {n : Nat} (h : Rp F n) (k w : Nat) : Rp F (n / 2^k % 2^w * 2^k) :=
  rp_mul_pow (rp_mod_pow (rp_div_pow h k) w) k

theorem log2_mono {a b : Nat} (ha : a ≠ 0) (hab : a ≤ b) : a.log2 ≤ b.log2 := by
  have hb : b ≠ 0 := by omega
  rw [Nat.le_log2 hb]
  exact Nat.le_trans (Nat.log2_self_le ha) hab

theorem inR_mono {F : FFmt} {a b : Nat} (hab : a ≤ b) (h : InR F b) : InR F a := by
  by_cases ha : a = 0
  · exact Or.inl ha
  · rcases h with h | h
    · omega
    · have := log2_mono ha hab
      exact Or.inr (by omega)

theorem inR_of_lt {F : FFmt} {n k : Nat} (h : n < 2^k) (hk : (k : Int) ≤ F.emax + 1) : InR F n := by
  by_cases hn : n = 0
  · exact Or.inl hn
  · have := (Nat.log2_lt hn).2 h
    exact Or.inr (by omega)

/-! ## exactness of the rounded operations on representable naturals -/

theorem cN_zero (F : FFmt) : cN F 0 = .fin false 0 F.qmin := by simp [cN, Fmt.roundND]

theorem ofInt_zero (F : FFmt) : F.ofInt 0 = cN F 0 := by simp [Fmt.ofInt, cN]

theorem ofInt_natCast (F : FFmt) (n : Nat) : F.ofInt (n : Int) = cN F n := by
  have : decide ((n : Int) < 0) = false := by simp
  simp only [Fmt.ofInt, cN, this, Int.natAbs_natCast]

/-- (E0) the explicit datum of a representable natural -/
theorem cN_exact (F : FFmt) (hF : FmtOk F) {M : Nat} (t : Nat) (hM0 : M ≠ 0) (hM : M < 2^F.prec)
    (hmax : (M.log2 : Int) + t ≤ F.emax) :
    cN F (M * 2^t) = .fin false (M * 2^(F.prec - 1 - M.log2)) ((M.log2 : Int) + t - ((F.prec : Int) - 1)) := by
  obtain ⟨h1, h2, h3⟩ := hF
  have := roundND_exact F false hM0 hM t 0 (by omega) (by omega)
  rw [Nat.pow_zero] at this
  rw [cN, this]; congr 1

/-- (E0) a representable natural written over a power-of-two denominator rounds to its datum -/
theorem roundND_scale (F : FFmt) (hF : FmtOk F) {n : Nat} (hr : Rp F n) (hi : InR F n) (j : Nat) :
    F.roundND false (n * 2^j) (2^j) = cN F n := by
  by_cases hn : n = 0
  · subst hn; simp [cN, Fmt.roundND]
  · obtain ⟨M, t, rfl, hM⟩ := hr
    have hM0 : M ≠ 0 := by intro h; subst h; simp at hn
    have hlog : ((M * 2^t).log2 : Int) ≤ F.emax := by rcases hi with h | h; exact absurd h hn; exact h
    rw [log2_mul_two_pow hM0] at hlog
    rw [cN_exact F hF t hM0 hM (by omega)]
    obtain ⟨h1, h2, h3⟩ := hF
    have := roundND_exact F false hM0 hM (t + j) j (by omega) (by omega)
    rw [Nat.mul_assoc, ← Nat.pow_add, this]; congr 1; omega

/-- `x` is the finite non-negative value `n` (in any representation) -/
def IsN (x : FVal) (n : Nat) : Prop := ∃ m e, x = .fin false m e ∧ m * 2^e.toNat = n * 2^(-e).toNat

theorem cN_isN (F : FFmt) (hF : FmtOk F) {n : Nat} (hr : Rp F n) (hi : InR F n) : IsN (cN F n) n := by
  by_cases hn : n = 0
  · subst hn; exact ⟨0, F.qmin, cN_zero F, by simp⟩
  · obtain ⟨M, t, rfl, hM⟩ := hr
    have hM0 : M ≠ 0 := by intro h; subst h; simp at hn
    have hlog : ((M * 2^t).log2 : Int) ≤ F.emax := by rcases hi with h | h; exact absurd h hn; exact h
    rw [log2_mul_two_pow hM0] at hlog
    have hL := log2_lt_prec hM0 hM
    refine ⟨_, _, cN_exact F hF t hM0 hM (by omega), ?_⟩
    rw [Nat.mul_assoc, Nat.mul_assoc, ← Nat.pow_add, ← Nat.pow_add]; congr 2; omega

theorem val_scale {m n : Nat} {e q : Int} (h : m * 2^e.toNat = n * 2^(-e).toNat) (hq : q ≤ e) :
    (m * 2^(e - q).toNat) * 2^q.toNat = n * 2^(-q).toNat := by
  by_cases he : 0 ≤ e
  · have e0 : (-e).toNat = 0 := by omega
    rw [e0, Nat.pow_zero, Nat.mul_one] at h
    rw [← h, Nat.mul_assoc, Nat.mul_assoc, ← Nat.pow_add, ← Nat.pow_add]; congr 2; omega
  · have e0 : e.toNat = 0 := by omega
    have q0 : q.toNat = 0 := by omega
    rw [e0, Nat.pow_zero, Nat.mul_one] at h
    rw [q0, Nat.pow_zero, Nat.mul_one, h, Nat.mul_assoc, ← Nat.pow_add]; congr 2; omega

theorem ofDyadic_val (F : FFmt) (hF : FmtOk F) {C n : Nat} {q : Int} (hr : Rp F n) (hi : InR F n)
    (h : C * 2^q.toNat = n * 2^(-q).toNat) : F.ofDyadic false C q = cN F n := by
  unfold Fmt.ofDyadic
  by_cases hq : 0 ≤ q
  · have q0 : (-q).toNat = 0 := by omega
    rw [q0, Nat.pow_zero, Nat.mul_one] at h
    simp only [hq, ite_true, h, cN]
  · have q0 : q.toNat = 0 := by omega
    rw [q0, Nat.pow_zero, Nat.mul_one] at h
    simp only [hq, ite_false, h]
    exact roundND_scale F hF hr hi _

theorem scaled_false (m : Nat) (e q : Int) : FVal.scaled false m e q = ((m * 2^(e - q).toNat : Nat) : Int) := by
  simp [FVal.scaled]

/-- (E1) addition of two non-negative integer values whose sum is representable is exact -/
theorem add_isN (F : FFmt) (hF : FmtOk F) {x y : FVal} {a b : Nat} (hx : IsN x a) (hy : IsN y b)
    (hr : Rp F (a + b)) (hi : InR F (a + b)) : F.add x y = cN F (a + b) := by
  obtain ⟨m1, e1, rfl, h1⟩ := hx
  obtain ⟨m2, e2, rfl, h2⟩ := hy
  have hq1 : (if e1 ≤ e2 then e1 else e2) ≤ e1 := by split <;> omega
  have hq2 : (if e1 ≤ e2 then e1 else e2) ≤ e2 := by split <;> omega
  simp only [Fmt.add, scaled_false]
  generalize (if e1 ≤ e2 then e1 else e2) = q at hq1 hq2 ⊢
  have v1 := val_scale h1 hq1
  have v2 := val_scale h2 hq2
  rw [← Int.natCast_add]
  generalize hC : m1 * 2^(e1 - q).toNat + m2 * 2^(e2 - q).toNat = C
  have hv : C * 2^q.toNat = (a + b) * 2^(-q).toNat := by
    rw [← hC, Nat.add_mul, Nat.add_mul, v1, v2]
  by_cases hC0 : C = 0
  · subst hC0
    have hab : a + b = 0 := by
      rw [Nat.zero_mul] at hv
      rcases Nat.mul_eq_zero.1 hv.symm with h | h
      · exact h
      · have := Nat.two_pow_pos (-q).toNat; omega
    rw [hab, cN_zero]; simp
  · have hne : ((C : Nat) : Int) ≠ 0 := by omega
    have hneg : decide (((C : Nat) : Int) < 0) = false := by simp
    simp only [hne, ite_false, hneg, Int.natAbs_natCast]
    exact ofDyadic_val F hF hr hi hv

/-- (E2) conversion of a non-negative integer value representable in the target is exact -/
theorem cvt_isN (F : FFmt) (hF : FmtOk F) {x : FVal} {a : Nat} (hx : IsN x a)
    (hr : Rp F a) (hi : InR F a) : F.cvt x = cN F a := by
  obtain ⟨m, e, rfl, h⟩ := hx
  exact ofDyadic_val F hF hr hi h

/-! ## the running power of two -/

/-- `2^p` as a datum -/
def pw (L : FFmt) (p : Nat) : FVal := pow2F L (p : Int)

theorem pw_isN (L : FFmt) (hL : FmtOk L) (p : Nat) : IsN (pw L p) (2^p) := by
  obtain ⟨h1, h2, h3⟩ := hL
  refine ⟨_, _, rfl, ?_⟩
  rw [← Nat.pow_add, ← Nat.pow_add]; congr 1; omega

theorem ofInt_one_pw (L : FFmt) (hL : FmtOk L) : L.ofInt 1 = pw L 0 := ofInt_one_pow2F L hL

/-- (E3) doubling the running power of two is exact -/
theorem pw_mul_two (L : FFmt) (hL : FmtOk L) (p : Nat) (h : ((p + 1 : Nat) : Int) ≤ L.emax) :
    L.mul (pw L p) (L.ofInt 2) = pw L (p + 1) := by
  have e2 : L.ofInt 2 = pow2F L 1 := ofInt_two_pow2F L hL
  have := mul_pow2F L hL (p : Int) 1 (by have := hL.2.1; omega) (by omega)
  rw [e2, pw, this, pw]; congr 1

theorem pw_eq_cN (L : FFmt) (hL : FmtOk L) (p : Nat) (h : (p : Int) ≤ L.emax) : pw L p = cN L (2^p) := by
  obtain ⟨h1, h2, h3⟩ := hL
  have hlt : 1 < 2^L.prec := by
    have : 2^1 ≤ 2^L.prec := Nat.pow_le_pow_right (by decide) (by omega)
    omega
  have := cN_exact L ⟨h1, h2, h3⟩ (M := 1) p (by decide) hlt (by rw [log2_one]; omega)
  rw [Nat.one_mul, Nat.one_mul, log2_one, Nat.sub_zero] at this
  rw [this, pw, pow2F]; congr 1; omega

/-- (E1) in terms of data: `a + b` is computed exactly -/
theorem add_cN (F : FFmt) (hF : FmtOk F) {a b : Nat} (ha : Rp F a) (hia : InR F a) (hb : Rp F b) (hib : InR F b)
    (hr : Rp F (a + b)) (hi : InR F (a + b)) : F.add (cN F a) (cN F b) = cN F (a + b) :=
  add_isN F hF (cN_isN F hF ha hia) (cN_isN F hF hb hib) hr hi

/-- (E2) in terms of data: `long double → F` is exact on a natural representable in both formats -/
theorem cvt_cN (L F : FFmt) (hL : FmtOk L) (hF : FmtOk F) {a : Nat} (hL1 : Rp L a) (hL2 : InR L a)
    (hr : Rp F a) (hi : InR F a) : F.cvt (cN L a) = cN F a :=
  cvt_isN F hF (cN_isN L hL hL1 hL2) hr hi

/-- (E3) in terms of data -/
theorem cN_pow_mul_two (L : FFmt) (hL : FmtOk L) (k : Nat) (h : ((k + 1 : Nat) : Int) ≤ L.emax) :
    L.mul (cN L (2^k)) (L.ofInt 2) = cN L (2^(k+1)) := by
  rw [← pw_eq_cN L hL k (by omega), ← pw_eq_cN L hL (k+1) h]
  exact pw_mul_two L hL k h

/-! ## the inner loop over the bits of one limb -/

theorem mod_two_pow_succ (x k : Nat) : x % 2^(k+1) = x % 2 + 2 * (x / 2 % 2^k) := by
  rw [Nat.pow_succ', Nat.mod_mul]

theorem pow_lt_of_le {a b : Nat} (h : a ≤ b) : 2^a ≤ 2^b := Nat.pow_le_pow_right (by decide) h

/-- invariant of `bitLoop`: `c` holds the `j` bits already visited, `p0` is the weight of the limb -/
theorem bitLoop_spec (L : FFmt) (hL : FmtOk L) : ∀ (k x c j p0 : Nat), c < 2^j → j + k ≤ L.prec →
    ((p0 + j + k : Nat) : Int) ≤ L.emax →
    bitLoop L k x (cN L (c * 2^p0)) (pw L (p0 + j))
      = (cN L ((c + x % 2^k * 2^j) * 2^p0), pw L (p0 + j + k)) := by
  intro k
  induction k with
  | zero =>
    intro x c j p0 _ _ _
    simp [bitLoop, Nat.mod_one]
  | succ k ih =>
    intro x c j p0 hc hjk hmax
    have hrun : L.mul (pw L (p0 + j)) (L.ofInt 2) = pw L (p0 + (j + 1)) :=
      pw_mul_two L hL (p0 + j) (by omega)
    have hc' : c + x % 2 * 2^j < 2^(j+1) := by
      have : x % 2 < 2 := Nat.mod_lt _ (by decide)
      have h2 : x % 2 * 2^j ≤ 1 * 2^j := Nat.mul_le_mul_right _ (by omega)
      rw [Nat.pow_succ]; omega
    -- the accumulator after this bit
    have hld : (if x % 2 = 1 then L.add (cN L (c * 2^p0)) (pw L (p0 + j)) else cN L (c * 2^p0))
        = cN L ((c + x % 2 * 2^j) * 2^p0) := by
      by_cases hb : x % 2 = 1
      · simp only [hb, ite_true, Nat.one_mul]
        have hcp : c < 2^L.prec := Nat.lt_of_lt_of_le hc (pow_lt_of_le (by omega))
        have hlt1 : c * 2^p0 < 2^(j + p0) := by
          rw [Nat.pow_add]; exact Nat.mul_lt_mul_of_pos_right hc (Nat.two_pow_pos _)
        have hx := cN_isN L hL (rp_mul_pow (rp_of_lt hcp) p0) (inR_of_lt hlt1 (by omega))
        have hy := pw_isN L hL (p0 + j)
        have hsum : c * 2^p0 + 2^(p0 + j) = (c + 2^j) * 2^p0 := by
          rw [Nat.add_mul, ← Nat.pow_add, Nat.add_comm p0 j]
        rw [hb, Nat.one_mul] at hc'
        have hlt2 : (c + 2^j) * 2^p0 < 2^(j + 1 + p0) := by
          rw [Nat.pow_add (n := p0)]; exact Nat.mul_lt_mul_of_pos_right hc' (Nat.two_pow_pos _)
        have hcp2 : c + 2^j < 2^L.prec := Nat.lt_of_lt_of_le hc' (pow_lt_of_le (by omega))
        rw [← hsum] at hlt2
        have := add_isN L hL hx hy (by rw [hsum]; exact rp_mul_pow (rp_of_lt hcp2) p0) (inR_of_lt hlt2 (by omega))
        rw [this, hsum]
      · have h0 : x % 2 = 0 := by omega
        simp only [h0, Nat.zero_mul, Nat.add_zero]
        simp
    have hstep := ih (x / 2) (c + x % 2 * 2^j) (j + 1) p0 hc' (by omega) (by omega)
    have hval : c + x % 2 * 2^j + x / 2 % 2^k * 2^(j+1) = c + x % 2^(k+1) * 2^j := by
      rw [mod_two_pow_succ, Nat.add_mul, Nat.pow_succ, Nat.add_assoc]
      congr 2
      rw [Nat.mul_comm 2, Nat.mul_assoc, Nat.mul_comm 2]
    simp only [bitLoop]
    rw [hrun, hld, hstep, hval]
    congr 2; omega

/-- one whole limb `x` of weight `2^p0`: `ld = x · 2^p0`, `ldexp_runner = 2^(p0+w)` -/
theorem bitLoop_limb (L : FFmt) (hL : FmtOk L) {w x : Nat} (p0 : Nat) (hx : x < 2^w) (hw : w ≤ L.prec)
    (hmax : ((p0 + w : Nat) : Int) ≤ L.emax) :
    bitLoop L w x (L.ofInt 0) (pw L p0) = (cN L (x * 2^p0), pw L (p0 + w)) := by
  have := bitLoop_spec L hL w x 0 0 p0 (Nat.two_pow_pos 0) (by omega) (by simpa using hmax)
  rw [Nat.zero_mul, Nat.add_zero, Nat.zero_add, Nat.pow_zero, Nat.mul_one, Nat.mod_eq_of_lt hx] at this
  rw [ofInt_zero, this]

/-! ## the outer loop over the limbs -/

/-- invariant of `limbLoop`: the limbs still to visit are the bits of `T` from `p` upwards, the accumulator holds
the bits below `p`, the runner is `2^p` -/
theorem limbLoop_spec (L F : FFmt) (hL : FmtOk L) (hF : FmtOk F) {w : Nat} (hw : w ≤ L.prec) {T : Nat}
    (hr : Rp F T) (hi : InR F T) : ∀ (xs : Limbs) (cnt p : Nat), WF w xs → toNat w xs = T / 2^p →
    cnt ≤ xs.length → ((p + w * cnt : Nat) : Int) ≤ L.emax →
    limbLoop L F w cnt xs (cN F (T % 2^p)) (pw L p) = cN F (T % 2^(p + w * cnt)) := by
  intro xs
  induction xs with
  | nil =>
    intro cnt p _ _ hcnt _
    have : cnt = 0 := by simpa using hcnt
    subst this
    simp [limbLoop]
  | cons x xs ih =>
    intro cnt p hwf hval hcnt hmax
    cases cnt with
    | zero => simp [limbLoop]
    | succ cnt =>
      obtain ⟨hx, hxs⟩ := Cnl.Wide.Shift.WF_cons.mp hwf
      simp only [toNat] at hval
      have hxv : x = T / 2^p % 2^w := by
        rw [← hval, Nat.add_mul_mod_self_left, Nat.mod_eq_of_lt hx]
      have hxsv : toNat w xs = T / 2^(p + w) := by
        rw [Nat.pow_add, ← Nat.div_div_eq_div_mul, ← hval,
          Nat.add_mul_div_left _ _ (Nat.two_pow_pos _), Nat.div_eq_of_lt hx, Nat.zero_add]
      have hmul : w * (cnt + 1) = w + w * cnt := by rw [Nat.mul_succ, Nat.add_comm]
      have hle : x * 2^p ≤ T := by
        rw [hxv]
        exact Nat.le_trans (Nat.mul_le_mul_right _ (Nat.mod_le _ _)) (Nat.div_mul_le_self _ _)
      have hbit := bitLoop_limb L hL p hx hw (by rw [hmul] at hmax; omega)
      -- the limb in `long double`
      have hlt : x * 2^p < 2^(w + p) := by
        rw [Nat.pow_add]; exact Nat.mul_lt_mul_of_pos_right hx (Nat.two_pow_pos _)
      have hxL : x < 2^L.prec := Nat.lt_of_lt_of_le hx (pow_lt_of_le hw)
      have hldN := cN_isN L hL (rp_mul_pow (rp_of_lt hxL) p) (inR_of_lt hlt (by rw [hmul] at hmax; omega))
      -- converted to `F`
      have hrx : Rp F (x * 2^p) := by rw [hxv]; exact rp_window hr p w
      have hix : InR F (x * 2^p) := inR_mono hle hi
      have hcvt := cvt_isN F hF hldN hrx hix
      -- added to the accumulator
      have hsum : T % 2^p + x * 2^p = T % 2^(p + w) := by
        rw [Nat.pow_add, Nat.mod_mul, ← hxv, Nat.mul_comm x]
      have hacc := add_isN F hF (cN_isN F hF (rp_mod_pow hr p) (inR_mono (Nat.mod_le _ _) hi))
        (cN_isN F hF hrx hix) (by rw [hsum]; exact rp_mod_pow hr _)
        (by rw [hsum]; exact inR_mono (Nat.mod_le _ _) hi)
      simp only [limbLoop]
      rw [hbit]
      simp only []
      rw [hcvt, hacc, hsum, ih cnt (p + w) hxs hxsv (by simpa using hcnt) (by rw [hmul] at hmax; rw [Nat.add_assoc]; exact hmax)]
      rw [hmul, Nat.add_assoc]

/-! ## `msb` and the number of limbs visited -/

theorem any_ne_zero {w : Nat} (xs : Limbs) : xs.any (· != 0) = true ↔ toNat w xs ≠ 0 := by
  induction xs with
  | nil => simp [toNat]
  | cons x xs ih =>
    have hp := Nat.two_pow_pos w
    simp only [List.any_cons, Bool.or_eq_true, ih, toNat]
    constructor
    · intro h hz
      have h1 : x = 0 := by omega
      have h2 : 2^w * toNat w xs = 0 := by omega
      rcases Nat.mul_eq_zero.1 h2 with h3 | h3
      · omega
      · rcases h with h | h
        · simp [h1] at h
        · exact h h3
    · intro h
      by_cases hx : x = 0
      · right; intro hz; apply h; rw [hx, hz]; simp
      · left; simpa using hx

theorem log2_limb {w x T : Nat} (hx : x < 2^w) (hT : T ≠ 0) : (x + 2^w * T).log2 = T.log2 + w := by
  have h1 := Nat.log2_self_le hT
  have h2 := Nat.lt_log2_self (n := T)
  have hp := Nat.two_pow_pos w
  have hne : x + 2^w * T ≠ 0 := by
    have : 2^w * 1 ≤ 2^w * T := Nat.mul_le_mul_left _ (by omega)
    omega
  rw [Nat.log2_eq_iff hne, show T.log2 + w + 1 = w + (T.log2 + 1) by omega, Nat.pow_add, Nat.pow_add, Nat.mul_comm]
  have a1 : 2^w * 2^T.log2 ≤ 2^w * T := Nat.mul_le_mul_left _ h1
  have a2 : 2^w * (T + 1) ≤ 2^w * 2^(T.log2 + 1) := Nat.mul_le_mul_left _ h2
  rw [Nat.mul_add] at a2
  constructor <;> omega

theorem msbFrom_spec {w : Nat} : ∀ (xs : Limbs) (off : Nat), WF w xs →
    msbFrom w xs off = if toNat w xs = 0 then 0 else (toNat w xs).log2 + w * off := by
  intro xs
  induction xs with
  | nil => intro off _; simp [msbFrom, toNat]
  | cons x xs ih =>
    intro off hwf
    obtain ⟨hx, hxs⟩ := Cnl.Wide.Shift.WF_cons.mp hwf
    have hp := Nat.two_pow_pos w
    by_cases hT : toNat w xs = 0
    · have hany : ¬ (xs.any (· != 0) = true) := by rw [any_ne_zero (w := w)]; simpa using hT
      simp only [msbFrom, hany, toNat, hT, Nat.mul_zero, Nat.add_zero]
      by_cases hx0 : x = 0
      · simp [hx0]
      · simp [hx0]
    · have hany : xs.any (· != 0) = true := (any_ne_zero (w := w) xs).2 hT
      have hne : x + 2^w * toNat w xs ≠ 0 := by
        intro h
        have : 2^w * toNat w xs = 0 := by omega
        rcases Nat.mul_eq_zero.1 this with h3 | h3 <;> omega
      simp only [msbFrom, hany, ite_true, toNat, hne, ite_false, ih (off + 1) hxs, hT, log2_limb hx hT]
      rw [Nat.mul_add, Nat.mul_one]; omega

theorem msb_spec {w : Nat} {a : Limbs} (ha : WF w a) :
    msb w a = if toNat w a = 0 then 0 else (toNat w a).log2 := by
  rw [msb, msbFrom_spec a 0 ha]; simp

theorem ilim_ge {w : Nat} (hw : 1 ≤ w) (a : Limbs) : msb w a + 1 ≤ w * ilim w a := by
  unfold ilim
  simp only []
  generalize msb w a + 1 = b
  have hdm := Nat.div_add_mod b w
  have hlt := Nat.mod_lt b (show 0 < w by omega)
  by_cases hr : b % w = 0
  · simp only [hr, ne_eq, not_true_eq_false, ite_false, Nat.add_zero]; omega
  · simp only [hr, ne_eq, not_false_eq_true, ite_true, Nat.mul_add, Nat.mul_one]; omega

theorem ilim_le {w : Nat} (hw : 1 ≤ w) (a : Limbs) {n : Nat} (h : msb w a + 1 ≤ w * n) : ilim w a ≤ n := by
  unfold ilim
  simp only []
  generalize msb w a + 1 = b at h
  have hdm := Nat.div_add_mod b w
  by_cases hr : b % w = 0
  · simp only [hr, ne_eq, not_true_eq_false, ite_false, Nat.add_zero]
    have h2 : w * (b / w) ≤ w * n := by omega
    exact Nat.le_of_mul_le_mul_left h2 (by omega)
  · simp only [hr, ne_eq, not_false_eq_true, ite_true]
    have hne : b ≠ w * n := by intro e; rw [e, Nat.mul_mod_right] at hr; exact hr rfl
    have : b / w < n := by
      rw [Nat.div_lt_iff_lt_mul (by omega), Nat.mul_comm]; omega
    omega

/-- the loop visits every non-zero limb and stays inside the array -/
theorem ilim_spec {w : Nat} (hw : 1 ≤ w) {a : Limbs} (ha : WF w a) (hl : 1 ≤ a.length) :
    toNat w a < 2^(w * ilim w a) ∧ ilim w a ≤ a.length := by
  have hge := ilim_ge hw a
  have hlt := Cnl.Wide.Shift.toNat_lt ha
  rw [msb_spec ha] at hge
  by_cases h0 : toNat w a = 0
  · refine ⟨by rw [h0]; exact Nat.two_pow_pos _, ilim_le hw a ?_⟩
    rw [msb_spec ha]; simp only [h0, ite_true]
    have : w * 1 ≤ w * a.length := Nat.mul_le_mul_left _ hl
    omega
  · simp only [h0, ite_false] at hge
    constructor
    · exact Nat.lt_of_lt_of_le Nat.lt_log2_self (pow_lt_of_le hge)
    · apply ilim_le hw a
      rw [msb_spec ha]; simp only [h0, ite_false]
      have := (Nat.log2_lt h0).2 hlt
      omega

/-- the limbs the loop does not visit are zero -/
theorem toNat_take_ilim {w : Nat} (hw : 1 ≤ w) {a : Limbs} (ha : WF w a) (hl : 1 ≤ a.length) :
    toNat w (a.take (ilim w a)) = toNat w a := by
  obtain ⟨h1, h2⟩ := ilim_spec hw ha hl
  rw [Cnl.Wide.Shift.toNat_take _ ha h2, Nat.mod_eq_of_lt h1]

/-! ## sign and magnitude -/

theorem roundND_neg (F : FFmt) (s : Bool) (n d : Nat) : (F.roundND s n d).neg = F.roundND (!s) n d := by
  unfold Fmt.roundND
  by_cases hn : n = 0
  · simp only [hn, ite_true, FVal.neg]
  · simp only [hn, ite_false]
    rw [apply_ite FVal.neg]; rfl

/-- `is_neg` is the sign of the value, and the limbs the loop reads hold the magnitude -/
theorem abs_spec (f : WFmt) (hw : 1 ≤ f.w) (hn : 1 ≤ f.n) {a : Limbs} (ha : WF f.w a) (hl : a.length = f.n) :
    isNeg f a = decide (toInt f a < 0)
    ∧ toNat f.w (if isNeg f a then negate f.w a else a) = (toInt f a).natAbs
    ∧ WF f.w (if isNeg f a then negate f.w a else a)
    ∧ (if isNeg f a then negate f.w a else a).length = f.n := by
  have hne : a ≠ [] := by intro h; rw [h] at hl; simp at hl; omega
  have htop := Cnl.Wide.Basic.topBit_spec hw ha hne
  obtain ⟨n1, n2, n3⟩ := Cnl.Wide.Basic.negate_spec ha
  have hlt := Cnl.Wide.Shift.toNat_lt ha
  rw [hl] at htop n1 hlt
  have hN : f.w * f.n = f.N := rfl
  rw [hN] at htop n1 hlt
  have hisneg : isNeg f a = (f.signed && decide (toNat f.w a ≥ 2^(f.N - 1))) := by
    unfold isNeg; rw [htop]
  have hpow : (2:Int)^f.N = ((2^f.N : Nat) : Int) := (natCast_two_pow _).symm
  have hhalf : 2^(f.N - 1) ≤ 2^f.N := pow_lt_of_le (by omega)
  have hpos := Nat.two_pow_pos (f.N - 1)
  by_cases hs : f.signed = true ∧ toNat f.w a ≥ 2^(f.N - 1)
  · have hb : isNeg f a = true := by rw [hisneg]; simp [hs.1, hs.2]
    have hti : toInt f a = (toNat f.w a : Int) - ((2^f.N : Nat) : Int) := by
      unfold toInt; rw [if_pos hs, hpow]
    rw [hb, hti]
    simp only [ite_true]
    refine ⟨?_, ?_, n2, by rw [n3, hl]⟩
    · symm; rw [decide_eq_true_iff]; omega
    · rw [n1, Nat.mod_eq_of_lt (by omega)]; omega
  · have hb : isNeg f a = false := by
      rw [hisneg]
      cases hsg : f.signed
      · simp
      · simp only [hsg, true_and] at hs; simp [hs]
    have hti : toInt f a = (toNat f.w a : Int) := by
      unfold toInt; rw [if_neg hs]
    rw [hb, hti]
    simp only [Bool.false_eq_true, ite_false]
    refine ⟨?_, by simp, ha, hl⟩
    symm; rw [decide_eq_false_iff_not]; omega

theorem ofInt_eq_cN (F : FFmt) (v : Int) :
    F.ofInt v = if v < 0 then (cN F v.natAbs).neg else cN F v.natAbs := by
  unfold Fmt.ofInt cN
  by_cases h : v < 0
  · simp only [h, decide_true, ite_true, roundND_neg, Bool.not_false]
  · simp only [h, decide_false, ite_false]

/-! ## the conversion -/

/-- `extract_builtin_floating_point_type<F>()` is exact on every value with at most `prec F` significant bits
below the overflow threshold of `F`: it returns `static_cast<F>` of the mathematical value. -/
theorem toFloat_exact (L F : FFmt) (hL : FmtOk L) (hF : FmtOk F) (f : WFmt) (hw : 1 ≤ f.w) (hn : 1 ≤ f.n)
    (hLw : f.w ≤ L.prec) (hLN : (f.N : Int) ≤ L.emax)
    {a : Limbs} (ha : WF f.w a) (hl : a.length = f.n)
    (hrep : ∃ M t, (toInt f a).natAbs = M * 2^t ∧ M < 2^F.prec)
    (hmax : ((toInt f a).natAbs.log2 : Int) ≤ F.emax) :
    toFloat L F f a = F.ofInt (toInt f a) := by
  obtain ⟨hneg, hval, hwf, hlen⟩ := abs_spec f hw hn ha hl
  unfold toFloat
  simp only []
  generalize (if isNeg f a then negate f.w a else a) = u at hval hwf hlen
  obtain ⟨hlim1, hlim2⟩ := ilim_spec hw hwf (by omega)
  have hr : Rp F (toNat f.w u) := by rw [hval]; exact hrep
  have hi : InR F (toNat f.w u) := by rw [hval]; exact Or.inr hmax
  have hmul : f.w * ilim f.w u ≤ f.N := by
    rw [hlen] at hlim2; exact Nat.mul_le_mul_left _ hlim2
  have hloop := limbLoop_spec L F hL hF hLw hr hi u (ilim f.w u) 0 hwf (by simp) hlim2
    (by rw [Nat.zero_add]; omega)
  rw [Nat.pow_zero, Nat.mod_one, Nat.zero_add, Nat.mod_eq_of_lt hlim1, ← ofInt_zero, ← ofInt_one_pw L hL] at hloop
  rw [hloop, hval, ofInt_eq_cN, hneg]
  by_cases h : toInt f a < 0
  · simp [h]
  · simp [h]

/-- the datum returned, in terms of the value `v = ± M · 2^t` -/
theorem toFloat_value (L F : FFmt) (hL : FmtOk L) (hF : FmtOk F) (f : WFmt) (hw : 1 ≤ f.w) (hn : 1 ≤ f.n)
    (hLw : f.w ≤ L.prec) (hLN : (f.N : Int) ≤ L.emax)
    {a : Limbs} (ha : WF f.w a) (hl : a.length = f.n)
    {M t : Nat} (hv : (toInt f a).natAbs = M * 2^t) (hM : M < 2^F.prec)
    (hmax : ((toInt f a).natAbs.log2 : Int) ≤ F.emax) :
    toFloat L F f a
      = if toInt f a = 0 then .fin false 0 F.qmin
        else .fin (decide (toInt f a < 0)) (M * 2^(F.prec - 1 - M.log2))
               ((M.log2 : Int) + t - ((F.prec : Int) - 1)) := by
  rw [toFloat_exact L F hL hF f hw hn hLw hLN ha hl ⟨M, t, hv, hM⟩ hmax, ofInt_eq_cN]
  by_cases h0 : toInt f a = 0
  · simp [h0, cN_zero]
  · have hM0 : M ≠ 0 := by
      intro h; rw [h, Nat.zero_mul] at hv; omega
    rw [hv, log2_mul_two_pow hM0] at hmax
    rw [hv, cN_exact F hF t hM0 hM (by omega)]
    by_cases hs : toInt f a < 0
    · simp [h0, hs, FVal.neg]
    · simp [h0, hs]

/-! ### the hypotheses are satisfiable: seven 32-bit limbs, `long double` = x87, target `float` -/

example : toFloat x87ext binary32 ⟨32, 7, true⟩ (ofNat 32 7 (5 * 2^100)) = .fin false (5 * 2^21) 79 := by
  have h := toFloat_value x87ext binary32 fmtOk_x87ext fmtOk_binary32 ⟨32, 7, true⟩ (by decide) (by decide)
    (by decide) (by decide) (Cnl.Wide.Basic.ofNat_WF 32 7 (5 * 2^100)) (Cnl.Wide.Basic.ofNat_length 32 7 _)
    (M := 5) (t := 100) (by decide +kernel) (by decide) (by decide +kernel)
  rw [h]; decide +kernel

/-- a negative value: `-(3 · 2^64)` as a 224-bit two's-complement integer -/
example : toFloat x87ext binary32 ⟨32, 7, true⟩ (ofNat 32 7 (2^224 - 3 * 2^64))
    = binary32.ofInt (-(3 * 2^64)) := by
  have h := toFloat_exact x87ext binary32 fmtOk_x87ext fmtOk_binary32 ⟨32, 7, true⟩ (by decide) (by decide)
    (by decide) (by decide) (Cnl.Wide.Basic.ofNat_WF 32 7 (2^224 - 3 * 2^64)) (Cnl.Wide.Basic.ofNat_length 32 7 _)
    ⟨3, 64, by decide +kernel, by decide⟩ (by decide +kernel)
  rw [h]; decide +kernel

end Cnl.WideFloat.ToP
