import CnlModel.Layered
/-! Helper lemmas for C12: native-tag nests reduce to the built-in operator. -/
namespace Cnl.Native
open Cnl Cnl.Layered

/-- one wrapper layer that requests built-in behaviour -/
inductive Layer where
  | sc (radix : Nat)   -- scaled_integer<_, power<0, radix>>
  | ov                 -- overflow_integer<_, native_overflow_tag>
  | rd                 -- rounding_integer<_, native_rounding_tag>
deriving DecidableEq, Repr

def Layer.wrap (l : Layer) (t : Ty) : Ty :=
  match l with
  | .sc radix => .sc t 0 radix
  | .ov => .ov t .nat
  | .rd => .rd t .nat

/-- the nest `l₁<l₂<…<T>>>` -/
def nest : List Layer → IntTy → Ty
  | [], t => .int t
  | l :: ls, t => l.wrap (nest ls t)

theorem depth_wrap (l : Layer) (t : Ty) : (l.wrap t).depth = t.depth + 1 := by
  cases l <;> rfl

theorem depth_nest (ls : List Layer) (t : IntTy) : (nest ls t).depth = ls.length := by
  induction ls with
  | nil => rfl
  | cons l ls ih => simp [nest, depth_wrap, ih]

def isShift : BinOp → Bool
  | .shl | .shr => true
  | _ => false

theorem map_map {α β γ : Type} (x : Res α) (f : α → β) (g : β → γ) :
    (x.map f).map g = x.map (fun a => g (f a)) := by
  cases x <;> rfl

theorem bind_pure_map {α β : Type} (x : Res α) (f : α → β) :
    (x >>= fun a => pure (f a)) = x.map f := rfl

theorem resultExp_zero (op : BinOp) : Scaled.resultExp op 0 0 = 0 := by
  cases op <;> simp [Scaled.resultExp]

theorem balance_same (x y : Num) (h : x.1.depth = y.1.depth) : balance x y = (x, y) := by
  simp [balance, h]

/-- one native layer around operands of equal depth: the layer passes the operator through -/
theorem binHeads_wrap (R : RepOps) (layer : Layer) (op : BinOp) (a b : Ty) (l r : Int) :
    binHeads R op (layer.wrap a, l) (layer.wrap b, r)
      = (R.bin op (a, l) (b, r)).map (fun v => (layer.wrap v.1, v.2)) := by
  cases layer with
  | sc radix =>
    simp only [binHeads, Layer.wrap, Scaled.binOp, true_or, ite_true, resultExp_zero, bind_pure_map, map_map, wrapSc]
  | ov => simp only [binHeads, Layer.wrap, Overflow.binOp, Overflow.binOpOn, ite_true]
  | rd => simp only [binHeads, Layer.wrap, Rounding.binOp, ite_true]

theorem ops_succ_bin (m : Nat) (op : BinOp) (hs : isShift op = false) (x y : Num) :
    (ops (m+1)).bin op x y = binWith (ops m) op x y := by
  cases op <;> simp [isShift] at hs <;> rfl

/-- arithmetic and bitwise operators on two numbers of the same native nest -/
theorem bin_nest (ls : List Layer) : ∀ (n : Nat), ls.length ≤ n → ∀ (op : BinOp), isShift op = false →
    ∀ (L R : IntTy) (l r : Int),
    (ops n).bin op (nest ls L, l) (nest ls R, r)
      = (cBin op (L, l) (R, r)).map (fun v => (nest ls v.1, v.2)) := by
  induction ls with
  | nil =>
    intro n _ op hs L R l r
    cases n with
    | zero => rfl
    | succ m =>
      rw [ops_succ_bin m op hs]
      simp only [binWith, nest, binHeads]
      rfl
  | cons layer ls ih =>
    intro n hn op hs L R l r
    cases n with
    | zero => simp at hn
    | succ m =>
      have hm : ls.length ≤ m := by simpa using hn
      rw [ops_succ_bin m op hs]
      have hd : (nest (layer :: ls) L, l).1.depth = (nest (layer :: ls) R, r).1.depth := by
        simp [depth_nest]
      simp only [binWith, balance_same _ _ hd]
      simp only [nest, binHeads_wrap, ih m hm op hs, map_map]

end Cnl.Native

namespace Cnl.Native
open Cnl Cnl.Layered

theorem liftLike_wrap (layer : Layer) (a : Ty) (v : Ty) : liftLike (layer.wrap a) v = layer.wrap v := by
  cases layer <;> rfl

theorem ops_zero_bin_int (op : BinOp) (L R : IntTy) (l r : Int) :
    (ops 0).bin op (.int L, l) (.int R, r) = (cBin op (L, l) (R, r)).map (fun v => (.int v.1, v.2)) := rfl

theorem ops_bin_int (n : Nat) (op : BinOp) (L R : IntTy) (l r : Int) :
    (ops n).bin op (.int L, l) (.int R, r) = (cBin op (L, l) (R, r)).map (fun v => (.int v.1, v.2)) := by
  cases n with
  | zero => rfl
  | succ m => cases op <;> rfl

/-- wrapper `op` bare integer: the integer is lifted one layer at a time -/
theorem bin_nest_int (ls : List Layer) : ∀ (n : Nat), ls.length ≤ n → ∀ (op : BinOp), isShift op = false →
    ∀ (L R : IntTy) (l r : Int),
    (ops n).bin op (nest ls L, l) (.int R, r)
      = (cBin op (L, l) (R, r)).map (fun v => (nest ls v.1, v.2)) := by
  induction ls with
  | nil => intro n _ op _ L R l r; exact ops_bin_int n op L R l r
  | cons layer ls ih =>
    intro n hn op hs L R l r
    cases n with
    | zero => simp at hn
    | succ m =>
      have hm : ls.length ≤ m := by simpa using hn
      rw [ops_succ_bin m op hs]
      have hb : balance (nest (layer :: ls) L, l) (.int R, r)
          = ((nest (layer :: ls) L, l), (layer.wrap (.int R), r)) := by
        simp [balance, nest, depth_wrap, Ty.depth, liftLike_wrap]
      simp only [binWith, hb]
      simp only [nest, binHeads_wrap, ih m hm op hs, map_map]

/-- bare integer `op` wrapper -/
theorem bin_int_nest (ls : List Layer) : ∀ (n : Nat), ls.length ≤ n → ∀ (op : BinOp), isShift op = false →
    ∀ (L R : IntTy) (l r : Int),
    (ops n).bin op (.int L, l) (nest ls R, r)
      = (cBin op (L, l) (R, r)).map (fun v => (nest ls v.1, v.2)) := by
  induction ls with
  | nil => intro n _ op _ L R l r; exact ops_bin_int n op L R l r
  | cons layer ls ih =>
    intro n hn op hs L R l r
    cases n with
    | zero => simp at hn
    | succ m =>
      have hm : ls.length ≤ m := by simpa using hn
      rw [ops_succ_bin m op hs]
      have hb : balance (.int L, l) (nest (layer :: ls) R, r)
          = ((layer.wrap (.int L), l), (nest (layer :: ls) R, r)) := by
        simp [balance, nest, depth_wrap, Ty.depth, liftLike_wrap]
      simp only [binWith, hb]
      simp only [nest, binHeads_wrap, ih m hm op hs, map_map]

theorem cmpHeads_wrap (R : RepOps) (layer : Layer) (op : CmpOp) (a b : Ty) (l r : Int) :
    cmpHeads R op (layer.wrap a, l) (layer.wrap b, r) = R.cmp op (a, l) (b, r) := by
  cases layer <;> simp [cmpHeads, Layer.wrap, Scaled.cmp]

theorem ops_cmp_int (n : Nat) (op : CmpOp) (L R : IntTy) (l r : Int) :
    (ops n).cmp op (.int L, l) (.int R, r) = .ok (cCmp op (L, l) (R, r)) := by
  cases n <;> rfl

theorem cmp_nest (ls : List Layer) : ∀ (n : Nat), ls.length ≤ n → ∀ (op : CmpOp) (L R : IntTy) (l r : Int),
    (ops n).cmp op (nest ls L, l) (nest ls R, r) = .ok (cCmp op (L, l) (R, r)) := by
  induction ls with
  | nil => intro n _ op L R l r; exact ops_cmp_int n op L R l r
  | cons layer ls ih =>
    intro n hn op L R l r
    cases n with
    | zero => simp at hn
    | succ m =>
      have hm : ls.length ≤ m := by simpa using hn
      have hd : (nest (layer :: ls) L, l).1.depth = (nest (layer :: ls) R, r).1.depth := by
        simp [depth_nest]
      show cmpWith (ops m) op _ _ = _
      simp only [cmpWith, balance_same _ _ hd]
      simp only [nest, cmpHeads_wrap, ih m hm op]

theorem cmp_nest_int (ls : List Layer) : ∀ (n : Nat), ls.length ≤ n → ∀ (op : CmpOp) (L R : IntTy) (l r : Int),
    (ops n).cmp op (nest ls L, l) (.int R, r) = .ok (cCmp op (L, l) (R, r)) := by
  induction ls with
  | nil => intro n _ op L R l r; exact ops_cmp_int n op L R l r
  | cons layer ls ih =>
    intro n hn op L R l r
    cases n with
    | zero => simp at hn
    | succ m =>
      have hm : ls.length ≤ m := by simpa using hn
      have hb : balance (nest (layer :: ls) L, l) (.int R, r)
          = ((nest (layer :: ls) L, l), (layer.wrap (.int R), r)) := by
        simp [balance, nest, depth_wrap, Ty.depth, liftLike_wrap]
      show cmpWith (ops m) op _ _ = _
      simp only [cmpWith, hb]
      simp only [nest, cmpHeads_wrap, ih m hm op]

/-- the bare built-in unary operators -/
def cUn (u : UnOp) (x : TV) : Res TV :=
  match u with
  | .neg => cNeg x
  | .bnot => cNot x
  | .pos => cPos x

theorem unRep_ops_succ (m : Nat) (u : UnOp) (x : Num) : unRep (ops (m+1)) u x = unWith (ops m) u x := by
  cases u <;> rfl

theorem unWith_wrap (R : RepOps) (layer : Layer) (u : UnOp) (a : Ty) (l : Int) :
    unWith R u (layer.wrap a, l) = (unRep R u (a, l)).map (fun v => (layer.wrap v.1, v.2)) := by
  cases layer <;> simp [unWith, Layer.wrap, Overflow.unOp]

theorem unWith_int (R : RepOps) (u : UnOp) (L : IntTy) (l : Int) :
    unWith R u (.int L, l) = (cUn u (L, l)).map (fun v => (.int v.1, v.2)) := by
  cases u <;> rfl

theorem unRep_int (n : Nat) (u : UnOp) (L : IntTy) (l : Int) :
    unRep (ops n) u (.int L, l) = (cUn u (L, l)).map (fun v => (.int v.1, v.2)) := by
  cases n with
  | zero => cases u <;> rfl
  | succ m => rw [unRep_ops_succ, unWith_int]

theorem un_nest (ls : List Layer) : ∀ (n : Nat), ls.length ≤ n → ∀ (u : UnOp) (L : IntTy) (l : Int),
    unRep (ops n) u (nest ls L, l) = (cUn u (L, l)).map (fun v => (nest ls v.1, v.2)) := by
  induction ls with
  | nil => intro n _ u L l; exact unRep_int n u L l
  | cons layer ls ih =>
    intro n hn u L l
    cases n with
    | zero => simp at hn
    | succ m =>
      have hm : ls.length ≤ m := by simpa using hn
      rw [unRep_ops_succ]
      simp only [nest, unWith_wrap, ih m hm u, map_map]

end Cnl.Native

namespace Cnl.Native
open Cnl Cnl.Layered

theorem castWith_wrap (R : RepOps) (layer : Layer) (a b : Ty) (l : Int) :
    castWith R (layer.wrap a) (layer.wrap b, l) = (R.cast a (b, l)).map (fun v => (layer.wrap v.1, v.2)) := by
  cases layer with
  | sc radix =>
    simp only [castWith, Layer.wrap, Scaled.convert, ite_true]
    cases R.cast a (b, l) <;> rfl
  | ov => simp [castWith, Layer.wrap]
  | rd => simp [castWith, Layer.wrap]

theorem ops_cast_int (n : Nat) (D S : IntTy) (l : Int) :
    (ops n).cast (.int D) (.int S, l) = .ok (.int D, D.wrap l) := by
  cases n <;> rfl

/-- converting between two instances of the same native nest converts the innermost integer -/
theorem cast_nest (ls : List Layer) : ∀ (n : Nat), ls.length ≤ n → ∀ (D S : IntTy) (l : Int),
    (ops n).cast (nest ls D) (nest ls S, l) = .ok (nest ls D, D.wrap l) := by
  induction ls with
  | nil => intro n _ D S l; exact ops_cast_int n D S l
  | cons layer ls ih =>
    intro n hn D S l
    cases n with
    | zero => simp at hn
    | succ m =>
      have hm : ls.length ≤ m := by simpa using hn
      show castWith (ops m) _ _ = _
      simp only [nest, castWith_wrap, ih m hm]
      rfl

theorem ops_succ_shift (m : Nat) (op : BinOp) (hs : isShift op = true) (x y : Num) :
    (ops (m+1)).bin op x y = shiftWith (ops m) op x y := by
  cases op <;> simp [isShift] at hs <;> rfl

theorem innermost_nest (ls : List Layer) (t : IntTy) : innermost (nest ls t) = .int t := by
  induction ls with
  | nil => rfl
  | cons l ls ih => cases l <;> simpa [nest, Layer.wrap, innermost] using ih

theorem shiftWith_wrap (R : RepOps) (layer : Layer) (op : BinOp) (a : Ty) (l : Int) (y : Num) :
    shiftWith R op (layer.wrap a, l) y
      = (R.bin op (a, l) (innermost y.1, y.2)).map (fun v => (layer.wrap v.1, v.2)) := by
  cases layer <;> simp [shiftWith, Layer.wrap, Overflow.binOp, Overflow.binOpOn]

/-- shifts: the count may be any native nest or bare integer; it is unwrapped -/
theorem shift_nest (ls : List Layer) : ∀ (n : Nat), ls.length ≤ n → ∀ (op : BinOp), isShift op = true →
    ∀ (cs : List Layer), cs.length ≤ n → ∀ (L R : IntTy) (l r : Int),
    (ops n).bin op (nest ls L, l) (nest cs R, r)
      = (cBin op (L, l) (R, r)).map (fun v => (nest ls v.1, v.2)) := by
  induction ls with
  | nil =>
    intro n _ op hs cs hc L R l r
    cases n with
    | zero =>
      cases cs with
      | nil => rfl
      | cons c cs => simp at hc
    | succ m =>
      rw [ops_succ_shift m op hs]
      simp only [shiftWith, nest, innermost_nest]
      rfl
  | cons layer ls ih =>
    intro n hn op hs cs _ L R l r
    cases n with
    | zero => simp at hn
    | succ m =>
      have hm : ls.length ≤ m := by simpa using hn
      rw [ops_succ_shift m op hs]
      simp only [nest, shiftWith_wrap, innermost_nest]
      have := ih m hm op hs [] (Nat.zero_le _) L R l r
      simp only [nest] at this
      rw [this, map_map]

end Cnl.Native
