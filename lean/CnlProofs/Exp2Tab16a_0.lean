import CnlProofs.Exp2
/-! Kernel-checked table, part 1 of 4: `u16_m15` representations 0 … 16383 (offset from `lowest`): result representable ⇒ model `ok` and within 3 units of the true floor. -/
open Cnl Cnl.Exp2 Cnl.Exp2Proofs
namespace Cnl.Exp2Tab16a
set_option maxRecDepth 1000000
theorem part0 : sweep ⟨16, false, -15⟩ (boundOK ⟨16, false, -15⟩ 3) 0 16384 = true := by decide +kernel
end Cnl.Exp2Tab16a
