import CnlProofs.WideFloatTo
import CnlProofs.FloatFaithful
import CnlSpec.WideFloat
/-!
# CnlProofs.WideFloatBracket — `uintwide_t` → floating point returns one of the two neighbours

`Cnl.WideFloat.toFloat` (the model of `uintwide_t::extract_builtin_floating_point_type<F>()`) for **every**
value, representable or not: the result is one of the two data of `F` that enclose the mathematical value
(the value itself when it is a datum), i.e. the oracle `Cnl.WideFloatSpec.toFloatOk` accepts it.

Everything stated here is proved (no `Full…` statement is left):

* `cvt_cN_any`     : `F.cvt (cN L T) = F.roundND false T 1` for every natural `T` that is a datum of `L`
                     (the conversion `long double → F` is one rounding of the exact limb term);
* `limbLoop_acc`   : the model's limb loop is the abstract accumulation `Cnl.FloatFaithful.accLoop` on naturals:
                     `limbLoop L F w cnt xs (F.roundND false a 1) (pw L (w·i)) = F.roundND false (accLoop (prec F) w (xs.take cnt) i a) 1`
                     when the accumulator `a` is a neighbour of the low part `Lo < 2^(w·i)` already summed, `w ≤ prec L`,
                     `w·(i+cnt) ≤ emax L`, and `log2 V + 2 ≤ emax F` for the total `V = Lo + 2^(w·i)·toNat (xs.take cnt)`;
* `toFloat_eq_acc` : `toFloat L F f a = F.roundND (v < 0) (accLoop (prec F) w (u.take (ilim w u)) 0 0) 1`, `u` the magnitude limbs;
* `toFloat_bracket`: `toFloatOk F (toInt f a) (toFloat L F f a) = true`.

**Overflow bound**: `log2 |v| + 2 ≤ emax F` (i.e. `|v| < 2^(emax F − 1)`).  The partial sums `a + fl(x·2^(w·i))` are
bounded by `2^(w·i) + 2^(log2 |v| + 1) < 2^(log2 |v| + 2)`, and the rounding lemmas of `CnlProofs.FloatFaithful`
(`roundND_fl`, `add_cN`) are stated for arguments below `2^emax` (one binade below the real overflow threshold).
Limb width `1 ≤ w ≤ prec L` (each limb is exact in `long double`), `w·n ≤ emax L`; no relation between `w` and
`prec F` is needed (`accLoop_faithful`).

Lean core only.
-/

namespace Cnl.WideFloat.BracketP
open Cnl Cnl.Wide Cnl.WideFloat Cnl.FloatP
open Cnl.FloatFaithful (dn up G fl accLoop)
open Cnl.WideFloat.ToP (pw IsN)

theorem isN_rep {x : FVal} {n : Nat} (h : IsN x n) : ∃ m e, x = .fin false m e ∧ FloatFaithful.Rep m e n := by
  obtain ⟨m, e, rfl, hv⟩ := h
  refine ⟨m, e, rfl, ?_, ?_⟩
  · intro he
    have e0 : (-e).toNat = 0 := by omega
    rw [e0, Nat.pow_zero, Nat.mul_one] at hv; exact hv
  · intro he
    have e0 : e.toNat = 0 := by omega
    rw [e0, Nat.pow_zero, Nat.mul_one] at hv; exact hv

/-- converting the `long double` datum of a natural `T` to `F` is one rounding of `T` -/
theorem cvt_cN_any (L F : FFmt) (hL : FmtOk L) {T : Nat} (hr : ToP.Rp L T) (hi : ToP.InR L T) :
    F.cvt (ToP.cN L T) = F.roundND false T 1 := by
  obtain ⟨m, e, hx, hrep⟩ := isN_rep (ToP.cN_isN L hL hr hi)
  rw [hx]
  exact FloatFaithful.ofDyadic_rep F false hrep

theorem pow_le_pow2 {a b : Nat} (h : a ≤ b) : 2^a ≤ 2^b := Nat.pow_le_pow_right (by decide) h

theorem pow_emax {F : FFmt} (hF : FmtOk F) {k : Nat} (h : (k : Int) ≤ F.emax) : 2^k ≤ 2^F.emax.toNat :=
  pow_le_pow2 (by have := FloatFaithful.emax_toNat hF; omega)

/-- a neighbour of `Lo < 2^s` is at most `2^s` -/
theorem nb_le_pow {p s Lo a : Nat} (hp : 1 ≤ p) (hLo : Lo < 2^s) (ha : a = dn p Lo ∨ a = up p Lo) : a ≤ 2^s := by
  have h1 : up p Lo ≤ 2^s := FloatFaithful.up_min hp (FloatFaithful.G_two_pow hp s) (Nat.le_of_lt hLo)
  rcases ha with e | e <;> rw [e]
  · exact Nat.le_trans (FloatFaithful.dn_le_up p Lo) h1
  · exact h1

theorem nb_G {p Lo a : Nat} (hp : 1 ≤ p) (ha : a = dn p Lo ∨ a = up p Lo) : G p a := by
  rcases ha with e | e <;> rw [e]
  · exact FloatFaithful.G_dn hp Lo
  · exact FloatFaithful.G_up hp Lo

/-- the two additions of one limb step do not overflow -/
theorem step_bound {p s x Lo a V : Nat} (hp : 1 ≤ p) (hLo : Lo < 2^s) (ha : a = dn p Lo ∨ a = up p Lo)
    (hV : x * 2^s + Lo ≤ V) : x * 2^s < 2^(V.log2 + 2) ∧ a + fl p (x * 2^s) < 2^(V.log2 + 2) := by
  have hV1 := Nat.lt_log2_self (n := V)
  have hpw : 2^(V.log2 + 2) = 2 * 2^(V.log2 + 1) := by rw [Nat.pow_succ, Nat.mul_comm]
  have hpw1 : 2^(V.log2 + 1) = 2 * 2^V.log2 := by rw [Nat.pow_succ, Nat.mul_comm]
  refine ⟨by omega, ?_⟩
  by_cases hx : x = 0
  · subst hx
    rw [Nat.zero_mul, FloatFaithful.fl_zero, Nat.add_zero]
    have h1 : a ≤ up p Lo := by
      rcases ha with e | e <;> rw [e]
      · exact FloatFaithful.dn_le_up p Lo
      · exact Nat.le_refl _
    have h2 := FloatFaithful.up_le_pow hp Lo
    have h3 : 2^(Lo.log2 + 1) ≤ 2^(V.log2 + 1) :=
      pow_le_pow2 (by have := FloatFaithful.log2_mono (show Lo ≤ V by omega); omega)
    omega
  · have hT : 2^s ≤ x * 2^s := by
      have := Nat.mul_le_mul_right (2^s) (show 1 ≤ x by omega)
      omega
    have hT0 : x * 2^s ≠ 0 := by have := Nat.two_pow_pos s; omega
    have hsl : s ≤ (x * 2^s).log2 := (Nat.le_log2 hT0).2 hT
    have hlog : (x * 2^s).log2 ≤ V.log2 := FloatFaithful.log2_mono (by omega)
    have h1 : a ≤ 2^V.log2 := Nat.le_trans (nb_le_pow hp hLo ha) (pow_le_pow2 (by omega))
    have h2 : fl p (x * 2^s) ≤ 2^(V.log2 + 1) :=
      Nat.le_trans (FloatFaithful.fl_le_up p _)
        (Nat.le_trans (FloatFaithful.up_le_pow hp _) (pow_le_pow2 (by omega)))
    have := Nat.two_pow_pos V.log2
    omega

/-- the model's limb loop is the abstract accumulation on naturals -/
theorem limbLoop_acc (L F : FFmt) (hL : FmtOk L) (hF : FmtOk F) {w : Nat} (hw : w ≤ L.prec) :
    ∀ (xs : Limbs) (cnt i Lo a : Nat), WF w xs → cnt ≤ xs.length → Lo < 2^(w*i) →
      (a = dn F.prec Lo ∨ a = up F.prec Lo) → ((w * (i + cnt) : Nat) : Int) ≤ L.emax →
      (((Lo + 2^(w*i) * toNat w (xs.take cnt)).log2 : Nat) : Int) + 2 ≤ F.emax →
      limbLoop L F w cnt xs (F.roundND false a 1) (pw L (w*i))
        = F.roundND false (accLoop F.prec w (xs.take cnt) i a) 1 := by
  have hp : 1 ≤ F.prec := Nat.le_trans (by decide) hF.1
  intro xs
  induction xs with
  | nil =>
    intro cnt i Lo a _ hcnt _ _ _ _
    have : cnt = 0 := by simpa using hcnt
    subst this
    simp [limbLoop, accLoop]
  | cons x xs ih =>
    intro cnt i Lo a hwf hcnt hLo ha hLmax hFmax
    cases cnt with
    | zero => simp [limbLoop, accLoop]
    | succ cnt =>
      obtain ⟨hx, hxs⟩ := Cnl.Wide.Shift.WF_cons.mp hwf
      have hwi : w * (i + (cnt + 1)) = w * i + w + w * cnt := by
        rw [Nat.mul_add, Nat.mul_succ]; omega
      have hwi1 : w * (i + 1) = w * i + w := Nat.mul_succ w i
      -- the total stays the same
      have hV : x * 2^(w*i) + Lo + 2^(w*(i+1)) * toNat w (xs.take cnt)
          = Lo + 2^(w*i) * toNat w ((x :: xs).take (cnt + 1)) := by
        simp only [List.take_succ_cons, toNat]
        rw [Nat.mul_succ, Nat.pow_add, Nat.mul_add, Nat.mul_assoc, Nat.mul_comm x]
        omega
      generalize hVd : Lo + 2^(w*i) * toNat w ((x :: xs).take (cnt + 1)) = V at hV hFmax
      obtain ⟨hb1, hb2⟩ := step_bound (x := x) hp hLo ha (V := V) (by omega)
      have hE : 2^(V.log2 + 2) ≤ 2^F.emax.toNat := pow_emax hF (by omega)
      -- the limb in `long double`
      have hbit := ToP.bitLoop_limb L hL (w*i) hx hw (by rw [hwi] at hLmax; omega)
      have hlt : x * 2^(w*i) < 2^(w + w*i) := by
        rw [Nat.pow_add]; exact Nat.mul_lt_mul_of_pos_right hx (Nat.two_pow_pos _)
      have hxL : x < 2^L.prec := Nat.lt_of_lt_of_le hx (pow_le_pow2 hw)
      have hcvt := cvt_cN_any L F hL (ToP.rp_mul_pow (ToP.rp_of_lt hxL) (w*i))
        (ToP.inR_of_lt hlt (by rw [hwi] at hLmax; omega))
      -- rounded into `F`
      have hrnd : F.roundND false (x * 2^(w*i)) 1 = FloatFaithful.cN F false (fl F.prec (x * 2^(w*i))) := by
        by_cases hT0 : x * 2^(w*i) = 0
        · rw [hT0, FloatFaithful.fl_zero]
        · exact FloatFaithful.roundND_fl F hF false hT0 (by omega)
      -- added to the accumulator
      have hadd := FloatFaithful.add_cN F hF (nb_G hp ha) (FloatFaithful.G_fl hp (x * 2^(w*i))) (by omega)
      have hstep := FloatFaithful.stepOk_all hp w (w*i) x Lo a hx hLo ha
      have hLo2 : x * 2^(w*i) + Lo < 2^(w*(i+1)) := by
        have := Nat.mul_le_mul_right (2^(w*i)) (show x + 1 ≤ 2^w by omega)
        have e2 : 2^(w*(i+1)) = 2^w * 2^(w*i) := by rw [Nat.mul_succ, Nat.pow_add, Nat.mul_comm]
        rw [Nat.add_mul, Nat.one_mul] at this
        omega
      have hih := ih cnt (i+1) (x * 2^(w*i) + Lo) (fl F.prec (a + fl F.prec (x * 2^(w*i)))) hxs
        (by simpa using hcnt) hLo2 hstep (by rw [hwi1, Nat.mul_add] at *; rw [hwi] at hLmax; omega)
        (by rw [hV]; exact hFmax)
      simp only [limbLoop, List.take_succ_cons, accLoop]
      rw [hbit]
      simp only []
      rw [hcvt, hrnd]
      show limbLoop L F w cnt xs (F.add (FloatFaithful.cN F false a) _) _ = _
      rw [hadd, ← hwi1]
      exact hih

/-- `toFloat` is the datum of the abstract accumulation over the limbs the loop visits -/
theorem toFloat_eq_acc (L F : FFmt) (hL : FmtOk L) (hF : FmtOk F) (f : WFmt) (hw : 1 ≤ f.w) (hn : 1 ≤ f.n)
    (hLw : f.w ≤ L.prec) (hLN : (f.N : Int) ≤ L.emax)
    {a : Limbs} (ha : WF f.w a) (hl : a.length = f.n)
    (hmax : ((toInt f a).natAbs.log2 : Int) + 2 ≤ F.emax) :
    toFloat L F f a = F.roundND (decide (toInt f a < 0))
      (accLoop F.prec f.w ((if isNeg f a then negate f.w a else a).take
        (ilim f.w (if isNeg f a then negate f.w a else a))) 0 0) 1 := by
  obtain ⟨hneg, hval, hwf, hlen⟩ := ToP.abs_spec f hw hn ha hl
  unfold toFloat
  simp only []
  generalize (if isNeg f a then negate f.w a else a) = u at hval hwf hlen
  obtain ⟨_, hlim2⟩ := ToP.ilim_spec hw hwf (by omega)
  have htake := ToP.toNat_take_ilim hw hwf (by omega)
  have hmul : f.w * ilim f.w u ≤ f.N := by
    rw [hlen] at hlim2; exact Nat.mul_le_mul_left _ hlim2
  have hloop := limbLoop_acc L F hL hF hLw u (ilim f.w u) 0 0 0 hwf hlim2 (by simp)
    (Or.inl (FloatFaithful.dn_zero _).symm) (by rw [Nat.zero_add]; omega)
    (by rw [Nat.mul_zero, Nat.pow_zero, Nat.one_mul, Nat.zero_add, htake, hval]; exact hmax)
  rw [Nat.mul_zero, ← ToP.ofInt_one_pw L hL] at hloop
  have h0 : F.ofInt 0 = F.roundND false 0 1 := ToP.ofInt_zero F
  rw [h0, hloop, hneg]
  by_cases h : toInt f a < 0
  · simp [h, ToP.roundND_neg]
  · simp [h]

/-- `extract_builtin_floating_point_type<F>()` returns the value itself when it is a datum of `F`, and one of
its two neighbours in `F` otherwise -/
theorem toFloat_bracket (L F : FFmt) (hL : FmtOk L) (hF : FmtOk F) (f : WFmt) (hw : 1 ≤ f.w) (hn : 1 ≤ f.n)
    (hLw : f.w ≤ L.prec) (hLN : (f.N : Int) ≤ L.emax)
    {a : Limbs} (ha : WF f.w a) (hl : a.length = f.n)
    (hmax : ((toInt f a).natAbs.log2 : Int) + 2 ≤ F.emax) :
    WideFloatSpec.toFloatOk F (toInt f a) (toFloat L F f a) = true := by
  have hp : 1 ≤ F.prec := Nat.le_trans (by decide) hF.1
  rw [toFloat_eq_acc L F hL hF f hw hn hLw hLN ha hl hmax]
  obtain ⟨_, hval, hwf, hlen⟩ := ToP.abs_spec f hw hn ha hl
  generalize (if isNeg f a then negate f.w a else a) = u at hval hwf hlen ⊢
  have htake := ToP.toNat_take_ilim hw hwf (by omega)
  have hacc := FloatFaithful.accLoop_faithful (w := f.w) hp (u.take (ilim f.w u))
    (Cnl.Wide.Shift.WF_take _ hwf)
  rw [htake, hval] at hacc
  generalize accLoop F.prec f.w (u.take (ilim f.w u)) 0 0 = A at hacc ⊢
  by_cases h0 : toInt f a = 0
  · have hA : A = 0 := by
      rw [h0] at hacc
      simpa [FloatFaithful.dn_zero, FloatFaithful.up_zero] using hacc
    rw [h0, hA]
    simp [WideFloatSpec.toFloatOk, Fmt.roundND]
  · have hpos : 0 < (toInt f a).natAbs := by omega
    have hlt : (toInt f a).natAbs < 2^F.emax.toNat :=
      Nat.lt_of_lt_of_le Nat.lt_log2_self (pow_emax hF (by omega))
    by_cases hs : toInt f a < 0
    · have hv : toInt f a = -(((toInt f a).natAbs : Nat) : Int) := by omega
      have := FloatFaithful.toFloatOk_neg F hF hpos hlt hacc
      rw [← hv] at this
      simpa [hs] using this
    · have hv : toInt f a = (((toInt f a).natAbs : Nat) : Int) := by omega
      have := FloatFaithful.toFloatOk_pos F hF hpos hlt hacc
      rw [← hv] at this
      simpa [hs] using this

/-! ### the hypotheses are satisfiable on a value that is *not* a `float`: `2^56 + 2^33 - 1` in seven 32-bit limbs -/

example : WideFloatSpec.toFloatOk binary32 (toInt ⟨32, 7, true⟩ (ofNat 32 7 (2^56 + 2^33 - 1)))
    (toFloat x87ext binary32 ⟨32, 7, true⟩ (ofNat 32 7 (2^56 + 2^33 - 1))) = true :=
  toFloat_bracket x87ext binary32 fmtOk_x87ext fmtOk_binary32 ⟨32, 7, true⟩ (by decide) (by decide)
    (by decide) (by decide) (Cnl.Wide.Basic.ofNat_WF 32 7 _) (Cnl.Wide.Basic.ofNat_length 32 7 _)
    (by decide +kernel)

/-- the value is not representable, and the loop returns the lower neighbour `2^56` here while the correctly
rounded result is the upper neighbour `2^56 + 2^33` (the limb term `(2^24 + 1)·2^32` is a tie and rounds to `2^56`,
then `2^56 + 2^32` is a tie again) -/
example : WideFloatSpec.representable binary32 (toInt ⟨32, 7, true⟩ (ofNat 32 7 (2^56 + 2^33 - 1))) = false
    ∧ toFloat x87ext binary32 ⟨32, 7, true⟩ (ofNat 32 7 (2^56 + 2^33 - 1)) = binary32.ofInt (2^56)
    ∧ binary32.ofInt (2^56 + 2^33 - 1) = binary32.ofInt (2^56 + 2^33) := by decide +kernel

/-- a negative value that is not representable: `-(2^56 + 2^33 - 1)` -/
example : WideFloatSpec.toFloatOk binary32 (toInt ⟨32, 7, true⟩ (ofNat 32 7 (2^224 - (2^56 + 2^33 - 1))))
    (toFloat x87ext binary32 ⟨32, 7, true⟩ (ofNat 32 7 (2^224 - (2^56 + 2^33 - 1)))) = true :=
  toFloat_bracket x87ext binary32 fmtOk_x87ext fmtOk_binary32 ⟨32, 7, true⟩ (by decide) (by decide)
    (by decide) (by decide) (Cnl.Wide.Basic.ofNat_WF 32 7 _) (Cnl.Wide.Basic.ofNat_length 32 7 _)
    (by decide +kernel)

end Cnl.WideFloat.BracketP
