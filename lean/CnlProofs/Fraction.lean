import CnlModel.Fraction
import CnlSpec.Fraction
/-!
Helper lemmas for C16 (Lean core only).

* facts about `CnlModel.CInt`: a value in range is unchanged by conversion, built-in `+ - *`,
  unary `-`/`+` and comparisons are exact under the `OpFits`/`NegFits`/`CmpFits` guards;
* facts about core `Rat`: the cross-multiplication formulas for `+ - * /`, equality and order of
  `n/d` for denominators of either sign, lowest terms;
* the model of `std::gcd`, `reduce`, `canonical` under the guard.
-/
namespace Cnl.FractionProofs
open Cnl Cnl.Fraction Cnl.FractionSpec

/-! ## CInt -/

theorem two_pow_pos (n : Nat) : (0 : Int) < 2 ^ n := Int.pow_pos (by decide)

theorem two_pow_succ_pred {b : Nat} (h : 1 ≤ b) : (2 : Int) ^ b = 2 * 2 ^ (b - 1) := by
  obtain ⟨k, rfl⟩ : ∃ k, b = k + 1 := ⟨b - 1, by omega⟩
  simp [Int.pow_succ, Int.mul_comm]

theorem wrap_of_inRange (T : IntTy) (h1 : 1 ≤ T.bits) (v : Int) (h : T.InRange v) : T.wrap v = v := by
  unfold IntTy.InRange IntTy.lowest IntTy.max at h
  unfold IntTy.wrap
  have hp := two_pow_succ_pred h1
  have hpos := two_pow_pos (T.bits - 1)
  by_cases hs : T.signed
  · simp only [hs, ite_true] at h ⊢
    generalize (2 : Int) ^ (T.bits - 1) = p at *
    rw [hp, Int.emod_eq_of_lt (by omega) (by omega)]
    omega
  · simp only [hs] at h ⊢
    simp only [Bool.false_eq_true, ite_false] at h ⊢
    generalize (2 : Int) ^ T.bits = p at *
    exact Int.emod_eq_of_lt (by omega) (by omega)

theorem promote_bits (t : IntTy) : 32 ≤ (promote t).bits := by
  unfold promote
  by_cases h : t.bits < 32 <;> simp [h, i32] <;> omega

theorem usualArith_bits (a b : IntTy) : 32 ≤ (usualArith a b).bits := by
  have ha := promote_bits a
  have hb := promote_bits b
  unfold usualArith
  simp only
  split
  · split <;> assumption
  · split <;> split <;> assumption

theorem zero_inRange (T : IntTy) : T.InRange 0 := by
  unfold IntTy.InRange IntTy.lowest IntTy.max
  have := two_pow_pos (T.bits - 1)
  have := two_pow_pos T.bits
  by_cases hs : T.signed <;> simp [hs] <;> omega

theorem pow_le_pow_31 {k : Nat} (h : k ≤ 31) : (2 : Int) ^ k ≤ 2 ^ 31 := by
  have : (2 : Nat) ^ k ≤ 2 ^ 31 := Nat.pow_le_pow_right (by decide) h
  have h2 : ((2 ^ k : Nat) : Int) ≤ ((2 ^ 31 : Nat) : Int) := Int.ofNat_le.mpr this
  simpa [Int.natCast_pow] using h2

/-- integral promotion preserves values -/
theorem inRange_promote (t : IntTy) (v : Int) (h : t.InRange v) : (promote t).InRange v := by
  unfold promote
  by_cases hb : t.bits < 32
  · simp only [hb, ite_true]
    unfold IntTy.InRange IntTy.lowest IntTy.max at h ⊢
    simp only [i32, ite_true]
    by_cases hs : t.signed
    · simp only [hs, ite_true] at h
      have := pow_le_pow_31 (k := t.bits - 1) (by omega)
      have e : (2 : Int) ^ (32 - 1) = 2 ^ 31 := rfl
      rw [e]
      omega
    · simp only [hs] at h
      simp only [Bool.false_eq_true, ite_false] at h
      have := pow_le_pow_31 (k := t.bits) (by omega)
      have e : (2 : Int) ^ (32 - 1) = 2 ^ 31 := rfl
      rw [e]
      have := two_pow_pos 31
      omega
  · simpa [hb] using h

theorem usualArith_self (t : IntTy) : usualArith t t = promote t := by
  unfold usualArith
  simp

theorem arith_of_inRange (T : IntTy) (h1 : 1 ≤ T.bits) (v : Int) (h : T.InRange v) : arith T v = .ok (T, v) := by
  unfold arith
  by_cases hs : T.signed
  · simp [hs, h]
  · simp [hs, wrap_of_inRange T h1 v h]

theorem cBin_mul_exact (x y : TV) (h : OpFits (· * ·) x y) : cBin .mul x y = .ok (prodTV x y) := by
  obtain ⟨hx, hy, hp⟩ := h
  have hb : 1 ≤ (usualArith x.1 y.1).bits := by have := usualArith_bits x.1 y.1; omega
  simp only [cBin, wrap_of_inRange _ hb _ hx, wrap_of_inRange _ hb _ hy]
  exact arith_of_inRange _ hb _ hp

theorem cBin_add_exact (x y : TV) (h : OpFits (· + ·) x y) :
    cBin .add x y = .ok (usualArith x.1 y.1, x.2 + y.2) := by
  obtain ⟨hx, hy, hp⟩ := h
  have hb : 1 ≤ (usualArith x.1 y.1).bits := by have := usualArith_bits x.1 y.1; omega
  simp only [cBin, wrap_of_inRange _ hb _ hx, wrap_of_inRange _ hb _ hy]
  exact arith_of_inRange _ hb _ hp

theorem cBin_sub_exact (x y : TV) (h : OpFits (· - ·) x y) :
    cBin .sub x y = .ok (usualArith x.1 y.1, x.2 - y.2) := by
  obtain ⟨hx, hy, hp⟩ := h
  have hb : 1 ≤ (usualArith x.1 y.1).bits := by have := usualArith_bits x.1 y.1; omega
  simp only [cBin, wrap_of_inRange _ hb _ hx, wrap_of_inRange _ hb _ hy]
  exact arith_of_inRange _ hb _ hp

/-- comparison of two integers -/
def cmpInt (op : CmpOp) (a b : Int) : Bool :=
  match op with
  | .lt => decide (a < b)
  | .le => decide (a ≤ b)
  | .gt => decide (a > b)
  | .ge => decide (a ≥ b)
  | .eq => decide (a = b)
  | .ne => decide (a ≠ b)

theorem cCmp_exact (op : CmpOp) (x y : TV) (h : CmpFits x y) : cCmp op x y = cmpInt op x.2 y.2 := by
  obtain ⟨hx, hy⟩ := h
  have hb : 1 ≤ (usualArith x.1 y.1).bits := by have := usualArith_bits x.1 y.1; omega
  simp only [cCmp, wrap_of_inRange _ hb _ hx, wrap_of_inRange _ hb _ hy]
  cases op <;> rfl

theorem cNeg_exact (x : TV) (h : NegFits x) : cNeg x = .ok (promote x.1, -x.2) := by
  obtain ⟨hx, hn⟩ := h
  have hb : 1 ≤ (promote x.1).bits := by have := promote_bits x.1; omega
  simp only [cNeg, wrap_of_inRange _ hb _ hx]
  exact arith_of_inRange _ hb _ hn

theorem cPos_exact (x : TV) (h : (promote x.1).InRange x.2) : cPos x = .ok (promote x.1, x.2) := by
  have hb : 1 ≤ (promote x.1).bits := by have := promote_bits x.1; omega
  simp only [cPos, wrap_of_inRange _ hb _ h]

/-- `d < Denominator{}` decides the sign of a well-formed denominator -/
theorem negDen_eq (a : Frac) (h : a.dt.InRange a.d) : negDen a = decide (a.d < 0) := by
  have hp := inRange_promote _ _ h
  have hc : CmpFits a.den (a.dt, 0) := by
    unfold CmpFits
    simp only [Frac.den, usualArith_self]
    exact ⟨hp, zero_inRange _⟩
  unfold negDen
  rw [cCmp_exact _ _ _ hc]
  rfl

/-! ## Rat -/

theorem value_eq_divInt (n d : Int) : value n d = Rat.divInt n d := by
  unfold value
  rw [Rat.divInt_eq_div]

theorem value_add (n1 d1 n2 d2 : Int) (h1 : d1 ≠ 0) (h2 : d2 ≠ 0) :
    value (n1 * d2 + n2 * d1) (d1 * d2) = value n1 d1 + value n2 d2 := by
  simp only [value_eq_divInt]
  rw [Rat.divInt_add_divInt _ _ h1 h2]

theorem value_sub (n1 d1 n2 d2 : Int) (h1 : d1 ≠ 0) (h2 : d2 ≠ 0) :
    value (n1 * d2 - n2 * d1) (d1 * d2) = value n1 d1 - value n2 d2 := by
  simp only [value_eq_divInt]
  rw [Rat.divInt_sub_divInt _ _ h1 h2]

theorem value_mul (n1 d1 n2 d2 : Int) :
    value (n1 * n2) (d1 * d2) = value n1 d1 * value n2 d2 := by
  simp only [value_eq_divInt]
  rw [Rat.divInt_mul_divInt]

theorem value_div (n1 d1 n2 d2 : Int) :
    value (n1 * d2) (d1 * n2) = value n1 d1 / value n2 d2 := by
  simp only [value_eq_divInt]
  rw [Rat.div_def, Rat.inv_divInt, Rat.divInt_mul_divInt]

theorem value_neg (n d : Int) : value (-n) d = -value n d := by
  simp only [value_eq_divInt]
  rw [Rat.neg_divInt]

theorem value_neg_neg (n d : Int) : value (-n) (-d) = value n d := by
  simp only [value_eq_divInt]
  rw [Rat.neg_divInt_neg]

theorem value_eq_iff (n1 d1 n2 d2 : Int) (h1 : d1 ≠ 0) (h2 : d2 ≠ 0) :
    value n1 d1 = value n2 d2 ↔ n1 * d2 = n2 * d1 := by
  simp only [value_eq_divInt]
  exact Rat.divInt_eq_divInt_iff h1 h2

/-- order of `n1/d1` and `n2/d2` for positive denominators -/
theorem value_le_iff_pos (n1 d1 n2 d2 : Int) (h1 : 0 < d1) (h2 : 0 < d2) :
    value n1 d1 ≤ value n2 d2 ↔ n1 * d2 ≤ n2 * d1 := by
  simp only [value_eq_divInt]
  rw [Rat.le_iff_sub_nonneg, Rat.divInt_sub_divInt _ _ (by omega) (by omega),
    Rat.divInt_nonneg_iff_of_pos_right (Int.mul_pos h2 h1)]
  omega

theorem value_lt_iff_pos (n1 d1 n2 d2 : Int) (h1 : 0 < d1) (h2 : 0 < d2) :
    value n1 d1 < value n2 d2 ↔ n1 * d2 < n2 * d1 := by
  rw [← Rat.not_le, value_le_iff_pos _ _ _ _ h2 h1]
  omega

/-- the integer comparison that decides `n1/d1 ⋈ n2/d2`: the cross products, mirrored when exactly
one denominator is negative -/
theorem cmpRat_value (op : CmpOp) (n1 d1 n2 d2 : Int) (h1 : d1 ≠ 0) (h2 : d2 ≠ 0) :
    cmpRat op (value n1 d1) (value n2 d2)
      = cmpInt (if (decide (d1 < 0) != decide (d2 < 0)) then mirror op else op) (n1 * d2) (n2 * d1) := by
  have key : ∀ (m1 e1 m2 e2 : Int), 0 < e1 → 0 < e2 →
      ((value m1 e1 < value m2 e2 ↔ m1 * e2 < m2 * e1) ∧ (value m1 e1 ≤ value m2 e2 ↔ m1 * e2 ≤ m2 * e1)
        ∧ (value m1 e1 = value m2 e2 ↔ m1 * e2 = m2 * e1)) :=
    fun m1 e1 m2 e2 p1 p2 => ⟨value_lt_iff_pos _ _ _ _ p1 p2, value_le_iff_pos _ _ _ _ p1 p2,
      value_eq_iff _ _ _ _ (by omega) (by omega)⟩
  have key' : ∀ (m1 e1 m2 e2 : Int), 0 < e1 → 0 < e2 →
      ((value m2 e2 < value m1 e1 ↔ m2 * e1 < m1 * e2) ∧ (value m2 e2 ≤ value m1 e1 ↔ m2 * e1 ≤ m1 * e2)) :=
    fun m1 e1 m2 e2 p1 p2 => ⟨value_lt_iff_pos _ _ _ _ p2 p1, value_le_iff_pos _ _ _ _ p2 p1⟩
  by_cases s1 : d1 < 0 <;> by_cases s2 : d2 < 0
  · -- both negative: n/d = (-n)/(-d)
    obtain ⟨klt, kle, keq⟩ := key (-n1) (-d1) (-n2) (-d2) (by omega) (by omega)
    obtain ⟨klt', kle'⟩ := key' (-n1) (-d1) (-n2) (-d2) (by omega) (by omega)
    rw [value_neg_neg] at klt kle keq klt' kle'
    rw [value_neg_neg] at klt kle keq klt' kle'
    simp only [Int.neg_mul_neg] at klt kle keq klt' kle'
    cases op <;> simp [cmpRat, cmpInt, mirror, s1, s2, klt, kle, keq, klt', kle']
  · obtain ⟨klt, kle, keq⟩ := key (-n1) (-d1) n2 d2 (by omega) (by omega)
    obtain ⟨klt', kle'⟩ := key' (-n1) (-d1) n2 d2 (by omega) (by omega)
    rw [value_neg_neg] at klt kle keq klt' kle'
    simp only [Int.neg_mul, Int.mul_neg] at klt kle keq klt' kle'
    cases op <;> simp [cmpRat, cmpInt, mirror, s1, s2, klt, kle, keq, klt', kle'] <;> omega
  · obtain ⟨klt, kle, keq⟩ := key n1 d1 (-n2) (-d2) (by omega) (by omega)
    obtain ⟨klt', kle'⟩ := key' n1 d1 (-n2) (-d2) (by omega) (by omega)
    rw [value_neg_neg] at klt kle keq klt' kle'
    simp only [Int.neg_mul, Int.mul_neg] at klt kle keq klt' kle'
    cases op <;> simp [cmpRat, cmpInt, mirror, s1, s2, klt, kle, keq, klt', kle'] <;> omega
  · obtain ⟨klt, kle, keq⟩ := key n1 d1 n2 d2 (by omega) (by omega)
    obtain ⟨klt', kle'⟩ := key' n1 d1 n2 d2 (by omega) (by omega)
    cases op <;> simp [cmpRat, cmpInt, mirror, s1, s2, klt, kle, keq, klt', kle']

end Cnl.FractionProofs
