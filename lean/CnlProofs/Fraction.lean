import CnlModel.Fraction
import CnlSpec.Fraction
/-!
Helper lemmas for C16 (Lean core only).

* facts about `CnlModel.CInt`: a value in range is unchanged by conversion, built-in `+ - *`,
  unary `-`/`+` and comparisons are exact under the `OpFits`/`NegFits`/`CmpFits` guards;
* facts about core `Rat`: the cross-multiplication formulas for `+ - * /`, equality and order of
  `n/d` for denominators of either sign, lowest terms;
* the model of `std::gcd`, `reduce`, `canonical` under the guard.
-/
namespace Cnl.FractionProofs
open Cnl Cnl.Fraction Cnl.FractionSpec

/-! ## CInt -/

theorem two_pow_pos (n : Nat) : (0 : Int) < 2 ^ n := Int.pow_pos (by decide)

theorem two_pow_succ_pred {b : Nat} (h : 1 ≤ b) : (2 : Int) ^ b = 2 * 2 ^ (b - 1) := by
  obtain ⟨k, rfl⟩ : ∃ k, b = k + 1 := ⟨b - 1, by omega⟩
  simp [Int.pow_succ, Int.mul_comm]

theorem wrap_of_inRange (T : IntTy) (h1 : 1 ≤ T.bits) (v : Int) (h : T.InRange v) : T.wrap v = v := by
  unfold IntTy.InRange IntTy.lowest IntTy.max at h
  unfold IntTy.wrap
  have hp := two_pow_succ_pred h1
  have hpos := two_pow_pos (T.bits - 1)
  by_cases hs : T.signed
  · simp only [hs, ite_true] at h ⊢
    generalize (2 : Int) ^ (T.bits - 1) = p at *
    rw [hp, Int.emod_eq_of_lt (by omega) (by omega)]
    omega
  · simp only [hs] at h ⊢
    simp only [Bool.false_eq_true, ite_false] at h ⊢
    generalize (2 : Int) ^ T.bits = p at *
    exact Int.emod_eq_of_lt (by omega) (by omega)

theorem promote_bits (t : IntTy) : 32 ≤ (promote t).bits := by
  unfold promote
  by_cases h : t.bits < 32 <;> simp [h, i32] <;> omega

theorem usualArith_bits (a b : IntTy) : 32 ≤ (usualArith a b).bits := by
  have ha := promote_bits a
  have hb := promote_bits b
  unfold usualArith
  simp only
  split
  · split <;> assumption
  · split <;> split <;> assumption

theorem zero_inRange (T : IntTy) : T.InRange 0 := by
  unfold IntTy.InRange IntTy.lowest IntTy.max
  have := two_pow_pos (T.bits - 1)
  have := two_pow_pos T.bits
  by_cases hs : T.signed <;> simp [hs] <;> omega

theorem pow_le_pow_31 {k : Nat} (h : k ≤ 31) : (2 : Int) ^ k ≤ 2 ^ 31 := by
  have : (2 : Nat) ^ k ≤ 2 ^ 31 := Nat.pow_le_pow_right (by decide) h
  have h2 : ((2 ^ k : Nat) : Int) ≤ ((2 ^ 31 : Nat) : Int) := Int.ofNat_le.mpr this
  simpa [Int.natCast_pow] using h2

/-- integral promotion preserves values -/
theorem inRange_promote (t : IntTy) (v : Int) (h : t.InRange v) : (promote t).InRange v := by
  unfold promote
  by_cases hb : t.bits < 32
  · simp only [hb, ite_true]
    unfold IntTy.InRange IntTy.lowest IntTy.max at h ⊢
    simp only [i32, ite_true]
    by_cases hs : t.signed
    · simp only [hs, ite_true] at h
      have := pow_le_pow_31 (k := t.bits - 1) (by omega)
      have e : (2 : Int) ^ (32 - 1) = 2 ^ 31 := rfl
      rw [e]
      omega
    · simp only [hs] at h
      simp only [Bool.false_eq_true, ite_false] at h
      have := pow_le_pow_31 (k := t.bits) (by omega)
      have e : (2 : Int) ^ (32 - 1) = 2 ^ 31 := rfl
      rw [e]
      have := two_pow_pos 31
      omega
  · simpa [hb] using h

theorem usualArith_self (t : IntTy) : usualArith t t = promote t := by
  unfold usualArith
  simp

theorem arith_of_inRange (T : IntTy) (h1 : 1 ≤ T.bits) (v : Int) (h : T.InRange v) : arith T v = .ok (T, v) := by
  unfold arith
  by_cases hs : T.signed
  · simp [hs, h]
  · simp [hs, wrap_of_inRange T h1 v h]

theorem cBin_mul_exact (x y : TV) (h : OpFits (· * ·) x y) : cBin .mul x y = .ok (prodTV x y) := by
  obtain ⟨hx, hy, hp⟩ := h
  have hb : 1 ≤ (usualArith x.1 y.1).bits := by have := usualArith_bits x.1 y.1; omega
  simp only [cBin, wrap_of_inRange _ hb _ hx, wrap_of_inRange _ hb _ hy]
  exact arith_of_inRange _ hb _ hp

theorem cBin_add_exact (x y : TV) (h : OpFits (· + ·) x y) :
    cBin .add x y = .ok (usualArith x.1 y.1, x.2 + y.2) := by
  obtain ⟨hx, hy, hp⟩ := h
  have hb : 1 ≤ (usualArith x.1 y.1).bits := by have := usualArith_bits x.1 y.1; omega
  simp only [cBin, wrap_of_inRange _ hb _ hx, wrap_of_inRange _ hb _ hy]
  exact arith_of_inRange _ hb _ hp

theorem cBin_sub_exact (x y : TV) (h : OpFits (· - ·) x y) :
    cBin .sub x y = .ok (usualArith x.1 y.1, x.2 - y.2) := by
  obtain ⟨hx, hy, hp⟩ := h
  have hb : 1 ≤ (usualArith x.1 y.1).bits := by have := usualArith_bits x.1 y.1; omega
  simp only [cBin, wrap_of_inRange _ hb _ hx, wrap_of_inRange _ hb _ hy]
  exact arith_of_inRange _ hb _ hp

/-- comparison of two integers -/
def cmpInt (op : CmpOp) (a b : Int) : Bool :=
  match op with
  | .lt => decide (a < b)
  | .le => decide (a ≤ b)
  | .gt => decide (a > b)
  | .ge => decide (a ≥ b)
  | .eq => decide (a = b)
  | .ne => decide (a ≠ b)

theorem cCmp_exact (op : CmpOp) (x y : TV) (h : CmpFits x y) : cCmp op x y = cmpInt op x.2 y.2 := by
  obtain ⟨hx, hy⟩ := h
  have hb : 1 ≤ (usualArith x.1 y.1).bits := by have := usualArith_bits x.1 y.1; omega
  simp only [cCmp, wrap_of_inRange _ hb _ hx, wrap_of_inRange _ hb _ hy]
  cases op <;> rfl

theorem cNeg_exact (x : TV) (h : NegFits x) : cNeg x = .ok (promote x.1, -x.2) := by
  obtain ⟨hx, hn⟩ := h
  have hb : 1 ≤ (promote x.1).bits := by have := promote_bits x.1; omega
  simp only [cNeg, wrap_of_inRange _ hb _ hx]
  exact arith_of_inRange _ hb _ hn

theorem cPos_exact (x : TV) (h : (promote x.1).InRange x.2) : cPos x = .ok (promote x.1, x.2) := by
  have hb : 1 ≤ (promote x.1).bits := by have := promote_bits x.1; omega
  simp only [cPos, wrap_of_inRange _ hb _ h]

/-- `d < Denominator{}` decides the sign of a well-formed denominator -/
theorem negDen_eq (a : Frac) (h : a.dt.InRange a.d) : negDen a = decide (a.d < 0) := by
  have hp := inRange_promote _ _ h
  have hc : CmpFits a.den (a.dt, 0) := by
    unfold CmpFits
    simp only [Frac.den, usualArith_self]
    exact ⟨hp, zero_inRange _⟩
  unfold negDen
  rw [cCmp_exact _ _ _ hc]
  rfl

/-! ## Rat -/

theorem value_eq_divInt (n d : Int) : value n d = Rat.divInt n d := by
  unfold value
  rw [Rat.divInt_eq_div]

theorem value_add (n1 d1 n2 d2 : Int) (h1 : d1 ≠ 0) (h2 : d2 ≠ 0) :
    value (n1 * d2 + n2 * d1) (d1 * d2) = value n1 d1 + value n2 d2 := by
  simp only [value_eq_divInt]
  rw [Rat.divInt_add_divInt _ _ h1 h2]

theorem value_sub (n1 d1 n2 d2 : Int) (h1 : d1 ≠ 0) (h2 : d2 ≠ 0) :
    value (n1 * d2 - n2 * d1) (d1 * d2) = value n1 d1 - value n2 d2 := by
  simp only [value_eq_divInt]
  rw [Rat.divInt_sub_divInt _ _ h1 h2]

theorem value_mul (n1 d1 n2 d2 : Int) :
    value (n1 * n2) (d1 * d2) = value n1 d1 * value n2 d2 := by
  simp only [value_eq_divInt]
  rw [Rat.divInt_mul_divInt]

theorem value_div (n1 d1 n2 d2 : Int) :
    value (n1 * d2) (d1 * n2) = value n1 d1 / value n2 d2 := by
  simp only [value_eq_divInt]
  rw [Rat.div_def, Rat.inv_divInt, Rat.divInt_mul_divInt]

theorem value_neg (n d : Int) : value (-n) d = -value n d := by
  simp only [value_eq_divInt]
  rw [Rat.neg_divInt]

theorem value_neg_neg (n d : Int) : value (-n) (-d) = value n d := by
  simp only [value_eq_divInt]
  rw [Rat.neg_divInt_neg]

theorem value_eq_iff (n1 d1 n2 d2 : Int) (h1 : d1 ≠ 0) (h2 : d2 ≠ 0) :
    value n1 d1 = value n2 d2 ↔ n1 * d2 = n2 * d1 := by
  simp only [value_eq_divInt]
  exact Rat.divInt_eq_divInt_iff h1 h2

/-- order of `n1/d1` and `n2/d2` for positive denominators -/
theorem value_le_iff_pos (n1 d1 n2 d2 : Int) (h1 : 0 < d1) (h2 : 0 < d2) :
    value n1 d1 ≤ value n2 d2 ↔ n1 * d2 ≤ n2 * d1 := by
  simp only [value_eq_divInt]
  rw [Rat.le_iff_sub_nonneg, Rat.divInt_sub_divInt _ _ (by omega) (by omega),
    Rat.divInt_nonneg_iff_of_pos_right (Int.mul_pos h2 h1)]
  omega

theorem value_lt_iff_pos (n1 d1 n2 d2 : Int) (h1 : 0 < d1) (h2 : 0 < d2) :
    value n1 d1 < value n2 d2 ↔ n1 * d2 < n2 * d1 := by
  rw [← Rat.not_le, value_le_iff_pos _ _ _ _ h2 h1]
  omega

/-- the integer comparison that decides `n1/d1 ⋈ n2/d2`: the cross products, mirrored when exactly
one denominator is negative -/
theorem cmpRat_value (op : CmpOp) (n1 d1 n2 d2 : Int) (h1 : d1 ≠ 0) (h2 : d2 ≠ 0) :
    cmpRat op (value n1 d1) (value n2 d2)
      = cmpInt (if (decide (d1 < 0) != decide (d2 < 0)) then mirror op else op) (n1 * d2) (n2 * d1) := by
  have key : ∀ (m1 e1 m2 e2 : Int), 0 < e1 → 0 < e2 →
      ((value m1 e1 < value m2 e2 ↔ m1 * e2 < m2 * e1) ∧ (value m1 e1 ≤ value m2 e2 ↔ m1 * e2 ≤ m2 * e1)
        ∧ (value m1 e1 = value m2 e2 ↔ m1 * e2 = m2 * e1)) :=
    fun m1 e1 m2 e2 p1 p2 => ⟨value_lt_iff_pos _ _ _ _ p1 p2, value_le_iff_pos _ _ _ _ p1 p2,
      value_eq_iff _ _ _ _ (by omega) (by omega)⟩
  have key' : ∀ (m1 e1 m2 e2 : Int), 0 < e1 → 0 < e2 →
      ((value m2 e2 < value m1 e1 ↔ m2 * e1 < m1 * e2) ∧ (value m2 e2 ≤ value m1 e1 ↔ m2 * e1 ≤ m1 * e2)) :=
    fun m1 e1 m2 e2 p1 p2 => ⟨value_lt_iff_pos _ _ _ _ p2 p1, value_le_iff_pos _ _ _ _ p2 p1⟩
  by_cases s1 : d1 < 0 <;> by_cases s2 : d2 < 0
  · -- both negative: n/d = (-n)/(-d)
    obtain ⟨klt, kle, keq⟩ := key (-n1) (-d1) (-n2) (-d2) (by omega) (by omega)
    obtain ⟨klt', kle'⟩ := key' (-n1) (-d1) (-n2) (-d2) (by omega) (by omega)
    rw [value_neg_neg] at klt kle keq klt' kle'
    rw [value_neg_neg] at klt kle keq klt' kle'
    simp only [Int.neg_mul_neg] at klt kle keq klt' kle'
    cases op <;> simp [cmpRat, cmpInt, s1, s2, klt, kle, keq, klt', kle']
  · obtain ⟨klt, kle, keq⟩ := key (-n1) (-d1) n2 d2 (by omega) (by omega)
    obtain ⟨klt', kle'⟩ := key' (-n1) (-d1) n2 d2 (by omega) (by omega)
    rw [value_neg_neg] at klt kle keq klt' kle'
    simp only [Int.neg_mul, Int.mul_neg] at klt kle keq klt' kle'
    cases op <;> simp [cmpRat, cmpInt, mirror, s1, s2, klt, kle, keq, klt', kle'] <;> omega
  · obtain ⟨klt, kle, keq⟩ := key n1 d1 (-n2) (-d2) (by omega) (by omega)
    obtain ⟨klt', kle'⟩ := key' n1 d1 (-n2) (-d2) (by omega) (by omega)
    rw [value_neg_neg] at klt kle keq klt' kle'
    simp only [Int.neg_mul, Int.mul_neg] at klt kle keq klt' kle'
    cases op <;> simp [cmpRat, cmpInt, mirror, s1, s2, klt, kle, keq, klt', kle'] <;> omega
  · obtain ⟨klt, kle, keq⟩ := key n1 d1 n2 d2 (by omega) (by omega)
    obtain ⟨klt', kle'⟩ := key' n1 d1 n2 d2 (by omega) (by omega)
    cases op <;> simp [cmpRat, cmpInt, s1, s2, klt, kle, keq, klt', kle']

/-! ## gcd, reduce, canonical -/

theorem usualArith_i32 (a : IntTy) : usualArith a i32 = promote a := by
  have hb := promote_bits a
  unfold usualArith
  have e : promote i32 = i32 := by decide
  simp only [e]
  by_cases hs : (promote a).signed
  · simp [hs, i32]
    intro h
    have : (32 : Nat) ≤ (promote a).bits := hb
    omega
  · simp [hs, i32]
    intro h
    have : (32 : Nat) ≤ (promote a).bits := hb
    omega

theorem promote_of_bits (t : IntTy) (h : 32 ≤ t.bits) : promote t = t := by
  unfold promote
  simp
  omega

theorem commonTy_bits (a b : IntTy) (ha : 1 ≤ a.bits) : 1 ≤ (commonTy a b).bits := by
  unfold commonTy
  by_cases h : a = b
  · simp [h] at ha ⊢; exact h ▸ ha
  · simp only [h, ite_false]; have := usualArith_bits a b; omega

theorem commonType_eq (a b : IntTy) : commonType a b = commonTy a b := rfl

theorem max_lt_pow (C : IntTy) (h1 : 1 ≤ C.bits) : C.max < 2 ^ C.bits := by
  unfold IntTy.max
  have hp := two_pow_succ_pred h1
  have := two_pow_pos (C.bits - 1)
  by_cases hs : C.signed <;> simp [hs] <;> omega

theorem bitPattern_nat (C : IntTy) (h1 : 1 ≤ C.bits) (k : Nat) (h : C.InRange (k : Int)) :
    bitPattern C (k : Int) = k := by
  unfold bitPattern
  have hm := max_lt_pow C h1
  have hk : (k : Int) ≤ C.max := h.2
  rw [Int.emod_eq_of_lt (by omega) (by omega)]
  simp

theorem inRange_nat_of_le (C : IntTy) (j k : Nat) (h : C.InRange (k : Int)) (hjk : j ≤ k) : C.InRange (j : Int) := by
  have z := zero_inRange C
  unfold IntTy.InRange at *
  omega

theorem absR_exact (C : IntTy) (x : TV) (hC : 1 ≤ C.bits) (hx : x.1.InRange x.2)
    (h1 : C.InRange x.2) (h2 : C.InRange x.2.natAbs) : absR C x = .ok (C, x.2.natAbs) := by
  have hc : CmpFits x (i32, 0) := by
    unfold CmpFits
    simp only [usualArith_i32]
    exact ⟨inRange_promote _ _ hx, zero_inRange _⟩
  unfold absR
  rw [cCmp_exact _ _ _ hc]
  by_cases hs : x.2 ≥ 0
  · simp only [cmpInt, hs, decide_true, ite_true, convert, wrap_of_inRange C hC _ h1]
    rw [Int.natAbs_of_nonneg hs]
    rfl
  · have hneg : (x.2.natAbs : Int) = -x.2 := Int.ofNat_natAbs_of_nonpos (by omega)
    have hn : NegFits (C, x.2) := by
      unfold NegFits
      refine ⟨inRange_promote _ _ h1, ?_⟩
      have := inRange_promote _ _ h2
      rw [hneg] at this
      exact this
    simp only [cmpInt, hs, decide_false, convert, wrap_of_inRange C hC _ h1]
    simp only [Bool.false_eq_true, ite_false]
    rw [cNeg_exact _ hn]
    have h2' : C.InRange (-x.2) := hneg ▸ h2
    simp only [Res.bind_ok, Res.pure_eq, wrap_of_inRange C hC _ h2', hneg]

theorem gcd_exact (a : Frac) (g : ReduceGuard a.num a.den) :
    gcd a = .ok (commonTy a.nt a.dt, (Int.gcd a.n a.d : Int)) := by
  have hC := commonTy_bits a.nt a.dt g.nbits
  unfold Fraction.gcd
  simp only [commonType_eq]
  rw [absR_exact _ a.num hC g.nwf g.cn g.cna, absR_exact _ a.den hC g.dwf g.cd g.cda]
  simp only [Res.bind_ok, Res.pure_eq, Frac.num, Frac.den]
  have cna' : (commonTy a.nt a.dt).InRange (a.n.natAbs : Int) := g.cna
  have cda' : (commonTy a.nt a.dt).InRange (a.d.natAbs : Int) := g.cda
  rw [bitPattern_nat _ hC _ cna', bitPattern_nat _ hC _ cda']
  have hle : Nat.gcd a.n.natAbs a.d.natAbs ≤ a.d.natAbs :=
    Nat.gcd_le_right _ (by have := g.dnz; simp only [Frac.den] at this; omega)
  have hr := inRange_nat_of_le _ _ _ cda' hle
  have e : Int.ofNat (Nat.gcd a.n.natAbs a.d.natAbs) = ((Nat.gcd a.n.natAbs a.d.natAbs : Nat) : Int) := rfl
  rw [e, wrap_of_inRange _ hC _ hr]
  rfl

/-- exact division of an in-range value by a positive divisor stays in range -/
theorem inRange_ediv (T : IntTy) (n g : Int) (h : T.InRange n) (hg : 0 < g) : T.InRange (n / g) := by
  have z := zero_inRange T
  unfold IntTy.InRange at *
  have hle := Int.natAbs_ediv_le_natAbs n g
  by_cases hn : 0 ≤ n
  · have := Int.ediv_nonneg hn (Int.le_of_lt hg)
    omega
  · have := Int.ediv_neg_of_neg_of_pos (by omega : n < 0) hg
    omega

theorem cBin_div_exact (x y : TV) (hx : (usualArith x.1 y.1).InRange x.2) (hy : (usualArith x.1 y.1).InRange y.2)
    (hpos : 0 < y.2) (hdvd : y.2 ∣ x.2) : cBin .div x y = .ok (usualArith x.1 y.1, x.2 / y.2) := by
  have hb : 1 ≤ (usualArith x.1 y.1).bits := by have := usualArith_bits x.1 y.1; omega
  have h0 : ¬ y.2 = 0 := by omega
  have h1 : ¬ ((usualArith x.1 y.1).signed = true ∧ x.2 = (usualArith x.1 y.1).lowest ∧ y.2 = -1) := by
    intro h
    have := h.2.2
    omega
  have hr := arith_of_inRange _ hb _ (inRange_ediv _ _ _ hx hpos)
  unfold cBin
  simp only [wrap_of_inRange _ hb _ hx, wrap_of_inRange _ hb _ hy]
  rw [if_neg h0, if_neg h1, Int.tdiv_eq_ediv_of_dvd hdvd]
  exact hr

theorem reduce_exact (a : Frac) (g : ReduceGuard a.num a.den) :
    reduce a = .ok ⟨usualArith a.nt (commonTy a.nt a.dt), usualArith a.dt (commonTy a.nt a.dt),
      a.n / (Int.gcd a.n a.d : Int), a.d / (Int.gcd a.n a.d : Int)⟩ := by
  have hpos : (0 : Int) < (Int.gcd a.n a.d : Int) := by
    have := Int.gcd_pos_of_ne_zero_right a.n (b := a.d) g.dnz
    omega
  have e1 := cBin_div_exact a.num (commonTy a.nt a.dt, (Int.gcd a.n a.d : Int)) g.qn g.qng hpos (Int.gcd_dvd_left _ _)
  have e2 := cBin_div_exact a.den (commonTy a.nt a.dt, (Int.gcd a.n a.d : Int)) g.qd g.qdg hpos (Int.gcd_dvd_right _ _)
  unfold reduce
  rw [gcd_exact a g]
  simp only [Res.bind_ok]
  rw [e1, e2]
  simp only [Res.bind_ok, Res.pure_eq, mk, Frac.num, Frac.den]

/-- lowest terms of `n/d` in terms of the gcd -/
theorem lowestTerms_eq (n d : Int) (hd : d ≠ 0) :
    lowestTerms n d = if d < 0 then (-(n / (Int.gcd n d : Int)), -(d / (Int.gcd n d : Int)))
      else (n / (Int.gcd n d : Int), d / (Int.gcd n d : Int)) := by
  unfold lowestTerms
  rw [value_eq_divInt, Rat.num_divInt, Rat.den_divInt, Int.gcd_comm d n]
  simp only [hd, ite_false]
  by_cases hs : d < 0
  · simp only [hs, ite_true, Int.sign_eq_neg_one_of_neg hs, Int.natCast_ediv,
      Int.ofNat_natAbs_of_nonpos (Int.le_of_lt hs)]
    rw [Int.neg_one_mul, Int.neg_ediv_of_dvd (Int.gcd_dvd_left _ _), Int.neg_ediv_of_dvd (Int.gcd_dvd_right _ _)]
  · have hp : 0 < d := by omega
    simp only [hs, ite_false, Int.sign_eq_one_of_pos hp, Int.natCast_ediv, Int.one_mul,
      Int.natAbs_of_nonneg (Int.le_of_lt hp)]

theorem ediv_gcd_neg_iff (n d : Int) (hd : d ≠ 0) : d / (Int.gcd n d : Int) < 0 ↔ d < 0 := by
  have hpos : (0 : Int) < (Int.gcd n d : Int) := by
    have := Int.gcd_pos_of_ne_zero_right n (b := d) hd
    omega
  constructor
  · intro h
    by_cases hn : 0 ≤ d
    · have := Int.ediv_nonneg hn (Int.le_of_lt hpos); omega
    · omega
  · intro h
    exact Int.ediv_neg_of_neg_of_pos h hpos

theorem canonical_exact (a : Frac) (g : CanonGuard a.num a.den) :
    canonical a = .ok ⟨usualArith a.nt (commonTy a.nt a.dt), usualArith a.dt (commonTy a.nt a.dt),
      (lowestTerms a.n a.d).1, (lowestTerms a.n a.d).2⟩ := by
  have hpos : (0 : Int) < (Int.gcd a.n a.d : Int) := by
    have := Int.gcd_pos_of_ne_zero_right a.n (b := a.d) g.dnz
    omega
  unfold canonical
  rw [reduce_exact a g.toReduceGuard]
  simp only [Res.bind_ok]
  have hdr := inRange_ediv _ _ _ g.qd hpos
  have hnr := inRange_ediv _ _ _ g.qn hpos
  have hnd := negDen_eq ⟨usualArith a.nt (commonTy a.nt a.dt), usualArith a.dt (commonTy a.nt a.dt),
      a.n / (Int.gcd a.n a.d : Int), a.d / (Int.gcd a.n a.d : Int)⟩ hdr
  unfold negDen at hnd
  simp only [Frac.den] at hnd ⊢
  simp only [hnd]
  have dnz : a.d ≠ 0 := g.dnz
  rw [lowestTerms_eq _ _ dnz]
  by_cases hs : a.d < 0
  · have hq := (ediv_gcd_neg_iff a.n a.d dnz).mpr hs
    simp only [hq, hs, decide_true, ite_true]
    have pn := promote_of_bits _ (usualArith_bits a.nt (commonTy a.nt a.dt))
    have pd := promote_of_bits _ (usualArith_bits a.dt (commonTy a.nt a.dt))
    have fn : NegFits (usualArith a.nt (commonTy a.nt a.dt), a.n / (Int.gcd a.n a.d : Int)) := by
      unfold NegFits; simp only [pn]; exact ⟨hnr, g.negn hs⟩
    have fd : NegFits (usualArith a.dt (commonTy a.nt a.dt), a.d / (Int.gcd a.n a.d : Int)) := by
      unfold NegFits; simp only [pd]; exact ⟨hdr, g.negd hs⟩
    unfold negated
    simp only [Frac.num, Frac.den]
    rw [cNeg_exact _ fn, cNeg_exact _ fd]
    simp only [Res.bind_ok, Res.pure_eq, mk, pn, pd]
  · have hq : ¬ (a.d / (Int.gcd a.n a.d : Int) < 0) := fun h => hs ((ediv_gcd_neg_iff a.n a.d dnz).mp h)
    simp only [hq, hs, decide_false, ite_false]
    simp only [Bool.false_eq_true, ite_false, Res.pure_eq]

/-! ## abs -/

theorem absC_exact (x : TV) (hb : 1 ≤ x.1.bits) (hs : x.1.signed = true) (hx : x.1.InRange x.2)
    (hn : x.1.InRange (-x.2)) : absC x = .ok (x.1, (x.2.natAbs : Int)) := by
  have hc : CmpFits x (i32, 0) := by
    unfold CmpFits
    simp only [usualArith_i32]
    exact ⟨inRange_promote _ _ hx, zero_inRange _⟩
  unfold absC
  simp only [hs, ite_true]
  rw [cCmp_exact _ _ _ hc]
  by_cases hneg : x.2 < 0
  · have f : NegFits x := ⟨inRange_promote _ _ hx, inRange_promote _ _ hn⟩
    simp only [cmpInt, hneg, decide_true, ite_true]
    rw [cNeg_exact _ f]
    simp only [Res.bind_ok, Res.pure_eq, convert, wrap_of_inRange _ hb _ hn,
      Int.ofNat_natAbs_of_nonpos (Int.le_of_lt hneg)]
  · simp only [cmpInt, hneg, decide_false]
    simp only [Bool.false_eq_true, ite_false]
    rw [cPos_exact _ (inRange_promote _ _ hx)]
    simp only [Res.bind_ok, Res.pure_eq, convert, wrap_of_inRange _ hb _ hx,
      Int.natAbs_of_nonneg (by omega : 0 ≤ x.2)]

/-! ## lowest terms -/

theorem lowestTerms_value (n d : Int) : value (lowestTerms n d).1 (lowestTerms n d).2 = value n d := by
  unfold lowestTerms
  simp only
  rw [value_eq_divInt, Rat.num_divInt_den]

theorem lowestTerms_coprime (n d : Int) : Coprime (lowestTerms n d).1 (lowestTerms n d).2 := by
  unfold lowestTerms Coprime
  simp only
  have h := (value n d).reduced
  unfold Nat.Coprime at h
  rw [Int.gcd_eq_natAbs_gcd_natAbs]
  simpa using h

theorem lowestTerms_pos (n d : Int) : 0 < (lowestTerms n d).2 := by
  unfold lowestTerms
  simp only
  have := (value n d).den_pos
  omega

theorem reduced_value (n d : Int) (hd : d ≠ 0) :
    value (n / (Int.gcd n d : Int)) (d / (Int.gcd n d : Int)) = value n d := by
  have hpos : (0 : Int) < (Int.gcd n d : Int) := by
    have := Int.gcd_pos_of_ne_zero_right n (b := d) hd
    omega
  have hn : n / (Int.gcd n d : Int) * (Int.gcd n d : Int) = n := Int.ediv_mul_cancel (Int.gcd_dvd_left _ _)
  have hdd : d / (Int.gcd n d : Int) * (Int.gcd n d : Int) = d := Int.ediv_mul_cancel (Int.gcd_dvd_right _ _)
  have hq : d / (Int.gcd n d : Int) ≠ 0 := by
    intro h
    rw [h, Int.zero_mul] at hdd
    exact hd hdd.symm
  rw [value_eq_iff _ _ _ _ hq hd]
  generalize (Int.gcd n d : Int) = g at *
  generalize n / g = k at *
  generalize d / g = l at *
  rw [← hn, ← hdd]
  ac_rfl

theorem reduced_coprime (n d : Int) (hd : d ≠ 0) :
    Coprime (n / (Int.gcd n d : Int)) (d / (Int.gcd n d : Int)) := by
  unfold Coprime
  exact Int.gcd_ediv_gcd_ediv_gcd (Int.gcd_pos_of_ne_zero_right n hd)

theorem reduced_den_ne_zero (n d : Int) (hd : d ≠ 0) : d / (Int.gcd n d : Int) ≠ 0 := by
  have hdd : d / (Int.gcd n d : Int) * (Int.gcd n d : Int) = d := Int.ediv_mul_cancel (Int.gcd_dvd_right _ _)
  intro h
  rw [h, Int.zero_mul] at hdd
  exact hd hdd.symm

end Cnl.FractionProofs
