import CnlProofs.Exp2
/-! Kernel-checked table, part 3 of 4: `i16_m14` representations 32768 … 49151 (offset from `lowest`): result representable ⇒ model `ok` and within 2 units of the true floor. -/
open Cnl Cnl.Exp2 Cnl.Exp2Proofs
namespace Cnl.Exp2Tab16c
set_option maxRecDepth 1000000
theorem part2 : sweep ⟨16, true, -14⟩ (boundOK ⟨16, true, -14⟩ 2) 32768 16384 = true := by decide +kernel
end Cnl.Exp2Tab16c
