import CnlProofs.Scaled
/-!
# Lemmas for the documentation kernels of C12

The four fixed-point kernels the C12 harness exercises (`kernel` lines; `T` the operand
representation, `W` the widened one, `a = scaled_integer<T, power<e1>>{l}`,
`a2 = scaled_integer<T, power<e1>>{r}`, `b = scaled_integer<T, power<e2>>{r}`):

    mulwiden   WA{a} * a2                      W(l) * r
    mixadd     a + b                           l + r * (T(1) << (e2-e1))   resp.   l * (T(1) << (e1-e2)) + r
    average    (WA{a} + a2) >> constant<1>{}   W(l) + r
    square     WA{a} * WA{a}                   W(l) * W(l)

Each CNL expression, evaluated by the layered model, is the hand-written code on bare integers
(evaluated by `cBin`) — same value, same representation type, same undefined cases — with the
exponent the kernel documents.  The widening kernels need no hypothesis at all; `mixadd` needs the
operands in range and `2^|e2-e1|` representable in `T` (the hand-written `T(1) << k` is converted
back to `T`).  The `_exact` corollaries give the mathematical value when `W` is wide enough.

Lean core only.
-/
set_option linter.unusedVariables false
set_option linter.unusedSimpArgs false

namespace Cnl.KernelsP
open Cnl Cnl.Spec Cnl.Rounding Cnl.Layered Cnl.ScaledP
open Cnl.Elastic (AOp.toBin)

/-- `x >> constant<k>{}` on a `scaled_integer` (`scaled_integer/operators.h`): the representation
is untouched, the exponent is lowered by `k` -/
def shrConst (k : Int) (s : Num) : Res Num :=
  match s.1 with
  | .sc rr e x => pure (.sc rr (e - k) x, s.2)
  | _ => .ill "unexpected"

/-- the hand-written mixed-exponent addition, as the harness writes it -/
def mixaddHand (T : IntTy) (e1 e2 l r : Int) : Res TV :=
  if e1 ≤ e2 then do
    let p ← cBin .shl (T, 1) (i32, e2 - e1); let q ← cBin .mul (T, r) (Cnl.convert T p); cBin .add (T, l) q
  else do
    let p ← cBin .shl (T, 1) (i32, e1 - e2); let q ← cBin .mul (T, l) (Cnl.convert T p); cBin .add q (T, r)

/-- wrap a built-in result as a scaled integer of exponent `e` -/
abbrev atExp (e : Int) (ρ : Nat) (v : TV) : Num := sc v.1 e ρ v.2

/-! ## widening: `WA{a}` -/

/-- widening conversion at the same exponent: the representation is converted, nothing else -/
theorem cast_same_exp (W T : IntTy) (e : Int) (ρ : Nat) (l : Int) :
    Layered.cast (.sc (.int W) e ρ) (sc T e ρ l) = .ok (sc W e ρ (W.wrap l)) := by
  rw [cast_sc_sc, convert_eq]; simp

theorem mulwiden_eq (T W : IntTy) (e1 e2 : Int) (ρ : Nat) (l r : Int) :
    (Layered.cast (.sc (.int W) e1 ρ) (sc T e1 ρ l) >>= fun wa => Layered.bin .mul wa (sc T e2 ρ r))
      = (cBin .mul (Cnl.convert W (T, l)) (T, r)).map (atExp (e1 + e2) ρ) := by
  rw [cast_same_exp]
  simp only [Res.bind_ok]
  exact bin_direct .mul (Or.inl rfl) W T e1 e2 ρ (W.wrap l) r

theorem square_eq (T W : IntTy) (e1 : Int) (ρ : Nat) (l : Int) :
    (Layered.cast (.sc (.int W) e1 ρ) (sc T e1 ρ l) >>= fun wa => Layered.bin .mul wa wa)
      = (cBin .mul (Cnl.convert W (T, l)) (Cnl.convert W (T, l))).map (atExp (e1 + e1) ρ) := by
  rw [cast_same_exp]
  simp only [Res.bind_ok]
  exact bin_direct .mul (Or.inl rfl) W W e1 e1 ρ (W.wrap l) (W.wrap l)

theorem average_eq (T W : IntTy) (e1 : Int) (ρ : Nat) (l r : Int) :
    (Layered.cast (.sc (.int W) e1 ρ) (sc T e1 ρ l) >>= fun wa =>
      Layered.bin .add wa (sc T e1 ρ r) >>= fun s => shrConst 1 s)
      = (cBin .add (Cnl.convert W (T, l)) (T, r)).map (atExp (e1 - 1) ρ) := by
  rw [cast_same_exp]
  simp only [Res.bind_ok]
  rw [bin_add_same_exp]
  show (wrapAt e1 ρ (cBin .add (W, W.wrap l) (T, r)) >>= fun s => shrConst 1 s)
    = (cBin .add (W, W.wrap l) (T, r)).map (atExp (e1 - 1) ρ)
  cases cBin .add (W, W.wrap l) (T, r) <;> rfl

/-! ## `mixadd` -/

theorem arith_cases (T : IntTy) (x : Int) : arith T x = .ub .signedOverflow ∨ ∃ v, arith T x = .ok (T, v) := by
  unfold arith
  split
  · split
    · exact Or.inr ⟨_, rfl⟩
    · exact Or.inl rfl
  · exact Or.inr ⟨_, rfl⟩

/-- an operand already promoted behaves like the unpromoted one -/
theorem cBin_promote_left (op : BinOp) (T : IntTy) (a : Int) (y : TV) :
    cBin op (promote T, a) y = cBin op (T, a) y := by
  simp only [cBin, usualArith_promote_left', promote_promote]

theorem cBin_promote_right (op : BinOp) (T : IntTy) (x : TV) (b : Int) :
    cBin op x (promote T, b) = cBin op x (T, b) := by
  simp only [cBin, usualArith_promote_right]

theorem inRange_digits {L : IntTy} {l : Int} (hl : L.InRange l) : -(2^L.digits : Int) ≤ l ∧ l ≤ 2^L.digits - 1 := by
  unfold IntTy.InRange at hl
  rw [IntTy.max_eq, IntTy.lowest_eq] at hl
  have := two_pow_pos L.digits
  split at hl <;> omega

/-- `2^k` is a value of `T` for `k` below its digits -/
theorem pow_inRange {T : IntTy} {k : Nat} (hk : k < T.digits) : T.InRange (2^k) := by
  unfold IntTy.InRange
  rw [IntTy.max_eq]
  have := (zero_le_max T).1
  have := two_pow_pos k
  exact ⟨by omega, two_pow_lt_iff.2 hk⟩

/-- the hand-written `x * (T(1) << k)`: one multiplication by `2^k` in the promoted type -/
theorem hand_scale (T : IntTy) (hT : 1 ≤ T.bits) (k : Int) (hk0 : 0 ≤ k) (hk : k.toNat < T.digits)
    (x : Int) (hx : T.InRange x) {α : Type} (f : TV → Res α) :
    (cBin .shl (T, 1) (i32, k) >>= fun p => cBin .mul (T, x) (Cnl.convert T p) >>= f)
      = (arith (promote T) (x * 2^k.toNat) >>= f) := by
  have hP := promote_bits_pos T
  have hdP := promote_digits_le hT
  have hdb := Elastic.digits_le_bits (promote T)
  have hTk : T.InRange (2^k.toNat) := pow_inRange hk
  have hPk : (promote T).InRange (2^k.toNat) := promote_inRange hT hTk
  have hc : ¬ (k < 0 ∨ k ≥ ((promote T).bits : Int)) := by omega
  have hshl : cBin .shl (T, 1) (i32, k) = .ok (promote T, 2^k.toNat) := by
    simp only [cBin, hc, ite_false, Int.one_mul, IntTy.wrap_id hP hPk]
  rw [hshl]
  simp only [Res.bind_ok, Cnl.convert, IntTy.wrap_id hT hTk]
  have hmul : cBin .mul (T, x) (T, 2^k.toNat) = arith (promote T) (x * 2^k.toNat) := by
    simp only [cBin, usualArith_self, IntTy.wrap_id hP (promote_inRange hT hx), IntTy.wrap_id hP hPk]
  rw [hmul]

/-- `scale<k>` for `k ≥ 0` with `2^k` representable: the same multiplication -/
theorem scale_eq (T : IntTy) (hT : 1 ≤ T.bits) (k : Int) (hk0 : 0 ≤ k) (hk : k.toNat < T.digits)
    (x : Int) (hx : T.InRange x) : scaleInt k 2 (T, x) = arith (promote T) (x * 2^k.toNat) := by
  have hdP := promote_digits_le hT
  have hok : PowOk T k.toNat 2 := by right; simp only [ite_true]; omega
  rw [scaleInt_up_eq T hT k hk0 2 (by omega) hok x hx,
    IntTy.wrap_id (promote_bits_pos T) (PowOk.fits (by omega) hok (Or.inr rfl)), pw_two]

theorem scale_zero (T : IntTy) (hT : 1 ≤ T.bits) (x : Int) (hx : T.InRange x) :
    scaleInt 0 2 (T, x) = .ok (promote T, x) := by
  have := scaleInt_up T hT 0 (by omega) 2 (by omega) (Or.inl rfl) x hx
    (by simpa [pw_zero] using promote_inRange hT hx)
  simpa [pw_zero] using this

theorem mixadd_eq (T : IntTy) (hT : 1 ≤ T.bits) (e1 e2 : Int) (l r : Int) (hl : T.InRange l) (hr : T.InRange r)
    (hk : (e2 - e1).natAbs < T.digits) :
    Layered.bin .add (sc T e1 2 l) (sc T e2 2 r) = (mixaddHand T e1 e2 l r).map (atExp (min e1 e2) 2) := by
  have hb : Layered.bin .add (sc T e1 2 l) (sc T e2 2 r)
      = (Scaled.binOp intOps .add 2 ⟨(.int T, l), e1⟩ ⟨(.int T, r), e2⟩).map (wrapSc 2) := by
    rw [bin_sc_sc]
  unfold mixaddHand
  by_cases he : e1 = e2
  · subst he
    have hk' : (e1 - e1).toNat < T.digits := by omega
    simp only [Int.le_refl, ite_true]
    rw [hand_scale T hT (e1 - e1) (by omega) hk' r hr, bin_add_same_exp]
    have h0 : (e1 - e1).toNat = 0 := by omega
    rw [h0, Int.pow_zero, Int.mul_one, arith_ok (promote_bits_pos T) (promote_inRange hT hr)]
    simp only [Res.bind_ok, cBin_promote_right, Int.min_self]
    rfl
  · rw [hb, binOp_aligned _ _ _ _ _ _ _ _ he rfl]
    by_cases hlt : e1 ≤ e2
    · have hm : min e1 e2 = e1 := by omega
      have hk' : (e2 - e1).toNat < T.digits := by omega
      simp only [hlt, ite_true, hm, Int.sub_self]
      rw [hand_scale T hT (e2 - e1) (by omega) hk' r hr, scale_zero T hT l hl, scale_eq T hT (e2 - e1) (by omega) hk' r hr]
      simp only [Res.bind_ok]
      rcases arith_cases (promote T) (r * 2^(e2 - e1).toNat) with h | ⟨v, h⟩ <;> rw [h]
      · rfl
      · simp only [Res.bind_ok, cBin_promote_left]
        rfl
    · have hm : min e1 e2 = e2 := by omega
      have hk' : (e1 - e2).toNat < T.digits := by omega
      simp only [hlt, ite_false, hm, Int.sub_self]
      rw [hand_scale T hT (e1 - e2) (by omega) hk' l hl, scale_zero T hT r hr, scale_eq T hT (e1 - e2) (by omega) hk' l hl]
      rcases arith_cases (promote T) (l * 2^(e1 - e2).toNat) with h | ⟨v, h⟩ <;> rw [h]
      · rfl
      · simp only [Res.bind_ok, cBin_promote_right]
        rfl

/-- the value `mixadd` computes when nothing overflows (`e1 ≤ e2`; the other order is symmetric) -/
theorem mixadd_value (T : IntTy) (hT : 1 ≤ T.bits) (e1 e2 : Int) (h12 : e1 ≤ e2) (l r : Int)
    (hl : T.InRange l) (hr : T.InRange r) (hk : (e2 - e1).toNat < T.digits)
    (hfit : (promote T).InRange (r * 2^(e2 - e1).toNat))
    (hres : (promote T).InRange (l + r * 2^(e2 - e1).toNat)) :
    Layered.bin .add (sc T e1 2 l) (sc T e2 2 r) = .ok (sc (promote T) e1 2 (l + r * 2^(e2 - e1).toNat)) := by
  have hP := promote_bits_pos T
  rw [mixadd_eq T hT e1 e2 l r hl hr (by omega)]
  unfold mixaddHand
  simp only [h12, ite_true]
  rw [hand_scale T hT (e2 - e1) (by omega) hk r hr, arith_ok hP hfit]
  simp only [Res.bind_ok]
  have hadd : cBin .add (T, l) (promote T, r * 2^(e2 - e1).toNat)
      = .ok (promote T, l + r * 2^(e2 - e1).toNat) := by
    simp only [cBin, usualArith_self_promote, IntTy.wrap_id hP (promote_inRange hT hl), IntTy.wrap_id hP hfit]
    exact arith_ok hP hres
  rw [hadd, show min e1 e2 = e1 by omega]
  rfl

/-! ## exact values when `W` is wide enough -/

theorem natAbs_le_pow {d : Nat} {l : Int} (h : -(2^d : Int) ≤ l ∧ l ≤ 2^d - 1) : l.natAbs ≤ 2^d := by
  have : ((2^d : Nat) : Int) = (2:Int)^d := by simp
  omega

/-- products of two `d`-digit values -/
theorem mul_bounds {d : Nat} {l r : Int} (hl : -(2^d : Int) ≤ l ∧ l ≤ 2^d - 1) (hr : -(2^d : Int) ≤ r ∧ r ≤ 2^d - 1) :
    -(2^(d+d) : Int) ≤ l * r ∧ l * r ≤ 2^(d+d) ∧ (0 ≤ l → 0 ≤ r → 0 ≤ l * r ∧ l * r ≤ 2^(d+d) - 1) := by
  have c1 : ((2^d : Nat) : Int) = (2:Int)^d := by simp
  have c2 : ((2^(d+d) : Nat) : Int) = (2:Int)^(d+d) := by simp
  have h1 : (l * r).natAbs ≤ 2^(d+d) := by
    rw [Int.natAbs_mul, Nat.pow_add]
    exact Nat.mul_le_mul (natAbs_le_pow hl) (natAbs_le_pow hr)
  refine ⟨by omega, by omega, fun l0 r0 => ?_⟩
  have h2 : (l * r).natAbs + 1 ≤ 2^(d+d) := by
    rw [Int.natAbs_mul, Nat.pow_add]
    exact Elastic.nat_mul_bound (by omega) (by omega)
  have := Int.mul_nonneg l0 r0
  omega

/-- `W` holds every product of two values of `T`: `T`'s digits twice, plus one for the square of
the lowest value if `T` is signed; a signed `T` needs a signed `W` -/
def HoldsProducts (T W : IntTy) : Prop :=
  (T.signed = true → W.signed = true) ∧ T.digits + T.digits + (if T.signed then 1 else 0) ≤ W.digits

instance (T W : IntTy) : Decidable (HoldsProducts T W) := by unfold HoldsProducts; exact inferInstance

/-- `W` holds every sum of two values of `T` -/
def HoldsSums (T W : IntTy) : Prop :=
  (T.signed = true → W.signed = true) ∧ T.digits + 1 ≤ W.digits

instance (T W : IntTy) : Decidable (HoldsSums T W) := by unfold HoldsSums; exact inferInstance

/-- signedness of the type `W op T` is computed in -/
theorem common_signed {T W : IntTy} (hs : T.signed = true → W.signed = true)
    (hu : (usualArith W T).signed = false) : T.signed = false := by
  cases h : T.signed with
  | false => rfl
  | true =>
    have := usualArith_signed (L := W) (R := T) (promote_signed_of_signed (hs h)) (promote_signed_of_signed h)
    rw [hu] at this; cases this

theorem common_digits (T W : IntTy) (hW : 1 ≤ W.bits) : W.digits ≤ (usualArith W T).digits :=
  Nat.le_trans (promote_digits_le hW) (usualArith_digits W T).1

/-- a value of `T` is a value of a wider `W` -/
theorem widen_inRange {T W : IntTy} (hs : T.signed = true → W.signed = true) (hd : T.digits ≤ W.digits)
    {l : Int} (hl : T.InRange l) : W.InRange l := by
  have hb := inRange_digits hl
  apply Elastic.inRange_of_digits' hd hb.1 hb.2
  intro hu
  have hTs : T.signed = false := by
    cases h : T.signed with
    | false => rfl
    | true => rw [hs h] at hu; cases hu
  have := hl.1
  unfold IntTy.lowest at this
  simpa [hTs] using this

theorem nonneg_of_unsigned {T : IntTy} (hs : T.signed = false) {l : Int} (hl : T.InRange l) : 0 ≤ l := by
  have := hl.1
  unfold IntTy.lowest at this
  simpa [hs] using this

theorem widen_mul_exact {T W : IntTy} (hT : 1 ≤ T.bits) (h : HoldsProducts T W) {l r : Int}
    (hl : T.InRange l) (hr : T.InRange r) :
    cBin .mul (Cnl.convert W (T, l)) (T, r) = .ok (usualArith W T, l * r) := by
  obtain ⟨hs, hd⟩ := h
  have hW1 : 1 ≤ W.digits := by
    unfold IntTy.digits at hd ⊢
    cases hh : T.signed <;> simp [hh] at hd <;> omega
  have hW : 1 ≤ W.bits := by have := Elastic.digits_le_bits W; omega
  have hWl : W.InRange l := widen_inRange hs (by omega) hl
  have hcd := common_digits T W hW
  have bl := inRange_digits hl
  have br := inRange_digits hr
  have bm := mul_bounds bl br
  have hU : ∀ v, T.InRange v → (usualArith W T).InRange v := by
    intro v hv
    have bv := inRange_digits hv
    apply Elastic.inRange_of_digits' (show T.digits ≤ _ by omega) bv.1 bv.2
    intro hu; exact nonneg_of_unsigned (common_signed hs hu) hv
  have hprod : (usualArith W T).InRange (l * r) := by
    cases hTs : T.signed with
    | true =>
      simp only [hTs, ite_true] at hd
      have hp := two_pow_le (show T.digits + T.digits + 1 ≤ (usualArith W T).digits by omega)
      rw [two_pow_succ] at hp
      have := two_pow_pos (T.digits + T.digits)
      apply Elastic.inRange_of_digits' (Nat.le_refl _) (by omega) (by omega)
      intro hu; have := common_signed hs hu; rw [hTs] at this; cases this
    | false =>
      simp only [hTs, Bool.false_eq_true, ite_false, Nat.add_zero] at hd
      have l0 := nonneg_of_unsigned hTs hl
      have r0 := nonneg_of_unsigned hTs hr
      have := bm.2.2 l0 r0
      apply Elastic.inRange_of_digits' (show T.digits + T.digits ≤ _ by omega) (by omega) this.2
      intro _; exact this.1
  simp only [Cnl.convert, IntTy.wrap_id hW hWl]
  exact cBin_ring_exact .mul (Or.inr (Or.inr rfl)) rfl (fun _ => ⟨hU l hl, hU r hr⟩) hprod

theorem widen_square_exact {T W : IntTy} (hT : 1 ≤ T.bits) (h : HoldsProducts T W) {l : Int} (hl : T.InRange l) :
    cBin .mul (Cnl.convert W (T, l)) (Cnl.convert W (T, l)) = .ok (promote W, l * l) := by
  obtain ⟨hs, hd⟩ := h
  have hW1 : 1 ≤ W.digits := by
    unfold IntTy.digits at hd ⊢
    cases hh : T.signed <;> simp [hh] at hd <;> omega
  have hW : 1 ≤ W.bits := by have := Elastic.digits_le_bits W; omega
  have hWl : W.InRange l := widen_inRange hs (by omega) hl
  have hdP := promote_digits_le hW
  have bl := inRange_digits hl
  have bm := mul_bounds bl bl
  have hPs : (promote W).signed = false → T.signed = false := by
    intro hu
    cases h : T.signed with
    | false => rfl
    | true => rw [promote_signed_of_signed (hs h)] at hu; cases hu
  have hprod : (promote W).InRange (l * l) := by
    cases hTs : T.signed with
    | true =>
      simp only [hTs, ite_true] at hd
      have hp := two_pow_le (show T.digits + T.digits + 1 ≤ (promote W).digits by omega)
      rw [two_pow_succ] at hp
      have := two_pow_pos (T.digits + T.digits)
      apply Elastic.inRange_of_digits' (Nat.le_refl _) (by omega) (by omega)
      intro hu; have := hPs hu; rw [hTs] at this; cases this
    | false =>
      simp only [hTs, Bool.false_eq_true, ite_false, Nat.add_zero] at hd
      have l0 := nonneg_of_unsigned hTs hl
      have := bm.2.2 l0 l0
      apply Elastic.inRange_of_digits' (show T.digits + T.digits ≤ _ by omega) (by omega) this.2
      intro _; exact this.1
  simp only [Cnl.convert, IntTy.wrap_id hW hWl]
  exact cBin_ring_exact .mul (Or.inr (Or.inr rfl)) (usualArith_self W)
    (fun _ => ⟨promote_inRange hW hWl, promote_inRange hW hWl⟩) hprod

theorem widen_add_exact {T W : IntTy} (hT : 1 ≤ T.bits) (h : HoldsSums T W) {l r : Int}
    (hl : T.InRange l) (hr : T.InRange r) :
    cBin .add (Cnl.convert W (T, l)) (T, r) = .ok (usualArith W T, l + r) := by
  obtain ⟨hs, hd⟩ := h
  have hW : 1 ≤ W.bits := by have := Elastic.digits_le_bits W; omega
  have hWl : W.InRange l := widen_inRange hs (by omega) hl
  have hcd := common_digits T W hW
  have bl := inRange_digits hl
  have br := inRange_digits hr
  have hU : ∀ v, T.InRange v → (usualArith W T).InRange v := by
    intro v hv
    have bv := inRange_digits hv
    apply Elastic.inRange_of_digits' (show T.digits ≤ _ by omega) bv.1 bv.2
    intro hu; exact nonneg_of_unsigned (common_signed hs hu) hv
  have hsum : (usualArith W T).InRange (l + r) := by
    have hp := two_pow_succ T.digits
    apply Elastic.inRange_of_digits' (show T.digits + 1 ≤ _ by omega) (by omega) (by omega)
    intro hu
    have hTs := common_signed hs hu
    have := nonneg_of_unsigned hTs hl
    have := nonneg_of_unsigned hTs hr
    omega
  simp only [Cnl.convert, IntTy.wrap_id hW hWl]
  exact cBin_ring_exact .add (Or.inl rfl) rfl (fun _ => ⟨hU l hl, hU r hr⟩) hsum

end Cnl.KernelsP
