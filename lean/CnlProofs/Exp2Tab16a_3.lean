import CnlProofs.Exp2
/-! Kernel-checked table, part 4 of 4: `u16_m15` representations 49152 … 65535 (offset from `lowest`): result representable ⇒ model `ok` and within 3 units of the true floor. -/
open Cnl Cnl.Exp2 Cnl.Exp2Proofs
namespace Cnl.Exp2Tab16a
set_option maxRecDepth 1000000
theorem part3 : sweep ⟨16, false, -15⟩ (boundOK ⟨16, false, -15⟩ 3) 49152 16384 = true := by decide +kernel
end Cnl.Exp2Tab16a
