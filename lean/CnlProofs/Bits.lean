import CnlModel.Bits
import CnlSpec.Bits
/-!
# Helper lemmas for C18 (bit and digit counting)

1. what the `CInt` operations used by `CnlModel.Bits` evaluate to on the operands that occur there;
2. facts about the spec functions (`bitLength`, `run`, `popcount`, `ofBits`);
3. the recursive templates, by induction on their fuel.
-/
namespace Cnl.Bits
open Cnl

/-! ## 1. CInt -/

theorem promote_bits_ge (T : IntTy) : 32 ≤ (promote T).bits := by
  unfold promote; split
  · decide
  · omega

theorem promote_uT_lt {w : Nat} (h : w < 32) : promote (uT w) = i32 := by simp [promote, uT, h]
theorem promote_uT_ge {w : Nat} (h : 32 ≤ w) : promote (uT w) = uT w := by
  have h' : ¬ (w < 32) := by omega
  have h' : ¬ (w < 32) := by omega
  simp [promote, uT, h']

theorem cBin_shr (T : IntTy) (x : Int) (t : IntTy) (k : Nat) (hk : k < (promote T).bits) :
    cBin .shr (T, x) (t, (k : Int)) = .ok (promote T, x / 2^k) := by
  simp [cBin]
  omega

theorem cBin_shl (T : IntTy) (x : Int) (t : IntTy) (k : Nat) (hk : k < (promote T).bits) :
    cBin .shl (T, x) (t, (k : Int)) = .ok (promote T, (promote T).wrap (x * 2^k)) := by
  simp [cBin]
  omega

theorem cBin_shl_ub (T : IntTy) (x : Int) (t : IntTy) (k : Nat) (hk : (promote T).bits ≤ k) :
    cBin .shl (T, x) (t, (k : Int)) = .ub .shiftCount := by
  simp [cBin]
  omega

theorem cBin_shr_ub (T : IntTy) (x : Int) (t : IntTy) (k : Nat) (hk : (promote T).bits ≤ k) :
    cBin .shr (T, x) (t, (k : Int)) = .ub .shiftCount := by
  simp [cBin]
  omega

theorem wrap_uT (w : Nat) (v : Int) : (uT w).wrap v = v % 2^w := by simp [IntTy.wrap, uT]

/-- signed or unsigned: reduction into `T` does not change the residue modulo `2^bits` -/
theorem wrap_emod (T : IntTy) (v : Int) : (T.wrap v) % 2^T.bits = v % 2^T.bits := by
  unfold IntTy.wrap
  split
  · rw [Int.sub_emod, Int.emod_emod_of_dvd _ (Int.dvd_refl _), ← Int.sub_emod]
    congr 1; omega
  · exact Int.emod_emod_of_dvd _ (Int.dvd_refl _)

theorem wrap_emod_le (T : IntTy) (w : Nat) (hw : w ≤ T.bits) (v : Int) :
    (T.wrap v) % 2^w = v % 2^w := by
  have hd : ((2:Int)^w) ∣ 2^T.bits := by
    exact ⟨2^(T.bits - w), by rw [← Int.pow_add]; congr 1; omega⟩
  rw [← Int.emod_emod_of_dvd (T.wrap v) hd, wrap_emod T, Int.emod_emod_of_dvd _ hd]

theorem two_pow_bits (n : Nat) (hb : 1 ≤ n) : (2:Int)^n = 2 * 2^(n-1) := by
  rw [← Int.pow_succ']; congr 1; omega

theorem pow_pos' (n : Nat) : (0:Int) < 2^n := Int.pow_pos (by decide)

theorem max_lt_pow (T : IntTy) (hb : 1 ≤ T.bits) : T.max < 2^T.bits := by
  unfold IntTy.max; split
  · have := two_pow_bits T.bits hb; have := pow_pos' (T.bits-1); omega
  · omega

/-- a natural number within the non-negative range of `T` converts to itself -/
theorem wrap_nat_fits (T : IntTy) (hb : 1 ≤ T.bits) (n : Nat) (h : (n:Int) ≤ T.max) : T.wrap n = n := by
  unfold IntTy.max at h
  unfold IntTy.wrap
  split
  · rename_i hs
    rw [if_pos hs] at h
    have h2 := two_pow_bits T.bits hb
    have h3 := pow_pos' (T.bits-1)
    rw [h2]
    rw [Int.emod_eq_of_lt (by omega) (by omega)]; omega
  · rename_i hs
    rw [if_neg hs] at h
    have h3 := pow_pos' T.bits
    exact Int.emod_eq_of_lt (by omega) (by omega)

theorem bitPattern_nat (T : IntTy) (hb : 1 ≤ T.bits) (n : Nat) (h : (n:Int) ≤ T.max) : bitPattern T n = n := by
  unfold bitPattern
  have := max_lt_pow T hb
  rw [Int.emod_eq_of_lt (by omega) (by omega)]
  exact Int.toNat_natCast n

theorem usualArith_self (T : IntTy) : usualArith T T = promote T := by
  simp [usualArith]

theorem promote_promote (T : IntTy) : promote (promote T) = promote T := by
  unfold promote; split
  · rfl
  · simp

theorem usualArith_i32 (T : IntTy) : usualArith T i32 = promote T := by
  have h := promote_bits_ge T
  have h32 : promote i32 = i32 := by decide
  unfold usualArith
  simp only [h32]
  by_cases hs : (promote T).signed = true
  · have : ((promote T).signed == i32.signed) = true := by simp [hs, i32]
    simp only [this, if_true]
    have : (promote T).bits ≥ i32.bits := h
    simp [this]
  · have hs' : (promote T).signed = false := by simpa using hs
    have : ((promote T).signed == i32.signed) = false := by simp [hs', i32]
    simp only [hs']
    simp
    intro hlt
    have h32b : i32.bits = 32 := rfl
    omega

theorem usualArith_promote (T : IntTy) : usualArith T (promote T) = promote T := by
  simp [usualArith, promote_promote]

theorem le_max_promote (T : IntTy) (n : Int) (h : n ≤ T.max) : n ≤ (promote T).max := by
  unfold promote; split
  · rename_i hlt
    have : T.max ≤ 2^31 - 1 := by
      unfold IntTy.max
      have h1 : (2:Int)^T.bits ≤ 2^31 := by
        have := Nat.pow_le_pow_right (show 0 < 2 by decide) (show T.bits ≤ 31 by omega)
        exact_mod_cast this
      have h2 : (2:Int)^(T.bits-1) ≤ 2^31 := by
        have := Nat.pow_le_pow_right (show 0 < 2 by decide) (show T.bits - 1 ≤ 31 by omega)
        exact_mod_cast this
      split <;> omega
    have h3 : i32.max = 2^31 - 1 := by decide
    omega
  · exact h

theorem cBin_band_nat (A B P : IntTy) (hP : usualArith A B = P) (hb : 1 ≤ P.bits) (a b : Nat)
    (ha : (a:Int) ≤ P.max) (hb' : (b:Int) ≤ P.max) :
    cBin .band (A, (a:Int)) (B, (b:Int)) = .ok (P, ((a &&& b : Nat) : Int)) := by
  have hab : ((a &&& b : Nat) : Int) ≤ P.max := by
    have : a &&& b ≤ a := Nat.and_le_left
    omega
  simp only [cBin, hP]
  rw [wrap_nat_fits P hb a ha, wrap_nat_fits P hb b hb', bitPattern_nat P hb a ha, bitPattern_nat P hb b hb']
  simp only [Int.ofNat_eq_natCast]
  rw [wrap_nat_fits P hb _ hab]

theorem cBin_shr' (T : IntTy) (x : Int) (t : IntTy) (k : Int) (h0 : 0 ≤ k) (hk : k < (promote T).bits) :
    cBin .shr (T, x) (t, k) = .ok (promote T, x / 2^k.toNat) := by
  simp [cBin]
  omega

theorem cBin_shl' (T : IntTy) (x : Int) (t : IntTy) (k : Int) (h0 : 0 ≤ k) (hk : k < (promote T).bits) :
    cBin .shl (T, x) (t, k) = .ok (promote T, (promote T).wrap (x * 2^k.toNat)) := by
  simp [cBin]
  omega

@[simp] theorem castV_ok (T : IntTy) (v : TV) : castV T (.ok v) = .ok (T.wrap v.2) := rfl

theorem wrap_uT_nat (w n : Nat) (h : n < 2^w) : (uT w).wrap (n:Int) = n := by
  rw [wrap_uT]
  exact Int.emod_eq_of_lt (by omega) (by exact_mod_cast h)

/-- `static_cast<T>(x >> 1)` is `x / 2` -/
theorem shr1_cast (w x : Nat) (hx : x < 2^w) :
    castV (uT w) (cBin .shr (uT w, (x:Int)) (i32, 1)) = .ok ((x / 2 : Nat) : Int) := by
  have hp := promote_bits_ge (uT w)
  rw [cBin_shr' (uT w) x i32 1 (by decide) (by omega)]
  have e : ((x:Int) / 2 ^ (1:Int).toNat) = ((x / 2 : Nat) : Int) := by
    simp
  simp only [castV_ok, e]
  rw [wrap_uT_nat w (x/2) (by omega)]

/-! ## 2. spec functions -/
open Spec.Bits

theorem blen_eq (n : Nat) : blen n = bitLength n := rfl

theorem bitLength_zero : bitLength 0 = 0 := by simp [bitLength]

theorem bitLength_pos (x : Nat) (h : x ≠ 0) : bitLength x = bitLength (x / 2) + 1 := by
  unfold bitLength
  rw [if_neg h]
  by_cases h2 : 2 ≤ x
  · have : x / 2 ≠ 0 := by omega
    rw [if_neg this, Nat.log2_def x, if_pos h2]
  · have hx : x = 1 := by omega
    subst hx
    simp [Nat.log2_def]

theorem bitLength_le (x w : Nat) (h : x < 2^w) : bitLength x ≤ w := by
  unfold bitLength; split
  · omega
  · rename_i h0
    have := (Nat.log2_lt h0).2 h
    omega

theorem lt_two_pow_bitLength (x : Nat) : x < 2^bitLength x := by
  unfold bitLength; split
  · rename_i h; subst h; simp
  · exact Nat.lt_log2_self

theorem two_pow_le_of_ne (x : Nat) (h : x ≠ 0) : 2^(bitLength x - 1) ≤ x := by
  unfold bitLength; rw [if_neg h]
  simpa using Nat.log2_self_le h

/-! ## 3. the recursive templates -/

theorem countlZeroGen_eq (w : Nat) : ∀ (fuel x : Nat), x < 2^w → bitLength x < fuel →
    countlZeroGen w fuel x = .ok ((w:Int) - bitLength x)
  | 0, x, _, hf => by omega
  | fuel+1, x, hx, hf => by
    unfold countlZeroGen
    by_cases h0 : x = 0
    · subst h0; simp [bitLength_zero]
    · have hbl := bitLength_pos x h0
      simp only [ne_eq, h0, not_false_eq_true, if_true]
      rw [shr1_cast w x hx]
      simp only [Res.bind_ok, Int.toNat_natCast]
      rw [countlZeroGen_eq w fuel (x/2) (by omega) (by omega)]
      simp only [Res.bind_ok, Res.pure_eq, hbl]
      congr 1
      omega

theorem countlZero_eq (c : Cfg) (w x : Nat) (hx : x < 2^w) :
    countlZero c w x = .ok ((w:Int) - bitLength x) := by
  unfold countlZero
  split
  · by_cases h0 : x = 0
    · subst h0; simp [bitLength_zero]
    · simp [h0, builtinClz, blen_eq]
  · exact countlZeroGen_eq w (w+1) x hx (by have := bitLength_le x w hx; omega)

theorem max_promote_ge (T : IntTy) : 2^31 - 1 ≤ (promote T).max := by
  have hb := promote_bits_ge T
  unfold IntTy.max
  have h1 : (2:Int)^31 ≤ 2^((promote T).bits - 1) := by
    have := Nat.pow_le_pow_right (show 0 < 2 by decide) (show 31 ≤ (promote T).bits - 1 by omega)
    exact_mod_cast this
  have h2 : (2:Int)^31 ≤ 2^((promote T).bits) := by
    have := Nat.pow_le_pow_right (show 0 < 2 by decide) (show 31 ≤ (promote T).bits by omega)
    exact_mod_cast this
  split <;> omega

theorem uT_max (w : Nat) : (uT w).max = 2^w - 1 := by simp [IntTy.max, uT]

theorem le_uT_max (w x : Nat) (h : x < 2^w) : (x:Int) ≤ (uT w).max := by
  rw [uT_max]
  have : ((x:Nat):Int) < ((2^w : Nat) : Int) := by exact_mod_cast h
  simp at this
  omega

/-- `x & 1` (or `x & T{1}`): the low bit, in the promoted type -/
theorem band_one (T B : IntTy) (x : Nat) (hx : (x:Int) ≤ T.max) (hB : B = T ∨ B = i32) :
    cBin .band (T, (x:Int)) (B, 1) = .ok (promote T, ((x % 2 : Nat) : Int)) := by
  have hP : usualArith T B = promote T := by
    cases hB with
    | inl h => rw [h]; exact usualArith_self T
    | inr h => rw [h]; exact usualArith_i32 T
  have hb := promote_bits_ge T
  have h1 := max_promote_ge T
  have := cBin_band_nat T B (promote T) hP (by omega) x 1 (le_max_promote T _ hx) (by simp; omega)
  simpa [Nat.and_one_is_mod] using this

theorem run_shift (p : Nat → Bool) : ∀ (n i : Nat), run p (i+1) n = run (fun j => p (j+1)) i n
  | 0, _ => rfl
  | n+1, i => by simp only [run]; rw [run_shift p n (i+1)]

theorem run_all (p : Nat → Bool) (h : ∀ i, p i = true) : ∀ (n i : Nat), run p i n = n
  | 0, _ => rfl
  | n+1, i => by simp only [run, h, if_true]; rw [run_all p h n (i+1)]

theorem countrZero_succ (w x : Nat) :
    Spec.Bits.countrZero (w+1) x = if x % 2 = 1 then 0 else Spec.Bits.countrZero w (x / 2) + 1 := by
  unfold Spec.Bits.countrZero
  simp only [run, Nat.testBit_zero]
  rw [run_shift]
  simp only [Nat.testBit_add_one]
  by_cases h : x % 2 = 1 <;> simp [h]

theorem countrOne_succ (w x : Nat) :
    Spec.Bits.countrOne (w+1) x = if x % 2 = 1 then Spec.Bits.countrOne w (x / 2) + 1 else 0 := by
  unfold Spec.Bits.countrOne
  simp only [run, Nat.testBit_zero]
  rw [run_shift]
  simp only [Nat.testBit_add_one]
  by_cases h : x % 2 = 1 <;> simp [h]

theorem countrZero_zero (w : Nat) : Spec.Bits.countrZero w 0 = w := by
  unfold Spec.Bits.countrZero
  exact run_all _ (by simp) w 0

theorem lowZeros_eq : ∀ (n x : Nat), lowZeros n x = Spec.Bits.countrZero n x
  | 0, _ => rfl
  | n+1, x => by
    rw [countrZero_succ, lowZeros, lowZeros_eq n (x/2)]

theorem countrZeroImpl_eq (w : Nat) : ∀ (n fuel x : Nat), x ≠ 0 → x < 2^n → n ≤ w → n < fuel →
    countrZeroImpl w fuel x = .ok ((Spec.Bits.countrZero n x : Nat) : Int)
  | 0, _, x, h0, hx, _, _ => by simp at hx; omega
  | _, 0, _, _, _, _, hf => by omega
  | n+1, fuel+1, x, h0, hx, hw, hf => by
    have hxw : x < 2^w := Nat.lt_of_lt_of_le hx (Nat.pow_le_pow_right (by decide) hw)
    unfold countrZeroImpl
    rw [band_one (uT w) i32 x (le_uT_max w x hxw) (Or.inr rfl)]
    simp only [Res.bind_ok, countrZero_succ]
    by_cases hodd : x % 2 = 1
    · simp [hodd]
    · have he : x % 2 = 0 := by omega
      simp only [he]
      rw [shr1_cast w x hxw]
      simp only [Res.bind_ok, Int.toNat_natCast]
      have hx2 : x / 2 < 2^n := by rw [Nat.pow_succ] at hx; omega
      rw [countrZeroImpl_eq w n fuel (x/2) (by omega) hx2 (by omega) (by omega)]
      simp

theorem countrZero_eq (c : Cfg) (w x : Nat) (hx : x < 2^w) :
    countrZero c w x = .ok ((Spec.Bits.countrZero w x : Nat) : Int) := by
  unfold countrZero
  by_cases h0 : x = 0
  · subst h0; simp [countrZero_zero]
  · simp only [ne_eq, h0, not_false_eq_true, if_true]
    split
    · simp [builtinCtz, h0, lowZeros_eq]
    · exact countrZeroImpl_eq w w (w+1) x h0 hx (Nat.le_refl _) (by omega)

/-! ## rotations -/

theorem two_pow_dvd (w n : Nat) (hw : w ≤ n) : ((2:Int)^w) ∣ 2^n :=
  ⟨2^(n - w), by rw [← Int.pow_add]; congr 1; omega⟩

theorem promote_bits_ge_self (T : IntTy) : T.bits ≤ (promote T).bits := by
  unfold promote; split
  · have : i32.bits = 32 := rfl
    omega
  · exact Nat.le_refl _

theorem natCast_emod_two_pow (n w : Nat) : ((n:Int) % 2^w) = ((n % 2^w : Nat) : Int) := by
  norm_cast

theorem toNat_emod_two_pow (z : Int) (hz : 0 ≤ z) (w : Nat) : z.toNat % 2^w = (z % 2^w).toNat := by
  have h1 : ((z.toNat % 2^w : Nat) : Int) = z % 2^w := by
    rw [← natCast_emod_two_pow, Int.toNat_of_nonneg hz]
  have h2 : (((z % 2^w).toNat : Nat) : Int) = z % 2^w :=
    Int.toNat_of_nonneg (Int.emod_nonneg _ (Int.ne_of_gt (pow_pos' _)))
  exact Int.ofNat_inj.mp (h1.trans h2.symm)

theorem bitPattern_low (P : IntTy) (w : Nat) (hw : w ≤ P.bits) (a : Int) :
    bitPattern P (P.wrap a) % 2^w = (a % 2^w).toNat := by
  unfold bitPattern
  rw [wrap_emod, toNat_emod_two_pow _ (Int.emod_nonneg _ (Int.ne_of_gt (pow_pos' _))),
    Int.emod_emod_of_dvd _ (two_pow_dvd w P.bits hw)]

theorem bor_low (P : IntTy) (hPP : usualArith P P = P) (w : Nat) (hw : w ≤ P.bits) (a b : Int) :
    ((cBin .bor (P, a) (P, b)) >>= (fun c => (pure ((uT w).wrap c.2).toNat : Res Nat)))
      = .ok ((a % 2^w).toNat ||| (b % 2^w).toNat) := by
  simp only [cBin, hPP, Res.bind_ok, Res.pure_eq]
  congr 1
  rw [wrap_uT, wrap_emod_le P w hw]
  simp only [Int.ofNat_eq_natCast]
  rw [natCast_emod_two_pow, Int.toNat_natCast, Nat.or_mod_two_pow, bitPattern_low P w hw, bitPattern_low P w hw]
theorem usualArith_promote_self (T : IntTy) : usualArith (promote T) (promote T) = promote T := by
  rw [usualArith_self, promote_promote]

theorem toNat_natCast_expr (n : Nat) (z : Int) (h : z = (n:Int)) : z.toNat = n := by
  subst h; exact Int.toNat_natCast n

theorem rotl_arith (w x s : Nat) (hw : 1 ≤ w) :
    rotl w x s = .ok ((x * 2^(s % w)) % 2^w ||| (x / 2^((w - s % w) % w)) % 2^w) := by
  have hk : s % w < w := Nat.mod_lt _ (by omega)
  have hj : (w - s % w) % w < w := Nat.mod_lt _ (by omega)
  have hP : w ≤ (promote (uT w)).bits := promote_bits_ge_self (uT w)
  unfold rotl
  dsimp only
  rw [cBin_shl (uT w) x u32 (s % w) (by omega), cBin_shr (uT w) x u32 ((w - s % w) % w) (by omega)]
  simp only [Res.bind_ok]
  rw [bor_low (promote (uT w)) (usualArith_promote_self _) w hP]
  congr 1
  rw [wrap_emod_le (promote (uT w)) w hP]
  congr 1
  all_goals (apply toNat_natCast_expr; push_cast; rfl)

theorem rotr_arith (w x s : Nat) (hw : 1 ≤ w) :
    rotr w x s = .ok ((x / 2^(s % w)) % 2^w ||| (x * 2^((w - s % w) % w)) % 2^w) := by
  have hk : s % w < w := Nat.mod_lt _ (by omega)
  have hj : (w - s % w) % w < w := Nat.mod_lt _ (by omega)
  have hP : w ≤ (promote (uT w)).bits := promote_bits_ge_self (uT w)
  unfold rotr
  dsimp only
  rw [cBin_shr (uT w) x u32 (s % w) (by omega), cBin_shl (uT w) x u32 ((w - s % w) % w) (by omega)]
  simp only [Res.bind_ok]
  rw [bor_low (promote (uT w)) (usualArith_promote_self _) w hP]
  congr 1
  rw [wrap_emod_le (promote (uT w)) w hP]
  congr 1
  all_goals (apply toNat_natCast_expr; push_cast; rfl)

theorem testBit_high (x w m : Nat) (hx : x < 2^w) (hm : w ≤ m) : x.testBit m = false :=
  Nat.testBit_lt_two_pow (Nat.lt_of_lt_of_le hx (Nat.pow_le_pow_right (by decide) hm))

theorem testBit_ofBits (f : Nat → Bool) : ∀ (w i : Nat), (ofBits w f).testBit i = (decide (i < w) && f i)
  | 0, i => by simp [ofBits]
  | w+1, i => by
    simp only [ofBits, Nat.testBit_or, testBit_ofBits f w i]
    by_cases h2 : w = i
    · subst h2
      by_cases hf : f w <;> simp [hf]
    · by_cases h1 : i < w
      · have h3 : i < w + 1 := by omega
        by_cases hf : f w <;> simp [hf, h1, h2, h3]
      · have h3 : ¬ (i < w + 1) := by omega
        by_cases hf : f w <;> simp [hf, h1, h2, h3]

theorem ofBits_lt (f : Nat → Bool) (w : Nat) : ofBits w f < 2^w := by
  apply Nat.lt_pow_two_of_testBit
  intro i hi
  rw [testBit_ofBits]
  have : ¬ (i < w) := by omega
  simp [this]
theorem mod_two_pow_of_lt (x w : Nat) (h : x < 2^w) : x % 2^w = x := Nat.mod_eq_of_lt h

theorem rotl_eq (w x s : Nat) (hw : 1 ≤ w) (hx : x < 2^w) : rotl w x s = .ok (Spec.Bits.rotl w x s) := by
  rw [rotl_arith w x s hw]
  congr 1
  apply Nat.eq_of_testBit_eq
  intro i
  have hk : s % w < w := Nat.mod_lt _ (by omega)
  unfold Spec.Bits.rotl
  rw [testBit_ofBits, Nat.testBit_or, Nat.testBit_mod_two_pow, Nat.testBit_mod_two_pow,
    Nat.testBit_mul_two_pow, Nat.testBit_div_two_pow]
  generalize hkk : s % w = k at *
  by_cases hi : i < w
  · simp only [hi, decide_true, Bool.true_and]
    by_cases hk0 : k = 0
    · subst hk0
      have e1 : (w - 0) % w = 0 := by simp
      have e2 : (i + (w - 0)) % w = i := by
        rw [Nat.sub_zero, Nat.add_mod_right]; exact Nat.mod_eq_of_lt hi
      have e0 : i % w = i := Nat.mod_eq_of_lt hi
      simp [e0]
    · have e1 : (w - k) % w = w - k := Nat.mod_eq_of_lt (by omega)
      rw [e1]
      by_cases hik : k ≤ i
      · have e2 : (i + (w - k)) % w = i - k := by
          have : i + (w - k) = (i - k) + w := by omega
          rw [this, Nat.add_mod_right]; exact Nat.mod_eq_of_lt (by omega)
        have e3 : x.testBit (i + (w - k)) = false := testBit_high x w _ hx (by omega)
        simp [hik, e2, e3]
      · have e2 : (i + (w - k)) % w = i + (w - k) := Nat.mod_eq_of_lt (by omega)
        simp [hik, e2]
  · have e3 : x.testBit (i + (w - k) % w) = false := testBit_high x w _ hx (by omega)
    simp [hi]

theorem rotr_eq (w x s : Nat) (hw : 1 ≤ w) (hx : x < 2^w) : rotr w x s = .ok (Spec.Bits.rotr w x s) := by
  rw [rotr_arith w x s hw]
  congr 1
  apply Nat.eq_of_testBit_eq
  intro i
  have hk : s % w < w := Nat.mod_lt _ (by omega)
  unfold Spec.Bits.rotr
  rw [testBit_ofBits, Nat.testBit_or, Nat.testBit_mod_two_pow, Nat.testBit_mod_two_pow,
    Nat.testBit_mul_two_pow, Nat.testBit_div_two_pow]
  generalize hkk : s % w = k at *
  by_cases hi : i < w
  · simp only [hi, decide_true, Bool.true_and]
    by_cases hk0 : k = 0
    · subst hk0
      have e1 : (w - 0) % w = 0 := by simp
      have e2 : (i + 0) % w = i := by rw [Nat.add_zero]; exact Nat.mod_eq_of_lt hi
      have e0 : i % w = i := Nat.mod_eq_of_lt hi
      simp [e0]
    · have e1 : (w - k) % w = w - k := Nat.mod_eq_of_lt (by omega)
      rw [e1]
      by_cases hik : i + k < w
      · have e2 : (i + k) % w = i + k := Nat.mod_eq_of_lt hik
        have e4 : ¬ (w - k ≤ i) := by omega
        simp [e2, e4]
      · have e2 : (i + k) % w = i - (w - k) := by
          have : i + k = (i - (w - k)) + w := by omega
          rw [this, Nat.add_mod_right]; exact Nat.mod_eq_of_lt (by omega)
        have e3 : x.testBit (i + k) = false := testBit_high x w _ hx (by omega)
        have e4 : w - k ≤ i := by omega
        simp [e2, e3, e4]
  · simp [hi]

/-! ## used_digits -/

theorem wrap_inRange (T : IntTy) (hb : 1 ≤ T.bits) (v : Int) (h : T.InRange v) : T.wrap v = v := by
  unfold IntTy.InRange IntTy.lowest IntTy.max at h
  unfold IntTy.wrap
  by_cases hs : T.signed = true
  · rw [if_pos hs] at h; rw [if_pos hs] at h; rw [if_pos hs]
    have h2 := two_pow_bits T.bits hb
    have h3 := pow_pos' (T.bits-1)
    rw [h2, Int.emod_eq_of_lt (by omega) (by omega)]; omega
  · rw [if_neg hs] at h; rw [if_neg hs] at h; rw [if_neg hs]
    exact Int.emod_eq_of_lt (by omega) (by omega)

theorem gt_zero (T : IntTy) (n : Nat) (h : (n:Int) ≤ T.max) : cCmp .gt (T, (n:Int)) (i32, 0) = decide (0 < n) := by
  have hb := promote_bits_ge T
  simp only [cCmp, usualArith_i32]
  rw [wrap_nat_fits (promote T) (by omega) n (le_max_promote T _ h)]
  have : (promote T).wrap 0 = 0 := wrap_nat_fits (promote T) (by omega) 0 (by have := max_promote_ge T; simp; omega)
  rw [this]
  simp

theorem div_two (T : IntTy) (n : Nat) (h : (n:Int) ≤ T.max) :
    cBin .div (T, (n:Int)) (i32, 2) = .ok (promote T, ((n / 2 : Nat) : Int)) := by
  have hb := promote_bits_ge T
  have hm := max_promote_ge T
  have hn := le_max_promote T _ h
  have h2 : (promote T).wrap 2 = 2 := wrap_nat_fits (promote T) (by omega) 2 (by simp; omega)
  have hq : ((n:Int)).tdiv 2 = ((n / 2 : Nat) : Int) := by
    rw [Int.tdiv_eq_ediv_of_nonneg (by omega)]; simp
  have hq2 : ((n / 2 : Nat) : Int) ≤ (promote T).max := by omega
  simp only [cBin, usualArith_i32]
  rw [wrap_nat_fits (promote T) (by omega) n hn, h2, hq]
  have hlow : (promote T).lowest ≤ 0 := by
    unfold IntTy.lowest; split
    · have := pow_pos' ((promote T).bits - 1); omega
    · omega
  simp only [arith]
  by_cases hs : (promote T).signed = true
  · simp only [hs, if_true]
    have hin : (promote T).InRange ((n / 2 : Nat) : Int) := ⟨by omega, hq2⟩
    rw [if_pos hin]
    simp
  · simp only [hs]
    simp
    exact wrap_nat_fits (promote T) (by omega) _ hq2

theorem usedDigitsU_eq : ∀ (fuel : Nat) (T : IntTy) (n : Nat), (n:Int) ≤ T.max → bitLength n < fuel →
    usedDigitsU T fuel (n:Int) 2 = .ok ((bitLength n : Nat) : Int)
  | 0, _, _, _, hf => by omega
  | fuel+1, T, n, h, hf => by
    unfold usedDigitsU
    rw [gt_zero T n h]
    by_cases h0 : n = 0
    · subst h0; simp [bitLength_zero]
    · have hbl := bitLength_pos n h0
      have hpos : 0 < n := by omega
      simp only [hpos, decide_true, if_true]
      rw [div_two T n h]
      simp only [Res.bind_ok]
      rw [usedDigitsU_eq fuel (promote T) (n/2) (by have := le_max_promote T _ h; omega) (by omega)]
      simp only [Res.bind_ok, Res.pure_eq, hbl]
      congr 1
      omega
theorem inRange_promote (T : IntTy) (v : Int) (h : T.InRange v) : (promote T).InRange v := by
  unfold promote; split
  · rename_i hlt
    unfold IntTy.InRange IntTy.lowest IntTy.max at *
    have h1 : (2:Int)^T.bits ≤ 2^31 := by
      have := Nat.pow_le_pow_right (show 0 < 2 by decide) (show T.bits ≤ 31 by omega)
      exact_mod_cast this
    have h2 : (2:Int)^(T.bits-1) ≤ 2^31 := by
      have := Nat.pow_le_pow_right (show 0 < 2 by decide) (show T.bits - 1 ≤ 31 by omega)
      exact_mod_cast this
    have h3 := pow_pos' T.bits
    have h4 := pow_pos' (T.bits-1)
    have e : i32.signed = true := rfl
    have e2 : i32.bits = 32 := rfl
    simp only [e, e2, if_true]
    by_cases hs : T.signed = true
    · simp only [hs, if_true] at h; omega
    · simp only [hs] at h; simp at h; omega
  · exact h

theorem lt_zero (T : IntTy) (v : Int) (h : T.InRange v) : cCmp .lt (T, v) (i32, 0) = decide (v < 0) := by
  have hb := promote_bits_ge T
  simp only [cCmp, usualArith_i32]
  rw [wrap_inRange (promote T) (by omega) v (inRange_promote T v h)]
  have : (promote T).wrap 0 = 0 := wrap_nat_fits (promote T) (by omega) 0 (by have := max_promote_ge T; simp; omega)
  rw [this]

theorem promote_signed (T : IntTy) (h : T.signed = true) : (promote T).signed = true := by
  unfold promote; split
  · rfl
  · exact h

/-- `Integer{-1} - value` for a negative value -/
theorem neg_one_sub (T : IntTy) (v : Int) (hs : T.signed = true) (h : T.InRange v) (_hneg : v < 0) :
    cBin .sub (T, -1) (T, v) = .ok (promote T, -1 - v) := by
  have hb := promote_bits_ge T
  have hP := inRange_promote T v h
  have hPs := promote_signed T hs
  have hm1 : (promote T).InRange (-1) := by
    unfold IntTy.InRange IntTy.lowest IntTy.max
    have := pow_pos' ((promote T).bits - 1)
    simp only [hPs, if_true]; omega
  simp only [cBin, usualArith_self]
  rw [wrap_inRange (promote T) (by omega) v hP, wrap_inRange (promote T) (by omega) (-1) hm1]
  unfold IntTy.InRange IntTy.lowest IntTy.max at hP
  simp only [hPs, if_true] at hP
  simp only [arith, hPs, if_true, IntTy.InRange, IntTy.lowest, IntTy.max]
  rw [if_pos (by omega)]

theorem max_lt_two_pow_bits (T : IntTy) (n : Nat) (h : (n:Int) ≤ T.max) : n < 2^T.bits := by
  have h1 : T.max < 2^T.bits := by
    unfold IntTy.max; split
    · have : (2:Int)^(T.bits-1) ≤ 2^T.bits := by
        have := Nat.pow_le_pow_right (show 0 < 2 by decide) (show T.bits - 1 ≤ T.bits by omega)
        exact_mod_cast this
      omega
    · omega
  have : (n:Int) < ((2^T.bits : Nat) : Int) := by push_cast; omega
  exact_mod_cast this

theorem usedDigits_eq (T : IntTy) (v : Int) (h : T.InRange v) :
    usedDigits T v 2 = .ok ((valueBits v : Nat) : Int) := by
  unfold usedDigits valueBits
  have hmax : ∀ n : Nat, (n:Int) ≤ T.max → usedDigitsU T (T.bits+1) (n:Int) 2 = .ok ((bitLength n : Nat) : Int) := by
    intro n hn
    exact usedDigitsU_eq _ T n hn (by have := bitLength_le n T.bits (max_lt_two_pow_bits T n hn); omega)
  by_cases hs : T.signed = true
  · simp only [hs, if_true]
    rw [lt_zero T v h]
    by_cases hneg : v < 0
    · simp only [hneg, decide_true, if_true]
      rw [neg_one_sub T v hs h hneg]
      simp only [Res.bind_ok]
      have hr := h
      unfold IntTy.InRange IntTy.lowest IntTy.max at hr
      simp only [hs, if_true] at hr
      have e : (-1 - v) = (((-v - 1).toNat : Nat) : Int) := by omega
      rw [e]
      have hfit : (((-v - 1).toNat : Nat) : Int) ≤ T.max := by
        unfold IntTy.max; simp only [hs, if_true]; omega
      exact usedDigitsU_eq _ (promote T) _ (le_max_promote T _ hfit)
        (by have := bitLength_le _ T.bits (max_lt_two_pow_bits T _ hfit); omega)
    · simp only [hneg, decide_false]
      have e : v = ((v.toNat : Nat) : Int) := by omega
      have hfit : ((v.toNat : Nat) : Int) ≤ T.max := by rw [← e]; exact h.2
      simp only [Bool.false_eq_true, if_false]
      rw [e]; simp only [Int.toNat_natCast]
      exact hmax _ hfit
  · simp only [hs, Bool.false_eq_true, if_false]
    have hr := h
    unfold IntTy.InRange IntTy.lowest at hr
    simp only [hs, Bool.false_eq_true, if_false] at hr
    have hneg : ¬ (v < 0) := by omega
    simp only [hneg, if_false]
    have e : v = ((v.toNat : Nat) : Int) := by omega
    have hfit : ((v.toNat : Nat) : Int) ≤ T.max := by rw [← e]; exact h.2
    rw [e]; simp only [Int.toNat_natCast]
    exact hmax _ hfit

/-! ## log2p1, floor2, ceil2, leading_bits, trailing_bits -/

theorem log2p1_eq (c : Cfg) (w x : Nat) (hx : x < 2^w) : log2p1 c w x = .ok ((bitLength x : Nat) : Int) := by
  unfold log2p1
  rw [countlZero_eq c w x hx]
  simp only [Res.bind_ok, Res.pure_eq]
  congr 1; omega

/-- `static_cast<T>(T{1} << k)` for `k < w` is `2^k` -/
theorem one_shl_cast (w k : Nat) (hk : k < w) (ki : Int) (hki : ki = (k:Int)) :
    castV (uT w) (cBin .shl (uT w, 1) (i32, ki)) = .ok ((2^k : Nat) : Int) := by
  subst hki
  have hP : w ≤ (promote (uT w)).bits := promote_bits_ge_self (uT w)
  rw [cBin_shl (uT w) 1 i32 k (by omega)]
  simp only [castV_ok]
  rw [wrap_uT, wrap_emod_le (promote (uT w)) w hP]
  have e : ((1:Int) * 2^k) = ((2^k : Nat) : Int) := by push_cast; omega
  rw [e, natCast_emod_two_pow, Nat.mod_eq_of_lt (Nat.pow_lt_pow_right (by decide) hk)]

theorem bitLength_sub_one (x : Nat) (h : x ≠ 0) : bitLength x - 1 = Nat.log2 x := by
  unfold bitLength; rw [if_neg h]; omega

theorem floor2_eq (c : Cfg) (w x : Nat) (hx : x < 2^w) : floor2 c w x = .ok (Spec.Bits.floor2 x) := by
  unfold floor2 Spec.Bits.floor2
  by_cases h0 : x = 0
  · simp [h0]
  · simp only [ne_eq, h0, not_false_eq_true, if_true, if_false]
    rw [countlZero_eq c w x hx]
    simp only [Res.bind_ok]
    have hle := bitLength_le x w hx
    have hpos : 1 ≤ bitLength x := by rw [bitLength_pos x h0]; omega
    rw [one_shl_cast w (bitLength x - 1) (by omega) _ (by omega)]
    simp only [Res.bind_ok, Res.pure_eq, Int.toNat_natCast, bitLength_sub_one x h0]

/-- `T(x - T{1})` for `x ≥ 1` -/
theorem sub_one_cast (w x : Nat) (hx : x < 2^w) (h0 : x ≠ 0) :
    castV (uT w) (cBin .sub (uT w, (x:Int)) (uT w, 1)) = .ok ((x - 1 : Nat) : Int) := by
  have hb := promote_bits_ge (uT w)
  have hm := max_promote_ge (uT w)
  have hfit := le_max_promote (uT w) _ (le_uT_max w x hx)
  have h1 : (promote (uT w)).wrap 1 = 1 := wrap_nat_fits (promote (uT w)) (by omega) 1 (by simp; omega)
  have e : ((x:Int) - 1) = ((x - 1 : Nat) : Int) := by omega
  have hfit2 : ((x - 1 : Nat) : Int) ≤ (promote (uT w)).max := by omega
  simp only [cBin, usualArith_self]
  rw [wrap_nat_fits (promote (uT w)) (by omega) x hfit, h1, e]
  simp only [arith]
  have hlow : (promote (uT w)).lowest ≤ 0 := by
    unfold IntTy.lowest; split
    · have := pow_pos' ((promote (uT w)).bits - 1); omega
    · omega
  by_cases hs : (promote (uT w)).signed = true
  · simp only [hs, if_true]
    have hin : (promote (uT w)).InRange ((x - 1 : Nat) : Int) := ⟨by omega, hfit2⟩
    rw [if_pos hin]
    simp only [castV_ok]
    rw [wrap_uT_nat w (x-1) (by omega)]
  · simp only [hs]
    simp only [Bool.false_eq_true, if_false, castV_ok]
    rw [wrap_nat_fits (promote (uT w)) (by omega) _ hfit2, wrap_uT_nat w (x-1) (by omega)]

theorem ceil2_eq (c : Cfg) (w x : Nat) (hw : 1 ≤ w) (hx : x ≤ 2^(w-1)) :
    (ceil2 c w x).map some = .ok (Spec.Bits.ceil2 w x) := by
  have h2 : 2^w = 2 * 2^(w-1) := by
    rw [← Nat.pow_succ']; congr 1; omega
  have hp : 0 < 2^(w-1) := Nat.pow_pos (by decide)
  have hxw : x < 2^w := by omega
  unfold ceil2 Spec.Bits.ceil2
  by_cases h0 : x = 0
  · simp [h0, Res.map]
  · simp only [ne_eq, h0, not_false_eq_true, if_true, if_false, hx]
    rw [sub_one_cast w x hxw h0]
    simp only [Res.bind_ok, Int.toNat_natCast]
    rw [countlZero_eq c w (x-1) (by omega)]
    simp only [Res.bind_ok]
    have hle := bitLength_le (x-1) (w-1) (by omega)
    rw [one_shl_cast w (bitLength (x-1)) (by omega) _ (by omega)]
    simp only [Res.bind_ok, Res.pure_eq, Int.toNat_natCast, Res.map]

theorem leadingBits_eq (T : IntTy) (v : Int) (h : T.InRange v) :
    leadingBits T v = .ok (Spec.Bits.leadingBits T.bits T.signed v) := by
  unfold leadingBits Spec.Bits.leadingBits
  rw [usedDigits_eq T v h]
  simp only [Res.bind_ok, Res.pure_eq, IntTy.digits, Spec.Bits.digits]

theorem pattern_lt (w : Nat) (v : Int) : pattern w v < 2^w := by
  unfold pattern
  have h := Int.emod_lt_of_pos v (pow_pos' w)
  have h0 := Int.emod_nonneg v (Int.ne_of_gt (pow_pos' w))
  have : ((v % 2^w).toNat : Int) < ((2^w : Nat) : Int) := by
    rw [Int.toNat_of_nonneg h0]; push_cast; exact h
  exact_mod_cast this

theorem trailingBits_eq (c : Cfg) (T : IntTy) (v : Int) :
    trailingBits c T v = .ok ((Spec.Bits.trailingBits T.bits v : Nat) : Int) := by
  unfold trailingBits Spec.Bits.trailingBits
  by_cases h0 : v = 0
  · simp [h0]
  · simp only [ne_eq, h0, not_false_eq_true, if_true, if_false]
    rw [wrap_uT]
    exact countrZero_eq c T.bits _ (pattern_lt T.bits v)

/-! ## countr_one -/

theorem cBin_shr_one (T : IntTy) (x : Nat) :
    cBin .shr (T, (x:Int)) (i32, 1) = .ok (promote T, ((x / 2 : Nat) : Int)) := by
  have hp := promote_bits_ge T
  rw [cBin_shr' T x i32 1 (by decide) (by omega)]
  simp

theorem countrOne_zero_width (x : Nat) : Spec.Bits.countrOne 0 x = 0 := rfl

theorem countrOneGen_eq : ∀ (n fuel : Nat) (T : IntTy) (x : Nat), (x:Int) ≤ T.max → x < 2^n → n < fuel →
    countrOneGen T fuel x = .ok ((Spec.Bits.countrOne n x : Nat) : Int)
  | _, 0, _, _, _, _, hf => by omega
  | 0, fuel+1, T, x, h, hx, _ => by
    have h0 : x = 0 := by simp at hx; omega
    subst h0
    unfold countrOneGen
    rw [band_one T T 0 h (Or.inl rfl)]
    simp [countrOne_zero_width]
  | n+1, fuel+1, T, x, h, hx, hf => by
    unfold countrOneGen
    rw [band_one T T x h (Or.inl rfl)]
    simp only [Res.bind_ok, countrOne_succ]
    by_cases hodd : x % 2 = 1
    · simp only [hodd]
      rw [cBin_shr_one T x]
      simp only [Res.bind_ok, Int.toNat_natCast]
      have hx2 : x / 2 < 2^n := by rw [Nat.pow_succ] at hx; omega
      rw [countrOneGen_eq n fuel (promote T) (x/2) (by have := le_max_promote T _ h; omega) hx2 (by omega)]
      simp
    · have he : x % 2 = 0 := by omega
      simp [he]

theorem cNot_uT (w x : Nat) (hw : 32 ≤ w) (hx : x < 2^w) :
    cNot (uT w, (x:Int)) = .ok (uT w, ((2^w - 1 - x : Nat) : Int)) := by
  have hM : ((2^w : Nat) : Int) = 2^w := by push_cast; rfl
  have hxi : (x:Int) < 2^w := by rw [← hM]; exact_mod_cast hx
  simp only [cNot, promote_uT_ge hw]
  rw [wrap_uT_nat w x hx, wrap_uT]
  congr 2
  have e : -(x:Int) - 1 = (2^w - 1 - x) + (-1) * 2^w := by omega
  rw [e, Int.add_mul_emod_self_right, Int.emod_eq_of_lt (by omega) (by omega)]
  omega

theorem run_congr (p q : Nat → Bool) : ∀ (n i : Nat), (∀ j, i ≤ j → j < i + n → p j = q j) → run p i n = run q i n
  | 0, _, _ => rfl
  | n+1, i, h => by
    simp only [run]
    rw [h i (Nat.le_refl _) (by omega), run_congr p q n (i+1) (fun j h1 h2 => h j (by omega) (by omega))]

theorem countrZero_compl (w x : Nat) (hx : x < 2^w) :
    Spec.Bits.countrZero w (2^w - 1 - x) = Spec.Bits.countrOne w x := by
  unfold Spec.Bits.countrZero Spec.Bits.countrOne
  apply run_congr
  intro j _ hj
  have e : 2^w - 1 - x = 2^w - (x + 1) := by omega
  rw [e, Nat.testBit_two_pow_sub_succ hx]
  have : j < w := by omega
  simp [this]

theorem countrOne_eq (c : Cfg) (w x : Nat) (hx : x < 2^w) :
    countrOne c w x = .ok ((Spec.Bits.countrOne w x : Nat) : Int) := by
  unfold countrOne
  by_cases h32 : w = 32
  · subst h32
    simp only [if_true]
    rw [cNot_uT 32 x (by omega) hx]
    simp only [Res.bind_ok, Int.toNat_natCast]
    rw [countrZero_eq c 32 _ (by omega), countrZero_compl 32 x hx]
  · simp only [h32, if_false]
    exact countrOneGen_eq w (w+1) (uT w) x (le_uT_max w x hx) hx (by omega)

/-! ## countl_one, countl_rsb, countl_rb, countr_used -/

theorem top_bit (x k : Nat) (h1 : 2^k ≤ x) (h2 : x < 2^(k+1)) : x.testBit k = true := by
  cases hb : x.testBit k with
  | true => rfl
  | false =>
    have : x < 2^k := by
      apply Nat.lt_pow_two_of_testBit
      intro i hi
      by_cases hik : i = k
      · subst hik; exact hb
      · exact testBit_high x (k+1) i h2 (by omega)
    omega

theorem and_two_pow_eq_zero_iff (x n : Nat) : x &&& 2^n = 0 ↔ x.testBit n = false := by
  constructor
  · intro h
    have := congrArg (fun z => Nat.testBit z n) h
    simpa [Nat.testBit_and, Nat.testBit_two_pow] using this
  · intro h
    apply Nat.eq_of_testBit_eq
    intro i
    rw [Nat.testBit_and, Nat.testBit_two_pow, Nat.zero_testBit]
    by_cases hi : n = i
    · subst hi; simp [h]
    · simp [hi]

theorem pow_pred_le_max (w : Nat) (hw : 1 ≤ w) : ((2^(w-1) : Nat) : Int) ≤ (promote (uT w)).max := by
  apply le_max_promote
  have h2 : 2^w = 2 * 2^(w-1) := by rw [← Nat.pow_succ']; congr 1; omega
  have hp : 0 < 2^(w-1) := Nat.pow_pos (by decide)
  exact le_uT_max w _ (by omega)

/-- `x & (T{1} << (digits - 1))`: non-zero exactly when the top bit is set -/
theorem top_mask (w x : Nat) (hw : 1 ≤ w) (hx : x < 2^w) :
    (cBin .shl (uT w, 1) (i32, (w:Int) - 1) >>= fun m => cBin .band (uT w, (x:Int)) m)
      = .ok (promote (uT w), ((x &&& 2^(w-1) : Nat) : Int)) := by
  have hb := promote_bits_ge (uT w)
  have hP : w ≤ (promote (uT w)).bits := promote_bits_ge_self (uT w)
  have e : ((w:Int) - 1) = ((w - 1 : Nat) : Int) := by omega
  rw [e, cBin_shl (uT w) 1 i32 (w-1) (by omega)]
  simp only [Res.bind_ok]
  have e2 : ((1:Int) * 2^(w-1)) = ((2^(w-1) : Nat) : Int) := by push_cast; omega
  rw [e2, wrap_nat_fits (promote (uT w)) (by omega) _ (pow_pred_le_max w hw)]
  exact cBin_band_nat (uT w) (promote (uT w)) (promote (uT w)) (usualArith_promote _) (by omega) x (2^(w-1))
    (le_max_promote _ _ (le_uT_max w x hx)) (pow_pred_le_max w hw)

/-- `static_cast<T>(x << 1)` -/
theorem shl1_cast (w x : Nat) :
    castV (uT w) (cBin .shl (uT w, (x:Int)) (i32, 1)) = .ok ((2 * x % 2^w : Nat) : Int) := by
  have hb := promote_bits_ge (uT w)
  have hP : w ≤ (promote (uT w)).bits := promote_bits_ge_self (uT w)
  rw [cBin_shl' (uT w) x i32 1 (by decide) (by omega)]
  simp only [castV_ok]
  rw [wrap_uT, wrap_emod_le (promote (uT w)) w hP]
  have e : ((x:Int) * 2 ^ (1:Int).toNat) = ((2 * x : Nat) : Int) := by
    have : (1:Int).toNat = 1 := rfl
    rw [this]; push_cast; omega
  rw [e, natCast_emod_two_pow]

theorem bitLength_eq_of_range (y w : Nat) (hw : 1 ≤ w) (h1 : 2^(w-1) ≤ y) (h2 : y < 2^w) : bitLength y = w := by
  have hle := bitLength_le y w h2
  have hlt := lt_two_pow_bitLength y
  by_cases h : bitLength y ≤ w - 1
  · have := Nat.pow_le_pow_right (show 0 < 2 by decide) h
    omega
  · omega

theorem countlOneGen_eq (w : Nat) (hw : 1 ≤ w) : ∀ (fuel x : Nat), x < 2^w → w - bitLength (2^w - 1 - x) < fuel →
    countlOneGen w fuel x = .ok (((w - bitLength (2^w - 1 - x) : Nat)) : Int)
  | 0, _, _, hf => by omega
  | fuel+1, x, hx, hf => by
    have h2 : 2^w = 2 * 2^(w-1) := by rw [← Nat.pow_succ']; congr 1; omega
    have hp : 0 < 2^(w-1) := Nat.pow_pos (by decide)
    unfold countlOneGen
    have htm := top_mask w x hw hx
    simp only [bind, Res.bind] at htm
    simp only [bind, Res.bind]
    cases hm : cBin .shl (uT w, 1) (i32, (w:Int) - 1) with
    | ok m =>
      rw [hm] at htm
      simp only at htm
      simp only
      rw [htm]
      simp only
      by_cases htop : 2^(w-1) ≤ x
      · have hbit : x.testBit (w-1) = true := top_bit x (w-1) htop (by rw [show w - 1 + 1 = w by omega]; exact hx)
        have hne : ((x &&& 2^(w-1) : Nat) : Int) ≠ 0 := by
          intro h
          have : x &&& 2^(w-1) = 0 := by exact_mod_cast h
          rw [and_two_pow_eq_zero_iff] at this
          simp [hbit] at this
        simp only [ne_eq, hne, not_false_eq_true, if_true]
        have hs := shl1_cast w x
        cases hc : castV (uT w) (cBin .shl (uT w, (x:Int)) (i32, 1)) with
        | ok y =>
          rw [hc] at hs
          have hy : y = ((2 * x % 2^w : Nat) : Int) := by injection hs
          subst hy
          simp only [Int.toNat_natCast]
          have hx' : 2 * x % 2^w = 2 * x - 2^w := by
            rw [Nat.mod_eq_sub_mod (by omega), Nat.mod_eq_of_lt (by omega)]
          have hcomp : 2^w - 1 - (2 * x % 2^w) = 2 * (2^w - 1 - x) + 1 := by omega
          have hbl : bitLength (2 * (2^w - 1 - x) + 1) = bitLength (2^w - 1 - x) + 1 := by
            rw [bitLength_pos _ (by omega)]
            congr 2; omega
          have hyl : bitLength (2^w - 1 - x) ≤ w - 1 := bitLength_le _ (w-1) (by omega)
          have ih := countlOneGen_eq w hw fuel (2 * x % 2^w) (Nat.mod_lt _ (by omega)) (by rw [hcomp, hbl]; omega)
          rw [ih, hcomp, hbl]
          simp only [pure]
          congr 1; omega
        | _ => rw [hc] at hs; cases hs
      · have hbit : x.testBit (w-1) = false := Nat.testBit_lt_two_pow (by omega)
        have he : x &&& 2^(w-1) = 0 := (and_two_pow_eq_zero_iff x (w-1)).2 hbit
        have hbl : bitLength (2^w - 1 - x) = w := bitLength_eq_of_range _ w hw (by omega) (by omega)
        simp [he, hbl]
    | _ => rw [hm] at htm; cases htm
theorem isIntrinsicWidth_ge {w : Nat} (h : isIntrinsicWidth w = true) : 32 ≤ w := by
  unfold isIntrinsicWidth at h
  simp at h
  omega

theorem countlOne_eq (c : Cfg) (w x : Nat) (hw : 1 ≤ w) (hx : x < 2^w) :
    countlOne c w x = .ok (((w - bitLength (2^w - 1 - x) : Nat)) : Int) := by
  unfold countlOne
  split
  · rename_i hc
    have hw32 : 32 ≤ w := by
      simp only [Bool.and_eq_true] at hc
      exact isIntrinsicWidth_ge hc.2
    rw [cNot_uT w x hw32 hx]
    simp only [Res.bind_ok, Int.toNat_natCast]
    have hle := bitLength_le (2^w - 1 - x) w (by omega)
    by_cases h0 : 2^w - 1 - x = 0
    · simp [h0, bitLength_zero]
    · have hne : ((2^w - 1 - x : Nat) : Int) ≠ 0 := by omega
      simp only [ne_eq, hne, not_false_eq_true, if_true, builtinClz, h0, if_false, blen_eq]
      congr 1; omega
  · exact countlOneGen_eq w hw (w+1) x hx (by omega)

theorem countlOne_eq_spec (c : Cfg) (w x : Nat) (hw : 1 ≤ w) (hx : x < 2^w) :
    countlOne c w x = .ok ((Spec.Bits.countlOne w x : Nat) : Int) :=
  countlOne_eq c w x hw hx

theorem sT_inRange (w : Nat) (v : Int) (h : (sT w).InRange v) : -(2^(w-1)) ≤ v ∧ v ≤ 2^(w-1) - 1 := by
  unfold IntTy.InRange IntTy.lowest IntTy.max sT at h
  simpa using h

theorem countlRsb_eq (c : Cfg) (w : Nat) (hw : 1 ≤ w) (v : Int) (h : (sT w).InRange v) :
    countlRsb c w v = .ok (Spec.Bits.countlRsb w v) := by
  have hr := sT_inRange w v h
  have h2 : (2:Int)^w = 2 * 2^(w-1) := two_pow_bits w hw
  have hp := pow_pos' (w-1)
  have hM : ((2^w : Nat) : Int) = 2^w := by push_cast; rfl
  unfold countlRsb Spec.Bits.countlRsb valueBits
  split
  · simp [builtinClrsb, blen_eq]
  · rw [lt_zero (sT w) v h, wrap_uT]
    by_cases hneg : v < 0
    · simp only [hneg, decide_true, if_true]
      have hu : (v % 2^w).toNat = 2^w - 1 - (-v - 1).toNat := by
        have e : v % 2^w = v + 2^w := by
          have e1 : v = (v + 2^w) + (-1) * 2^w := by omega
          rw [e1, Int.add_mul_emod_self_right, Int.emod_eq_of_lt (by omega) (by omega)]
          omega
        rw [e]
        omega
      have hlt : (-v - 1).toNat < 2^w := by
        have : (((-v - 1).toNat : Nat) : Int) < ((2^w : Nat) : Int) := by rw [hM]; omega
        exact_mod_cast this
      rw [hu, countlOne_eq c w _ hw (by omega)]
      have e3 : 2^w - 1 - (2^w - 1 - (-v - 1).toNat) = (-v - 1).toNat := by omega
      have hle := bitLength_le _ w hlt
      simp only [Res.bind_ok, Res.pure_eq, e3]
      congr 1; omega
    · simp only [hneg, decide_false, Bool.false_eq_true, if_false]
      have hu : (v % 2^w).toNat = v.toNat := by
        rw [Int.emod_eq_of_lt (by omega) (by omega)]
      have hlt : v.toNat < 2^w := by
        have : ((v.toNat : Nat) : Int) < ((2^w : Nat) : Int) := by rw [hM]; omega
        exact_mod_cast this
      rw [hu, countlZero_eq c w _ hlt]
      simp only [Res.bind_ok, Res.pure_eq]
      congr 1; omega

theorem countlRb_signed (c : Cfg) (w : Nat) (hw : 1 ≤ w) (v : Int) (h : (sT w).InRange v) :
    countlRb c (sT w) v = .ok (Spec.Bits.countlRsb w v) := by
  unfold countlRb; simp only [sT, if_true]; exact countlRsb_eq c w hw v h

theorem countlRb_unsigned (c : Cfg) (w x : Nat) (hx : x < 2^w) :
    countlRb c (uT w) (x:Int) = .ok ((w:Int) - bitLength x) := by
  unfold countlRb; simp only [uT, Bool.false_eq_true, if_false, Int.toNat_natCast]; exact countlZero_eq c w x hx

theorem countrUsed_signed (c : Cfg) (w : Nat) (hw : 1 ≤ w) (v : Int) (h : (sT w).InRange v) :
    countrUsed c (sT w) v = .ok ((valueBits v : Nat) : Int) := by
  unfold countrUsed
  rw [countlRb_signed c w hw v h]
  simp only [Res.bind_ok, Res.pure_eq, Spec.Bits.countlRsb, IntTy.digits, sT, if_true]
  congr 1; omega

theorem countrUsed_unsigned (c : Cfg) (w x : Nat) (hx : x < 2^w) :
    countrUsed c (uT w) (x:Int) = .ok ((bitLength x : Nat) : Int) := by
  unfold countrUsed
  rw [countlRb_unsigned c w x hx]
  simp only [Res.bind_ok, Res.pure_eq, IntTy.digits, uT, Bool.false_eq_true, if_false]
  congr 1; omega

/-! ## popcount, ispow2 -/

theorem mod2_cases (x : Nat) : x % 2 = 0 ∨ x % 2 = 1 := by omega

theorem popcount_succ' : ∀ (w x : Nat), Spec.Bits.popcount (w+1) x = x % 2 + Spec.Bits.popcount w (x / 2)
  | 0, x => by
    simp only [Spec.Bits.popcount, Nat.testBit_zero]
    cases mod2_cases x with
    | inl h => simp [h]
    | inr h => simp [h]
  | w+1, x => by
    rw [Spec.Bits.popcount, popcount_succ' w x, Nat.testBit_add_one]
    conv => rhs; rw [Spec.Bits.popcount]
    omega

theorem ones_eq : ∀ (n x : Nat), ones n x = Spec.Bits.popcount n x
  | 0, _ => rfl
  | n+1, x => by rw [ones, popcount_succ', ones_eq n (x/2)]

theorem ones_zero : ∀ (n : Nat), ones n 0 = 0
  | 0 => rfl
  | n+1 => by simp [ones, ones_zero n]

theorem ones_le : ∀ (n x : Nat), ones n x ≤ n
  | 0, _ => by simp [ones]
  | n+1, x => by
    rw [ones]; have := ones_le n (x/2); have := mod2_cases x; omega

/-- clearing the lowest set bit removes exactly one 1 digit -/
theorem ones_and_pred : ∀ (n x : Nat), x ≠ 0 → x < 2^n → ones n (x &&& (x - 1)) + 1 = ones n x
  | 0, x, h0, hx => by simp at hx; omega
  | n+1, x, h0, hx => by
    rw [ones, ones]
    have hmod : (x &&& (x - 1)) % 2 = (x % 2) &&& ((x - 1) % 2) := by
      have := @Nat.and_mod_two_pow x (x - 1) 1
      simpa using this
    have hdiv : (x &&& (x - 1)) / 2 = (x / 2) &&& ((x - 1) / 2) := by
      have := @Nat.and_div_two_pow x (x - 1) 1
      simpa using this
    rw [hmod, hdiv]
    cases mod2_cases x with
    | inr hodd =>
      have e1 : (x - 1) % 2 = 0 := by omega
      have e2 : (x - 1) / 2 = x / 2 := by omega
      rw [hodd, e1, e2, Nat.and_self]
      simp
      omega
    | inl heven =>
      have e1 : (x - 1) % 2 = 1 := by omega
      have e2 : (x - 1) / 2 = x / 2 - 1 := by omega
      rw [heven, e1, e2]
      have hx2 : x / 2 < 2^n := by rw [Nat.pow_succ] at hx; omega
      have ih := ones_and_pred n (x / 2) (by omega) hx2
      simp
      omega

/-- `x - 1` (the literal is an `int`) for `x ≥ 1`, in the promoted type -/
theorem sub_one (T : IntTy) (x : Nat) (h : (x:Int) ≤ T.max) (h0 : x ≠ 0) :
    cBin .sub (T, (x:Int)) (i32, 1) = .ok (promote T, ((x - 1 : Nat) : Int)) := by
  have hb := promote_bits_ge T
  have hm := max_promote_ge T
  have hfit := le_max_promote T _ h
  have h1 : (promote T).wrap 1 = 1 := wrap_nat_fits (promote T) (by omega) 1 (by simp; omega)
  have e : ((x:Int) - 1) = ((x - 1 : Nat) : Int) := by omega
  have hfit2 : ((x - 1 : Nat) : Int) ≤ (promote T).max := by omega
  simp only [cBin, usualArith_i32]
  rw [wrap_nat_fits (promote T) (by omega) x hfit, h1, e]
  simp only [arith]
  have hlow : (promote T).lowest ≤ 0 := by
    unfold IntTy.lowest; split
    · have := pow_pos' ((promote T).bits - 1); omega
    · omega
  by_cases hs : (promote T).signed = true
  · simp only [hs, if_true]
    have hin : (promote T).InRange ((x - 1 : Nat) : Int) := ⟨by omega, hfit2⟩
    rw [if_pos hin]
  · simp only [hs]
    simp only [Bool.false_eq_true, if_false]
    rw [wrap_nat_fits (promote T) (by omega) _ hfit2]

/-- `x & (x - 1)` in the promoted type -/
theorem and_pred (T : IntTy) (x : Nat) (h : (x:Int) ≤ T.max) (h0 : x ≠ 0) :
    (cBin .sub (T, (x:Int)) (i32, 1) >>= fun d => cBin .band (T, (x:Int)) d)
      = .ok (promote T, ((x &&& (x - 1) : Nat) : Int)) := by
  have hb := promote_bits_ge T
  rw [sub_one T x h h0]
  simp only [Res.bind_ok]
  have hfit := le_max_promote T _ h
  exact cBin_band_nat T (promote T) (promote T) (usualArith_promote T) (by omega) x (x - 1) hfit (by omega)

theorem popcountGen_eq (N : Nat) : ∀ (fuel : Nat) (T : IntTy) (x : Nat), (x:Int) ≤ T.max → x < 2^N → ones N x < fuel →
    popcountGen T fuel x = .ok ((ones N x : Nat) : Int)
  | 0, _, _, _, _, hf => by omega
  | fuel+1, T, x, h, hx, hf => by
    unfold popcountGen
    by_cases h0 : x = 0
    · subst h0
      simp [ones_zero N]
    · simp only [ne_eq, h0, not_false_eq_true, if_true]
      have hap := and_pred T x h h0
      simp only [bind, Res.bind] at hap
      simp only [bind, Res.bind]
      cases hd : cBin .sub (T, (x:Int)) (i32, 1) with
      | ok d =>
        rw [hd] at hap
        simp only at hap
        simp only
        rw [hap]
        simp only [Int.toNat_natCast]
        have hk := ones_and_pred N x h0 hx
        have hle : x &&& (x - 1) ≤ x := Nat.and_le_left
        have ih := popcountGen_eq N fuel (promote T) (x &&& (x - 1))
          (by have := le_max_promote T _ h; omega) (by omega) (by omega)
        rw [ih]
        simp only [pure]
        congr 1; omega
      | _ => rw [hd] at hap; cases hap
theorem popcount_eq (c : Cfg) (w x : Nat) (hx : x < 2^w) :
    popcount c w x = .ok ((Spec.Bits.popcount w x : Nat) : Int) := by
  unfold popcount
  split
  · simp [builtinPopcount, ones_eq]
  · rw [popcountGen_eq w (w+1) (uT w) x (le_uT_max w x hx) hx (by have := ones_le w x; omega), ones_eq]

theorem two_pow_and_pred (k : Nat) : 2^k &&& (2^k - 1) = 0 := by
  apply Nat.eq_of_testBit_eq
  intro i
  rw [Nat.testBit_and, Nat.testBit_two_pow, Nat.testBit_two_pow_sub_one, Nat.zero_testBit]
  by_cases h : k = i
  · subst h; simp
  · simp [h]

theorem and_pred_eq_zero_iff (x : Nat) (h0 : x ≠ 0) : x &&& (x - 1) = 0 ↔ x = 2 ^ Nat.log2 x := by
  constructor
  · intro h
    have h1 := Nat.log2_self_le h0
    have h2 := @Nat.lt_log2_self x
    by_cases he : x = 2 ^ Nat.log2 x
    · exact he
    · have b1 := top_bit x (Nat.log2 x) h1 h2
      have b2 := top_bit (x - 1) (Nat.log2 x) (by omega) (by omega)
      have := congrArg (fun z => Nat.testBit z (Nat.log2 x)) h
      simp [Nat.testBit_and, b1, b2] at this
  · intro h
    have := two_pow_and_pred (Nat.log2 x)
    rw [← h] at this
    exact this

theorem ispow2_eq (w x : Nat) (hx : x < 2^w) : ispow2 w x = .ok (Spec.Bits.isPow2 x) := by
  unfold ispow2 Spec.Bits.isPow2
  by_cases h0 : x = 0
  · simp [h0]
  · simp only [ne_eq, h0, not_false_eq_true, if_true]
    have hap := and_pred (uT w) x (le_uT_max w x hx) h0
    simp only [bind, Res.bind] at hap
    simp only [bind, Res.bind]
    cases hd : cBin .sub (uT w, (x:Int)) (i32, 1) with
    | ok d =>
      rw [hd] at hap
      simp only at hap
      simp only
      rw [hap]
      simp only [pure]
      congr 1
      have hiff := and_pred_eq_zero_iff x h0
      rw [Bool.eq_iff_iff]
      simp only [beq_iff_eq, Bool.and_eq_true, bne_iff_ne, ne_eq]
      constructor
      · intro h; exact ⟨h0, hiff.1 (by exact_mod_cast h)⟩
      · intro h; exact_mod_cast hiff.2 h.2
    | _ => rw [hd] at hap; cases hap

theorem run_le (p : Nat → Bool) : ∀ (n i : Nat), run p i n ≤ n
  | 0, _ => Nat.le_refl _
  | n+1, i => by
    simp only [run]; split
    · have := run_le p n (i+1); omega
    · omega

theorem valueBits_le (w : Nat) (_hw : 1 ≤ w) (v : Int) (h : (sT w).InRange v) : valueBits v ≤ w - 1 := by
  have hr := sT_inRange w v h
  have hM : ((2^(w-1) : Nat) : Int) = 2^(w-1) := by push_cast; rfl
  unfold valueBits
  apply bitLength_le
  have : (((if v < 0 then -v - 1 else v).toNat : Nat) : Int) < ((2^(w-1) : Nat) : Int) := by
    rw [hM]; split <;> omega
  exact_mod_cast this

/-! ## rotation by a multiple of the width -/

theorem spec_rotl_multiple (w x m : Nat) (hx : x < 2^w) : Spec.Bits.rotl w x (m * w) = x := by
  apply Nat.eq_of_testBit_eq; intro i
  unfold Spec.Bits.rotl
  rw [testBit_ofBits, Nat.mul_mod_left, Nat.sub_zero]
  by_cases hi : i < w
  · have : (i + w) % w = i := by rw [Nat.add_mod_right]; exact Nat.mod_eq_of_lt hi
    simp [hi, this]
  · simp [hi, testBit_high x w i hx (by omega)]

theorem spec_rotr_multiple (w x m : Nat) (hx : x < 2^w) : Spec.Bits.rotr w x (m * w) = x := by
  apply Nat.eq_of_testBit_eq; intro i
  unfold Spec.Bits.rotr
  rw [testBit_ofBits, Nat.mul_mod_left, Nat.add_zero]
  by_cases hi : i < w
  · simp [hi, Nat.mod_eq_of_lt hi]
  · simp [hi, testBit_high x w i hx (by omega)]

end Cnl.Bits
