import CnlModel.Bits
import CnlSpec.Bits
/-!
# Helper lemmas for C18 (bit and digit counting)

1. what the `CInt` operations used by `CnlModel.Bits` evaluate to on the operands that occur there;
2. facts about the spec functions (`bitLength`, `run`, `popcount`, `ofBits`);
3. the recursive templates, by induction on their fuel.
-/
namespace Cnl.Bits
open Cnl

/-! ## 1. CInt -/

theorem promote_bits_ge (T : IntTy) : 32 ≤ (promote T).bits := by
  unfold promote; split
  · decide
  · omega

theorem promote_uT_lt {w : Nat} (h : w < 32) : promote (uT w) = i32 := by simp [promote, uT, h]
theorem promote_uT_ge {w : Nat} (h : 32 ≤ w) : promote (uT w) = uT w := by
  have h' : ¬ (w < 32) := by omega
  have h' : ¬ (w < 32) := by omega
  simp [promote, uT, h']

theorem cBin_shr (T : IntTy) (x : Int) (t : IntTy) (k : Nat) (hk : k < (promote T).bits) :
    cBin .shr (T, x) (t, (k : Int)) = .ok (promote T, x / 2^k) := by
  simp [cBin]
  omega

theorem cBin_shl (T : IntTy) (x : Int) (t : IntTy) (k : Nat) (hk : k < (promote T).bits) :
    cBin .shl (T, x) (t, (k : Int)) = .ok (promote T, (promote T).wrap (x * 2^k)) := by
  simp [cBin]
  omega

theorem cBin_shl_ub (T : IntTy) (x : Int) (t : IntTy) (k : Nat) (hk : (promote T).bits ≤ k) :
    cBin .shl (T, x) (t, (k : Int)) = .ub .shiftCount := by
  simp [cBin]
  omega

theorem cBin_shr_ub (T : IntTy) (x : Int) (t : IntTy) (k : Nat) (hk : (promote T).bits ≤ k) :
    cBin .shr (T, x) (t, (k : Int)) = .ub .shiftCount := by
  simp [cBin]
  omega

theorem wrap_uT (w : Nat) (v : Int) : (uT w).wrap v = v % 2^w := by simp [IntTy.wrap, uT]

/-- signed or unsigned: reduction into `T` does not change the residue modulo `2^bits` -/
theorem wrap_emod (T : IntTy) (v : Int) : (T.wrap v) % 2^T.bits = v % 2^T.bits := by
  unfold IntTy.wrap
  split
  · rw [Int.sub_emod, Int.emod_emod_of_dvd _ (Int.dvd_refl _), ← Int.sub_emod]
    congr 1; omega
  · exact Int.emod_emod_of_dvd _ (Int.dvd_refl _)

theorem wrap_emod_le (T : IntTy) (w : Nat) (hw : w ≤ T.bits) (v : Int) :
    (T.wrap v) % 2^w = v % 2^w := by
  have hd : ((2:Int)^w) ∣ 2^T.bits := by
    exact ⟨2^(T.bits - w), by rw [← Int.pow_add]; congr 1; omega⟩
  rw [← Int.emod_emod_of_dvd (T.wrap v) hd, wrap_emod T, Int.emod_emod_of_dvd _ hd]

theorem two_pow_bits (n : Nat) (hb : 1 ≤ n) : (2:Int)^n = 2 * 2^(n-1) := by
  rw [← Int.pow_succ']; congr 1; omega

theorem pow_pos' (n : Nat) : (0:Int) < 2^n := Int.pow_pos (by decide)

theorem max_lt_pow (T : IntTy) (hb : 1 ≤ T.bits) : T.max < 2^T.bits := by
  unfold IntTy.max; split
  · have := two_pow_bits T.bits hb; have := pow_pos' (T.bits-1); omega
  · omega

/-- a natural number within the non-negative range of `T` converts to itself -/
theorem wrap_nat_fits (T : IntTy) (hb : 1 ≤ T.bits) (n : Nat) (h : (n:Int) ≤ T.max) : T.wrap n = n := by
  unfold IntTy.max at h
  unfold IntTy.wrap
  split
  · rename_i hs
    rw [if_pos hs] at h
    have h2 := two_pow_bits T.bits hb
    have h3 := pow_pos' (T.bits-1)
    rw [h2]
    rw [Int.emod_eq_of_lt (by omega) (by omega)]; omega
  · rename_i hs
    rw [if_neg hs] at h
    have h3 := pow_pos' T.bits
    exact Int.emod_eq_of_lt (by omega) (by omega)

theorem bitPattern_nat (T : IntTy) (hb : 1 ≤ T.bits) (n : Nat) (h : (n:Int) ≤ T.max) : bitPattern T n = n := by
  unfold bitPattern
  have := max_lt_pow T hb
  rw [Int.emod_eq_of_lt (by omega) (by omega)]
  exact Int.toNat_natCast n

theorem usualArith_self (T : IntTy) : usualArith T T = promote T := by
  simp [usualArith]

theorem promote_promote (T : IntTy) : promote (promote T) = promote T := by
  unfold promote; split
  · rfl
  · rename_i h; simp [h]

theorem usualArith_i32 (T : IntTy) : usualArith T i32 = promote T := by
  have h := promote_bits_ge T
  have h32 : promote i32 = i32 := by decide
  unfold usualArith
  simp only [h32]
  by_cases hs : (promote T).signed = true
  · have : ((promote T).signed == i32.signed) = true := by simp [hs, i32]
    simp only [this, if_true]
    have : (promote T).bits ≥ i32.bits := h
    simp [this]
  · have hs' : (promote T).signed = false := by simpa using hs
    have : ((promote T).signed == i32.signed) = false := by simp [hs', i32]
    simp only [this, hs']
    simp
    intro hlt
    have h32b : i32.bits = 32 := rfl
    omega

theorem usualArith_promote (T : IntTy) : usualArith T (promote T) = promote T := by
  simp [usualArith, promote_promote]

theorem le_max_promote (T : IntTy) (n : Int) (h : n ≤ T.max) : n ≤ (promote T).max := by
  unfold promote; split
  · rename_i hlt
    have : T.max ≤ 2^31 - 1 := by
      unfold IntTy.max
      have h1 : (2:Int)^T.bits ≤ 2^31 := by
        have := Nat.pow_le_pow_right (show 0 < 2 by decide) (show T.bits ≤ 31 by omega)
        exact_mod_cast this
      have h2 : (2:Int)^(T.bits-1) ≤ 2^31 := by
        have := Nat.pow_le_pow_right (show 0 < 2 by decide) (show T.bits - 1 ≤ 31 by omega)
        exact_mod_cast this
      split <;> omega
    have h3 : i32.max = 2^31 - 1 := by decide
    omega
  · exact h

theorem cBin_band_nat (A B P : IntTy) (hP : usualArith A B = P) (hb : 1 ≤ P.bits) (a b : Nat)
    (ha : (a:Int) ≤ P.max) (hb' : (b:Int) ≤ P.max) :
    cBin .band (A, (a:Int)) (B, (b:Int)) = .ok (P, ((a &&& b : Nat) : Int)) := by
  have hab : ((a &&& b : Nat) : Int) ≤ P.max := by
    have : a &&& b ≤ a := Nat.and_le_left
    omega
  simp only [cBin, hP]
  rw [wrap_nat_fits P hb a ha, wrap_nat_fits P hb b hb', bitPattern_nat P hb a ha, bitPattern_nat P hb b hb']
  simp only [Int.ofNat_eq_natCast]
  rw [wrap_nat_fits P hb _ hab]

theorem cBin_shr' (T : IntTy) (x : Int) (t : IntTy) (k : Int) (h0 : 0 ≤ k) (hk : k < (promote T).bits) :
    cBin .shr (T, x) (t, k) = .ok (promote T, x / 2^k.toNat) := by
  simp [cBin]
  omega

theorem cBin_shl' (T : IntTy) (x : Int) (t : IntTy) (k : Int) (h0 : 0 ≤ k) (hk : k < (promote T).bits) :
    cBin .shl (T, x) (t, k) = .ok (promote T, (promote T).wrap (x * 2^k.toNat)) := by
  simp [cBin]
  omega

@[simp] theorem castV_ok (T : IntTy) (v : TV) : castV T (.ok v) = .ok (T.wrap v.2) := rfl

theorem wrap_uT_nat (w n : Nat) (h : n < 2^w) : (uT w).wrap (n:Int) = n := by
  rw [wrap_uT]
  exact Int.emod_eq_of_lt (by omega) (by exact_mod_cast h)

/-- `static_cast<T>(x >> 1)` is `x / 2` -/
theorem shr1_cast (w x : Nat) (hx : x < 2^w) :
    castV (uT w) (cBin .shr (uT w, (x:Int)) (i32, 1)) = .ok ((x / 2 : Nat) : Int) := by
  have hp := promote_bits_ge (uT w)
  rw [cBin_shr' (uT w) x i32 1 (by decide) (by omega)]
  have e : ((x:Int) / 2 ^ (1:Int).toNat) = ((x / 2 : Nat) : Int) := by
    simp
  simp only [castV_ok, e]
  rw [wrap_uT_nat w (x/2) (by omega)]

/-! ## 2. spec functions -/
open Spec.Bits

theorem blen_eq (n : Nat) : blen n = bitLength n := rfl

theorem bitLength_zero : bitLength 0 = 0 := by simp [bitLength]

theorem bitLength_pos (x : Nat) (h : x ≠ 0) : bitLength x = bitLength (x / 2) + 1 := by
  unfold bitLength
  rw [if_neg h]
  by_cases h2 : 2 ≤ x
  · have : x / 2 ≠ 0 := by omega
    rw [if_neg this, Nat.log2_def x, if_pos h2]
  · have hx : x = 1 := by omega
    subst hx
    simp [Nat.log2_def]

theorem bitLength_le (x w : Nat) (h : x < 2^w) : bitLength x ≤ w := by
  unfold bitLength; split
  · omega
  · rename_i h0
    have := (Nat.log2_lt h0).2 h
    omega

theorem lt_two_pow_bitLength (x : Nat) : x < 2^bitLength x := by
  unfold bitLength; split
  · rename_i h; subst h; simp
  · exact Nat.lt_log2_self

theorem two_pow_le_of_ne (x : Nat) (h : x ≠ 0) : 2^(bitLength x - 1) ≤ x := by
  unfold bitLength; rw [if_neg h]
  simpa using Nat.log2_self_le h

/-! ## 3. the recursive templates -/

theorem countlZeroGen_eq (w : Nat) : ∀ (fuel x : Nat), x < 2^w → bitLength x < fuel →
    countlZeroGen w fuel x = .ok ((w:Int) - bitLength x)
  | 0, x, _, hf => by omega
  | fuel+1, x, hx, hf => by
    unfold countlZeroGen
    by_cases h0 : x = 0
    · subst h0; simp [bitLength_zero]
    · have hbl := bitLength_pos x h0
      simp only [ne_eq, h0, not_false_eq_true, if_true]
      rw [shr1_cast w x hx]
      simp only [Res.bind_ok, Int.toNat_natCast]
      rw [countlZeroGen_eq w fuel (x/2) (by omega) (by omega)]
      simp only [Res.bind_ok, Res.pure_eq, hbl]
      congr 1
      omega

theorem countlZero_eq (c : Cfg) (w x : Nat) (hx : x < 2^w) :
    countlZero c w x = .ok ((w:Int) - bitLength x) := by
  unfold countlZero
  split
  · by_cases h0 : x = 0
    · subst h0; simp [bitLength_zero]
    · simp [h0, builtinClz, blen_eq]
  · exact countlZeroGen_eq w (w+1) x hx (by have := bitLength_le x w hx; omega)

end Cnl.Bits
