import CnlModel.Bits
import CnlSpec.Bits
/-!
# Helper lemmas for C18 (bit and digit counting)

1. what the `CInt` operations used by `CnlModel.Bits` evaluate to on the operands that occur there;
2. facts about the spec functions (`bitLength`, `run`, `popcount`, `ofBits`);
3. the recursive templates, by induction on their fuel.
-/
namespace Cnl.Bits
open Cnl

/-! ## 1. CInt -/

theorem promote_bits_ge (T : IntTy) : 32 ≤ (promote T).bits := by
  unfold promote; split
  · decide
  · omega

theorem promote_uT_lt {w : Nat} (h : w < 32) : promote (uT w) = i32 := by simp [promote, uT, h]
theorem promote_uT_ge {w : Nat} (h : 32 ≤ w) : promote (uT w) = uT w := by
  have h' : ¬ (w < 32) := by omega
  have h' : ¬ (w < 32) := by omega
  simp [promote, uT, h']

theorem cBin_shr (T : IntTy) (x : Int) (t : IntTy) (k : Nat) (hk : k < (promote T).bits) :
    cBin .shr (T, x) (t, (k : Int)) = .ok (promote T, x / 2^k) := by
  simp [cBin]
  omega

theorem cBin_shl (T : IntTy) (x : Int) (t : IntTy) (k : Nat) (hk : k < (promote T).bits) :
    cBin .shl (T, x) (t, (k : Int)) = .ok (promote T, (promote T).wrap (x * 2^k)) := by
  simp [cBin]
  omega

theorem cBin_shl_ub (T : IntTy) (x : Int) (t : IntTy) (k : Nat) (hk : (promote T).bits ≤ k) :
    cBin .shl (T, x) (t, (k : Int)) = .ub .shiftCount := by
  simp [cBin]
  omega

theorem cBin_shr_ub (T : IntTy) (x : Int) (t : IntTy) (k : Nat) (hk : (promote T).bits ≤ k) :
    cBin .shr (T, x) (t, (k : Int)) = .ub .shiftCount := by
  simp [cBin]
  omega

theorem wrap_uT (w : Nat) (v : Int) : (uT w).wrap v = v % 2^w := by simp [IntTy.wrap, uT]

/-- signed or unsigned: reduction into `T` does not change the residue modulo `2^bits` -/
theorem wrap_emod (T : IntTy) (v : Int) : (T.wrap v) % 2^T.bits = v % 2^T.bits := by
  unfold IntTy.wrap
  split
  · rw [Int.sub_emod, Int.emod_emod_of_dvd _ (Int.dvd_refl _), ← Int.sub_emod]
    congr 1; omega
  · exact Int.emod_emod_of_dvd _ (Int.dvd_refl _)

theorem wrap_emod_le (T : IntTy) (w : Nat) (hw : w ≤ T.bits) (v : Int) :
    (T.wrap v) % 2^w = v % 2^w := by
  have hd : ((2:Int)^w) ∣ 2^T.bits := by
    exact ⟨2^(T.bits - w), by rw [← Int.pow_add]; congr 1; omega⟩
  rw [← Int.emod_emod_of_dvd (T.wrap v) hd, wrap_emod T, Int.emod_emod_of_dvd _ hd]

theorem two_pow_bits (n : Nat) (hb : 1 ≤ n) : (2:Int)^n = 2 * 2^(n-1) := by
  rw [← Int.pow_succ']; congr 1; omega

theorem pow_pos' (n : Nat) : (0:Int) < 2^n := Int.pow_pos (by decide)

theorem max_lt_pow (T : IntTy) (hb : 1 ≤ T.bits) : T.max < 2^T.bits := by
  unfold IntTy.max; split
  · have := two_pow_bits T.bits hb; have := pow_pos' (T.bits-1); omega
  · omega

/-- a natural number within the non-negative range of `T` converts to itself -/
theorem wrap_nat_fits (T : IntTy) (hb : 1 ≤ T.bits) (n : Nat) (h : (n:Int) ≤ T.max) : T.wrap n = n := by
  unfold IntTy.max at h
  unfold IntTy.wrap
  split
  · rename_i hs
    rw [if_pos hs] at h
    have h2 := two_pow_bits T.bits hb
    have h3 := pow_pos' (T.bits-1)
    rw [h2]
    rw [Int.emod_eq_of_lt (by omega) (by omega)]; omega
  · rename_i hs
    rw [if_neg hs] at h
    have h3 := pow_pos' T.bits
    exact Int.emod_eq_of_lt (by omega) (by omega)

theorem bitPattern_nat (T : IntTy) (hb : 1 ≤ T.bits) (n : Nat) (h : (n:Int) ≤ T.max) : bitPattern T n = n := by
  unfold bitPattern
  have := max_lt_pow T hb
  rw [Int.emod_eq_of_lt (by omega) (by omega)]
  exact Int.toNat_natCast n

theorem usualArith_self (T : IntTy) : usualArith T T = promote T := by
  simp [usualArith]

theorem promote_promote (T : IntTy) : promote (promote T) = promote T := by
  unfold promote; split
  · rfl
  · rename_i h; simp [h]

theorem usualArith_i32 (T : IntTy) : usualArith T i32 = promote T := by
  have h := promote_bits_ge T
  have h32 : promote i32 = i32 := by decide
  unfold usualArith
  simp only [h32]
  by_cases hs : (promote T).signed = true
  · have : ((promote T).signed == i32.signed) = true := by simp [hs, i32]
    simp only [this, if_true]
    have : (promote T).bits ≥ i32.bits := h
    simp [this]
  · have hs' : (promote T).signed = false := by simpa using hs
    have : ((promote T).signed == i32.signed) = false := by simp [hs', i32]
    simp only [this, hs']
    simp
    intro hlt
    have h32b : i32.bits = 32 := rfl
    omega

theorem usualArith_promote (T : IntTy) : usualArith T (promote T) = promote T := by
  simp [usualArith, promote_promote]

theorem le_max_promote (T : IntTy) (n : Int) (h : n ≤ T.max) : n ≤ (promote T).max := by
  unfold promote; split
  · rename_i hlt
    have : T.max ≤ 2^31 - 1 := by
      unfold IntTy.max
      have h1 : (2:Int)^T.bits ≤ 2^31 := by
        have := Nat.pow_le_pow_right (show 0 < 2 by decide) (show T.bits ≤ 31 by omega)
        exact_mod_cast this
      have h2 : (2:Int)^(T.bits-1) ≤ 2^31 := by
        have := Nat.pow_le_pow_right (show 0 < 2 by decide) (show T.bits - 1 ≤ 31 by omega)
        exact_mod_cast this
      split <;> omega
    have h3 : i32.max = 2^31 - 1 := by decide
    omega
  · exact h

theorem cBin_band_nat (A B P : IntTy) (hP : usualArith A B = P) (hb : 1 ≤ P.bits) (a b : Nat)
    (ha : (a:Int) ≤ P.max) (hb' : (b:Int) ≤ P.max) :
    cBin .band (A, (a:Int)) (B, (b:Int)) = .ok (P, ((a &&& b : Nat) : Int)) := by
  have hab : ((a &&& b : Nat) : Int) ≤ P.max := by
    have : a &&& b ≤ a := Nat.and_le_left
    omega
  simp only [cBin, hP]
  rw [wrap_nat_fits P hb a ha, wrap_nat_fits P hb b hb', bitPattern_nat P hb a ha, bitPattern_nat P hb b hb']
  simp only [Int.ofNat_eq_natCast]
  rw [wrap_nat_fits P hb _ hab]

theorem cBin_shr' (T : IntTy) (x : Int) (t : IntTy) (k : Int) (h0 : 0 ≤ k) (hk : k < (promote T).bits) :
    cBin .shr (T, x) (t, k) = .ok (promote T, x / 2^k.toNat) := by
  simp [cBin]
  omega

theorem cBin_shl' (T : IntTy) (x : Int) (t : IntTy) (k : Int) (h0 : 0 ≤ k) (hk : k < (promote T).bits) :
    cBin .shl (T, x) (t, k) = .ok (promote T, (promote T).wrap (x * 2^k.toNat)) := by
  simp [cBin]
  omega

@[simp] theorem castV_ok (T : IntTy) (v : TV) : castV T (.ok v) = .ok (T.wrap v.2) := rfl

theorem wrap_uT_nat (w n : Nat) (h : n < 2^w) : (uT w).wrap (n:Int) = n := by
  rw [wrap_uT]
  exact Int.emod_eq_of_lt (by omega) (by exact_mod_cast h)

/-- `static_cast<T>(x >> 1)` is `x / 2` -/
theorem shr1_cast (w x : Nat) (hx : x < 2^w) :
    castV (uT w) (cBin .shr (uT w, (x:Int)) (i32, 1)) = .ok ((x / 2 : Nat) : Int) := by
  have hp := promote_bits_ge (uT w)
  rw [cBin_shr' (uT w) x i32 1 (by decide) (by omega)]
  have e : ((x:Int) / 2 ^ (1:Int).toNat) = ((x / 2 : Nat) : Int) := by
    simp
  simp only [castV_ok, e]
  rw [wrap_uT_nat w (x/2) (by omega)]

/-! ## 2. spec functions -/
open Spec.Bits

theorem blen_eq (n : Nat) : blen n = bitLength n := rfl

theorem bitLength_zero : bitLength 0 = 0 := by simp [bitLength]

theorem bitLength_pos (x : Nat) (h : x ≠ 0) : bitLength x = bitLength (x / 2) + 1 := by
  unfold bitLength
  rw [if_neg h]
  by_cases h2 : 2 ≤ x
  · have : x / 2 ≠ 0 := by omega
    rw [if_neg this, Nat.log2_def x, if_pos h2]
  · have hx : x = 1 := by omega
    subst hx
    simp [Nat.log2_def]

theorem bitLength_le (x w : Nat) (h : x < 2^w) : bitLength x ≤ w := by
  unfold bitLength; split
  · omega
  · rename_i h0
    have := (Nat.log2_lt h0).2 h
    omega

theorem lt_two_pow_bitLength (x : Nat) : x < 2^bitLength x := by
  unfold bitLength; split
  · rename_i h; subst h; simp
  · exact Nat.lt_log2_self

theorem two_pow_le_of_ne (x : Nat) (h : x ≠ 0) : 2^(bitLength x - 1) ≤ x := by
  unfold bitLength; rw [if_neg h]
  simpa using Nat.log2_self_le h

/-! ## 3. the recursive templates -/

theorem countlZeroGen_eq (w : Nat) : ∀ (fuel x : Nat), x < 2^w → bitLength x < fuel →
    countlZeroGen w fuel x = .ok ((w:Int) - bitLength x)
  | 0, x, _, hf => by omega
  | fuel+1, x, hx, hf => by
    unfold countlZeroGen
    by_cases h0 : x = 0
    · subst h0; simp [bitLength_zero]
    · have hbl := bitLength_pos x h0
      simp only [ne_eq, h0, not_false_eq_true, if_true]
      rw [shr1_cast w x hx]
      simp only [Res.bind_ok, Int.toNat_natCast]
      rw [countlZeroGen_eq w fuel (x/2) (by omega) (by omega)]
      simp only [Res.bind_ok, Res.pure_eq, hbl]
      congr 1
      omega

theorem countlZero_eq (c : Cfg) (w x : Nat) (hx : x < 2^w) :
    countlZero c w x = .ok ((w:Int) - bitLength x) := by
  unfold countlZero
  split
  · by_cases h0 : x = 0
    · subst h0; simp [bitLength_zero]
    · simp [h0, builtinClz, blen_eq]
  · exact countlZeroGen_eq w (w+1) x hx (by have := bitLength_le x w hx; omega)

theorem max_promote_ge (T : IntTy) : 2^31 - 1 ≤ (promote T).max := by
  have hb := promote_bits_ge T
  unfold IntTy.max
  have h1 : (2:Int)^31 ≤ 2^((promote T).bits - 1) := by
    have := Nat.pow_le_pow_right (show 0 < 2 by decide) (show 31 ≤ (promote T).bits - 1 by omega)
    exact_mod_cast this
  have h2 : (2:Int)^31 ≤ 2^((promote T).bits) := by
    have := Nat.pow_le_pow_right (show 0 < 2 by decide) (show 31 ≤ (promote T).bits by omega)
    exact_mod_cast this
  split <;> omega

theorem uT_max (w : Nat) : (uT w).max = 2^w - 1 := by simp [IntTy.max, uT]

theorem le_uT_max (w x : Nat) (h : x < 2^w) : (x:Int) ≤ (uT w).max := by
  rw [uT_max]
  have : ((x:Nat):Int) < ((2^w : Nat) : Int) := by exact_mod_cast h
  simp at this
  omega

/-- `x & 1` (or `x & T{1}`): the low bit, in the promoted type -/
theorem band_one (T B : IntTy) (x : Nat) (hx : (x:Int) ≤ T.max) (hB : B = T ∨ B = i32) :
    cBin .band (T, (x:Int)) (B, 1) = .ok (promote T, ((x % 2 : Nat) : Int)) := by
  have hP : usualArith T B = promote T := by
    cases hB with
    | inl h => rw [h]; exact usualArith_self T
    | inr h => rw [h]; exact usualArith_i32 T
  have hb := promote_bits_ge T
  have h1 := max_promote_ge T
  have := cBin_band_nat T B (promote T) hP (by omega) x 1 (le_max_promote T _ hx) (by simp; omega)
  simpa [Nat.and_one_is_mod] using this

theorem run_shift (p : Nat → Bool) : ∀ (n i : Nat), run p (i+1) n = run (fun j => p (j+1)) i n
  | 0, _ => rfl
  | n+1, i => by simp only [run]; rw [run_shift p n (i+1)]

theorem run_all (p : Nat → Bool) (h : ∀ i, p i = true) : ∀ (n i : Nat), run p i n = n
  | 0, _ => rfl
  | n+1, i => by simp only [run, h, if_true]; rw [run_all p h n (i+1)]

theorem countrZero_succ (w x : Nat) :
    Spec.Bits.countrZero (w+1) x = if x % 2 = 1 then 0 else Spec.Bits.countrZero w (x / 2) + 1 := by
  unfold Spec.Bits.countrZero
  simp only [run, Nat.testBit_zero]
  rw [run_shift]
  simp only [Nat.testBit_add_one]
  by_cases h : x % 2 = 1 <;> simp [h]

theorem countrOne_succ (w x : Nat) :
    Spec.Bits.countrOne (w+1) x = if x % 2 = 1 then Spec.Bits.countrOne w (x / 2) + 1 else 0 := by
  unfold Spec.Bits.countrOne
  simp only [run, Nat.testBit_zero]
  rw [run_shift]
  simp only [Nat.testBit_add_one]
  by_cases h : x % 2 = 1 <;> simp [h]

theorem countrZero_zero (w : Nat) : Spec.Bits.countrZero w 0 = w := by
  unfold Spec.Bits.countrZero
  exact run_all _ (by simp) w 0

theorem lowZeros_eq : ∀ (n x : Nat), lowZeros n x = Spec.Bits.countrZero n x
  | 0, _ => rfl
  | n+1, x => by
    rw [countrZero_succ, lowZeros, lowZeros_eq n (x/2)]

theorem countrZeroImpl_eq (w : Nat) : ∀ (n fuel x : Nat), x ≠ 0 → x < 2^n → n ≤ w → n < fuel →
    countrZeroImpl w fuel x = .ok ((Spec.Bits.countrZero n x : Nat) : Int)
  | 0, _, x, h0, hx, _, _ => by simp at hx; omega
  | _, 0, _, _, _, _, hf => by omega
  | n+1, fuel+1, x, h0, hx, hw, hf => by
    have hxw : x < 2^w := Nat.lt_of_lt_of_le hx (Nat.pow_le_pow_right (by decide) hw)
    unfold countrZeroImpl
    rw [band_one (uT w) i32 x (le_uT_max w x hxw) (Or.inr rfl)]
    simp only [Res.bind_ok, countrZero_succ]
    by_cases hodd : x % 2 = 1
    · simp [hodd]
    · have he : x % 2 = 0 := by omega
      simp only [he]
      rw [shr1_cast w x hxw]
      simp only [Res.bind_ok, Int.toNat_natCast]
      have hx2 : x / 2 < 2^n := by rw [Nat.pow_succ] at hx; omega
      rw [countrZeroImpl_eq w n fuel (x/2) (by omega) hx2 (by omega) (by omega)]
      simp

theorem countrZero_eq (c : Cfg) (w x : Nat) (hx : x < 2^w) :
    countrZero c w x = .ok ((Spec.Bits.countrZero w x : Nat) : Int) := by
  unfold countrZero
  by_cases h0 : x = 0
  · subst h0; simp [countrZero_zero]
  · simp only [ne_eq, h0, not_false_eq_true, if_true]
    split
    · simp [builtinCtz, h0, lowZeros_eq]
    · exact countrZeroImpl_eq w w (w+1) x h0 hx (Nat.le_refl _) (by omega)

/-! ## rotations -/

theorem two_pow_dvd (w n : Nat) (hw : w ≤ n) : ((2:Int)^w) ∣ 2^n :=
  ⟨2^(n - w), by rw [← Int.pow_add]; congr 1; omega⟩

theorem promote_bits_ge_self (T : IntTy) : T.bits ≤ (promote T).bits := by
  unfold promote; split
  · have : i32.bits = 32 := rfl
    omega
  · exact Nat.le_refl _

theorem natCast_emod_two_pow (n w : Nat) : ((n:Int) % 2^w) = ((n % 2^w : Nat) : Int) := by
  norm_cast

theorem toNat_emod_two_pow (z : Int) (hz : 0 ≤ z) (w : Nat) : z.toNat % 2^w = (z % 2^w).toNat := by
  have h1 : ((z.toNat % 2^w : Nat) : Int) = z % 2^w := by
    rw [← natCast_emod_two_pow, Int.toNat_of_nonneg hz]
  have h2 : (((z % 2^w).toNat : Nat) : Int) = z % 2^w :=
    Int.toNat_of_nonneg (Int.emod_nonneg _ (Int.ne_of_gt (pow_pos' _)))
  exact Int.ofNat_inj.mp (h1.trans h2.symm)

theorem bitPattern_low (P : IntTy) (w : Nat) (hw : w ≤ P.bits) (a : Int) :
    bitPattern P (P.wrap a) % 2^w = (a % 2^w).toNat := by
  unfold bitPattern
  rw [wrap_emod, toNat_emod_two_pow _ (Int.emod_nonneg _ (Int.ne_of_gt (pow_pos' _))),
    Int.emod_emod_of_dvd _ (two_pow_dvd w P.bits hw)]

theorem bor_low (P : IntTy) (hPP : usualArith P P = P) (w : Nat) (hw : w ≤ P.bits) (a b : Int) :
    ((cBin .bor (P, a) (P, b)) >>= (fun c => (pure ((uT w).wrap c.2).toNat : Res Nat)))
      = .ok ((a % 2^w).toNat ||| (b % 2^w).toNat) := by
  simp only [cBin, hPP, Res.bind_ok, Res.pure_eq]
  congr 1
  rw [wrap_uT, wrap_emod_le P w hw]
  simp only [Int.ofNat_eq_natCast]
  rw [natCast_emod_two_pow, Int.toNat_natCast, Nat.or_mod_two_pow, bitPattern_low P w hw, bitPattern_low P w hw]
theorem usualArith_promote_self (T : IntTy) : usualArith (promote T) (promote T) = promote T := by
  rw [usualArith_self, promote_promote]

theorem toNat_natCast_expr (n : Nat) (z : Int) (h : z = (n:Int)) : z.toNat = n := by
  subst h; exact Int.toNat_natCast n

theorem rotl_arith (w x s : Nat) (hw : 1 ≤ w) :
    rotl w x s = .ok ((x * 2^(s % w)) % 2^w ||| (x / 2^((w - s % w) % w)) % 2^w) := by
  have hk : s % w < w := Nat.mod_lt _ (by omega)
  have hj : (w - s % w) % w < w := Nat.mod_lt _ (by omega)
  have hP : w ≤ (promote (uT w)).bits := promote_bits_ge_self (uT w)
  unfold rotl
  dsimp only
  rw [cBin_shl (uT w) x u32 (s % w) (by omega), cBin_shr (uT w) x u32 ((w - s % w) % w) (by omega)]
  simp only [Res.bind_ok]
  rw [bor_low (promote (uT w)) (usualArith_promote_self _) w hP]
  congr 1
  rw [wrap_emod_le (promote (uT w)) w hP]
  congr 1
  all_goals (apply toNat_natCast_expr; push_cast; rfl)

theorem rotr_arith (w x s : Nat) (hw : 1 ≤ w) :
    rotr w x s = .ok ((x / 2^(s % w)) % 2^w ||| (x * 2^((w - s % w) % w)) % 2^w) := by
  have hk : s % w < w := Nat.mod_lt _ (by omega)
  have hj : (w - s % w) % w < w := Nat.mod_lt _ (by omega)
  have hP : w ≤ (promote (uT w)).bits := promote_bits_ge_self (uT w)
  unfold rotr
  dsimp only
  rw [cBin_shr (uT w) x u32 (s % w) (by omega), cBin_shl (uT w) x u32 ((w - s % w) % w) (by omega)]
  simp only [Res.bind_ok]
  rw [bor_low (promote (uT w)) (usualArith_promote_self _) w hP]
  congr 1
  rw [wrap_emod_le (promote (uT w)) w hP]
  congr 1
  all_goals (apply toNat_natCast_expr; push_cast; rfl)

theorem testBit_high (x w m : Nat) (hx : x < 2^w) (hm : w ≤ m) : x.testBit m = false :=
  Nat.testBit_lt_two_pow (Nat.lt_of_lt_of_le hx (Nat.pow_le_pow_right (by decide) hm))

theorem testBit_ofBits (f : Nat → Bool) : ∀ (w i : Nat), (ofBits w f).testBit i = (decide (i < w) && f i)
  | 0, i => by simp [ofBits]
  | w+1, i => by
    simp only [ofBits, Nat.testBit_or, testBit_ofBits f w i]
    by_cases h2 : w = i
    · subst h2
      by_cases hf : f w <;> simp [hf]
    · by_cases h1 : i < w
      · have h3 : i < w + 1 := by omega
        by_cases hf : f w <;> simp [hf, h1, h2, h3]
      · have h3 : ¬ (i < w + 1) := by omega
        by_cases hf : f w <;> simp [hf, h1, h2, h3]

theorem ofBits_lt (f : Nat → Bool) (w : Nat) : ofBits w f < 2^w := by
  apply Nat.lt_pow_two_of_testBit
  intro i hi
  rw [testBit_ofBits]
  have : ¬ (i < w) := by omega
  simp [this]
theorem mod_two_pow_of_lt (x w : Nat) (h : x < 2^w) : x % 2^w = x := Nat.mod_eq_of_lt h

theorem rotl_eq (w x s : Nat) (hw : 1 ≤ w) (hx : x < 2^w) : rotl w x s = .ok (Spec.Bits.rotl w x s) := by
  rw [rotl_arith w x s hw]
  congr 1
  apply Nat.eq_of_testBit_eq
  intro i
  have hk : s % w < w := Nat.mod_lt _ (by omega)
  unfold Spec.Bits.rotl
  rw [testBit_ofBits, Nat.testBit_or, Nat.testBit_mod_two_pow, Nat.testBit_mod_two_pow,
    Nat.testBit_mul_two_pow, Nat.testBit_div_two_pow]
  generalize hkk : s % w = k at *
  by_cases hi : i < w
  · simp only [hi, decide_true, Bool.true_and]
    by_cases hk0 : k = 0
    · subst hk0
      have e1 : (w - 0) % w = 0 := by simp
      have e2 : (i + (w - 0)) % w = i := by
        rw [Nat.sub_zero, Nat.add_mod_right]; exact Nat.mod_eq_of_lt hi
      have e0 : i % w = i := Nat.mod_eq_of_lt hi
      simp [e0]
    · have e1 : (w - k) % w = w - k := Nat.mod_eq_of_lt (by omega)
      rw [e1]
      by_cases hik : k ≤ i
      · have e2 : (i + (w - k)) % w = i - k := by
          have : i + (w - k) = (i - k) + w := by omega
          rw [this, Nat.add_mod_right]; exact Nat.mod_eq_of_lt (by omega)
        have e3 : x.testBit (i + (w - k)) = false := testBit_high x w _ hx (by omega)
        simp [hik, e2, e3]
      · have e2 : (i + (w - k)) % w = i + (w - k) := Nat.mod_eq_of_lt (by omega)
        simp [hik, e2]
  · have e3 : x.testBit (i + (w - k) % w) = false := testBit_high x w _ hx (by omega)
    simp [hi]

theorem rotr_eq (w x s : Nat) (hw : 1 ≤ w) (hx : x < 2^w) : rotr w x s = .ok (Spec.Bits.rotr w x s) := by
  rw [rotr_arith w x s hw]
  congr 1
  apply Nat.eq_of_testBit_eq
  intro i
  have hk : s % w < w := Nat.mod_lt _ (by omega)
  unfold Spec.Bits.rotr
  rw [testBit_ofBits, Nat.testBit_or, Nat.testBit_mod_two_pow, Nat.testBit_mod_two_pow,
    Nat.testBit_mul_two_pow, Nat.testBit_div_two_pow]
  generalize hkk : s % w = k at *
  by_cases hi : i < w
  · simp only [hi, decide_true, Bool.true_and]
    by_cases hk0 : k = 0
    · subst hk0
      have e1 : (w - 0) % w = 0 := by simp
      have e2 : (i + 0) % w = i := by rw [Nat.add_zero]; exact Nat.mod_eq_of_lt hi
      have e0 : i % w = i := Nat.mod_eq_of_lt hi
      simp [e0]
    · have e1 : (w - k) % w = w - k := Nat.mod_eq_of_lt (by omega)
      rw [e1]
      by_cases hik : i + k < w
      · have e2 : (i + k) % w = i + k := Nat.mod_eq_of_lt hik
        have e4 : ¬ (w - k ≤ i) := by omega
        simp [e2, e4]
      · have e2 : (i + k) % w = i - (w - k) := by
          have : i + k = (i - (w - k)) + w := by omega
          rw [this, Nat.add_mod_right]; exact Nat.mod_eq_of_lt (by omega)
        have e3 : x.testBit (i + k) = false := testBit_high x w _ hx (by omega)
        have e4 : w - k ≤ i := by omega
        simp [e2, e3, e4]
  · simp [hi]

end Cnl.Bits
