import CnlModel.Numbers
import CnlSpec.Numbers
/-!
# CnlProofs.Numbers — kernel-checked statements about the generated table of stored constants

`Generated.numbers` is what the real compiler stores in `std::numbers::X_v<scaled_integer<Rep, power<E>>>` over the grid
(8…64-bit reps).  Checked here, by kernel evaluation over every entry:
* `model_eq`        the model (`long double` constant · 2^(−E), truncated) reproduces every entry;
* `alg_within_one`  for √2, √3, 1/√3, φ: `(c−1)·2^E < K < (c+1)·2^E` **exactly** (integer inequalities on the defining polynomial);
* `ref_within_one`  for all thirteen constants: the same against the 60-digit decimal enclosure (numerical reference);
* `series_unreachable`  `constant_with_fallback` never selects the series for a rep of ≤ 64 bits that can hold e or π.
-/
open Cnl Cnl.Numbers Cnl.Spec.Numbers
namespace Cnl.NumbersProofs

def entryTy (e : Nat × Nat × Nat × Nat) : IntTy := ⟨e.2.1, e.1 == 1⟩
def entryExp (e : Nat × Nat × Nat × Nat) : Int := -(e.2.2.1 : Int)
def entryRep (e : Nat × Nat × Nat × Nat) : Int := (e.2.2.2 : Int)

def allEntries (p : String → (Nat × Nat × Nat × Nat) → Bool) : Bool :=
  Generated.numbers.all fun ne => ne.2.all fun e => p ne.1 e

theorem model_eq : allEntries (fun name e => stored name (entryTy e) (entryExp e) == .ok (entryRep e)) = true := by
  decide +kernel

def isAlg (name : String) : Bool := name == "sqrt2" || name == "sqrt3" || name == "inv_sqrt3" || name == "phi"

theorem alg_within_one :
    allEntries (fun name e => !isAlg name || within1Alg name (entryExp e) (entryRep e) == some true) = true := by
  decide +kernel

theorem ref_within_one : allEntries (fun name e => within1Ref name (entryExp e) (entryRep e) == some true) = true := by
  decide +kernel

/-- a rep of `W ≤ 64` bits with `−E` fractional bits that leaves the two integer digits e and π need has `−E ≤ 62` -/
theorem series_unreachable (name : String) (W : Nat) (E : Int) (hW : W ≤ 64) (hfit : -E + 2 ≤ W) : usesFloat name E = true := by
  unfold usesFloat requiredIntegerDigits
  split
  · simp only [decide_eq_true_eq]; omega
  · rfl

end Cnl.NumbersProofs
