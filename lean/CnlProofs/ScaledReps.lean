import CnlProofs.Overflow
import CnlModel.ScaledReps
/-!
# Lemmas for C01 over wrapped representations (`CnlModel/ScaledReps.lean`)

The scaled layer over an `overflow_integer<T, tag>` representation reduces to the tagged operator of
`CnlModel/Overflow.lean` on the two built-in representations whenever no alignment takes place (`*`, and `+ -`
on equal exponents); unary minus always does.  Lean core only.
-/
namespace Cnl.ScaledRepsP
open Cnl Cnl.Spec Cnl.Overflow Cnl.ScaledReps Cnl.Elastic Cnl.ElasticScaled

/-- a tagged result of the representation as the scaled number over `overflow_integer<_, tag>` -/
def wrapOv (tag : OvTag) (e : Int) (ρ : Nat) (r : Res TV) : Res Num := r.map (fun v => scOv v.1 tag e ρ v.2)

theorem wrapOv_ok (tag : OvTag) (e : Int) (ρ : Nat) (T : IntTy) (v : Int) :
    wrapOv tag e ρ (.ok (T, v)) = .ok (scOv T tag e ρ v) := rfl

/-- unary minus under a reacting tag is `checkedNeg` on the representation, same exponent and radix -/
theorem negO_checked (tag : OvTag) (ht : tag ≠ .nat) (L : IntTy) (e : Int) (ρ : Nat) (l : Int) :
    negO (scOv L tag e ρ l) = wrapOv tag e ρ (checkedNeg tag (L, l)) := by
  cases tag <;> simp at ht <;>
  · simp only [negO, scOv, Layered.un, Layered.unWith, Layered.ops, Layered.unRep, Overflow.unOp, Overflow.asTV, wrapOv, Ty.depth]
    cases checkedNeg _ (L, l) <;> rfl

/-- `*` under a reacting tag is `checkedBin` on the representations, the exponents add -/
theorem binO_mul_checked (tag : OvTag) (ht : tag ≠ .nat) (L R : IntTy) (eL eR : Int) (ρ : Nat) (l r : Int) :
    binO .mul (scOv L tag eL ρ l) (scOv R tag eR ρ r)
      = wrapOv tag (eL + eR) ρ (checkedBin .builtin tag .mul (L, l) (R, r)) := by
  cases tag <;> simp at ht <;>
  · simp only [binO, scOv, Scaled.binOp, Scaled.isZeroDegree, ovOps, Layered.ops, Layered.binWith, Layered.balance,
      Layered.binHeads, Overflow.binOp, Overflow.binOpOn, Overflow.asTV, wrapOv, Ty.depth, Scaled.resultExp]
    simp
    cases checkedBin _ _ _ (L, l) (R, r) <;> rfl

/-- `+ -` on equal exponents under a reacting tag: `checkedBin` on the representations, same exponent -/
theorem binO_addsub_checked (op : BinOp) (hop : op = .add ∨ op = .sub) (tag : OvTag) (ht : tag ≠ .nat) (L R : IntTy)
    (e : Int) (ρ : Nat) (l r : Int) :
    binO op (scOv L tag e ρ l) (scOv R tag e ρ r) = wrapOv tag e ρ (checkedBin .builtin tag op (L, l) (R, r)) := by
  rcases hop with h | h <;> subst h <;> cases tag <;> simp at ht <;>
  · simp only [binO, scOv, Scaled.binOp, Scaled.isZeroDegree, ovOps, Layered.ops, Layered.binWith, Layered.balance,
      Layered.binHeads, Overflow.binOp, Overflow.binOpOn, Overflow.asTV, wrapOv, Ty.depth, Scaled.resultExp]
    simp
    cases checkedBin _ _ _ (L, l) (R, r) <;> rfl

/-- a built-in operand of `*`, or of `+ -` at exponent 0, is the elastic number
`elastic_integer<digits T, set_width_t<T, width N>>` at exponent 0 -/
theorem binOpB_right_eq (op : BinOp) (x : ESNum) (B : IntTy) (b : Int)
    (h : op = .mul ∨ ((op = .add ∨ op = .sub) ∧ x.exp = 0)) :
    binOpB x.narrowest op (.es x) (.builtin B b) = ElasticScaled.binOp op x (ofBuiltin x.narrowest B b 0) := by
  rcases h with h | ⟨h | h, he⟩ <;> subst h
  · rfl
  · simp [binOpB, ElasticScaled.binOp, Opnd.exp, Opnd.raw, ofBuiltin, he, ElasticScaled.scaleUp]
  · simp [binOpB, ElasticScaled.binOp, Opnd.exp, Opnd.raw, ofBuiltin, he, ElasticScaled.scaleUp]

theorem binOpB_left_eq (op : BinOp) (x : ESNum) (B : IntTy) (b : Int)
    (h : op = .mul ∨ ((op = .add ∨ op = .sub) ∧ x.exp = 0)) :
    binOpB x.narrowest op (.builtin B b) (.es x) = ElasticScaled.binOp op (ofBuiltin x.narrowest B b 0) x := by
  rcases h with h | ⟨h | h, he⟩ <;> subst h
  · rfl
  · simp [binOpB, ElasticScaled.binOp, Opnd.exp, Opnd.raw, ofBuiltin, he, ElasticScaled.scaleUp]
  · simp [binOpB, ElasticScaled.binOp, Opnd.exp, Opnd.raw, ofBuiltin, he, ElasticScaled.scaleUp]

end Cnl.ScaledRepsP
