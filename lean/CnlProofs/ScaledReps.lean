import CnlProofs.Overflow
import CnlProofs.Parse
import CnlModel.ScaledReps
/-!
# Lemmas for C01 over wrapped representations (`CnlModel/ScaledReps.lean`)

The scaled layer over an `overflow_integer<T, tag>` representation reduces to the tagged operator of
`CnlModel/Overflow.lean` on the two built-in representations whenever no alignment takes place (`*`, and `+ -`
on equal exponents); unary minus always does.  Lean core only.
-/
namespace Cnl.ScaledRepsP
open Cnl Cnl.Spec Cnl.Overflow Cnl.ScaledReps Cnl.Elastic Cnl.ElasticScaled

/-- a tagged result of the representation as the scaled number over `overflow_integer<_, tag>` -/
def wrapOv (tag : OvTag) (e : Int) (ρ : Nat) (r : Res TV) : Res Num := r.map (fun v => scOv v.1 tag e ρ v.2)

theorem wrapOv_ok (tag : OvTag) (e : Int) (ρ : Nat) (T : IntTy) (v : Int) :
    wrapOv tag e ρ (.ok (T, v)) = .ok (scOv T tag e ρ v) := rfl

/-- unary minus under a reacting tag is `checkedNeg` on the representation, same exponent and radix -/
theorem negO_checked (tag : OvTag) (ht : tag ≠ .nat) (L : IntTy) (e : Int) (ρ : Nat) (l : Int) :
    negO (scOv L tag e ρ l) = wrapOv tag e ρ (checkedNeg tag (L, l)) := by
  cases tag <;> simp at ht <;>
  · simp only [negO, scOv, Layered.un, Layered.unWith, Layered.ops, Layered.unRep, Overflow.unOp, Overflow.asTV, wrapOv, Ty.depth]
    cases checkedNeg _ (L, l) <;> rfl

/-- `*` under a reacting tag is `checkedBin` on the representations, the exponents add -/
theorem binO_mul_checked (tag : OvTag) (ht : tag ≠ .nat) (L R : IntTy) (eL eR : Int) (ρ : Nat) (l r : Int) :
    binO .mul (scOv L tag eL ρ l) (scOv R tag eR ρ r)
      = wrapOv tag (eL + eR) ρ (checkedBin .builtin tag .mul (L, l) (R, r)) := by
  cases tag <;> simp at ht <;>
  · simp only [binO, scOv, Scaled.binOp, Scaled.isZeroDegree, ovOps, Layered.ops, Layered.binWith, Layered.balance,
      Layered.binHeads, Overflow.binOp, Overflow.binOpOn, Overflow.asTV, wrapOv, Ty.depth, Scaled.resultExp]
    simp
    cases checkedBin _ _ _ (L, l) (R, r) <;> rfl

/-- `+ -` on equal exponents under a reacting tag: `checkedBin` on the representations, same exponent -/
theorem binO_addsub_checked (op : BinOp) (hop : op = .add ∨ op = .sub) (tag : OvTag) (ht : tag ≠ .nat) (L R : IntTy)
    (e : Int) (ρ : Nat) (l r : Int) :
    binO op (scOv L tag e ρ l) (scOv R tag e ρ r) = wrapOv tag e ρ (checkedBin .builtin tag op (L, l) (R, r)) := by
  rcases hop with h | h <;> subst h <;> cases tag <;> simp at ht <;>
  · simp only [binO, scOv, Scaled.binOp, Scaled.isZeroDegree, ovOps, Layered.ops, Layered.binWith, Layered.balance,
      Layered.binHeads, Overflow.binOp, Overflow.binOpOn, Overflow.asTV, wrapOv, Ty.depth, Scaled.resultExp]
    simp
    cases checkedBin _ _ _ (L, l) (R, r) <;> rfl

/-- a built-in operand of `*`, or of `+ -` at exponent 0, is the elastic number
`elastic_integer<digits T, set_width_t<T, width N>>` at exponent 0 -/
theorem binOpB_right_eq (op : BinOp) (x : ESNum) (B : IntTy) (b : Int)
    (h : op = .mul ∨ ((op = .add ∨ op = .sub) ∧ x.exp = 0)) :
    binOpB x.narrowest op (.es x) (.builtin B b) = ElasticScaled.binOp op x (ofBuiltin x.narrowest B b 0) := by
  rcases h with h | ⟨h | h, he⟩ <;> subst h
  · rfl
  · simp [binOpB, ElasticScaled.binOp, Opnd.exp, Opnd.raw, ofBuiltin, he, ElasticScaled.scaleUp]
  · simp [binOpB, ElasticScaled.binOp, Opnd.exp, Opnd.raw, ofBuiltin, he, ElasticScaled.scaleUp]

theorem binOpB_left_eq (op : BinOp) (x : ESNum) (B : IntTy) (b : Int)
    (h : op = .mul ∨ ((op = .add ∨ op = .sub) ∧ x.exp = 0)) :
    binOpB x.narrowest op (.builtin B b) (.es x) = ElasticScaled.binOp op (ofBuiltin x.narrowest B b 0) x := by
  rcases h with h | ⟨h | h, he⟩ <;> subst h
  · rfl
  · simp [binOpB, ElasticScaled.binOp, Opnd.exp, Opnd.raw, ofBuiltin, he, ElasticScaled.scaleUp]
  · simp [binOpB, ElasticScaled.binOp, Opnd.exp, Opnd.raw, ofBuiltin, he, ElasticScaled.scaleUp]

/-! ## multi-word wide_integer representations and `constant<V>` operands -/

/-- the two's-complement range of `N` bits -/
def InBits (N : Nat) (signed : Bool) (v : Int) : Prop :=
  if signed then -(2 : Int)^(N - 1) ≤ v ∧ v < (2 : Int)^(N - 1) else 0 ≤ v ∧ v < (2 : Int)^N

instance (N : Nat) (s : Bool) (v : Int) : Decidable (InBits N s v) := by unfold InBits; exact inferInstance

theorem wrapTo_id (N : Nat) (hN : 1 ≤ N) (s : Bool) (v : Int) (h : InBits N s v) : wrapTo N s v = v := by
  have hM : (2 : Int)^N = 2 * (2 : Int)^(N - 1) := by
    obtain ⟨k, rfl⟩ : ∃ k, N = k + 1 := ⟨N - 1, by omega⟩
    simp [Int.pow_succ, Int.mul_comm]
  have hP : 0 < (2 : Int)^(N - 1) := Int.pow_pos (by decide)
  unfold InBits at h
  unfold wrapTo
  rw [hM] at h ⊢
  generalize (2 : Int)^(N - 1) = P at *
  cases s
  · simp at h
    simp
    exact Int.emod_eq_of_lt h.1 h.2
  · simp at h
    by_cases hv : 0 ≤ v
    · have e : v % (2 * P) = v := Int.emod_eq_of_lt hv (by omega)
      simp [e]; omega
    · have e : v % (2 * P) = v + 2 * P := by
        rw [← Int.add_emod_right v (2 * P)]
        exact Int.emod_eq_of_lt (by omega) (by omega)
      simp [e]; omega

/-- `default_scale` in the storage is the exact product when the power and the product fit -/
theorem wScale_exact (f : Wide.Fmt) (hN : 1 ≤ f.N) (ρ k : Nat) (v : Int)
    (hp : InBits f.N f.signed ((ρ : Int)^k)) (hv : InBits f.N f.signed (v * (ρ : Int)^k)) :
    wScale f ρ k v = v * (ρ : Int)^k := by
  unfold wScale
  rw [wrapTo_id _ hN _ _ hp, wrapTo_id _ hN _ _ hv]

theorem wwBin_mul_exact (ρ : Nat) (x y : WNum) (f : Wide.Fmt) (hN : 1 ≤ f.N)
    (hx : wFmt x.digits x.narrowest = some f) (hy : wFmt y.digits y.narrowest = some f) (hn : x.narrowest = y.narrowest)
    (hr : InBits f.N f.signed (x.value * y.value)) :
    wwBin ρ .mul x y = .ok ⟨max x.digits y.digits, x.narrowest, x.exp + y.exp, x.value * y.value⟩ := by
  rw [hn] at hx
  unfold wwBin
  simp [hx, hy, hn, wrapTo_id _ hN _ _ hr]

theorem wwBin_add_sub_exact (op : BinOp) (hop : op = .add ∨ op = .sub) (ρ : Nat) (x y : WNum) (f : Wide.Fmt) (hN : 1 ≤ f.N)
    (hx : wFmt x.digits x.narrowest = some f) (hy : wFmt y.digits y.narrowest = some f) (hn : x.narrowest = y.narrowest)
    (a b : Int)
    (ha : a = x.value * (ρ : Int)^(x.exp - min x.exp y.exp).toNat) (hb : b = y.value * (ρ : Int)^(y.exp - min x.exp y.exp).toNat)
    (hpa : InBits f.N f.signed ((ρ : Int)^(x.exp - min x.exp y.exp).toNat))
    (hpb : InBits f.N f.signed ((ρ : Int)^(y.exp - min x.exp y.exp).toNat))
    (hfa : InBits f.N f.signed a) (hfb : InBits f.N f.signed b)
    (hr : InBits f.N f.signed (if op = .add then a + b else a - b)) :
    wwBin ρ op x y = .ok ⟨max x.digits y.digits, x.narrowest, min x.exp y.exp, if op = .add then a + b else a - b⟩ := by
  subst ha hb
  have sa := wScale_exact f hN ρ _ x.value hpa hfa
  have sb := wScale_exact f hN ρ _ y.value hpb hfb
  rw [hn] at hx
  unfold wwBin
  by_cases he : x.exp = y.exp
  · have h0 : (y.exp - min y.exp y.exp).toNat = 0 := by simp
    simp only [he, h0, Int.pow_zero, Int.mul_one] at hr ⊢
    rcases hop with h | h <;> subst h <;> simp [hx, hy, hn] at hr ⊢ <;> exact wrapTo_id _ hN _ _ hr
  · rcases hop with h | h <;> subst h <;> simp [hx, hy, hn, he, sa, sb] at hr ⊢ <;> exact wrapTo_id _ hN _ _ hr

/-- a `constant<V>` operand is a scaled_integer over a SIGNED built-in representation holding `V` exactly -/
theorem builtinSigned_signed (d : Nat) (t : IntTy) (h : Parse.builtinSigned d = some t) : t.signed = true := by
  by_cases h1 : d ≤ 31 <;> by_cases h2 : d ≤ 63 <;> by_cases h3 : d ≤ 127 <;>
    simp [Parse.builtinSigned, h1, h2, h3] at h <;> (try (subst h; rfl))

theorem constNum_signed (v : Int) (c : Num) (h : constNum v = .ok c) :
    ∃ t e, c.1 = .sc (.int t) (e : Nat) 2 ∧ t.signed = true ∧ c.2 * (2 : Int)^e = v := by
  unfold constNum Parse.makeScaledInteger at h
  cases hb : Parse.builtinSigned (max 31 (Parse.usedDigits v - Parse.trailingBits v)) with
  | none => simp [hb, bind, Res.bind] at h
  | some t =>
    simp [hb, bind, Res.bind] at h
    subst h
    exact ⟨t, Parse.trailingBits v, rfl, builtinSigned_signed _ _ hb, ParseProofs.shiftOut_exact v⟩
end Cnl.ScaledRepsP
