import CnlProofs.Scaled
import CnlModel.ScaledMixed
/-!
# Lemmas for C04: conversion between `scaled_integer`s of DIFFERENT radixes (`CnlModel.ScaledMixed`)

The code scales a variable of the SOURCE representation type `S` four times (each step computed in the
promoted type and assigned back, i.e. converted to `S`), all multiplications first:

    v  ·  rS^eS⁺  ·  rD^(-eD)⁺   then   /  rS^eS⁻   /  rD^eD⁺        (x⁺ = max x 0, x⁻ = max (-x) 0)

* `tdiv_tdiv_pos` — nested truncating division by positive numbers is one truncating division by the product;
* `step_up` / `step_down` — one step evaluated (multiplication that fits `S`; truncating division);
* `convert_eval` — the whole conversion: the exact quotient of the numerator `v · rS^eS⁺ · rD^(-eD)⁺` by the
  divisor `rS^eS⁻ · rD^eD⁺`, truncated toward zero, converted to the destination representation type.

Lean core only.
-/
set_option linter.unusedVariables false
set_option linter.unusedSimpArgs false

namespace Cnl.ScaledMixedP
open Cnl Cnl.Spec Cnl.Rounding Cnl.ScaledP Cnl.ScaledMixed

/-- nested truncating division: `(a / b) / c = a / (b · c)` for positive `b`, `c`, both signs of `a` -/
theorem tdiv_tdiv_pos (a b c : Int) (hb : 0 < b) (hc : 0 < c) : (a.tdiv b).tdiv c = a.tdiv (b * c) := by
  have key : ∀ x : Int, 0 ≤ x → (x.tdiv b).tdiv c = x.tdiv (b * c) := by
    intro x hx
    rw [Int.tdiv_eq_ediv_of_nonneg hx, Int.tdiv_eq_ediv_of_nonneg (Int.ediv_nonneg hx (Int.le_of_lt hb)),
      Int.tdiv_eq_ediv_of_nonneg hx]
    exact Int.ediv_ediv_of_nonneg (Int.le_of_lt hb)
  by_cases ha : 0 ≤ a
  · exact key a ha
  · have h := key (-a) (by omega)
    rw [Int.neg_tdiv, Int.neg_tdiv, Int.neg_tdiv] at h
    omega

/-- a product with a factor `≥ 1` lies in the range only if the other factor does -/
theorem inRange_of_mul_ge_one {T : IntTy} {x b : Int} (hb : 1 ≤ b) (h : T.InRange (x * b)) : T.InRange x := by
  have hz := zero_le_max T
  unfold IntTy.InRange at *
  by_cases hx : 0 ≤ x
  · have := Int.mul_le_mul_of_nonneg_left hb hx
    omega
  · have := Int.mul_le_mul_of_nonpos_left (a := x) (by omega) hb
    omega

/-- the numerator of the conversion: the source representation times every power with which the code multiplies -/
def numer (eS : Int) (rS : Nat) (eD : Int) (rD : Nat) (v : Int) : Int :=
  v * pw rS eS.toNat * pw rD (-eD).toNat

/-- the divisor of the conversion: the product of the powers by which the code divides -/
def denom (eS : Int) (rS : Nat) (eD : Int) (rD : Nat) : Int :=
  pw rS (-eS).toNat * pw rD eD.toNat

/-- the result representation: the exact quotient truncated toward zero -/
def quot (eS : Int) (rS : Nat) (eD : Int) (rD : Nat) (v : Int) : Int :=
  (numer eS rS eD rD v).tdiv (denom eS rS eD rD)

/-- the restriction under which the code computes the quotient: every `power_value` instantiation it needs is
well-formed (`PowOk`: the power is a value of the promoted source type — trivially so for the two exponents'
unused signs, whose power is `radix^0`), and the numerator fits the SOURCE representation type `S`, in which
the running value is stored between the steps (then so does the intermediate `v · rS^eS⁺`:
`inRange_of_mul_ge_one`). -/
def MixedOk (S : IntTy) (eS : Int) (rS : Nat) (eD : Int) (rD : Nat) (v : Int) : Prop :=
  PowOk S eS.toNat rS ∧ PowOk S (-eS).toNat rS ∧ PowOk S eD.toNat rD ∧ PowOk S (-eD).toNat rD
  ∧ S.InRange (numer eS rS eD rD v)

instance (S : IntTy) (eS : Int) (rS : Nat) (eD : Int) (rD : Nat) (v : Int) : Decidable (MixedOk S eS rS eD rD v) := by
  unfold MixedOk; exact inferInstance

theorem denom_pos {rS rD : Nat} (hS : 2 ≤ rS) (hD : 2 ≤ rD) (eS eD : Int) : 0 < denom eS rS eD rD :=
  Int.mul_pos (pw_pos hS _) (pw_pos hD _)

theorem numer_nonneg {rS rD : Nat} (hS : 2 ≤ rS) (hD : 2 ≤ rD) (eS eD : Int) {v : Int} (h : 0 ≤ v) :
    0 ≤ numer eS rS eD rD v :=
  Int.mul_nonneg (Int.mul_nonneg h (Int.le_of_lt (pw_pos hS _))) (Int.le_of_lt (pw_pos hD _))

theorem numer_nonpos {rS rD : Nat} (hS : 2 ≤ rS) (hD : 2 ≤ rD) (eS eD : Int) {v : Int} (h : v ≤ 0) :
    numer eS rS eD rD v ≤ 0 := by
  have := numer_nonneg hS hD eS eD (v := -v) (by omega)
  unfold numer at *
  rw [Int.neg_mul, Int.neg_mul] at this
  omega

/-- a multiplying step whose product fits the source representation type -/
theorem step_up (S : IntTy) (hS : 1 ≤ S.bits) (k : Int) (hk : 0 ≤ k) (ρ : Nat) (hρ : 2 ≤ ρ)
    (hw : PowOk S k.toNat ρ) (v : Int) (hv : S.InRange v) (hfit : S.InRange (v * pw ρ k.toNat)) :
    step S k ρ (S, v) = .ok (S, v * pw ρ k.toNat) := by
  unfold step
  by_cases h0 : k = 0
  · subst h0
    simp only [ite_true, Int.toNat_zero, pw_zero, Int.mul_one]
  · simp only [h0, ite_false]
    rw [scaleInt_up S hS k hk ρ hρ hw v hv (promote_inRange hS hfit)]
    simp only [Res.bind_ok, Res.pure_eq, Cnl.convert, IntTy.wrap_id hS hfit]

/-- a dividing step: truncating division; the quotient is again a value of the source representation type -/
theorem step_down (S : IntTy) (hS : 1 ≤ S.bits) (k : Int) (hk : k < 0) (ρ : Nat) (hρ : 2 ≤ ρ)
    (hw : PowOk S (-k).toNat ρ) (v : Int) (hv : S.InRange v) :
    step S k ρ (S, v) = .ok (S, v.tdiv (pw ρ (-k).toNat)) := by
  unfold step
  have h0 : k ≠ 0 := by omega
  simp only [h0, ite_false]
  rw [scaleInt_down S hS k hk ρ hρ (hw.representable hρ) v hv]
  simp only [Res.bind_ok, Res.pure_eq, Cnl.convert, IntTy.wrap_id hS (tdiv_pos_inRange hv (pw_pos hρ _))]

/-- the conversion as the sequence of its four conditional steps (the `do` block, un-nested) -/
theorem convert_def (S : IntTy) (eS : Int) (rS : Nat) (D : IntTy) (eD : Int) (rD : Nat) (v : Int) :
    ScaledMixed.convert S eS rS D eD rD v
      = ((if eS > 0 then step S eS rS (S, v) else Res.ok (S, v)) >>= fun t1 =>
         (if eD < 0 then step S (-eD) rD t1 else Res.ok t1) >>= fun t2 =>
         (if eS < 0 then step S eS rS t2 else Res.ok t2) >>= fun t3 =>
         (if eD > 0 then step S (-eD) rD t3 else Res.ok t3) >>= fun t4 =>
         Res.ok (Cnl.convert D t4)) := by
  unfold ScaledMixed.convert
  by_cases h1 : eS > 0 <;> by_cases h2 : eD < 0 <;> by_cases h3 : eS < 0 <;> by_cases h4 : eD > 0 <;>
    simp only [h1, h2, h3, h4, ite_true, ite_false, Res.bind_ok, Res.pure_eq]

/-- the conversion between scaled integers of different radixes, evaluated -/
theorem convert_eval (S D : IntTy) (hS : 1 ≤ S.bits) (eS eD : Int) (rS rD : Nat) (hrS : 2 ≤ rS) (hrD : 2 ≤ rD)
    (v : Int) (hv : S.InRange v) (hok : MixedOk S eS rS eD rD v) :
    ScaledMixed.convert S eS rS D eD rD v = .ok (Cnl.convert D (S, quot eS rS eD rD v)) := by
  obtain ⟨hw1, hw3, hw4, hw2, hfit2⟩ := hok
  unfold numer at hfit2
  have hfit1 : S.InRange (v * pw rS eS.toNat) := inRange_of_mul_ge_one (pw_ge_one hrD _) hfit2
  have hp3 := pw_pos hrS (-eS).toNat
  have hp4 := pw_pos hrD eD.toNat
  -- step 1
  have e1 : (if eS > 0 then step S eS rS (S, v) else Res.ok (S, v)) = Res.ok (S, v * pw rS eS.toNat) := by
    by_cases h : eS > 0
    · simp only [h, ite_true]
      exact step_up S hS eS (by omega) rS hrS hw1 v hv hfit1
    · have : eS.toNat = 0 := by omega
      simp only [h, ite_false, this, pw_zero, Int.mul_one, Res.pure_eq]
  -- step 2
  have e2 : (if eD < 0 then step S (-eD) rD (S, v * pw rS eS.toNat) else Res.ok (S, v * pw rS eS.toNat))
      = Res.ok (S, v * pw rS eS.toNat * pw rD (-eD).toNat) := by
    by_cases h : eD < 0
    · simp only [h, ite_true]
      exact step_up S hS (-eD) (by omega) rD hrD hw2 _ hfit1 hfit2
    · have : (-eD).toNat = 0 := by omega
      simp only [h, ite_false, this, pw_zero, Int.mul_one, Res.pure_eq]
  -- step 3
  have hfit3 : S.InRange ((v * pw rS eS.toNat * pw rD (-eD).toNat).tdiv (pw rS (-eS).toNat)) :=
    tdiv_pos_inRange hfit2 hp3
  have e3 : (if eS < 0 then step S eS rS (S, v * pw rS eS.toNat * pw rD (-eD).toNat)
        else Res.ok (S, v * pw rS eS.toNat * pw rD (-eD).toNat))
      = Res.ok (S, (v * pw rS eS.toNat * pw rD (-eD).toNat).tdiv (pw rS (-eS).toNat)) := by
    by_cases h : eS < 0
    · simp only [h, ite_true]
      exact step_down S hS eS h rS hrS hw3 _ hfit2
    · have : (-eS).toNat = 0 := by omega
      simp only [h, ite_false, this, pw_zero, Int.tdiv_one, Res.pure_eq]
  -- step 4
  have e4 : (if eD > 0 then step S (-eD) rD (S, (v * pw rS eS.toNat * pw rD (-eD).toNat).tdiv (pw rS (-eS).toNat))
        else Res.ok (S, (v * pw rS eS.toNat * pw rD (-eD).toNat).tdiv (pw rS (-eS).toNat)))
      = Res.ok (S, ((v * pw rS eS.toNat * pw rD (-eD).toNat).tdiv (pw rS (-eS).toNat)).tdiv (pw rD eD.toNat)) := by
    by_cases h : eD > 0
    · simp only [h, ite_true]
      have hn : (- -eD).toNat = eD.toNat := by rw [Int.neg_neg]
      have := step_down S hS (-eD) (by omega) rD hrD (by rw [hn]; exact hw4) _ hfit3
      rw [hn] at this
      exact this
    · have : eD.toNat = 0 := by omega
      simp only [h, ite_false, this, pw_zero, Int.tdiv_one, Res.pure_eq]
  rw [convert_def]
  simp only [e1, Res.bind_ok, e2, e3, e4, Res.pure_eq]
  rw [tdiv_tdiv_pos _ _ _ hp3 hp4]
  rfl

/-! ## the denoted values: `v · rS^eS` (source) against `x · rD^eD` (a destination representation `x`) -/

/-- clearing the denominator of a denoted value -/
theorem den_mul_pw (ρ : Nat) (hρ : 2 ≤ ρ) (rep e : Int) :
    den ρ rep e * ((pw ρ (-e).toNat : Int) : Rat) = ((rep * pw ρ e.toNat : Int) : Rat) := by
  unfold den
  by_cases h : 0 ≤ e
  · have h0 : (-e).toNat = 0 := by omega
    simp only [h, ite_true, h0, pw_zero, Rat.intCast_mul]
    unfold pw
    grind
  · have h0 : e.toNat = 0 := by omega
    have hne := pwR_ne ρ hρ (-e).toNat
    simp only [h, ite_false, h0, pw_zero, Int.mul_one]
    unfold pw at hne ⊢
    grind

/-- the common positive factor `rS^eS⁻ · rD^(-eD)⁺` that turns both denoted values into integers -/
theorem den_src_scaled (rS rD : Nat) (hrS : 2 ≤ rS) (eS eD v : Int) :
    den rS v eS * (((pw rS (-eS).toNat : Int) : Rat) * ((pw rD (-eD).toNat : Int) : Rat))
      = ((numer eS rS eD rD v : Int) : Rat) := by
  unfold numer
  rw [← Rat.mul_assoc, den_mul_pw rS hrS, ← Rat.intCast_mul]

theorem den_dst_scaled (rS rD : Nat) (hrD : 2 ≤ rD) (eS eD x : Int) :
    den rD x eD * (((pw rS (-eS).toNat : Int) : Rat) * ((pw rD (-eD).toNat : Int) : Rat))
      = ((x * denom eS rS eD rD : Int) : Rat) := by
  unfold denom
  rw [Rat.mul_comm ((pw rS (-eS).toNat : Int) : Rat), ← Rat.mul_assoc, den_mul_pw rD hrD, ← Rat.intCast_mul]
  congr 1
  rw [Int.mul_assoc, Int.mul_comm (pw rS (-eS).toNat)]

/-- the order of a destination value `x · rD^eD` and the source value `v · rS^eS` is the order of
`x · divisor` and the numerator -/
theorem den_dst_lt_src_iff (rS rD : Nat) (hrS : 2 ≤ rS) (hrD : 2 ≤ rD) (eS eD v x : Int) :
    den rD x eD < den rS v eS ↔ x * denom eS rS eD rD < numer eS rS eD rD v := by
  have hK : (0 : Rat) < ((pw rS (-eS).toNat : Int) : Rat) * ((pw rD (-eD).toNat : Int) : Rat) :=
    Rat.mul_pos (pwR_pos rS hrS _) (pwR_pos rD hrD _)
  rw [← Rat.mul_lt_mul_right hK, den_src_scaled rS rD hrS, den_dst_scaled rS rD hrD, Rat.intCast_lt_intCast]

theorem den_src_lt_dst_iff (rS rD : Nat) (hrS : 2 ≤ rS) (hrD : 2 ≤ rD) (eS eD v x : Int) :
    den rS v eS < den rD x eD ↔ numer eS rS eD rD v < x * denom eS rS eD rD := by
  have hK : (0 : Rat) < ((pw rS (-eS).toNat : Int) : Rat) * ((pw rD (-eD).toNat : Int) : Rat) :=
    Rat.mul_pos (pwR_pos rS hrS _) (pwR_pos rD hrD _)
  rw [← Rat.mul_lt_mul_right hK, den_src_scaled rS rD hrS, den_dst_scaled rS rD hrD, Rat.intCast_lt_intCast]

theorem den_dst_le_src_iff (rS rD : Nat) (hrS : 2 ≤ rS) (hrD : 2 ≤ rD) (eS eD v x : Int) :
    den rD x eD ≤ den rS v eS ↔ x * denom eS rS eD rD ≤ numer eS rS eD rD v := by
  rw [← Rat.not_lt, den_src_lt_dst_iff rS rD hrS hrD]; omega

theorem den_src_le_dst_iff (rS rD : Nat) (hrS : 2 ≤ rS) (hrD : 2 ≤ rD) (eS eD v x : Int) :
    den rS v eS ≤ den rD x eD ↔ numer eS rS eD rD v ≤ x * denom eS rS eD rD := by
  rw [← Rat.not_lt, den_dst_lt_src_iff rS rD hrS hrD]; omega

theorem den_dst_eq_src_iff (rS rD : Nat) (hrS : 2 ≤ rS) (hrD : 2 ≤ rD) (eS eD v x : Int) :
    den rD x eD = den rS v eS ↔ x * denom eS rS eD rD = numer eS rS eD rD v := by
  have h1 := den_dst_le_src_iff rS rD hrS hrD eS eD v x
  have h2 := den_src_le_dst_iff rS rD hrS hrD eS eD v x
  constructor
  · intro h
    have a := h1.1 (by rw [h]; exact Rat.le_refl)
    have b := h2.1 (by rw [h]; exact Rat.le_refl)
    omega
  · intro h
    exact Rat.le_antisymm (h1.2 (by omega)) (h2.2 (by omega))

end Cnl.ScaledMixedP
