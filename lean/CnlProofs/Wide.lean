import CnlModel.Wide
import CnlSpec.Wide
/-!
# Helper lemmas for C10 (Lean core only): the limb routines of `CnlModel.Wide` compute what they should,
for every limb width `w` and every limb count, by induction on the limb list.
Sections are separate namespaces (`Cnl.Wide.Basic`, `.Mul`, `.Shift`, `.Div`, …) because they were developed
independently and each carries its own small arithmetic helpers.
-/

/-! ## Basic: limb-list basics: add/subtract with carry, multiply by a limb, increment, decrement, not, negate, compare, bitwise -/
namespace Cnl.Wide.Basic

theorem WF_nil {w} : WF w [] := by intro x hx; cases hx

theorem WF_cons {w x} {xs : Limbs} : WF w (x :: xs) ↔ x < 2^w ∧ WF w xs := by
  unfold WF
  constructor
  · intro h
    exact ⟨h x (List.mem_cons_self), fun y hy => h y (List.mem_cons_of_mem _ hy)⟩
  · intro ⟨h1, h2⟩ y hy
    cases hy with
    | head => exact h1
    | tail _ hy => exact h2 y hy

theorem pow_succ_len (w n : Nat) : 2^(w * (n+1)) = 2^w * 2^(w*n) := by
  rw [Nat.mul_succ, Nat.pow_add, Nat.mul_comm]

theorem toNat_lt {w} {a : Limbs} (h : WF w a) : toNat w a < 2^(w * a.length) := by
  induction a with
  | nil => simp [toNat]
  | cons x xs ih =>
    obtain ⟨hx, hxs⟩ := WF_cons.mp h
    have ih := ih hxs
    simp only [toNat, List.length_cons, pow_succ_len]
    generalize 2^(w * xs.length) = P at *
    generalize toNat w xs = T at *
    generalize 2^w = B at *
    have : B * (T + 1) ≤ B * P := Nat.mul_le_mul_left B ih
    rw [Nat.mul_add] at this
    omega

theorem ofNat_length (w n v) : (ofNat w n v).length = n := by
  induction n generalizing v with
  | zero => simp [ofNat]
  | succ n ih => simp [ofNat, ih]

theorem ofNat_WF (w n v) : WF w (ofNat w n v) := by
  induction n generalizing v with
  | zero => simp [ofNat]; exact WF_nil
  | succ n ih =>
    simp only [ofNat]
    exact WF_cons.mpr ⟨Nat.mod_lt _ (Nat.two_pow_pos w), ih _⟩

theorem toNat_ofNat (w n v) : toNat w (ofNat w n v) = v % 2^(w * n) := by
  induction n generalizing v with
  | zero => simp [ofNat, toNat, Nat.mod_one]
  | succ n ih =>
    simp only [ofNat, toNat, ih, pow_succ_len]
    rw [Nat.mod_mul]

theorem toNat_inj {w} {a b : Limbs} (ha : WF w a) (hb : WF w b) (hl : a.length = b.length)
    (h : toNat w a = toNat w b) : a = b := by
  induction a generalizing b with
  | nil =>
    cases b with
    | nil => rfl
    | cons y ys => simp at hl
  | cons x xs ih =>
    cases b with
    | nil => simp at hl
    | cons y ys =>
      obtain ⟨hx, hxs⟩ := WF_cons.mp ha
      obtain ⟨hy, hys⟩ := WF_cons.mp hb
      simp only [toNat] at h
      simp only [List.length_cons, Nat.add_right_cancel_iff] at hl
      have h1 : x = y := by
        have := congrArg (· % 2^w) h
        simp only [Nat.add_mul_mod_self_left] at this
        rwa [Nat.mod_eq_of_lt hx, Nat.mod_eq_of_lt hy] at this
      subst h1
      have h2 : toNat w xs = toNat w ys := by
        have := Nat.add_left_cancel h
        exact Nat.eq_of_mul_eq_mul_left (Nat.two_pow_pos w) this
      rw [ih hxs hys hl h2]

theorem toNat_zeros (w n) : toNat w (zeros n) = 0 := by
  induction n with
  | zero => simp [zeros, toNat]
  | succ n ih =>
    simp only [zeros, List.replicate_succ, toNat] at *
    simp [ih]

theorem two_pow_two_mul (w : Nat) : 2^(2*w) = 2^w * 2^w := by
  rw [Nat.two_mul, Nat.pow_add]

theorem add_step {B u v c : Nat} (hu : u < B) (hv : v < B) (hc : c ≤ 1) (hcB : c < B) :
    u + v + c < B * B ∧ (u + v + c) / B ≤ 1 ∧ (u + v + c) / B < B := by
  have hB : 0 < B := by omega
  have h2 : (u + v + c) / B < 2 := (Nat.div_lt_iff_lt_mul hB).mpr (by omega)
  by_cases h1 : B = 1
  · subst h1
    have : u + v + c = 0 := by omega
    simp [this]
  · have : 2 * B ≤ B * B := Nat.mul_le_mul_right B (by omega)
    refine ⟨by omega, by omega, by omega⟩

/-- general form: the carry-in must fit a limb (automatic when `1 ≤ w`) -/
theorem addN_spec' {w} {a b : Limbs} {c : Nat} (ha : WF w a) (hb : WF w b) (hl : a.length = b.length)
    (hc : c ≤ 1) (hcw : c < 2^w) :
    toNat w (addN w a b c).1 + (addN w a b c).2 * 2^(w * a.length) = toNat w a + toNat w b + c
    ∧ (addN w a b c).2 ≤ 1 ∧ (addN w a b c).2 < 2^w ∧ WF w (addN w a b c).1
    ∧ (addN w a b c).1.length = a.length := by
  induction a generalizing b c with
  | nil =>
    cases b with
    | nil => simp [addN, toNat, hc, hcw, WF_nil]
    | cons y ys => simp at hl
  | cons x xs ih =>
    cases b with
    | nil => simp at hl
    | cons y ys =>
      obtain ⟨hx, hxs⟩ := WF_cons.mp ha
      obtain ⟨hy, hys⟩ := WF_cons.mp hb
      simp only [List.length_cons, Nat.add_right_cancel_iff] at hl
      obtain ⟨s1, s2, s3⟩ := add_step hx hy hc hcw
      have hd : dbl w (x + y + c) = x + y + c := by
        unfold dbl; rw [two_pow_two_mul]; exact Nat.mod_eq_of_lt s1
      have hh : hi w (x + y + c) = (x + y + c) / 2^w := by
        unfold hi; exact Nat.mod_eq_of_lt s3
      simp only [addN, hd, hh, lo, toNat, List.length_cons, pow_succ_len]
      obtain ⟨i1, i2, i3, i4, i5⟩ := ih hxs hys hl s2 s3
      refine ⟨?_, i2, i3, WF_cons.mpr ⟨Nat.mod_lt _ (Nat.two_pow_pos w), i4⟩, by simp [i5]⟩
      have hdm := Nat.mod_add_div (x + y + c) (2^w)
      generalize (addN w xs ys ((x + y + c) / 2 ^ w)) = r at *
      generalize 2^w = B at *
      generalize 2^(w * xs.length) = P at *
      generalize (x+y+c) / B = q at *
      generalize (x+y+c) % B = m at *
      generalize toNat w r.1 = R at *
      generalize toNat w xs = X at *
      generalize toNat w ys = Y at *
      grind

theorem addN_spec {w} {a b : Limbs} {c : Nat} (hw : 1 ≤ w) (ha : WF w a) (hb : WF w b)
    (hl : a.length = b.length) (hc : c ≤ 1) :
    toNat w (addN w a b c).1 + (addN w a b c).2 * 2^(w * a.length) = toNat w a + toNat w b + c
    ∧ (addN w a b c).2 ≤ 1 ∧ WF w (addN w a b c).1 ∧ (addN w a b c).1.length = a.length := by
  have : 2^1 ≤ 2^w := Nat.pow_le_pow_right (by decide) hw
  obtain ⟨h1, h2, _, h4, h5⟩ := addN_spec' ha hb hl hc (by omega)
  exact ⟨h1, h2, h4, h5⟩

theorem sub_step {B u v bi : Nat} (hu : u < B) (hv : v < B) (hbi : bi ≤ 1) (hbB : bi = 1 → 2 ≤ B) :
    ∃ bo : Nat, bo ≤ 1 ∧ (bo = 1 → 2 ≤ B) ∧
      ((u + B * B - v - bi) % (B * B) / B % B != 0) = (bo == 1) ∧
      (u + B * B - v - bi) % (B * B) % B + v + bi = u + bo * B := by
  have hBB : B ≤ B * B := Nat.le_mul_of_pos_left B (by omega)
  by_cases h : v + bi ≤ u
  · refine ⟨0, by omega, by omega, ?_, ?_⟩
    all_goals
      generalize B * B = Q at *
      have e : u + Q - v - bi = (u - v - bi) + Q := by omega
      have l1 : u - v - bi < Q := by omega
      have l2 : u - v - bi < B := by omega
      rw [e, Nat.add_mod_right, Nat.mod_eq_of_lt l1]
    · rw [Nat.div_eq_of_lt l2]; simp
    · rw [Nat.mod_eq_of_lt l2]; omega
  · have hB2 : 2 ≤ B := by
      by_cases hb : bi = 1
      · exact hbB hb
      · omega
    obtain ⟨k, rfl⟩ : ∃ k, B = k + 1 := ⟨B - 1, by omega⟩
    have e1 : (k + 1) * (k + 1) = (k + 1) * k + (k + 1) := Nat.mul_succ _ _
    have hr : u + (k + 1) - v - bi < k + 1 := by omega
    have hdiv : ((k + 1) * k + (u + (k + 1) - v - bi)) / (k + 1) = k := by
      rw [Nat.mul_add_div (by omega), Nat.div_eq_of_lt hr, Nat.add_zero]
    have hmod : ((k + 1) * k + (u + (k + 1) - v - bi)) % (k + 1) = u + (k + 1) - v - bi := by
      rw [Nat.mul_add_mod, Nat.mod_eq_of_lt hr]
    rw [e1]
    generalize (k + 1) * k = M at *
    have e : u + (M + (k + 1)) - v - bi = M + (u + (k + 1) - v - bi) := by omega
    have l1 : M + (u + (k + 1) - v - bi) < M + (k + 1) := by omega
    refine ⟨1, by omega, fun _ => hB2, ?_, ?_⟩
    · rw [e, Nat.mod_eq_of_lt l1, hdiv, Nat.mod_eq_of_lt (by omega)]
      simp; omega
    · rw [e, Nat.mod_eq_of_lt l1, hmod]
      omega

theorem subN_spec' {w} {a b : Limbs} {bin : Bool} (ha : WF w a) (hb : WF w b)
    (hl : a.length = b.length) (hw : bin = true → 1 ≤ w) :
    toNat w (subN w a b bin).1 + toNat w b + (if bin then 1 else 0)
      = toNat w a + (if (subN w a b bin).2 then 1 else 0) * 2^(w * a.length)
    ∧ WF w (subN w a b bin).1 ∧ (subN w a b bin).1.length = a.length := by
  induction a generalizing b bin with
  | nil =>
    cases b with
    | nil => cases bin <;> simp [subN, toNat, WF_nil]
    | cons y ys => simp at hl
  | cons x xs ih =>
    cases b with
    | nil => simp at hl
    | cons y ys =>
      obtain ⟨hx, hxs⟩ := WF_cons.mp ha
      obtain ⟨hy, hys⟩ := WF_cons.mp hb
      simp only [List.length_cons, Nat.add_right_cancel_iff] at hl
      have hbi : (if bin then 1 else 0) ≤ 1 := by cases bin <;> simp
      have hbB : (if bin then 1 else 0) = 1 → 2 ≤ 2^w := by
        intro h
        have : bin = true := by cases bin <;> simp_all
        have : 2^1 ≤ 2^w := Nat.pow_le_pow_right (by decide) (hw this)
        omega
      obtain ⟨bo, s1, s2, s3, s4⟩ := sub_step hx hy hbi hbB
      simp only [subN, dbl, hi, lo, toNat, List.length_cons, pow_succ_len, two_pow_two_mul]
      rw [s3]
      have hw' : (bo == 1) = true → 1 ≤ w := by
        intro h
        have : 2 ≤ 2^w := s2 (by simpa using h)
        cases w with
        | zero => simp at this
        | succ n => omega
      obtain ⟨i1, i2, i3⟩ := ih (bin := (bo == 1)) hxs hys hl hw'
      refine ⟨?_, WF_cons.mpr ⟨Nat.mod_lt _ (Nat.two_pow_pos w), i2⟩, by simp [i3]⟩
      have hbo : (if (bo == 1) = true then 1 else 0) = bo := by
        by_cases h : bo = 1
        · simp [h]
        · have : bo = 0 := by omega
          simp [this]
      rw [hbo] at i1
      generalize (subN w xs ys (bo == 1)) = r at *
      generalize (if r.2 = true then 1 else 0) = ro at *
      generalize (if bin = true then 1 else 0) = bi at *
      generalize 2^w = B at *
      generalize 2^(w * xs.length) = P at *
      generalize (x + B * B - y - bi) % (B * B) % B = m at *
      generalize toNat w r.1 = R at *
      generalize toNat w xs = X at *
      generalize toNat w ys = Y at *
      grind

theorem subN_spec {w} {a b : Limbs} {bin : Bool} (hw : 1 ≤ w) (ha : WF w a) (hb : WF w b)
    (hl : a.length = b.length) :
    toNat w (subN w a b bin).1 + toNat w b + (if bin then 1 else 0)
      = toNat w a + (if (subN w a b bin).2 then 1 else 0) * 2^(w * a.length)
    ∧ WF w (subN w a b bin).1 ∧ (subN w a b bin).1.length = a.length :=
  subN_spec' ha hb hl (fun _ => hw)

theorem WF_zeros (w n) : WF w (zeros n) := by
  intro x hx
  have := List.eq_of_mem_replicate hx
  subst this
  exact Nat.two_pow_pos w

theorem mul_step {B a b c : Nat} (ha : a < B) (hb : b < B) (hc : c < B) :
    a * b < B * B ∧ c + a * b < B * B ∧ (c + a * b) / B < B := by
  obtain ⟨k, rfl⟩ : ∃ k, B = k + 1 := ⟨B - 1, by omega⟩
  have h1 : a * b ≤ k * k := Nat.mul_le_mul (by omega) (by omega)
  have h2 : (k + 1) * (k + 1) = k * k + 2 * k + 1 := by grind
  have h3 : c + a * b < (k + 1) * (k + 1) := by omega
  exact ⟨by omega, h3, Nat.div_lt_of_lt_mul h3⟩

theorem mul1dLoop_spec {w} {a : Limbs} {b c : Nat} (ha : WF w a) (hb : b < 2^w) (hc : c < 2^w) :
    toNat w (mul1dLoop w b a c).1 + (mul1dLoop w b a c).2 * 2^(w * a.length) = toNat w a * b + c
    ∧ (mul1dLoop w b a c).2 < 2^w ∧ WF w (mul1dLoop w b a c).1
    ∧ (mul1dLoop w b a c).1.length = a.length := by
  induction a generalizing c with
  | nil => simp [mul1dLoop, toNat, hc, WF_nil]
  | cons x xs ih =>
    obtain ⟨hx, hxs⟩ := WF_cons.mp ha
    obtain ⟨s1, s2, s3⟩ := mul_step hx hb hc
    have hd1 : dbl w (x * b) = x * b := by
      unfold dbl; rw [two_pow_two_mul]; exact Nat.mod_eq_of_lt s1
    have hd : dbl w (c + x * b) = c + x * b := by
      unfold dbl; rw [two_pow_two_mul]; exact Nat.mod_eq_of_lt s2
    have hh : hi w (c + x * b) = (c + x * b) / 2^w := by
      unfold hi; exact Nat.mod_eq_of_lt s3
    simp only [mul1dLoop, hd1, hd, hh, lo, toNat, List.length_cons, pow_succ_len]
    obtain ⟨i1, i2, i3, i4⟩ := ih hxs s3
    refine ⟨?_, i2, WF_cons.mpr ⟨Nat.mod_lt _ (Nat.two_pow_pos w), i3⟩, by simp [i4]⟩
    have hdm := Nat.mod_add_div (c + x * b) (2^w)
    generalize (mul1dLoop w b xs ((c + x * b) / 2 ^ w)) = r at *
    generalize 2^w = B at *
    generalize 2^(w * xs.length) = P at *
    generalize (c + x * b) / B = q at *
    generalize (c + x * b) % B = m at *
    generalize toNat w r.1 = R at *
    generalize toNat w xs = X at *
    grind

theorem mul1d_spec {w} {a : Limbs} {b : Nat} (ha : WF w a) (hb : b < 2^w) :
    toNat w (mul1d w a b).1 + (mul1d w a b).2 * 2^(w * a.length) = toNat w a * b
    ∧ (mul1d w a b).2 < 2^w ∧ WF w (mul1d w a b).1 ∧ (mul1d w a b).1.length = a.length := by
  by_cases h0 : b = 0
  · subst h0
    simp only [mul1d, if_true]
    refine ⟨by simp [toNat_zeros], Nat.two_pow_pos w, WF_zeros _ _, by simp [zeros]⟩
  · obtain ⟨i1, i2, i3, i4⟩ := mul1dLoop_spec (c := 0) ha hb (Nat.two_pow_pos w)
    simp only [mul1d, h0, if_false, lo, Nat.mod_eq_of_lt i2]
    exact ⟨by simpa using i1, i2, i3, i4⟩

theorem preinc_spec {w} {a : Limbs} (ha : WF w a) :
    toNat w (preinc w a) = (toNat w a + 1) % 2^(w * a.length) ∧ WF w (preinc w a)
    ∧ (preinc w a).length = a.length := by
  induction a with
  | nil => simp [preinc, toNat, WF_nil]
  | cons x xs ih =>
    obtain ⟨hx, hxs⟩ := WF_cons.mp ha
    obtain ⟨i1, i2, i3⟩ := ih hxs
    have hT := toNat_lt hxs
    have hB := Nat.two_pow_pos w
    simp only [preinc, List.length_cons, pow_succ_len]
    by_cases h : (x + 1) % 2^w = 0
    · simp only [h, if_true, toNat, i1, List.length_cons]
      refine ⟨?_, WF_cons.mpr ⟨hB, i2⟩, by simp [i3]⟩
      have hx1 : x + 1 = 2^w := by
        by_cases hlt : x + 1 < 2^w
        · rw [Nat.mod_eq_of_lt hlt] at h; omega
        · omega
      have : x + 2^w * toNat w xs + 1 = 2^w * (toNat w xs + 1) := by
        rw [Nat.mul_add]; omega
      rw [this, Nat.mul_mod_mul_left]; omega
    · simp only [h, if_false, toNat]
      have hx1 : x + 1 < 2^w := by
        by_cases hlt : x + 1 < 2^w
        · exact hlt
        · have : x + 1 = 2^w := by omega
          rw [this, Nat.mod_self] at h; exact absurd rfl h
      rw [Nat.mod_eq_of_lt hx1]
      refine ⟨?_, WF_cons.mpr ⟨hx1, hxs⟩, by simp⟩
      have : 2^w * (toNat w xs + 1) ≤ 2^w * 2^(w * xs.length) := Nat.mul_le_mul_left _ hT
      rw [Nat.mul_add] at this
      rw [Nat.mod_eq_of_lt (by omega)]
      omega

theorem predec_spec {w} {a : Limbs} (ha : WF w a) :
    toNat w (predec w a) = (toNat w a + 2^(w * a.length) - 1) % 2^(w * a.length) ∧ WF w (predec w a)
    ∧ (predec w a).length = a.length := by
  induction a with
  | nil => simp [predec, toNat, WF_nil]
  | cons x xs ih =>
    obtain ⟨hx, hxs⟩ := WF_cons.mp ha
    obtain ⟨i1, i2, i3⟩ := ih hxs
    have hT := toNat_lt hxs
    have hB := Nat.two_pow_pos w
    have hP := Nat.two_pow_pos (w * xs.length)
    simp only [predec, List.length_cons, pow_succ_len]
    by_cases h0 : x = 0
    · have hy : (x + 2^w - 1) % 2^w = 2^w - 1 := by
        rw [h0, Nat.zero_add]; exact Nat.mod_eq_of_lt (by omega)
      simp only [hy, if_true, toNat, i1]
      refine ⟨?_, WF_cons.mpr ⟨by omega, i2⟩, by simp [i3]⟩
      subst h0
      simp only [Nat.zero_add]
      generalize 2^w = B at *
      generalize 2^(w * xs.length) = P at *
      generalize toNat w xs = T at *
      by_cases hT0 : T = 0
      · subst hT0
        simp only [Nat.mul_zero, Nat.zero_add]
        have hBP : 1 ≤ B * P := Nat.mul_pos hB hP
        rw [Nat.mod_eq_of_lt (by omega), Nat.mod_eq_of_lt (by omega)]
        obtain ⟨p, rfl⟩ : ∃ p, P = p + 1 := ⟨P - 1, by omega⟩
        rw [Nat.mul_succ]; simp only [Nat.add_sub_cancel]; omega
      · obtain ⟨t, rfl⟩ : ∃ t, T = t + 1 := ⟨T - 1, by omega⟩
        have e1 : t + 1 + P - 1 = t + P := by omega
        have hle : B * (t + 1 + 1) ≤ B * P := Nat.mul_le_mul_left _ hT
        rw [e1, Nat.add_mod_right, Nat.mod_eq_of_lt (by omega)]
        simp only [Nat.mul_add, Nat.mul_one] at hle ⊢
        have e2 : B * t + B + B * P - 1 = (B * t + B - 1) + B * P := by omega
        rw [e2, Nat.add_mod_right, Nat.mod_eq_of_lt (by omega)]
        omega
    · have hy : (x + 2^w - 1) % 2^w = x - 1 := by
        have : x + 2^w - 1 = (x - 1) + 2^w := by omega
        rw [this, Nat.add_mod_right, Nat.mod_eq_of_lt (by omega)]
      have hne : ¬ (x - 1 = 2^w - 1) := by omega
      simp only [hy, hne, if_false, toNat]
      refine ⟨?_, WF_cons.mpr ⟨by omega, hxs⟩, by simp⟩
      have hle : 2^w * (toNat w xs + 1) ≤ 2^w * 2^(w * xs.length) := Nat.mul_le_mul_left _ hT
      rw [Nat.mul_add] at hle
      generalize 2^w * 2^(w * xs.length) = Q at *
      generalize 2^w * toNat w xs = BT at *
      have e2 : x + BT + Q - 1 = (x - 1 + BT) + Q := by omega
      rw [e2, Nat.add_mod_right, Nat.mod_eq_of_lt (by omega)]

theorem bitNot_spec {w} {a : Limbs} (ha : WF w a) :
    toNat w (bitNot w a) = 2^(w * a.length) - 1 - toNat w a ∧ WF w (bitNot w a)
    ∧ (bitNot w a).length = a.length := by
  induction a with
  | nil => simp [bitNot, toNat, WF_nil]
  | cons x xs ih =>
    obtain ⟨hx, hxs⟩ := WF_cons.mp ha
    obtain ⟨i1, i2, i3⟩ := ih hxs
    have hT := toNat_lt hxs
    have hB := Nat.two_pow_pos w
    unfold bitNot at i1 i2 i3 ⊢
    simp only [List.map_cons, toNat, List.length_cons, pow_succ_len, i1, Nat.mod_eq_of_lt hx]
    refine ⟨?_, WF_cons.mpr ⟨by omega, i2⟩, by simp⟩
    generalize 2^w = B at *
    generalize 2^(w * xs.length) = P at *
    generalize toNat w xs = T at *
    obtain ⟨k, rfl⟩ : ∃ k, P = T + 1 + k := ⟨P - 1 - T, by omega⟩
    have : T + 1 + k - 1 - T = k := by omega
    rw [this]
    simp only [Nat.mul_add, Nat.mul_one]
    omega

theorem negate_spec {w} {a : Limbs} (ha : WF w a) :
    toNat w (negate w a) = (2^(w * a.length) - toNat w a) % 2^(w * a.length) ∧ WF w (negate w a)
    ∧ (negate w a).length = a.length := by
  obtain ⟨n1, n2, n3⟩ := bitNot_spec ha
  obtain ⟨p1, p2, p3⟩ := preinc_spec n2
  have hT := toNat_lt ha
  unfold negate
  refine ⟨?_, p2, by rw [p3, n3]⟩
  rw [p1, n1, n3]
  congr 1
  omega

theorem cmp_step {B x y X Y : Nat} (hx : x < B) (hy : y < B) :
    (if (if X < Y then (-1 : Int) else if X = Y then 0 else 1) ≠ 0 then
        (if X < Y then (-1 : Int) else if X = Y then 0 else 1)
      else if x = y then 0 else if x > y then 1 else -1)
    = if x + B * X < y + B * Y then -1 else if x + B * X = y + B * Y then 0 else 1 := by
  by_cases h1 : X < Y
  · have : B * (X + 1) ≤ B * Y := Nat.mul_le_mul_left _ h1
    rw [Nat.mul_add] at this
    have h2 : x + B * X < y + B * Y := by omega
    simp [h1, h2]
  · by_cases h2 : X = Y
    · subst h2
      simp only [Nat.lt_irrefl, if_false, if_true, Nat.add_lt_add_iff_right, Nat.add_right_cancel_iff]
      by_cases h3 : x < y
      · have : ¬ x = y := by omega
        have : ¬ x > y := by omega
        simp [*]
      · by_cases h4 : x = y
        · simp [h4]
        · have : x > y := by omega
          simp [*]
    · have h3 : Y < X := by omega
      have : B * (Y + 1) ≤ B * X := Nat.mul_le_mul_left _ h3
      rw [Nat.mul_add] at this
      have h4 : ¬ (x + B * X < y + B * Y) := by omega
      have h5 : ¬ (x + B * X = y + B * Y) := by omega
      simp [h1, h2, h4, h5]

theorem cmpRanges_spec {w} {a b : Limbs} (ha : WF w a) (hb : WF w b) (hl : a.length = b.length) :
    cmpRanges a b = (if toNat w a < toNat w b then -1 else if toNat w a = toNat w b then 0 else 1) := by
  induction a generalizing b with
  | nil =>
    cases b with
    | nil => simp [cmpRanges, toNat]
    | cons y ys => simp at hl
  | cons x xs ih =>
    cases b with
    | nil => simp at hl
    | cons y ys =>
      obtain ⟨hx, hxs⟩ := WF_cons.mp ha
      obtain ⟨hy, hys⟩ := WF_cons.mp hb
      simp only [List.length_cons, Nat.add_right_cancel_iff] at hl
      replace ih := ih hxs hys hl
      simp only [cmpRanges, toNat, ih]
      exact cmp_step hx hy

theorem isZero_spec {w} {a : Limbs} : isZero a = true ↔ toNat w a = 0 := by
  induction a with
  | nil => simp [isZero, toNat]
  | cons x xs ih =>
    unfold isZero at ih ⊢
    have hB := Nat.two_pow_pos w
    simp only [List.all_cons, Bool.and_eq_true, ih, toNat, beq_iff_eq]
    constructor
    · intro ⟨h1, h2⟩; simp [h1, h2]
    · intro h
      have h1 : x = 0 := by omega
      have h2 : 2^w * toNat w xs = 0 := by omega
      refine ⟨h1, ?_⟩
      cases Nat.mul_eq_zero.mp h2 with
      | inl h => omega
      | inr h => exact h

theorem limb_div {w x X : Nat} (hx : x < 2^w) : (x + 2^w * X) / 2^w = X := by
  rw [Nat.add_comm, Nat.mul_add_div (Nat.two_pow_pos w), Nat.div_eq_of_lt hx, Nat.add_zero]

theorem limb_mod {w x X : Nat} (hx : x < 2^w) : (x + 2^w * X) % 2^w = x := by
  rw [Nat.add_mul_mod_self_left, Nat.mod_eq_of_lt hx]

theorem and_limb {w x y X Y : Nat} (hx : x < 2^w) (hy : y < 2^w) :
    (x + 2^w * X) &&& (y + 2^w * Y) = (x &&& y) + 2^w * (X &&& Y) := by
  rw [← Nat.mod_add_div ((x + 2^w * X) &&& (y + 2^w * Y)) (2^w),
    Nat.and_mod_two_pow, Nat.and_div_two_pow, limb_div hx, limb_div hy, limb_mod hx, limb_mod hy]

theorem or_limb {w x y X Y : Nat} (hx : x < 2^w) (hy : y < 2^w) :
    (x + 2^w * X) ||| (y + 2^w * Y) = (x ||| y) + 2^w * (X ||| Y) := by
  rw [← Nat.mod_add_div ((x + 2^w * X) ||| (y + 2^w * Y)) (2^w),
    Nat.or_mod_two_pow, Nat.or_div_two_pow, limb_div hx, limb_div hy, limb_mod hx, limb_mod hy]

theorem xor_limb {w x y X Y : Nat} (hx : x < 2^w) (hy : y < 2^w) :
    (x + 2^w * X) ^^^ (y + 2^w * Y) = (x ^^^ y) + 2^w * (X ^^^ Y) := by
  rw [← Nat.mod_add_div ((x + 2^w * X) ^^^ (y + 2^w * Y)) (2^w),
    Nat.xor_mod_two_pow, Nat.xor_div_two_pow, limb_div hx, limb_div hy, limb_mod hx, limb_mod hy]

theorem bitAnd_spec {w} {a b : Limbs} (ha : WF w a) (hb : WF w b) (hl : a.length = b.length) :
    toNat w (bitAnd a b) = toNat w a &&& toNat w b ∧ WF w (bitAnd a b)
    ∧ (bitAnd a b).length = a.length := by
  induction a generalizing b with
  | nil =>
    cases b with
    | nil => simp [bitAnd, toNat, WF_nil]
    | cons y ys => simp at hl
  | cons x xs ih =>
    cases b with
    | nil => simp at hl
    | cons y ys =>
      obtain ⟨hx, hxs⟩ := WF_cons.mp ha
      obtain ⟨hy, hys⟩ := WF_cons.mp hb
      simp only [List.length_cons, Nat.add_right_cancel_iff] at hl
      obtain ⟨i1, i2, i3⟩ := ih hxs hys hl
      unfold bitAnd at i1 i2 i3 ⊢
      simp only [List.zipWith_cons_cons, toNat, i1, and_limb hx hy, List.length_cons, i3]
      exact ⟨trivial, WF_cons.mpr ⟨Nat.and_lt_two_pow _ hy, i2⟩, trivial⟩

theorem bitOr_spec {w} {a b : Limbs} (ha : WF w a) (hb : WF w b) (hl : a.length = b.length) :
    toNat w (bitOr a b) = toNat w a ||| toNat w b ∧ WF w (bitOr a b)
    ∧ (bitOr a b).length = a.length := by
  induction a generalizing b with
  | nil =>
    cases b with
    | nil => simp [bitOr, toNat, WF_nil]
    | cons y ys => simp at hl
  | cons x xs ih =>
    cases b with
    | nil => simp at hl
    | cons y ys =>
      obtain ⟨hx, hxs⟩ := WF_cons.mp ha
      obtain ⟨hy, hys⟩ := WF_cons.mp hb
      simp only [List.length_cons, Nat.add_right_cancel_iff] at hl
      obtain ⟨i1, i2, i3⟩ := ih hxs hys hl
      unfold bitOr at i1 i2 i3 ⊢
      simp only [List.zipWith_cons_cons, toNat, i1, or_limb hx hy, List.length_cons, i3]
      exact ⟨trivial, WF_cons.mpr ⟨Nat.or_lt_two_pow hx hy, i2⟩, trivial⟩

theorem bitXor_spec {w} {a b : Limbs} (ha : WF w a) (hb : WF w b) (hl : a.length = b.length) :
    toNat w (bitXor a b) = toNat w a ^^^ toNat w b ∧ WF w (bitXor a b)
    ∧ (bitXor a b).length = a.length := by
  induction a generalizing b with
  | nil =>
    cases b with
    | nil => simp [bitXor, toNat, WF_nil]
    | cons y ys => simp at hl
  | cons x xs ih =>
    cases b with
    | nil => simp at hl
    | cons y ys =>
      obtain ⟨hx, hxs⟩ := WF_cons.mp ha
      obtain ⟨hy, hys⟩ := WF_cons.mp hb
      simp only [List.length_cons, Nat.add_right_cancel_iff] at hl
      obtain ⟨i1, i2, i3⟩ := ih hxs hys hl
      unfold bitXor at i1 i2 i3 ⊢
      simp only [List.zipWith_cons_cons, toNat, i1, xor_limb hx hy, List.length_cons, i3]
      exact ⟨trivial, WF_cons.mpr ⟨Nat.xor_lt_two_pow hx hy, i2⟩, trivial⟩

theorem topBit_limb {w x : Nat} (hw : 1 ≤ w) (hx : x < 2^w) :
    (x / 2^(w - 1) % 2 == 1) = decide (x ≥ 2^(w - 1)) := by
  have hB : 2^w = 2^(w - 1) * 2 := by
    rw [← Nat.pow_succ]; congr 1; omega
  have hH := Nat.two_pow_pos (w - 1)
  generalize 2^(w - 1) = H at *
  rw [hB] at hx
  by_cases h : x < H
  · rw [Nat.div_eq_of_lt h]
    have : ¬ x ≥ H := by omega
    simp [this]
  · have e : x = (x - H) + H := by omega
    have : x ≥ H := by omega
    rw [e, Nat.add_div_right _ hH, Nat.div_eq_of_lt (by omega)]
    simp

theorem topBit_cons {w x} {xs : Limbs} (hw : 1 ≤ w) (ha : WF w (x :: xs)) :
    (topLimb (x :: xs) / 2^(w - 1) % 2 == 1)
      = decide (toNat w (x :: xs) ≥ 2^(w * (x :: xs).length - 1)) := by
  induction xs generalizing x with
  | nil =>
    obtain ⟨hx, _⟩ := WF_cons.mp ha
    simp only [topLimb, toNat, List.length_cons, List.length_nil, Nat.mul_zero, Nat.add_zero,
      Nat.zero_add, Nat.mul_one]
    exact topBit_limb hw hx
  | cons y ys ih =>
    obtain ⟨hx, hys⟩ := WF_cons.mp ha
    have e : topLimb (x :: y :: ys) = topLimb (y :: ys) := by simp [topLimb]
    rw [e, ih hys, decide_eq_decide]
    have hn : 1 ≤ w * (y :: ys).length := by
      simp only [List.length_cons]
      exact Nat.mul_pos hw (Nat.succ_pos _)
    have hp : 2^(w * (x :: y :: ys).length - 1) = 2^w * 2^(w * (y :: ys).length - 1) := by
      rw [← Nat.pow_add]; congr 1
      simp only [List.length_cons, Nat.mul_succ] at hn ⊢
      omega
    rw [hp]
    show _ ↔ x + 2^w * toNat w (y :: ys) ≥ _
    generalize toNat w (y :: ys) = T
    generalize 2^(w * (y :: ys).length - 1) = K
    generalize 2^w = B at *
    constructor
    · intro h
      have : B * K ≤ B * T := Nat.mul_le_mul_left _ h
      omega
    · intro h
      by_cases h' : T ≥ K
      · exact h'
      · have : B * (T + 1) ≤ B * K := Nat.mul_le_mul_left _ (by omega)
        rw [Nat.mul_add] at this
        omega

theorem topBit_spec {w} {a : Limbs} (hw : 1 ≤ w) (ha : WF w a) (hne : a ≠ []) :
    (topLimb a / 2^(w - 1) % 2 == 1) = decide (toNat w a ≥ 2^(w * a.length - 1)) := by
  cases a with
  | nil => exact absurd rfl hne
  | cons x xs => exact topBit_cons hw ha


end Cnl.Wide.Basic

/-! ## Mul: schoolbook low-part product, the unrolled four-limb product -/
namespace Cnl.Wide.Mul

theorem WF_cons {w x xs} : WF w (x :: xs) ↔ x < 2^w ∧ WF w xs := by
  simp [WF]

theorem WF_nil {w} : WF w [] := by simp [WF]

theorem pow_succ_mul (w n : Nat) : 2^(w*(n+1)) = 2^w * 2^(w*n) := by
  rw [Nat.mul_succ, Nat.pow_add, Nat.mul_comm]

theorem toNat_lt {w a} (h : WF w a) : toNat w a < 2^(w * a.length) := by
  induction a with
  | nil => simp [toNat]
  | cons x xs ih =>
    rw [WF_cons] at h
    have h2 := ih h.2
    have h1 := h.1
    simp only [toNat, List.length_cons, pow_succ_mul]
    generalize 2^w = B at *
    generalize 2^(w*xs.length) = M at *
    generalize toNat w xs = t at *
    have : B * (t+1) ≤ B * M := Nat.mul_le_mul_left _ h2
    rw [Nat.mul_add] at this; omega

theorem mod_step {B M x y : Nat} (l : Nat) (h : x % M = y % M) :
    (l + B * x) % (B * M) = (l + B * y) % (B * M) := by
  rw [Nat.add_mod, Nat.mul_mod_mul_left, h, ← Nat.mul_mod_mul_left, ← Nat.add_mod]

theorem mul_add_add_lt {B a b c d : Nat} (ha : a < B) (hb : b < B) (hc : c < B) (hd : d < B) :
    c + a * b + d < B * B := by
  cases B with
  | zero => omega
  | succ n =>
    have h : a * b ≤ n * n := Nat.mul_le_mul (by omega) (by omega)
    have : (n+1)*(n+1) = n*n + 2*n + 1 := by
      simp [Nat.mul_add, Nat.add_mul]; omega
    omega

theorem pow_two_mul (w : Nat) : 2^(2*w) = 2^w * 2^w := by
  rw [Nat.two_mul, Nat.pow_add]

/-- one row: r += ai * b on the limbs r still has (|b| ≥ |r|), modulo B^|r| -/
theorem mulRow_spec {w ai} {b r : Limbs} {c : Nat} (hai : ai < 2^w) (hb : WF w b) (hr : WF w r) (hc : c < 2^w) (hl : r.length ≤ b.length) :
    toNat w (mulRow w ai b r c) % 2^(w * r.length) = (toNat w r + ai * toNat w b + c) % 2^(w * r.length)
    ∧ WF w (mulRow w ai b r c) ∧ (mulRow w ai b r c).length = r.length := by
  induction r generalizing b c with
  | nil =>
    have : mulRow w ai b [] c = [] := by cases b <;> simp [mulRow]
    simp [this, WF_nil, Nat.mod_one]
  | cons rk rs ih =>
    match b, hb, hl with
    | [], _, hl => simp at hl
    | bj :: bs, hb, hl =>
      rw [WF_cons] at hb hr
      have hl' : rs.length ≤ bs.length := by simpa using hl
      have hlt := mul_add_add_lt hai hb.1 hc hr.1
      have hBpos : 0 < 2^w := Nat.two_pow_pos w
      have h1 : dbl w (ai * bj) = ai * bj := by
        unfold dbl; rw [pow_two_mul]; apply Nat.mod_eq_of_lt; omega
      have h2 : dbl w (c + ai * bj) = c + ai * bj := by
        unfold dbl; rw [pow_two_mul]; apply Nat.mod_eq_of_lt; omega
      have h3 : dbl w (c + ai * bj + rk) = c + ai * bj + rk := by
        unfold dbl; rw [pow_two_mul]; apply Nat.mod_eq_of_lt; omega
      have hhi : hi w (c + ai * bj + rk) = (c + ai * bj + rk) / 2^w := by
        unfold hi; apply Nat.mod_eq_of_lt
        rw [Nat.div_lt_iff_lt_mul hBpos]; exact hlt
      have hhilt : hi w (c + ai * bj + rk) < 2^w := Nat.mod_lt _ hBpos
      have hlolt : lo w (c + ai * bj + rk) < 2^w := Nat.mod_lt _ hBpos
      have hsplit : lo w (c + ai * bj + rk) + 2^w * hi w (c + ai * bj + rk) = c + ai * bj + rk := by
        rw [hhi]; unfold lo; rw [Nat.add_comm]; exact Nat.div_add_mod _ _
      have IH := ih (b := bs) (c := hi w (c + ai * bj + rk)) hb.2 hr.2 hhilt hl'
      simp only [mulRow, h1, h2, h3]
      refine ⟨?_, ?_, ?_⟩
      · simp only [toNat, List.length_cons, pow_succ_mul]
        rw [mod_step _ IH.1]
        congr 1
        generalize hi w (c + ai * bj + rk) = H at *
        generalize lo w (c + ai * bj + rk) = L at *
        simp only [Nat.mul_add]
        rw [Nat.mul_left_comm ai (2^w)]
        generalize 2^w * toNat w rs = X
        generalize 2^w * (ai * toNat w bs) = Y
        generalize ai * bj = P at *
        omega
      · rw [WF_cons]; exact ⟨hlolt, IH.2.1⟩
      · simp [IH.2.2]

theorem mulLoAux_spec {w} {a b r : Limbs} (ha : WF w a) (hb : WF w b) (hr : WF w r) (hl : r.length ≤ b.length) (hla : r.length ≤ a.length) :
    toNat w (mulLoAux w a b r) % 2^(w * r.length) = (toNat w r + toNat w a * toNat w b) % 2^(w * r.length)
    ∧ WF w (mulLoAux w a b r) ∧ (mulLoAux w a b r).length = r.length := by
  induction a generalizing r with
  | nil =>
    have : r = [] := by cases r with
      | nil => rfl
      | cons _ _ => simp at hla
    subst this
    simp [mulLoAux, WF_nil, Nat.mod_one]
  | cons ai as ih =>
    rw [WF_cons] at ha
    have hrowspec : toNat w (if ai ≠ 0 then mulRow w ai b r 0 else r) % 2^(w * r.length)
          = (toNat w r + ai * toNat w b) % 2^(w * r.length)
        ∧ WF w (if ai ≠ 0 then mulRow w ai b r 0 else r)
        ∧ (if ai ≠ 0 then mulRow w ai b r 0 else r).length = r.length := by
      by_cases h0 : ai = 0
      · simp [h0, hr]
      · simp only [ne_eq, h0, not_false_eq_true, if_true]
        have := mulRow_spec (c := 0) ha.1 hb hr (Nat.two_pow_pos w) hl
        simpa using this
    rw [mulLoAux]
    generalize (if ai ≠ 0 then mulRow w ai b r 0 else r) = row at hrowspec ⊢
    obtain ⟨hv, hwf, hlen⟩ := hrowspec
    match row, hv, hwf, hlen with
    | [], hv, hwf, hlen =>
      simp only [List.length_nil] at hlen
      simp [← hlen, WF_nil, Nat.mod_one]
    | r0 :: rt, hv, hwf, hlen =>
      simp only [List.length_cons] at hlen
      rw [WF_cons] at hwf
      have IH := ih (r := rt) ha.2 hwf.2 (by omega) (by simp at hla; omega)
      refine ⟨?_, ?_, ?_⟩
      · simp only [toNat] at hv ⊢
        rw [← hlen, pow_succ_mul] at hv ⊢
        rw [mod_step _ IH.1]
        have e1 : r0 + 2^w * (toNat w rt + toNat w as * toNat w b)
            = (r0 + 2^w * toNat w rt) + 2^w * (toNat w as * toNat w b) := by
          rw [Nat.mul_add]; omega
        have e2 : toNat w r + (ai + 2^w * toNat w as) * toNat w b
            = (toNat w r + ai * toNat w b) + 2^w * (toNat w as * toNat w b) := by
          rw [Nat.add_mul, Nat.mul_assoc]; omega
        rw [e1, e2, Nat.add_mod, hv, ← Nat.add_mod]
      · rw [WF_cons]; exact ⟨hwf.1, IH.2.1⟩
      · simp [IH.2.2, ← hlen]

theorem toNat_zeros (w n : Nat) : toNat w (zeros n) = 0 := by
  induction n with
  | zero => simp [zeros, toNat]
  | succ n ih =>
    simp only [zeros, List.replicate_succ, toNat] at ih ⊢
    simp [ih]

theorem WF_zeros (w n : Nat) : WF w (zeros n) := by
  intro x hx
  simp [zeros] at hx
  rw [hx.2]; exact Nat.two_pow_pos w

theorem length_zeros (n : Nat) : (zeros n).length = n := by simp [zeros]

theorem mulLo_spec {w} {a b : Limbs} (ha : WF w a) (hb : WF w b) (hl : a.length = b.length) :
    toNat w (mulLo w a b) = (toNat w a * toNat w b) % 2^(w * a.length) ∧ WF w (mulLo w a b) ∧ (mulLo w a b).length = a.length := by
  have h := mulLoAux_spec (r := zeros a.length) ha hb (WF_zeros w _) (by rw [length_zeros]; omega) (by rw [length_zeros]; omega)
  rw [length_zeros, toNat_zeros, Nat.zero_add] at h
  unfold mulLo
  refine ⟨?_, h.2.1, h.2.2⟩
  rw [← h.1]
  symm
  apply Nat.mod_eq_of_lt
  have := toNat_lt h.2.1
  rwa [h.2.2] at this

/-! ### the unrolled four-limb routine -/

theorem expandA (B a0 a1 a2 a3 b0 b1 b2 b3 : Nat) :
  (a0 + B*(a1 + B*(a2 + B*(a3 + B*0)))) * (b0 + B*(b1 + B*(b2 + B*(b3 + B*0))))
    = a0*b0 + B*((a0*b1 + a1*b0) + B*((a0*b2 + a1*b1 + a2*b0) + B*((a0*b3 + a1*b2 + a2*b1 + a3*b0)
        + B*(a1*b3 + a2*b2 + a3*b1 + B*(a2*b3+a3*b2) + B*B*(a3*b3))))) := by
  grind

theorem core4 {B a0 a1 a2 a3 b0 b1 b2 b3 l00 h00 l01 h01 l10 h10 l11 h11 l02 h02 l20 h20 l03 h03 l12 h12 l21 h21 l30 h30 lr1 hr1 lr2 hr2 r3 q3 : Nat}
  (e00 : a0*b0 = l00 + B*h00) (e01 : a0*b1 = l01 + B*h01) (e10 : a1*b0 = l10 + B*h10) (e11 : a1*b1 = l11 + B*h11)
  (e02 : a0*b2 = l02 + B*h02) (e20 : a2*b0 = l20 + B*h20)
  (e03 : a0*b3 = l03 + B*h03) (e12 : a1*b2 = l12 + B*h12) (e21 : a2*b1 = l21 + B*h21) (e30 : a3*b0 = l30 + B*h30)
  (s1 : h00 + l10 + l01 = lr1 + B*hr1)
  (s2 : hr1 + l20 + l11 + l02 + h10 + h01 = lr2 + B*hr2)
  (s3 : hr2 + l30 + l21 + l12 + l03 + h20 + h11 + h02 = r3 + B*q3) :
  (a0 + B*(a1 + B*(a2 + B*(a3 + B*0)))) * (b0 + B*(b1 + B*(b2 + B*(b3 + B*0))))
    = (l00 + B*(lr1 + B*(lr2 + B*(r3 + B*0))))
      + B*B*B*B * (q3 + h03+h12+h21+h30 + (a1*b3 + a2*b2 + a3*b1 + B*(a2*b3+a3*b2) + B*B*(a3*b3))) := by
  rw [expandA, e00, e01, e10, e11, e02, e20, e03, e12, e21, e30]
  generalize (a1*b3 + a2*b2 + a3*b1 + B*(a2*b3+a3*b2) + B*B*(a3*b3)) = K
  have t1 : l00 + B * h00 + B * (l01 + B * h01 + (l10 + B * h10) + B * (l02 + B * h02 + (l11 + B * h11) + (l20 + B * h20) +
      B * (l03 + B * h03 + (l12 + B * h12) + (l21 + B * h21) + (l30 + B * h30) + B * K)))
    = l00 + B * ((h00 + l10 + l01) + B*((l20 + l11 + l02 + h10 + h01) + B*((l30 + l21 + l12 + l03 + h20 + h11 + h02) + B*(h03+h12+h21+h30 + K)))) := by
    grind
  rw [t1, s1]
  have t2 : l00 + B * (lr1 + B * hr1 + B * (l20 + l11 + l02 + h10 + h01 + B * (l30 + l21 + l12 + l03 + h20 + h11 + h02 + B * (h03 + h12 + h21 + h30 + K))))
    = l00 + B * (lr1 + B * ((hr1 + l20 + l11 + l02 + h10 + h01) + B * (l30 + l21 + l12 + l03 + h20 + h11 + h02 + B * (h03 + h12 + h21 + h30 + K)))) := by
    grind
  rw [t2, s2]
  have t3 : l00 + B * (lr1 + B * (lr2 + B * hr2 + B * (l30 + l21 + l12 + l03 + h20 + h11 + h02 + B * (h03 + h12 + h21 + h30 + K))))
    = l00 + B * (lr1 + B * (lr2 + B * ((hr2 + l30 + l21 + l12 + l03 + h20 + h11 + h02) + B * (h03 + h12 + h21 + h30 + K)))) := by
    grind
  rw [t3, s3]
  grind

theorem pow4 (w : Nat) : 2^(w*4) = 2^w * 2^w * 2^w * 2^w := by
  rw [show w * 4 = w + w + w + w by omega]; simp [Nat.pow_add]

/-- a value below `B²` splits into its `lo` and `hi` limbs; `dbl` is the identity on it -/
theorem split_dbl {w x : Nat} (h : x < 2^w * 2^w) :
    x = lo w (dbl w x) + 2^w * hi w (dbl w x) ∧ lo w (dbl w x) < 2^w ∧ hi w (dbl w x) < 2^w := by
  have hB : 0 < 2^w := Nat.two_pow_pos w
  have hd : dbl w x = x := by unfold dbl; rw [pow_two_mul]; exact Nat.mod_eq_of_lt h
  rw [hd]
  have hh : hi w x = x / 2^w := by
    unfold hi; apply Nat.mod_eq_of_lt; rw [Nat.div_lt_iff_lt_mul hB]; exact h
  refine ⟨?_, Nat.mod_lt _ hB, Nat.mod_lt _ hB⟩
  rw [hh]; unfold lo; exact (Nat.mod_add_div _ _).symm

theorem prod_lt {B a b : Nat} (ha : a < B) (hb : b < B) : a * b < B * B := by
  have := mul_add_add_lt ha hb ha hb
  omega

theorem finish4 {w l0 l1 l2 l3 A K : Nat} (h0 : l0 < 2^w) (h1 : l1 < 2^w) (h2 : l2 < 2^w) (h3 : l3 < 2^w)
    (h : A = (l0 + 2^w*(l1 + 2^w*(l2 + 2^w*(l3 + 2^w*0)))) + 2^w*2^w*2^w*2^w*K) :
    toNat w [l0,l1,l2,l3] = A % 2^(w*4) ∧ WF w [l0,l1,l2,l3] ∧ [l0,l1,l2,l3].length = 4 := by
  have hwf : WF w [l0,l1,l2,l3] := by
    simp only [WF_cons]; exact ⟨h0, h1, h2, h3, WF_nil⟩
  refine ⟨?_, hwf, rfl⟩
  have hlt := toNat_lt hwf
  simp only [List.length_cons, List.length_nil] at hlt
  rw [h, pow4, Nat.add_mul_mod_self_left]
  simp only [toNat] at hlt ⊢
  rw [pow4] at hlt
  exact (Nat.mod_eq_of_lt hlt).symm

/-- the column sums of the unrolled routine, on the split products -/
theorem mulLo4_core {w : Nat} (hw : 3 ≤ w)
    {a0 a1 a2 a3 b0 b1 b2 b3 l00 h00 l01 h01 l10 h10 l11 h11 l02 h02 l20 h20 l03 h03 l12 h12 l21 h21 l30 h30 : Nat}
    (e00 : a0*b0 = l00 + 2^w*h00) (e01 : a0*b1 = l01 + 2^w*h01) (e10 : a1*b0 = l10 + 2^w*h10) (e11 : a1*b1 = l11 + 2^w*h11)
    (e02 : a0*b2 = l02 + 2^w*h02) (e20 : a2*b0 = l20 + 2^w*h20)
    (e03 : a0*b3 = l03 + 2^w*h03) (e12 : a1*b2 = l12 + 2^w*h12) (e21 : a2*b1 = l21 + 2^w*h21) (e30 : a3*b0 = l30 + 2^w*h30)
    (b00 : l00 < 2^w) (c00 : h00 < 2^w) (b01 : l01 < 2^w) (c01 : h01 < 2^w) (b10 : l10 < 2^w) (c10 : h10 < 2^w)
    (b11 : l11 < 2^w) (b02 : l02 < 2^w) (b20 : l20 < 2^w) :
    toNat w [l00, lo w (dbl w (h00 + l10 + l01)),
        lo w (dbl w (hi w (dbl w (h00 + l10 + l01)) + l20 + l11 + l02 + h10 + h01)),
        lo w (hi w (dbl w (hi w (dbl w (h00 + l10 + l01)) + l20 + l11 + l02 + h10 + h01))
              + l30 + l21 + l12 + l03 + h20 + h11 + h02)]
      = (toNat w [a0,a1,a2,a3] * toNat w [b0,b1,b2,b3]) % 2^(w*4)
    ∧ WF w [l00, lo w (dbl w (h00 + l10 + l01)),
        lo w (dbl w (hi w (dbl w (h00 + l10 + l01)) + l20 + l11 + l02 + h10 + h01)),
        lo w (hi w (dbl w (hi w (dbl w (h00 + l10 + l01)) + l20 + l11 + l02 + h10 + h01))
              + l30 + l21 + l12 + l03 + h20 + h11 + h02)]
    ∧ [l00, lo w (dbl w (h00 + l10 + l01)),
        lo w (dbl w (hi w (dbl w (h00 + l10 + l01)) + l20 + l11 + l02 + h10 + h01)),
        lo w (hi w (dbl w (hi w (dbl w (h00 + l10 + l01)) + l20 + l11 + l02 + h10 + h01))
              + l30 + l21 + l12 + l03 + h20 + h11 + h02)].length = 4 := by
  have hB : 0 < 2^w := Nat.two_pow_pos w
  have hB8 : 8 ≤ 2^w := by
    have : 2^3 ≤ 2^w := Nat.pow_le_pow_right (by decide) hw
    simpa using this
  have hBB : 8 * 2^w ≤ 2^w * 2^w := Nat.mul_le_mul_right _ hB8
  obtain ⟨s1, lr1lt, hr1lt⟩ := split_dbl (w := w) (x := h00 + l10 + l01) (by omega)
  generalize lo w (dbl w (h00 + l10 + l01)) = lr1 at *
  generalize hi w (dbl w (h00 + l10 + l01)) = hr1 at *
  obtain ⟨s2, lr2lt, hr2lt⟩ := split_dbl (w := w) (x := hr1 + l20 + l11 + l02 + h10 + h01) (by omega)
  generalize lo w (dbl w (hr1 + l20 + l11 + l02 + h10 + h01)) = lr2 at *
  generalize hi w (dbl w (hr1 + l20 + l11 + l02 + h10 + h01)) = hr2 at *
  have s3 : hr2 + l30 + l21 + l12 + l03 + h20 + h11 + h02
      = lo w (hr2 + l30 + l21 + l12 + l03 + h20 + h11 + h02)
        + 2^w * ((hr2 + l30 + l21 + l12 + l03 + h20 + h11 + h02) / 2^w) := by
    unfold lo; exact (Nat.mod_add_div _ _).symm
  have r3lt : lo w (hr2 + l30 + l21 + l12 + l03 + h20 + h11 + h02) < 2^w := Nat.mod_lt _ hB
  generalize lo w (hr2 + l30 + l21 + l12 + l03 + h20 + h11 + h02) = r3 at *
  apply finish4 b00 lr1lt lr2lt r3lt
  simp only [toNat]
  exact core4 e00 e01 e10 e11 e02 e20 e03 e12 e21 e30 s1 s2 s3

/-- the unrolled routine needs 6·(2^w − 1) < 2^(2w), i.e. w ≥ 3 (it is only instantiated for w ∈ {8,16,32,64}) -/
theorem mulLo4_spec {w a0 a1 a2 a3 b0 b1 b2 b3 : Nat} (hw : 3 ≤ w)
    (h0 : a0 < 2^w) (h1 : a1 < 2^w) (h2 : a2 < 2^w) (h3 : a3 < 2^w) (k0 : b0 < 2^w) (k1 : b1 < 2^w) (k2 : b2 < 2^w) (k3 : b3 < 2^w) :
    toNat w (mulLo4 w a0 a1 a2 a3 b0 b1 b2 b3) = (toNat w [a0,a1,a2,a3] * toNat w [b0,b1,b2,b3]) % 2^(w * 4)
    ∧ WF w (mulLo4 w a0 a1 a2 a3 b0 b1 b2 b3) ∧ (mulLo4 w a0 a1 a2 a3 b0 b1 b2 b3).length = 4 := by
  have hB : 0 < 2^w := Nat.two_pow_pos w
  obtain ⟨e00, b00, c00⟩ := split_dbl (prod_lt h0 k0)
  obtain ⟨e01, b01, c01⟩ := split_dbl (prod_lt h0 k1)
  obtain ⟨e10, b10, c10⟩ := split_dbl (prod_lt h1 k0)
  obtain ⟨e11, b11, c11⟩ := split_dbl (prod_lt h1 k1)
  by_cases hz : a2 = 0 ∧ b2 = 0 ∧ a3 = 0 ∧ b3 = 0
  · simp only [mulLo4]
    rw [if_pos hz]
    obtain ⟨rfl, rfl, rfl, rfl⟩ := hz
    have z : ∀ x : Nat, x * 0 = 0 + 2^w * 0 := by intro x; simp
    have z' : ∀ x : Nat, 0 * x = 0 + 2^w * 0 := by intro x; simp
    have := mulLo4_core hw e00 e01 e10 e11 (z a0) (z' b0) (z a0) (z a1) (z' b1) (z' b0)
      b00 c00 b01 c01 b10 c10 b11 hB hB
    simp only [Nat.add_zero] at this
    rw [Nat.add_right_comm _ (hi w (dbl w (a1 * b0))) (hi w (dbl w (a0 * b1)))] at this
    exact this
  · simp only [mulLo4]
    rw [if_neg hz]
    obtain ⟨e02, b02, c02⟩ := split_dbl (prod_lt h0 k2)
    obtain ⟨e20, b20, c20⟩ := split_dbl (prod_lt h2 k0)
    obtain ⟨e03, b03, c03⟩ := split_dbl (prod_lt h0 k3)
    obtain ⟨e12, b12, c12⟩ := split_dbl (prod_lt h1 k2)
    obtain ⟨e21, b21, c21⟩ := split_dbl (prod_lt h2 k1)
    obtain ⟨e30, b30, c30⟩ := split_dbl (prod_lt h3 k0)
    exact mulLo4_core hw e00 e01 e10 e11 e02 e20 e03 e12 e21 e30 b00 c00 b01 c01 b10 c10 b11 b02 b20

theorem mulUnary_spec {w} {a b : Limbs} (ha : WF w a) (hb : WF w b) (hl : a.length = b.length) (hw : 3 ≤ w ∨ a.length ≠ 4) :
    toNat w (mulUnary w a b) = (toNat w a * toNat w b) % 2^(w * a.length) ∧ WF w (mulUnary w a b) ∧ (mulUnary w a b).length = a.length := by
  unfold mulUnary
  split
  · rename_i a0 a1 a2 a3 b0 b1 b2 b3
    simp only [WF_cons] at ha hb
    have hw3 : 3 ≤ w := by
      cases hw with
      | inl h => exact h
      | inr h => simp at h
    exact mulLo4_spec hw3 ha.1 ha.2.1 ha.2.2.1 ha.2.2.2.1 hb.1 hb.2.1 hb.2.2.1 hb.2.2.2.1
  · exact mulLo_spec ha hb hl


end Cnl.Wide.Mul

/-! ## Shift: left shift, logical and arithmetic right shift -/
namespace Cnl.Wide.Shift

/-! ## basic facts on `WF` / `toNat` -/

theorem WF_nil (w : Nat) : WF w [] := by intro x hx; cases hx

theorem WF_cons {w x : Nat} {xs : Limbs} : WF w (x :: xs) ↔ x < 2^w ∧ WF w xs := by
  simp [WF]

theorem WF_append {w : Nat} {a b : Limbs} : WF w (a ++ b) ↔ WF w a ∧ WF w b := by
  simp [WF, or_imp, forall_and]

theorem WF_replicate {w n c : Nat} (hc : c < 2^w) : WF w (List.replicate n c) := by
  intro x hx
  rw [List.mem_replicate] at hx
  omega

theorem WF_zeros (w n : Nat) : WF w (zeros n) :=
  WF_replicate (Nat.two_pow_pos _)

theorem WF_take {w : Nat} {a : Limbs} (k : Nat) (ha : WF w a) : WF w (a.take k) :=
  fun x hx => ha x (List.mem_of_mem_take hx)

theorem WF_drop {w : Nat} {a : Limbs} (k : Nat) (ha : WF w a) : WF w (a.drop k) :=
  fun x hx => ha x (List.mem_of_mem_drop hx)

theorem pow_mul_succ (w n : Nat) : 2^(w * (n+1)) = 2^w * 2^(w*n) := by
  rw [Nat.mul_succ, Nat.pow_add, Nat.mul_comm]

theorem toNat_lt {w : Nat} {a : Limbs} (ha : WF w a) : toNat w a < 2^(w * a.length) := by
  induction a with
  | nil => simp [toNat]
  | cons x xs ih =>
    rw [WF_cons] at ha
    have h1 := ih ha.2
    have h2 := ha.1
    simp only [toNat, List.length_cons, pow_mul_succ]
    generalize 2^(w * xs.length) = M at *
    generalize toNat w xs = T at *
    generalize 2^w = B at *
    have : B * (T + 1) ≤ B * M := Nat.mul_le_mul_left B h1
    rw [Nat.mul_add] at this
    omega

theorem toNat_append (w : Nat) (a b : Limbs) :
    toNat w (a ++ b) = toNat w a + 2^(w * a.length) * toNat w b := by
  induction a with
  | nil => simp [toNat]
  | cons x xs ih =>
    simp only [List.cons_append, toNat, ih, List.length_cons, pow_mul_succ]
    simp only [Nat.mul_add, Nat.mul_assoc, Nat.add_assoc]

theorem toNat_zeros (w n : Nat) : toNat w (zeros n) = 0 := by
  induction n with
  | zero => simp [zeros, toNat]
  | succ n ih =>
    simp only [zeros, List.replicate_succ, toNat] at *
    simp [ih]

theorem toNat_replicate_ones (w n : Nat) : toNat w (List.replicate n (2^w - 1)) = 2^(w*n) - 1 := by
  induction n with
  | zero => simp [toNat]
  | succ n ih =>
    simp only [List.replicate_succ, toNat, ih, pow_mul_succ]
    have h1 : 0 < 2^w := Nat.two_pow_pos _
    have h2 : 0 < 2^(w*n) := Nat.two_pow_pos _
    generalize 2^(w*n) = M at *
    generalize 2^w = B at *
    have : B * (M - 1) = B * M - B := by rw [Nat.mul_sub, Nat.mul_one]
    have : B * 1 ≤ B * M := Nat.mul_le_mul_left B h2
    omega

theorem toNat_take_drop (w : Nat) (a : Limbs) (k : Nat) (hk : k ≤ a.length) :
    toNat w a = toNat w (a.take k) + 2^(w*k) * toNat w (a.drop k) := by
  have h := toNat_append w (a.take k) (a.drop k)
  rw [List.take_append_drop, List.length_take, Nat.min_eq_left hk] at h
  exact h

/-- `(x + B*y) % (B*M) = x + B*(y % M)` for `x < B` -/
theorem add_mul_mod_mul {x B : Nat} (y M : Nat) (hx : x < B) :
    (x + B * y) % (B * M) = x + B * (y % M) := by
  rw [Nat.mod_mul, Nat.add_mul_mod_self_left, Nat.mod_eq_of_lt hx,
    Nat.add_mul_div_left _ _ (by omega : 0 < B), Nat.div_eq_of_lt hx, Nat.zero_add]

theorem toNat_take {w : Nat} {a : Limbs} (k : Nat) (ha : WF w a) (hk : k ≤ a.length) :
    toNat w (a.take k) = toNat w a % 2^(w*k) := by
  have h := toNat_take_drop w a k hk
  have hlt := toNat_lt (WF_take k ha)
  rw [List.length_take, Nat.min_eq_left hk] at hlt
  rw [h, Nat.add_mul_mod_self_left, Nat.mod_eq_of_lt hlt]

theorem toNat_drop {w : Nat} {a : Limbs} (k : Nat) (ha : WF w a) (hk : k ≤ a.length) :
    toNat w (a.drop k) = toNat w a / 2^(w*k) := by
  have h := toNat_take_drop w a k hk
  have hlt := toNat_lt (WF_take k ha)
  rw [List.length_take, Nat.min_eq_left hk] at hlt
  rw [h, Nat.add_mul_div_left _ _ (Nat.two_pow_pos _), Nat.div_eq_of_lt hlt, Nat.zero_add]

/-! ## left shift -/

theorem two_pow_split {s w : Nat} (h : s ≤ w) : 2^w = 2^(w-s) * 2^s := by
  rw [← Nat.pow_add]; congr 1; omega

/-- one limb of `shlBits` -/
theorem shl_limb {w s t prev : Nat} (hsw : s ≤ w) (hp : prev < 2^s) :
    (lo w (t * 2^s) ||| prev) = 2^s * (t % 2^(w-s)) + prev := by
  rw [lo, two_pow_split hsw, Nat.mul_mod_mul_right, Nat.mul_comm (t % 2^(w-s)) (2^s),
    ← Nat.two_pow_add_eq_or_of_lt hp]

theorem shl_limb_lt {w s t prev : Nat} (hsw : s ≤ w) (hp : prev < 2^s) :
    2^s * (t % 2^(w-s)) + prev < 2^w := by
  rw [two_pow_split hsw]
  have hr : t % 2^(w-s) < 2^(w-s) := Nat.mod_lt _ (Nat.two_pow_pos _)
  generalize t % 2^(w-s) = r at *
  generalize 2^(w-s) = P at *
  generalize 2^s = S at *
  have : S * (r + 1) ≤ S * P := Nat.mul_le_mul_left S hr
  rw [Nat.mul_add, Nat.mul_comm S P] at this
  omega

theorem shl_carry_lt {w s t : Nat} (hsw : s ≤ w) (ht : t < 2^w) : t / 2^(w-s) < 2^s := by
  rw [Nat.div_lt_iff_lt_mul (Nat.two_pow_pos _), Nat.mul_comm, ← two_pow_split hsw]
  exact ht

/-- bit shift by 0 < s < w of a limb list with incoming low part prev < 2^s, result truncated to the same number of limbs -/
theorem shlBits_spec {w s} {a : Limbs} {prev : Nat} (hs : 0 < s) (hsw : s < w) (ha : WF w a) (hp : prev < 2^s) :
    toNat w (shlBits w s a prev) = (toNat w a * 2^s + prev) % 2^(w * a.length)
    ∧ WF w (shlBits w s a prev) ∧ (shlBits w s a prev).length = a.length := by
  have _ := hs
  induction a generalizing prev with
  | nil => simp [shlBits, toNat, WF_nil, Nat.mod_one]
  | cons t ts ih =>
    rw [WF_cons] at ha
    have hsw' : s ≤ w := Nat.le_of_lt hsw
    have hq := shl_carry_lt hsw' ha.1
    obtain ⟨ih1, ih2, ih3⟩ := ih ha.2 hq
    have hx := shl_limb_lt (t := t) hsw' hp
    simp only [shlBits, toNat, List.length_cons, WF_cons, ih1, ih2, ih3, shl_limb hsw' hp, pow_mul_succ]
    refine ⟨?_, ⟨hx, trivial⟩, trivial⟩
    rw [← add_mul_mod_mul _ _ hx]
    congr 1
    have ht := Nat.div_add_mod t (2^(w-s))
    have hB := two_pow_split hsw'
    generalize t / 2^(w-s) = q at *
    generalize t % 2^(w-s) = r at *
    generalize toNat w ts = T at *
    generalize 2^(w-s) = P at *
    generalize 2^s = S at *
    generalize 2^w = B at *
    subst hB ht
    grind

theorem length_zeros (n : Nat) : (zeros n).length = n := by simp [zeros]

theorem shl_spec {w} {a : Limbs} {k : Nat} (hw : 1 ≤ w) (ha : WF w a) (hk : k < w * a.length) :
    toNat w (shl w a k) = (toNat w a * 2^k) % 2^(w * a.length) ∧ WF w (shl w a k) ∧ (shl w a k).length = a.length := by
  have hoff : k / w < a.length := Nat.div_lt_of_lt_mul hk
  have hkk := Nat.div_add_mod k w
  have hm : a.length - k / w ≤ a.length := Nat.sub_le _ _
  have hlen : a.length = k / w + (a.length - k / w) := by omega
  have hN : 2^(w * a.length) = 2^(w * (k / w)) * 2^(w * (a.length - k / w)) := by
    rw [← Nat.pow_add, ← Nat.mul_add, ← hlen]
  have hT := toNat_take (a.length - k / w) ha hm
  have hWT := WF_take (a.length - k / w) ha
  have hLT : (a.take (a.length - k / w)).length = a.length - k / w := by
    rw [List.length_take, Nat.min_eq_left hm]
  unfold shl
  simp only [List.take_left' (length_zeros _), List.drop_left' (length_zeros _)]
  by_cases hs0 : k % w = 0
  · simp only [hs0, ne_eq, not_true_eq_false, if_false]
    refine ⟨?_, WF_append.2 ⟨WF_zeros _ _, hWT⟩, ?_⟩
    · rw [toNat_append, toNat_zeros, length_zeros, hT, Nat.zero_add, hN, ← Nat.mul_mod_mul_left,
        Nat.mul_comm (toNat w a)]
      rw [hs0, Nat.add_zero] at hkk
      rw [hkk]
    · rw [List.length_append, length_zeros, hLT]; omega
  · have hs : 0 < k % w := Nat.pos_of_ne_zero hs0
    have hsw : k % w < w := Nat.mod_lt _ hw
    obtain ⟨h1, h2, h3⟩ := shlBits_spec (prev := 0) hs hsw hWT (Nat.two_pow_pos _)
    simp only [hs0, ne_eq, not_false_eq_true, if_true]
    refine ⟨?_, WF_append.2 ⟨WF_zeros _ _, h2⟩, ?_⟩
    · rw [toNat_append, toNat_zeros, length_zeros, h1, hT, hLT, Nat.zero_add, Nat.add_zero, Nat.mod_mul_mod,
        hN, ← Nat.mul_mod_mul_left, Nat.mul_comm (toNat w a), ← Nat.mul_assoc, ← Nat.pow_add, hkk, Nat.mul_comm]
    · rw [List.length_append, length_zeros, h3, hLT]; omega

/-! ## right shift -/

theorem two_pow_split' {s w : Nat} (h : s ≤ w) : 2^w = 2^s * 2^(w-s) := by
  rw [two_pow_split h, Nat.mul_comm]

/-- the part handed to the next lower limb -/
theorem shr_carry {w s : Nat} (t : Nat) (hsw : s ≤ w) : lo w (t * 2^(w-s)) = (t % 2^s) * 2^(w-s) := by
  rw [lo, two_pow_split' hsw, Nat.mul_mod_mul_right]

theorem shr_limb_div_lt {w s t : Nat} (hsw : s ≤ w) (ht : t < 2^w) : t / 2^s < 2^(w-s) := by
  rw [Nat.div_lt_iff_lt_mul (Nat.two_pow_pos _), ← two_pow_split hsw]
  exact ht

/-- one limb of `shrBits` -/
theorem shr_limb {w s t : Nat} (c : Nat) (hsw : s ≤ w) (ht : t < 2^w) :
    (t / 2^s ||| c * 2^(w-s)) = t / 2^s + 2^(w-s) * c := by
  rw [Nat.or_comm, Nat.mul_comm c, ← Nat.two_pow_add_eq_or_of_lt (shr_limb_div_lt hsw ht), Nat.add_comm]

theorem shr_limb_lt {w s t c : Nat} (hsw : s ≤ w) (ht : t < 2^w) (hc : c < 2^s) :
    t / 2^s + 2^(w-s) * c < 2^w := by
  have h1 := shr_limb_div_lt hsw ht
  rw [two_pow_split hsw]
  generalize t / 2^s = d at *
  generalize 2^(w-s) = P at *
  generalize 2^s = S at *
  have : P * (c + 1) ≤ P * S := Nat.mul_le_mul_left P hc
  rw [Nat.mul_add] at this
  omega

theorem shrBits_aux {w s} {a : Limbs} {h : Nat} (hsw : s < w) (ha : WF w a) (hh : h < 2^s) :
    (shrBits w s (h * 2^(w - s)) a).2 = ((toNat w a + h * 2^(w * a.length)) % 2^s) * 2^(w - s)
    ∧ toNat w (shrBits w s (h * 2^(w - s)) a).1 = (toNat w a + h * 2^(w * a.length)) / 2^s
    ∧ WF w (shrBits w s (h * 2^(w - s)) a).1 ∧ (shrBits w s (h * 2^(w - s)) a).1.length = a.length := by
  induction a with
  | nil => simp [shrBits, toNat, WF_nil, Nat.mod_eq_of_lt hh, Nat.div_eq_of_lt hh]
  | cons t ts ih =>
    rw [WF_cons] at ha
    have hsw' : s ≤ w := Nat.le_of_lt hsw
    obtain ⟨i1, i2, i3, i4⟩ := ih ha.2
    have hX : t + 2^w * toNat w ts + h * 2^(w * (ts.length + 1))
        = t + 2^s * (2^(w-s) * (toNat w ts + h * 2^(w * ts.length))) := by
      rw [pow_mul_succ, two_pow_split' hsw']
      generalize 2^(w-s) = P
      generalize 2^s = S
      generalize 2^(w * ts.length) = M
      generalize toNat w ts = T
      grind
    have hc : (toNat w ts + h * 2^(w * ts.length)) % 2^s < 2^s := Nat.mod_lt _ (Nat.two_pow_pos _)
    simp only [shrBits, List.length_cons, toNat, WF_cons, i1, i2, i3, i4, hX, shr_carry _ hsw', shr_limb _ hsw' ha.1,
      Nat.add_mul_mod_self_left, Nat.add_mul_div_left _ _ (Nat.two_pow_pos s)]
    refine ⟨trivial, ?_, ⟨shr_limb_lt hsw' ha.1 hc, trivial⟩, trivial⟩
    have hdm := Nat.mod_add_div (toNat w ts + h * 2^(w * ts.length)) (2^s)
    rw [two_pow_split' hsw']
    generalize (toNat w ts + h * 2^(w * ts.length)) = X' at *
    generalize X' % 2^s = r at *
    generalize X' / 2^s = q at *
    generalize 2^(w-s) = P
    generalize 2^s = S at *
    subst hdm
    grind

/-- logical part: from the top down; `init` is the incoming high part (a multiple of 2^(w-s) below 2^w, i.e. init = h * 2^(w-s) with h < 2^s) -/
theorem shrBits_spec {w s} {a : Limbs} {h : Nat} (hs : 0 < s) (hsw : s < w) (ha : WF w a) (hh : h < 2^s) :
    toNat w (shrBits w s (h * 2^(w - s)) a).1 = (toNat w a + h * 2^(w * a.length)) / 2^s
    ∧ WF w (shrBits w s (h * 2^(w - s)) a).1 ∧ (shrBits w s (h * 2^(w - s)) a).1.length = a.length :=
  have _ := hs
  (shrBits_aux hsw ha hh).2

theorem pred_mul_split (W S : Nat) (hW : 0 < W) (hS : 0 < S) :
    W * S - 1 = (S - 1) + S * (W - 1) := by
  obtain ⟨W', rfl⟩ : ∃ W', W = W' + 1 := ⟨W - 1, by omega⟩
  obtain ⟨S', rfl⟩ : ∃ S', S = S' + 1 := ⟨S - 1, by omega⟩
  simp only [Nat.add_sub_cancel, Nat.add_mul, Nat.mul_add, Nat.mul_one, Nat.one_mul]
  rw [Nat.mul_comm S' W']
  omega

/-- all-ones incoming high part -/
theorem shr_init_ones {w s : Nat} (hsw : s ≤ w) :
    lo w ((2^w - 1) * 2^(w - s)) = (2^s - 1) * 2^(w - s) := by
  rw [shr_carry _ hsw]
  congr 1
  have hS : 0 < 2^s := Nat.two_pow_pos _
  have hP : 0 < 2^(w-s) := Nat.two_pow_pos _
  rw [two_pow_split hsw, pred_mul_split _ _ hP hS, Nat.add_mul_mod_self_left, Nat.mod_eq_of_lt (by omega)]

theorem shr_arith_neg (A W S M : Nat) (hW : 0 < W) (hS : 0 < S) :
    (A + (W * S - 1) * (W * M)) / (W * S) = (A / W + (S - 1) * M) / S + M * (W - 1) := by
  rw [← Nat.div_div_eq_div_mul, Nat.mul_left_comm (W * S - 1) W M, Nat.add_mul_div_left _ _ hW,
    pred_mul_split W S hW hS, Nat.add_mul, ← Nat.add_assoc, Nat.mul_assoc, Nat.add_mul_div_left _ _ hS,
    Nat.mul_comm (W - 1) M]

theorem shr_arith_neg0 (A W M : Nat) (hW : 0 < W) :
    (A + (W - 1) * (W * M)) / W = A / W + M * (W - 1) := by
  rw [Nat.mul_left_comm (W - 1) W M, Nat.add_mul_div_left _ _ hW, Nat.mul_comm (W - 1) M]

/-- arithmetic right shift: a negative value (signed format, top bit set) is filled with ones -/
theorem shr_spec {f : Fmt} {a : Limbs} {k : Nat} (hw : 1 ≤ f.w) (ha : WF f.w a) (hl : a.length = f.n) (hk : k < f.N) :
    toNat f.w (shr f a k) = (toNat f.w a + (if isNeg f a then (2^k - 1) * 2^f.N else 0)) / 2^k
    ∧ WF f.w (shr f a k) ∧ (shr f a k).length = a.length := by
  have hN : f.N = f.w * a.length := by rw [Fmt.N, hl]
  rw [hN] at hk ⊢
  have hoff : k / f.w < a.length := Nat.div_lt_of_lt_mul hk
  have hkk := Nat.div_add_mod k f.w
  have hoff' : k / f.w ≤ a.length := Nat.le_of_lt hoff
  have hD := toNat_drop (k / f.w) ha hoff'
  have hWD := WF_drop (k / f.w) ha
  have hLD : (a.drop (k / f.w)).length = a.length - k / f.w := List.length_drop
  have hfl : a.length - (a.drop (k / f.w)).length = k / f.w := by rw [hLD]; exact Nat.sub_sub_self hoff'
  have hlen : a.length = k / f.w + (a.length - k / f.w) := by omega
  have h2k : 2^k = 2^(f.w * (k / f.w)) * 2^(k % f.w) := by rw [← Nat.pow_add, hkk]
  have h2N : 2^(f.w * a.length) = 2^(f.w * (k / f.w)) * 2^(f.w * (a.length - k / f.w)) := by
    rw [← Nat.pow_add, ← Nat.mul_add, ← hlen]
  have hW : 0 < 2^(f.w * (k / f.w)) := Nat.two_pow_pos _
  have hones : 2^f.w - 1 < 2^f.w := by have := Nat.two_pow_pos f.w; omega
  unfold shr
  simp only [hfl]
  by_cases hs0 : k % f.w = 0
  · simp only [hs0, ne_eq, not_true_eq_false, if_false]
    by_cases hneg : isNeg f a = true
    · simp only [hneg, if_true]
      refine ⟨?_, WF_append.2 ⟨hWD, WF_replicate hones⟩, ?_⟩
      · rw [toNat_append, toNat_replicate_ones, hD, hLD, h2k, h2N, hs0, Nat.pow_zero, Nat.mul_one]
        exact (shr_arith_neg0 _ _ _ hW).symm
      · rw [List.length_append, List.length_replicate, hLD]; omega
    · have hneg' : isNeg f a = false := by simpa using hneg
      simp only [hneg', Bool.false_eq_true, if_false]
      refine ⟨?_, WF_append.2 ⟨hWD, WF_zeros _ _⟩, ?_⟩
      · rw [toNat_append, show List.replicate (k / f.w) 0 = zeros (k / f.w) from rfl, toNat_zeros, hD, h2k, hs0,
          Nat.pow_zero, Nat.mul_one, Nat.mul_zero, Nat.add_zero, Nat.add_zero]
      · rw [List.length_append, List.length_replicate, hLD]; omega
  · have hsw : k % f.w < f.w := Nat.mod_lt _ hw
    have hsw' : k % f.w ≤ f.w := Nat.le_of_lt hsw
    have hS : 0 < 2^(k % f.w) := Nat.two_pow_pos _
    simp only [hs0, ne_eq, not_false_eq_true, if_true]
    by_cases hneg : isNeg f a = true
    · simp only [hneg, if_true, shr_init_ones hsw']
      obtain ⟨h1, h2, h3⟩ := shrBits_aux (h := 2^(k % f.w) - 1) hsw hWD (by omega) |>.2
      refine ⟨?_, WF_append.2 ⟨h2, WF_replicate hones⟩, ?_⟩
      · rw [toNat_append, toNat_replicate_ones, h1, h3, hD, hLD, h2k, h2N]
        exact (shr_arith_neg _ _ _ _ hW hS).symm
      · rw [List.length_append, List.length_replicate, h3, hLD]; omega
    · have hneg' : isNeg f a = false := by simpa using hneg
      simp only [hneg', Bool.false_eq_true, if_false]
      obtain ⟨h1, h2, h3⟩ := shrBits_aux (h := 0) hsw hWD hS |>.2
      rw [Nat.zero_mul] at h1 h2 h3
      refine ⟨?_, WF_append.2 ⟨h2, WF_zeros _ _⟩, ?_⟩
      · rw [toNat_append, show List.replicate (k / f.w) 0 = zeros (k / f.w) from rfl, toNat_zeros, h1, hD, h2k,
          Nat.zero_mul, Nat.mul_zero, Nat.add_zero, Nat.add_zero, Nat.add_zero, Nat.div_div_eq_div_mul]
      · rw [List.length_append, List.length_replicate, h3, hLD]; omega


end Cnl.Wide.Shift

/-! ## Kara: Karatsuba multiplication (`eval_multiply_kara_n_by_n_to_2n` with its in-place memory) is exact

`mul2n_spec` (schoolbook `2n`-limb product), `karaCarry_spec`/`karaBorrow_spec`, `addAt_spec`/`subAt_spec` (an
`n`-limb addition/subtraction at a limb offset with the carry/borrow rippled into the limbs above = arithmetic modulo
`B^(2n)`), `karaSplit_spec` (one level, for any correct routine one level down), `kara_spec` (induction on the
recursion), `mulKaratsuba_spec`, `opMulWith_spec` (both overloads of `eval_mul_unary`). -/
namespace Cnl.Wide.Kara
open Cnl.Wide.Shift (toNat_append WF_append WF_take WF_drop toNat_lt WF_zeros toNat_zeros length_zeros WF_cons WF_nil add_mul_mod_mul pow_mul_succ)

theorem pow_two_mul (w : Nat) : 2^(2*w) = 2^w * 2^w := by rw [Nat.two_mul, Nat.pow_add]

/-! ### `eval_multiply_n_by_n_to_2n` -/

theorem mulRowFull_spec {w ai : Nat} (hai : ai < 2^w) :
    ∀ (b rl : Limbs) (z : Nat) (rest : Limbs) (c : Nat), WF w b → WF w rl → c < 2^w → rl.length = b.length →
      ∃ out, mulRowFull w ai b (rl ++ z :: rest) c = out ++ rest ∧ out.length = b.length + 1 ∧ WF w out
        ∧ toNat w out = toNat w rl + ai * toNat w b + c := by
  intro b
  induction b with
  | nil =>
    intro rl z rest c _ _ hc hl
    have : rl = [] := List.eq_nil_of_length_eq_zero (by simpa using hl)
    subst this
    refine ⟨[lo w c], by simp [mulRowFull], by simp, ?_, ?_⟩
    · rw [WF_cons]; exact ⟨Nat.mod_lt _ (Nat.two_pow_pos w), WF_nil w⟩
    · simp [toNat, lo, Nat.mod_eq_of_lt hc]
  | cons bj bs ih =>
    intro rl z rest c hb hr hc hl
    match rl, hr, hl with
    | [], _, hl => simp at hl
    | rk :: rl', hr, hl =>
      rw [WF_cons] at hb hr
      have hl' : rl'.length = bs.length := by simpa using hl
      have hlt := Mul.mul_add_add_lt hai hb.1 hc hr.1
      have hBpos : 0 < 2^w := Nat.two_pow_pos w
      have h1 : dbl w (ai * bj) = ai * bj := by
        unfold dbl; rw [pow_two_mul]; apply Nat.mod_eq_of_lt; omega
      have h2 : dbl w (c + ai * bj) = c + ai * bj := by
        unfold dbl; rw [pow_two_mul]; apply Nat.mod_eq_of_lt; omega
      have h3 : dbl w (c + ai * bj + rk) = c + ai * bj + rk := by
        unfold dbl; rw [pow_two_mul]; apply Nat.mod_eq_of_lt; omega
      have hhi : hi w (c + ai * bj + rk) = (c + ai * bj + rk) / 2^w := by
        unfold hi; apply Nat.mod_eq_of_lt
        rw [Nat.div_lt_iff_lt_mul hBpos]; exact hlt
      have hhilt : hi w (c + ai * bj + rk) < 2^w := Nat.mod_lt _ hBpos
      have hlolt : lo w (c + ai * bj + rk) < 2^w := Nat.mod_lt _ hBpos
      have hsplit : lo w (c + ai * bj + rk) + 2^w * hi w (c + ai * bj + rk) = c + ai * bj + rk := by
        rw [hhi]; unfold lo; rw [Nat.add_comm]; exact Nat.div_add_mod _ _
      obtain ⟨out', e, ol, owf, ov⟩ := ih rl' z rest (hi w (c + ai * bj + rk)) hb.2 hr.2 hhilt hl'
      refine ⟨lo w (c + ai * bj + rk) :: out', ?_, by simp [ol], ?_, ?_⟩
      · simp only [List.cons_append, mulRowFull, h1, h2, h3, e]
      · rw [WF_cons]; exact ⟨hlolt, owf⟩
      · simp only [toNat, ov]
        generalize hi w (c + ai * bj + rk) = H at *
        generalize lo w (c + ai * bj + rk) = L at *
        simp only [Nat.mul_add]
        rw [Nat.mul_left_comm ai (2^w)]
        generalize 2^w * toNat w rl' = X
        generalize 2^w * (ai * toNat w bs) = Y
        generalize ai * bj = P at *
        omega

theorem mul2nAux_spec {w : Nat} (b : Limbs) (hb : WF w b) :
    ∀ (a rl : Limbs), WF w a → WF w rl → rl.length = b.length →
      toNat w (mul2nAux w a b (rl ++ zeros a.length)) = toNat w rl + toNat w a * toNat w b
      ∧ WF w (mul2nAux w a b (rl ++ zeros a.length))
      ∧ (mul2nAux w a b (rl ++ zeros a.length)).length = b.length + a.length := by
  intro a
  induction a with
  | nil =>
    intro rl _ hr hl
    simp [mul2nAux, zeros, toNat, hr, hl]
  | cons ai as ih =>
    intro rl ha hr hl
    rw [WF_cons] at ha
    have hz : zeros (ai :: as).length = 0 :: zeros as.length := by simp [zeros, List.replicate_succ]
    rw [hz]
    have hrow : ∃ out, (if ai ≠ 0 then mulRowFull w ai b (rl ++ 0 :: zeros as.length) 0 else rl ++ 0 :: zeros as.length)
          = out ++ zeros as.length ∧ out.length = b.length + 1 ∧ WF w out ∧ toNat w out = toNat w rl + ai * toNat w b := by
      by_cases h0 : ai = 0
      · refine ⟨rl ++ [0], by simp [h0], by simp [hl], ?_, ?_⟩
        · rw [WF_append]; exact ⟨hr, by rw [WF_cons]; exact ⟨Nat.two_pow_pos w, WF_nil w⟩⟩
        · simp [toNat_append, toNat, h0]
      · simp only [ne_eq, h0, not_false_eq_true, if_true]
        obtain ⟨out, e, ol, owf, ov⟩ := mulRowFull_spec ha.1 b rl 0 (zeros as.length) 0 hb hr (Nat.two_pow_pos w) hl
        exact ⟨out, e, ol, owf, by simpa using ov⟩
    rw [mul2nAux]
    obtain ⟨out, e, ol, owf, ov⟩ := hrow
    rw [e]
    match out, ol, owf, ov with
    | [], ol, _, _ => simp at ol
    | r0 :: rt, ol, owf, ov =>
      rw [WF_cons] at owf
      have hrt : rt.length = b.length := by simpa using ol
      obtain ⟨i1, i2, i3⟩ := ih rt ha.2 owf.2 hrt
      simp only [List.cons_append]
      refine ⟨?_, ?_, ?_⟩
      · simp only [toNat] at ov ⊢
        rw [i1, Nat.mul_add, ← Nat.add_assoc, ov, Nat.add_mul, Nat.mul_assoc]
        omega
      · rw [WF_cons]; exact ⟨owf.1, i2⟩
      · simp [i3]; omega

theorem mul2n_spec {w : Nat} {a b : Limbs} (ha : WF w a) (hb : WF w b) (hl : a.length = b.length) :
    toNat w (mul2n w a b) = toNat w a * toNat w b ∧ WF w (mul2n w a b) ∧ (mul2n w a b).length = 2 * a.length := by
  have hz : zeros (2 * a.length) = zeros b.length ++ zeros a.length := by
    simp only [zeros, ← hl, List.replicate_append_replicate]; congr 1; omega
  have h := mul2nAux_spec b hb a (zeros b.length) ha (WF_zeros w _) (length_zeros _)
  unfold mul2n
  rw [hz]
  rw [toNat_zeros, Nat.zero_add] at h
  exact ⟨h.1, h.2.1, by rw [h.2.2]; omega⟩


theorem pow_two_mul' (w : Nat) : 2^(2*w) = 2^w * 2^w := by rw [Nat.two_mul, Nat.pow_add]

theorem two_le_pow {w : Nat} (hw : 1 ≤ w) : 2 ≤ 2^w := by
  have : 2^1 ≤ 2^w := Nat.pow_le_pow_right (by decide) hw
  omega

/-- `l + M·(y % K) = (l + M·y) % (M·K)` for `l < M` -/
theorem lift_mod {l M : Nat} (y K : Nat) (hl : l < M) : l + M * (y % K) = (l + M * y) % (M * K) :=
  (add_mul_mod_mul y K hl).symm

theorem karaCarry_spec {w : Nat} (hw : 1 ≤ w) :
    ∀ (xs : Limbs) (c : Nat), WF w xs → c ≤ 1 →
      toNat w (karaCarry w xs c) = (toNat w xs + c) % 2^(w * xs.length) ∧ WF w (karaCarry w xs c)
      ∧ (karaCarry w xs c).length = xs.length := by
  intro xs
  induction xs with
  | nil => intro c _ _; simp [karaCarry, toNat, WF_nil, Nat.mod_one]
  | cons x xs ih =>
    intro c hx hc
    have hB := two_le_pow hw
    by_cases h0 : c = 0
    · subst h0
      simp only [karaCarry, if_true, Nat.add_zero]
      exact ⟨(Nat.mod_eq_of_lt (toNat_lt hx)).symm, hx, by simp⟩
    · have hc1 : c = 1 := by omega
      subst hc1
      rw [WF_cons] at hx
      have hBB : 2^w * 2 ≤ 2^w * 2^w := Nat.mul_le_mul_left _ hB
      have hd : dbl w (x + 1) = x + 1 := by
        unfold dbl; rw [pow_two_mul']; apply Nat.mod_eq_of_lt; omega
      have hq : (x + 1) / 2^w ≤ 1 := by
        have : (x + 1) / 2^w < 2 := (Nat.div_lt_iff_lt_mul (by omega)).mpr (by omega)
        omega
      have hhi : hi w (x + 1) = (x + 1) / 2^w := by
        unfold hi; apply Nat.mod_eq_of_lt; omega
      obtain ⟨i1, i2, i3⟩ := ih ((x + 1) / 2^w) hx.2 hq
      simp only [karaCarry, if_neg h0, hd, hhi]
      refine ⟨?_, ?_, by simp [i3]⟩
      · simp only [toNat, i1, List.length_cons, pow_mul_succ, lo]
        rw [lift_mod _ _ (Nat.mod_lt _ (by omega))]
        congr 1
        have := Nat.mod_add_div (x + 1) (2^w)
        rw [Nat.mul_add]
        omega
      · rw [WF_cons]; exact ⟨Nat.mod_lt _ (by omega), i2⟩

theorem karaBorrow_spec {w : Nat} (hw : 1 ≤ w) :
    ∀ (xs : Limbs) (b : Bool), WF w xs →
      toNat w (karaBorrow w xs b) = (toNat w xs + 2^(w * xs.length) - (if b then 1 else 0)) % 2^(w * xs.length)
      ∧ WF w (karaBorrow w xs b) ∧ (karaBorrow w xs b).length = xs.length := by
  intro xs
  induction xs with
  | nil => intro b _; cases b <;> simp [karaBorrow, toNat, WF_nil]
  | cons x xs ih =>
    intro b hx
    have hB := two_le_pow hw
    cases b with
    | false =>
      simp only [karaBorrow, Bool.not_false, if_true, Bool.false_eq_true, if_false, Nat.sub_zero]
      rw [Nat.add_mod_right]
      exact ⟨(Nat.mod_eq_of_lt (toNat_lt hx)).symm, hx, by simp⟩
    | true =>
      have hxx := hx
      rw [WF_cons] at hx
      have hBB : 2^w * 2 ≤ 2^w * 2^w := Nat.mul_le_mul_left _ hB
      simp only [karaBorrow, Bool.not_true, Bool.false_eq_true, if_false, if_true]
      by_cases hx0 : x = 0
      · subst hx0
        have hd : dbl w (0 + 2^(2*w) - 1) = 2^w * 2^w - 1 := by
          unfold dbl; rw [pow_two_mul', Nat.zero_add]; apply Nat.mod_eq_of_lt; omega
        have hlo : lo w (2^w * 2^w - 1) = 2^w - 1 := by
          unfold lo
          have e : 2^w * 2^w - 1 = (2^w - 1) + 2^w * (2^w - 1) := by
            rw [Nat.mul_sub, Nat.mul_one]; omega
          rw [e, Nat.add_mul_mod_self_left]; apply Nat.mod_eq_of_lt; omega
        have hhi : hi w (2^w * 2^w - 1) = 2^w - 1 := by
          unfold hi
          have e : 2^w * 2^w - 1 = (2^w - 1) + 2^w * (2^w - 1) := by
            rw [Nat.mul_sub, Nat.mul_one]; omega
          rw [e, Nat.add_mul_div_left _ _ (by omega : 0 < 2^w), Nat.div_eq_of_lt (by omega), Nat.zero_add]
          apply Nat.mod_eq_of_lt; omega
        have hne : (hi w (2^w * 2^w - 1) != 0) = true := by rw [hhi]; simp; omega
        obtain ⟨i1, i2, i3⟩ := ih true hx.2
        rw [hd, hlo, hne]
        refine ⟨?_, ?_, by simp [i3]⟩
        · simp only [toNat, i1, List.length_cons, pow_mul_succ, if_true, Nat.zero_add]
          rw [lift_mod _ _ (by omega : 2^w - 1 < 2^w)]
          have hP : 0 < 2^(w * xs.length) := Nat.two_pow_pos _
          generalize 2^(w * xs.length) = P at *
          generalize toNat w xs = X at *
          generalize 2^w = B at *
          have e1 : B - 1 + B * (X + P - 1) = B * X + B * P - 1 := by
            have : B * (X + P - 1) = B * (X + P) - B := by rw [Nat.mul_sub, Nat.mul_one]
            have : B * 1 ≤ B * (X + P) := Nat.mul_le_mul_left _ (by omega)
            rw [Nat.mul_add] at *; omega
          rw [e1]
        · rw [WF_cons]; exact ⟨by omega, i2⟩
      · have hd : dbl w (x + 2^(2*w) - 1) = x - 1 := by
          unfold dbl; rw [pow_two_mul']
          have e : x + 2^w * 2^w - 1 = (x - 1) + 2^w * 2^w := by omega
          rw [e, Nat.add_mod_right]; apply Nat.mod_eq_of_lt; omega
        have hlo : lo w (x - 1) = x - 1 := Nat.mod_eq_of_lt (by omega)
        have hhi : (hi w (x - 1) != 0) = false := by
          unfold hi; rw [Nat.div_eq_of_lt (by omega)]; simp
        rw [hd, hlo, hhi]
        have hkb : karaBorrow w xs false = xs := by cases xs <;> simp [karaBorrow]
        rw [hkb]
        refine ⟨?_, ?_, rfl⟩
        · simp only [toNat, List.length_cons, pow_mul_succ]
          have hlt := toNat_lt hxx
          simp only [toNat, List.length_cons, pow_mul_succ] at hlt
          generalize 2^w * 2^(w * xs.length) = L at *
          generalize 2^w * toNat w xs = Y at *
          have e : x + Y + L - 1 = (x - 1 + Y) + L := by omega
          rw [e, Nat.add_mod_right, Nat.mod_eq_of_lt (by omega)]
        · rw [WF_cons]; exact ⟨by omega, hx.2⟩

/-! ### slices of a three-part list -/

theorem split3 (r : Limbs) (off len : Nat) : r = r.take off ++ slice r off len ++ r.drop (off + len) := by
  unfold slice
  rw [List.append_assoc, ← List.drop_drop, List.take_append_drop, List.take_append_drop]

theorem slice_mid {p q u : Limbs} {off len : Nat} (hp : p.length = off) (hq : q.length = len) :
    slice (p ++ q ++ u) off len = q := by
  unfold slice
  rw [List.append_assoc, List.drop_left' hp, List.take_left' hq]

theorem splice_mid {p q u : Limbs} {off : Nat} (q' : Limbs) (hp : p.length = off) (hq : q'.length = q.length) :
    splice (p ++ q ++ u) off q' = p ++ q' ++ u := by
  unfold splice
  have h1 : (p ++ q ++ u).take off = p := by rw [List.append_assoc]; exact List.take_left' hp
  have h2 : (p ++ q ++ u).drop (off + q'.length) = u := List.drop_left' (by simp [hp, hq])
  rw [h1, h2]

theorem slice_last {p q u : Limbs} {off k : Nat} (hpq : (p ++ q).length = off) (hu : u.length = k) :
    slice (p ++ q ++ u) off k = u := by
  unfold slice
  rw [List.drop_left' hpq, ← hu, List.take_length]

theorem splice_last {p q u : Limbs} {off : Nat} (u' : Limbs) (hpq : (p ++ q).length = off) (hu : u'.length = u.length) :
    splice (p ++ q ++ u) off u' = p ++ q ++ u' := by
  unfold splice
  have h1 : (p ++ q ++ u).take off = p ++ q := List.take_left' hpq
  have h2 : (p ++ q ++ u).drop (off + u'.length) = [] := by
    rw [hu, ← hpq, show (p ++ q).length + u.length = (p ++ q ++ u).length by simp [Nat.add_assoc]]; exact List.drop_length
  rw [h1, h2, List.append_nil]

/-- `r1 += x` at limb offset `off`, carry rippled into the `k` limbs above: addition modulo `B^|r|` -/
theorem addAt_spec {w : Nat} (hw : 1 ≤ w) {r x : Limbs} {off len k : Nat} (hr : WF w r) (hx : WF w x)
    (hxl : x.length = len) (hlen : r.length = off + len + k) {off2 : Nat} (h2 : off2 = off + len) :
    let s := addN w (slice r off len) x 0
    let r' := splice r off s.1
    let r'' := splice r' off2 (karaCarry w (slice r' off2 k) s.2)
    toNat w r'' = (toNat w r + 2^(w * off) * toNat w x) % 2^(w * r.length) ∧ WF w r'' ∧ r''.length = r.length := by
  subst h2
  intro s r' r''
  have hpl : (r.take off).length = off := by rw [List.length_take]; omega
  have hql : (slice r off len).length = len := by unfold slice; rw [List.length_take, List.length_drop]; omega
  have hul : (r.drop (off + len)).length = k := by rw [List.length_drop]; omega
  have hwp : WF w (r.take off) := WF_take _ hr
  have hwq : WF w (slice r off len) := WF_take _ (WF_drop _ hr)
  have hwu : WF w (r.drop (off + len)) := WF_drop _ hr
  obtain ⟨a1, a2, a3, a4⟩ := Basic.addN_spec (c := 0) hw hwq hx (hql.trans hxl.symm) (by omega)
  have hs1 : s.1.length = len := a4.trans hql
  have e1 : r' = r.take off ++ s.1 ++ r.drop (off + len) := by
    show splice r off s.1 = _
    conv => lhs; rw [split3 r off len]
    exact splice_mid s.1 hpl (hs1.trans hql.symm)
  have hpq : (r.take off ++ s.1).length = off + len := by simp [hs1]; omega
  obtain ⟨c1, c2, c3⟩ := karaCarry_spec hw (r.drop (off + len)) s.2 hwu a2
  have e2 : r'' = r.take off ++ s.1 ++ karaCarry w (r.drop (off + len)) s.2 := by
    show splice r' (off + len) (karaCarry w (slice r' (off + len) k) s.2) = _
    rw [e1, slice_last hpq hul]
    exact splice_last _ hpq c3
  have hval := split3 r off len
  refine ⟨?_, ?_, ?_⟩
  · have hv : toNat w r = toNat w (r.take off) + 2^(w*off) * toNat w (slice r off len)
        + 2^(w*(off+len)) * toNat w (r.drop (off + len)) := by
      conv => lhs; rw [hval]
      simp only [toNat_append, hpl, hql, List.length_append]
    rw [e2, hlen, hv]
    simp only [toNat_append, hpl, List.length_append, hs1, c1, hul]
    have hP := toNat_lt hwp; rw [hpl] at hP
    have hS := toNat_lt a3; rw [hs1] at hS
    rw [hql] at a1
    have eoff : 2^(w * (off + len)) = 2^(w*off) * 2^(w*len) := by rw [Nat.mul_add, Nat.pow_add]
    have etot : 2^(w * (off + len + k)) = 2^(w*(off+len)) * 2^(w*k) := by rw [Nat.mul_add, Nat.pow_add]
    rw [etot]
    have hlow : toNat w (r.take off) + 2^(w*off) * toNat w s.1 < 2^(w*(off+len)) := by
      rw [eoff]
      generalize 2^(w*off) = M at *
      generalize 2^(w*len) = N at *
      have : M * (toNat w s.1 + 1) ≤ M * N := Nat.mul_le_mul_left _ hS
      rw [Nat.mul_add] at this; omega
    rw [lift_mod _ _ hlow]
    congr 1
    rw [eoff]
    generalize toNat w (r.take off) = P at *
    generalize toNat w (slice r off len) = Q at *
    generalize toNat w (r.drop (off + len)) = U at *
    generalize toNat w s.1 = S at *
    generalize toNat w x = X at *
    generalize 2^(w*off) = M at *
    generalize 2^(w*len) = N at *
    generalize s.2 = c at *
    clear hlow hP hS hval hv e1 e2 c1 c2 c3 a2 a3 a4
    grind
  · rw [e2, WF_append, WF_append]; exact ⟨⟨hwp, a3⟩, c2⟩
  · rw [e2]; simp [hs1, c3, hpl, hul, hlen]; omega

/-- `r1 -= x` at limb offset `off`, borrow rippled into the `k` limbs above: subtraction modulo `B^|r|` -/
theorem subAt_spec {w : Nat} (hw : 1 ≤ w) {r x : Limbs} {off len k : Nat} (hr : WF w r) (hx : WF w x)
    (hxl : x.length = len) (hlen : r.length = off + len + k) {off2 : Nat} (h2 : off2 = off + len) :
    let s := subN w (slice r off len) x false
    let r' := splice r off s.1
    let r'' := splice r' off2 (karaBorrow w (slice r' off2 k) s.2)
    toNat w r'' = (toNat w r + 2^(w * r.length) - 2^(w * off) * toNat w x) % 2^(w * r.length) ∧ WF w r'' ∧ r''.length = r.length := by
  subst h2
  intro s r' r''
  have hpl : (r.take off).length = off := by rw [List.length_take]; omega
  have hql : (slice r off len).length = len := by unfold slice; rw [List.length_take, List.length_drop]; omega
  have hul : (r.drop (off + len)).length = k := by rw [List.length_drop]; omega
  have hwp : WF w (r.take off) := WF_take _ hr
  have hwq : WF w (slice r off len) := WF_take _ (WF_drop _ hr)
  have hwu : WF w (r.drop (off + len)) := WF_drop _ hr
  obtain ⟨a1, a3, a4⟩ := Basic.subN_spec (bin := false) hw hwq hx (hql.trans hxl.symm)
  have hs1 : s.1.length = len := a4.trans hql
  have e1 : r' = r.take off ++ s.1 ++ r.drop (off + len) := by
    show splice r off s.1 = _
    conv => lhs; rw [split3 r off len]
    exact splice_mid s.1 hpl (hs1.trans hql.symm)
  have hpq : (r.take off ++ s.1).length = off + len := by simp [hs1]; omega
  obtain ⟨c1, c2, c3⟩ := karaBorrow_spec hw (r.drop (off + len)) s.2 hwu
  have e2 : r'' = r.take off ++ s.1 ++ karaBorrow w (r.drop (off + len)) s.2 := by
    show splice r' (off + len) (karaBorrow w (slice r' (off + len) k) s.2) = _
    rw [e1, slice_last hpq hul]
    exact splice_last _ hpq c3
  have hval := split3 r off len
  refine ⟨?_, ?_, ?_⟩
  · have hv : toNat w r = toNat w (r.take off) + 2^(w*off) * toNat w (slice r off len)
        + 2^(w*(off+len)) * toNat w (r.drop (off + len)) := by
      conv => lhs; rw [hval]
      simp only [toNat_append, hpl, hql, List.length_append]
    rw [e2, hlen, hv]
    simp only [toNat_append, hpl, List.length_append, hs1, c1, hul]
    have hP := toNat_lt hwp; rw [hpl] at hP
    have hS := toNat_lt a3; rw [hs1] at hS
    have hXlt := toNat_lt hx; rw [hxl] at hXlt
    rw [hql] at a1
    have eoff : 2^(w * (off + len)) = 2^(w*off) * 2^(w*len) := by rw [Nat.mul_add, Nat.pow_add]
    have etot : 2^(w * (off + len + k)) = 2^(w*(off+len)) * 2^(w*k) := by rw [Nat.mul_add, Nat.pow_add]
    rw [etot]
    have hlow : toNat w (r.take off) + 2^(w*off) * toNat w s.1 < 2^(w*(off+len)) := by
      rw [eoff]
      generalize 2^(w*off) = M at *
      generalize 2^(w*len) = N at *
      have : M * (toNat w s.1 + 1) ≤ M * N := Nat.mul_le_mul_left _ hS
      rw [Nat.mul_add] at this; omega
    rw [lift_mod _ _ hlow]
    congr 1
    rw [eoff]
    have hK : 0 < 2^(w*k) := Nat.two_pow_pos _
    have hM : 0 < 2^(w*off) := Nat.two_pow_pos _
    generalize toNat w (r.take off) = P at *
    generalize toNat w (slice r off len) = Q at *
    generalize toNat w (r.drop (off + len)) = U at *
    generalize toNat w s.1 = S at *
    generalize toNat w x = X at *
    generalize 2^(w*off) = M at *
    generalize 2^(w*len) = N at *
    generalize 2^(w*k) = K at *
    clear hlow hP hval hv e1 e2 c1 c2 c3 a3 a4 etot eoff
    cases hb : s.2 with
    | false =>
      rw [hb] at a1
      simp only [Bool.false_eq_true, if_false, Nat.zero_mul, Nat.add_zero, Nat.sub_zero] at a1 ⊢
      have e : M * Q = M * S + M * X := by rw [← a1, Nat.mul_add]
      rw [e, Nat.mul_add]
      have : 0 < M * N * K := Nat.mul_pos (Nat.mul_pos hM (by omega)) hK
      omega
    | true =>
      rw [hb] at a1
      simp only [if_true, Nat.one_mul, Nat.add_zero, Bool.false_eq_true, if_false] at a1 ⊢
      have e : M * Q + M * N = M * S + M * X := by rw [← Nat.mul_add, ← a1, Nat.mul_add]
      have e2 : M * N * (U + K - 1) = M * N * U + M * N * K - M * N := by
        rw [show U + K - 1 = (U + K) - 1 from rfl, Nat.mul_sub, Nat.mul_add, Nat.mul_one]
      have : M * N * 1 ≤ M * N * K := Nat.mul_le_mul_left _ hK
      rw [e2]
      omega
  · rw [e2, WF_append, WF_append]; exact ⟨⟨hwp, a3⟩, c2⟩
  · rw [e2]; simp [hs1, c3, hpl, hul, hlen]; omega


/-! ### one Karatsuba level -/

theorem slice_length {r : Limbs} {off len : Nat} (h : off + len ≤ r.length) : (slice r off len).length = len := by
  unfold slice; rw [List.length_take, List.length_drop]; omega

theorem WF_slice {w : Nat} {r : Limbs} (off len : Nat) (h : WF w r) : WF w (slice r off len) :=
  WF_take _ (WF_drop _ h)

theorem splice_length {r ys : Limbs} {off : Nat} (h : off + ys.length ≤ r.length) : (splice r off ys).length = r.length := by
  unfold splice; simp only [List.length_append, List.length_take, List.length_drop]; omega

/-- what a correct `n`-limb multiplication routine does to its result and scratch arrays -/
def RecOK (w : Nat) (rec : Nat → Limbs → Limbs → Limbs → Limbs → Limbs × Limbs) (m : Nat) : Prop :=
  ∀ a b r t : Limbs, WF w a → WF w b → a.length = m → b.length = m → r.length = 2 * m → 4 * m ≤ t.length →
    toNat w (rec m a b r t).1 = toNat w a * toNat w b ∧ WF w (rec m a b r t).1
    ∧ (rec m a b r t).1.length = 2 * m ∧ (rec m a b r t).2.length = t.length

theorem kara_pos_arith {a0 a1 b0 b1 M : Nat} (ha : a0 ≤ a1) (hb : b1 ≤ b0) :
    (a0 + M * a1) * (b0 + M * b1) = a0 * b0 + M * M * (a1 * b1) + M * (a1 * b1) + M * (a0 * b0) + M * ((a1 - a0) * (b0 - b1)) := by
  obtain ⟨d, rfl⟩ : ∃ d, a1 = a0 + d := ⟨a1 - a0, by omega⟩
  obtain ⟨e, rfl⟩ : ∃ e, b0 = b1 + e := ⟨b0 - b1, by omega⟩
  simp only [Nat.add_sub_cancel_left]
  grind

theorem kara_neg_arith {a0 a1 b0 b1 M : Nat} (ha : a0 ≤ a1) (hb : b0 ≤ b1) :
    (a0 + M * a1) * (b0 + M * b1) + M * ((a1 - a0) * (b1 - b0)) = a0 * b0 + M * M * (a1 * b1) + M * (a1 * b1) + M * (a0 * b0) := by
  obtain ⟨d, rfl⟩ : ∃ d, a1 = a0 + d := ⟨a1 - a0, by omega⟩
  obtain ⟨e, rfl⟩ : ∃ e, b1 = b0 + e := ⟨b1 - b0, by omega⟩
  simp only [Nat.add_sub_cancel_left]
  grind

theorem kara_zero_arith {a b0 b1 M : Nat} :
    (a + M * a) * (b0 + M * b1) = a * b0 + M * M * (a * b1) + M * (a * b1) + M * (a * b0) := by
  grind

theorem kara_pos_arith' {a0 a1 b0 b1 M : Nat} (ha : a1 ≤ a0) (hb : b0 ≤ b1) :
    (a0 + M * a1) * (b0 + M * b1) = a0 * b0 + M * M * (a1 * b1) + M * (a1 * b1) + M * (a0 * b0) + M * ((a0 - a1) * (b1 - b0)) := by
  obtain ⟨d, rfl⟩ : ∃ d, a0 = a1 + d := ⟨a0 - a1, by omega⟩
  obtain ⟨e, rfl⟩ : ∃ e, b1 = b0 + e := ⟨b1 - b0, by omega⟩
  simp only [Nat.add_sub_cancel_left]
  grind

theorem kara_neg_arith' {a0 a1 b0 b1 M : Nat} (ha : a1 ≤ a0) (hb : b1 ≤ b0) :
    (a0 + M * a1) * (b0 + M * b1) + M * ((a0 - a1) * (b0 - b1)) = a0 * b0 + M * M * (a1 * b1) + M * (a1 * b1) + M * (a0 * b0) := by
  obtain ⟨d, rfl⟩ : ∃ d, a0 = a1 + d := ⟨a0 - a1, by omega⟩
  obtain ⟨e, rfl⟩ : ∃ e, b0 = b1 + e := ⟨b0 - b1, by omega⟩
  simp only [Nat.add_sub_cancel_left]
  grind

theorem kara_zero_arith' {a0 a1 b M : Nat} :
    (a0 + M * a1) * (b + M * b) = a0 * b + M * M * (a1 * b) + M * (a1 * b) + M * (a0 * b) := by
  grind

theorem fin_zero {R1 T2 T0 L V : Nat} (hV : R1 + T2 + T0 = V) (hlt : V < L) : ((R1 + T2) % L + T0) % L = V := by
  rw [Nat.mod_add_mod, hV, Nat.mod_eq_of_lt hlt]

theorem fin_pos {R1 T2 T0 TD L V : Nat} (hV : R1 + T2 + T0 + TD = V) (hlt : V < L) :
    (((R1 + T2) % L + T0) % L + TD) % L = V := by
  rw [Nat.mod_add_mod, Nat.add_assoc, Nat.mod_add_mod, ← Nat.add_assoc, hV, Nat.mod_eq_of_lt hlt]

theorem fin_neg {R1 T2 T0 TD L V : Nat} (hV : V + TD = R1 + T2 + T0) (hlt : V < L) (hTD : TD ≤ L) :
    (((R1 + T2) % L + T0) % L + L - TD) % L = V := by
  rw [Nat.mod_add_mod, ← hV]
  by_cases h : V + TD < L
  · rw [Nat.mod_eq_of_lt h]
    have : V + TD + L - TD = V + L := by omega
    rw [this, Nat.add_mod_right, Nat.mod_eq_of_lt hlt]
  · have h1 : (V + TD) % L = V + TD - L := by
      rw [Nat.mod_eq_sub_mod (by omega)]; exact Nat.mod_eq_of_lt (by omega)
    rw [h1]
    have : V + TD - L + L - TD = V := by omega
    rw [this, Nat.mod_eq_of_lt hlt]

theorem cmp_cases {w : Nat} {a b : Limbs} (ha : WF w a) (hb : WF w b) (hl : a.length = b.length) :
    (cmpRanges a b = 1 ∧ toNat w b < toNat w a) ∨ (cmpRanges a b = -1 ∧ toNat w a < toNat w b)
    ∨ (cmpRanges a b = 0 ∧ toNat w a = toNat w b) := by
  rw [Basic.cmpRanges_spec ha hb hl]
  by_cases h1 : toNat w a < toNat w b
  · simp [h1]
  · by_cases h2 : toNat w a = toNat w b
    · simp [h2]
    · simp [h1, h2]; omega

/-- `|x − y|` by `eval_subtract_n` when `y < x` -/
theorem subN_abs {w : Nat} (hw : 1 ≤ w) {x y : Limbs} (hx : WF w x) (hy : WF w y) (hl : x.length = y.length)
    (hlt : toNat w y < toNat w x) :
    toNat w (subN w x y false).1 = toNat w x - toNat w y ∧ WF w (subN w x y false).1 ∧ (subN w x y false).1.length = x.length := by
  obtain ⟨h1, h2, h3⟩ := Basic.subN_spec (bin := false) hw hx hy hl
  refine ⟨?_, h2, h3⟩
  have hX := toNat_lt hx
  have hS := toNat_lt h2
  rw [h3] at hS
  cases hb : (subN w x y false).2 with
  | false => rw [hb] at h1; simp at h1; omega
  | true => rw [hb] at h1; simp at h1; omega

/-- steps 3/4: `|x − y|` written over the `q` part of `p ++ q ++ u` (left alone when `x = y`) -/
theorem abs_splice {w : Nat} (hw : 1 ≤ w) {x y p q u : Limbs} {off : Nat} (hx : WF w x) (hy : WF w y)
    (hl : x.length = y.length) (hp : p.length = off) (hq : q.length = x.length) (wq : WF w q) :
    ∃ d, (if cmpRanges x y = 1 then splice (p ++ q ++ u) off (subN w x y false).1
          else if cmpRanges x y = -1 then splice (p ++ q ++ u) off (subN w y x false).1 else p ++ q ++ u) = p ++ d ++ u
      ∧ d.length = x.length ∧ WF w d
      ∧ ((cmpRanges x y = 1 ∧ toNat w y < toNat w x ∧ toNat w d = toNat w x - toNat w y)
         ∨ (cmpRanges x y = -1 ∧ toNat w x < toNat w y ∧ toNat w d = toNat w y - toNat w x)
         ∨ (cmpRanges x y = 0 ∧ toNat w x = toNat w y)) := by
  rcases cmp_cases hx hy hl with ⟨hc, hlt⟩ | ⟨hc, hlt⟩ | ⟨hc, heq⟩
  · obtain ⟨sv, sw, sl⟩ := subN_abs hw hx hy hl hlt
    refine ⟨(subN w x y false).1, ?_, sl, sw, Or.inl ⟨hc, hlt, sv⟩⟩
    rw [if_pos hc]
    exact splice_mid _ hp (sl.trans hq.symm)
  · obtain ⟨sv, sw, sl⟩ := subN_abs hw hy hx hl.symm hlt
    refine ⟨(subN w y x false).1, ?_, sl.trans hl.symm, sw, Or.inr (Or.inl ⟨hc, hlt, sv⟩)⟩
    rw [hc, if_neg (by decide), if_pos rfl]
    exact splice_mid _ hp (sl.trans (hl.symm.trans hq.symm))
  · refine ⟨q, ?_, hq, wq, Or.inr (Or.inr ⟨hc, heq⟩)⟩
    rw [hc, if_neg (by decide), if_neg (by decide)]

theorem karaSplit_spec {w : Nat} (hw : 1 ≤ w) {rec : Nat → Limbs → Limbs → Limbs → Limbs → Limbs × Limbs} {n : Nat}
    (hev : n % 2 = 0) (hrec : RecOK w rec (n / 2)) {a0 a1 b0 b1 r t : Limbs}
    (ha0 : WF w a0) (ha1 : WF w a1) (hb0 : WF w b0) (hb1 : WF w b1)
    (la0 : a0.length = n / 2) (la1 : a1.length = n / 2) (lb0 : b0.length = n / 2) (lb1 : b1.length = n / 2)
    (hr : r.length = 2 * n) (ht : 4 * n ≤ t.length) :
    toNat w (karaSplit w rec n a0 a1 b0 b1 r t).1
      = (toNat w a0 + 2^(w * (n / 2)) * toNat w a1) * (toNat w b0 + 2^(w * (n / 2)) * toNat w b1)
    ∧ WF w (karaSplit w rec n a0 a1 b0 b1 r t).1 ∧ (karaSplit w rec n a0 a1 b0 b1 r t).1.length = 2 * n
    ∧ (karaSplit w rec n a0 a1 b0 b1 r t).2.length = t.length := by
  unfold karaSplit
  extract_lets nh c1 r1 c2 r2 t1 s1 r3 r4 s2 r5 r6 ca t2 cb t3 c3 t4 s3 r7 s4 r8
  have hnh : nh = n / 2 := rfl
  have h2nh : 2 * nh = n := by omega
  -- Step 1
  obtain ⟨v1, w1, l1, tl1⟩ : toNat w c1.1 = toNat w a1 * toNat w b1 ∧ WF w c1.1 ∧ c1.1.length = 2 * nh ∧ c1.2.length = t.length :=
    hrec a1 b1 (slice r n (2 * nh)) t ha1 hb1 la1 lb1 (slice_length (by omega)) (by omega)
  have hr1 : r1 = r.take n ++ c1.1 := by
    show splice r n c1.1 = _
    unfold splice
    rw [List.drop_eq_nil_of_le (by omega), List.append_nil]
  have lr1 : r1.length = 2 * n := by rw [hr1]; simp [l1, List.length_take]; omega
  obtain ⟨v2, w2, l2, tl2⟩ : toNat w c2.1 = toNat w a0 * toNat w b0 ∧ WF w c2.1 ∧ c2.1.length = 2 * nh ∧ c2.2.length = c1.2.length :=
    hrec a0 b0 (slice r1 0 (2 * nh)) c1.2 ha0 hb0 la0 lb0 (slice_length (by omega)) (by omega)
  have hr2 : r2 = c2.1 ++ c1.1 := by
    show splice r1 0 c2.1 = _
    unfold splice
    rw [List.take_zero, List.nil_append, Nat.zero_add, hr1, l2, h2nh]
    rw [List.drop_left' (by rw [List.length_take]; omega)]
  have lr2 : r2.length = 2 * n := by rw [hr2]; simp [l1, l2]; omega
  have wr2 : WF w r2 := by rw [hr2, WF_append]; exact ⟨w2, w1⟩
  have vr2 : toNat w r2 = toNat w a0 * toNat w b0 + 2^(w * n) * (toNat w a1 * toNat w b1) := by
    rw [hr2, toNat_append, v1, v2, l2, h2nh]
  have ht1 : t1 = c2.1 ++ c1.1 ++ c2.2.drop (2 * n) := by
    show splice c2.2 0 (r2.take (2 * n)) = _
    unfold splice
    rw [List.take_zero, List.nil_append, Nat.zero_add, ← lr2, List.take_length, hr2]
  have lc2n : c2.1.length = n := by omega
  have lc1n : c1.1.length = n := by omega
  have ht1a : slice t1 n n = c1.1 := by rw [ht1]; exact slice_mid lc2n lc1n
  have ht1b : slice t1 0 n = c2.1 := by
    rw [ht1, List.append_assoc]
    have := slice_mid (p := []) (q := c2.1) (u := c1.1 ++ c2.2.drop (2 * n)) (off := 0) (len := n) rfl lc2n
    simpa using this
  have lt1 : t1.length = t.length := by
    rw [ht1]; simp only [List.length_append, List.length_drop]; omega
  -- Step 2
  obtain ⟨v4, w4, l4⟩ : toNat w r4 = (toNat w r2 + 2^(w * nh) * toNat w (slice t1 n n)) % 2^(w * r2.length)
      ∧ WF w r4 ∧ r4.length = r2.length :=
    addAt_spec hw (r := r2) (x := slice t1 n n) (off := nh) (len := n) (k := nh) wr2 (by rw [ht1a]; exact w1)
      (by rw [ht1a]; exact lc1n) (by omega) (by omega)
  obtain ⟨v6, w6, l6⟩ : toNat w r6 = (toNat w r4 + 2^(w * nh) * toNat w (slice t1 0 n)) % 2^(w * r4.length)
      ∧ WF w r6 ∧ r6.length = r4.length :=
    addAt_spec hw (r := r4) (x := slice t1 0 n) (off := nh) (len := n) (k := nh) w4 (by rw [ht1b]; exact w2)
      (by rw [ht1b]; exact lc2n) (by omega) (by omega)
  rw [ht1a, v1] at v4
  rw [ht1b, v2, l4, lr2] at v6
  rw [lr2] at v4
  have lr6 : r6.length = 2 * n := by omega
  -- Steps 3 and 4: t3 = da ++ db ++ rest
  have lx0 : (c2.1.take nh).length = nh := by rw [List.length_take]; omega
  have lx1 : (c2.1.drop nh).length = nh := by rw [List.length_drop]; omega
  have ht1' : t1 = [] ++ c2.1.take nh ++ (c2.1.drop nh ++ (c1.1 ++ c2.2.drop (2 * n))) := by
    rw [ht1, List.nil_append, ← List.append_assoc, List.take_append_drop, List.append_assoc]
  obtain ⟨da, hda, lda, wda, sa⟩ := abs_splice hw (p := []) (q := c2.1.take nh)
    (u := c2.1.drop nh ++ (c1.1 ++ c2.2.drop (2 * n))) (off := 0) ha1 ha0 (la1.trans la0.symm) rfl (lx0.trans (hnh.trans la1.symm))
    (WF_take _ w2)
  have ht2 : t2 = da ++ c2.1.drop nh ++ (c1.1 ++ c2.2.drop (2 * n)) := by
    show (if ca = 1 then splice t1 0 (subN w a1 a0 false).1 else if ca = -1 then splice t1 0 (subN w a0 a1 false).1 else t1) = _
    rw [ht1']
    rw [hda]; simp
  have lda' : da.length = nh := by omega
  obtain ⟨db, hdb, ldb, wdb, sb⟩ := abs_splice hw (p := da) (q := c2.1.drop nh)
    (u := c1.1 ++ c2.2.drop (2 * n)) (off := nh) hb0 hb1 (lb0.trans lb1.symm) lda' (lx1.trans (hnh.trans lb0.symm))
    (WF_drop _ w2)
  have ht3 : t3 = da ++ db ++ (c1.1 ++ c2.2.drop (2 * n)) := by
    show (if cb = 1 then splice t2 nh (subN w b0 b1 false).1 else if cb = -1 then splice t2 nh (subN w b1 b0 false).1 else t2) = _
    rw [ht2]
    exact hdb
  have ldb' : db.length = nh := by omega
  have lt3 : t3.length = t.length := by
    rw [ht3]; simp only [List.length_append, List.length_drop]; omega
  have st0 : slice t3 0 nh = da := by
    rw [ht3, List.append_assoc]
    have := slice_mid (p := []) (q := da) (u := db ++ (c1.1 ++ c2.2.drop (2 * n))) (off := 0) (len := nh) rfl lda'
    simpa using this
  have st1 : slice t3 nh nh = db := by rw [ht3]; exact slice_mid lda' ldb'
  -- Step 5
  obtain ⟨v3, w3, l3, tl3⟩ : toNat w c3.1 = toNat w (slice t3 0 nh) * toNat w (slice t3 nh nh) ∧ WF w c3.1
      ∧ c3.1.length = 2 * nh ∧ c3.2.length = (t3.drop (2 * n)).length :=
    hrec (slice t3 0 nh) (slice t3 nh nh) (slice t3 n (2 * nh)) (t3.drop (2 * n)) (by rw [st0]; exact wda) (by rw [st1]; exact wdb)
      (by rw [st0]; exact lda') (by rw [st1]; exact ldb') (slice_length (by omega)) (by rw [List.length_drop]; omega)
  rw [st0, st1] at v3
  have lc3n : c3.1.length = n := by omega
  have ht4 : t4 = t3.take n ++ c3.1 ++ c3.2 := by
    show (splice t3 n c3.1).take (2 * n) ++ c3.2 = _
    have hsp : splice t3 n c3.1 = t3.take n ++ c3.1 ++ t3.drop (n + n) := by
      conv => lhs; rw [split3 t3 n n]
      exact splice_mid c3.1 (by rw [List.length_take]; omega) (lc3n.trans (slice_length (by omega)).symm)
    rw [hsp, List.take_left' (by simp only [List.length_append, List.length_take]; omega)]
  have st4 : slice t4 n n = c3.1 := by
    rw [ht4]; exact slice_mid (by rw [List.length_take]; omega) lc3n
  have lt4 : t4.length = t.length := by
    rw [ht4]; simp only [List.length_append, List.length_take, tl3, List.length_drop]; omega
  obtain ⟨v8p, w8p, l8p⟩ : toNat w (splice r7 (n + nh) (karaCarry w (slice r7 (n + nh) nh) s3.2))
        = (toNat w r6 + 2^(w * nh) * toNat w (slice t4 n n)) % 2^(w * r6.length)
      ∧ WF w (splice r7 (n + nh) (karaCarry w (slice r7 (n + nh) nh) s3.2))
      ∧ (splice r7 (n + nh) (karaCarry w (slice r7 (n + nh) nh) s3.2)).length = r6.length :=
    addAt_spec hw (r := r6) (x := slice t4 n n) (off := nh) (len := n) (k := nh) w6 (by rw [st4]; exact w3)
      (by rw [st4]; exact lc3n) (by omega) (by omega)
  obtain ⟨v8n, w8n, l8n⟩ : toNat w (splice r8 (n + nh) (karaBorrow w (slice r8 (n + nh) nh) s4.2))
        = (toNat w r6 + 2^(w * r6.length) - 2^(w * nh) * toNat w (slice t4 n n)) % 2^(w * r6.length)
      ∧ WF w (splice r8 (n + nh) (karaBorrow w (slice r8 (n + nh) nh) s4.2))
      ∧ (splice r8 (n + nh) (karaBorrow w (slice r8 (n + nh) nh) s4.2)).length = r6.length :=
    subAt_spec hw (r := r6) (x := slice t4 n n) (off := nh) (len := n) (k := nh) w6 (by rw [st4]; exact w3)
      (by rw [st4]; exact lc3n) (by omega) (by omega)
  rw [st4] at v8p v8n
  -- the algebra
  have hA0 := toNat_lt ha0; rw [la0] at hA0
  have hA1 := toNat_lt ha1; rw [la1] at hA1
  have hB0 := toNat_lt hb0; rw [lb0] at hB0
  have hB1 := toNat_lt hb1; rw [lb1] at hB1
  have hDa := toNat_lt wda; rw [lda'] at hDa
  have hDb := toNat_lt wdb; rw [ldb'] at hDb
  have eMM : 2^(w * n) = 2^(w * nh) * 2^(w * nh) := by rw [← Nat.pow_add, ← Nat.mul_add]; congr 2; omega
  have eL : 2^(w * (2 * n)) = 2^(w * n) * 2^(w * n) := by rw [← Nat.pow_add, ← Nat.mul_add]; congr 2; omega
  rw [← hnh]
  rw [eL, eMM] at v4 v6
  rw [eMM] at vr2
  rw [vr2] at v4
  rw [v4] at v6
  have eL6 : 2^(w * r6.length) = 2^(w * nh) * 2^(w * nh) * (2^(w * nh) * 2^(w * nh)) := by rw [lr6, eL, eMM]
  generalize 2^(w * nh) = M at *
  generalize toNat w a0 = A0 at *
  generalize toNat w a1 = A1 at *
  generalize toNat w b0 = B0 at *
  generalize toNat w b1 = B1 at *
  have hVlt : (A0 + M * A1) * (B0 + M * B1) < M * M * (M * M) := by
    have h1 : A0 + M * A1 < M * M := by
      have : M * (A1 + 1) ≤ M * M := Nat.mul_le_mul_left _ hA1
      rw [Nat.mul_add] at this; omega
    have h2 : B0 + M * B1 < M * M := by
      have : M * (B1 + 1) ≤ M * M := Nat.mul_le_mul_left _ hB1
      rw [Nat.mul_add] at this; omega
    exact Nat.mul_lt_mul'' h1 h2
  have hTD : M * (toNat w da * toNat w db) ≤ M * M * (M * M) := by
    have h1 : toNat w da * toNat w db ≤ M * M := Nat.le_of_lt (Nat.mul_lt_mul'' hDa hDb)
    have hM : 0 < M := by omega
    calc M * (toNat w da * toNat w db) ≤ M * (M * M) := Nat.mul_le_mul_left _ h1
      _ ≤ M * M * (M * M) := Nat.mul_le_mul_right _ (Nat.le_mul_of_pos_left M hM)
  -- Step 6, by the signs
  have sign : (ca * cb = 1 ∧ A0 * B0 + M * M * (A1 * B1) + M * (A1 * B1) + M * (A0 * B0) + M * (toNat w da * toNat w db)
                  = (A0 + M * A1) * (B0 + M * B1))
      ∨ (ca * cb = -1 ∧ (A0 + M * A1) * (B0 + M * B1) + M * (toNat w da * toNat w db)
                  = A0 * B0 + M * M * (A1 * B1) + M * (A1 * B1) + M * (A0 * B0))
      ∨ (ca * cb = 0 ∧ A0 * B0 + M * M * (A1 * B1) + M * (A1 * B1) + M * (A0 * B0) = (A0 + M * A1) * (B0 + M * B1)) := by
    have hca : ca = cmpRanges a1 a0 := rfl
    have hcb : cb = cmpRanges b0 b1 := rfl
    rcases sa with ⟨ea, la, va⟩ | ⟨ea, la, va⟩ | ⟨ea, la⟩ <;> rcases sb with ⟨eb, lb, vb⟩ | ⟨eb, lb, vb⟩ | ⟨eb, lb⟩
    · left; refine ⟨by rw [hca, hcb, ea, eb]; decide, ?_⟩
      rw [va, vb]; exact (kara_pos_arith (Nat.le_of_lt la) (Nat.le_of_lt lb)).symm
    · right; left; refine ⟨by rw [hca, hcb, ea, eb]; decide, ?_⟩
      rw [va, vb]; exact kara_neg_arith (Nat.le_of_lt la) (Nat.le_of_lt lb)
    · right; right; refine ⟨by rw [hca, hcb, ea, eb]; decide, ?_⟩
      rw [lb]; exact kara_zero_arith'.symm
    · right; left; refine ⟨by rw [hca, hcb, ea, eb]; decide, ?_⟩
      rw [va, vb]; exact kara_neg_arith' (Nat.le_of_lt la) (Nat.le_of_lt lb)
    · left; refine ⟨by rw [hca, hcb, ea, eb]; decide, ?_⟩
      rw [va, vb]; exact (kara_pos_arith' (Nat.le_of_lt la) (Nat.le_of_lt lb)).symm
    · right; right; refine ⟨by rw [hca, hcb, ea, eb]; decide, ?_⟩
      rw [lb]; exact kara_zero_arith'.symm
    · right; right; refine ⟨by rw [hca, hcb, ea, eb]; decide, ?_⟩
      rw [la]; exact kara_zero_arith.symm
    · right; right; refine ⟨by rw [hca, hcb, ea, eb]; decide, ?_⟩
      rw [la]; exact kara_zero_arith.symm
    · right; right; refine ⟨by rw [hca, hcb, ea, eb]; decide, ?_⟩
      rw [la]; exact kara_zero_arith.symm
  rcases sign with ⟨hm, hv⟩ | ⟨hm, hv⟩ | ⟨hm, hv⟩
  · rw [if_pos hm]
    rw [v3, eL6, v6] at v8p
    refine ⟨?_, w8p, l8p.trans lr6, lt4⟩
    rw [v8p]
    exact fin_pos hv hVlt
  · have hm1 : ¬ ca * cb = 1 := by rw [hm]; decide
    rw [if_neg hm1, if_pos hm]
    rw [v3, eL6, v6] at v8n
    refine ⟨?_, w8n, l8n.trans lr6, lt4⟩
    rw [v8n]
    exact fin_neg hv hVlt hTD
  · have hm1 : ¬ ca * cb = 1 := by rw [hm]; decide
    have hm2 : ¬ ca * cb = -1 := by rw [hm]; decide
    rw [if_neg hm1, if_neg hm2]
    refine ⟨?_, w6, lr6, lt4⟩
    rw [v6]
    exact fin_zero hv hVlt

/-! ### the whole recursion, and the operator -/

theorem splice_all {r ys : Limbs} (h : ys.length = r.length) : splice r 0 ys = ys := by
  unfold splice
  rw [List.take_zero, List.nil_append, Nat.zero_add, h, List.drop_length, List.append_nil]

/-- `eval_multiply_kara_n_by_n_to_2n` (as repaired): the full `2n`-limb product, for every limb width and count -/
theorem kara_spec {w : Nat} (hw : 1 ≤ w) : ∀ (fuel m : Nat), m ≤ fuel → RecOK w (kara w fuel) m := by
  intro fuel
  induction fuel with
  | zero =>
    intro m hm a b r t _ _ la _ lr _
    have hm0 : m = 0 := by omega
    subst hm0
    have : a = [] := List.eq_nil_of_length_eq_zero la
    have : r = [] := List.eq_nil_of_length_eq_zero (by omega)
    subst_vars
    simp [kara, toNat, WF_nil]
  | succ fuel ih =>
    intro m hm a b r t ha hb la lb lr lt
    by_cases hleaf : m ≤ karaCutoff ∨ m % 2 ≠ 0
    · have e : kara w (fuel + 1) m a b r t = (splice r 0 (mul2n w (a.take m) (b.take m)), t) := by
        simp only [kara, if_pos hleaf]
      rw [e]
      have ta : a.take m = a := by rw [← la]; exact List.take_length
      have tb : b.take m = b := by rw [← lb]; exact List.take_length
      obtain ⟨v, wf, l⟩ := mul2n_spec ha hb (la.trans lb.symm)
      rw [ta, tb, splice_all (by rw [l, lr, la])]
      exact ⟨v, wf, by rw [l, la], rfl⟩
    · have e : kara w (fuel + 1) m a b r t
          = karaSplit w (kara w fuel) m (slice a 0 (m / 2)) (slice a (m / 2) (m / 2)) (slice b 0 (m / 2)) (slice b (m / 2) (m / 2)) r t := by
        simp only [kara, if_neg hleaf]
      rw [e]
      have hev : m % 2 = 0 := by omega
      have hcut : karaCutoff < m := by omega
      have hpos : 0 < m := by omega
      obtain ⟨v, wf, l, tl⟩ := karaSplit_spec hw hev (ih (m / 2) (by omega))
        (WF_slice 0 (m / 2) ha) (WF_slice (m / 2) (m / 2) ha) (WF_slice 0 (m / 2) hb) (WF_slice (m / 2) (m / 2) hb)
        (slice_length (by omega)) (slice_length (by omega)) (slice_length (by omega)) (slice_length (by omega)) lr lt
      refine ⟨?_, wf, l, tl⟩
      rw [v]
      have sa : toNat w a = toNat w (slice a 0 (m / 2)) + 2^(w * (m / 2)) * toNat w (slice a (m / 2) (m / 2)) := by
        have h := Shift.toNat_take_drop w a (m / 2) (by omega)
        have e2 : slice a (m / 2) (m / 2) = a.drop (m / 2) := by
          unfold slice; rw [List.take_of_length_le (by rw [List.length_drop]; omega)]
        rw [e2]; unfold slice; rw [List.drop_zero]; exact h
      have sb : toNat w b = toNat w (slice b 0 (m / 2)) + 2^(w * (m / 2)) * toNat w (slice b (m / 2) (m / 2)) := by
        have h := Shift.toNat_take_drop w b (m / 2) (by omega)
        have e2 : slice b (m / 2) (m / 2) = b.drop (m / 2) := by
          unfold slice; rw [List.take_of_length_le (by rw [List.length_drop]; omega)]
        rw [e2]; unfold slice; rw [List.drop_zero]; exact h
      rw [sa, sb]

theorem fitTo_length (len : Nat) (xs : Limbs) : (fitTo len xs).length = len := by
  unfold fitTo
  rw [List.length_take, List.length_append, length_zeros]; omega

/-- the Karatsuba overload of `eval_mul_unary`: the low `n` limbs of the exact product, whatever the local arrays held -/
theorem mulKaratsuba_spec {w : Nat} (hw : 1 ≤ w) (init : Limbs × Limbs) {a b : Limbs} (ha : WF w a) (hb : WF w b)
    (hl : a.length = b.length) :
    toNat w (mulKaratsuba w init a b) = (toNat w a * toNat w b) % 2^(w * a.length) ∧ WF w (mulKaratsuba w init a b)
    ∧ (mulKaratsuba w init a b).length = a.length := by
  obtain ⟨v, wf, l, _⟩ := kara_spec hw a.length a.length (Nat.le_refl _) a b (fitTo (2 * a.length) init.1) (fitTo (4 * a.length) init.2)
    ha hb rfl hl.symm (fitTo_length _ _) (by rw [fitTo_length]; exact Nat.le_refl _)
  unfold mulKaratsuba
  refine ⟨?_, WF_take _ wf, by rw [List.length_take, l]; omega⟩
  rw [Shift.toNat_take _ wf (by omega), v]

/-- `operator*=` on any limb count: both overloads of `eval_mul_unary` -/
theorem opMulWith_spec {w : Nat} (hw : 1 ≤ w) (init : Limbs × Limbs) {a b : Limbs} (ha : WF w a) (hb : WF w b)
    (hl : a.length = b.length) (h4 : 3 ≤ w ∨ a.length ≠ 4) :
    toNat w (opMulWith w init a b) = (toNat w a * toNat w b) % 2^(w * a.length) ∧ WF w (opMulWith w init a b)
    ∧ (opMulWith w init a b).length = a.length := by
  unfold opMulWith
  by_cases hk : a.length ≥ karaThreshold
  · rw [if_pos hk]; exact mulKaratsuba_spec hw init ha hb hl
  · rw [if_neg hk]; exact Mul.mulUnary_spec ha hb hl h4

/-! ### the routine before 38967ec: what an odd level read of its operands -/

theorem slice_lo {a a' : Limbs} {n : Nat} (h : a.take (n - 1) = a'.take (n - 1)) (hn : 1 ≤ n) :
    slice a 0 (n / 2) = slice a' 0 (n / 2) := by
  unfold slice
  simp only [List.drop_zero]
  have e : ∀ l : Limbs, l.take (n / 2) = (l.take (n - 1)).take (n / 2) := by
    intro l; rw [List.take_take]; congr 1; omega
  rw [e a, e a', h]

theorem slice_hi {a a' : Limbs} {n : Nat} (h : a.take (n - 1) = a'.take (n - 1)) (hodd : n % 2 = 1) :
    slice a (n / 2) (n / 2) = slice a' (n / 2) (n / 2) := by
  unfold slice
  have e : ∀ l : Limbs, (l.drop (n / 2)).take (n / 2) = ((l.take (n - 1)).drop (n / 2)).take (n / 2) := by
    intro l
    rw [List.drop_take, List.take_take]
    congr 1; omega
  rw [e a, e a', h]

/-- (routine before 38967ec) an odd level above the cutoff reads only the low `n - 1` limbs of each operand (`nh = (n-1)/2`, twice) -/
theorem karaOrig_odd_drops_top_limbs (w fuel n : Nat) (a a' b b' r t : Limbs) (hn : karaCutoff < n) (hodd : n % 2 = 1)
    (ha : a.take (n - 1) = a'.take (n - 1)) (hb : b.take (n - 1) = b'.take (n - 1)) :
    karaOrig w (fuel + 1) n a b r t = karaOrig w (fuel + 1) n a' b' r t := by
  have h1 : 1 ≤ n := by unfold karaCutoff at hn; omega
  simp only [karaOrig, if_neg (Nat.not_le.mpr hn)]
  rw [slice_lo ha h1, slice_hi ha hodd, slice_lo hb h1, slice_hi hb hodd]

end Cnl.Wide.Kara

/-! ## Div: short division (eval_divide_by_single_limb), un-normalisation, decimal digit step -/
namespace Cnl.Wide.Div

/-! ## basic helpers -/

theorem WF_nil (w : Nat) : WF w [] := by intro x hx; cases hx

theorem WF_cons {w x : Nat} {xs : Limbs} : WF w (x :: xs) ↔ x < 2^w ∧ WF w xs := by
  simp [WF]

theorem pow_two_mul (w : Nat) : 2^(2*w) = 2^w * 2^w := by rw [Nat.two_mul, Nat.pow_add]

theorem lo_of_lt {w y : Nat} (h : y < 2^w) : lo w y = y := Nat.mod_eq_of_lt h
theorem dbl_of_lt {w y : Nat} (h : y < 2^(2*w)) : dbl w y = y := Nat.mod_eq_of_lt h

theorem toNat_lt {w : Nat} {a : Limbs} (ha : WF w a) : toNat w a < 2^(w * a.length) := by
  induction a with
  | nil => simp [toNat]
  | cons x xs ih =>
    rw [WF_cons] at ha
    have h1 := ih ha.2
    have hx := ha.1
    simp only [toNat, List.length_cons]
    rw [Nat.mul_succ, Nat.pow_add, Nat.mul_comm (2^(w * xs.length))]
    have : 2^w * (toNat w xs + 1) ≤ 2^w * 2^(w * xs.length) := Nat.mul_le_mul_left _ h1
    rw [Nat.mul_add] at this
    omega

theorem toNat_append (w : Nat) (a b : Limbs) :
    toNat w (a ++ b) = toNat w a + 2^(w * a.length) * toNat w b := by
  induction a with
  | nil => simp [toNat]
  | cons x xs ih =>
    simp only [List.cons_append, toNat, List.length_cons, ih]
    rw [Nat.mul_succ, Nat.pow_add, Nat.mul_add, Nat.mul_comm (2^(w * xs.length)) (2^w), Nat.mul_assoc]
    omega

theorem WF_append {w : Nat} {a b : Limbs} : WF w (a ++ b) ↔ WF w a ∧ WF w b := by
  simp only [WF, List.mem_append]
  constructor
  · intro h; exact ⟨fun x hx => h x (Or.inl hx), fun x hx => h x (Or.inr hx)⟩
  · intro h x hx; cases hx with
    | inl hx => exact h.1 x hx
    | inr hx => exact h.2 x hx

theorem toNat_all_zero {w : Nat} {a : Limbs} (hz : ∀ x ∈ a, x = 0) : toNat w a = 0 := by
  induction a with
  | nil => rfl
  | cons x xs ih =>
    have hx : x = 0 := hz x (by simp)
    have := ih (fun y hy => hz y (by simp [hy]))
    simp [toNat, hx, this]

theorem WF_all_zero {w : Nat} {a : Limbs} (hz : ∀ x ∈ a, x = 0) : WF w a := by
  intro x hx; rw [hz x hx]; exact Nat.two_pow_pos _

theorem headD_append_zero {l z : Limbs} (hz : ∀ x ∈ z, x = 0) : (l ++ z).headD 0 = l.headD 0 := by
  cases l with
  | nil =>
    cases z with
    | nil => rfl
    | cons y ys => simpa using hz y (by simp)
  | cons x xs => rfl

/-! ## the arithmetic of one short-division step -/

theorem div_step_arith {B d x X : Nat} (hd : 0 < d) (hx : x < B) :
    x + (X % d) * B < d * B ∧ (x + (X % d) * B) / d < B
    ∧ (x + B * X) / d = B * (X / d) + (x + (X % d) * B) / d
    ∧ (x + B * X) % d = (x + (X % d) * B) % d := by
  have hρ : X % d < d := Nat.mod_lt _ hd
  have h1 : x + (X % d) * B < d * B := by
    have : (X % d + 1) * B ≤ d * B := Nat.mul_le_mul_right _ hρ
    rw [Nat.add_mul] at this
    omega
  have h2 : (x + (X % d) * B) / d < B := Nat.div_lt_of_lt_mul h1
  have hX : x + B * X = (x + (X % d) * B) + d * (B * (X / d)) := by
    have := Nat.div_add_mod X d
    calc x + B * X = x + B * (d * (X / d) + X % d) := by rw [this]
      _ = (x + (X % d) * B) + d * (B * (X / d)) := by
        rw [Nat.mul_add, Nat.mul_comm (X % d) B, Nat.mul_left_comm]; omega
  refine ⟨h1, h2, ?_, ?_⟩
  · rw [hX, Nat.add_mul_div_left _ _ hd]; omega
  · rw [hX, Nat.add_mul_mod_self_left]

/-- the wrapped subtraction `ln - d*q` in `double_limb_type` -/
theorem dbl_sub_wrap {w d ln q : Nat} (h1 : d * q ≤ ln) (h2 : ln < 2^(2*w)) :
    dbl w (ln + 2^(2*w) - dbl w (d * q)) = ln - d * q := by
  have h3 : dbl w (d * q) = d * q := dbl_of_lt (Nat.lt_of_le_of_lt h1 h2)
  rw [h3]
  have : ln + 2^(2*w) - d * q = (ln - d * q) + 2^(2*w) := by omega
  rw [this]
  unfold dbl
  rw [Nat.add_mod_right]
  exact Nat.mod_eq_of_lt (by omega)

/-- the new `long_numerator`: `x + ρ·B`, no wrap -/
theorem dbl_ln {w d x ρ : Nat} (hdw : d < 2^w) (hx : x < 2^w) (hρ : ρ < d) :
    dbl w (x + dbl w (ρ * 2^w)) = x + ρ * 2^w ∧ x + ρ * 2^w < d * 2^w ∧ d * 2^w ≤ 2^(2*w) := by
  have hB : d * 2^w ≤ 2^(2*w) := by
    rw [pow_two_mul]; exact Nat.mul_le_mul_right _ (Nat.le_of_lt hdw)
  have h1 : x + ρ * 2^w < d * 2^w := by
    have : (ρ + 1) * 2^w ≤ d * 2^w := Nat.mul_le_mul_right _ hρ
    rw [Nat.add_mul] at this
    omega
  have h2 : dbl w (ρ * 2^w) = ρ * 2^w := dbl_of_lt (by omega)
  rw [h2]
  exact ⟨dbl_of_lt (by omega), h1, hB⟩

/-! ## `divShortAux` -/

/-- invariant of the loop of eval_divide_by_single_limb, from the top limb down -/
theorem divShortAux_spec {w d} {a : Limbs} (hd : 0 < d) (hdw : d < 2^w) (ha : WF w a) :
    let r := divShortAux w d a
    toNat w r.1 = toNat w a / d ∧ d * r.2.2 ≤ r.2.1 ∧ r.2.1 - d * r.2.2 = toNat w a % d ∧ r.2.1 < 2^(2*w)
    ∧ r.2.2 < 2^w ∧ WF w r.1 ∧ r.1.length = a.length := by
  induction a with
  | nil =>
    simp only [divShortAux, toNat, List.length_nil]
    refine ⟨by simp, by simp, by simp, Nat.two_pow_pos _, Nat.two_pow_pos _, WF_nil w, trivial⟩
  | cons x xs ih =>
    rw [WF_cons] at ha
    obtain ⟨hx, hxs⟩ := ha
    obtain ⟨ih1, ih2, ih3, ih4, ih5, ih6, ih7⟩ := ih hxs
    simp only [divShortAux]
    generalize divShortAux w d xs = r at *
    rw [dbl_sub_wrap ih2 ih4, ih3]
    have hρ : toNat w xs % d < d := Nat.mod_lt _ hd
    obtain ⟨e1, e2, e3⟩ := dbl_ln hdw hx hρ
    rw [e1]
    obtain ⟨a1, a2, a3, a4⟩ := div_step_arith (X := toNat w xs) hd hx
    rw [lo_of_lt a2]
    simp only [toNat, List.length_cons]
    refine ⟨?_, Nat.mul_div_le _ _, ?_, by omega, a2, ?_, by rw [ih7]⟩
    · rw [ih1, a3]; omega
    · rw [a4]
      have := Nat.div_add_mod (x + toNat w xs % d * 2^w) d
      omega
    · rw [WF_cons]; exact ⟨a2, ih6⟩

theorem divShortAux_headD (w d : Nat) (a : Limbs) :
    (divShortAux w d a).1.headD 0 = (divShortAux w d a).2.2 := by
  cases a with
  | nil => rfl
  | cons x xs => simp [divShortAux]

/-- the tail of `divShort`: remainder recovered from the final `long_numerator` -/
theorem divShort_rem {w d X : Nat} (hd : 0 < d) (hdw : d < 2^w) {r : Limbs × Nat × Nat}
    (h2 : d * r.2.2 ≤ r.2.1) (h3 : r.2.1 - d * r.2.2 = X % d) (h4 : r.2.1 < 2^(2*w)) (h5 : r.2.2 < 2^w) :
    lo w (dbl w (r.2.2 + dbl w (dbl w (r.2.1 + 2^(2*w) - dbl w (d * r.2.2)) * 2^w)) / 2^w) = X % d := by
  rw [dbl_sub_wrap h2 h4, h3]
  have hρ : X % d < d := Nat.mod_lt _ hd
  obtain ⟨e1, e2, e3⟩ := dbl_ln hdw h5 hρ
  rw [e1]
  have hB : 0 < 2^w := Nat.two_pow_pos _
  have : (r.2.2 + X % d * 2^w) / 2^w = X % d := by
    rw [Nat.mul_comm, Nat.add_mul_div_left _ _ hB, Nat.div_eq_of_lt h5]; omega
  rw [this]
  exact lo_of_lt (by omega)

/-- with `uOffset` leading zero limbs skipped (they stay in place) -/
theorem divShort_offset_spec {w d} {a : Limbs} {k : Nat} (hd : 0 < d) (hdw : d < 2^w) (ha : WF w a) (hk : k ≤ a.length)
    (hz : ∀ x ∈ a.drop (a.length - k), x = 0) :
    toNat w (divShort w d k a).1 = toNat w a / d ∧ (divShort w d k a).2 = toNat w a % d
    ∧ WF w (divShort w d k a).1 ∧ (divShort w d k a).1.length = a.length := by
  have hsplit : a.take (a.length - k) ++ a.drop (a.length - k) = a := List.take_append_drop _ _
  have hWFt : WF w (a.take (a.length - k)) := by
    intro x hx; exact ha x (List.mem_of_mem_take hx)
  have hval : toNat w a = toNat w (a.take (a.length - k)) := by
    conv => lhs; rw [← hsplit]
    rw [toNat_append, toNat_all_zero hz]; simp
  obtain ⟨s1, s2, s3, s4, s5, s6, s7⟩ := divShortAux_spec hd hdw hWFt
  simp only [divShort]
  rw [headD_append_zero hz, divShortAux_headD]
  generalize divShortAux w d (a.take (a.length - k)) = r at *
  refine ⟨?_, ?_, ?_, ?_⟩
  · rw [toNat_append, toNat_all_zero hz, hval, s1]; simp
  · rw [hval]; exact divShort_rem hd hdw s2 s3 s4 s5
  · rw [WF_append]; exact ⟨s6, WF_all_zero hz⟩
  · rw [List.length_append, s7, List.length_take, List.length_drop]; omega

theorem divShort_spec {w d} {a : Limbs} (hd : 0 < d) (hdw : d < 2^w) (ha : WF w a) :
    toNat w (divShort w d 0 a).1 = toNat w a / d ∧ (divShort w d 0 a).2 = toNat w a % d
    ∧ WF w (divShort w d 0 a).1 ∧ (divShort w d 0 a).1.length = a.length :=
  divShort_offset_spec hd hdw ha (Nat.zero_le _) (by simp)

/-! ## `unnormalise` -/

/-- the un-normalising division of the Knuth remainder by d (exact when d divides, in general floor) -/
theorem unnormalise_spec {w d} {a : Limbs} (hd : 0 < d) (hdw : d < 2^w) (ha : WF w a) :
    toNat w (unnormalise w d a).1 = toNat w a / d ∧ (unnormalise w d a).2 = toNat w a % d
    ∧ WF w (unnormalise w d a).1 ∧ (unnormalise w d a).1.length = a.length := by
  induction a with
  | nil =>
    simp only [unnormalise, toNat, List.length_nil]
    exact ⟨by simp, by simp, WF_nil w, trivial⟩
  | cons x xs ih =>
    rw [WF_cons] at ha
    obtain ⟨hx, hxs⟩ := ha
    obtain ⟨ih1, ih2, ih3, ih4⟩ := ih hxs
    simp only [unnormalise]
    generalize unnormalise w d xs = r at *
    rw [ih2]
    have hρ : toNat w xs % d < d := Nat.mod_lt _ hd
    obtain ⟨e1, e2, e3⟩ := dbl_ln hdw hx hρ
    rw [e1]
    obtain ⟨a1, a2, a3, a4⟩ := div_step_arith (X := toNat w xs) hd hx
    rw [lo_of_lt a2]
    have hle : d * ((x + toNat w xs % d * 2^w) / d) ≤ x + toNat w xs % d * 2^w := Nat.mul_div_le _ _
    rw [dbl_sub_wrap hle (by omega)]
    have hdm := Nat.div_add_mod (x + toNat w xs % d * 2^w) d
    have hml : (x + toNat w xs % d * 2^w) % d < d := Nat.mod_lt _ hd
    simp only [toNat, List.length_cons]
    refine ⟨?_, ?_, ?_, by rw [ih4]⟩
    · rw [ih1, a3]; omega
    · rw [a4, lo_of_lt (by omega)]; omega
    · rw [WF_cons]; exact ⟨a2, ih3⟩

/-! ## the step of the decimal digit loop (`digitsLoop`) -/

theorem lo_dbl (w y : Nat) : lo w (dbl w y) = y % 2^w := by
  unfold lo dbl
  exact Nat.mod_mod_of_dvd y ⟨2^w, pow_two_mul w⟩

/-- pure arithmetic of the digit extraction: low limb of `t - 10·(t/10)` -/
theorem digit_arith {B t0 T' q0 Q' : Nat} (hB : 10 < B)
    (hQ : q0 + B * Q' = (t0 + B * T') / 10) :
    (t0 + B * B - (q0 * 10) % B) % B = (t0 + B * T') % 10 := by
  have hB0 : 0 < B := by omega
  have hm : (q0 * 10) % B < B := Nat.mod_lt _ hB0
  have hdm := Nat.div_add_mod (q0 * 10) B
  have hT := Nat.div_add_mod (t0 + B * T') 10
  have hδ : (t0 + B * T') % 10 < 10 := Nat.mod_lt _ (by decide)
  rw [← hQ] at hT
  have hBB : B ≤ B * B := Nat.le_mul_of_pos_left B hB0
  have key : (t0 + B * B - (q0 * 10) % B) + B * T'
      = (t0 + B * T') % 10 + B * (q0 * 10 / B + 10 * Q' + B) := by
    rw [Nat.mul_add, Nat.mul_add, Nat.mul_left_comm B 10 Q']
    rw [Nat.mul_add] at hT
    generalize (t0 + B * T') % 10 = δ at *
    generalize B * T' = bt at *
    generalize B * Q' = bq at *
    generalize B * B = bb at *
    generalize B * (q0 * 10 / B) = bc at *
    generalize (q0 * 10) % B = m at *
    omega
  calc (t0 + B * B - (q0 * 10) % B) % B
      = ((t0 + B * B - (q0 * 10) % B) + B * T') % B := by rw [Nat.add_mul_mod_self_left]
    _ = (t0 + B * T') % 10 := by
        rw [key, Nat.add_mul_mod_self_left]; exact Nat.mod_eq_of_lt (by omega)

/-- the digit extraction, for any limb list `q` of the right length whose value is `t / 10` -/
theorem digit_of_quot {w : Nat} {t q : Limbs} (hw : 10 < 2^w)
    (hq : toNat w q = toNat w t / 10) (hl : q.length = t.length) :
    lo w ((subN w t (mul1d w q 10).1 false).1.headD 0) = toNat w t % 10 := by
  cases t with
  | nil =>
    cases q with
    | nil => simp [subN, toNat, lo]
    | cons _ _ => simp at hl
  | cons t0 ts =>
    cases q with
    | nil => simp at hl
    | cons q0 qs =>
      simp only [toNat] at hq
      simp only [mul1d, mul1dLoop, subN, List.headD_cons, Nat.zero_add, Nat.sub_zero,
        if_neg (by decide : ¬ (10 = 0)), Bool.false_eq_true, if_false, toNat]
      rw [lo_dbl, lo_dbl, lo_of_lt (Nat.mod_lt _ (Nat.two_pow_pos w))]
      have e : dbl w (q0 * 10) % 2^w = (q0 * 10) % 2^w := lo_dbl w _
      rw [e, pow_two_mul]
      exact digit_arith hw hq

/-- one iteration of `digitsLoop`: the new value is `t / 10` and the emitted digit is `t % 10` -/
theorem digit_step_spec {w : Nat} {t : Limbs} (hw : 10 < 2^w) (ht : WF w t) :
    let q := (divShort w (lo w 10) 0 t).1
    let t10 := (mul1d w q (lo w 10)).1
    toNat w q = toNat w t / 10 ∧ WF w q ∧ q.length = t.length
    ∧ lo w ((subN w t t10 false).1.headD 0) = toNat w t % 10 := by
  have h10 : lo w 10 = 10 := lo_of_lt hw
  rw [h10]
  obtain ⟨s1, _, s3, s4⟩ := divShort_spec (w := w) (d := 10) (a := t) (by decide) hw ht
  exact ⟨s1, s3, s4, digit_of_quot hw s1 s4⟩


end Cnl.Wide.Div

/-! ## Knuth: Algorithm D: completeness of the q-hat correction -/
/-! # Knuth Algorithm D as coded (`divKnuth`) is complete and correct -/
namespace Cnl.Wide.Knuth
open Cnl.Wide
open Cnl.Wide.Basic

/-! ## list helpers -/

theorem WF_getD {w : Nat} {l : Limbs} (h : WF w l) (i : Nat) : l.getD i 0 < 2^w := by
  rw [List.getD_eq_getElem?_getD]
  by_cases hi : i < l.length
  · rw [List.getElem?_eq_getElem hi]
    exact h _ (List.getElem_mem hi)
  · rw [List.getElem?_eq_none (by omega)]
    exact Nat.two_pow_pos w

theorem toNat_top1 {w : Nat} {l : Limbs} {m : Nat} (hl : l.length = m + 1) :
    toNat w l = toNat w (l.take m) + 2^(w*m) * l.getD m 0 := by
  induction m generalizing l with
  | zero =>
    match l, hl with
    | [a], _ => simp [toNat]
  | succ m ih =>
    match l, hl with
    | x :: xs, hl =>
      have hl' : xs.length = m + 1 := by simpa using hl
      simp only [List.take_succ_cons, toNat, List.getD_cons_succ, ih hl', pow_succ_len]
      simp only [Nat.mul_add, Nat.mul_assoc, Nat.add_assoc]

theorem toNat_top2 {w : Nat} {l : Limbs} {m : Nat} (hl : l.length = m + 2) :
    toNat w l = toNat w (l.take m) + 2^(w*m) * (l.getD m 0 + 2^w * l.getD (m+1) 0) := by
  induction m generalizing l with
  | zero =>
    match l, hl with
    | [a, b], _ => simp [toNat]
  | succ m ih =>
    match l, hl with
    | x :: xs, hl =>
      have hl' : xs.length = m + 2 := by simpa using hl
      simp only [List.take_succ_cons, toNat, List.getD_cons_succ, ih hl', pow_succ_len]
      simp only [Nat.mul_add, Nat.mul_assoc, Nat.add_assoc]

theorem toNat_top3 {w : Nat} {l : Limbs} {m : Nat} (hl : l.length = m + 3) :
    toNat w l = toNat w (l.take m)
      + 2^(w*m) * (l.getD m 0 + 2^w * (l.getD (m+1) 0 + 2^w * l.getD (m+2) 0)) := by
  induction m generalizing l with
  | zero =>
    match l, hl with
    | [a, b, c], _ => simp [toNat]
  | succ m ih =>
    match l, hl with
    | x :: xs, hl =>
      have hl' : xs.length = m + 3 := by simpa using hl
      simp only [List.take_succ_cons, toNat, List.getD_cons_succ, ih hl', pow_succ_len]
      simp only [Nat.mul_add, Nat.mul_assoc, Nat.add_assoc]

theorem getD_window (uu : Limbs) (k n i : Nat) (hi : i < n) :
    ((uu.drop k).take n).getD i 0 = uu.getD (k + i) 0 := by
  simp [List.getD_eq_getElem?_getD, List.getElem?_drop, hi]

theorem take_lt_pow {w : Nat} {l : Limbs} (h : WF w l) (k : Nat) : toNat w (l.take k) < 2^(w*k) := by
  have h1 := Shift.toNat_lt (Shift.WF_take k h)
  have h2 : (l.take k).length ≤ k := by rw [List.length_take]; exact Nat.min_le_left _ _
  exact Nat.lt_of_lt_of_le h1 (Nat.pow_le_pow_right (by decide) (Nat.mul_le_mul_left w h2))

/-! ## `topZeros` -/

theorem topZeros_le (a : Limbs) : topZeros a ≤ a.length := by
  induction a with
  | nil => simp [topZeros]
  | cons x xs ih =>
    simp only [topZeros, List.length_cons]
    split <;> omega

theorem topZeros_zero (a : Limbs) : ∀ x ∈ a.drop (a.length - topZeros a), x = 0 := by
  induction a with
  | nil => simp
  | cons x xs ih =>
    have hle := topZeros_le xs
    simp only [topZeros, List.length_cons]
    by_cases h : topZeros xs = xs.length ∧ x = 0
    · rw [if_pos h]
      rw [h.1] at ih ⊢
      simp only [Nat.sub_self, List.drop_zero] at ih ⊢
      intro y hy
      rw [List.mem_cons] at hy
      cases hy with
      | inl hy => rw [hy]; exact h.2
      | inr hy => exact ih y hy
    · rw [if_neg h]
      have : xs.length + 1 - topZeros xs = (xs.length - topZeros xs) + 1 := by omega
      rw [this, List.drop_succ_cons]
      exact ih

theorem topZeros_top (a : Limbs) (h : topZeros a < a.length) :
    a.getD (a.length - topZeros a - 1) 0 ≠ 0 := by
  induction a with
  | nil => simp at h
  | cons x xs ih =>
    have hle := topZeros_le xs
    simp only [topZeros, List.length_cons] at h ⊢
    by_cases hc : topZeros xs = xs.length ∧ x = 0
    · rw [if_pos hc] at h; omega
    · rw [if_neg hc] at h ⊢
      by_cases hlt : topZeros xs < xs.length
      · have : xs.length + 1 - topZeros xs - 1 = (xs.length - topZeros xs - 1) + 1 := by omega
        rw [this, List.getD_cons_succ]
        exact ih hlt
      · have he : topZeros xs = xs.length := by omega
        have hx : x ≠ 0 := fun hx => hc ⟨he, hx⟩
        rw [he]
        have : xs.length + 1 - xs.length - 1 = 0 := by omega
        rw [this]
        simpa using hx

/-- the value ignores the zero limbs at the top -/
theorem topZeros_val (w : Nat) (a : Limbs) :
    toNat w a = toNat w (a.take (a.length - topZeros a)) := by
  rw [Shift.toNat_take_drop w a (a.length - topZeros a) (Nat.sub_le _ _),
    Div.toNat_all_zero (topZeros_zero a)]
  simp

theorem topZeros_all {w : Nat} {a : Limbs} (h : topZeros a = a.length) : toNat w a = 0 := by
  have := topZeros_zero a
  rw [h, Nat.sub_self, List.drop_zero] at this
  exact Div.toNat_all_zero this

/-- with `m+1` significant limbs, the value is at least `top · B^m`, top ≠ 0 -/
theorem topZeros_bounds {w : Nat} {a : Limbs} (ha : WF w a) {m : Nat}
    (hm : a.length - topZeros a = m + 1) :
    a.getD m 0 ≠ 0 ∧ toNat w a = toNat w (a.take m) + 2^(w*m) * a.getD m 0
      ∧ toNat w (a.take m) < 2^(w*m) := by
  have hle := topZeros_le a
  have h1 := topZeros_top a (by omega)
  have hidx : a.length - topZeros a - 1 = m := by omega
  rw [hidx] at h1
  refine ⟨h1, ?_, take_lt_pow ha m⟩
  rw [topZeros_val w a, hm]
  have hlen : (a.take (m+1)).length = m + 1 := by rw [List.length_take]; omega
  rw [toNat_top1 hlen, List.take_take, Nat.min_eq_left (by omega)]
  congr 2
  simp [List.getD_eq_getElem?_getD]


/-! ## pure arithmetic of the `q̂` estimate (Knuth 4.3.1, Theorem B and the step-D3 test) -/

/-- the D3 test fires only when `q̂` is too big -/
theorem qhat_too_big {B v1 v2 P V u2 A W qhat t : Nat}
    (hA : qhat * v1 + t = A) (hc : t * B + u2 < v2 * qhat)
    (hV : P * (v2 + B * v1) ≤ V) (hW : W < P * (u2 + B * A) + P) : W < qhat * V := by
  have h1 : u2 + B * A + 1 ≤ qhat * (v2 + B * v1) := by
    rw [← hA]
    simp only [Nat.mul_add]
    rw [Nat.mul_comm qhat v2, Nat.mul_left_comm qhat B v1, Nat.mul_comm B t]
    omega
  have h2 : P * (u2 + B * A + 1) ≤ P * (qhat * (v2 + B * v1)) := Nat.mul_le_mul_left _ h1
  have h3 : qhat * (P * (v2 + B * v1)) ≤ qhat * V := Nat.mul_le_mul_left _ hV
  rw [Nat.mul_left_comm] at h2
  rw [Nat.mul_add, Nat.mul_one] at h2
  omega

/-- when the D3 test does not fire (and `t < B`), `q̂ - 1 ≤ q` -/
theorem qhat_ok_test {B v1 v2 P V u2 A W qhat t : Nat}
    (hA : qhat * v1 + t = A) (hc : v2 * qhat ≤ t * B + u2) (hq : qhat ≤ B) (hv1 : 1 ≤ v1)
    (hV : V < P * (v2 + B * v1) + P) (hW : P * (u2 + B * A) ≤ W) : (qhat - 1) * V ≤ W := by
  cases qhat with
  | zero => simp
  | succ k =>
    simp only [Nat.add_sub_cancel]
    have h1 : (k + 1) * (v2 + B * v1) ≤ u2 + B * A := by
      rw [← hA]
      simp only [Nat.mul_add]
      rw [Nat.mul_comm (k+1) v2, Nat.mul_left_comm (k+1) B v1, Nat.mul_comm B t]
      omega
    have hk : k ≤ v2 + B * v1 := by
      have : B * 1 ≤ B * v1 := Nat.mul_le_mul_left _ hv1
      omega
    generalize v2 + B * v1 = C at *
    have h2 : k * V ≤ k * (P * C + P) := Nat.mul_le_mul_left _ (Nat.le_of_lt hV)
    have h3 : k * (P * C + P) = P * (k * C + k) := by grind
    have h4 : P * (k * C + k) ≤ P * ((k + 1) * C) := by
      apply Nat.mul_le_mul_left
      rw [Nat.add_mul, Nat.one_mul]; omega
    have h5 : P * ((k + 1) * C) ≤ P * (u2 + B * A) := Nat.mul_le_mul_left _ h1
    omega

/-- when `t ≥ B` the estimate is already exact -/
theorem qhat_ok_big {B v1 v2 P V u2 A W qhat t : Nat}
    (hA : qhat * v1 + t = A) (ht : B ≤ t) (hq : qhat < B) (hv2 : v2 < B)
    (hV : V < P * (v2 + B * v1) + P) (hW : P * (u2 + B * A) ≤ W) : qhat * V ≤ W := by
  have h0 : P * (v2 + B * v1) + P ≤ P * (B * (v1 + 1)) := by
    rw [← Nat.mul_succ]
    apply Nat.mul_le_mul_left
    rw [Nat.mul_add, Nat.mul_one]; omega
  have h1 : qhat * V ≤ qhat * (P * (B * (v1 + 1))) := Nat.mul_le_mul_left _ (by omega)
  have h2 : qhat * (P * (B * (v1 + 1))) = P * (B * (qhat * v1 + qhat)) := by grind
  have h3 : P * (B * (qhat * v1 + qhat)) ≤ P * (B * A) := by
    apply Nat.mul_le_mul_left; apply Nat.mul_le_mul_left; omega
  have h4 : P * (B * A) ≤ P * (u2 + B * A) := Nat.mul_le_mul_left _ (by omega)
  omega

/-- the first estimate is not below the true digit -/
theorem qhat0_ge {B v1 v2 P V u2 A W : Nat} (hv1 : 0 < v1) (hu2 : u2 < B)
    (hV : P * (v2 + B * v1) ≤ V) (hW : W < P * (u2 + B * A) + P) : W < (A / v1 + 1) * V := by
  have h0 : A + 1 ≤ (A / v1 + 1) * v1 := by
    have := Nat.div_add_mod A v1
    have := Nat.mod_lt A hv1
    rw [Nat.add_mul, Nat.one_mul, Nat.mul_comm]; omega
  generalize A / v1 + 1 = k at *
  have h1 : k * (P * (B * v1)) ≤ k * V := by
    apply Nat.mul_le_mul_left
    refine Nat.le_trans (Nat.mul_le_mul_left _ ?_) hV
    omega
  have h2 : k * (P * (B * v1)) = P * (B * (k * v1)) := by grind
  have h3 : P * (B * (A + 1)) ≤ P * (B * (k * v1)) := by
    apply Nat.mul_le_mul_left; apply Nat.mul_le_mul_left; exact h0
  have h4 : P * (u2 + B * A) + P ≤ P * (B * (A + 1)) := by
    rw [← Nat.mul_succ]
    apply Nat.mul_le_mul_left
    rw [Nat.mul_add, Nat.mul_one]; omega
  omega

theorem dbl_id {w x : Nat} (h : x < 2^w * 2^w) : dbl w x = x := by
  unfold dbl; rw [two_pow_two_mul]; exact Nat.mod_eq_of_lt h

theorem hi_zero {w t : Nat} (h : t < 2^w) : hi w t = 0 := by
  unfold hi; rw [Nat.div_eq_of_lt h]; simp

theorem hi_ne_zero {w t : Nat} (h1 : 2^w ≤ t) (h2 : t < 2^w * 2^w) : hi w t ≠ 0 := by
  unfold hi
  have hB := Nat.two_pow_pos w
  have h3 : t / 2^w < 2^w := Nat.div_lt_of_lt_mul h2
  have h4 : 1 ≤ t / 2^w := (Nat.le_div_iff_mul_le hB).mpr (by omega)
  rw [Nat.mod_eq_of_lt h3]; omega

theorem pred_mod {B q : Nat} (h1 : 1 ≤ q) (h2 : q < B) : (q + B - 1) % B = q - 1 := by
  have : q + B - 1 = (q - 1) + B := by omega
  rw [this, Nat.add_mod_right, Nat.mod_eq_of_lt (by omega)]

/-- the `q̂` decrement loop ends within its fuel with `q ≤ q̂ ≤ q + 1` -/
theorem qhatAdjust_spec {w v1 v2 u2 P V A W : Nat} (hw : 1 ≤ w)
    (hv1 : 1 ≤ v1) (hv1B : v1 < 2^w) (hv2 : v2 < 2^w) (hu2 : u2 < 2^w) (hA : A < 2^w * 2^w)
    (hVlo : P * (v2 + 2^w * v1) ≤ V) (hVhi : V < P * (v2 + 2^w * v1) + P)
    (hWlo : P * (u2 + 2^w * A) ≤ W) (hWhi : W < P * (u2 + 2^w * A) + P) :
    ∀ fuel qhat t decs, qhat * v1 + t = A → qhat < 2^w → qhat < fuel → W < (qhat + 1) * V →
      ∃ qh ds, qhatAdjust w v1 v2 u2 fuel qhat t decs = some (qh, ds) ∧ qh < 2^w
        ∧ W < (qh + 1) * V ∧ (qh - 1) * V ≤ W := by
  have hB2 : 2 ≤ 2^w := by
    have : 2^1 ≤ 2^w := Nat.pow_le_pow_right (by decide) hw
    simpa using this
  have hBB : 2 * 2^w ≤ 2^w * 2^w := Nat.mul_le_mul_right _ hB2
  intro fuel
  induction fuel with
  | zero => intro qhat t decs _ _ h; omega
  | succ fuel ih =>
    intro qhat t decs hAt hq hf hle
    have htA : t < 2^w * 2^w := by omega
    rw [qhatAdjust]
    by_cases hbig : 2^w ≤ t
    · rw [if_pos (Or.inl (hi_ne_zero hbig htA))]
      refine ⟨qhat, decs, rfl, hq, hle, ?_⟩
      have := qhat_ok_big hAt hbig hq hv2 hVhi hWlo
      exact Nat.le_trans (Nat.mul_le_mul_right _ (Nat.sub_le _ _)) this
    · have htB : t < 2^w := by omega
      have e1 : dbl w (v2 * qhat) = v2 * qhat := dbl_id (Mul.prod_lt hv2 hq)
      have htb : t * 2^w + 2^w ≤ 2^w * 2^w := by
        have : (t + 1) * 2^w ≤ 2^w * 2^w := Nat.mul_le_mul_right _ htB
        rw [Nat.add_mul, Nat.one_mul] at this; exact this
      have e2 : dbl w (t * 2^w) = t * 2^w := dbl_id (by omega)
      have e3 : dbl w (t * 2^w + u2) = t * 2^w + u2 := dbl_id (by omega)
      rw [e1, e2, e3]
      by_cases hc : v2 * qhat ≤ t * 2^w + u2
      · rw [if_pos (Or.inr hc)]
        exact ⟨qhat, decs, rfl, hq, hle, qhat_ok_test hAt hc (Nat.le_of_lt hq) hv1 hVhi hWlo⟩
      · have hnot : ¬ (hi w t ≠ 0 ∨ v2 * qhat ≤ t * 2^w + u2) := by
          rw [hi_zero htB]; simp [hc]
        rw [if_neg hnot]
        have hlt := qhat_too_big hAt (Nat.lt_of_not_le hc) hVlo hWhi
        have hq1 : 1 ≤ qhat := by
          cases qhat with
          | zero => simp at hlt
          | succ k => omega
        rw [pred_mod hq1 hq, dbl_id (by omega : t + v1 < 2^w * 2^w)]
        apply ih
        · have : qhat * v1 = (qhat - 1) * v1 + v1 := by
            conv => lhs; rw [show qhat = (qhat - 1) + 1 by omega]
            rw [Nat.add_mul, Nat.one_mul]
          omega
        · omega
        · omega
        · rw [Nat.sub_add_cancel hq1]; exact hlt

/-! ## one iteration of the D3–D6 loop, split into the `q̂` part and the multiply–subtract part -/

/-- the `q̂` computation of one iteration (step D3) -/
def stepQ (w : Nat) (vv : Limbs) (nn k : Nat) (uu : Limbs) : Option (Nat × Nat) :=
  let uj := nn + k
  let ujv := uu.getD uj 0
  let uj1 := uu.getD (uj - 1) 0
  let uj2 := uu.getD (uj - 2) 0
  let vTop := vv.getD (nn - 1) 0
  let vNext := vv.getD (nn - 2) 0
  let ujj1 := dbl w (dbl w (ujv * 2^w) + uj1)
  let qhat0 := if ujv = vTop then 2^w - 1 else lo w (ujj1 / vTop)
  let t0 := dbl w (ujj1 + 2^(2*w) - dbl w (qhat0 * vTop))
  qhatAdjust w vTop vNext uj2 (2^w + 1) qhat0 t0 0

/-- multiply–subtract and add-back (steps D4–D6): ((digit, new window), borrow) -/
def stepW (w : Nat) (vv : Limbs) (nn k : Nat) (uu : Limbs) (qhat : Nat) : (Nat × Limbs) × Bool :=
  let m := mul1d w vv qhat
  let nv := m.1 ++ [m.2]
  let window := (uu.drop k).take (nn + 1)
  let s := subN w window nv false
  (if s.2 then ((qhat + 2^w - 1) % 2^w, (addN w (s.1.take nn) vv 0).1 ++ s.1.drop nn) else (qhat, s.1), s.2)

theorem knuthLoop_succ (w : Nat) (vv : Limbs) (nn k : Nat) (uu : Limbs) :
    knuthLoop w vv nn (k+1) uu =
      match stepQ w vv nn k uu with
      | none => none
      | some (qhat, decs) =>
        match knuthLoop w vv nn k (uu.take k ++ (stepW w vv nn k uu qhat).1.2 ++ uu.drop (k + nn + 1)) with
        | none => none
        | some (uuF, qs, st) =>
          some (uuF, qs ++ [(stepW w vv nn k uu qhat).1.1],
            { qhatDec := st.qhatDec + decs, addBack := st.addBack + (if (stepW w vv nn k uu qhat).2 then 1 else 0) }) := by
  rfl

theorem top_le {B P V W v1 v2 u0 u1 u2 : Nat} (hVhi : V < P * (v2 + B * v1) + P) (hv2 : v2 < B)
    (hWlo : P * (u2 + B * (u1 + B * u0)) ≤ W) (hWV : W < V * B) : u0 ≤ v1 := by
  apply Nat.le_of_not_lt
  intro hlt
  have h0 : P * (v2 + B * v1) + P ≤ P * (B * (v1 + 1)) := by
    rw [← Nat.mul_succ]
    apply Nat.mul_le_mul_left
    rw [Nat.mul_add, Nat.mul_one]; omega
  have h1 : V * B ≤ P * (B * (v1 + 1)) * B := Nat.mul_le_mul_right _ (by omega)
  have h2 : P * (B * (v1 + 1)) * B = P * (B * (B * (v1 + 1))) := by grind
  have h3 : P * (B * (B * (v1 + 1))) ≤ P * (u2 + B * (u1 + B * u0)) := by
    apply Nat.mul_le_mul_left
    have : B * (B * (v1 + 1)) ≤ B * (B * u0) :=
      Nat.mul_le_mul_left _ (Nat.mul_le_mul_left _ hlt)
    rw [Nat.mul_add B u1]; omega
  omega

/-- the decomposition of divisor and window into their top limbs -/
theorem stepQ_spec {w : Nat} {vv uu : Limbs} {n2 k : Nat} (hw : 1 ≤ w)
    (hvv : WF w vv) (hlv : vv.length = n2 + 2) (hVn : 2^(w*(n2+1)) ≤ toNat w vv)
    (huu : WF w uu) (hlu : n2 + 2 + k + 1 ≤ uu.length)
    (hWV : toNat w ((uu.drop k).take (n2 + 2 + 1)) < toNat w vv * 2^w) :
    ∃ qh decs, stepQ w vv (n2 + 2) k uu = some (qh, decs) ∧ qh < 2^w
      ∧ toNat w ((uu.drop k).take (n2 + 2 + 1)) < (qh + 1) * toNat w vv
      ∧ (qh - 1) * toNat w vv ≤ toNat w ((uu.drop k).take (n2 + 2 + 1)) := by
  have hB := Nat.two_pow_pos w
  have hB2 : 2 ≤ 2^w := by
    have : 2^1 ≤ 2^w := Nat.pow_le_pow_right (by decide) hw
    simpa using this
  -- the divisor
  have hV := toNat_top2 (w := w) hlv
  have hV0 := take_lt_pow hvv n2
  have hv1B := WF_getD hvv (n2 + 1)
  have hv2B := WF_getD hvv n2
  -- the window
  have hwl : ((uu.drop k).take (n2 + 2 + 1)).length = n2 + 3 := by
    rw [List.length_take, List.length_drop]; omega
  have hwwf : WF w ((uu.drop k).take (n2 + 2 + 1)) := Shift.WF_take _ (Shift.WF_drop _ huu)
  have hW := toNat_top3 (w := w) hwl
  have hW0 := take_lt_pow hwwf n2
  rw [getD_window uu k _ n2 (by omega), getD_window uu k _ (n2+1) (by omega),
    getD_window uu k _ (n2+2) (by omega)] at hW
  have hu0B := WF_getD huu (k + (n2 + 2))
  have hu1B := WF_getD huu (k + (n2 + 1))
  have hu2B := WF_getD huu (k + n2)
  -- unfold the code
  have i0 : n2 + 2 + k = k + (n2 + 2) := by omega
  have i1 : k + (n2 + 2) - 1 = k + (n2 + 1) := by omega
  have i2 : k + (n2 + 2) - 2 = k + n2 := by omega
  have i3 : n2 + 2 - 1 = n2 + 1 := by omega
  have i4 : n2 + 2 - 2 = n2 := by omega
  simp only [stepQ, i0, i1, i2, i3, i4]
  generalize toNat w ((uu.drop k).take (n2 + 2 + 1)) = W at *
  generalize toNat w (((uu.drop k).take (n2 + 2 + 1)).take n2) = W0 at *
  generalize toNat w vv = V at *
  generalize toNat w (vv.take n2) = V0 at *
  generalize uu.getD (k + (n2 + 2)) 0 = u0 at *
  generalize uu.getD (k + (n2 + 1)) 0 = u1 at *
  generalize uu.getD (k + n2) 0 = u2 at *
  generalize vv.getD (n2 + 1) 0 = v1 at *
  generalize vv.getD n2 0 = v2 at *
  have hP : 2^(w*(n2+1)) = 2^(w*n2) * 2^w := by rw [Nat.mul_succ, Nat.pow_add]
  rw [hP] at hVn
  generalize 2^(w*n2) = P at *
  -- bounds
  have hv1 : 1 ≤ v1 := by
    apply Nat.pos_of_ne_zero
    intro h0
    subst h0
    have : P * (v2 + 1) ≤ P * 2^w := Nat.mul_le_mul_left _ hv2B
    rw [Nat.mul_add] at this
    simp only [Nat.mul_zero, Nat.add_zero] at hV
    omega
  have hVlo : P * (v2 + 2^w * v1) ≤ V := by omega
  have hVhi : V < P * (v2 + 2^w * v1) + P := by omega
  have hA' : u1 + 2^w * u0 = u0 * 2^w + u1 := by rw [Nat.mul_comm]; omega
  have hWlo : P * (u2 + 2^w * (u0 * 2^w + u1)) ≤ W := by rw [← hA']; omega
  have hWhi : W < P * (u2 + 2^w * (u0 * 2^w + u1)) + P := by rw [← hA']; omega
  have hu0v1 : u0 ≤ v1 := top_le hVhi hv2B (by rw [← hA'] at hWlo; exact hWlo) hWV
  have hu0A : u0 * 2^w + 2^w ≤ 2^w * 2^w := by
    have : (u0 + 1) * 2^w ≤ 2^w * 2^w := Nat.mul_le_mul_right _ hu0B
    rw [Nat.add_mul, Nat.one_mul] at this; exact this
  have hA : u0 * 2^w + u1 < 2^w * 2^w := by omega
  have e1 : dbl w (u0 * 2^w) = u0 * 2^w := dbl_id (by omega)
  have e2 : dbl w (u0 * 2^w + u1) = u0 * 2^w + u1 := dbl_id hA
  rw [e1, e2]
  have hspec := qhatAdjust_spec hw hv1 hv1B hv2B hu2B hA hVlo hVhi hWlo hWhi
  by_cases hc : u0 = v1
  · rw [if_pos hc]
    have hle : (2^w - 1) * v1 ≤ u0 * 2^w + u1 := by
      rw [hc, Nat.sub_mul, Nat.mul_comm v1]; omega
    have ht := Div.dbl_sub_wrap (w := w) hle (by rw [two_pow_two_mul]; exact hA)
    rw [ht]
    apply hspec
    · omega
    · omega
    · omega
    · rw [Nat.sub_add_cancel (by omega), Nat.mul_comm]; exact hWV
  · rw [if_neg hc]
    have hlt : u0 * 2^w + u1 < 2^w * v1 := by
      have : (u0 + 1) * 2^w ≤ v1 * 2^w := Nat.mul_le_mul_right _ (by omega)
      rw [Nat.add_mul, Nat.one_mul, Nat.mul_comm v1] at this; omega
    have hq0 : (u0 * 2^w + u1) / v1 < 2^w := (Nat.div_lt_iff_lt_mul hv1).mpr hlt
    rw [Div.lo_of_lt hq0]
    have hle : (u0 * 2^w + u1) / v1 * v1 ≤ u0 * 2^w + u1 := Nat.div_mul_le_self _ _
    have ht := Div.dbl_sub_wrap (w := w) hle (by rw [two_pow_two_mul]; exact hA)
    rw [ht]
    apply hspec
    · omega
    · exact hq0
    · omega
    · exact qhat0_ge hv1 hu2B hVlo hWhi

/-- arithmetic of the add-back step: a borrow means `q̂ = q + 1`, and adding `V` back to the low
`nn` limbs (carry dropped) leaves the true remainder -/
theorem borrow_arith {B M V W Slo Shi qh T c : Nat}
    (h1 : Slo + M * Shi + V * qh = W + B * M) (hSlo : Slo < M) (hShi : Shi < B) (hVM : V < M)
    (hq1 : (qh - 1) * V ≤ W) (hadd : T + c * M = Slo + V) (hc : c ≤ 1) (hT : T < M) :
    1 ≤ qh ∧ W = (qh - 1) * V + T ∧ T < V := by
  obtain ⟨j, rfl⟩ : ∃ j, B = Shi + 1 + j := ⟨B - (Shi + 1), by omega⟩
  have e : (Shi + 1 + j) * M = M * Shi + M + M * j := by grind
  rw [e] at h1
  cases qh with
  | zero => simp at h1; omega
  | succ q =>
    simp only [Nat.add_sub_cancel] at hq1 ⊢
    have e2 : V * (q + 1) = q * V + V := by grind
    rw [e2] at h1
    have hj : j = 0 := by
      cases j with
      | zero => rfl
      | succ j' =>
        have : M * (j' + 1) = M * j' + M := by rw [Nat.mul_succ]
        omega
    subst hj
    have hc' : c = 0 ∨ c = 1 := by omega
    cases hc' with
    | inl h0 => subst h0; simp at hadd h1; omega
    | inr h1' => subst h1'; simp at hadd h1; omega

theorem stepW_spec {w : Nat} {vv uu : Limbs} {nn k qh : Nat} (hw : 1 ≤ w)
    (hvv : WF w vv) (hlv : vv.length = nn)
    (huu : WF w uu) (hlu : nn + k + 1 ≤ uu.length) (hqh : qh < 2^w)
    (hq2 : toNat w ((uu.drop k).take (nn + 1)) < (qh + 1) * toNat w vv)
    (hq1 : (qh - 1) * toNat w vv ≤ toNat w ((uu.drop k).take (nn + 1))) :
    (stepW w vv nn k uu qh).1.1 < 2^w ∧ WF w (stepW w vv nn k uu qh).1.2
      ∧ (stepW w vv nn k uu qh).1.2.length = nn + 1
      ∧ toNat w ((uu.drop k).take (nn + 1))
          = (stepW w vv nn k uu qh).1.1 * toNat w vv + toNat w ((stepW w vv nn k uu qh).1.2.take nn)
      ∧ toNat w ((stepW w vv nn k uu qh).1.2.take nn) < toNat w vv := by
  have hB := Nat.two_pow_pos w
  have hwl : ((uu.drop k).take (nn + 1)).length = nn + 1 := by
    rw [List.length_take, List.length_drop]; omega
  have hwwf : WF w ((uu.drop k).take (nn + 1)) := Shift.WF_take _ (Shift.WF_drop _ huu)
  obtain ⟨m1, m2, m3, m4⟩ := mul1d_spec (w := w) (a := vv) (b := qh) hvv hqh
  rw [hlv] at m1 m4
  have hnvwf : WF w ((mul1d w vv qh).1 ++ [(mul1d w vv qh).2]) := by
    rw [Shift.WF_append]; exact ⟨m3, WF_cons.mpr ⟨m2, WF_nil⟩⟩
  have hnvl : ((mul1d w vv qh).1 ++ [(mul1d w vv qh).2]).length = nn + 1 := by
    rw [List.length_append, m4]; rfl
  have hnv : toNat w ((mul1d w vv qh).1 ++ [(mul1d w vv qh).2]) = toNat w vv * qh := by
    rw [Shift.toNat_append, m4, ← m1]; simp [toNat, Nat.mul_comm]
  obtain ⟨s1, s2, s3⟩ := subN_spec (w := w) (bin := false) hw hwwf hnvwf (by rw [hwl, hnvl])
  rw [hnv, hwl] at s1
  simp only [Bool.false_eq_true, if_false, Nat.add_zero] at s1
  rw [hwl] at s3
  have hVM := toNat_lt hvv
  rw [hlv] at hVM
  simp only [stepW]
  generalize subN w ((uu.drop k).take (nn + 1)) ((mul1d w vv qh).1 ++ [(mul1d w vv qh).2]) false = s at *
  generalize toNat w ((uu.drop k).take (nn + 1)) = W at *
  by_cases hb : s.2 = true
  · simp only [hb, if_true] at s1 ⊢
    have htl : (s.1.take nn).length = nn := by rw [List.length_take, s3]; omega
    have htwf : WF w (s.1.take nn) := Shift.WF_take _ s2
    obtain ⟨a1, a2, a3, a4⟩ := addN_spec (w := w) (c := 0) hw htwf hvv (by rw [htl, hlv]) (by omega)
    rw [htl] at a1 a4
    have hsplit := Shift.toNat_take_drop w s.1 nn (by omega)
    have hSlo := toNat_lt htwf
    rw [htl] at hSlo
    have hShi := toNat_lt (Shift.WF_drop nn s2)
    have hdl : (s.1.drop nn).length = 1 := by rw [List.length_drop, s3]; omega
    rw [hdl, Nat.mul_one] at hShi
    have hTl := toNat_lt a3
    rw [a4] at hTl
    rw [List.take_left' a4]
    rw [pow_succ_len] at s1
    generalize addN w (s.1.take nn) vv 0 = r at *
    have key := borrow_arith (B := 2^w) (M := 2^(w*nn)) (V := toNat w vv) (W := W)
      (Slo := toNat w (s.1.take nn)) (Shi := toNat w (s.1.drop nn)) (qh := qh) (T := toNat w r.1) (c := r.2)
      (by rw [← hsplit]; omega) hSlo hShi hVM hq1 (by omega) a2 hTl
    obtain ⟨k1, k2, k3⟩ := key
    refine ⟨?_, ?_, ?_, ?_, k3⟩
    · rw [pred_mod k1 hqh]; omega
    · rw [Shift.WF_append]; exact ⟨a3, Shift.WF_drop _ s2⟩
    · rw [List.length_append, a4, hdl]
    · rw [pred_mod k1 hqh]; exact k2
  · have hb' : s.2 = false := by simpa using hb
    simp only [hb', Bool.false_eq_true, if_false, Nat.zero_mul, Nat.add_zero] at s1 ⊢
    have e : (qh + 1) * toNat w vv = toNat w vv * qh + toNat w vv := by
      rw [Nat.add_mul, Nat.one_mul, Nat.mul_comm]
    have hS : toNat w s.1 < toNat w vv := by omega
    have htk : toNat w (s.1.take nn) = toNat w s.1 := by
      rw [Shift.toNat_take nn s2 (by omega)]
      exact Nat.mod_eq_of_lt (by omega)
    rw [htk]
    refine ⟨hqh, s2, s3, ?_, hS⟩
    rw [Nat.mul_comm]; omega

/-! ## the loop invariant -/

theorem take_sandwich (a b c : Limbs) (n : Nat) (hn : n ≤ b.length) :
    (a ++ b ++ c).take (n + a.length) = a ++ b.take n := by
  rw [List.take_append_of_le_length (by rw [List.length_append]; omega)]
  rw [List.take_append]
  rw [List.take_of_length_le (by omega)]
  congr 2
  omega

theorem knuthLoop_spec {w : Nat} {vv : Limbs} {n2 : Nat} (hw : 1 ≤ w)
    (hvv : WF w vv) (hlv : vv.length = n2 + 2) (hVn : 2^(w*(n2+1)) ≤ toNat w vv) :
    ∀ (k : Nat) (uu : Limbs), WF w uu → n2 + 2 + k ≤ uu.length →
      toNat w (uu.take (n2 + 2 + k)) < toNat w vv * 2^(w*k) →
      ∃ uuF qs st, knuthLoop w vv (n2+2) k uu = some (uuF, qs, st) ∧ qs.length = k ∧ WF w qs
        ∧ uuF.length = uu.length ∧ WF w uuF
        ∧ toNat w (uu.take (n2 + 2 + k)) = toNat w qs * toNat w vv + toNat w (uuF.take (n2+2))
        ∧ toNat w (uuF.take (n2+2)) < toNat w vv := by
  intro k
  induction k with
  | zero =>
    intro uu huu hlu hU
    refine ⟨uu, [], {}, rfl, rfl, WF_nil, rfl, huu, ?_, ?_⟩
    · simp [toNat]
    · simpa using hU
  | succ k ih =>
    intro uu huu hlu hU
    have hlu' : n2 + 2 + k + 1 ≤ uu.length := by omega
    have hidx : n2 + 2 + (k + 1) = k + (n2 + 2 + 1) := by omega
    have hsplit : uu.take (n2 + 2 + (k + 1)) = uu.take k ++ (uu.drop k).take (n2 + 2 + 1) := by
      rw [hidx, List.take_add]
    have hlk : (uu.take k).length = k := by rw [List.length_take]; omega
    have hLk := take_lt_pow huu k
    have hUval : toNat w (uu.take (n2 + 2 + (k + 1)))
        = toNat w (uu.take k) + 2^(w*k) * toNat w ((uu.drop k).take (n2 + 2 + 1)) := by
      rw [hsplit, Shift.toNat_append, hlk]
    have hWV : toNat w ((uu.drop k).take (n2 + 2 + 1)) < toNat w vv * 2^w := by
      apply Nat.lt_of_not_le
      intro hge
      have : 2^(w*k) * (toNat w vv * 2^w) ≤ 2^(w*k) * toNat w ((uu.drop k).take (n2 + 2 + 1)) :=
        Nat.mul_le_mul_left _ hge
      have e : toNat w vv * 2^(w*(k+1)) = 2^(w*k) * (toNat w vv * 2^w) := by
        rw [pow_succ_len]; grind
      omega
    obtain ⟨qh, decs, hQ, hqh, hq2, hq1⟩ := stepQ_spec hw hvv hlv hVn huu hlu' hWV
    obtain ⟨r1, r2, r3, r4, r5⟩ := stepW_spec (k := k) hw hvv hlv huu hlu' hqh hq2 hq1
    generalize hr : stepW w vv (n2 + 2) k uu qh = r at *
    -- the updated dividend
    have hwf' : WF w (uu.take k ++ r.1.2 ++ uu.drop (k + (n2 + 2) + 1)) := by
      rw [Shift.WF_append, Shift.WF_append]
      exact ⟨⟨Shift.WF_take _ huu, r2⟩, Shift.WF_drop _ huu⟩
    have hlen' : (uu.take k ++ r.1.2 ++ uu.drop (k + (n2 + 2) + 1)).length = uu.length := by
      rw [List.length_append, List.length_append, hlk, r3, List.length_drop]; omega
    have htake' : (uu.take k ++ r.1.2 ++ uu.drop (k + (n2 + 2) + 1)).take (n2 + 2 + k)
        = uu.take k ++ r.1.2.take (n2 + 2) := by
      have := take_sandwich (uu.take k) r.1.2 (uu.drop (k + (n2 + 2) + 1)) (n2 + 2) (by omega)
      rw [hlk] at this
      exact this
    have hU'val : toNat w ((uu.take k ++ r.1.2 ++ uu.drop (k + (n2 + 2) + 1)).take (n2 + 2 + k))
        = toNat w (uu.take k) + 2^(w*k) * toNat w (r.1.2.take (n2 + 2)) := by
      rw [htake', Shift.toNat_append, hlk]
    have hU' : toNat w ((uu.take k ++ r.1.2 ++ uu.drop (k + (n2 + 2) + 1)).take (n2 + 2 + k))
        < toNat w vv * 2^(w*k) := by
      rw [hU'val]
      have : 2^(w*k) * (toNat w (r.1.2.take (n2 + 2)) + 1) ≤ 2^(w*k) * toNat w vv :=
        Nat.mul_le_mul_left _ r5
      rw [Nat.mul_add, Nat.mul_one, Nat.mul_comm _ (toNat w vv)] at this
      omega
    obtain ⟨uuF, qs, st, hL, hql, hqwf, hFl, hFwf, hFv, hFr⟩ :=
      ih _ hwf' (by rw [hlen']; omega) hU'
    rw [knuthLoop_succ, hQ]
    simp only [hr, hL]
    refine ⟨_, _, _, rfl, ?_, ?_, ?_, hFwf, ?_, hFr⟩
    · rw [List.length_append, hql]; rfl
    · rw [Shift.WF_append]; exact ⟨hqwf, WF_cons.mpr ⟨r1, WF_nil⟩⟩
    · rw [hFl, hlen']
    · rw [hUval, r4, Shift.toNat_append, hql]
      rw [hU'val] at hFv
      simp only [toNat, Nat.mul_zero, Nat.add_zero]
      generalize toNat w (uu.take k) = Lk at *
      generalize toNat w (r.1.2.take (n2 + 2)) = R at *
      generalize toNat w (uuF.take (n2 + 2)) = rem at *
      generalize toNat w qs = Q at *
      generalize toNat w vv = V at *
      generalize 2^(w*k) = P at *
      grind

/-! ## normalisation, the Knuth path -/

theorem norm_d {w v1 : Nat} (h1 : v1 ≠ 0) (h2 : v1 < 2^w) :
    lo w (2^w / (v1 + 1)) = 2^w / (v1 + 1) ∧ 1 ≤ 2^w / (v1 + 1) ∧ 2^w / (v1 + 1) < 2^w
      ∧ 2^w / (v1 + 1) * (v1 + 1) ≤ 2^w := by
  have hB := Nat.two_pow_pos w
  have hlt : 2^w / (v1 + 1) < 2^w := Nat.div_lt_self hB (by omega)
  exact ⟨Div.lo_of_lt hlt, Nat.div_pos (by omega) (by omega), hlt, Nat.div_mul_le_self _ _⟩

/-- the normalised dividend: one limb longer -/
theorem norm_u {w d : Nat} {a : Limbs} (ha : WF w a) (hd1 : 1 ≤ d) (hdB : d < 2^w) :
    WF w (if d > 1 then (mul1d w a d).1 ++ [(mul1d w a d).2] else a ++ [0])
    ∧ (if d > 1 then (mul1d w a d).1 ++ [(mul1d w a d).2] else a ++ [0]).length = a.length + 1
    ∧ toNat w (if d > 1 then (mul1d w a d).1 ++ [(mul1d w a d).2] else a ++ [0]) = toNat w a * d := by
  by_cases h : d > 1
  · simp only [h, if_true]
    obtain ⟨m1, m2, m3, m4⟩ := mul1d_spec (w := w) (a := a) (b := d) ha hdB
    refine ⟨?_, ?_, ?_⟩
    · rw [Shift.WF_append]; exact ⟨m3, WF_cons.mpr ⟨m2, WF_nil⟩⟩
    · rw [List.length_append, m4]; rfl
    · rw [Shift.toNat_append, m4, ← m1]; simp [toNat, Nat.mul_comm]
  · have hd : d = 1 := by omega
    simp only [h, if_false]
    refine ⟨?_, ?_, ?_⟩
    · rw [Shift.WF_append]; exact ⟨ha, WF_cons.mpr ⟨Nat.two_pow_pos w, WF_nil⟩⟩
    · rw [List.length_append]; rfl
    · rw [Shift.toNat_append, hd]; simp [toNat]

/-- the normalised divisor: same length, no carry -/
theorem norm_v {w d : Nat} {a : Limbs} (ha : WF w a) (hd1 : 1 ≤ d) (hdB : d < 2^w)
    (hfit : toNat w a * d < 2^(w * a.length)) :
    WF w (if d > 1 then (mul1d w a d).1 else a)
    ∧ (if d > 1 then (mul1d w a d).1 else a).length = a.length
    ∧ toNat w (if d > 1 then (mul1d w a d).1 else a) = toNat w a * d := by
  by_cases h : d > 1
  · simp only [h, if_true]
    obtain ⟨m1, m2, m3, m4⟩ := mul1d_spec (w := w) (a := a) (b := d) ha hdB
    refine ⟨m3, m4, ?_⟩
    have hc : (mul1d w a d).2 = 0 := by
      apply Nat.eq_zero_of_not_pos
      intro hpos
      have : 1 * 2^(w * a.length) ≤ (mul1d w a d).2 * 2^(w * a.length) := Nat.mul_le_mul_right _ hpos
      omega
    rw [hc] at m1
    omega
  · have hd : d = 1 := by omega
    simp only [h, if_false]
    exact ⟨ha, by simp, by rw [hd, Nat.mul_one]⟩

theorem div_scale {U V d Q rem : Nat} (hd : 0 < d) (hV : 0 < V)
    (h : U * d = Q * (V * d) + rem) (hr : rem < V * d) : Q = U / V ∧ rem = (U % V) * d := by
  have hpos : 0 < V * d := Nat.mul_pos hV hd
  have := (Nat.div_mod_unique (a := U * d) (b := V * d) (d := Q) (c := rem) hpos).mpr
    ⟨by rw [Nat.mul_comm (V * d) Q]; omega, hr⟩
  rw [Nat.mul_div_mul_right _ _ hd, Nat.mul_mod_mul_right] at this
  exact ⟨this.1.symm, this.2.symm⟩

/-- the general path of `eval_divide_knuth` (normalise, loop, un-normalise) -/
def knuthCore (w : Nat) (u v : Limbs) (n nU nn d : Nat) : Option DivOut :=
  let uu : Limbs := if d > 1 then (let m := mul1d w (u.take nU) d; m.1 ++ [m.2]) else u.take nU ++ [0]
  let vv : Limbs := if d > 1 then (mul1d w (v.take nn) d).1 else v.take nn
  let m := nU - nn
  match knuthLoop w vv nn (m + 1) uu with
  | none => none
  | some (uuF, qs, st) =>
    let q := qs ++ zeros (n - (m + 1))
    let r := if d = 1 then uuF.take nn ++ zeros (n - nn) else (unnormalise w d (uuF.take nn)).1 ++ zeros (n - nn)
    some ⟨q, r, .knuth, st⟩

theorem divKnuth_eq (w : Nat) (u v maxv : Limbs) : divKnuth w u v maxv =
    if topZeros v = u.length then some ⟨maxv, zeros u.length, .byZero, {}⟩
    else if topZeros u = u.length then some ⟨u, zeros u.length, .zeroNum, {}⟩
    else if cmpRanges u v = -1 then some ⟨zeros u.length, u, .less, {}⟩
    else if cmpRanges u v = 0 then some ⟨1 :: zeros (u.length - 1), zeros u.length, .equal, {}⟩
    else if topZeros v + 1 = u.length then
      some ⟨(divShort w (v.headD 0) (topZeros u) u).1,
        (divShort w (v.headD 0) (topZeros u) u).2 :: zeros (u.length - 1), .single, {}⟩
    else knuthCore w u v u.length (u.length - topZeros u) (u.length - topZeros v)
      (lo w (2^w / (v.getD (u.length - topZeros v - 1) 0 + 1))) := by
  rfl

theorem knuthCore_spec {w : Nat} {u v : Limbs} {n nU n2 d : Nat} (hw : 1 ≤ w) (hu : WF w u) (hv : WF w v)
    (hlu : u.length = n) (hlv : v.length = n) (hnU : nU ≤ n) (hnn : n2 + 2 ≤ nU)
    (hUv : toNat w u = toNat w (u.take nU)) (hVv : toNat w v = toNat w (v.take (n2 + 2)))
    (hVlo : 2^(w*(n2+1)) ≤ toNat w v)
    (hd1 : 1 ≤ d) (hdB : d < 2^w) (hdV : toNat w v * d < 2^(w*(n2+2))) :
    ∃ o, knuthCore w u v n nU (n2 + 2) d = some o ∧ toNat w o.q = toNat w u / toNat w v
      ∧ toNat w o.r = toNat w u % toNat w v ∧ WF w o.q ∧ WF w o.r ∧ o.q.length = n ∧ o.r.length = n := by
  have hawf : WF w (u.take nU) := Shift.WF_take _ hu
  have hbwf : WF w (v.take (n2 + 2)) := Shift.WF_take _ hv
  have hal : (u.take nU).length = nU := by rw [List.length_take]; omega
  have hbl : (v.take (n2 + 2)).length = n2 + 2 := by rw [List.length_take]; omega
  obtain ⟨u1, u2, u3⟩ := norm_u hawf hd1 hdB
  obtain ⟨v1, v2, v3⟩ := norm_v hbwf hd1 hdB (by rw [hbl, ← hVv]; exact hdV)
  rw [hal] at u2
  rw [← hUv] at u3
  rw [hbl] at v2
  rw [← hVv] at v3
  have hUlt : toNat w u < 2^(w*nU) := by rw [hUv]; exact take_lt_pow hu nU
  have hVpos : 0 < toNat w v := Nat.lt_of_lt_of_le (Nat.two_pow_pos _) hVlo
  simp only [knuthCore]
  generalize (if d > 1 then (mul1d w (u.take nU) d).1 ++ [(mul1d w (u.take nU) d).2] else u.take nU ++ [0]) = uu at *
  generalize (if d > 1 then (mul1d w (v.take (n2 + 2)) d).1 else v.take (n2 + 2)) = vv at *
  have hVn : 2^(w*(n2+1)) ≤ toNat w vv := by
    rw [v3]
    have : toNat w v * 1 ≤ toNat w v * d := Nat.mul_le_mul_left _ hd1
    omega
  have hfull : uu.take (n2 + 2 + (nU - (n2 + 2) + 1)) = uu :=
    List.take_of_length_le (by omega)
  have hUU : toNat w (uu.take (n2 + 2 + (nU - (n2 + 2) + 1)))
      < toNat w vv * 2^(w*(nU - (n2 + 2) + 1)) := by
    rw [hfull, u3, v3]
    have e : 2^(w*nU) = 2^(w*(n2+1)) * 2^(w*(nU - (n2 + 2) + 1)) := by
      rw [← Nat.pow_add, ← Nat.mul_add]; congr 2; omega
    have h1 : 2^(w*(n2+1)) * 2^(w*(nU - (n2 + 2) + 1)) ≤ toNat w v * 2^(w*(nU - (n2 + 2) + 1)) :=
      Nat.mul_le_mul_right _ hVlo
    have h2 : toNat w u * d < (toNat w v * 2^(w*(nU - (n2 + 2) + 1))) * d :=
      Nat.mul_lt_mul_of_pos_right (by omega) hd1
    have e2 : (toNat w v * 2^(w*(nU - (n2 + 2) + 1))) * d = toNat w v * d * 2^(w*(nU - (n2 + 2) + 1)) := by
      grind
    omega
  obtain ⟨uuF, qs, st, hL, hql, hqwf, hFl, hFwf, hFv, hFr⟩ :=
    knuthLoop_spec hw v1 v2 hVn (nU - (n2 + 2) + 1) uu u1 (by omega) hUU
  rw [hfull, u3, v3] at hFv
  rw [v3] at hFr
  obtain ⟨hQ, hR⟩ := div_scale hd1 hVpos hFv hFr
  rw [hL]
  have hrl : (uuF.take (n2 + 2)).length = n2 + 2 := by rw [List.length_take]; omega
  have hrwf : WF w (uuF.take (n2 + 2)) := Shift.WF_take _ hFwf
  refine ⟨_, rfl, ?_, ?_, ?_, ?_, ?_, ?_⟩
  · simp only []
    rw [Shift.toNat_append, toNat_zeros, hQ]; simp
  · simp only []
    by_cases hd : d = 1
    · rw [if_pos hd, Shift.toNat_append, toNat_zeros, hR, hd]; simp
    · rw [if_neg hd]
      obtain ⟨n1, _, _, _⟩ := Div.unnormalise_spec (w := w) (d := d) (a := uuF.take (n2 + 2)) hd1 hdB hrwf
      rw [Shift.toNat_append, toNat_zeros, n1, hR, Nat.mul_div_cancel _ hd1]; simp
  · simp only []
    rw [Shift.WF_append]; exact ⟨hqwf, WF_zeros _ _⟩
  · simp only []
    by_cases hd : d = 1
    · rw [if_pos hd, Shift.WF_append]; exact ⟨hrwf, WF_zeros _ _⟩
    · rw [if_neg hd]
      obtain ⟨_, _, n3, _⟩ := Div.unnormalise_spec (w := w) (d := d) (a := uuF.take (n2 + 2)) hd1 hdB hrwf
      rw [Shift.WF_append]; exact ⟨n3, WF_zeros _ _⟩
  · simp only []
    rw [List.length_append, hql, Mul.length_zeros]; omega
  · simp only []
    by_cases hd : d = 1
    · rw [if_pos hd, List.length_append, hrl, Mul.length_zeros]; omega
    · rw [if_neg hd]
      obtain ⟨_, _, _, n4⟩ := Div.unnormalise_spec (w := w) (d := d) (a := uuF.take (n2 + 2)) hd1 hdB hrwf
      rw [List.length_append, n4, hrl, Mul.length_zeros]; omega

/-! ## all paths of `eval_divide_knuth` -/

theorem headD_eq_getD (v : Limbs) : v.headD 0 = v.getD 0 0 := by
  cases v <;> rfl

/-- `divKnuth` terminates (the `q̂` loop never runs out of fuel) and returns quotient and remainder -/
theorem divKnuth_spec {w : Nat} {u v : Limbs} (maxv : Limbs) (hw : 1 ≤ w) (hu : WF w u) (hv : WF w v)
    (hl : u.length = v.length) (hv0 : toNat w v ≠ 0) :
    ∃ o, divKnuth w u v maxv = some o ∧ toNat w o.q = toNat w u / toNat w v
      ∧ toNat w o.r = toNat w u % toNat w v ∧ WF w o.q ∧ WF w o.r
      ∧ o.q.length = u.length ∧ o.r.length = u.length := by
  have hB := Nat.two_pow_pos w
  have hB2 : 2 ≤ 2^w := by
    have : 2^1 ≤ 2^w := Nat.pow_le_pow_right (by decide) hw
    simpa using this
  have hVpos : 0 < toNat w v := Nat.pos_of_ne_zero hv0
  have hkV := topZeros_le v
  have hkU := topZeros_le u
  rw [divKnuth_eq]
  have h1 : ¬ topZeros v = u.length := by
    intro h; rw [hl] at h; exact hv0 (topZeros_all h)
  rw [if_neg h1]
  have hn1 : 1 ≤ u.length := by omega
  by_cases h2 : topZeros u = u.length
  · rw [if_pos h2]
    have hU0 : toNat w u = 0 := topZeros_all h2
    refine ⟨_, rfl, ?_, ?_, hu, WF_zeros _ _, rfl, Mul.length_zeros _⟩
    · simp only []; rw [hU0, Nat.zero_div]
    · simp only []; rw [toNat_zeros, hU0, Nat.zero_mod]
  rw [if_neg h2]
  have hcmp := cmpRanges_spec hu hv hl
  by_cases h3 : toNat w u < toNat w v
  · rw [if_pos h3] at hcmp
    rw [if_pos hcmp]
    refine ⟨_, rfl, ?_, ?_, WF_zeros _ _, hu, Mul.length_zeros _, rfl⟩
    · simp only []; rw [toNat_zeros, Nat.div_eq_of_lt h3]
    · simp only []; rw [Nat.mod_eq_of_lt h3]
  rw [if_neg h3] at hcmp
  by_cases h4 : toNat w u = toNat w v
  · rw [if_pos h4] at hcmp
    rw [hcmp, if_neg (by decide), if_pos rfl]
    refine ⟨_, rfl, ?_, ?_, ?_, WF_zeros _ _, ?_, Mul.length_zeros _⟩
    · simp only [toNat]; rw [toNat_zeros, h4, Nat.div_self hVpos]; simp
    · simp only []; rw [toNat_zeros, h4, Nat.mod_self]
    · exact WF_cons.mpr ⟨by omega, WF_zeros _ _⟩
    · simp only [List.length_cons, Mul.length_zeros]; omega
  rw [if_neg h4] at hcmp
  rw [hcmp, if_neg (by decide), if_neg (by decide)]
  have hVU : toNat w v < toNat w u := by omega
  by_cases h5 : topZeros v + 1 = u.length
  · rw [if_pos h5]
    obtain ⟨b1, b2, _⟩ := topZeros_bounds (w := w) hv (m := 0) (by omega)
    have hv0B := WF_getD hv 0
    have hVval : toNat w v = v.getD 0 0 := by rw [b2]; simp [toNat]
    rw [headD_eq_getD, ← hVval]
    obtain ⟨s1, s2, s3, s4⟩ := Div.divShort_offset_spec (w := w) (d := toNat w v) (a := u) (k := topZeros u)
      hVpos (by rw [hVval]; exact hv0B) hu hkU (topZeros_zero u)
    refine ⟨_, rfl, s1, ?_, s3, ?_, s4, ?_⟩
    · simp only [toNat]; rw [toNat_zeros, s2]; simp
    · refine WF_cons.mpr ⟨?_, WF_zeros _ _⟩
      rw [s2]
      have := Nat.mod_lt (toNat w u) hVpos
      omega
    · simp only [List.length_cons, Mul.length_zeros]; omega
  rw [if_neg h5]
  obtain ⟨n2, hn2⟩ : ∃ n2, u.length - topZeros v = n2 + 2 := ⟨u.length - topZeros v - 2, by omega⟩
  obtain ⟨b1, b2, b3⟩ := topZeros_bounds (w := w) hv (m := n2 + 1) (by omega)
  have hv1B := WF_getD hv (n2 + 1)
  have hidx : u.length - topZeros v - 1 = n2 + 1 := by omega
  rw [hidx, hn2]
  obtain ⟨d0, d1, d2, d3⟩ := norm_d b1 hv1B
  rw [d0]
  have hVlo : 2^(w*(n2+1)) ≤ toNat w v := by
    have : 2^(w*(n2+1)) * 1 ≤ 2^(w*(n2+1)) * v.getD (n2+1) 0 :=
      Nat.mul_le_mul_left _ (Nat.pos_of_ne_zero b1)
    omega
  have hdV : toNat w v * (2^w / (v.getD (n2+1) 0 + 1)) < 2^(w*(n2+2)) := by
    have e : 2^(w*(n2+2)) = 2^(w*(n2+1)) * 2^w := by
      rw [show n2 + 2 = (n2 + 1) + 1 from rfl, Nat.mul_succ w, Nat.pow_add]
    rw [e]
    generalize 2^w / (v.getD (n2+1) 0 + 1) = d at *
    generalize v.getD (n2+1) 0 = v1 at *
    generalize 2^(w*(n2+1)) = P at *
    have h6 : toNat w v + 1 ≤ P * (v1 + 1) := by rw [Nat.mul_add, Nat.mul_one]; omega
    have h7 : (toNat w v + 1) * d ≤ P * (v1 + 1) * d := Nat.mul_le_mul_right _ h6
    have h8 : P * (d * (v1 + 1)) ≤ P * 2^w := Nat.mul_le_mul_left _ d3
    have e2 : P * (v1 + 1) * d = P * (d * (v1 + 1)) := by grind
    rw [Nat.add_mul, Nat.one_mul] at h7
    omega
  have hUlt : toNat w u < 2^(w*(u.length - topZeros u)) := by
    rw [topZeros_val w u]; exact take_lt_pow hu _
  have hnn : n2 + 2 ≤ u.length - topZeros u := by
    have hlt : 2^(w*(n2+1)) < 2^(w*(u.length - topZeros u)) := by omega
    have := (Nat.pow_lt_pow_iff_right (by decide : 1 < 2)).mp hlt
    have := Nat.lt_of_mul_lt_mul_left this
    omega
  have hVv : toNat w v = toNat w (v.take (n2 + 2)) := by
    have := topZeros_val w v
    rw [← hl, hn2] at this; exact this
  exact knuthCore_spec hw hu hv rfl hl.symm (Nat.sub_le _ _) hnn (topZeros_val w u) hVv hVlo d1 d2 hdV

/-- Algorithm D's q̂ correction always suffices: `divChecked` never fails on a non-zero divisor -/
def KnuthComplete : Prop :=
  ∀ (w : Nat) (a b : Limbs), 1 ≤ w → WF w a → WF w b → a.length = b.length → toNat w b ≠ 0 →
    (divChecked w a b).isSome = true

theorem divChecked_spec {w : Nat} {a b : Limbs} (hw : 1 ≤ w) (ha : WF w a) (hb : WF w b)
    (hl : a.length = b.length) (hb0 : toNat w b ≠ 0) :
    divChecked w a b = some (toNat w a / toNat w b, toNat w a % toNat w b) := by
  obtain ⟨o, h1, h2, h3, _⟩ := divKnuth_spec [] hw ha hb hl hb0
  simp only [divChecked, h1, h2, h3]
  rw [if_pos]
  refine ⟨?_, Nat.mod_lt _ (Nat.pos_of_ne_zero hb0)⟩
  rw [Nat.mul_comm]; exact Nat.div_add_mod _ _

theorem knuth_complete : KnuthComplete := by
  intro w a b hw ha hb hl hb0
  rw [divChecked_spec hw ha hb hl hb0]; rfl

end Cnl.Wide.Knuth


/-! ## Dec: decimal text -/
namespace Cnl.Wide.Dec
open Cnl Cnl.Wide Cnl.WideSpec Cnl.Wide.Basic Cnl.Wide.Div

theorem lt_ten_pow (n : Nat) : n < 10^n := Nat.lt_pow_self (by decide)

theorem natDigits_zero (f : Nat) (acc : List Char) : natDigits f 0 acc = acc := by
  cases f <;> simp [natDigits]

theorem div_ten_lt {n f : Nat} (h : n < 10^(f+1)) : n / 10 < 10^f := by
  rw [Nat.pow_succ] at h
  generalize 10^f = P at h ⊢
  omega

/-- `natDigits` does not depend on its fuel, once the fuel is enough -/
theorem natDigits_fuel : ∀ (f₁ f₂ n : Nat) (acc : List Char), n < 10^f₁ → n < 10^f₂ →
    natDigits f₁ n acc = natDigits f₂ n acc := by
  intro f₁
  induction f₁ with
  | zero =>
    intro f₂ n acc h1 _
    have : n = 0 := by simpa using h1
    subst this
    rw [natDigits_zero, natDigits_zero]
  | succ f ih =>
    intro f₂ n acc h1 h2
    cases f₂ with
    | zero =>
      have : n = 0 := by simpa using h2
      subst this
      rw [natDigits_zero, natDigits_zero]
    | succ g =>
      by_cases hn : n = 0
      · subst hn; rw [natDigits_zero, natDigits_zero]
      · simp only [natDigits, hn, if_false]
        exact ih g (n / 10) _ (div_ten_lt h1) (div_ten_lt h2)

/-- the digit loop produces the decimal digits of the value, most significant first -/
theorem digitsLoop_spec {w} {t : Limbs} {fuel : Nat} {acc : List Char} (hw : 10 < 2^w) (ht : WF w t)
    (hf : toNat w t < 10^fuel) :
    digitsLoop w fuel t acc = natDigits (toNat w t) (toNat w t) acc := by
  induction fuel generalizing t acc with
  | zero =>
    have h0 : toNat w t = 0 := by simpa using hf
    rw [h0, natDigits_zero]
    simp [digitsLoop]
  | succ fuel ih =>
    by_cases hz : isZero t = true
    · have h0 : toNat w t = 0 := (isZero_spec (w := w)).1 hz
      rw [h0, natDigits_zero]
      simp [digitsLoop, hz]
    · have hn : toNat w t ≠ 0 := fun h => hz ((isZero_spec (w := w)).2 h)
      obtain ⟨s1, s2, _, s4⟩ := digit_step_spec hw ht
      have hq : toNat w (divShort w (lo w 10) 0 t).1 < 10^fuel := by
        rw [s1]; exact div_ten_lt hf
      have hstep : digitsLoop w (fuel+1) t acc
          = digitsLoop w fuel (divShort w (lo w 10) 0 t).1
              (Char.ofNat (lo w ((subN w t (mul1d w (divShort w (lo w 10) 0 t).1 (lo w 10)).1 false).1.headD 0) + 48) :: acc) := by
        simp [digitsLoop, hz]
      rw [hstep, ih s2 hq, s1, s4]
      generalize toNat w t = n at hn
      obtain ⟨m, rfl⟩ : ∃ m, n = m + 1 := ⟨n - 1, by omega⟩
      conv => rhs; rw [natDigits]
      simp only [hn, if_false]
      apply natDigits_fuel
      · exact lt_ten_pow _
      · have : (m + 1) / 10 ≤ m := by omega
        exact Nat.lt_of_le_of_lt this (lt_ten_pow m)

theorem one_le_of_ten_lt {w : Nat} (hw : 10 < 2^w) : 1 ≤ w := by
  cases w with
  | zero => simp at hw
  | succ k => omega

theorem two_pow_pred {N : Nat} (h : 1 ≤ N) : 2^N = 2 * 2^(N-1) := by
  obtain ⟨k, rfl⟩ : ∃ k, N = k + 1 := ⟨N - 1, by omega⟩
  rw [Nat.pow_succ, Nat.mul_comm]; rfl

theorem wrDec_spec {f : Fmt} {a : Limbs} (hw : 10 < 2^f.w) (hn : 1 ≤ f.n) (ha : WF f.w a) (hl : a.length = f.n) :
    wrDec f a = decimalText (toInt f a) := by
  have hw1 : 1 ≤ f.w := one_le_of_ten_lt hw
  have hne : a ≠ [] := by
    intro h; rw [h] at hl; simp at hl; omega
  have hN : f.w * a.length = f.N := by rw [hl]; rfl
  have hN1 : 1 ≤ f.N := by
    show 1 ≤ f.w * f.n
    exact Nat.mul_le_mul hw1 hn
  have hlt : toNat f.w a < 2^f.N := by
    have := Basic.toNat_lt ha; rwa [hN] at this
  have htop := topBit_spec hw1 ha hne
  rw [hN] at htop
  have hpow := two_pow_pred hN1
  have hle : (2:Nat)^f.N ≤ 10^f.N := Nat.pow_le_pow_left (by decide) _
  have hle' : (10:Nat)^f.N ≤ 10^(f.N+1) := Nat.pow_le_pow_right (by decide) (by omega)
  obtain ⟨g1, g2, g3⟩ := negate_spec ha
  rw [hN] at g1
  by_cases hneg : (f.signed = true ∧ toNat f.w a ≥ 2^(f.N - 1))
  · -- negative
    have hisneg : isNeg f a = true := by
      simp only [isNeg, htop, hneg.1, Bool.true_and, decide_eq_true_eq]
      exact hneg.2
    have hpos : 0 < toNat f.w a := by
      have : 0 < 2^(f.N-1) := Nat.pow_pos (by decide)
      omega
    have hT : toNat f.w (negate f.w a) = 2^f.N - toNat f.w a := by
      rw [g1]; apply Nat.mod_eq_of_lt; omega
    have hI : toInt f a = (toNat f.w a : Int) - ((2^f.N : Nat) : Int) := by
      simp only [toInt, hneg, and_self, if_true]
      simp
    have hlt0 : toInt f a < 0 := by rw [hI]; omega
    have habs : (toInt f a).natAbs = toNat f.w (negate f.w a) := by
      rw [hT, hI]; omega
    have hTpos : toNat f.w (negate f.w a) ≠ 0 := by rw [hT]; omega
    have hnz : isZero (negate f.w a) = false := by
      cases h : isZero (negate f.w a) with
      | false => rfl
      | true => exact absurd ((isZero_spec (w := f.w)).1 h) hTpos
    have hfuel : toNat f.w (negate f.w a) < 10^(f.N+1) := by rw [hT]; omega
    simp only [wrDec, decimalText, hisneg, if_true, hnz, hlt0, habs, hTpos, if_false]
    rw [digitsLoop_spec hw g2 hfuel]
    simp
  · -- non-negative
    have hisneg : isNeg f a = false := by
      simp only [isNeg, htop]
      cases hs : f.signed with
      | false => simp
      | true =>
        simp only [Bool.true_and, decide_eq_false_iff_not]
        intro h; exact hneg ⟨hs, h⟩
    have hI : toInt f a = (toNat f.w a : Int) := by
      simp only [toInt, hneg, if_false]
    have hge0 : ¬ (toInt f a < 0) := by rw [hI]; omega
    have habs : (toInt f a).natAbs = toNat f.w a := by rw [hI]; omega
    have hfuel : toNat f.w a < 10^(f.N+1) := by omega
    by_cases hz : isZero a = true
    · have h0 : toNat f.w a = 0 := (isZero_spec (w := f.w)).1 hz
      simp [wrDec, decimalText, hisneg, hz, hge0, habs, h0]
    · have hn0 : toNat f.w a ≠ 0 := fun h => hz ((isZero_spec (w := f.w)).2 h)
      have hz' : isZero a = false := by simpa using hz
      simp only [wrDec, decimalText, hisneg, hz', hge0, habs, hn0, if_false, Bool.false_eq_true]
      rw [digitsLoop_spec hw ha hfuel]

end Cnl.Wide.Dec


/-! ## Bridge: from limb lists to N-bit two's complement: reading a congruent pattern back is wrapTwos -/
namespace Cnl.Wide.Bridge
open Cnl Cnl.Wide Cnl.WideSpec

/-- a well-formed value of format `f` -/
def Val (f : Fmt) (a : Limbs) : Prop := WF f.w a ∧ a.length = f.n

theorem two_pow_pred {N : Nat} (hN : 1 ≤ N) : (2:Int)^N = 2 * 2^(N-1) := by
  have : N = (N - 1) + 1 := by omega
  conv => lhs; rw [this, Int.pow_succ]
  omega

theorem two_pow_pred_nat {N : Nat} (hN : 1 ≤ N) : (2:Nat)^N = 2 * 2^(N-1) := by
  have : N = (N - 1) + 1 := by omega
  conv => lhs; rw [this, Nat.pow_succ]
  omega

/-- the bridge: a pattern `r < 2^N` congruent to `x` modulo `2^N` reads as `wrapTwos N signed x` -/
theorem readback {N : Nat} {s : Bool} {r : Nat} {x : Int} (hN : 1 ≤ N) (hr : r < 2^N)
    (hmod : ((r : Int) - x) % 2^N = 0) :
    (if s = true ∧ r ≥ 2^(N-1) then (r : Int) - 2^N else (r : Int)) = wrapTwos N s x := by
  have hpN : (2:Int)^N = 2 * 2^(N-1) := two_pow_pred hN
  have hpNn : (2:Nat)^N = 2 * 2^(N-1) := two_pow_pred_nat hN
  have hcast : ((2^N : Nat) : Int) = (2:Int)^N := by simp
  have hcast1 : ((2^(N-1) : Nat) : Int) = (2:Int)^(N-1) := by simp
  obtain ⟨k, hk⟩ := Int.dvd_of_emod_eq_zero hmod
  have hx : x = r - 2^N * k := by omega
  have hHpos : (0:Int) < 2^(N-1) := Int.pow_pos (by decide)
  unfold wrapTwos
  by_cases hs : s = true
  · simp only [hs, true_and, if_true]
    have e1 : (x + 2^(N-1)) % 2^N = ((r:Int) + 2^(N-1)) % 2^N := by
      rw [hx]
      have : (r:Int) - 2^N * k + 2^(N-1) = ((r:Int) + 2^(N-1)) + 2^N * (-k) := by
        rw [Int.mul_neg]; omega
      rw [this, Int.add_mul_emod_self_left]
    rw [e1]
    have hrI : (r:Int) < 2^N := by rw [← hcast]; exact_mod_cast hr
    have hr0 : (0:Int) ≤ r := Int.natCast_nonneg r
    by_cases hge : r ≥ 2^(N-1)
    · simp only [hge, if_true]
      have hgeI : (2:Int)^(N-1) ≤ r := by rw [← hcast1]; exact_mod_cast hge
      have : ((r:Int) + 2^(N-1)) % 2^N = (r:Int) + 2^(N-1) - 2^N := by
        have e : (r:Int) + 2^(N-1) = ((r:Int) + 2^(N-1) - 2^N) + 2^N * 1 := by omega
        have h2 := Int.add_mul_emod_self_left ((r:Int) + 2^(N-1) - 2^N) (2^N) 1
        rw [← e] at h2
        rw [h2]
        apply Int.emod_eq_of_lt <;> omega
      rw [this]; omega
    · simp only [hge, if_false]
      have hltI : (r:Int) < 2^(N-1) := by
        rw [← hcast1]; exact_mod_cast (Nat.lt_of_not_ge hge)
      have : ((r:Int) + 2^(N-1)) % 2^N = (r:Int) + 2^(N-1) := by
        apply Int.emod_eq_of_lt <;> omega
      rw [this]; omega
  · have hs' : s = false := by cases s <;> simp_all
    simp only [hs', Bool.false_eq_true, false_and, if_false]
    rw [hx]
    have : (r:Int) - 2^N * k = (r:Int) + 2^N * (-k) := by rw [Int.mul_neg]; omega
    rw [this, Int.add_mul_emod_self_left]
    have hrI : (r:Int) < 2^N := by rw [← hcast]; exact_mod_cast hr
    exact (Int.emod_eq_of_lt (Int.natCast_nonneg r) hrI).symm

theorem toInt_eq_wrap {f : Fmt} {a : Limbs} {x : Int} (hN : 1 ≤ f.N) (hlt : toNat f.w a < 2^f.N)
    (hmod : ((toNat f.w a : Int) - x) % 2^f.N = 0) : toInt f a = wrapTwos f.N f.signed x := by
  unfold toInt
  exact readback hN hlt hmod

/-- the signed reading differs from the pattern by a multiple of `2^N` -/
theorem toInt_congr (f : Fmt) (a : Limbs) : ((toNat f.w a : Int) - toInt f a) % 2^f.N = 0 := by
  unfold toInt
  by_cases h : f.signed = true ∧ toNat f.w a ≥ 2^(f.N-1)
  · simp only [h, and_self, if_true]
    have : (toNat f.w a : Int) - ((toNat f.w a : Int) - 2^f.N) = 2^f.N := by omega
    rw [this, Int.emod_self]
  · simp only [h, if_false]; simp

/-! congruence modulo `m` as equality of `%` — the toolkit used by the operator lemmas -/
theorem cong_add {m a a' b b' : Int} (h1 : a % m = a' % m) (h2 : b % m = b' % m) : (a + b) % m = (a' + b') % m := by
  rw [Int.add_emod, h1, h2, ← Int.add_emod]
theorem cong_sub {m a a' b b' : Int} (h1 : a % m = a' % m) (h2 : b % m = b' % m) : (a - b) % m = (a' - b') % m := by
  rw [Int.sub_emod, h1, h2, ← Int.sub_emod]
theorem cong_mul {m a a' b b' : Int} (h1 : a % m = a' % m) (h2 : b % m = b' % m) : (a * b) % m = (a' * b') % m := by
  rw [Int.mul_emod, h1, h2, ← Int.mul_emod]
theorem cong_neg {m a a' : Int} (h1 : a % m = a' % m) : (-a) % m = (-a') % m := by
  have := cong_sub (m := m) (a := 0) (a' := 0) rfl h1
  simpa using this
/-- `r = x + m·k` gives `r ≡ x` -/
theorem cong_of_eq_add_mul {m r x k : Int} (h : r = x + m * k) : r % m = x % m := by
  rw [h, Int.add_mul_emod_self_left]

theorem val_lt {f : Fmt} {a : Limbs} (ha : Val f a) : toNat f.w a < 2^f.N := by
  have := Basic.toNat_lt ha.1
  rwa [ha.2] at this

/-- the pattern is congruent to the signed reading -/
theorem toInt_cong (f : Fmt) (a : Limbs) : (toNat f.w a : Int) % 2^f.N = toInt f a % 2^f.N :=
  Int.emod_eq_emod_iff_emod_sub_eq_zero.mpr (toInt_congr f a)

/-- read a well-formed result back: congruent to `x` modulo `2^N` means equal to `wrapTwos N signed x` -/
theorem toInt_of_cong {f : Fmt} {r : Limbs} {x : Int} (hN : 1 ≤ f.N) (hr : Val f r)
    (h : (toNat f.w r : Int) % 2^f.N = x % 2^f.N) : toInt f r = wrapTwos f.N f.signed x :=
  toInt_eq_wrap hN (val_lt hr) (Int.emod_eq_emod_iff_emod_sub_eq_zero.mp h)

theorem N_pos {f : Fmt} (hw : 1 ≤ f.w) (hn : 1 ≤ f.n) : 1 ≤ f.N := by
  unfold Fmt.N; exact Nat.mul_le_mul hw hn

/-- a value in range is its own reduction -/
theorem wrap_toInt {f : Fmt} {a : Limbs} (hN : 1 ≤ f.N) (ha : Val f a) : wrapTwos f.N f.signed (toInt f a) = toInt f a :=
  (toInt_of_cong hN ha (toInt_cong f a)).symm

/-- the `N`-bit pattern of the signed reading is the limb value -/
theorem pattern_toInt {f : Fmt} {a : Limbs} (ha : Val f a) : pattern f.N (toInt f a) = toNat f.w a := by
  unfold pattern
  rw [← toInt_cong f a]
  have h := val_lt ha
  have : ((toNat f.w a : Int)) % 2^f.N = (toNat f.w a : Int) := by
    apply Int.emod_eq_of_lt (Int.natCast_nonneg _)
    have : ((2^f.N : Nat) : Int) = (2:Int)^f.N := by simp
    rw [← this]; exact_mod_cast h
  rw [this]; simp

/-- range of the signed reading -/
theorem toInt_range {f : Fmt} {a : Limbs} (hN : 1 ≤ f.N) (ha : Val f a) : InRange f.N f.signed (toInt f a) := by
  have h := val_lt ha
  have hp := two_pow_pred_nat hN
  have hpI := two_pow_pred (N := f.N) hN
  have c0 : ((2^f.N : Nat) : Int) = (2:Int)^f.N := by simp
  have c1 : ((2^(f.N-1) : Nat) : Int) = (2:Int)^(f.N-1) := by simp
  have hI : (toNat f.w a : Int) < 2^f.N := by rw [← c0]; exact_mod_cast h
  unfold InRange toInt
  by_cases hs : f.signed = true
  · by_cases hge : toNat f.w a ≥ 2^(f.N-1)
    · have : (2:Int)^(f.N-1) ≤ toNat f.w a := by rw [← c1]; exact_mod_cast hge
      simp only [hs, hge, and_self, if_true]; omega
    · have : (toNat f.w a : Int) < 2^(f.N-1) := by rw [← c1]; exact_mod_cast (Nat.lt_of_not_ge hge)
      simp only [hs, hge, and_false, if_false, if_true]; omega
  · have hs' : f.signed = false := by cases h : f.signed <;> simp_all
    simp only [hs', Bool.false_eq_true, false_and, if_false]; omega

end Cnl.Wide.Bridge


/-! ## Conv: conversions from and to built-in integers, numeric_limits -/
namespace Cnl.Wide.Conv
open Cnl Cnl.Wide Cnl.WideSpec Cnl.Wide.Basic Cnl.Wide.Shift

/-- a well-formed value of format `f` -/
def Val (f : Fmt) (a : Limbs) : Prop := WF f.w a ∧ a.length = f.n

/-! ## small arithmetic helpers -/

theorem two_pow_le {a b : Nat} (h : a ≤ b) : 2^a ≤ 2^b := Nat.pow_le_pow_right (by decide) h

theorem cast_two_pow (k : Nat) : ((2^k : Nat) : Int) = (2:Int)^k := by
  rw [Int.natCast_pow]; rfl

theorem ceil_mul_ge {w b : Nat} (h : 1 ≤ w) : b ≤ w * ((b + w - 1) / w) := by
  have := Nat.div_add_mod (b + w - 1) w
  have := Nat.mod_lt (b + w - 1) h
  omega

theorem length_zeros' (n : Nat) : (zeros n).length = n := by simp [zeros]

/-! ## constructor from a built-in integer -/

theorem fromUnsigned_spec {f : Fmt} {bits v : Nat} (hw : 1 ≤ f.w) (hn : 1 ≤ f.n) (hb : bits ≤ f.N)
    (hv : v < 2^bits) :
    toNat f.w (fromUnsigned f bits v) = v ∧ WF f.w (fromUnsigned f bits v)
    ∧ (fromUnsigned f bits v).length = f.n := by
  unfold fromUnsigned
  by_cases h : bits ≤ f.w
  · simp only [h, if_true]
    obtain ⟨m, hm⟩ : ∃ m, f.n = m + 1 := ⟨f.n - 1, by omega⟩
    have hvw : v < 2^f.w := Nat.lt_of_lt_of_le hv (two_pow_le h)
    have e : (v :: zeros (f.n - 1)).take f.n = v :: zeros m := by
      rw [hm]; simp [zeros]
    rw [e]
    refine ⟨?_, Shift.WF_cons.mpr ⟨hvw, Shift.WF_zeros _ _⟩, by simp [zeros, hm]⟩
    simp [toNat, Shift.toNat_zeros]
  · simp only [h, if_false]
    have hcle : Nat.min f.n ((bits + f.w - 1) / f.w) ≤ f.n := Nat.min_le_left _ _
    have hvc : v < 2^(f.w * Nat.min f.n ((bits + f.w - 1) / f.w)) := by
      refine Nat.lt_of_lt_of_le hv (two_pow_le ?_)
      by_cases hc : f.n ≤ (bits + f.w - 1) / f.w
      · have e : Nat.min f.n ((bits + f.w - 1) / f.w) = f.n := if_pos hc
        rw [e]; exact hb
      · have e : Nat.min f.n ((bits + f.w - 1) / f.w) = (bits + f.w - 1) / f.w := by
          exact if_neg hc
        rw [e]; exact ceil_mul_ge hw
    generalize Nat.min f.n ((bits + f.w - 1) / f.w) = cnt at *
    refine ⟨?_, Shift.WF_append.mpr ⟨ofNat_WF _ _ _, Shift.WF_zeros _ _⟩, ?_⟩
    · rw [Shift.toNat_append, Shift.toNat_zeros, toNat_ofNat, Nat.mod_eq_of_lt hvc]; simp
    · rw [List.length_append, ofNat_length, length_zeros']; omega

/-- `(v % 2^N).toNat` for a negative `v ≥ -2^N` -/
theorem neg_pattern {N : Nat} {v : Int} (h0 : v < 0) (h1 : -(2:Int)^N ≤ v) :
    (v % 2^N).toNat = 2^N - (-v).toNat := by
  have e : v % (2:Int)^N = v + 2^N := by
    rw [← Int.add_emod_right, Int.emod_eq_of_lt (by omega) (by omega)]
  rw [e]
  have hc := cast_two_pow N
  generalize (2:Int)^N = M at *
  generalize (2:Nat)^N = m at *
  omega

theorem nonneg_pattern {N : Nat} {v : Int} (h0 : 0 ≤ v) (h1 : v < (2:Int)^N) :
    (v % 2^N).toNat = v.toNat := by
  rw [Int.emod_eq_of_lt h0 h1]

theorem int_two_pow_le {a b : Nat} (h : a ≤ b) : (2:Int)^a ≤ 2^b := by
  rw [← cast_two_pow, ← cast_two_pow]
  exact Int.ofNat_le.mpr (two_pow_le h)

theorem int_two_pow_pred {b : Nat} (h : 1 ≤ b) : (2:Int)^b = 2 * 2^(b-1) := by
  obtain ⟨k, rfl⟩ : ∃ k, b = k + 1 := ⟨b - 1, by omega⟩
  rw [Int.pow_succ]; simp; omega

theorem fromBuiltin_toNat {f : Fmt} {t : IntTy} {v : Int} (hw : 1 ≤ f.w) (hn : 1 ≤ f.n) (ht : 1 ≤ t.bits)
    (hb : t.bits ≤ f.N) (hv : t.InRange v) :
    toNat f.w (fromBuiltin f t v) = (v % 2^f.N).toNat ∧ WF f.w (fromBuiltin f t v)
    ∧ (fromBuiltin f t v).length = f.n := by
  have hle := int_two_pow_le hb
  have hpred := int_two_pow_pred ht
  have hpos : (0:Int) < 2^(t.bits - 1) := Int.pow_pos (by decide)
  unfold IntTy.InRange IntTy.lowest IntTy.max at hv
  unfold fromBuiltin
  by_cases hs : t.signed = true
  · simp only [hs, if_true] at hv ⊢
    unfold fromSigned
    by_cases hneg : v < 0
    · simp only [hneg, if_true]
      have hm : (-v) % (2:Int)^t.bits = -v := Int.emod_eq_of_lt (by omega) (by omega)
      rw [hm]
      have hu : (-v).toNat < 2^t.bits := by
        have hc := cast_two_pow t.bits
        generalize (2:Int)^t.bits = M at *
        generalize (2:Nat)^t.bits = m at *
        omega
      obtain ⟨u1, u2, u3⟩ := fromUnsigned_spec hw hn hb hu
      obtain ⟨n1, n2, n3⟩ := negate_spec u2
      refine ⟨?_, n2, by rw [n3, u3]⟩
      rw [n1, u1, u3, neg_pattern hneg (by omega)]
      have hN : f.w * f.n = f.N := rfl
      rw [hN]
      have : 0 < (-v).toNat := by omega
      exact Nat.mod_eq_of_lt (by have := Nat.two_pow_pos f.N; omega)
    · simp only [hneg, if_false]
      have hm : v % (2:Int)^t.bits = v := Int.emod_eq_of_lt (by omega) (by omega)
      rw [hm]
      have hu : v.toNat < 2^t.bits := by
        have hc := cast_two_pow t.bits
        generalize (2:Int)^t.bits = M at *
        generalize (2:Nat)^t.bits = m at *
        omega
      obtain ⟨u1, u2, u3⟩ := fromUnsigned_spec hw hn hb hu
      refine ⟨?_, u2, u3⟩
      rw [u1, nonneg_pattern (by omega) (by omega)]
  · simp only [hs, if_false, Bool.false_eq_true] at hv ⊢
    have hu : v.toNat < 2^t.bits := by
      have hc := cast_two_pow t.bits
      generalize (2:Int)^t.bits = M at *
      generalize (2:Nat)^t.bits = m at *
      omega
    obtain ⟨u1, u2, u3⟩ := fromUnsigned_spec hw hn hb hu
    refine ⟨?_, u2, u3⟩
    rw [u1, nonneg_pattern (by omega) (by omega)]

/-! ## conversion to a built-in integer -/

theorem wrap_eq_of_dvd {t : IntTy} {x y : Int} (h : (2:Int)^t.bits ∣ x - y) : t.wrap x = t.wrap y := by
  obtain ⟨k, hk⟩ := h
  have e : x = y + 2^t.bits * k := by omega
  unfold IntTy.wrap
  by_cases hs : t.signed = true
  · simp only [hs, if_true]
    have e2 : x + 2^(t.bits - 1) = (y + 2^(t.bits - 1)) + 2^t.bits * k := by omega
    rw [e2, Int.add_mul_emod_self_left]
  · simp only [hs, if_false, Bool.false_eq_true]
    rw [e, Int.add_mul_emod_self_left]

theorem wrap_sub_dvd {t : IntTy} (x : Int) : (2:Int)^t.bits ∣ t.wrap x - x := by
  unfold IntTy.wrap
  by_cases hs : t.signed = true
  · simp only [hs, if_true]
    refine ⟨-((x + 2^(t.bits - 1)) / 2^t.bits), ?_⟩
    have := Int.emod_add_mul_ediv (x + 2^(t.bits - 1)) (2^t.bits)
    rw [Int.mul_neg]
    omega
  · simp only [hs, if_false, Bool.false_eq_true]
    refine ⟨-(x / 2^t.bits), ?_⟩
    have := Int.emod_add_mul_ediv x (2^t.bits)
    rw [Int.mul_neg]
    omega

theorem headD_eq_mod {w : Nat} {a : Limbs} (ha : WF w a) (hne : a ≠ []) :
    a.headD 0 = toNat w a % 2^w := by
  cases a with
  | nil => exact absurd rfl hne
  | cons x xs =>
    obtain ⟨hx, _⟩ := Shift.WF_cons.mp ha
    simp only [List.headD_cons, toNat]
    rw [Nat.add_mul_mod_self_left, Nat.mod_eq_of_lt hx]

theorem int_two_pow_dvd {a b : Nat} (h : a ≤ b) : (2:Int)^a ∣ 2^b := by
  refine ⟨2^(b - a), ?_⟩
  rw [← Int.pow_add]; congr 1; omega

/-- `extract` is the reduction of the (unsigned) pattern -/
theorem extract_spec {f : Fmt} {t : IntTy} {a : Limbs} (hw : 1 ≤ f.w) (hn : 1 ≤ f.n) (ht : 1 ≤ t.bits)
    (hr : t.bits ≤ f.w ∨ f.w ∣ t.bits) (hb : t.bits ≤ f.N) (ha : WF f.w a) (hl : a.length = f.n) :
    extract f t a = t.wrap (toNat f.w a) := by
  unfold extract
  have hne : a ≠ [] := by intro h; rw [h] at hl; simp at hl; omega
  by_cases h2 : t.bits / f.w < 2
  · simp only [h2, if_true]
    have hbw : t.bits ≤ f.w := by
      cases hr with
      | inl h => exact h
      | inr h =>
        obtain ⟨q, hq⟩ := h
        rw [hq, Nat.mul_div_cancel_left _ (by omega : 0 < f.w)] at h2
        have : q = 1 := by
          cases q with
          | zero => simp at hq; omega
          | succ q => omega
        rw [hq, this]; omega
    apply wrap_eq_of_dvd
    rw [headD_eq_mod ha hne]
    obtain ⟨k, hk⟩ := int_two_pow_dvd hbw
    refine ⟨-(k * ((toNat f.w a / 2^f.w : Nat) : Int)), ?_⟩
    have := Nat.mod_add_div (toNat f.w a) (2^f.w)
    have hc : ((toNat f.w a % 2^f.w : Nat) : Int) + (2:Int)^f.w * ((toNat f.w a / 2^f.w : Nat) : Int)
        = (toNat f.w a : Int) := by
      rw [← cast_two_pow]; exact_mod_cast this
    rw [Int.mul_neg, ← Int.mul_assoc, ← hk]
    omega
  · simp only [h2, if_false]
    have hbw : ¬ t.bits ≤ f.w := by
      intro h
      have : t.bits / f.w ≤ f.w / f.w := Nat.div_le_div_right h
      rw [Nat.div_self (by omega)] at this
      omega
    have hd : f.w ∣ t.bits := by
      cases hr with
      | inl h => exact absurd h hbw
      | inr h => exact h
    have hq : f.w * (t.bits / f.w) = t.bits := Nat.mul_div_cancel' hd
    have hqn : t.bits / f.w ≤ a.length := by
      rw [hl]
      have : f.w * (t.bits / f.w) ≤ f.w * f.n := by rw [hq]; exact hb
      exact Nat.le_of_mul_le_mul_left this (by omega)
    have e : Nat.min (t.bits / f.w) a.length = t.bits / f.w := if_pos hqn
    rw [e, Shift.toNat_take _ ha hqn, hq]
    apply wrap_eq_of_dvd
    refine ⟨-(((toNat f.w a % 2^t.bits : Nat) : Int) / 2^t.bits) - ((toNat f.w a / 2^t.bits : Nat) : Int), ?_⟩
    have := Nat.mod_add_div (toNat f.w a) (2^t.bits)
    have hc : ((toNat f.w a % 2^t.bits : Nat) : Int) + (2:Int)^t.bits * ((toNat f.w a / 2^t.bits : Nat) : Int)
        = (toNat f.w a : Int) := by
      rw [← cast_two_pow]; exact_mod_cast this
    have h1 := Int.emod_add_mul_ediv ((toNat f.w a % 2^t.bits : Nat) : Int) (2^t.bits)
    rw [Int.mul_sub, Int.mul_neg]
    omega

/-- the sign test is the top bit of the pattern -/
theorem isNeg_spec {f : Fmt} {a : Limbs} (hw : 1 ≤ f.w) (hn : 1 ≤ f.n) (ha : WF f.w a) (hl : a.length = f.n) :
    isNeg f a = (f.signed && decide (toNat f.w a ≥ 2^(f.N - 1))) := by
  have hne : a ≠ [] := by intro h; rw [h] at hl; simp at hl; omega
  unfold isNeg
  rw [topBit_spec hw ha hne, hl]
  rfl

theorem toInt_eq {f : Fmt} {a : Limbs} (hw : 1 ≤ f.w) (hn : 1 ≤ f.n) (ha : WF f.w a) (hl : a.length = f.n) :
    toInt f a = if isNeg f a then (toNat f.w a : Int) - 2^f.N else toNat f.w a := by
  rw [isNeg_spec hw hn ha hl]
  unfold toInt
  by_cases hs : f.signed = true <;> by_cases hge : toNat f.w a ≥ 2^(f.N - 1) <;> simp [hs, hge]

theorem toBuiltin_spec {f : Fmt} {t : IntTy} {a : Limbs} (hw : 1 ≤ f.w) (hn : 1 ≤ f.n) (ht : 1 ≤ t.bits)
    (hr : t.bits ≤ f.w ∨ f.w ∣ t.bits) (hb : t.bits ≤ f.N) (ha : WF f.w a) (hl : a.length = f.n) :
    toBuiltin f t a = t.wrap (toInt f a) := by
  rw [toInt_eq hw hn ha hl]
  unfold toBuiltin
  by_cases hneg : isNeg f a = true
  · simp only [hneg, Bool.not_true, Bool.false_eq_true, if_false, if_true]
    obtain ⟨n1, n2, n3⟩ := negate_spec ha
    rw [extract_spec hw hn ht hr hb n2 (by rw [n3, hl])]
    apply wrap_eq_of_dvd
    have hA : 0 < toNat f.w a := by
      rw [isNeg_spec hw hn ha hl] at hneg
      simp only [Bool.and_eq_true, decide_eq_true_eq] at hneg
      have := Nat.two_pow_pos (f.N - 1)
      omega
    have hlt := Basic.toNat_lt ha
    have hN : f.w * a.length = f.N := by rw [hl]; rfl
    rw [hN] at n1 hlt
    rw [Nat.mod_eq_of_lt (by omega)] at n1
    rw [n1]
    obtain ⟨k, hk⟩ := wrap_sub_dvd (t := t) ((2^f.N - toNat f.w a : Nat) : Int)
    obtain ⟨j, hj⟩ := int_two_pow_dvd hb
    have hc : ((2^f.N - toNat f.w a : Nat) : Int) = (2:Int)^f.N - (toNat f.w a : Int) := by
      rw [← cast_two_pow]; omega
    refine ⟨-k, ?_⟩
    rw [Int.mul_neg, ← hk, hc]
    omega
  · have hneg' : isNeg f a = false := by simpa using hneg
    simp only [hneg', Bool.not_false, if_true, Bool.false_eq_true, if_false]
    exact extract_spec hw hn ht hr hb ha hl

/-! ## numeric_limits -/

theorem N_pos {f : Fmt} (hw : 1 ≤ f.w) (hn : 1 ≤ f.n) : 1 ≤ f.N := Nat.mul_pos hw hn

theorem two_pow_pred {b : Nat} (h : 1 ≤ b) : 2^b = 2 * 2^(b-1) := by
  obtain ⟨k, rfl⟩ : ∃ k, b = k + 1 := ⟨b - 1, by omega⟩
  rw [Nat.pow_succ]; simp; omega

theorem repMax_spec {f : Fmt} (hw : 1 ≤ f.w) (hn : 1 ≤ f.n) :
    toNat f.w (repMax f) = 2^f.digits - 1 ∧ WF f.w (repMax f) ∧ (repMax f).length = f.n := by
  have hN := N_pos hw hn
  have hp := two_pow_pred hN
  have hpos := Nat.two_pow_pos (f.N - 1)
  unfold repMax Fmt.digits
  by_cases hs : f.signed = true
  · simp only [hs, if_true]
    refine ⟨?_, ofNat_WF _ _ _, ofNat_length _ _ _⟩
    rw [toNat_ofNat]
    exact Nat.mod_eq_of_lt (by show _ < 2^f.N; omega)
  · simp only [hs, if_false, Bool.false_eq_true]
    refine ⟨Shift.toNat_replicate_ones _ _, Shift.WF_replicate (by have := Nat.two_pow_pos f.w; omega), by simp⟩

theorem repLowest_spec {f : Fmt} (hw : 1 ≤ f.w) (hn : 1 ≤ f.n) :
    toNat f.w (repLowest f) = (if f.signed then 2^(f.N - 1) else 0) ∧ WF f.w (repLowest f)
    ∧ (repLowest f).length = f.n := by
  have hN := N_pos hw hn
  have hp := two_pow_pred hN
  have hpos := Nat.two_pow_pos (f.N - 1)
  unfold repLowest
  by_cases hs : f.signed = true
  · simp only [hs, if_true]
    refine ⟨?_, ofNat_WF _ _ _, ofNat_length _ _ _⟩
    rw [toNat_ofNat]
    exact Nat.mod_eq_of_lt (by show _ < 2^f.N; omega)
  · simp only [hs, if_false, Bool.false_eq_true]
    exact ⟨Shift.toNat_zeros _ _, Shift.WF_zeros _ _, length_zeros' _⟩

/-- `shrOp` by a non-negative signed count below the width -/
theorem shrOp_small {f : Fmt} {a : Limbs} {k : Nat} (hw : 1 ≤ f.w) (ha : WF f.w a) (hl : a.length = f.n)
    (hk : k < f.N) :
    toNat f.w (shrOp f a (Int.ofNat k) true)
      = (toNat f.w a + (if isNeg f a then (2^k - 1) * 2^f.N else 0)) / 2^k
    ∧ WF f.w (shrOp f a (Int.ofNat k) true) ∧ (shrOp f a (Int.ofNat k) true).length = f.n := by
  unfold shrOp
  have h1 : ¬ ((true && decide (Int.ofNat k < 0)) = true) := by simp
  simp only [h1]
  by_cases h0 : k = 0
  · subst h0
    simp only [Int.ofNat_eq_natCast, Int.cast_ofNat_Int, if_true]
    refine ⟨?_, ha, hl⟩
    simp
  · have h2 : ¬ (Int.ofNat k = 0) := by simp; omega
    have h3 : ¬ ((Int.ofNat k).toNat ≥ f.N) := by simp; omega
    simp only [h2, h3, if_false]
    obtain ⟨s1, s2, s3⟩ := shr_spec hw ha hl hk
    exact ⟨by simpa using s1, by simpa using s2, by simpa [hl] using s3⟩

theorem pred_div {P K : Nat} (hK : 0 < K) (hP : 0 < P) : (P * K - 1) / K = P - 1 := by
  obtain ⟨p, rfl⟩ : ∃ p, P = p + 1 := ⟨P - 1, by omega⟩
  have e : (p + 1) * K - 1 = (K - 1) + K * p := by
    rw [Nat.add_mul, Nat.mul_comm p K]; omega
  rw [e, Nat.add_mul_div_left _ _ hK, Nat.div_eq_of_lt (by omega)]; omega

theorem limMax_toNat {f : Fmt} {D : Nat} (hw : 1 ≤ f.w) (hn : 1 ≤ f.n) (hD : D ≤ f.digits) (hD1 : 1 ≤ D) :
    toNat f.w (limMax f D) = 2^D - 1 ∧ WF f.w (limMax f D) ∧ (limMax f D).length = f.n := by
  obtain ⟨r1, r2, r3⟩ := repMax_spec hw hn
  have hN := N_pos hw hn
  have hdN : f.digits ≤ f.N := by unfold Fmt.digits; split <;> omega
  have hk : f.digits - D < f.N := by omega
  obtain ⟨s1, s2, s3⟩ := shrOp_small hw r2 r3 hk
  unfold limMax
  refine ⟨?_, s2, s3⟩
  have hnn : isNeg f (repMax f) = false := by
    rw [isNeg_spec hw hn r2 r3, r1]
    by_cases hs : f.signed = true
    · have : f.digits = f.N - 1 := by unfold Fmt.digits; simp [hs]
      rw [this]
      have := Nat.two_pow_pos (f.N - 1)
      simp; omega
    · simp [hs]
  rw [s1, hnn, r1]
  simp only [Bool.false_eq_true, if_false, Nat.add_zero]
  have e : 2^f.digits = 2^D * 2^(f.digits - D) := by
    rw [← Nat.pow_add]; congr 1; omega
  rw [e]
  exact pred_div (Nat.two_pow_pos _) (Nat.two_pow_pos _)

theorem lowest_arith (P K : Nat) (hK : 0 < K) (hP : 0 < P) :
    (P * K + (K - 1) * (2 * (P * K))) / K = 2 * (P * K) - P := by
  obtain ⟨k, rfl⟩ : ∃ k, K = k + 1 := ⟨K - 1, by omega⟩
  have e : P * (k + 1) + (k + 1 - 1) * (2 * (P * (k + 1))) = (k + 1) * (P + k * (2 * P)) := by
    simp only [Nat.add_sub_cancel]
    grind
  rw [e, Nat.mul_div_cancel_left _ hK]
  have e2 : 2 * (P * (k + 1)) = P + (P + k * (2 * P)) := by grind
  omega

theorem limLowest_toNat {f : Fmt} {D : Nat} (hw : 1 ≤ f.w) (hn : 1 ≤ f.n) (hD : D ≤ f.digits) (hD1 : 1 ≤ D) :
    toNat f.w (limLowest f D) = (if f.signed then 2^f.N - 2^D else 0) ∧ WF f.w (limLowest f D)
    ∧ (limLowest f D).length = f.n := by
  obtain ⟨r1, r2, r3⟩ := repLowest_spec hw hn
  have hN := N_pos hw hn
  have hdN : f.digits ≤ f.N := by unfold Fmt.digits; split <;> omega
  have hk : f.digits - D < f.N := by omega
  obtain ⟨s1, s2, s3⟩ := shrOp_small hw r2 r3 hk
  unfold limLowest
  refine ⟨?_, s2, s3⟩
  rw [s1, isNeg_spec hw hn r2 r3, r1]
  by_cases hs : f.signed = true
  · have hd : f.digits = f.N - 1 := by unfold Fmt.digits; simp [hs]
    simp only [hs, if_true, Bool.true_and, ge_iff_le, Nat.le_refl, decide_true]
    have e : 2^(f.N - 1) = 2^D * 2^(f.digits - D) := by
      rw [← Nat.pow_add]; congr 1; omega
    rw [two_pow_pred hN, e]
    exact lowest_arith _ _ (Nat.two_pow_pos _) (Nat.two_pow_pos _)
  · simp [hs]

end Cnl.Wide.Conv


/-! ## Arith: operators at the level of two's-complement values: + - * unary - ++ -- & | ^ comparisons -/
namespace Cnl.Wide.Arith
open Cnl Cnl.Wide Cnl.WideSpec Cnl.Wide.Bridge

theorem len_pow {f : Fmt} {a : Limbs} (ha : Val f a) : 2^(f.w * a.length) = 2^f.N := by
  rw [ha.2]; rfl

theorem cast_pow (N : Nat) : ((2^N : Nat) : Int) = (2:Int)^N := by simp

/-- a Nat-level relation `r + p·2^N = x + q·2^N` read back -/
theorem toInt_of_nat_eq {f : Fmt} {r : Limbs} {x : Int} {y p q : Nat} (hN : 1 ≤ f.N) (hr : Val f r)
    (h : toNat f.w r + p * 2^f.N = y + q * 2^f.N)
    (hy : (y : Int) % 2^f.N = x % 2^f.N) : toInt f r = wrapTwos f.N f.signed x := by
  apply toInt_of_cong hN hr
  rw [← hy]
  have h' := congrArg (fun n : Nat => (n : Int)) h
  simp only [Int.natCast_add, Int.natCast_mul, cast_pow] at h'
  apply cong_of_eq_add_mul (k := (q : Int) - p)
  rw [Int.mul_sub, Int.mul_comm _ (q:Int), Int.mul_comm _ (p:Int)]
  omega

/-- a Nat-level relation `r = y % 2^N` read back -/
theorem toInt_of_nat_mod {f : Fmt} {r : Limbs} {x : Int} {y : Nat} (hN : 1 ≤ f.N) (hr : Val f r)
    (h : toNat f.w r = y % 2^f.N)
    (hy : (y : Int) % 2^f.N = x % 2^f.N) : toInt f r = wrapTwos f.N f.signed x := by
  have hdm := Nat.mod_add_div y (2^f.N)
  rw [← h] at hdm
  refine toInt_of_nat_eq (p := 0) (q := 0) (y := toNat f.w r) hN hr rfl ?_
  rw [← hy]
  have h' := congrArg (fun n : Nat => (n : Int)) hdm
  simp only [Int.natCast_add, Int.natCast_mul, cast_pow] at h'
  apply cong_of_eq_add_mul (k := -((y / 2^f.N : Nat) : Int))
  rw [Int.mul_neg]
  omega

theorem add_toInt {f : Fmt} {a b : Limbs} (hw : 1 ≤ f.w) (hn : 1 ≤ f.n) (ha : Val f a) (hb : Val f b) :
    toInt f (opAdd f.w a b) = wrapTwos f.N f.signed (toInt f a + toInt f b) ∧ Val f (opAdd f.w a b) := by
  obtain ⟨h1, _, _, h4, h5⟩ := Basic.addN_spec' (c := 0) ha.1 hb.1 (ha.2.trans hb.2.symm)
    (by omega) (Nat.two_pow_pos _)
  have hv : Val f (opAdd f.w a b) := ⟨h4, h5.trans ha.2⟩
  refine ⟨?_, hv⟩
  rw [len_pow ha, Nat.add_zero] at h1
  refine toInt_of_nat_eq (q := 0) (y := toNat f.w a + toNat f.w b) (N_pos hw hn) hv
    (by unfold opAdd; rw [h1]; simp) ?_
  rw [Int.natCast_add]
  exact cong_add (toInt_cong f a) (toInt_cong f b)

theorem sub_toInt {f : Fmt} {a b : Limbs} (hw : 1 ≤ f.w) (hn : 1 ≤ f.n) (ha : Val f a) (hb : Val f b) :
    toInt f (opSub f.w a b) = wrapTwos f.N f.signed (toInt f a - toInt f b) ∧ Val f (opSub f.w a b) := by
  obtain ⟨h1, h4, h5⟩ := Basic.subN_spec' (bin := false) ha.1 hb.1 (ha.2.trans hb.2.symm) (by simp)
  have hv : Val f (opSub f.w a b) := ⟨h4, h5.trans ha.2⟩
  refine ⟨?_, hv⟩
  rw [len_pow ha] at h1
  simp only [Bool.false_eq_true, if_false, Nat.add_zero] at h1
  apply toInt_of_cong (N_pos hw hn) hv
  have h' := congrArg (fun n : Nat => (n : Int)) h1
  simp only [Int.natCast_add, Int.natCast_mul, cast_pow] at h'
  rw [← cong_sub (toInt_cong f a) (toInt_cong f b)]
  apply cong_of_eq_add_mul (k := ((if (subN f.w a b false).2 = true then 1 else 0 : Nat) : Int))
  unfold opSub
  rw [Int.mul_comm]
  omega

theorem neg_toInt {f : Fmt} {a : Limbs} (hw : 1 ≤ f.w) (hn : 1 ≤ f.n) (ha : Val f a) :
    toInt f (negate f.w a) = wrapTwos f.N f.signed (-(toInt f a)) ∧ Val f (negate f.w a) := by
  obtain ⟨h1, h2, h3⟩ := Basic.negate_spec ha.1
  have hv : Val f (negate f.w a) := ⟨h2, h3.trans ha.2⟩
  refine ⟨?_, hv⟩
  rw [len_pow ha] at h1
  refine toInt_of_nat_mod (N_pos hw hn) hv h1 ?_
  rw [← cong_neg (toInt_cong f a)]
  have hlt := val_lt ha
  have e : ((2^f.N - toNat f.w a : Nat) : Int) = -(toNat f.w a : Int) + 2^f.N * 1 := by
    rw [Int.ofNat_sub (Nat.le_of_lt hlt), cast_pow]; omega
  exact cong_of_eq_add_mul e

theorem preinc_toInt {f : Fmt} {a : Limbs} (hw : 1 ≤ f.w) (hn : 1 ≤ f.n) (ha : Val f a) :
    toInt f (preinc f.w a) = wrapTwos f.N f.signed (toInt f a + 1) ∧ Val f (preinc f.w a) := by
  obtain ⟨h1, h2, h3⟩ := Basic.preinc_spec ha.1
  have hv : Val f (preinc f.w a) := ⟨h2, h3.trans ha.2⟩
  refine ⟨?_, hv⟩
  rw [len_pow ha] at h1
  refine toInt_of_nat_mod (N_pos hw hn) hv h1 ?_
  rw [Int.natCast_add]
  exact cong_add (toInt_cong f a) rfl

theorem predec_toInt {f : Fmt} {a : Limbs} (hw : 1 ≤ f.w) (hn : 1 ≤ f.n) (ha : Val f a) :
    toInt f (predec f.w a) = wrapTwos f.N f.signed (toInt f a - 1) ∧ Val f (predec f.w a) := by
  obtain ⟨h1, h2, h3⟩ := Basic.predec_spec ha.1
  have hv : Val f (predec f.w a) := ⟨h2, h3.trans ha.2⟩
  refine ⟨?_, hv⟩
  rw [len_pow ha] at h1
  refine toInt_of_nat_mod (N_pos hw hn) hv h1 ?_
  rw [← cong_sub (toInt_cong f a) (rfl : (1:Int) % 2^f.N = 1 % 2^f.N)]
  have hpos := Nat.two_pow_pos f.N
  have e : ((toNat f.w a + 2^f.N - 1 : Nat) : Int) = ((toNat f.w a : Int) - 1) + 2^f.N * 1 := by
    rw [Int.ofNat_sub (by omega), Int.natCast_add, cast_pow]; omega
  exact cong_of_eq_add_mul e

/-- below the Karatsuba threshold `operator*=` is the schoolbook overload, whatever the local arrays hold -/
theorem opMulWith_schoolbook {w : Nat} {a b : Limbs} (init : Limbs × Limbs) (hk : a.length < karaThreshold) :
    opMulWith w init a b = mulUnary w a b := by
  unfold opMulWith
  rw [if_neg (by omega)]

/-- `operator*=` on every limb count (schoolbook and Karatsuba overloads), whatever the local arrays hold -/
theorem mulWith_toInt {f : Fmt} {a b : Limbs} (init : Limbs × Limbs) (hw : 1 ≤ f.w) (hn : 1 ≤ f.n) (h4 : 3 ≤ f.w ∨ f.n ≠ 4)
    (ha : Val f a) (hb : Val f b) :
    toInt f (opMulWith f.w init a b) = wrapTwos f.N f.signed (toInt f a * toInt f b) ∧ Val f (opMulWith f.w init a b) := by
  obtain ⟨h1, h2, h3⟩ := Kara.opMulWith_spec hw init ha.1 hb.1 (ha.2.trans hb.2.symm) (by rw [ha.2]; exact h4)
  have hv : Val f (opMulWith f.w init a b) := ⟨h2, h3.trans ha.2⟩
  refine ⟨?_, hv⟩
  rw [len_pow ha] at h1
  refine toInt_of_nat_mod (N_pos hw hn) hv h1 ?_
  rw [Int.natCast_mul]
  exact cong_mul (toInt_cong f a) (toInt_cong f b)

theorem mul_toInt {f : Fmt} {a b : Limbs} (hw : 1 ≤ f.w) (hn : 1 ≤ f.n) (h4 : 3 ≤ f.w ∨ f.n ≠ 4)
    (ha : Val f a) (hb : Val f b) :
    toInt f (opMul f.w a b) = wrapTwos f.N f.signed (toInt f a * toInt f b) ∧ Val f (opMul f.w a b) :=
  mulWith_toInt ([], []) hw hn h4 ha hb

theorem and_toInt {f : Fmt} {a b : Limbs} (hw : 1 ≤ f.w) (hn : 1 ≤ f.n) (ha : Val f a) (hb : Val f b) :
    toInt f (bitAnd a b) = wrapTwos f.N f.signed (Int.ofNat (pattern f.N (toInt f a) &&& pattern f.N (toInt f b)))
      ∧ Val f (bitAnd a b) := by
  obtain ⟨h1, h2, h3⟩ := Basic.bitAnd_spec ha.1 hb.1 (ha.2.trans hb.2.symm)
  have hv : Val f (bitAnd a b) := ⟨h2, h3.trans ha.2⟩
  refine ⟨?_, hv⟩
  rw [pattern_toInt ha, pattern_toInt hb, ← h1]
  exact toInt_of_cong (N_pos hw hn) hv rfl

theorem or_toInt {f : Fmt} {a b : Limbs} (hw : 1 ≤ f.w) (hn : 1 ≤ f.n) (ha : Val f a) (hb : Val f b) :
    toInt f (bitOr a b) = wrapTwos f.N f.signed (Int.ofNat (pattern f.N (toInt f a) ||| pattern f.N (toInt f b)))
      ∧ Val f (bitOr a b) := by
  obtain ⟨h1, h2, h3⟩ := Basic.bitOr_spec ha.1 hb.1 (ha.2.trans hb.2.symm)
  have hv : Val f (bitOr a b) := ⟨h2, h3.trans ha.2⟩
  refine ⟨?_, hv⟩
  rw [pattern_toInt ha, pattern_toInt hb, ← h1]
  exact toInt_of_cong (N_pos hw hn) hv rfl

theorem xor_toInt {f : Fmt} {a b : Limbs} (hw : 1 ≤ f.w) (hn : 1 ≤ f.n) (ha : Val f a) (hb : Val f b) :
    toInt f (bitXor a b) = wrapTwos f.N f.signed (Int.ofNat (pattern f.N (toInt f a) ^^^ pattern f.N (toInt f b)))
      ∧ Val f (bitXor a b) := by
  obtain ⟨h1, h2, h3⟩ := Basic.bitXor_spec ha.1 hb.1 (ha.2.trans hb.2.symm)
  have hv : Val f (bitXor a b) := ⟨h2, h3.trans ha.2⟩
  refine ⟨?_, hv⟩
  rw [pattern_toInt ha, pattern_toInt hb, ← h1]
  exact toInt_of_cong (N_pos hw hn) hv rfl

/-- `isNeg` as a statement about the pattern -/
theorem isNeg_eq {f : Fmt} {a : Limbs} (hw : 1 ≤ f.w) (hn : 1 ≤ f.n) (ha : Val f a) :
    isNeg f a = (f.signed && decide (toNat f.w a ≥ 2^(f.N - 1))) := by
  have hne : a ≠ [] := by
    intro h; have := ha.2; rw [h] at this; simp at this; omega
  unfold isNeg
  rw [Basic.topBit_spec hw ha.1 hne, ha.2]
  rfl

/-- the signed reading, by the sign test -/
theorem toInt_eq_isNeg {f : Fmt} {a : Limbs} (hw : 1 ≤ f.w) (hn : 1 ≤ f.n) (ha : Val f a) :
    toInt f a = if isNeg f a = true then (toNat f.w a : Int) - 2^f.N else toNat f.w a := by
  rw [isNeg_eq hw hn ha]
  unfold toInt
  simp only [Bool.and_eq_true, decide_eq_true_eq]

/-- the sign test: `isNeg` is "the value is negative" -/
theorem isNeg_iff {f : Fmt} {a : Limbs} (hw : 1 ≤ f.w) (hn : 1 ≤ f.n) (ha : Val f a) :
    isNeg f a = true ↔ toInt f a < 0 := by
  rw [toInt_eq_isNeg hw hn ha]
  have hlt := val_lt ha
  have hI : (toNat f.w a : Int) < 2^f.N := by rw [← cast_pow]; exact_mod_cast hlt
  have h0 : (0:Int) ≤ toNat f.w a := Int.natCast_nonneg _
  cases isNeg f a
  · simp only [Bool.false_eq_true, if_false, false_iff]; omega
  · simp only [if_true, true_iff]; omega

theorem compare_spec {f : Fmt} {a b : Limbs} (hw : 1 ≤ f.w) (hn : 1 ≤ f.n) (ha : Val f a) (hb : Val f b) :
    compare f a b = (if toInt f a < toInt f b then -1 else if toInt f a = toInt f b then 0 else 1) := by
  have hla := val_lt ha
  have hlb := val_lt hb
  have hIa : (toNat f.w a : Int) < 2^f.N := by rw [← cast_pow]; exact_mod_cast hla
  have hIb : (toNat f.w b : Int) < 2^f.N := by rw [← cast_pow]; exact_mod_cast hlb
  have hc := Basic.cmpRanges_spec ha.1 hb.1 (ha.2.trans hb.2.symm)
  rw [toInt_eq_isNeg hw hn ha, toInt_eq_isNeg hw hn hb]
  unfold compare
  simp only [hc]
  generalize toNat f.w a = A at *
  generalize toNat f.w b = B at *
  generalize (2:Int)^f.N = P at *
  have hlt : (A < B) ↔ ((A:Int) < B) := by omega
  have heq : (A = B) ↔ ((A:Int) = B) := by omega
  cases isNeg f a <;> cases isNeg f b
  · simp only [Bool.false_eq_true, if_false, Bool.and_true, Bool.and_false, Bool.not_false, hlt, heq]
  · have h1 : ¬ ((A:Int) < B - P) := by omega
    have h2 : ¬ ((A:Int) = B - P) := by omega
    simp [h1, h2]
  · have h1 : ((A:Int) - P < B) := by omega
    simp [h1]
  · have h1 : ((A:Int) - P < B - P) ↔ ((A:Int) < B) := by omega
    have h2 : ((A:Int) - P = B - P) ↔ ((A:Int) = B) := by omega
    simp only [Bool.false_eq_true, if_false, if_true, Bool.and_true, Bool.and_false, Bool.not_true,
      hlt, heq, h1, h2]

theorem cmpOp_spec {f : Fmt} {a b : Limbs} (op : CmpOp) (hw : 1 ≤ f.w) (hn : 1 ≤ f.n) (ha : Val f a) (hb : Val f b) :
    cmpOp f op a b = specCmp op (toInt f a) (toInt f b) := by
  unfold cmpOp specCmp
  simp only [compare_spec hw hn ha hb]
  generalize toInt f a = x
  generalize toInt f b = y
  by_cases h1 : x < y
  · have h2 : ¬ x = y := by omega
    have h3 : ¬ x > y := by omega
    have h4 : x ≤ y := by omega
    have h5 : ¬ x ≥ y := by omega
    cases op <;> simp [h1, h2, h3, h4, h5]
  · by_cases h2 : x = y
    · subst h2
      cases op <;> simp
    · have h3 : x > y := by omega
      have h4 : ¬ x ≤ y := by omega
      have h5 : x ≥ y := by omega
      cases op <;> simp [h1, h2, h3, h4, h5]

end Cnl.Wide.Arith


/-! ## ShiftOp: operator<< and operator>> at the level of values -/
namespace Cnl.Wide.ShiftOp
open Cnl Cnl.Wide Cnl.WideSpec Cnl.Wide.Bridge

theorem cast_two_pow (n : Nat) : ((2^n : Nat) : Int) = (2:Int)^n := by simp

/-- `is_neg` is "signed and the pattern is at least `2^(N-1)`" -/
theorem isNeg_eq {f : Fmt} {a : Limbs} (hw : 1 ≤ f.w) (hn : 1 ≤ f.n) (ha : Val f a) :
    isNeg f a = (f.signed && decide (toNat f.w a ≥ 2^(f.N-1))) := by
  have hne : a ≠ [] := by
    intro h
    have h2 := ha.2
    rw [h] at h2
    simp at h2
    omega
  unfold isNeg
  rw [Basic.topBit_spec hw ha.1 hne, ha.2]
  rfl

theorem isNeg_iff' {f : Fmt} {a : Limbs} (hw : 1 ≤ f.w) (hn : 1 ≤ f.n) (ha : Val f a) :
    isNeg f a = true ↔ toInt f a < 0 := by
  have hlt := val_lt ha
  have hI : (toNat f.w a : Int) < 2^f.N := by rw [← cast_two_pow]; exact_mod_cast hlt
  have h0 : (0:Int) ≤ toNat f.w a := Int.natCast_nonneg _
  rw [isNeg_eq hw hn ha]
  unfold toInt
  by_cases h : f.signed = true ∧ toNat f.w a ≥ 2^(f.N-1)
  · simp only [h, and_self, if_true, decide_true, Bool.and_self, true_iff]
    omega
  · simp only [h, if_false]
    constructor
    · intro h'
      simp only [Bool.and_eq_true, decide_eq_true_eq] at h'
      exact absurd h' h
    · intro h'; omega

/-! ## left shift -/

theorem shl_toInt {f : Fmt} {a : Limbs} {k : Nat} (hw : 1 ≤ f.w) (hn : 1 ≤ f.n) (ha : Val f a) (hk : k < f.N) :
    toInt f (shl f.w a k) = wrapTwos f.N f.signed (toInt f a * 2^k) ∧ Val f (shl f.w a k) := by
  have hN := N_pos hw hn
  have hk' : k < f.w * a.length := by rw [ha.2]; exact hk
  obtain ⟨h1, h2, h3⟩ := Shift.shl_spec hw ha.1 hk'
  have hv : Val f (shl f.w a k) := ⟨h2, h3.trans ha.2⟩
  refine ⟨toInt_of_cong hN hv ?_, hv⟩
  rw [h1, ha.2]
  show (((toNat f.w a * 2^k) % 2^f.N : Nat) : Int) % 2^f.N = _
  rw [Int.natCast_emod, cast_two_pow, Int.emod_emod, Int.natCast_mul, cast_two_pow]
  exact cong_mul (toInt_cong f a) rfl

theorem shlOp_toInt {f : Fmt} {a : Limbs} {k : Int} {sgn : Bool} (hw : 1 ≤ f.w) (hn : 1 ≤ f.n) (ha : Val f a)
    (hk0 : 0 ≤ k) (hkN : k < f.N) :
    toInt f (shlOp f a k sgn) = wrapTwos f.N f.signed (toInt f a * 2^k.toNat) ∧ Val f (shlOp f a k sgn) := by
  have hN := N_pos hw hn
  have hneg : ¬ k < 0 := by omega
  by_cases hz : k = 0
  · subst hz
    simp only [shlOp, Int.lt_irrefl, decide_false, Bool.and_false, Bool.false_eq_true, if_false, if_true]
    refine ⟨?_, ha⟩
    rw [show (0:Int).toNat = 0 from rfl, Int.pow_zero, Int.mul_one, wrap_toInt hN ha]
  · have hkn : k.toNat < f.N := by omega
    have hge : ¬ k.toNat ≥ f.N := by omega
    simp only [shlOp, hneg, decide_false, Bool.and_false, Bool.false_eq_true, if_false, hz, hge]
    exact shl_toInt hw hn ha hkn

/-! ## right shift -/

/-- non-negative case, pure arithmetic: the quotient stays below the bound -/
theorem div_lt_of_lt {A K H : Nat} (h : A < H) : A / K < H :=
  Nat.lt_of_le_of_lt (Nat.div_le_self _ _) h

/-- negative case, pure arithmetic -/
theorem shr_neg_arith {A k N : Nat} (hN : 1 ≤ N) (hk : k < N) (hA : A < 2^N) (hge : A ≥ 2^(N-1)) :
    (A + (2^k - 1) * 2^N) / 2^k ≥ 2^(N-1) ∧
    ((((A + (2^k - 1) * 2^N) / 2^k : Nat) : Int) - 2^N = ((A : Int) - 2^N) / 2^k) := by
  have hKn : 0 < 2^k := Nat.two_pow_pos k
  have hK : (0:Int) < 2^k := Int.pow_pos (by decide)
  have hH' : (0:Int) < 2^(N-1-k) := Int.pow_pos (by decide)
  have hH : (2:Int)^(N-1) = 2^(N-1-k) * 2^k := by rw [← Int.pow_add]; congr 1; omega
  have hM : (2:Int)^N = 2 * 2^(N-1) := two_pow_pred hN
  have hAI : (A:Int) < 2^N := by rw [← cast_two_pow]; exact_mod_cast hA
  have hgeI : (2:Int)^(N-1) ≤ (A:Int) := by rw [← cast_two_pow]; exact_mod_cast hge
  -- the Int quotient
  have c : (((A + (2^k - 1) * 2^N) / 2^k : Nat) : Int) = ((A : Int) - 2^N) / 2^k + 2^N := by
    rw [Int.natCast_ediv, cast_two_pow, ← Int.add_mul_ediv_left _ _ (Int.ne_of_gt hK)]
    congr 1
    rw [Int.natCast_add, Int.natCast_mul, Int.natCast_sub hKn, cast_two_pow, cast_two_pow]
    simp only [Int.sub_mul, Int.natCast_one, Int.one_mul]
    omega
  -- lower bound of the Int quotient
  have lb : -(2:Int)^(N-1-k) ≤ ((A : Int) - 2^N) / 2^k := by
    apply Int.le_ediv_of_mul_le hK
    rw [Int.neg_mul, ← hH]
    omega
  have hle : (2:Int)^(N-1-k) ≤ 2^(N-1) := by
    rw [hH]
    have := Int.mul_le_mul_of_nonneg_left (show (1:Int) ≤ 2^k by omega) (Int.le_of_lt hH')
    rwa [Int.mul_one] at this
  refine ⟨?_, by rw [c]; omega⟩
  have : (((2^(N-1) : Nat)) : Int) ≤ (((A + (2^k - 1) * 2^N) / 2^k : Nat) : Int) := by
    rw [c, cast_two_pow]
    omega
  exact_mod_cast this

theorem shr_toInt {f : Fmt} {a : Limbs} {k : Nat} (hw : 1 ≤ f.w) (hn : 1 ≤ f.n) (ha : Val f a) (hk : k < f.N) :
    toInt f (shr f a k) = toInt f a / 2^k ∧ Val f (shr f a k) := by
  have hN := N_pos hw hn
  obtain ⟨h1, h2, h3⟩ := Shift.shr_spec hw ha.1 ha.2 hk
  have hv : Val f (shr f a k) := ⟨h2, h3.trans ha.2⟩
  refine ⟨?_, hv⟩
  have hA := val_lt ha
  have hR := val_lt hv
  rw [isNeg_eq hw hn ha] at h1
  unfold toInt
  rw [h1]
  by_cases h : f.signed = true ∧ toNat f.w a ≥ 2^(f.N-1)
  · obtain ⟨hs, hge⟩ := h
    obtain ⟨g1, g2⟩ := shr_neg_arith hN hk hA hge
    simp only [hs, hge, decide_true, Bool.and_self, if_true, and_self, g1]
    exact g2
  · have hd : (f.signed && decide (toNat f.w a ≥ 2^(f.N-1))) = false := by
      cases hs : f.signed
      · rfl
      · simp only [hs, true_and] at h
        simp [h]
    simp only [hd, Bool.false_eq_true, if_false, Nat.add_zero, h]
    have hnot : ¬ (f.signed = true ∧ toNat f.w a / 2^k ≥ 2^(f.N-1)) := by
      intro ⟨hs, hge⟩
      apply h
      refine ⟨hs, ?_⟩
      exact Nat.le_trans hge (Nat.div_le_self _ _)
    simp only [hnot, if_false]
    rw [Int.natCast_ediv, cast_two_pow]

theorem shrOp_toInt {f : Fmt} {a : Limbs} {k : Int} {sgn : Bool} (hw : 1 ≤ f.w) (hn : 1 ≤ f.n) (ha : Val f a)
    (hk0 : 0 ≤ k) (hkN : k < f.N) :
    toInt f (shrOp f a k sgn) = toInt f a / 2^k.toNat ∧ Val f (shrOp f a k sgn) := by
  have hneg : ¬ k < 0 := by omega
  by_cases hz : k = 0
  · subst hz
    simp only [shrOp, Int.lt_irrefl, decide_false, Bool.and_false, Bool.false_eq_true, if_false, if_true]
    refine ⟨?_, ha⟩
    rw [show (0:Int).toNat = 0 from rfl, Int.pow_zero, Int.ediv_one]
  · have hkn : k.toNat < f.N := by omega
    have hge : ¬ k.toNat ≥ f.N := by omega
    simp only [shrOp, hneg, decide_false, Bool.and_false, Bool.false_eq_true, if_false, hz, hge]
    exact shr_toInt hw hn ha hkn

/-- hence also in the `wrapTwos` form (the quotient is in range) -/
theorem shrOp_toInt_wrap {f : Fmt} {a : Limbs} {k : Int} {sgn : Bool} (hw : 1 ≤ f.w) (hn : 1 ≤ f.n) (ha : Val f a)
    (hk0 : 0 ≤ k) (hkN : k < f.N) :
    toInt f (shrOp f a k sgn) = wrapTwos f.N f.signed (toInt f a / 2^k.toNat) := by
  obtain ⟨h1, h2⟩ := shrOp_toInt (sgn := sgn) hw hn ha hk0 hkN
  rw [← h1, wrap_toInt (N_pos hw hn) h2]

end Cnl.Wide.ShiftOp


/-! ## DivOp: operator/ and operator% : sign handling around the unsigned division -/
namespace Cnl.Wide.DivOp
open Cnl Cnl.Wide Cnl.WideSpec Cnl.Wide.Bridge

/-- what the unsigned routine must deliver on `n`-limb operands with a non-zero divisor -/
def KnuthCorrect (w : Nat) (a b : Limbs) : Prop :=
  ∀ maxv, ∃ o, divKnuth w a b maxv = some o ∧ toNat w o.q = toNat w a / toNat w b ∧ toNat w o.r = toNat w a % toNat w b
            ∧ WF w o.q ∧ o.q.length = a.length ∧ WF w o.r ∧ o.r.length = a.length

/-! ### truncating division / remainder through magnitudes -/

theorem tdiv_abs (A B : Int) :
    A.tdiv B = if (decide (A < 0) != decide (B < 0)) = true then -((A.natAbs / B.natAbs : Nat) : Int)
               else ((A.natAbs / B.natAbs : Nat) : Int) := by
  by_cases hA : A < 0
  · have eA : A = -(A.natAbs : Int) := Int.eq_neg_natAbs_of_nonpos (Int.le_of_lt hA)
    by_cases hB : B < 0
    · have eB : B = -(B.natAbs : Int) := Int.eq_neg_natAbs_of_nonpos (Int.le_of_lt hB)
      simp only [hA, hB, decide_true, bne_self_eq_false, Bool.false_eq_true, if_false]
      conv => lhs; rw [eA, eB, Int.neg_tdiv_neg]
      exact (Int.ofNat_tdiv _ _).symm
    · have eB : B = (B.natAbs : Int) := Int.eq_natAbs_of_nonneg (Int.not_lt.mp hB)
      simp only [hA, hB, decide_true, decide_false, Bool.true_bne, Bool.not_false, if_true]
      conv => lhs; rw [eA, eB, Int.neg_tdiv]
      rw [Int.ofNat_tdiv]
  · have eA : A = (A.natAbs : Int) := Int.eq_natAbs_of_nonneg (Int.not_lt.mp hA)
    by_cases hB : B < 0
    · have eB : B = -(B.natAbs : Int) := Int.eq_neg_natAbs_of_nonpos (Int.le_of_lt hB)
      simp only [hA, hB, decide_true, decide_false, Bool.false_bne, if_true]
      conv => lhs; rw [eA, eB, Int.tdiv_neg]
      rw [Int.ofNat_tdiv]
    · have eB : B = (B.natAbs : Int) := Int.eq_natAbs_of_nonneg (Int.not_lt.mp hB)
      simp only [hA, hB, decide_false, bne_self_eq_false, Bool.false_eq_true, if_false]
      conv => lhs; rw [eA, eB]
      exact (Int.ofNat_tdiv _ _).symm

theorem tmod_abs (A B : Int) :
    A.tmod B = if A < 0 then -((A.natAbs % B.natAbs : Nat) : Int) else ((A.natAbs % B.natAbs : Nat) : Int) := by
  have hB : A.tmod B = A.tmod (B.natAbs : Int) := by
    by_cases hB : B < 0
    · have eB : B = -(B.natAbs : Int) := Int.eq_neg_natAbs_of_nonpos (Int.le_of_lt hB)
      conv => lhs; rw [eB, Int.tmod_neg]
    · have eB : B = (B.natAbs : Int) := Int.eq_natAbs_of_nonneg (Int.not_lt.mp hB)
      conv => lhs; rw [eB]
  rw [hB]
  by_cases hA : A < 0
  · have eA : A = -(A.natAbs : Int) := Int.eq_neg_natAbs_of_nonpos (Int.le_of_lt hA)
    simp only [hA, if_true]
    conv => lhs; rw [eA, Int.neg_tmod]
    rw [Int.ofNat_tmod]
  · have eA : A = (A.natAbs : Int) := Int.eq_natAbs_of_nonneg (Int.not_lt.mp hA)
    simp only [hA, if_false]
    conv => lhs; rw [eA]
    exact (Int.ofNat_tmod _ _).symm

/-! ### sign and magnitude of a limb list -/

/-- the operand the unsigned routine sees -/
def mag (f : Fmt) (a : Limbs) : Limbs := if isNeg f a then negate f.w a else a

theorem val_unsignedView {f : Fmt} {a : Limbs} : Val f.unsignedView a ↔ Val f a := Iff.rfl

theorem sign_mag {f : Fmt} {a : Limbs} (hw : 1 ≤ f.w) (hn : 1 ≤ f.n) (ha : Val f a) :
    (isNeg f a = true ↔ toInt f a < 0) ∧ Val f (mag f a) ∧ toNat f.w (mag f a) = (toInt f a).natAbs := by
  obtain ⟨hwf, hl⟩ := ha
  have hne : a ≠ [] := by
    intro h; rw [h] at hl; simp at hl; omega
  have hN : f.w * a.length = f.N := by rw [hl]; rfl
  have hN1 : 1 ≤ f.N := N_pos hw hn
  have hlt : toNat f.w a < 2^f.N := val_lt ⟨hwf, hl⟩
  have htop := Basic.topBit_spec hw hwf hne
  rw [hN] at htop
  have hpow := two_pow_pred_nat hN1
  obtain ⟨g1, g2, g3⟩ := Basic.negate_spec hwf
  rw [hN] at g1
  by_cases hneg : (f.signed = true ∧ toNat f.w a ≥ 2^(f.N - 1))
  · have hisneg : isNeg f a = true := by
      simp only [isNeg, htop, hneg.1, Bool.true_and, decide_eq_true_eq]
      exact hneg.2
    have hpos : 0 < toNat f.w a := by
      have : 0 < 2^(f.N-1) := Nat.pow_pos (by decide)
      omega
    have hT : toNat f.w (negate f.w a) = 2^f.N - toNat f.w a := by
      rw [g1]; apply Nat.mod_eq_of_lt; omega
    have hI : toInt f a = (toNat f.w a : Int) - ((2^f.N : Nat) : Int) := by
      simp only [toInt, hneg, and_self, if_true]
      simp
    have hlt0 : toInt f a < 0 := by rw [hI]; omega
    have habs : (toInt f a).natAbs = toNat f.w (negate f.w a) := by
      rw [hT, hI]; omega
    refine ⟨⟨fun _ => hlt0, fun _ => hisneg⟩, ?_, ?_⟩
    · simp only [mag, hisneg, if_true]; exact ⟨g2, by rw [g3, hl]⟩
    · simp only [mag, hisneg, if_true]; exact habs.symm
  · have hisneg : isNeg f a = false := by
      simp only [isNeg, htop]
      cases hs : f.signed with
      | false => simp
      | true =>
        simp only [Bool.true_and, decide_eq_false_iff_not]
        intro h; exact hneg ⟨hs, h⟩
    have hI : toInt f a = (toNat f.w a : Int) := by
      simp only [toInt, hneg, if_false]
    have hge0 : ¬ (toInt f a < 0) := by rw [hI]; omega
    have habs : (toInt f a).natAbs = toNat f.w a := by rw [hI]; omega
    refine ⟨⟨fun h => (by rw [hisneg] at h; cases h), fun h => absurd h hge0⟩, ?_, ?_⟩
    · simp only [mag, hisneg, Bool.false_eq_true, if_false]; exact ⟨hwf, hl⟩
    · simp only [mag, hisneg, Bool.false_eq_true, if_false]; exact habs.symm

/-- `is_neg` is the sign of the two's-complement reading -/
theorem isNeg_iff' {f : Fmt} {a : Limbs} (hw : 1 ≤ f.w) (hn : 1 ≤ f.n) (ha : Val f a) :
    isNeg f a = true ↔ toInt f a < 0 := (sign_mag hw hn ha).1

theorem isNeg_eq_decide {f : Fmt} {a : Limbs} (hw : 1 ≤ f.w) (hn : 1 ≤ f.n) (ha : Val f a) :
    isNeg f a = decide (toInt f a < 0) := by
  have h := isNeg_iff' hw hn ha
  cases hi : isNeg f a with
  | true => exact (decide_eq_true (h.mp hi)).symm
  | false =>
    have : ¬ toInt f a < 0 := fun h' => by rw [h.mpr h'] at hi; cases hi
    exact (decide_eq_false this).symm

theorem toInt_eq_zero_iff {f : Fmt} {a : Limbs} (hw : 1 ≤ f.w) (hn : 1 ≤ f.n) (ha : Val f a) :
    toInt f a = 0 ↔ toNat f.w a = 0 := by
  have h := (sign_mag hw hn ha).2.2
  have hm : toNat f.w (mag f a) = 0 ↔ toInt f a = 0 := by rw [h]; omega
  constructor
  · intro h0
    have hi : isNeg f a = false := by
      cases hi : isNeg f a with
      | false => rfl
      | true => have := (isNeg_iff' hw hn ha).mp hi; omega
    have := hm.mpr h0
    simpa [mag, hi] using this
  · intro h0
    unfold toInt
    have : ¬ (toNat f.w a ≥ 2^(f.N - 1)) := by
      have : 0 < 2^(f.N-1) := Nat.pow_pos (by decide)
      omega
    simp [h0]

/-- conditionally negating a pattern: the reading is the (reduced) conditionally negated value -/
theorem cond_negate {f : Fmt} {x : Limbs} (hN : 1 ≤ f.N) (hx : Val f x) (s : Bool) :
    Val f (if s then negate f.w x else x) ∧
    toInt f (if s then negate f.w x else x)
      = wrapTwos f.N f.signed (if s then -(toNat f.w x : Int) else (toNat f.w x : Int)) := by
  cases s with
  | false =>
    simp only [Bool.false_eq_true, if_false]
    exact ⟨hx, toInt_of_cong hN hx rfl⟩
  | true =>
    simp only [if_true]
    obtain ⟨g1, g2, g3⟩ := Basic.negate_spec hx.1
    have hNN : f.w * x.length = f.N := by rw [hx.2]; rfl
    rw [hNN] at g1
    have hv : Val f (negate f.w x) := ⟨g2, by rw [g3, hx.2]⟩
    refine ⟨hv, toInt_of_cong hN hv ?_⟩
    have hlt := val_lt hx
    rw [g1]
    have c0 : ((2^f.N : Nat) : Int) = (2:Int)^f.N := by simp
    have e : (((2^f.N - toNat f.w x) % 2^f.N : Nat) : Int) = ((2:Int)^f.N - (toNat f.w x : Int)) % 2^f.N := by
      rw [Int.natCast_emod, c0, Int.natCast_sub (Nat.le_of_lt hlt), c0]
    rw [e, Int.emod_emod]
    apply cong_of_eq_add_mul (k := 1)
    omega

/-! ### `divChecked`, `maxv` -/

/-- `divChecked` is sound: a checked result is the Euclidean quotient and remainder -/
theorem divChecked_sound {w : Nat} {a b : Limbs} {q r : Nat} (h : divChecked w a b = some (q, r)) :
    q = toNat w a / toNat w b ∧ r = toNat w a % toNat w b := by
  unfold divChecked at h
  cases hd : divKnuth w a b [] with
  | none => simp [hd] at h
  | some o =>
    simp only [hd] at h
    by_cases hc : toNat w o.q * toNat w b + toNat w o.r = toNat w a ∧ toNat w o.r < toNat w b
    · simp only [hc, and_self, if_true, Option.some.injEq, Prod.mk.injEq] at h
      obtain ⟨hq, hr⟩ := h
      obtain ⟨h1, h2⟩ := hc
      rw [hq, hr] at h1
      rw [hr] at h2
      have := (Nat.div_mod_unique (a := toNat w a) (b := toNat w b) (c := r) (d := q) (by omega)).2
        ⟨by rw [Nat.mul_comm]; omega, h2⟩
      exact ⟨this.1.symm, this.2.symm⟩
    · simp [hc] at h

/-- `divKnuth` does not look at `maxv` unless the divisor is zero -/
theorem divKnuth_maxv {w : Nat} {a b : Limbs} (m1 m2 : Limbs) (hb : topZeros b ≠ a.length) :
    divKnuth w a b m1 = divKnuth w a b m2 := by
  unfold divKnuth
  simp only [hb, if_false]

/-! ### the operators -/

/-- `operator/=` is one call of the unsigned routine on the magnitudes, then a conditional negate -/
theorem opDiv_eq {f : Fmt} {a b : Limbs} {o : DivOut} (hz : isZero b = false)
    (hd : divKnuth f.w (mag f a) (mag f b)
            (if (isNeg f a || isNeg f b) = true then repMax f.unsignedView else repMax f) = some o) :
    ∃ o', opDiv f a b = some o' ∧ o'.q = (if (isNeg f a != isNeg f b) = true then negate f.w o.q else o.q) ∧ o'.r = o.r := by
  unfold opDiv
  unfold mag at hd
  cases han : isNeg f a <;> cases hbn : isNeg f b <;>
    simp only [han, hbn, hz, Bool.false_eq_true, if_false, if_true, Bool.or_self, Bool.or_true, Bool.or_false] at hd ⊢ <;>
    simp only [hd] <;> exact ⟨_, rfl, by simp, rfl⟩

/-- `operator%=` likewise; the remainder is negated when the dividend is negative -/
theorem opMod_eq {f : Fmt} {a b : Limbs} {o : DivOut}
    (hd : divKnuth f.w (mag f a) (mag f b)
            (if (isNeg f a || isNeg f b) = true then repMax f.unsignedView else repMax f) = some o) :
    ∃ o', opMod f a b = some o' ∧ o'.r = (if isNeg f a = true then negate f.w o.r else o.r) ∧ o'.q = o.q := by
  unfold opMod
  unfold mag at hd
  cases han : isNeg f a <;> cases hbn : isNeg f b <;>
    simp only [han, hbn, Bool.false_eq_true, if_false, if_true, Bool.or_self, Bool.or_true, Bool.or_false] at hd ⊢ <;>
    simp only [hd] <;> exact ⟨_, rfl, by simp, rfl⟩

/-- the unsigned routine, run by either operator, returns `|a| / |b|` and `|a| % |b|` -/
theorem knuth_on_mags {f : Fmt} {a b : Limbs} (hw : 1 ≤ f.w) (hn : 1 ≤ f.n) (ha : Val f a) (hb : Val f b)
    (hb0 : toInt f b ≠ 0)
    (hK : ∀ a' b', Val f.unsignedView a' → Val f.unsignedView b' → toNat f.w b' ≠ 0 → KnuthCorrect f.w a' b')
    (maxv : Limbs) :
    ∃ o, divKnuth f.w (mag f a) (mag f b) maxv = some o
      ∧ toNat f.w o.q = (toInt f a).natAbs / (toInt f b).natAbs
      ∧ toNat f.w o.r = (toInt f a).natAbs % (toInt f b).natAbs
      ∧ Val f o.q ∧ Val f o.r := by
  obtain ⟨_, hva, hma⟩ := sign_mag hw hn ha
  obtain ⟨_, hvb, hmb⟩ := sign_mag hw hn hb
  have hnz : toNat f.w (mag f b) ≠ 0 := by rw [hmb]; omega
  obtain ⟨o, h1, h2, h3, h4, h5, h6, h7⟩ := hK (mag f a) (mag f b) hva hvb hnz maxv
  rw [hma, hmb] at h2 h3
  exact ⟨o, h1, h2, h3, ⟨h4, by rw [h5, hva.2]⟩, ⟨h6, by rw [h7, hva.2]⟩⟩

/-- operator/ : truncating division of the values, reduced to N bits (only −2^(N−1) / −1 actually wraps) -/
theorem opDiv_toInt {f : Fmt} {a b : Limbs} (hw : 1 ≤ f.w) (hn : 1 ≤ f.n) (ha : Val f a) (hb : Val f b)
    (hb0 : toInt f b ≠ 0)
    (hK : ∀ a' b', Val f.unsignedView a' → Val f.unsignedView b' → toNat f.w b' ≠ 0 → KnuthCorrect f.w a' b') :
    ∃ o, opDiv f a b = some o ∧ toInt f o.q = wrapTwos f.N f.signed ((toInt f a).tdiv (toInt f b)) ∧ Val f o.q := by
  have hN := N_pos hw hn
  have hz : isZero b = false := by
    cases h : isZero b with
    | false => rfl
    | true => exact absurd ((toInt_eq_zero_iff hw hn hb).mpr ((Basic.isZero_spec (w := f.w)).mp h)) hb0
  obtain ⟨o, hd, hq, _, hvq, _⟩ := knuth_on_mags hw hn ha hb hb0 hK
    (if (isNeg f a || isNeg f b) = true then repMax f.unsignedView else repMax f)
  obtain ⟨o', ho', hq', _⟩ := opDiv_eq hz hd
  obtain ⟨c1, c2⟩ := cond_negate hN hvq (isNeg f a != isNeg f b)
  refine ⟨o', ho', ?_, ?_⟩
  · rw [hq', c2, hq, tdiv_abs, isNeg_eq_decide hw hn ha, isNeg_eq_decide hw hn hb]
  · rw [hq']; exact c1

/-- operator% : remainder with the sign of the dividend -/
theorem opMod_toInt {f : Fmt} {a b : Limbs} (hw : 1 ≤ f.w) (hn : 1 ≤ f.n) (ha : Val f a) (hb : Val f b)
    (hb0 : toInt f b ≠ 0)
    (hK : ∀ a' b', Val f.unsignedView a' → Val f.unsignedView b' → toNat f.w b' ≠ 0 → KnuthCorrect f.w a' b') :
    ∃ o, opMod f a b = some o ∧ toInt f o.r = wrapTwos f.N f.signed ((toInt f a).tmod (toInt f b)) ∧ Val f o.r := by
  have hN := N_pos hw hn
  obtain ⟨o, hd, _, hr, _, hvr⟩ := knuth_on_mags hw hn ha hb hb0 hK
    (if (isNeg f a || isNeg f b) = true then repMax f.unsignedView else repMax f)
  obtain ⟨o', ho', hr', _⟩ := opMod_eq hd
  obtain ⟨c1, c2⟩ := cond_negate hN hvr (isNeg f a)
  refine ⟨o', ho', ?_, ?_⟩
  · rw [hr', c2, hr, tmod_abs, isNeg_eq_decide hw hn ha]
    simp only [decide_eq_true_eq]
  · rw [hr']; exact c1

end Cnl.Wide.DivOp
