import CnlModel.Wide
import CnlSpec.Wide
/-!
# Helper lemmas for C10 (Lean core only): the limb routines of `CnlModel.Wide` compute what they should,
for every limb width `w` and every limb count, by induction on the limb list.
Sections are separate namespaces (`Cnl.Wide.Basic`, `.Mul`, `.Shift`, `.Div`, …) because they were developed
independently and each carries its own small arithmetic helpers.
-/

/-! ## Mul: schoolbook low-part product, the unrolled four-limb product -/
namespace Cnl.Wide.Mul

theorem WF_cons {w x xs} : WF w (x :: xs) ↔ x < 2^w ∧ WF w xs := by
  simp [WF]

theorem WF_nil {w} : WF w [] := by simp [WF]

theorem pow_succ_mul (w n : Nat) : 2^(w*(n+1)) = 2^w * 2^(w*n) := by
  rw [Nat.mul_succ, Nat.pow_add, Nat.mul_comm]

theorem toNat_lt {w a} (h : WF w a) : toNat w a < 2^(w * a.length) := by
  induction a with
  | nil => simp [toNat]
  | cons x xs ih =>
    rw [WF_cons] at h
    have h2 := ih h.2
    have h1 := h.1
    simp only [toNat, List.length_cons, pow_succ_mul]
    generalize 2^w = B at *
    generalize 2^(w*xs.length) = M at *
    generalize toNat w xs = t at *
    have : B * (t+1) ≤ B * M := Nat.mul_le_mul_left _ h2
    rw [Nat.mul_add] at this; omega

theorem mod_step {B M x y : Nat} (l : Nat) (h : x % M = y % M) :
    (l + B * x) % (B * M) = (l + B * y) % (B * M) := by
  rw [Nat.add_mod, Nat.mul_mod_mul_left, h, ← Nat.mul_mod_mul_left, ← Nat.add_mod]

theorem mul_add_add_lt {B a b c d : Nat} (ha : a < B) (hb : b < B) (hc : c < B) (hd : d < B) :
    c + a * b + d < B * B := by
  cases B with
  | zero => omega
  | succ n =>
    have h : a * b ≤ n * n := Nat.mul_le_mul (by omega) (by omega)
    have : (n+1)*(n+1) = n*n + 2*n + 1 := by
      simp [Nat.mul_add, Nat.add_mul]; omega
    omega

theorem pow_two_mul (w : Nat) : 2^(2*w) = 2^w * 2^w := by
  rw [Nat.two_mul, Nat.pow_add]

/-- one row: r += ai * b on the limbs r still has (|b| ≥ |r|), modulo B^|r| -/
theorem mulRow_spec {w ai} {b r : Limbs} {c : Nat} (hai : ai < 2^w) (hb : WF w b) (hr : WF w r) (hc : c < 2^w) (hl : r.length ≤ b.length) :
    toNat w (mulRow w ai b r c) % 2^(w * r.length) = (toNat w r + ai * toNat w b + c) % 2^(w * r.length)
    ∧ WF w (mulRow w ai b r c) ∧ (mulRow w ai b r c).length = r.length := by
  induction r generalizing b c with
  | nil =>
    have : mulRow w ai b [] c = [] := by cases b <;> simp [mulRow]
    simp [this, WF_nil, Nat.mod_one]
  | cons rk rs ih =>
    match b, hb, hl with
    | [], _, hl => simp at hl
    | bj :: bs, hb, hl =>
      rw [WF_cons] at hb hr
      have hl' : rs.length ≤ bs.length := by simpa using hl
      have hlt := mul_add_add_lt hai hb.1 hc hr.1
      have hBpos : 0 < 2^w := Nat.two_pow_pos w
      have h1 : dbl w (ai * bj) = ai * bj := by
        unfold dbl; rw [pow_two_mul]; apply Nat.mod_eq_of_lt; omega
      have h2 : dbl w (c + ai * bj) = c + ai * bj := by
        unfold dbl; rw [pow_two_mul]; apply Nat.mod_eq_of_lt; omega
      have h3 : dbl w (c + ai * bj + rk) = c + ai * bj + rk := by
        unfold dbl; rw [pow_two_mul]; apply Nat.mod_eq_of_lt; omega
      have hhi : hi w (c + ai * bj + rk) = (c + ai * bj + rk) / 2^w := by
        unfold hi; apply Nat.mod_eq_of_lt
        rw [Nat.div_lt_iff_lt_mul hBpos]; exact hlt
      have hhilt : hi w (c + ai * bj + rk) < 2^w := Nat.mod_lt _ hBpos
      have hlolt : lo w (c + ai * bj + rk) < 2^w := Nat.mod_lt _ hBpos
      have hsplit : lo w (c + ai * bj + rk) + 2^w * hi w (c + ai * bj + rk) = c + ai * bj + rk := by
        rw [hhi]; unfold lo; rw [Nat.add_comm]; exact Nat.div_add_mod _ _
      have IH := ih (b := bs) (c := hi w (c + ai * bj + rk)) hb.2 hr.2 hhilt hl'
      simp only [mulRow, h1, h2, h3]
      refine ⟨?_, ?_, ?_⟩
      · simp only [toNat, List.length_cons, pow_succ_mul]
        rw [mod_step _ IH.1]
        congr 1
        generalize hi w (c + ai * bj + rk) = H at *
        generalize lo w (c + ai * bj + rk) = L at *
        simp only [Nat.mul_add]
        rw [Nat.mul_left_comm ai (2^w)]
        generalize 2^w * toNat w rs = X
        generalize 2^w * (ai * toNat w bs) = Y
        generalize ai * bj = P at *
        omega
      · rw [WF_cons]; exact ⟨hlolt, IH.2.1⟩
      · simp [IH.2.2]

theorem mulLoAux_spec {w} {a b r : Limbs} (ha : WF w a) (hb : WF w b) (hr : WF w r) (hl : r.length ≤ b.length) (hla : r.length ≤ a.length) :
    toNat w (mulLoAux w a b r) % 2^(w * r.length) = (toNat w r + toNat w a * toNat w b) % 2^(w * r.length)
    ∧ WF w (mulLoAux w a b r) ∧ (mulLoAux w a b r).length = r.length := by
  induction a generalizing r with
  | nil =>
    have : r = [] := by cases r with
      | nil => rfl
      | cons _ _ => simp at hla
    subst this
    simp [mulLoAux, WF_nil, Nat.mod_one]
  | cons ai as ih =>
    rw [WF_cons] at ha
    have hrowspec : toNat w (if ai ≠ 0 then mulRow w ai b r 0 else r) % 2^(w * r.length)
          = (toNat w r + ai * toNat w b) % 2^(w * r.length)
        ∧ WF w (if ai ≠ 0 then mulRow w ai b r 0 else r)
        ∧ (if ai ≠ 0 then mulRow w ai b r 0 else r).length = r.length := by
      by_cases h0 : ai = 0
      · simp [h0, hr]
      · simp only [ne_eq, h0, not_false_eq_true, if_true]
        have := mulRow_spec (c := 0) ha.1 hb hr (Nat.two_pow_pos w) hl
        simpa using this
    rw [mulLoAux]
    generalize (if ai ≠ 0 then mulRow w ai b r 0 else r) = row at hrowspec ⊢
    obtain ⟨hv, hwf, hlen⟩ := hrowspec
    match row, hv, hwf, hlen with
    | [], hv, hwf, hlen =>
      simp only [List.length_nil] at hlen
      simp [← hlen, WF_nil, Nat.mod_one]
    | r0 :: rt, hv, hwf, hlen =>
      simp only [List.length_cons] at hlen
      rw [WF_cons] at hwf
      have IH := ih (r := rt) ha.2 hwf.2 (by omega) (by simp at hla; omega)
      refine ⟨?_, ?_, ?_⟩
      · simp only [toNat] at hv ⊢
        rw [← hlen, pow_succ_mul] at hv ⊢
        rw [mod_step _ IH.1]
        have e1 : r0 + 2^w * (toNat w rt + toNat w as * toNat w b)
            = (r0 + 2^w * toNat w rt) + 2^w * (toNat w as * toNat w b) := by
          rw [Nat.mul_add]; omega
        have e2 : toNat w r + (ai + 2^w * toNat w as) * toNat w b
            = (toNat w r + ai * toNat w b) + 2^w * (toNat w as * toNat w b) := by
          rw [Nat.add_mul, Nat.mul_assoc]; omega
        rw [e1, e2, Nat.add_mod, hv, ← Nat.add_mod]
      · rw [WF_cons]; exact ⟨hwf.1, IH.2.1⟩
      · simp [IH.2.2, ← hlen]

theorem toNat_zeros (w n : Nat) : toNat w (zeros n) = 0 := by
  induction n with
  | zero => simp [zeros, toNat]
  | succ n ih =>
    simp only [zeros, List.replicate_succ, toNat] at ih ⊢
    simp [ih]

theorem WF_zeros (w n : Nat) : WF w (zeros n) := by
  intro x hx
  simp [zeros] at hx
  rw [hx.2]; exact Nat.two_pow_pos w

theorem length_zeros (n : Nat) : (zeros n).length = n := by simp [zeros]

theorem mulLo_spec {w} {a b : Limbs} (ha : WF w a) (hb : WF w b) (hl : a.length = b.length) :
    toNat w (mulLo w a b) = (toNat w a * toNat w b) % 2^(w * a.length) ∧ WF w (mulLo w a b) ∧ (mulLo w a b).length = a.length := by
  have h := mulLoAux_spec (r := zeros a.length) ha hb (WF_zeros w _) (by rw [length_zeros]; omega) (by rw [length_zeros]; omega)
  rw [length_zeros, toNat_zeros, Nat.zero_add] at h
  unfold mulLo
  refine ⟨?_, h.2.1, h.2.2⟩
  rw [← h.1]
  symm
  apply Nat.mod_eq_of_lt
  have := toNat_lt h.2.1
  rwa [h.2.2] at this

/-! ### the unrolled four-limb routine -/

theorem expandA (B a0 a1 a2 a3 b0 b1 b2 b3 : Nat) :
  (a0 + B*(a1 + B*(a2 + B*(a3 + B*0)))) * (b0 + B*(b1 + B*(b2 + B*(b3 + B*0))))
    = a0*b0 + B*((a0*b1 + a1*b0) + B*((a0*b2 + a1*b1 + a2*b0) + B*((a0*b3 + a1*b2 + a2*b1 + a3*b0)
        + B*(a1*b3 + a2*b2 + a3*b1 + B*(a2*b3+a3*b2) + B*B*(a3*b3))))) := by
  grind

theorem core4 {B a0 a1 a2 a3 b0 b1 b2 b3 l00 h00 l01 h01 l10 h10 l11 h11 l02 h02 l20 h20 l03 h03 l12 h12 l21 h21 l30 h30 lr1 hr1 lr2 hr2 r3 q3 : Nat}
  (e00 : a0*b0 = l00 + B*h00) (e01 : a0*b1 = l01 + B*h01) (e10 : a1*b0 = l10 + B*h10) (e11 : a1*b1 = l11 + B*h11)
  (e02 : a0*b2 = l02 + B*h02) (e20 : a2*b0 = l20 + B*h20)
  (e03 : a0*b3 = l03 + B*h03) (e12 : a1*b2 = l12 + B*h12) (e21 : a2*b1 = l21 + B*h21) (e30 : a3*b0 = l30 + B*h30)
  (s1 : h00 + l10 + l01 = lr1 + B*hr1)
  (s2 : hr1 + l20 + l11 + l02 + h10 + h01 = lr2 + B*hr2)
  (s3 : hr2 + l30 + l21 + l12 + l03 + h20 + h11 + h02 = r3 + B*q3) :
  (a0 + B*(a1 + B*(a2 + B*(a3 + B*0)))) * (b0 + B*(b1 + B*(b2 + B*(b3 + B*0))))
    = (l00 + B*(lr1 + B*(lr2 + B*(r3 + B*0))))
      + B*B*B*B * (q3 + h03+h12+h21+h30 + (a1*b3 + a2*b2 + a3*b1 + B*(a2*b3+a3*b2) + B*B*(a3*b3))) := by
  rw [expandA, e00, e01, e10, e11, e02, e20, e03, e12, e21, e30]
  generalize (a1*b3 + a2*b2 + a3*b1 + B*(a2*b3+a3*b2) + B*B*(a3*b3)) = K
  have t1 : l00 + B * h00 + B * (l01 + B * h01 + (l10 + B * h10) + B * (l02 + B * h02 + (l11 + B * h11) + (l20 + B * h20) +
      B * (l03 + B * h03 + (l12 + B * h12) + (l21 + B * h21) + (l30 + B * h30) + B * K)))
    = l00 + B * ((h00 + l10 + l01) + B*((l20 + l11 + l02 + h10 + h01) + B*((l30 + l21 + l12 + l03 + h20 + h11 + h02) + B*(h03+h12+h21+h30 + K)))) := by
    grind
  rw [t1, s1]
  have t2 : l00 + B * (lr1 + B * hr1 + B * (l20 + l11 + l02 + h10 + h01 + B * (l30 + l21 + l12 + l03 + h20 + h11 + h02 + B * (h03 + h12 + h21 + h30 + K))))
    = l00 + B * (lr1 + B * ((hr1 + l20 + l11 + l02 + h10 + h01) + B * (l30 + l21 + l12 + l03 + h20 + h11 + h02 + B * (h03 + h12 + h21 + h30 + K)))) := by
    grind
  rw [t2, s2]
  have t3 : l00 + B * (lr1 + B * (lr2 + B * hr2 + B * (l30 + l21 + l12 + l03 + h20 + h11 + h02 + B * (h03 + h12 + h21 + h30 + K))))
    = l00 + B * (lr1 + B * (lr2 + B * ((hr2 + l30 + l21 + l12 + l03 + h20 + h11 + h02) + B * (h03 + h12 + h21 + h30 + K)))) := by
    grind
  rw [t3, s3]
  grind

theorem pow4 (w : Nat) : 2^(w*4) = 2^w * 2^w * 2^w * 2^w := by
  rw [show w * 4 = w + w + w + w by omega]; simp [Nat.pow_add]

/-- a value below `B²` splits into its `lo` and `hi` limbs; `dbl` is the identity on it -/
theorem split_dbl {w x : Nat} (h : x < 2^w * 2^w) :
    x = lo w (dbl w x) + 2^w * hi w (dbl w x) ∧ lo w (dbl w x) < 2^w ∧ hi w (dbl w x) < 2^w := by
  have hB : 0 < 2^w := Nat.two_pow_pos w
  have hd : dbl w x = x := by unfold dbl; rw [pow_two_mul]; exact Nat.mod_eq_of_lt h
  rw [hd]
  have hh : hi w x = x / 2^w := by
    unfold hi; apply Nat.mod_eq_of_lt; rw [Nat.div_lt_iff_lt_mul hB]; exact h
  refine ⟨?_, Nat.mod_lt _ hB, Nat.mod_lt _ hB⟩
  rw [hh]; unfold lo; exact (Nat.mod_add_div _ _).symm

theorem prod_lt {B a b : Nat} (ha : a < B) (hb : b < B) : a * b < B * B := by
  have := mul_add_add_lt ha hb ha hb
  omega

theorem finish4 {w l0 l1 l2 l3 A K : Nat} (h0 : l0 < 2^w) (h1 : l1 < 2^w) (h2 : l2 < 2^w) (h3 : l3 < 2^w)
    (h : A = (l0 + 2^w*(l1 + 2^w*(l2 + 2^w*(l3 + 2^w*0)))) + 2^w*2^w*2^w*2^w*K) :
    toNat w [l0,l1,l2,l3] = A % 2^(w*4) ∧ WF w [l0,l1,l2,l3] ∧ [l0,l1,l2,l3].length = 4 := by
  have hwf : WF w [l0,l1,l2,l3] := by
    simp only [WF_cons]; exact ⟨h0, h1, h2, h3, WF_nil⟩
  refine ⟨?_, hwf, rfl⟩
  have hlt := toNat_lt hwf
  simp only [List.length_cons, List.length_nil] at hlt
  rw [h, pow4, Nat.add_mul_mod_self_left]
  simp only [toNat] at hlt ⊢
  rw [pow4] at hlt
  exact (Nat.mod_eq_of_lt hlt).symm

/-- the column sums of the unrolled routine, on the split products -/
theorem mulLo4_core {w : Nat} (hw : 3 ≤ w)
    {a0 a1 a2 a3 b0 b1 b2 b3 l00 h00 l01 h01 l10 h10 l11 h11 l02 h02 l20 h20 l03 h03 l12 h12 l21 h21 l30 h30 : Nat}
    (e00 : a0*b0 = l00 + 2^w*h00) (e01 : a0*b1 = l01 + 2^w*h01) (e10 : a1*b0 = l10 + 2^w*h10) (e11 : a1*b1 = l11 + 2^w*h11)
    (e02 : a0*b2 = l02 + 2^w*h02) (e20 : a2*b0 = l20 + 2^w*h20)
    (e03 : a0*b3 = l03 + 2^w*h03) (e12 : a1*b2 = l12 + 2^w*h12) (e21 : a2*b1 = l21 + 2^w*h21) (e30 : a3*b0 = l30 + 2^w*h30)
    (b00 : l00 < 2^w) (c00 : h00 < 2^w) (b01 : l01 < 2^w) (c01 : h01 < 2^w) (b10 : l10 < 2^w) (c10 : h10 < 2^w)
    (b11 : l11 < 2^w) (b02 : l02 < 2^w) (b20 : l20 < 2^w) :
    toNat w [l00, lo w (dbl w (h00 + l10 + l01)),
        lo w (dbl w (hi w (dbl w (h00 + l10 + l01)) + l20 + l11 + l02 + h10 + h01)),
        lo w (hi w (dbl w (hi w (dbl w (h00 + l10 + l01)) + l20 + l11 + l02 + h10 + h01))
              + l30 + l21 + l12 + l03 + h20 + h11 + h02)]
      = (toNat w [a0,a1,a2,a3] * toNat w [b0,b1,b2,b3]) % 2^(w*4)
    ∧ WF w [l00, lo w (dbl w (h00 + l10 + l01)),
        lo w (dbl w (hi w (dbl w (h00 + l10 + l01)) + l20 + l11 + l02 + h10 + h01)),
        lo w (hi w (dbl w (hi w (dbl w (h00 + l10 + l01)) + l20 + l11 + l02 + h10 + h01))
              + l30 + l21 + l12 + l03 + h20 + h11 + h02)]
    ∧ [l00, lo w (dbl w (h00 + l10 + l01)),
        lo w (dbl w (hi w (dbl w (h00 + l10 + l01)) + l20 + l11 + l02 + h10 + h01)),
        lo w (hi w (dbl w (hi w (dbl w (h00 + l10 + l01)) + l20 + l11 + l02 + h10 + h01))
              + l30 + l21 + l12 + l03 + h20 + h11 + h02)].length = 4 := by
  have hB : 0 < 2^w := Nat.two_pow_pos w
  have hB8 : 8 ≤ 2^w := by
    have : 2^3 ≤ 2^w := Nat.pow_le_pow_right (by decide) hw
    simpa using this
  have hBB : 8 * 2^w ≤ 2^w * 2^w := Nat.mul_le_mul_right _ hB8
  obtain ⟨s1, lr1lt, hr1lt⟩ := split_dbl (w := w) (x := h00 + l10 + l01) (by omega)
  generalize lo w (dbl w (h00 + l10 + l01)) = lr1 at *
  generalize hi w (dbl w (h00 + l10 + l01)) = hr1 at *
  obtain ⟨s2, lr2lt, hr2lt⟩ := split_dbl (w := w) (x := hr1 + l20 + l11 + l02 + h10 + h01) (by omega)
  generalize lo w (dbl w (hr1 + l20 + l11 + l02 + h10 + h01)) = lr2 at *
  generalize hi w (dbl w (hr1 + l20 + l11 + l02 + h10 + h01)) = hr2 at *
  have s3 : hr2 + l30 + l21 + l12 + l03 + h20 + h11 + h02
      = lo w (hr2 + l30 + l21 + l12 + l03 + h20 + h11 + h02)
        + 2^w * ((hr2 + l30 + l21 + l12 + l03 + h20 + h11 + h02) / 2^w) := by
    unfold lo; exact (Nat.mod_add_div _ _).symm
  have r3lt : lo w (hr2 + l30 + l21 + l12 + l03 + h20 + h11 + h02) < 2^w := Nat.mod_lt _ hB
  generalize lo w (hr2 + l30 + l21 + l12 + l03 + h20 + h11 + h02) = r3 at *
  apply finish4 b00 lr1lt lr2lt r3lt
  simp only [toNat]
  exact core4 e00 e01 e10 e11 e02 e20 e03 e12 e21 e30 s1 s2 s3

/-- the unrolled routine needs 6·(2^w − 1) < 2^(2w), i.e. w ≥ 3 (it is only instantiated for w ∈ {8,16,32,64}) -/
theorem mulLo4_spec {w a0 a1 a2 a3 b0 b1 b2 b3 : Nat} (hw : 3 ≤ w)
    (h0 : a0 < 2^w) (h1 : a1 < 2^w) (h2 : a2 < 2^w) (h3 : a3 < 2^w) (k0 : b0 < 2^w) (k1 : b1 < 2^w) (k2 : b2 < 2^w) (k3 : b3 < 2^w) :
    toNat w (mulLo4 w a0 a1 a2 a3 b0 b1 b2 b3) = (toNat w [a0,a1,a2,a3] * toNat w [b0,b1,b2,b3]) % 2^(w * 4)
    ∧ WF w (mulLo4 w a0 a1 a2 a3 b0 b1 b2 b3) ∧ (mulLo4 w a0 a1 a2 a3 b0 b1 b2 b3).length = 4 := by
  have hB : 0 < 2^w := Nat.two_pow_pos w
  obtain ⟨e00, b00, c00⟩ := split_dbl (prod_lt h0 k0)
  obtain ⟨e01, b01, c01⟩ := split_dbl (prod_lt h0 k1)
  obtain ⟨e10, b10, c10⟩ := split_dbl (prod_lt h1 k0)
  obtain ⟨e11, b11, c11⟩ := split_dbl (prod_lt h1 k1)
  by_cases hz : a2 = 0 ∧ b2 = 0 ∧ a3 = 0 ∧ b3 = 0
  · simp only [mulLo4]
    rw [if_pos hz]
    obtain ⟨rfl, rfl, rfl, rfl⟩ := hz
    have z : ∀ x : Nat, x * 0 = 0 + 2^w * 0 := by intro x; simp
    have z' : ∀ x : Nat, 0 * x = 0 + 2^w * 0 := by intro x; simp
    have := mulLo4_core hw e00 e01 e10 e11 (z a0) (z' b0) (z a0) (z a1) (z' b1) (z' b0)
      b00 c00 b01 c01 b10 c10 b11 hB hB
    simp only [Nat.add_zero] at this
    rw [Nat.add_right_comm _ (hi w (dbl w (a1 * b0))) (hi w (dbl w (a0 * b1)))] at this
    exact this
  · simp only [mulLo4]
    rw [if_neg hz]
    obtain ⟨e02, b02, c02⟩ := split_dbl (prod_lt h0 k2)
    obtain ⟨e20, b20, c20⟩ := split_dbl (prod_lt h2 k0)
    obtain ⟨e03, b03, c03⟩ := split_dbl (prod_lt h0 k3)
    obtain ⟨e12, b12, c12⟩ := split_dbl (prod_lt h1 k2)
    obtain ⟨e21, b21, c21⟩ := split_dbl (prod_lt h2 k1)
    obtain ⟨e30, b30, c30⟩ := split_dbl (prod_lt h3 k0)
    exact mulLo4_core hw e00 e01 e10 e11 e02 e20 e03 e12 e21 e30 b00 c00 b01 c01 b10 c10 b11 b02 b20

theorem mulUnary_spec {w} {a b : Limbs} (ha : WF w a) (hb : WF w b) (hl : a.length = b.length) (hw : 3 ≤ w ∨ a.length ≠ 4) :
    toNat w (mulUnary w a b) = (toNat w a * toNat w b) % 2^(w * a.length) ∧ WF w (mulUnary w a b) ∧ (mulUnary w a b).length = a.length := by
  unfold mulUnary
  split
  · rename_i a0 a1 a2 a3 b0 b1 b2 b3
    simp only [WF_cons] at ha hb
    have hw3 : 3 ≤ w := by
      cases hw with
      | inl h => exact h
      | inr h => simp at h
    exact mulLo4_spec hw3 ha.1 ha.2.1 ha.2.2.1 ha.2.2.2.1 hb.1 hb.2.1 hb.2.2.1 hb.2.2.2.1
  · exact mulLo_spec ha hb hl


end Cnl.Wide.Mul

/-! ## Shift: left shift, logical and arithmetic right shift -/
namespace Cnl.Wide.Shift

/-! ## basic facts on `WF` / `toNat` -/

theorem WF_nil (w : Nat) : WF w [] := by intro x hx; cases hx

theorem WF_cons {w x : Nat} {xs : Limbs} : WF w (x :: xs) ↔ x < 2^w ∧ WF w xs := by
  simp [WF]

theorem WF_append {w : Nat} {a b : Limbs} : WF w (a ++ b) ↔ WF w a ∧ WF w b := by
  simp [WF, or_imp, forall_and]

theorem WF_replicate {w n c : Nat} (hc : c < 2^w) : WF w (List.replicate n c) := by
  intro x hx
  rw [List.mem_replicate] at hx
  omega

theorem WF_zeros (w n : Nat) : WF w (zeros n) :=
  WF_replicate (Nat.two_pow_pos _)

theorem WF_take {w : Nat} {a : Limbs} (k : Nat) (ha : WF w a) : WF w (a.take k) :=
  fun x hx => ha x (List.mem_of_mem_take hx)

theorem WF_drop {w : Nat} {a : Limbs} (k : Nat) (ha : WF w a) : WF w (a.drop k) :=
  fun x hx => ha x (List.mem_of_mem_drop hx)

theorem pow_mul_succ (w n : Nat) : 2^(w * (n+1)) = 2^w * 2^(w*n) := by
  rw [Nat.mul_succ, Nat.pow_add, Nat.mul_comm]

theorem toNat_lt {w : Nat} {a : Limbs} (ha : WF w a) : toNat w a < 2^(w * a.length) := by
  induction a with
  | nil => simp [toNat]
  | cons x xs ih =>
    rw [WF_cons] at ha
    have h1 := ih ha.2
    have h2 := ha.1
    simp only [toNat, List.length_cons, pow_mul_succ]
    generalize 2^(w * xs.length) = M at *
    generalize toNat w xs = T at *
    generalize 2^w = B at *
    have : B * (T + 1) ≤ B * M := Nat.mul_le_mul_left B h1
    rw [Nat.mul_add] at this
    omega

theorem toNat_append (w : Nat) (a b : Limbs) :
    toNat w (a ++ b) = toNat w a + 2^(w * a.length) * toNat w b := by
  induction a with
  | nil => simp [toNat]
  | cons x xs ih =>
    simp only [List.cons_append, toNat, ih, List.length_cons, pow_mul_succ]
    simp only [Nat.mul_add, Nat.mul_assoc, Nat.add_assoc]

theorem toNat_zeros (w n : Nat) : toNat w (zeros n) = 0 := by
  induction n with
  | zero => simp [zeros, toNat]
  | succ n ih =>
    simp only [zeros, List.replicate_succ, toNat] at *
    simp [ih]

theorem toNat_replicate_ones (w n : Nat) : toNat w (List.replicate n (2^w - 1)) = 2^(w*n) - 1 := by
  induction n with
  | zero => simp [toNat]
  | succ n ih =>
    simp only [List.replicate_succ, toNat, ih, pow_mul_succ]
    have h1 : 0 < 2^w := Nat.two_pow_pos _
    have h2 : 0 < 2^(w*n) := Nat.two_pow_pos _
    generalize 2^(w*n) = M at *
    generalize 2^w = B at *
    have : B * (M - 1) = B * M - B := by rw [Nat.mul_sub, Nat.mul_one]
    have : B * 1 ≤ B * M := Nat.mul_le_mul_left B h2
    omega

theorem toNat_take_drop (w : Nat) (a : Limbs) (k : Nat) (hk : k ≤ a.length) :
    toNat w a = toNat w (a.take k) + 2^(w*k) * toNat w (a.drop k) := by
  have h := toNat_append w (a.take k) (a.drop k)
  rw [List.take_append_drop, List.length_take, Nat.min_eq_left hk] at h
  exact h

/-- `(x + B*y) % (B*M) = x + B*(y % M)` for `x < B` -/
theorem add_mul_mod_mul {x B : Nat} (y M : Nat) (hx : x < B) :
    (x + B * y) % (B * M) = x + B * (y % M) := by
  rw [Nat.mod_mul, Nat.add_mul_mod_self_left, Nat.mod_eq_of_lt hx,
    Nat.add_mul_div_left _ _ (by omega : 0 < B), Nat.div_eq_of_lt hx, Nat.zero_add]

theorem toNat_take {w : Nat} {a : Limbs} (k : Nat) (ha : WF w a) (hk : k ≤ a.length) :
    toNat w (a.take k) = toNat w a % 2^(w*k) := by
  have h := toNat_take_drop w a k hk
  have hlt := toNat_lt (WF_take k ha)
  rw [List.length_take, Nat.min_eq_left hk] at hlt
  rw [h, Nat.add_mul_mod_self_left, Nat.mod_eq_of_lt hlt]

theorem toNat_drop {w : Nat} {a : Limbs} (k : Nat) (ha : WF w a) (hk : k ≤ a.length) :
    toNat w (a.drop k) = toNat w a / 2^(w*k) := by
  have h := toNat_take_drop w a k hk
  have hlt := toNat_lt (WF_take k ha)
  rw [List.length_take, Nat.min_eq_left hk] at hlt
  rw [h, Nat.add_mul_div_left _ _ (Nat.two_pow_pos _), Nat.div_eq_of_lt hlt, Nat.zero_add]

/-! ## left shift -/

theorem two_pow_split {s w : Nat} (h : s ≤ w) : 2^w = 2^(w-s) * 2^s := by
  rw [← Nat.pow_add]; congr 1; omega

/-- one limb of `shlBits` -/
theorem shl_limb {w s t prev : Nat} (hsw : s ≤ w) (hp : prev < 2^s) :
    (lo w (t * 2^s) ||| prev) = 2^s * (t % 2^(w-s)) + prev := by
  rw [lo, two_pow_split hsw, Nat.mul_mod_mul_right, Nat.mul_comm (t % 2^(w-s)) (2^s),
    ← Nat.two_pow_add_eq_or_of_lt hp]

theorem shl_limb_lt {w s t prev : Nat} (hsw : s ≤ w) (hp : prev < 2^s) :
    2^s * (t % 2^(w-s)) + prev < 2^w := by
  rw [two_pow_split hsw]
  have hr : t % 2^(w-s) < 2^(w-s) := Nat.mod_lt _ (Nat.two_pow_pos _)
  generalize t % 2^(w-s) = r at *
  generalize 2^(w-s) = P at *
  generalize 2^s = S at *
  have : S * (r + 1) ≤ S * P := Nat.mul_le_mul_left S hr
  rw [Nat.mul_add, Nat.mul_comm S P] at this
  omega

theorem shl_carry_lt {w s t : Nat} (hsw : s ≤ w) (ht : t < 2^w) : t / 2^(w-s) < 2^s := by
  rw [Nat.div_lt_iff_lt_mul (Nat.two_pow_pos _), Nat.mul_comm, ← two_pow_split hsw]
  exact ht

/-- bit shift by 0 < s < w of a limb list with incoming low part prev < 2^s, result truncated to the same number of limbs -/
theorem shlBits_spec {w s} {a : Limbs} {prev : Nat} (hs : 0 < s) (hsw : s < w) (ha : WF w a) (hp : prev < 2^s) :
    toNat w (shlBits w s a prev) = (toNat w a * 2^s + prev) % 2^(w * a.length)
    ∧ WF w (shlBits w s a prev) ∧ (shlBits w s a prev).length = a.length := by
  have _ := hs
  induction a generalizing prev with
  | nil => simp [shlBits, toNat, WF_nil, Nat.mod_one]
  | cons t ts ih =>
    rw [WF_cons] at ha
    have hsw' : s ≤ w := Nat.le_of_lt hsw
    have hq := shl_carry_lt hsw' ha.1
    obtain ⟨ih1, ih2, ih3⟩ := ih ha.2 hq
    have hx := shl_limb_lt (t := t) hsw' hp
    simp only [shlBits, toNat, List.length_cons, WF_cons, ih1, ih2, ih3, shl_limb hsw' hp, pow_mul_succ]
    refine ⟨?_, ⟨hx, trivial⟩, trivial⟩
    rw [← add_mul_mod_mul _ _ hx]
    congr 1
    have ht := Nat.div_add_mod t (2^(w-s))
    have hB := two_pow_split hsw'
    generalize t / 2^(w-s) = q at *
    generalize t % 2^(w-s) = r at *
    generalize toNat w ts = T at *
    generalize 2^(w-s) = P at *
    generalize 2^s = S at *
    generalize 2^w = B at *
    subst hB ht
    grind

theorem length_zeros (n : Nat) : (zeros n).length = n := by simp [zeros]

theorem shl_spec {w} {a : Limbs} {k : Nat} (hw : 1 ≤ w) (ha : WF w a) (hk : k < w * a.length) :
    toNat w (shl w a k) = (toNat w a * 2^k) % 2^(w * a.length) ∧ WF w (shl w a k) ∧ (shl w a k).length = a.length := by
  have hoff : k / w < a.length := Nat.div_lt_of_lt_mul hk
  have hkk := Nat.div_add_mod k w
  have hm : a.length - k / w ≤ a.length := Nat.sub_le _ _
  have hlen : a.length = k / w + (a.length - k / w) := by omega
  have hN : 2^(w * a.length) = 2^(w * (k / w)) * 2^(w * (a.length - k / w)) := by
    rw [← Nat.pow_add, ← Nat.mul_add, ← hlen]
  have hT := toNat_take (a.length - k / w) ha hm
  have hWT := WF_take (a.length - k / w) ha
  have hLT : (a.take (a.length - k / w)).length = a.length - k / w := by
    rw [List.length_take, Nat.min_eq_left hm]
  unfold shl
  simp only [List.take_left' (length_zeros _), List.drop_left' (length_zeros _)]
  by_cases hs0 : k % w = 0
  · simp only [hs0, ne_eq, not_true_eq_false, if_false]
    refine ⟨?_, WF_append.2 ⟨WF_zeros _ _, hWT⟩, ?_⟩
    · rw [toNat_append, toNat_zeros, length_zeros, hT, Nat.zero_add, hN, ← Nat.mul_mod_mul_left,
        Nat.mul_comm (toNat w a)]
      rw [hs0, Nat.add_zero] at hkk
      rw [hkk]
    · rw [List.length_append, length_zeros, hLT]; omega
  · have hs : 0 < k % w := Nat.pos_of_ne_zero hs0
    have hsw : k % w < w := Nat.mod_lt _ hw
    obtain ⟨h1, h2, h3⟩ := shlBits_spec (prev := 0) hs hsw hWT (Nat.two_pow_pos _)
    simp only [hs0, ne_eq, not_false_eq_true, if_true]
    refine ⟨?_, WF_append.2 ⟨WF_zeros _ _, h2⟩, ?_⟩
    · rw [toNat_append, toNat_zeros, length_zeros, h1, hT, hLT, Nat.zero_add, Nat.add_zero, Nat.mod_mul_mod,
        hN, ← Nat.mul_mod_mul_left, Nat.mul_comm (toNat w a), ← Nat.mul_assoc, ← Nat.pow_add, hkk, Nat.mul_comm]
    · rw [List.length_append, length_zeros, h3, hLT]; omega

/-! ## right shift -/

theorem two_pow_split' {s w : Nat} (h : s ≤ w) : 2^w = 2^s * 2^(w-s) := by
  rw [two_pow_split h, Nat.mul_comm]

/-- the part handed to the next lower limb -/
theorem shr_carry {w s : Nat} (t : Nat) (hsw : s ≤ w) : lo w (t * 2^(w-s)) = (t % 2^s) * 2^(w-s) := by
  rw [lo, two_pow_split' hsw, Nat.mul_mod_mul_right]

theorem shr_limb_div_lt {w s t : Nat} (hsw : s ≤ w) (ht : t < 2^w) : t / 2^s < 2^(w-s) := by
  rw [Nat.div_lt_iff_lt_mul (Nat.two_pow_pos _), ← two_pow_split hsw]
  exact ht

/-- one limb of `shrBits` -/
theorem shr_limb {w s t : Nat} (c : Nat) (hsw : s ≤ w) (ht : t < 2^w) :
    (t / 2^s ||| c * 2^(w-s)) = t / 2^s + 2^(w-s) * c := by
  rw [Nat.or_comm, Nat.mul_comm c, ← Nat.two_pow_add_eq_or_of_lt (shr_limb_div_lt hsw ht), Nat.add_comm]

theorem shr_limb_lt {w s t c : Nat} (hsw : s ≤ w) (ht : t < 2^w) (hc : c < 2^s) :
    t / 2^s + 2^(w-s) * c < 2^w := by
  have h1 := shr_limb_div_lt hsw ht
  rw [two_pow_split hsw]
  generalize t / 2^s = d at *
  generalize 2^(w-s) = P at *
  generalize 2^s = S at *
  have : P * (c + 1) ≤ P * S := Nat.mul_le_mul_left P hc
  rw [Nat.mul_add] at this
  omega

theorem shrBits_aux {w s} {a : Limbs} {h : Nat} (hsw : s < w) (ha : WF w a) (hh : h < 2^s) :
    (shrBits w s (h * 2^(w - s)) a).2 = ((toNat w a + h * 2^(w * a.length)) % 2^s) * 2^(w - s)
    ∧ toNat w (shrBits w s (h * 2^(w - s)) a).1 = (toNat w a + h * 2^(w * a.length)) / 2^s
    ∧ WF w (shrBits w s (h * 2^(w - s)) a).1 ∧ (shrBits w s (h * 2^(w - s)) a).1.length = a.length := by
  induction a with
  | nil => simp [shrBits, toNat, WF_nil, Nat.mod_eq_of_lt hh, Nat.div_eq_of_lt hh]
  | cons t ts ih =>
    rw [WF_cons] at ha
    have hsw' : s ≤ w := Nat.le_of_lt hsw
    obtain ⟨i1, i2, i3, i4⟩ := ih ha.2
    have hX : t + 2^w * toNat w ts + h * 2^(w * (ts.length + 1))
        = t + 2^s * (2^(w-s) * (toNat w ts + h * 2^(w * ts.length))) := by
      rw [pow_mul_succ, two_pow_split' hsw']
      generalize 2^(w-s) = P
      generalize 2^s = S
      generalize 2^(w * ts.length) = M
      generalize toNat w ts = T
      grind
    have hc : (toNat w ts + h * 2^(w * ts.length)) % 2^s < 2^s := Nat.mod_lt _ (Nat.two_pow_pos _)
    simp only [shrBits, List.length_cons, toNat, WF_cons, i1, i2, i3, i4, hX, shr_carry _ hsw', shr_limb _ hsw' ha.1,
      Nat.add_mul_mod_self_left, Nat.add_mul_div_left _ _ (Nat.two_pow_pos s)]
    refine ⟨trivial, ?_, ⟨shr_limb_lt hsw' ha.1 hc, trivial⟩, trivial⟩
    have hdm := Nat.mod_add_div (toNat w ts + h * 2^(w * ts.length)) (2^s)
    rw [two_pow_split' hsw']
    generalize (toNat w ts + h * 2^(w * ts.length)) = X' at *
    generalize X' % 2^s = r at *
    generalize X' / 2^s = q at *
    generalize 2^(w-s) = P
    generalize 2^s = S at *
    subst hdm
    grind

/-- logical part: from the top down; `init` is the incoming high part (a multiple of 2^(w-s) below 2^w, i.e. init = h * 2^(w-s) with h < 2^s) -/
theorem shrBits_spec {w s} {a : Limbs} {h : Nat} (hs : 0 < s) (hsw : s < w) (ha : WF w a) (hh : h < 2^s) :
    toNat w (shrBits w s (h * 2^(w - s)) a).1 = (toNat w a + h * 2^(w * a.length)) / 2^s
    ∧ WF w (shrBits w s (h * 2^(w - s)) a).1 ∧ (shrBits w s (h * 2^(w - s)) a).1.length = a.length :=
  have _ := hs
  (shrBits_aux hsw ha hh).2

theorem pred_mul_split (W S : Nat) (hW : 0 < W) (hS : 0 < S) :
    W * S - 1 = (S - 1) + S * (W - 1) := by
  obtain ⟨W', rfl⟩ : ∃ W', W = W' + 1 := ⟨W - 1, by omega⟩
  obtain ⟨S', rfl⟩ : ∃ S', S = S' + 1 := ⟨S - 1, by omega⟩
  simp only [Nat.add_sub_cancel, Nat.add_mul, Nat.mul_add, Nat.mul_one, Nat.one_mul]
  rw [Nat.mul_comm S' W']
  omega

/-- all-ones incoming high part -/
theorem shr_init_ones {w s : Nat} (hsw : s ≤ w) :
    lo w ((2^w - 1) * 2^(w - s)) = (2^s - 1) * 2^(w - s) := by
  rw [shr_carry _ hsw]
  congr 1
  have hS : 0 < 2^s := Nat.two_pow_pos _
  have hP : 0 < 2^(w-s) := Nat.two_pow_pos _
  rw [two_pow_split hsw, pred_mul_split _ _ hP hS, Nat.add_mul_mod_self_left, Nat.mod_eq_of_lt (by omega)]

theorem shr_arith_neg (A W S M : Nat) (hW : 0 < W) (hS : 0 < S) :
    (A + (W * S - 1) * (W * M)) / (W * S) = (A / W + (S - 1) * M) / S + M * (W - 1) := by
  rw [← Nat.div_div_eq_div_mul, Nat.mul_left_comm (W * S - 1) W M, Nat.add_mul_div_left _ _ hW,
    pred_mul_split W S hW hS, Nat.add_mul, ← Nat.add_assoc, Nat.mul_assoc, Nat.add_mul_div_left _ _ hS,
    Nat.mul_comm (W - 1) M]

theorem shr_arith_neg0 (A W M : Nat) (hW : 0 < W) :
    (A + (W - 1) * (W * M)) / W = A / W + M * (W - 1) := by
  rw [Nat.mul_left_comm (W - 1) W M, Nat.add_mul_div_left _ _ hW, Nat.mul_comm (W - 1) M]

/-- arithmetic right shift: a negative value (signed format, top bit set) is filled with ones -/
theorem shr_spec {f : Fmt} {a : Limbs} {k : Nat} (hw : 1 ≤ f.w) (ha : WF f.w a) (hl : a.length = f.n) (hk : k < f.N) :
    toNat f.w (shr f a k) = (toNat f.w a + (if isNeg f a then (2^k - 1) * 2^f.N else 0)) / 2^k
    ∧ WF f.w (shr f a k) ∧ (shr f a k).length = a.length := by
  have hN : f.N = f.w * a.length := by rw [Fmt.N, hl]
  rw [hN] at hk ⊢
  have hoff : k / f.w < a.length := Nat.div_lt_of_lt_mul hk
  have hkk := Nat.div_add_mod k f.w
  have hoff' : k / f.w ≤ a.length := Nat.le_of_lt hoff
  have hD := toNat_drop (k / f.w) ha hoff'
  have hWD := WF_drop (k / f.w) ha
  have hLD : (a.drop (k / f.w)).length = a.length - k / f.w := List.length_drop
  have hfl : a.length - (a.drop (k / f.w)).length = k / f.w := by rw [hLD]; exact Nat.sub_sub_self hoff'
  have hlen : a.length = k / f.w + (a.length - k / f.w) := by omega
  have h2k : 2^k = 2^(f.w * (k / f.w)) * 2^(k % f.w) := by rw [← Nat.pow_add, hkk]
  have h2N : 2^(f.w * a.length) = 2^(f.w * (k / f.w)) * 2^(f.w * (a.length - k / f.w)) := by
    rw [← Nat.pow_add, ← Nat.mul_add, ← hlen]
  have hW : 0 < 2^(f.w * (k / f.w)) := Nat.two_pow_pos _
  have hones : 2^f.w - 1 < 2^f.w := by have := Nat.two_pow_pos f.w; omega
  unfold shr
  simp only [hfl]
  by_cases hs0 : k % f.w = 0
  · simp only [hs0, ne_eq, not_true_eq_false, if_false]
    by_cases hneg : isNeg f a = true
    · simp only [hneg, if_true]
      refine ⟨?_, WF_append.2 ⟨hWD, WF_replicate hones⟩, ?_⟩
      · rw [toNat_append, toNat_replicate_ones, hD, hLD, h2k, h2N, hs0, Nat.pow_zero, Nat.mul_one]
        exact (shr_arith_neg0 _ _ _ hW).symm
      · rw [List.length_append, List.length_replicate, hLD]; omega
    · have hneg' : isNeg f a = false := by simpa using hneg
      simp only [hneg', Bool.false_eq_true, if_false]
      refine ⟨?_, WF_append.2 ⟨hWD, WF_zeros _ _⟩, ?_⟩
      · rw [toNat_append, show List.replicate (k / f.w) 0 = zeros (k / f.w) from rfl, toNat_zeros, hD, h2k, hs0,
          Nat.pow_zero, Nat.mul_one, Nat.mul_zero, Nat.add_zero, Nat.add_zero]
      · rw [List.length_append, List.length_replicate, hLD]; omega
  · have hsw : k % f.w < f.w := Nat.mod_lt _ hw
    have hsw' : k % f.w ≤ f.w := Nat.le_of_lt hsw
    have hS : 0 < 2^(k % f.w) := Nat.two_pow_pos _
    simp only [hs0, ne_eq, not_false_eq_true, if_true]
    by_cases hneg : isNeg f a = true
    · simp only [hneg, if_true, shr_init_ones hsw']
      obtain ⟨h1, h2, h3⟩ := shrBits_aux (h := 2^(k % f.w) - 1) hsw hWD (by omega) |>.2
      refine ⟨?_, WF_append.2 ⟨h2, WF_replicate hones⟩, ?_⟩
      · rw [toNat_append, toNat_replicate_ones, h1, h3, hD, hLD, h2k, h2N]
        exact (shr_arith_neg _ _ _ _ hW hS).symm
      · rw [List.length_append, List.length_replicate, h3, hLD]; omega
    · have hneg' : isNeg f a = false := by simpa using hneg
      simp only [hneg', Bool.false_eq_true, if_false]
      obtain ⟨h1, h2, h3⟩ := shrBits_aux (h := 0) hsw hWD hS |>.2
      rw [Nat.zero_mul] at h1 h2 h3
      refine ⟨?_, WF_append.2 ⟨h2, WF_zeros _ _⟩, ?_⟩
      · rw [toNat_append, show List.replicate (k / f.w) 0 = zeros (k / f.w) from rfl, toNat_zeros, h1, hD, h2k,
          Nat.zero_mul, Nat.mul_zero, Nat.add_zero, Nat.add_zero, Nat.add_zero, Nat.div_div_eq_div_mul]
      · rw [List.length_append, List.length_replicate, h3, hLD]; omega


end Cnl.Wide.Shift

/-! ## Div: short division (eval_divide_by_single_limb), un-normalisation, decimal digit step -/
namespace Cnl.Wide.Div

/-! ## basic helpers -/

theorem WF_nil (w : Nat) : WF w [] := by intro x hx; cases hx

theorem WF_cons {w x : Nat} {xs : Limbs} : WF w (x :: xs) ↔ x < 2^w ∧ WF w xs := by
  simp [WF]

theorem pow_two_mul (w : Nat) : 2^(2*w) = 2^w * 2^w := by rw [Nat.two_mul, Nat.pow_add]

theorem lo_of_lt {w y : Nat} (h : y < 2^w) : lo w y = y := Nat.mod_eq_of_lt h
theorem dbl_of_lt {w y : Nat} (h : y < 2^(2*w)) : dbl w y = y := Nat.mod_eq_of_lt h

theorem toNat_lt {w : Nat} {a : Limbs} (ha : WF w a) : toNat w a < 2^(w * a.length) := by
  induction a with
  | nil => simp [toNat]
  | cons x xs ih =>
    rw [WF_cons] at ha
    have h1 := ih ha.2
    have hx := ha.1
    simp only [toNat, List.length_cons]
    rw [Nat.mul_succ, Nat.pow_add, Nat.mul_comm (2^(w * xs.length))]
    have : 2^w * (toNat w xs + 1) ≤ 2^w * 2^(w * xs.length) := Nat.mul_le_mul_left _ h1
    rw [Nat.mul_add] at this
    omega

theorem toNat_append (w : Nat) (a b : Limbs) :
    toNat w (a ++ b) = toNat w a + 2^(w * a.length) * toNat w b := by
  induction a with
  | nil => simp [toNat]
  | cons x xs ih =>
    simp only [List.cons_append, toNat, List.length_cons, ih]
    rw [Nat.mul_succ, Nat.pow_add, Nat.mul_add, Nat.mul_comm (2^(w * xs.length)) (2^w), Nat.mul_assoc]
    omega

theorem WF_append {w : Nat} {a b : Limbs} : WF w (a ++ b) ↔ WF w a ∧ WF w b := by
  simp only [WF, List.mem_append]
  constructor
  · intro h; exact ⟨fun x hx => h x (Or.inl hx), fun x hx => h x (Or.inr hx)⟩
  · intro h x hx; cases hx with
    | inl hx => exact h.1 x hx
    | inr hx => exact h.2 x hx

theorem toNat_all_zero {w : Nat} {a : Limbs} (hz : ∀ x ∈ a, x = 0) : toNat w a = 0 := by
  induction a with
  | nil => rfl
  | cons x xs ih =>
    have hx : x = 0 := hz x (by simp)
    have := ih (fun y hy => hz y (by simp [hy]))
    simp [toNat, hx, this]

theorem WF_all_zero {w : Nat} {a : Limbs} (hz : ∀ x ∈ a, x = 0) : WF w a := by
  intro x hx; rw [hz x hx]; exact Nat.two_pow_pos _

theorem headD_append_zero {l z : Limbs} (hz : ∀ x ∈ z, x = 0) : (l ++ z).headD 0 = l.headD 0 := by
  cases l with
  | nil =>
    cases z with
    | nil => rfl
    | cons y ys => simpa using hz y (by simp)
  | cons x xs => rfl

/-! ## the arithmetic of one short-division step -/

theorem div_step_arith {B d x X : Nat} (hd : 0 < d) (hx : x < B) :
    x + (X % d) * B < d * B ∧ (x + (X % d) * B) / d < B
    ∧ (x + B * X) / d = B * (X / d) + (x + (X % d) * B) / d
    ∧ (x + B * X) % d = (x + (X % d) * B) % d := by
  have hρ : X % d < d := Nat.mod_lt _ hd
  have h1 : x + (X % d) * B < d * B := by
    have : (X % d + 1) * B ≤ d * B := Nat.mul_le_mul_right _ hρ
    rw [Nat.add_mul] at this
    omega
  have h2 : (x + (X % d) * B) / d < B := Nat.div_lt_of_lt_mul h1
  have hX : x + B * X = (x + (X % d) * B) + d * (B * (X / d)) := by
    have := Nat.div_add_mod X d
    calc x + B * X = x + B * (d * (X / d) + X % d) := by rw [this]
      _ = (x + (X % d) * B) + d * (B * (X / d)) := by
        rw [Nat.mul_add, Nat.mul_comm (X % d) B, Nat.mul_left_comm]; omega
  refine ⟨h1, h2, ?_, ?_⟩
  · rw [hX, Nat.add_mul_div_left _ _ hd]; omega
  · rw [hX, Nat.add_mul_mod_self_left]

/-- the wrapped subtraction `ln - d*q` in `double_limb_type` -/
theorem dbl_sub_wrap {w d ln q : Nat} (h1 : d * q ≤ ln) (h2 : ln < 2^(2*w)) :
    dbl w (ln + 2^(2*w) - dbl w (d * q)) = ln - d * q := by
  have h3 : dbl w (d * q) = d * q := dbl_of_lt (Nat.lt_of_le_of_lt h1 h2)
  rw [h3]
  have : ln + 2^(2*w) - d * q = (ln - d * q) + 2^(2*w) := by omega
  rw [this]
  unfold dbl
  rw [Nat.add_mod_right]
  exact Nat.mod_eq_of_lt (by omega)

/-- the new `long_numerator`: `x + ρ·B`, no wrap -/
theorem dbl_ln {w d x ρ : Nat} (hdw : d < 2^w) (hx : x < 2^w) (hρ : ρ < d) :
    dbl w (x + dbl w (ρ * 2^w)) = x + ρ * 2^w ∧ x + ρ * 2^w < d * 2^w ∧ d * 2^w ≤ 2^(2*w) := by
  have hB : d * 2^w ≤ 2^(2*w) := by
    rw [pow_two_mul]; exact Nat.mul_le_mul_right _ (Nat.le_of_lt hdw)
  have h1 : x + ρ * 2^w < d * 2^w := by
    have : (ρ + 1) * 2^w ≤ d * 2^w := Nat.mul_le_mul_right _ hρ
    rw [Nat.add_mul] at this
    omega
  have h2 : dbl w (ρ * 2^w) = ρ * 2^w := dbl_of_lt (by omega)
  rw [h2]
  exact ⟨dbl_of_lt (by omega), h1, hB⟩

/-! ## `divShortAux` -/

/-- invariant of the loop of eval_divide_by_single_limb, from the top limb down -/
theorem divShortAux_spec {w d} {a : Limbs} (hd : 0 < d) (hdw : d < 2^w) (ha : WF w a) :
    let r := divShortAux w d a
    toNat w r.1 = toNat w a / d ∧ d * r.2.2 ≤ r.2.1 ∧ r.2.1 - d * r.2.2 = toNat w a % d ∧ r.2.1 < 2^(2*w)
    ∧ r.2.2 < 2^w ∧ WF w r.1 ∧ r.1.length = a.length := by
  induction a with
  | nil =>
    simp only [divShortAux, toNat, List.length_nil]
    refine ⟨by simp, by simp, by simp, Nat.two_pow_pos _, Nat.two_pow_pos _, WF_nil w, trivial⟩
  | cons x xs ih =>
    rw [WF_cons] at ha
    obtain ⟨hx, hxs⟩ := ha
    obtain ⟨ih1, ih2, ih3, ih4, ih5, ih6, ih7⟩ := ih hxs
    simp only [divShortAux]
    generalize divShortAux w d xs = r at *
    rw [dbl_sub_wrap ih2 ih4, ih3]
    have hρ : toNat w xs % d < d := Nat.mod_lt _ hd
    obtain ⟨e1, e2, e3⟩ := dbl_ln hdw hx hρ
    rw [e1]
    obtain ⟨a1, a2, a3, a4⟩ := div_step_arith (X := toNat w xs) hd hx
    rw [lo_of_lt a2]
    simp only [toNat, List.length_cons]
    refine ⟨?_, Nat.mul_div_le _ _, ?_, by omega, a2, ?_, by rw [ih7]⟩
    · rw [ih1, a3]; omega
    · rw [a4]
      have := Nat.div_add_mod (x + toNat w xs % d * 2^w) d
      omega
    · rw [WF_cons]; exact ⟨a2, ih6⟩

theorem divShortAux_headD (w d : Nat) (a : Limbs) :
    (divShortAux w d a).1.headD 0 = (divShortAux w d a).2.2 := by
  cases a with
  | nil => rfl
  | cons x xs => simp [divShortAux]

/-- the tail of `divShort`: remainder recovered from the final `long_numerator` -/
theorem divShort_rem {w d X : Nat} (hd : 0 < d) (hdw : d < 2^w) {r : Limbs × Nat × Nat}
    (h2 : d * r.2.2 ≤ r.2.1) (h3 : r.2.1 - d * r.2.2 = X % d) (h4 : r.2.1 < 2^(2*w)) (h5 : r.2.2 < 2^w) :
    lo w (dbl w (r.2.2 + dbl w (dbl w (r.2.1 + 2^(2*w) - dbl w (d * r.2.2)) * 2^w)) / 2^w) = X % d := by
  rw [dbl_sub_wrap h2 h4, h3]
  have hρ : X % d < d := Nat.mod_lt _ hd
  obtain ⟨e1, e2, e3⟩ := dbl_ln hdw h5 hρ
  rw [e1]
  have hB : 0 < 2^w := Nat.two_pow_pos _
  have : (r.2.2 + X % d * 2^w) / 2^w = X % d := by
    rw [Nat.mul_comm, Nat.add_mul_div_left _ _ hB, Nat.div_eq_of_lt h5]; omega
  rw [this]
  exact lo_of_lt (by omega)

/-- with `uOffset` leading zero limbs skipped (they stay in place) -/
theorem divShort_offset_spec {w d} {a : Limbs} {k : Nat} (hd : 0 < d) (hdw : d < 2^w) (ha : WF w a) (hk : k ≤ a.length)
    (hz : ∀ x ∈ a.drop (a.length - k), x = 0) :
    toNat w (divShort w d k a).1 = toNat w a / d ∧ (divShort w d k a).2 = toNat w a % d
    ∧ WF w (divShort w d k a).1 ∧ (divShort w d k a).1.length = a.length := by
  have hsplit : a.take (a.length - k) ++ a.drop (a.length - k) = a := List.take_append_drop _ _
  have hWFt : WF w (a.take (a.length - k)) := by
    intro x hx; exact ha x (List.mem_of_mem_take hx)
  have hval : toNat w a = toNat w (a.take (a.length - k)) := by
    conv => lhs; rw [← hsplit]
    rw [toNat_append, toNat_all_zero hz]; simp
  obtain ⟨s1, s2, s3, s4, s5, s6, s7⟩ := divShortAux_spec hd hdw hWFt
  simp only [divShort]
  rw [headD_append_zero hz, divShortAux_headD]
  generalize divShortAux w d (a.take (a.length - k)) = r at *
  refine ⟨?_, ?_, ?_, ?_⟩
  · rw [toNat_append, toNat_all_zero hz, hval, s1]; simp
  · rw [hval]; exact divShort_rem hd hdw s2 s3 s4 s5
  · rw [WF_append]; exact ⟨s6, WF_all_zero hz⟩
  · rw [List.length_append, s7, List.length_take, List.length_drop]; omega

theorem divShort_spec {w d} {a : Limbs} (hd : 0 < d) (hdw : d < 2^w) (ha : WF w a) :
    toNat w (divShort w d 0 a).1 = toNat w a / d ∧ (divShort w d 0 a).2 = toNat w a % d
    ∧ WF w (divShort w d 0 a).1 ∧ (divShort w d 0 a).1.length = a.length :=
  divShort_offset_spec hd hdw ha (Nat.zero_le _) (by simp)

/-! ## `unnormalise` -/

/-- the un-normalising division of the Knuth remainder by d (exact when d divides, in general floor) -/
theorem unnormalise_spec {w d} {a : Limbs} (hd : 0 < d) (hdw : d < 2^w) (ha : WF w a) :
    toNat w (unnormalise w d a).1 = toNat w a / d ∧ (unnormalise w d a).2 = toNat w a % d
    ∧ WF w (unnormalise w d a).1 ∧ (unnormalise w d a).1.length = a.length := by
  induction a with
  | nil =>
    simp only [unnormalise, toNat, List.length_nil]
    exact ⟨by simp, by simp, WF_nil w, trivial⟩
  | cons x xs ih =>
    rw [WF_cons] at ha
    obtain ⟨hx, hxs⟩ := ha
    obtain ⟨ih1, ih2, ih3, ih4⟩ := ih hxs
    simp only [unnormalise]
    generalize unnormalise w d xs = r at *
    rw [ih2]
    have hρ : toNat w xs % d < d := Nat.mod_lt _ hd
    obtain ⟨e1, e2, e3⟩ := dbl_ln hdw hx hρ
    rw [e1]
    obtain ⟨a1, a2, a3, a4⟩ := div_step_arith (X := toNat w xs) hd hx
    rw [lo_of_lt a2]
    have hle : d * ((x + toNat w xs % d * 2^w) / d) ≤ x + toNat w xs % d * 2^w := Nat.mul_div_le _ _
    rw [dbl_sub_wrap hle (by omega)]
    have hdm := Nat.div_add_mod (x + toNat w xs % d * 2^w) d
    have hml : (x + toNat w xs % d * 2^w) % d < d := Nat.mod_lt _ hd
    simp only [toNat, List.length_cons]
    refine ⟨?_, ?_, ?_, by rw [ih4]⟩
    · rw [ih1, a3]; omega
    · rw [a4, lo_of_lt (by omega)]; omega
    · rw [WF_cons]; exact ⟨a2, ih3⟩

/-! ## the step of the decimal digit loop (`digitsLoop`) -/

theorem lo_dbl (w y : Nat) : lo w (dbl w y) = y % 2^w := by
  unfold lo dbl
  exact Nat.mod_mod_of_dvd y ⟨2^w, pow_two_mul w⟩

/-- pure arithmetic of the digit extraction: low limb of `t - 10·(t/10)` -/
theorem digit_arith {B t0 T' q0 Q' : Nat} (hB : 10 < B)
    (hQ : q0 + B * Q' = (t0 + B * T') / 10) :
    (t0 + B * B - (q0 * 10) % B) % B = (t0 + B * T') % 10 := by
  have hB0 : 0 < B := by omega
  have hm : (q0 * 10) % B < B := Nat.mod_lt _ hB0
  have hdm := Nat.div_add_mod (q0 * 10) B
  have hT := Nat.div_add_mod (t0 + B * T') 10
  have hδ : (t0 + B * T') % 10 < 10 := Nat.mod_lt _ (by decide)
  rw [← hQ] at hT
  have hBB : B ≤ B * B := Nat.le_mul_of_pos_left B hB0
  have key : (t0 + B * B - (q0 * 10) % B) + B * T'
      = (t0 + B * T') % 10 + B * (q0 * 10 / B + 10 * Q' + B) := by
    rw [Nat.mul_add, Nat.mul_add, Nat.mul_left_comm B 10 Q']
    rw [Nat.mul_add] at hT
    generalize (t0 + B * T') % 10 = δ at *
    generalize B * T' = bt at *
    generalize B * Q' = bq at *
    generalize B * B = bb at *
    generalize B * (q0 * 10 / B) = bc at *
    generalize (q0 * 10) % B = m at *
    omega
  calc (t0 + B * B - (q0 * 10) % B) % B
      = ((t0 + B * B - (q0 * 10) % B) + B * T') % B := by rw [Nat.add_mul_mod_self_left]
    _ = (t0 + B * T') % 10 := by
        rw [key, Nat.add_mul_mod_self_left]; exact Nat.mod_eq_of_lt (by omega)

/-- the digit extraction, for any limb list `q` of the right length whose value is `t / 10` -/
theorem digit_of_quot {w : Nat} {t q : Limbs} (hw : 10 < 2^w)
    (hq : toNat w q = toNat w t / 10) (hl : q.length = t.length) :
    lo w ((subN w t (mul1d w q 10).1 false).1.headD 0) = toNat w t % 10 := by
  cases t with
  | nil =>
    cases q with
    | nil => simp [subN, toNat, lo]
    | cons _ _ => simp at hl
  | cons t0 ts =>
    cases q with
    | nil => simp at hl
    | cons q0 qs =>
      simp only [toNat] at hq
      simp only [mul1d, mul1dLoop, subN, List.headD_cons, Nat.zero_add, Nat.sub_zero,
        if_neg (by decide : ¬ (10 = 0)), Bool.false_eq_true, if_false, toNat]
      rw [lo_dbl, lo_dbl, lo_of_lt (Nat.mod_lt _ (Nat.two_pow_pos w))]
      have e : dbl w (q0 * 10) % 2^w = (q0 * 10) % 2^w := lo_dbl w _
      rw [e, pow_two_mul]
      exact digit_arith hw hq

/-- one iteration of `digitsLoop`: the new value is `t / 10` and the emitted digit is `t % 10` -/
theorem digit_step_spec {w : Nat} {t : Limbs} (hw : 10 < 2^w) (ht : WF w t) :
    let q := (divShort w (lo w 10) 0 t).1
    let t10 := (mul1d w q (lo w 10)).1
    toNat w q = toNat w t / 10 ∧ WF w q ∧ q.length = t.length
    ∧ lo w ((subN w t t10 false).1.headD 0) = toNat w t % 10 := by
  have h10 : lo w 10 = 10 := lo_of_lt hw
  rw [h10]
  obtain ⟨s1, _, s3, s4⟩ := divShort_spec (w := w) (d := 10) (a := t) (by decide) hw ht
  exact ⟨s1, s3, s4, digit_of_quot hw s1 s4⟩


end Cnl.Wide.Div
