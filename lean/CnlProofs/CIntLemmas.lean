import CnlModel.CInt
/-! Lemmas about the C semantics core, shared by all property proofs (Lean core only). -/
namespace Cnl
open Cnl

theorem two_pow_pos (n : Nat) : (0 : Int) < 2^n := by
  have : (0 : Int) < 2 := by decide
  exact Int.pow_pos this

theorem two_pow_le {a b : Nat} (h : a ≤ b) : (2 : Int)^a ≤ 2^b := by
  have h2 : (2:Nat)^a ≤ 2^b := Nat.pow_le_pow_right (by decide) h
  exact_mod_cast h2

theorem two_pow_succ (n : Nat) : (2 : Int)^(n+1) = 2 * 2^n := by
  rw [Int.pow_succ]; omega

theorem two_pow_add (a b : Nat) : (2 : Int)^(a+b) = 2^a * 2^b := Int.pow_add ..

namespace IntTy

theorem max_eq (t : IntTy) : t.max = 2^t.digits - 1 := by
  unfold max digits; split <;> rfl

theorem lowest_eq (t : IntTy) : t.lowest = if t.signed then -(2^t.digits) else 0 := by
  unfold lowest digits; split <;> simp_all

/-- a value whose magnitude needs at most `D ≤ digits t` digits, non-negative if `t` is unsigned,
is in range of `t` -/
theorem inRange_of_digits {t : IntTy} {D : Nat} {v : Int} (hD : D ≤ t.digits)
    (hlo : -(2^D - 1 : Int) ≤ v) (hhi : v ≤ 2^D - 1) (hs : t.signed = false → 0 ≤ v) : t.InRange v := by
  have hp := two_pow_le hD
  unfold InRange
  rw [max_eq, lowest_eq]
  constructor
  · split
    · omega
    · rename_i h; exact hs (by simpa using h)
  · omega

theorem bits_eq_digits_succ {t : IntTy} (hs : t.signed = true) (hb : 1 ≤ t.bits) : t.bits = t.digits + 1 := by
  unfold digits; simp [hs]; omega

theorem bits_eq_digits {t : IntTy} (hs : t.signed = false) : t.bits = t.digits := by
  unfold digits; simp [hs]

/-- converting an in-range value is the identity -/
theorem wrap_id {t : IntTy} {v : Int} (hb : 1 ≤ t.bits) (h : t.InRange v) : t.wrap v = v := by
  unfold InRange at h
  rw [max_eq, lowest_eq] at h
  unfold wrap
  cases hs : t.signed with
  | true =>
    simp only [hs, ite_true] at h ⊢
    have hbd := bits_eq_digits_succ hs hb
    have e1 : t.bits - 1 = t.digits := by omega
    rw [e1, hbd, two_pow_succ]
    have hp := two_pow_pos t.digits
    generalize (2:Int)^t.digits = p at *
    rw [Int.emod_eq_of_lt (by omega) (by omega)]
    omega
  | false =>
    simp only [hs] at h ⊢
    have hbd := bits_eq_digits hs
    rw [hbd]
    have hp := two_pow_pos t.digits
    generalize (2:Int)^t.digits = p at *
    simp at h
    exact Int.emod_eq_of_lt (by omega) (by omega)

end IntTy


theorem usualArith_self (t : IntTy) : usualArith t t = promote t := by
  simp [usualArith]

theorem promote_digits_le {t : IntTy} (hb : 1 ≤ t.bits) : t.digits ≤ (promote t).digits := by
  unfold promote
  split
  · rename_i h
    simp only [IntTy.digits, i32]
    split <;> simp <;> omega
  · exact Nat.le_refl _

theorem promote_signed_of_signed {t : IntTy} (h : t.signed = true) : (promote t).signed = true := by
  unfold promote; split <;> simp [i32, h]

theorem promote_unsigned {t : IntTy} (h : (promote t).signed = false) : t.signed = false ∧ promote t = t := by
  unfold promote at *
  by_cases hb : t.bits < 32
  · simp [hb, i32] at h
  · simp [hb] at h ⊢; exact h

theorem promote_bits_ge {t : IntTy} (hb : 1 ≤ t.bits) : 1 ≤ (promote t).bits := by
  unfold promote; split
  · simp [i32]
  · exact hb

end Cnl

namespace Cnl
open Cnl

theorem i32_max : i32.max = 2147483647 := by decide
theorem i32_lowest : i32.lowest = -2147483648 := by decide

theorem promote_inRange {O : IntTy} (hb : 1 ≤ O.bits) {v : Int} (h : O.InRange v) : (promote O).InRange v := by
  unfold promote
  by_cases h32 : O.bits < 32
  · simp only [h32, ite_true]
    unfold IntTy.InRange at *
    rw [i32_max, i32_lowest]
    rw [IntTy.max_eq, IntTy.lowest_eq] at h
    have hd : O.digits ≤ 31 := by unfold IntTy.digits; split <;> omega
    have hp := two_pow_le hd
    have hp0 := two_pow_pos O.digits
    have e31 : (2:Int)^31 = 2147483648 := by decide
    rw [e31] at hp
    generalize (2:Int)^O.digits = p at *
    constructor
    · split at h <;> omega
    · omega
  · simp only [h32, ite_false]; exact h

/-- `arith` on an in-range exact result returns it -/
theorem arith_ok {T : IntTy} (hb : 1 ≤ T.bits) {e : Int} (h : T.InRange e) : arith T e = .ok (T, e) := by
  unfold arith
  by_cases hs : T.signed = true
  · simp only [hs, ite_true, h]
  · simp only [hs, IntTy.wrap_id hb h]
    rfl

end Cnl
