import CnlProofs.RoundCvt
import CnlProofs.Wide
import CnlModel.WideFloat
import CnlSpec.WideFloat
/-!
# CnlProofs.WideFloatFrom — `uintwide_t(FloatingPointType f)` truncates toward zero, modulo `2^N`

Everything below is about `CnlModel.WideFloat` (`isFiniteOwn`, `frexp32`, `frexp1`, `frexpOwn`, `mantLoop`,
`floatParts`, `zeroW`, `fromParts`, `fromFloat`).  All five deliverables are proved in full (nothing is `_partial`):

1. `floatParts_spec` — `native_float_parts` of a normal value `m · 2^e ≥ 1` returns `(m, e + prec − 1)`:
   the comparisons against `0`, `1`, `2^32`, `min()` (`fCmp_ge_pow2`, `fCmp_lt_pow2`), the exact divisions by
   `2^32` and `2` (`div_pow2`), the two `frexp` loops (`frexp32_spec`, `frexp1_spec`, `frexpOwn_spec`) and the
   bit-extraction loop (`mantLoop_step`, `mantLoop_spec`; `canon F r q` is the canonical datum of `r · 2^q`).
2. `fromParts_spec` — the integer tail (64-bit constructor, unsigned-count shift, negate) yields
   `wrapTwos N signed (truncInt neg m (ex − (prec − 1)))`, for every exponent (counts `≥ N` included).
3. `fromFloat_spec` — for every canonical finite `x` (zeros, subnormals, `|x| < 1`, normal values) the constructor
   returns a well-formed value whose reading is `WideFloatSpec.fromFloat N signed x`.
4. `fromFloat_nonfinite` (`fromFloat_nan`, `fromFloat_inf`) — NaN and `±∞` give `0`.
5. `fromFloat_inRange` — when `|trunc x| < 2^(N−1)` (and the format is signed or `x ≥ 0`) the result is `trunc x` itself.

`FOK F` (`FmtOk F ∧ 32 ≤ emax ∧ prec ≤ 64 ∧ emin ≤ −prec`) holds for `binary32`, `binary64`, `x87ext`.
The limb format only needs `1 ≤ w`, `1 ≤ n`, `64 < N` (the 64-bit significand constructor must fit below the sign bit).
-/

namespace Cnl.WideFloat.FromP
open Cnl Cnl.Wide Cnl.WideFloat Cnl.FloatP Cnl.WideSpec

def FOK (F : FFmt) : Prop := FmtOk F ∧ 32 ≤ F.emax ∧ F.prec ≤ 64 ∧ F.emin ≤ -(F.prec : Int)
instance (F : FFmt) : Decidable (FOK F) := by unfold FOK; exact inferInstance
theorem fok_binary32 : FOK binary32 := by decide
theorem fok_binary64 : FOK binary64 := by decide
theorem fok_x87ext : FOK x87ext := by decide

/-! ## comparisons of non-negative finite values -/

theorem scaled_pos (m : Nat) (e q : Int) : FVal.scaled false m e q = ((m * 2^(e - q).toNat : Nat) : Int) := by
  simp [FVal.scaled]

theorem fCmp_lt_pos (m1 : Nat) (e1 : Int) (m2 : Nat) (e2 : Int) :
    fCmp .lt (.fin false m1 e1) (.fin false m2 e2)
      = decide (m1 * 2^(e1 - (if e1 ≤ e2 then e1 else e2)).toNat < m2 * 2^(e2 - (if e1 ≤ e2 then e1 else e2)).toNat) := by
  rw [fCmp_lt_fin, scaled_pos, scaled_pos]
  exact decide_eq_decide.2 Int.ofNat_lt

theorem fCmp_ge_pos (m1 : Nat) (e1 : Int) (m2 : Nat) (e2 : Int) :
    fCmp .ge (.fin false m1 e1) (.fin false m2 e2)
      = decide (m2 * 2^(e2 - (if e1 ≤ e2 then e1 else e2)).toNat ≤ m1 * 2^(e1 - (if e1 ≤ e2 then e1 else e2)).toNat) := by
  rw [fCmp_ge_fin, scaled_pos, scaled_pos]
  exact decide_eq_decide.2 Int.ofNat_le

theorem two_pow_succ_pred {p : Nat} (hp : 1 ≤ p) : 2^p = 2 * 2^(p-1) := by
  obtain ⟨k, rfl⟩ : ∃ k, p = k + 1 := ⟨p - 1, by omega⟩
  rw [Nat.pow_succ]; simp; omega

/-- a normal significand against a power of two, at a common quantum -/
theorem cmp_core {p m a b : Nat} (hp : 1 ≤ p) (h1 : 2^(p-1) ≤ m) (h2 : m < 2^p) (hab : a = 0 ∨ b = 0) :
    2^(p-1) * 2^b ≤ m * 2^a ↔ b = 0 := by
  have hpp := two_pow_succ_pred hp
  constructor
  · intro h
    apply Decidable.byContradiction; intro hb
    have ha : a = 0 := by omega
    subst ha
    have : 2^1 ≤ 2^b := Nat.pow_le_pow_right (by decide) (by omega)
    have h3 : 2^(p-1) * 2^1 ≤ 2^(p-1) * 2^b := Nat.mul_le_mul_left _ this
    rw [Nat.pow_zero, Nat.mul_one] at h
    omega
  · intro hb
    subst hb
    rw [Nat.pow_zero, Nat.mul_one]
    have : m * 1 ≤ m * 2^a := Nat.mul_le_mul_left _ (Nat.two_pow_pos a)
    omega

theorem fCmp_ge_pow2 (F : FFmt) {m : Nat} (e : Int) (hp : 1 ≤ F.prec) (h1 : 2^(F.prec-1) ≤ m) (h2 : m < 2^F.prec)
    (k : Int) : fCmp .ge (.fin false m e) (pow2F F k) = decide (k ≤ e + ((F.prec : Int) - 1)) := by
  unfold pow2F
  rw [fCmp_ge_pos]
  apply decide_eq_decide.2
  rw [cmp_core hp h1 h2 (by split <;> omega)]
  split <;> omega

theorem fCmp_lt_pow2 (F : FFmt) {m : Nat} (e : Int) (hp : 1 ≤ F.prec) (h1 : 2^(F.prec-1) ≤ m) (h2 : m < 2^F.prec)
    (k : Int) : fCmp .lt (.fin false m e) (pow2F F k) = decide (e + ((F.prec : Int) - 1) < k) := by
  unfold pow2F
  rw [fCmp_lt_pos]
  apply decide_eq_decide.2
  rw [← Nat.not_le, cmp_core hp h1 h2 (by split <;> omega)]
  split <;> omega

theorem ofInt_zero (F : FFmt) : F.ofInt 0 = .fin false 0 F.qmin := by simp [Fmt.ofInt, Fmt.roundND]

theorem one_lt_two_pow_prec {F : FFmt} (hf : FmtOk F) : 1 < 2^F.prec := by
  have : 2^1 ≤ 2^F.prec := Nat.pow_le_pow_right (by decide) (Nat.le_trans (by decide) hf.1)
  omega

/-- `static_cast<F>(2^k)` is exact -/
theorem ofInt_pow2 (F : FFmt) (hf : FmtOk F) (k : Nat) (hk : (k : Int) ≤ F.emax) (v : Int) (hv : v.natAbs = 2^k)
    (h0 : 0 ≤ v) : F.ofInt v = pow2F F k := by
  have hlt := one_lt_two_pow_prec hf
  obtain ⟨h1, h2, h3⟩ := hf
  have := roundND_exact F false (N := 1) (by decide) hlt k 0 (by rw [log2_one]; omega) (by rw [log2_one]; omega)
  rw [Nat.pow_zero, Nat.one_mul, Nat.one_mul, log2_one, Nat.sub_zero] at this
  have hd : decide (v < 0) = false := by simp; omega
  simp only [Fmt.ofInt, pow2F, hv, hd]
  rw [this]; congr 1; omega

theorem ofInt_2p32 (F : FFmt) (hf : FOK F) : F.ofInt (2^32) = pow2F F 32 :=
  ofInt_pow2 F hf.1 32 hf.2.1 _ (by decide) (by decide)

theorem ofInt_two (F : FFmt) (hf : FOK F) : F.ofInt 2 = pow2F F 1 :=
  ofInt_pow2 F hf.1 1 (by have := hf.2.1; omega) _ (by decide) (by decide)

theorem ofInt_one (F : FFmt) (hf : FOK F) : F.ofInt 1 = pow2F F 0 := ofInt_one_pow2F F hf.1

theorem minNormal_pow2 (F : FFmt) : F.minNormal = pow2F F F.emin := by
  simp only [Fmt.minNormal, pow2F, Fmt.qmin]

/-! ## exact division of a normal number by a power of two -/

theorem div_pow2 (F : FFmt) (hf : FmtOk F) {m : Nat} (e : Int) (h1 : 2^(F.prec-1) ≤ m) (h2 : m < 2^F.prec)
    (k : Int) (hlo : F.qmin ≤ e - k) (hhi : e - k + ((F.prec : Int) - 1) ≤ F.emax) :
    F.div (.fin false m e) (pow2F F k) = .fin false m (e - k) := by
  have hp := Nat.two_pow_pos (F.prec - 1)
  have hp1 : 1 ≤ F.prec := Nat.le_trans (by decide) hf.1
  have hm2 : 2^(F.prec - 1) ≠ 0 := by omega
  simp only [pow2F, Fmt.div, hm2, ite_false, bne_self_eq_false]
  by_cases h0 : 0 ≤ e - (k - ((F.prec : Int) - 1))
  · rw [if_pos h0]
    exact roundND_self F hf false (e - k) h1 h2 hlo hhi _ _ (by omega)
  · rw [if_neg h0, ← Nat.pow_add]
    have := roundND_self F hf false (e - k) h1 h2 hlo hhi 0 (F.prec - 1 + (-(e - (k - ((F.prec : Int) - 1)))).toNat) (by omega)
    rw [Nat.pow_zero, Nat.mul_one] at this
    exact this

/-! ## `my_own::frexp` -/

theorem frexp32_spec (F : FFmt) (hf : FOK F) {m : Nat} (h1 : 2^(F.prec-1) ≤ m) (h2 : m < 2^F.prec) :
    ∀ (fuel : Nat) (e acc : Int), 0 ≤ e + ((F.prec : Int) - 1) → e + ((F.prec : Int) - 1) ≤ F.emax →
      e + ((F.prec : Int) - 1) < 32 * fuel →
      ∃ j : Nat, frexp32 F fuel (.fin false m e) acc = (.fin false m (e - 32 * j), acc + 32 * j)
        ∧ 0 ≤ e - 32 * j + ((F.prec : Int) - 1) ∧ e - 32 * j + ((F.prec : Int) - 1) < 32 := by
  obtain ⟨hok, hmax, hp64, hmin⟩ := hf
  have hp : 1 ≤ F.prec := Nat.le_trans (by decide) hok.1
  have hq : F.qmin = F.emin - ((F.prec : Int) - 1) := rfl
  intro fuel
  induction fuel with
  | zero => intro e acc a b c; omega
  | succ n ih =>
    intro e acc a b c
    have h32 : F.ofInt (2^32) = pow2F F 32 := ofInt_2p32 F ⟨hok, hmax, hp64, hmin⟩
    by_cases hge : (32 : Int) ≤ e + ((F.prec : Int) - 1)
    · have hc : fCmp .ge (.fin false m e) (pow2F F 32) = true := by
        rw [fCmp_ge_pow2 F e hp h1 h2]; simpa using hge
      have hd := div_pow2 F hok e h1 h2 32 (by omega) (by omega)
      obtain ⟨j, hj, hj1, hj2⟩ := ih (e - 32) (acc + 32) (by omega) (by omega) (by omega)
      refine ⟨j + 1, ?_, by omega, by omega⟩
      simp only [frexp32, h32, hc, ite_true, hd]
      rw [hj]
      rw [Prod.mk.injEq]
      exact ⟨congrArg (FVal.fin false m) (by omega), by omega⟩
    · have hc : fCmp .ge (.fin false m e) (pow2F F 32) = false := by
        rw [fCmp_ge_pow2 F e hp h1 h2]; simpa using hge
      refine ⟨0, ?_, by omega, by omega⟩
      simp only [frexp32, h32, hc]
      simp

theorem frexp1_spec (F : FFmt) (hf : FOK F) {m : Nat} (h1 : 2^(F.prec-1) ≤ m) (h2 : m < 2^F.prec) :
    ∀ (fuel : Nat) (e acc : Int), -1 ≤ e + ((F.prec : Int) - 1) → e + ((F.prec : Int) - 1) ≤ F.emax →
      e + ((F.prec : Int) - 1) + 1 < fuel →
      frexp1 F fuel (.fin false m e) acc = (.fin false m (-(F.prec : Int)), acc + (e + (F.prec : Int))) := by
  have h2' := ofInt_two F hf
  have h1' := ofInt_one F hf
  obtain ⟨hok, hmax, hp64, hmin⟩ := hf
  have hp : 1 ≤ F.prec := Nat.le_trans (by decide) hok.1
  have hq : F.qmin = F.emin - ((F.prec : Int) - 1) := rfl
  intro fuel
  induction fuel with
  | zero => intro e acc a b c; omega
  | succ n ih =>
    intro e acc a b c
    by_cases hge : (0 : Int) ≤ e + ((F.prec : Int) - 1)
    · have hc : fCmp .ge (.fin false m e) (pow2F F 0) = true := by
        rw [fCmp_ge_pow2 F e hp h1 h2]; simpa using hge
      have hd := div_pow2 F hok e h1 h2 1 (by omega) (by omega)
      simp only [frexp1, h1', hc, ite_true, h2', hd]
      rw [ih (e - 1) (acc + 1) (by omega) (by omega) (by omega)]
      congr 1; omega
    · have hc : fCmp .ge (.fin false m e) (pow2F F 0) = false := by
        rw [fCmp_ge_pow2 F e hp h1 h2]; simpa using hge
      simp only [frexp1, h1', hc]
      have : e = -(F.prec : Int) := by omega
      subst this
      simp
      omega

theorem frexpOwn_spec (F : FFmt) (hf : FOK F) {m : Nat} (h1 : 2^(F.prec-1) ≤ m) (h2 : m < 2^F.prec) (e : Int)
    (hlo : 0 ≤ e + ((F.prec : Int) - 1)) (hhi : e + ((F.prec : Int) - 1) ≤ F.emax) :
    frexpOwn F (.fin false m e) = (.fin false m (-(F.prec : Int)), e + (F.prec : Int)) := by
  have hneg : fCmp .lt (.fin false m e) (F.ofInt 0) = false := by
    rw [fCmp_lt_zero]; simp [sval]
  obtain ⟨j, hj, hj1, hj2⟩ := frexp32_spec F hf h1 h2 (F.emax.toNat / 32 + 2) e 0 hlo hhi (by have := hf.2.1; omega)
  have h3 := frexp1_spec F hf h1 h2 34 (e - 32 * j) (0 + 32 * j) (by omega) (by omega) (by omega)
  simp only [frexpOwn, hneg, Bool.false_eq_true, ite_false, hj, h3]
  rw [Prod.mk.injEq]
  exact ⟨rfl, by omega⟩


/-! ## the bit-extraction loop -/

/-- canonical datum of `r · 2^q` (`r < 2^prec`, binade in the normal range) -/
def canon (F : FFmt) (r : Nat) (q : Int) : FVal :=
  if r = 0 then .fin false 0 F.qmin
  else .fin false (r * 2^(F.prec - 1 - r.log2)) ((r.log2 : Int) + q - ((F.prec : Int) - 1))

theorem canon_zero (F : FFmt) (q : Int) : canon F 0 q = .fin false 0 F.qmin := by simp [canon]

theorem canon_normal {F : FFmt} (hp : 1 ≤ F.prec) {r : Nat} (hr0 : r ≠ 0) (hr : r < 2^F.prec) :
    2^(F.prec-1) ≤ r * 2^(F.prec - 1 - r.log2) ∧ r * 2^(F.prec - 1 - r.log2) < 2^F.prec := by
  have hL := log2_lt_prec hr0 hr
  have := norm_sig hr0 (c := F.prec - 1) (by omega)
  rwa [show F.prec - 1 + 1 = F.prec by omega] at this

theorem canon_double (F : FFmt) {r : Nat} (hr : r < 2^(F.prec-1)) (q : Int) :
    canon F (2*r) q = canon F r (q+1) := by
  by_cases hr0 : r = 0
  · subst hr0; simp [canon]
  · have hL := log2_lt_prec hr0 hr
    have h2 : 2 * r ≠ 0 := by omega
    have hlog : (2 * r).log2 = r.log2 + 1 := by
      have := log2_mul_two_pow hr0 1
      rwa [Nat.pow_one, Nat.mul_comm] at this
    simp only [canon, hr0, h2, ite_false, hlog]
    have e1 : 2 * r * 2^(F.prec - 1 - (r.log2 + 1)) = r * 2^(F.prec - 1 - r.log2) := by
      rw [Nat.mul_comm 2 r, Nat.mul_assoc]
      congr 1
      rw [show F.prec - 1 - r.log2 = (F.prec - 1 - (r.log2 + 1)) + 1 by omega, Nat.pow_succ, Nat.mul_comm]
    rw [e1]; congr 1; omega

theorem mul_two_canon (F : FFmt) (hf : FOK F) {r : Nat} (hr : r < 2^F.prec) :
    F.mul (canon F r (-(F.prec : Int))) (pow2F F 1) = canon F r (-(F.prec : Int) + 1) := by
  obtain ⟨hok, hmax, hp64, hmin⟩ := hf
  by_cases hr0 : r = 0
  · subst hr0
    simp only [canon, ite_true, pow2F, Fmt.mul, bne_self_eq_false, Nat.zero_mul, ofDyadic_zero]
  · have hL := log2_lt_prec hr0 hr
    simp only [canon, hr0, ite_false, pow2F, Fmt.mul, bne_self_eq_false]
    rw [Nat.mul_assoc, ← Nat.pow_add, ofDyadic_exact_mul F false hr0 hr _ _ (by omega) (by omega)]
    congr 1; omega

theorem div_lt_two {F : FFmt} (hp : 1 ≤ F.prec) {r : Nat} (hr : r < 2^F.prec) : r / 2^(F.prec-1) < 2 := by
  rw [Nat.div_lt_iff_lt_mul (Nat.two_pow_pos _), ← two_pow_succ_pred hp]; exact hr

theorem fToInt_canon (F : FFmt) (hf : FOK F) {r : Nat} (hr : r < 2^F.prec) :
    fToInt u32 (canon F r (-(F.prec : Int) + 1)) = .ok ((r / 2^(F.prec-1) : Nat) : Int) := by
  obtain ⟨hok, hmax, hp64, hmin⟩ := hf
  have hp : 1 ≤ F.prec := Nat.le_trans (by decide) hok.1
  by_cases hr0 : r = 0
  · subst hr0
    have : u32.InRange 0 := by decide
    simp [canon, fToInt, truncInt_zero, intoRange, this]
  · have hL := log2_lt_prec hr0 hr
    have hb := div_lt_two hp hr
    simp only [canon, hr0, ite_false, fToInt]
    have e1 : (r.log2 : Int) + (-(F.prec : Int) + 1) - ((F.prec : Int) - 1)
        = (-((F.prec : Int) - 1)) - ((F.prec - 1 - r.log2 : Nat) : Int) := by omega
    rw [e1, truncInt_scale]
    have hneg : ¬ (0 : Int) ≤ -((F.prec : Int) - 1) := by have := hok.1; omega
    have e2 : (-(-((F.prec : Int) - 1))).toNat = F.prec - 1 := by omega
    simp only [truncInt, hneg, ite_false, Bool.false_eq_true, e2]
    have hin : u32.InRange ((r / 2^(F.prec-1) : Nat) : Int) := by
      generalize r / 2^(F.prec-1) = b at hb
      have : b = 0 ∨ b = 1 := by omega
      rcases this with h | h <;> subst h <;> decide
    simp only [intoRange, hin, ite_true]

theorem sub_same_exp (F : FFmt) (a b : Nat) (e : Int) (hba : b ≤ a) :
    F.sub (.fin false a e) (.fin false b e)
      = if a = b then .fin false 0 F.qmin else F.ofDyadic false (a - b) e := by
  simp only [Fmt.sub, FVal.neg, Fmt.add, Int.le_refl, ite_true, FVal.scaled, Int.sub_self, Int.toNat_zero,
    Nat.pow_zero, Nat.mul_one, Bool.not_false, Bool.false_eq_true, ite_false, Bool.false_and]
  by_cases hab : a = b
  · subst hab
    have : (a : Int) + -(a : Int) = 0 := by omega
    simp [this]
  · have hc : ¬ ((a : Int) + -(b : Int) = 0) := by omega
    have hd : decide ((a : Int) + -(b : Int) < 0) = false := by simp; omega
    have hn : ((a : Int) + -(b : Int)).natAbs = a - b := by omega
    simp only [hab, hc, ite_false, hd, hn]

theorem sub_canon (F : FFmt) (hf : FOK F) {r : Nat} (hr : r < 2^F.prec) :
    F.sub (canon F r (-(F.prec : Int) + 1)) (F.ofInt ((r / 2^(F.prec-1) : Nat) : Int))
      = canon F (2 * (r % 2^(F.prec-1))) (-(F.prec : Int)) := by
  have h1' := ofInt_one F hf
  obtain ⟨hok, hmax, hp64, hmin⟩ := hf
  have hp : 1 ≤ F.prec := Nat.le_trans (by decide) hok.1
  have hpp := two_pow_succ_pred hp
  have hq : F.qmin = F.emin - ((F.prec : Int) - 1) := rfl
  by_cases hlt : r < 2^(F.prec-1)
  · rw [Nat.div_eq_of_lt hlt, Nat.mod_eq_of_lt hlt, canon_double F hlt]
    by_cases hr0 : r = 0
    · subst hr0
      simp [canon, ofInt_zero, Fmt.sub, FVal.neg, Fmt.add, FVal.scaled]
    · have hL := log2_lt_prec hr0 hr
      obtain ⟨n1, n2⟩ := canon_normal hp hr0 hr
      simp only [canon, hr0, ite_false]
      exact sub_zero_self F hok false n1 n2 (by omega) (by omega)
  · have hge : 2^(F.prec-1) ≤ r := Nat.le_of_not_lt hlt
    have hr0 : r ≠ 0 := by have := Nat.two_pow_pos (F.prec-1); omega
    have hL := log2_normal hp hge hr
    have hdiv : r / 2^(F.prec-1) = 1 := Nat.div_eq_of_lt_le (by omega) (by omega)
    have hmod : r % 2^(F.prec-1) = r - 2^(F.prec-1) := by
      have := Nat.div_add_mod r (2^(F.prec-1))
      rw [hdiv] at this; omega
    have hc : canon F r (-(F.prec : Int) + 1) = .fin false r (0 - ((F.prec : Int) - 1)) := by
      simp only [canon, hr0, ite_false, hL, Nat.sub_self, Nat.pow_zero, Nat.mul_one]
      congr 1; omega
    rw [hdiv, hmod, hc]
    show F.sub _ (F.ofInt 1) = _
    rw [h1']
    unfold pow2F
    rw [sub_same_exp F r (2^(F.prec-1)) _ hge]
    by_cases heq : r = 2^(F.prec-1)
    · simp only [heq, ite_true, Nat.sub_self, Nat.mul_zero, canon_zero]
    · simp only [heq, ite_false]
      have hr'0 : r - 2^(F.prec-1) ≠ 0 := by omega
      have hr'lt : r - 2^(F.prec-1) < 2^(F.prec-1) := by omega
      have hr'lt2 : r - 2^(F.prec-1) < 2^F.prec := by omega
      have hL' := log2_lt_prec hr'0 hr'lt
      rw [canon_double F hr'lt, ofDyadic_exact F false hr'0 hr'lt2 _ (by omega) (by omega)]
      simp only [canon, hr'0, ite_false]
      congr 1; omega

/-- one round of the loop, on the natural-number state -/
theorem mantLoop_step (F : FFmt) (hf : FOK F) (k : Nat) {r : Nat} (hr : r < 2^F.prec) (mant : Nat) :
    mantLoop F (k+1) (canon F r (-(F.prec : Int))) mant
      = mantLoop F k (canon F (2 * (r % 2^(F.prec-1))) (-(F.prec : Int)))
          (if k ≠ 0 then ((if r / 2^(F.prec-1) ≠ 0 then mant ||| 1 else mant) * 2) % 2^64
           else (if r / 2^(F.prec-1) ≠ 0 then mant ||| 1 else mant)) := by
  have hne : ((((r / 2^(F.prec-1) : Nat) : Int)) ≠ 0) = (r / 2^(F.prec-1) ≠ 0) := by
    rw [ne_eq, Int.natCast_eq_zero]
  simp only [mantLoop, ofInt_two F hf, mul_two_canon F hf hr, fToInt_canon F hf hr, sub_canon F hf hr, hne]

theorem lor_one (a : Nat) (h : a % 2 = 0) : a ||| 1 = a + 1 := by
  have := Nat.two_pow_add_eq_or_of_lt (i := 1) (b := 1) (by decide) (a / 2)
  rw [Nat.pow_one] at this
  have e : 2 * (a / 2) = a := by omega
  rw [e] at this
  exact this.symm

theorem lor_top {p m : Nat} (h1 : 2^(p-1) ≤ m) (h2 : m < 2^p) (hp : 1 ≤ p) : m ||| 2^(p-1) = m := by
  have hpp := two_pow_succ_pred hp
  have := Nat.two_pow_add_eq_or_of_lt (i := p-1) (b := m - 2^(p-1)) (by omega) 1
  rw [Nat.mul_one] at this
  have e : 2^(p-1) + (m - 2^(p-1)) = m := by omega
  rw [e] at this
  rw [this, Nat.or_comm, ← Nat.or_assoc, Nat.or_self]

theorem mantLoop_spec (F : FFmt) (hf : FOK F) :
    ∀ (k r0 mant : Nat), k + 1 ≤ F.prec → r0 < 2^(k+1) → mant % 2 = 0 → mant * 2^k + r0 < 2^64 →
      mantLoop F (k+1) (canon F (r0 * 2^(F.prec - (k+1))) (-(F.prec : Int))) mant = .ok (mant * 2^k + r0) := by
  intro k
  induction k with
  | zero =>
    intro r0 mant hk hr0 hev hov
    have hr : r0 * 2^(F.prec - (0+1)) < 2^F.prec := by
      have hpp := two_pow_succ_pred hk
      have := Nat.two_pow_pos (F.prec - 1)
      have : r0 = 0 ∨ r0 = 1 := by omega
      rcases this with h | h <;> subst h <;> simp <;> omega
    rw [mantLoop_step F hf 0 hr]
    have hb : r0 * 2^(F.prec - (0+1)) / 2^(F.prec-1) = r0 := Nat.mul_div_cancel _ (Nat.two_pow_pos _)
    simp only [mantLoop, hb, ne_eq, not_true_eq_false, ite_false, Nat.pow_zero, Nat.mul_one]
    by_cases h0 : r0 = 0
    · subst h0; simp
    · simp only [h0, not_false_eq_true, ite_true, lor_one mant hev]
      have : r0 = 1 := by omega
      rw [this]
  | succ k ih =>
    intro r0 mant hk hr0 hev hov
    have hsplit : 2^(F.prec - 1) = 2^(k+1) * 2^(F.prec - (k+1+1)) := by
      rw [← Nat.pow_add]; congr 1; omega
    have hsplit2 : 2^F.prec = 2^(k+1+1) * 2^(F.prec - (k+1+1)) := by
      rw [← Nat.pow_add]; congr 1; omega
    have hpos := Nat.two_pow_pos (F.prec - (k+1+1))
    have hr : r0 * 2^(F.prec - (k+1+1)) < 2^F.prec := by
      rw [hsplit2]; exact Nat.mul_lt_mul_of_pos_right hr0 hpos
    rw [mantLoop_step F hf (k+1) hr]
    have hb : r0 * 2^(F.prec - (k+1+1)) / 2^(F.prec-1) = r0 / 2^(k+1) := by
      rw [hsplit, Nat.mul_div_mul_right _ _ hpos]
    have hm : r0 * 2^(F.prec - (k+1+1)) % 2^(F.prec-1) = r0 % 2^(k+1) * 2^(F.prec - (k+1+1)) := by
      rw [hsplit, Nat.mul_mod_mul_right]
    have hm2 : ∀ x, 2 * (x * 2^(F.prec - (k+1+1))) = x * 2^(F.prec - (k+1)) := by
      intro x
      have : 2^(F.prec - (k+1)) = 2^(F.prec - (k+1+1)) * 2 := by
        rw [← Nat.pow_succ]; congr 1; omega
      rw [this, Nat.mul_comm 2, Nat.mul_assoc]
    rw [hb, hm, hm2]
    have hk1 : k + 1 ≠ 0 := by omega
    simp only [ne_eq, hk1, not_false_eq_true, ite_true]
    -- the bit
    have hdm := Nat.div_add_mod r0 (2^(k+1))
    have hbl : r0 / 2^(k+1) < 2 := by
      rw [Nat.div_lt_iff_lt_mul (Nat.two_pow_pos _)]
      rw [show 2^(k+1+1) = 2 * 2^(k+1) from by rw [Nat.pow_succ, Nat.mul_comm]] at hr0
      exact hr0
    have hml := Nat.mod_lt r0 (Nat.two_pow_pos (k+1))
    have hp1 : 2^(k+1) = 2 * 2^k := by rw [Nat.pow_succ, Nat.mul_comm]
    generalize r0 / 2^(k+1) = b at *
    generalize r0 % 2^(k+1) = r1 at *
    have hm1 : (if ¬ b = 0 then mant ||| 1 else mant) = mant + b := by
      by_cases h0 : b = 0
      · simp [h0]
      · simp only [h0, not_false_eq_true, ite_true, lor_one mant hev]; omega
    rw [hm1]
    have hpk := Nat.two_pow_pos k
    -- no overflow
    have hexp : (mant + b) * 2 * 2^k + r1 = mant * 2^(k+1) + r0 := by
      rw [← hdm, hp1, Nat.add_mul, Nat.add_mul, Nat.mul_assoc, Nat.mul_assoc, Nat.mul_comm b, Nat.add_assoc]
    have hno : (mant + b) * 2 < 2^64 := by
      have : (mant + b) * 2 * 1 ≤ (mant + b) * 2 * 2^k := Nat.mul_le_mul_left _ hpk
      omega
    rw [Nat.mod_eq_of_lt hno]
    rw [ih r1 ((mant + b) * 2) (by omega) hml (by omega) (by omega), hexp]

theorem floatParts_spec (F : FFmt) (hf : FOK F) {m : Nat} (e : Int) (h1 : 2^(F.prec-1) ≤ m) (h2 : m < 2^F.prec)
    (hlo : 0 ≤ e + ((F.prec : Int) - 1)) (hhi : e + ((F.prec : Int) - 1) ≤ F.emax) :
    floatParts F (.fin false m e) = .ok (m, e + ((F.prec : Int) - 1)) := by
  have hp : 1 ≤ F.prec := Nat.le_trans (by decide) hf.1.1
  have hneg : fCmp .lt (.fin false m e) (F.ofInt 0) = false := by
    rw [fCmp_lt_zero]; simp [sval]
  have hmn : fCmp .lt (.fin false m e) F.minNormal = false := by
    rw [minNormal_pow2, fCmp_lt_pow2 F e hp h1 h2]
    have := hf.1.2.1
    simp; omega
  have hfr := frexpOwn_spec F hf h1 h2 e hlo hhi
  have hcan : FVal.fin false m (-(F.prec : Int)) = canon F (m * 2^(F.prec - (F.prec - 1 + 1))) (-(F.prec : Int)) := by
    have hm0 : m ≠ 0 := by have := Nat.two_pow_pos (F.prec-1); omega
    have hL := log2_normal hp h1 h2
    rw [show F.prec - (F.prec - 1 + 1) = 0 by omega, Nat.pow_zero, Nat.mul_one]
    simp only [canon, hm0, ite_false, hL, Nat.sub_self, Nat.pow_zero, Nat.mul_one]
    congr 1; omega
  have hloop : mantLoop F F.prec (.fin false m (-(F.prec : Int))) 0 = .ok m := by
    have := mantLoop_spec F hf (F.prec - 1) m 0 (by omega) (by rw [show F.prec - 1 + 1 = F.prec by omega]; exact h2)
      (by decide) (by
        have : 2^F.prec ≤ 2^64 := Nat.pow_le_pow_right (by decide) hf.2.2.1
        omega)
    rw [show F.prec - 1 + 1 = F.prec by omega] at this
    rw [Nat.zero_mul, Nat.zero_add] at this
    rw [hcan, show F.prec - 1 + 1 = F.prec by omega]
    exact this
  simp only [floatParts, hneg, Bool.false_eq_true, ite_false, hmn, hfr, hloop, lor_top h1 h2 hp]
  rw [Res.ok.injEq, Prod.mk.injEq]
  exact ⟨rfl, by omega⟩


/-! ## Part 2: the integer tail -/

theorem pow_le_pow2 {a b : Nat} (h : a ≤ b) : 2^a ≤ 2^b := Nat.pow_le_pow_right (by decide) h

/-- the magnitude `m · 2^p2` truncated, as a natural number -/
def magNat (m : Nat) (p2 : Int) : Nat := if 0 ≤ p2 then m * 2 ^ p2.toNat else m / 2 ^ (-p2).toNat

theorem truncInt_magNat (s : Bool) (m : Nat) (p2 : Int) :
    truncInt s m p2 = if s then -(magNat m p2 : Int) else magNat m p2 := rfl

theorem fromBuiltin_u64 (f : WFmt) (m : Nat) : fromBuiltin f u64 (m : Int) = fromUnsigned f 64 m := by
  simp [fromBuiltin, u64]

/-- the shifted significand: value `magNat m p2` modulo `2^N` -/
theorem shifted_spec {f : WFmt} (hw : 1 ≤ f.w) (hn : 1 ≤ f.n) (hN : 64 < f.N) {m : Nat} (hm : m < 2^64) (p2 : Int) :
    let v := fromBuiltin f u64 (m : Int)
    let s := if p2 < 0 then shrOp f v (-p2) false else if p2 = 0 then v else shlOp f v p2 false
    toNat f.w s = magNat m p2 % 2^f.N ∧ WF f.w s ∧ s.length = f.n := by
  intro v s
  obtain ⟨v1, v2, v3⟩ := Conv.fromUnsigned_spec (f := f) (bits := 64) (v := m) hw hn (by omega) hm
  rw [← fromBuiltin_u64] at v1 v2 v3
  have h64 : 2^64 ≤ 2^(f.N - 1) := pow_le_pow2 (by omega)
  have hNN : 2^(f.N - 1) ≤ 2^f.N := pow_le_pow2 (by omega)
  have hneg : isNeg f v = false := by
    rw [Conv.isNeg_spec hw hn v2 v3, v1]
    have : ¬ (m ≥ 2^(f.N - 1)) := by omega
    simp [this]
  have hmN : m < 2^f.N := by omega
  by_cases h1 : p2 < 0
  · have hs : s = shrOp f v (-p2) false := by simp only [s, h1, ite_true]
    rw [hs]
    have hmag : magNat m p2 = m / 2^(-p2).toNat := by
      have : ¬ 0 ≤ p2 := by omega
      simp only [magNat, this, ite_false]
    have hlt : m / 2^(-p2).toNat < 2^f.N := Nat.lt_of_le_of_lt (Nat.div_le_self _ _) hmN
    rw [hmag, Nat.mod_eq_of_lt hlt]
    have hk0 : ¬ (-p2 = 0) := by omega
    by_cases hk : (-p2).toNat ≥ f.N
    · simp only [shrOp, Bool.false_and, Bool.false_eq_true, ite_false, hk0, hk, ite_true]
      refine ⟨?_, Shift.WF_zeros _ _, by rw [Shift.length_zeros, v3]⟩
      rw [Shift.toNat_zeros]
      have : 2^f.N ≤ 2^(-p2).toNat := pow_le_pow2 hk
      exact (Nat.div_eq_of_lt (by omega)).symm
    · simp only [shrOp, Bool.false_and, Bool.false_eq_true, ite_false, hk0, hk]
      obtain ⟨s1, s2, s3⟩ := Shift.shr_spec (k := (-p2).toNat) hw v2 v3 (by omega)
      rw [hneg] at s1
      simp only [Bool.false_eq_true, ite_false, Nat.add_zero] at s1
      rw [v1] at s1
      exact ⟨s1, s2, by rw [s3, v3]⟩
  · by_cases h2 : p2 = 0
    · have hs : s = v := by simp [s, h2]
      rw [hs, h2]
      refine ⟨?_, v2, v3⟩
      simp only [magNat, Int.le_refl, ite_true, Int.toNat_zero, Nat.pow_zero, Nat.mul_one]
      rw [v1, Nat.mod_eq_of_lt hmN]
    · have hs : s = shlOp f v p2 false := by simp only [s, h1, h2, ite_false]
      rw [hs]
      have hmag : magNat m p2 = m * 2^p2.toNat := by
        have : 0 ≤ p2 := by omega
        simp only [magNat, this, ite_true]
      rw [hmag]
      by_cases hk : p2.toNat ≥ f.N
      · simp only [shlOp, Bool.false_and, Bool.false_eq_true, ite_false, h2, hk, ite_true]
        refine ⟨?_, Shift.WF_zeros _ _, by rw [Shift.length_zeros, v3]⟩
        rw [Shift.toNat_zeros]
        have e : p2.toNat = f.N + (p2.toNat - f.N) := by omega
        rw [e, Nat.pow_add, ← Nat.mul_assoc, Nat.mul_comm m, Nat.mul_assoc, Nat.mul_mod_right]
      · simp only [shlOp, Bool.false_and, Bool.false_eq_true, ite_false, h2, hk]
        have hNl : f.N = f.w * v.length := by rw [v3]; rfl
        obtain ⟨s1, s2, s3⟩ := Shift.shl_spec (k := p2.toNat) hw v2 (by rw [← hNl]; omega)
        rw [← hNl, v1] at s1
        exact ⟨s1, s2, by rw [s3, v3]⟩

theorem fromParts_spec {f : WFmt} {F : FFmt} (hw : 1 ≤ f.w) (hn : 1 ≤ f.n) (hN : 64 < f.N) {m : Nat} (hm : m < 2^64)
    (neg : Bool) (ex : Int) :
    let l := fromParts f F neg m ex
    WF f.w l ∧ l.length = f.n ∧ toInt f l = wrapTwos f.N f.signed (truncInt neg m (ex - ((F.prec : Int) - 1))) := by
  intro l
  obtain ⟨s1, s2, s3⟩ := shifted_spec hw hn hN hm (ex - ((F.prec : Int) - 1))
  have hN1 : 1 ≤ f.N := by omega
  have hc : ((2^f.N : Nat) : Int) = (2:Int)^f.N := by simp
  have hmodc : ((magNat m (ex - ((F.prec : Int) - 1)) % 2^f.N : Nat) : Int) % 2^f.N
      = (magNat m (ex - ((F.prec : Int) - 1)) : Int) % 2^f.N := by
    rw [Int.natCast_emod, hc]; exact Int.emod_emod_of_dvd _ (Int.dvd_refl _)
  cases neg with
  | false =>
    have hl : l = (if ex - ((F.prec : Int) - 1) < 0 then shrOp f (fromBuiltin f u64 (m:Int)) (-(ex - ((F.prec : Int) - 1))) false
        else if ex - ((F.prec : Int) - 1) = 0 then fromBuiltin f u64 (m:Int)
        else shlOp f (fromBuiltin f u64 (m:Int)) (ex - ((F.prec : Int) - 1)) false) := by
      simp only [l, fromParts, Bool.false_eq_true, ite_false]
    rw [hl]
    refine ⟨s2, s3, ?_⟩
    apply Bridge.toInt_of_cong hN1 ⟨s2, s3⟩
    rw [s1, truncInt_magNat]
    simp only [Bool.false_eq_true, ite_false]
    exact hmodc
  | true =>
    have hl : l = negate f.w (if ex - ((F.prec : Int) - 1) < 0 then shrOp f (fromBuiltin f u64 (m:Int)) (-(ex - ((F.prec : Int) - 1))) false
        else if ex - ((F.prec : Int) - 1) = 0 then fromBuiltin f u64 (m:Int)
        else shlOp f (fromBuiltin f u64 (m:Int)) (ex - ((F.prec : Int) - 1)) false) := by
      simp only [l, fromParts, ite_true]
    rw [hl]
    obtain ⟨n1, n2, n3⟩ := Basic.negate_spec s2
    rw [s3] at n1 n3
    refine ⟨n2, n3, ?_⟩
    apply Bridge.toInt_of_cong hN1 ⟨n2, n3⟩
    rw [n1, truncInt_magNat, s1]
    simp only [ite_true]
    have hNe : f.w * f.n = f.N := rfl
    rw [hNe]
    have hr := Nat.mod_lt (magNat m (ex - ((F.prec : Int) - 1))) (Nat.two_pow_pos f.N)
    generalize magNat m (ex - ((F.prec : Int) - 1)) = A at *
    rw [Int.natCast_emod, hc, Int.emod_emod_of_dvd _ (Int.dvd_refl _)]
    have hsub : ((2^f.N - A % 2^f.N : Nat) : Int) = 2^f.N - ((A % 2^f.N : Nat) : Int) := by
      rw [Int.natCast_sub (Nat.le_of_lt hr), hc]
    rw [hsub, Int.sub_emod, Int.emod_self, Int.zero_sub, hmodc]
    exact Bridge.cong_neg (Int.emod_emod_of_dvd _ (Int.dvd_refl _))


-- wide_integer<224, uint32_t, signed> from the parts of `-1536.0f`, and a shift count far beyond the width
example : let l := fromParts ⟨32, 7, true⟩ binary32 true 12582912 10
    WF 32 l ∧ l.length = 7 ∧ toInt ⟨32, 7, true⟩ l = wrapTwos 224 true (truncInt true 12582912 (10 - ((24 : Nat) - 1))) :=
  fromParts_spec (f := ⟨32, 7, true⟩) (F := binary32) (by decide) (by decide) (by decide) (by decide) true 10
example : let l := fromParts ⟨8, 9, false⟩ binary64 false (2^53 - 1) 1023
    WF 8 l ∧ l.length = 9 ∧ toInt ⟨8, 9, false⟩ l = wrapTwos 72 false (truncInt false (2^53 - 1) (1023 - ((53 : Nat) - 1))) :=
  fromParts_spec (f := ⟨8, 9, false⟩) (F := binary64) (by decide) (by decide) (by decide) (by decide) false 1023

/-! ## Part 3: the constructor on canonical finite values -/

theorem fCmp_gt_fin (s1 : Bool) (m1 : Nat) (e1 : Int) (s2 : Bool) (m2 : Nat) (e2 : Int) :
    fCmp .gt (.fin s1 m1 e1) (.fin s2 m2 e2)
      = decide (FVal.scaled s1 m1 e1 (if e1 ≤ e2 then e1 else e2) > FVal.scaled s2 m2 e2 (if e1 ≤ e2 then e1 else e2)) := by
  simp only [fCmp, FVal.cmp?]
  generalize FVal.scaled s1 m1 e1 _ = a
  generalize FVal.scaled s2 m2 e2 _ = b
  by_cases h : a < b
  · have h2 : ¬ b < a := by omega
    simp [h, h2]
  · by_cases h' : a = b
    · subst h'; simp
    · have h2 : b < a := by omega
      simp [h, h', h2]

theorem fCmp_ne_self (s : Bool) (m : Nat) (e : Int) : fCmp .ne (.fin s m e) (.fin s m e) = false := by
  simp [fCmp, FVal.cmp?]

/-- `my_own::isfinite` accepts every canonical finite value -/
theorem isFiniteOwn_fin (F : FFmt) (s : Bool) (m : Nat) (e : Int) (hc : F.Canonical (.fin s m e) = true) :
    isFiniteOwn F (.fin s m e) = true := by
  simp only [Fmt.Canonical, Bool.and_eq_true, Bool.or_eq_true, decide_eq_true_eq] at hc
  obtain ⟨⟨⟨c1, c2⟩, c3⟩, c4⟩ := hc
  have hE : e ≤ F.emax - ((F.prec : Int) - 1) := by omega
  have key : m * 2^(e - e).toNat ≤ (2^F.prec - 1) * 2^(F.emax - ((F.prec : Int) - 1) - e).toNat := by
    rw [Int.sub_self, Int.toNat_zero, Nat.pow_zero, Nat.mul_one]
    have : (2^F.prec - 1) * 1 ≤ (2^F.prec - 1) * 2^(F.emax - ((F.prec : Int) - 1) - e).toNat :=
      Nat.mul_le_mul_left _ (Nat.two_pow_pos _)
    omega
  have hgt : fCmp .gt (.fin s m e) F.maxFinite = false := by
    unfold Fmt.maxFinite
    rw [fCmp_gt_fin]
    simp only [hE, ite_true, FVal.scaled, Bool.false_eq_true, ite_false, decide_eq_false_iff_not]
    cases s <;> simp only [Bool.false_eq_true, ite_false, ite_true] <;> omega
  have hlt : fCmp .lt (.fin s m e) (F.maxFinite true) = false := by
    unfold Fmt.maxFinite
    rw [fCmp_lt_fin]
    simp only [hE, ite_true, FVal.scaled, decide_eq_false_iff_not]
    cases s <;> simp only [Bool.false_eq_true, ite_false, ite_true] <;> omega
  simp only [isFiniteOwn, fCmp_ne_self, Bool.false_eq_true, ite_false, hgt, hlt, Bool.or_self, Bool.not_false]

/-- the value is below one: `e < -(prec-1)`, or a subnormal/zero significand at `e ≤ -(prec-1)` -/
def Small (F : FFmt) (m : Nat) (e : Int) : Prop :=
  e < -((F.prec : Int) - 1) ∨ (m < 2^(F.prec-1) ∧ e ≤ -((F.prec : Int) - 1))

theorem small_or_big (F : FFmt) (hf : FmtOk F) (s : Bool) (m : Nat) (e : Int) (hc : F.Canonical (.fin s m e) = true) :
    Small F m e ∨ (2^(F.prec-1) ≤ m ∧ 0 ≤ e + ((F.prec : Int) - 1)) := by
  simp only [Fmt.Canonical, Bool.and_eq_true, Bool.or_eq_true, decide_eq_true_eq] at hc
  obtain ⟨⟨⟨c1, c2⟩, c3⟩, c4⟩ := hc
  have hq : F.qmin = F.emin - ((F.prec : Int) - 1) := rfl
  have := hf.2.1
  unfold Small
  by_cases hm : 2^(F.prec-1) ≤ m
  · by_cases he : 0 ≤ e + ((F.prec : Int) - 1)
    · exact Or.inr ⟨hm, he⟩
    · exact Or.inl (Or.inl (by omega))
  · rcases c4 with c4 | c4
    · omega
    · exact Or.inl (Or.inr ⟨by omega, by omega⟩)

theorem lt_one_small (F : FFmt) (hp : 1 ≤ F.prec) {m : Nat} {e : Int} (hm : m < 2^F.prec) (h : Small F m e) :
    fCmp .lt (.fin false m e) (pow2F F 0) = true := by
  have hpp := two_pow_succ_pred hp
  unfold pow2F
  rw [fCmp_lt_pos]
  have hle : e ≤ 0 - ((F.prec : Int) - 1) := by unfold Small at h; omega
  simp only [hle, ite_true, Int.sub_self, Int.toNat_zero, Nat.pow_zero, Nat.mul_one, decide_eq_true_eq]
  rcases h with h | ⟨h, _⟩
  · have : 2^1 ≤ 2^(0 - ((F.prec : Int) - 1) - e).toNat := Nat.pow_le_pow_right (by decide) (by omega)
    have : 2^(F.prec-1) * 2^1 ≤ 2^(F.prec-1) * 2^(0 - ((F.prec : Int) - 1) - e).toNat := Nat.mul_le_mul_left _ this
    omega
  · have : 2^(F.prec-1) * 1 ≤ 2^(F.prec-1) * 2^(0 - ((F.prec : Int) - 1) - e).toNat :=
      Nat.mul_le_mul_left _ (Nat.two_pow_pos _)
    omega

theorem trunc_small (F : FFmt) (hf : FmtOk F) (s : Bool) {m : Nat} {e : Int} (hm : m < 2^F.prec) (h : Small F m e) :
    truncInt s m e = 0 := by
  have hp : 1 ≤ F.prec := Nat.le_trans (by decide) hf.1
  have hp2 := hf.1
  have hpp := two_pow_succ_pred hp
  have hneg : ¬ 0 ≤ e := by unfold Small at h; omega
  have hz : m / 2^(-e).toNat = 0 := by
    apply Nat.div_eq_of_lt
    rcases h with h | ⟨h, h'⟩
    · have : 2^F.prec ≤ 2^(-e).toNat := Nat.pow_le_pow_right (by decide) (by omega)
      omega
    · have : 2^(F.prec-1) ≤ 2^(-e).toNat := Nat.pow_le_pow_right (by decide) (by omega)
      omega
  simp only [truncInt, hneg, ite_false, hz]
  cases s <;> simp

theorem fCmp_lt_negzero (e : Int) (y : FVal) : fCmp .lt (.fin true 0 e) y = fCmp .lt (.fin false 0 e) y := by
  cases y <;> simp [fCmp, FVal.cmp?, FVal.scaled]

theorem zeroW_spec {f : WFmt} (hw : 1 ≤ f.w) (hn : 1 ≤ f.n) (hN : 64 < f.N) :
    WF f.w (zeroW f) ∧ (zeroW f).length = f.n ∧ toInt f (zeroW f) = wrapTwos f.N f.signed 0 := by
  have e : zeroW f = fromUnsigned f 32 0 := by simp [zeroW, fromBuiltin, u32]
  obtain ⟨v1, v2, v3⟩ := Conv.fromUnsigned_spec (f := f) (bits := 32) (v := 0) hw hn (by omega) (Nat.two_pow_pos _)
  rw [← e] at v1 v2 v3
  refine ⟨v2, v3, ?_⟩
  apply Bridge.toInt_of_cong (by omega) ⟨v2, v3⟩
  rw [v1]; rfl

/-- the operand `a = |x|` and the sign test of the constructor -/
theorem abs_step (F : FFmt) (s : Bool) {m : Nat} (e : Int) (hm : m ≠ 0) :
    fCmp .lt (.fin s m e) (F.ofInt 0) = s
    ∧ (if !s then FVal.fin s m e else (FVal.fin s m e).neg) = .fin false m e := by
  have h : fCmp .lt (.fin s m e) (F.ofInt 0) = s := by rw [fCmp_lt_zero, sval_neg_iff s hm]
  refine ⟨h, ?_⟩
  cases s <;> simp [FVal.neg]

theorem abs_step_zero (F : FFmt) (s : Bool) (e : Int) :
    fCmp .lt (.fin s 0 e) (F.ofInt 0) = false := by
  rw [fCmp_lt_zero]; simp [sval_zero]

theorem fromFloat_small (f : WFmt) (F : FFmt) (hf : FOK F) (s : Bool) (m : Nat) (e : Int)
    (hc : F.Canonical (.fin s m e) = true) (hs : Small F m e) :
    fromFloat f F (.fin s m e) = .ok (zeroW f) := by
  have hfin := isFiniteOwn_fin F s m e hc
  have hp : 1 ≤ F.prec := Nat.le_trans (by decide) hf.1.1
  have hm : m < 2^F.prec := by
    simp only [Fmt.Canonical, Bool.and_eq_true, Bool.or_eq_true, decide_eq_true_eq] at hc
    exact hc.1.1.1
  have h1 := lt_one_small F hp hm hs
  rw [← ofInt_one F hf] at h1
  by_cases hm0 : m = 0
  · subst hm0
    have hz := abs_step_zero F s e
    have h1' : fCmp .lt (.fin s 0 e) (F.ofInt 1) = true := by
      cases s
      · exact h1
      · rw [fCmp_lt_negzero]; exact h1
    simp only [fromFloat, hfin, Bool.not_true, Bool.false_eq_true, ite_false, hz, Bool.not_false, ite_true, h1']
  · obtain ⟨a1, a2⟩ := abs_step F s e hm0
    simp only [fromFloat, hfin, Bool.not_true, Bool.false_eq_true, ite_false, a1, a2, h1, ite_true]

theorem fromFloat_big (f : WFmt) (F : FFmt) (hf : FOK F) (s : Bool) (m : Nat) (e : Int)
    (hc : F.Canonical (.fin s m e) = true) (h1 : 2^(F.prec-1) ≤ m) (hlo : 0 ≤ e + ((F.prec : Int) - 1)) :
    fromFloat f F (.fin s m e) = .ok (fromParts f F s m (e + ((F.prec : Int) - 1))) := by
  have hfin := isFiniteOwn_fin F s m e hc
  have hp : 1 ≤ F.prec := Nat.le_trans (by decide) hf.1.1
  simp only [Fmt.Canonical, Bool.and_eq_true, Bool.or_eq_true, decide_eq_true_eq] at hc
  obtain ⟨⟨⟨c1, c2⟩, c3⟩, c4⟩ := hc
  have hm0 : m ≠ 0 := by have := Nat.two_pow_pos (F.prec-1); omega
  obtain ⟨a1, a2⟩ := abs_step F s e hm0
  have hge : fCmp .lt (.fin false m e) (F.ofInt 1) = false := by
    rw [ofInt_one F hf, fCmp_lt_pow2 F e hp h1 c1]; simp; omega
  have hparts := floatParts_spec F hf e h1 c1 hlo c3
  simp only [fromFloat, hfin, Bool.not_true, Bool.false_eq_true, ite_false, a1, a2, hge, hparts]

-- binary32 `1536.0f = 1.5 · 2^10`: significand `3 · 2^22`, exponent `10`
example : floatParts binary32 (.fin false 12582912 (-13)) = .ok (12582912, 10) :=
  floatParts_spec binary32 fok_binary32 (-13) (by decide) (by decide) (by decide) (by decide)
-- x87 `2^16383` (the top binade): 513 rounds of `/= 2^32`, then `/= 2` once
example : floatParts x87ext (.fin false (2^63) 16320) = .ok (2^63, 16383) :=
  floatParts_spec x87ext fok_x87ext 16320 (by decide) (by decide) (by decide) (by decide)

/-- **Main theorem.** `uintwide_t(FloatingPointType)` on a finite value is truncation toward zero reduced to `N` bits. -/
theorem fromFloat_spec (f : WFmt) (F : FFmt) (hf : FOK F) (hw : 1 ≤ f.w) (hn : 1 ≤ f.n) (hN : 64 < f.N)
    (x : FVal) (hc : F.Canonical x = true) (hx : x.isFinite = true) :
    ∃ l, fromFloat f F x = .ok l ∧ WF f.w l ∧ l.length = f.n
      ∧ some (toInt f l) = WideFloatSpec.fromFloat f.N f.signed x := by
  cases x with
  | nan => simp [FVal.isFinite] at hx
  | inf b => simp [FVal.isFinite] at hx
  | fin s m e =>
    have hm : m < 2^F.prec := by
      have hc' := hc
      simp only [Fmt.Canonical, Bool.and_eq_true, Bool.or_eq_true, decide_eq_true_eq] at hc'
      exact hc'.1.1.1
    rcases small_or_big F hf.1 s m e hc with hs | ⟨h1, hlo⟩
    · obtain ⟨z1, z2, z3⟩ := zeroW_spec hw hn hN
      refine ⟨zeroW f, fromFloat_small f F hf s m e hc hs, z1, z2, ?_⟩
      simp only [WideFloatSpec.fromFloat, trunc_small F hf.1 s hm hs, z3]
    · have h64 : m < 2^64 := by
        have : 2^F.prec ≤ 2^64 := Nat.pow_le_pow_right (by decide) hf.2.2.1
        omega
      obtain ⟨p1, p2, p3⟩ := fromParts_spec (F := F) hw hn hN h64 s (e + ((F.prec : Int) - 1))
      refine ⟨_, fromFloat_big f F hf s m e hc h1 hlo, p1, p2, ?_⟩
      rw [Int.add_sub_cancel] at p3
      simp only [WideFloatSpec.fromFloat, p3]

-- `wide_integer<224, uint32_t, signed>{-1536.0f}`, a subnormal double, and `DBL_MAX` into 72 unsigned bits
example : ∃ l, fromFloat ⟨32, 7, true⟩ binary32 (.fin true 12582912 (-13)) = .ok l ∧ WF 32 l ∧ l.length = 7
    ∧ some (toInt ⟨32, 7, true⟩ l) = WideFloatSpec.fromFloat 224 true (.fin true 12582912 (-13)) :=
  fromFloat_spec ⟨32, 7, true⟩ binary32 fok_binary32 (by decide) (by decide) (by decide) _ (by decide) rfl
example : ∃ l, fromFloat ⟨16, 5, true⟩ binary64 (.fin false 12345 (-1074)) = .ok l ∧ WF 16 l ∧ l.length = 5
    ∧ some (toInt ⟨16, 5, true⟩ l) = WideFloatSpec.fromFloat 80 true (.fin false 12345 (-1074)) :=
  fromFloat_spec ⟨16, 5, true⟩ binary64 fok_binary64 (by decide) (by decide) (by decide) _ (by decide) rfl
example : ∃ l, fromFloat ⟨8, 9, false⟩ binary64 (.fin false (2^53 - 1) 971) = .ok l ∧ WF 8 l ∧ l.length = 9
    ∧ some (toInt ⟨8, 9, false⟩ l) = WideFloatSpec.fromFloat 72 false (.fin false (2^53 - 1) 971) :=
  fromFloat_spec ⟨8, 9, false⟩ binary64 fok_binary64 (by decide) (by decide) (by decide) _ (by decide) rfl

/-! ## Part 4: NaN and infinities give zero -/

theorem fromFloat_nan (f : WFmt) (F : FFmt) : fromFloat f F .nan = .ok (zeroW f) := by
  simp [fromFloat, isFiniteOwn, fCmp, FVal.cmp?]

theorem fromFloat_inf (f : WFmt) (F : FFmt) (s : Bool) : fromFloat f F (.inf s) = .ok (zeroW f) := by
  cases s <;> simp [fromFloat, isFiniteOwn, fCmp, FVal.cmp?, Fmt.maxFinite]

theorem fromFloat_nonfinite (f : WFmt) (F : FFmt) (x : FVal) (hx : x.isFinite = false) :
    fromFloat f F x = .ok (zeroW f) := by
  cases x with
  | nan => exact fromFloat_nan f F
  | inf b => exact fromFloat_inf f F b
  | fin s m e => simp [FVal.isFinite] at hx

example : fromFloat ⟨32, 7, true⟩ x87ext (.inf true) = .ok (zeroW ⟨32, 7, true⟩) :=
  fromFloat_nonfinite _ _ _ rfl

/-! ## Part 5: values in range are not reduced -/

theorem wrapTwos_inRange {N : Nat} (hN : 1 ≤ N) (sg : Bool) (v : Int) (hv : v.natAbs < 2^(N-1))
    (hs : sg = true ∨ 0 ≤ v) : wrapTwos N sg v = v := by
  have hpN : (2:Int)^N = 2 * 2^(N-1) := Bridge.two_pow_pred hN
  have hc : ((2^(N-1) : Nat) : Int) = (2:Int)^(N-1) := by simp
  have hvI : (v.natAbs : Int) < 2^(N-1) := by rw [← hc]; exact_mod_cast hv
  unfold wrapTwos
  by_cases h : sg = true
  · simp only [h, ite_true]
    rw [Int.emod_eq_of_lt (by omega) (by omega)]; omega
  · have h0 : 0 ≤ v := by rcases hs with hs | hs; exact absurd hs h; exact hs
    simp only [h]
    exact Int.emod_eq_of_lt h0 (by omega)

theorem fromFloat_inRange (f : WFmt) (F : FFmt) (hf : FOK F) (hw : 1 ≤ f.w) (hn : 1 ≤ f.n) (hN : 64 < f.N)
    (s : Bool) (m : Nat) (e : Int) (hc : F.Canonical (.fin s m e) = true)
    (hr : (truncInt s m e).natAbs < 2^(f.N-1)) (hs : f.signed = true ∨ s = false) :
    ∃ l, fromFloat f F (.fin s m e) = .ok l ∧ WF f.w l ∧ l.length = f.n ∧ toInt f l = truncInt s m e := by
  obtain ⟨l, h1, h2, h3, h4⟩ := fromFloat_spec f F hf hw hn hN (.fin s m e) hc rfl
  refine ⟨l, h1, h2, h3, ?_⟩
  simp only [WideFloatSpec.fromFloat, Option.some.injEq] at h4
  rw [h4]
  apply wrapTwos_inRange (by omega) _ _ hr
  rcases hs with hs | hs
  · exact Or.inl hs
  · right; subst hs
    simp only [truncInt, Bool.false_eq_true, ite_false]
    exact Int.natCast_nonneg _

-- `wide_integer<224, uint32_t, signed>{-1536.75f}` is `-1536`
example : ∃ l, fromFloat ⟨32, 7, true⟩ binary32 (.fin true 12589056 (-13)) = .ok l ∧ WF 32 l ∧ l.length = 7
    ∧ toInt ⟨32, 7, true⟩ l = -1536 :=
  fromFloat_inRange ⟨32, 7, true⟩ binary32 fok_binary32 (by decide) (by decide) (by decide) true 12589056 (-13)
    (by decide) (by decide) (by decide)

end Cnl.WideFloat.FromP
