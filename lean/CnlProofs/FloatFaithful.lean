import CnlProofs.RoundCvt
import CnlSpec.WideFloat
import CnlModel.Wide
/-!
# CnlProofs.FloatFaithful — limb-by-limb floating-point accumulation is faithful

Self-contained theory on natural numbers (Lean core only).  Precision `p ≥ 1`, unbounded exponent:
`ulp`, `dn` (largest `p`-bit number below), `up` (smallest `p`-bit number above), `G` (has at most `p`
significant bits), `fl` (round to nearest, ties to even), `accLoop` (sum the limbs from the least
significant one, rounding every limb term and every partial sum).

Everything listed is proved in full (no statement is left unproved or partial):

* R4  `fl_of_G`, `G_rep`, `G_of_rep`, `G_iff`, `G_two_pow`, `G_of_lt`, `G_zero`
* R2  `fl_dn_or_up`, `dn_le`, `le_up`, `G_dn`, `G_up`, `G_fl`
* R5  `dn_max`, `up_min`, `eq_dn_or_up`
* R3  `fl_mono`; `fl_in_bracket` (anything inside the bracket of `V` rounds to an end of the bracket)
* T1  `accLoop_faithful_of_le` (`w ≤ p`: limb terms are exact), from `step_faithful_exact`, `accLoop_inv`
* T2  `accLoop_faithful` (every limb width; limb terms wider than the precision are themselves rounded),
      from `step_inexact` (`fl_add_small`: the accumulator `≤ 2^s` is absorbed by a limb term that was
      rounded up; a tie can only occur against an even significand, `rhe_up_tie`) and `stepOk_all`
* R1  `roundND_fl : F.roundND s x 1 = cN F s (fl F.prec x)`, `cN_rep_eq` (the datum of `M·2^t`, i.e.
      `roundND_exact`), `roundND_scale`, `roundND_big`/`roundND_sig` (rounded significand with carry)
* A1  `add_cN : F.add (cN F false a) (cN F false b) = cN F false (fl F.prec (a + b))`, from `add_rep`
      (sum of two non-negative finite numbers = rounding of the exact sum) and `cN_rep`
* T3  `bracket_eq` (the oracle's bracket is `(cN (dn n), cN (up n))`), `toFloatOk_pos`, `toFloatOk_neg`

The result is faithful, not correctly rounded: `accLoop 4 3 [1,2,4] 0 0 = 256` while `fl 4 273 = 288`
(example at the end of the loop section).
-/

namespace Cnl.FloatFaithful
open Cnl Cnl.FloatP

/-- unit in the last place of the `p`-bit binade of `x` (`1` when `x` has at most `p` bits) -/
def ulp (p x : Nat) : Nat := 2^(x.log2 + 1 - p)
/-- the largest `p`-bit number `≤ x` -/
def dn (p x : Nat) : Nat := x / ulp p x * ulp p x
/-- the smallest `p`-bit number `≥ x` -/
def up (p x : Nat) : Nat := if x % ulp p x = 0 then x else dn p x + ulp p x
/-- `x` has at most `p` significant bits -/
def G (p x : Nat) : Prop := x % ulp p x = 0
/-- round to nearest, ties to even, precision `p`, unbounded exponent -/
def fl (p x : Nat) : Nat := roundHalfEven x (ulp p x) * ulp p x
/-- accumulate limbs (least significant first, limb `i` has weight `2^(w*i)`), rounding each limb term
and each partial sum -/
def accLoop (p w : Nat) : List Nat → Nat → Nat → Nat
  | [], _, a => a
  | x :: xs, i, a => accLoop p w xs (i+1) (fl p (a + fl p (x * 2^(w*i))))

instance (p x : Nat) : Decidable (G p x) := by unfold G; exact inferInstance

/-! ## multiples of a fixed divisor -/

theorem lt_fdn_add (x : Nat) {d : Nat} (hd : 0 < d) : x < x / d * d + d := by
  have h1 := Nat.div_add_mod x d
  have h2 := Nat.mod_lt x hd
  rw [Nat.mul_comm] at h1
  omega

theorem fdn_max {d g x : Nat} (hg : g % d = 0) (h : g ≤ x) : g ≤ x / d * d := by
  have e : g / d * d = g := Nat.div_mul_cancel (Nat.dvd_of_mod_eq_zero hg)
  rw [← e]
  exact Nat.mul_le_mul_right _ (Nat.div_le_div_right h)

theorem fup_min {d g x : Nat} (hd : 0 < d) (hg : g % d = 0) (h : x ≤ g) (hx : x % d ≠ 0) :
    x / d * d + d ≤ g := by
  have e : g / d * d = g := Nat.div_mul_cancel (Nat.dvd_of_mod_eq_zero hg)
  have hne : x ≠ g := by intro h'; subst h'; exact hx hg
  have hlt : x / d < g / d := by
    rw [Nat.div_lt_iff_lt_mul hd, e]; omega
  have := Nat.mul_le_mul_right d (show x / d + 1 ≤ g / d from hlt)
  rw [e, Nat.add_mul, Nat.one_mul] at this
  exact this

/-! ## `roundHalfEven` -/

theorem rhe_cases (n d : Nat) : roundHalfEven n d = n / d ∨ roundHalfEven n d = n / d + 1 := by
  simp only [roundHalfEven]
  split
  · exact Or.inl rfl
  · split
    · exact Or.inr rfl
    · split
      · exact Or.inl rfl
      · exact Or.inr rfl

theorem rhe_of_dvd {n d : Nat} (hd : 0 < d) (h : n % d = 0) : roundHalfEven n d = n / d := by
  simp only [roundHalfEven, h, Nat.mul_zero, hd, ite_true]

theorem rhe_mono {a b d : Nat} (h : a ≤ b) : roundHalfEven a d ≤ roundHalfEven b d := by
  have hq : a / d ≤ b / d := Nat.div_le_div_right h
  by_cases he : a / d = b / d
  · have h1 := Nat.div_add_mod a d
    have h2 := Nat.div_add_mod b d
    rw [he] at h1
    have hr : a % d ≤ b % d := by omega
    simp only [roundHalfEven, he]
    generalize a % d = ra at *
    generalize b % d = rb at *
    generalize b / d = q at *
    repeat' split
    all_goals omega
  · have h1 : roundHalfEven a d ≤ a / d + 1 := by
      rcases rhe_cases a d with h | h <;> omega
    have h2 : b / d ≤ roundHalfEven b d := by
      rcases rhe_cases b d with h | h <;> omega
    omega

theorem rhe_mul_right (a b : Nat) {c : Nat} (hc : 0 < c) :
    roundHalfEven (a * c) (b * c) = roundHalfEven a b := by
  have e1 : 2 * (a % b * c) = (2 * (a % b)) * c := by rw [Nat.mul_assoc]
  simp only [roundHalfEven, Nat.mul_div_mul_right a b hc, Nat.mul_mod_mul_right, e1,
    Nat.mul_lt_mul_right hc]

/-! ## binades -/

theorem ulp_pos (p x : Nat) : 0 < ulp p x := Nat.two_pow_pos _

theorem log2_mono {x y : Nat} (h : x ≤ y) : x.log2 ≤ y.log2 := by
  by_cases hx : x = 0
  · subst hx; simp [Nat.log2_zero]
  · have hy : y ≠ 0 := by omega
    rw [Nat.le_log2 hy]
    exact Nat.le_trans (Nat.log2_self_le hx) h

theorem ulp_congr (p : Nat) {x y : Nat} (h : x.log2 = y.log2) : ulp p x = ulp p y := by
  unfold ulp; rw [h]

theorem ulp_eq_one {p x : Nat} (hp : 1 ≤ p) (h : x < 2^p) : ulp p x = 1 := by
  unfold ulp
  by_cases hx : x = 0
  · subst hx; rw [Nat.log2_zero, show 0 + 1 - p = 0 by omega]
  · have := (Nat.log2_lt hx).2 h
    rw [show x.log2 + 1 - p = 0 by omega]

theorem ulp_zero {p : Nat} (hp : 1 ≤ p) : ulp p 0 = 1 := ulp_eq_one hp (Nat.two_pow_pos p)

/-- the binade `[2^L, 2^(L+1))` of `x` is `k` ulps wide, `k = 2^min(L, p-1)` -/
theorem binade {p x : Nat} (hp : 1 ≤ p) :
    ∃ k, 2^x.log2 = k * ulp p x ∧ 1 ≤ k ∧ 2 * k ≤ 2^p := by
  refine ⟨2^(x.log2 - (x.log2 + 1 - p)), ?_, Nat.two_pow_pos _, ?_⟩
  · unfold ulp; rw [← Nat.pow_add]; congr 1; omega
  · have : 2 * 2^(x.log2 - (x.log2 + 1 - p)) = 2^(x.log2 - (x.log2 + 1 - p) + 1) := by
      rw [Nat.pow_succ]; omega
    rw [this]; exact Nat.pow_le_pow_right (by omega) (by omega)

theorem pow_log2_mod_ulp {p : Nat} (hp : 1 ≤ p) (x : Nat) : 2^x.log2 % ulp p x = 0 := by
  obtain ⟨k, hk, _, _⟩ := binade (x := x) hp
  rw [hk]; exact Nat.mul_mod_left ..

theorem pow_succ_log2_mod_ulp {p : Nat} (hp : 1 ≤ p) (x : Nat) : 2^(x.log2 + 1) % ulp p x = 0 := by
  obtain ⟨k, hk, _, _⟩ := binade (x := x) hp
  rw [Nat.pow_succ, hk, Nat.mul_right_comm]; exact Nat.mul_mod_left ..

/-! ## `dn` and `up` -/

theorem dn_le (p x : Nat) : dn p x ≤ x := Nat.div_mul_le_self _ _

theorem le_up (p x : Nat) : x ≤ up p x := by
  unfold up; split
  · exact Nat.le_refl _
  · exact Nat.le_of_lt (lt_fdn_add x (ulp_pos p x))

theorem dn_le_up (p x : Nat) : dn p x ≤ up p x := Nat.le_trans (dn_le p x) (le_up p x)

theorem dn_zero (p : Nat) : dn p 0 = 0 := by simp [dn]
theorem up_zero (p : Nat) : up p 0 = 0 := by simp [up]

theorem pow_le_dn {p x : Nat} (hp : 1 ≤ p) (hx : x ≠ 0) : 2^x.log2 ≤ dn p x :=
  fdn_max (pow_log2_mod_ulp hp x) (Nat.log2_self_le hx)

theorem log2_dn {p x : Nat} (hp : 1 ≤ p) (hx : x ≠ 0) : (dn p x).log2 = x.log2 := by
  have h1 := pow_le_dn hp hx
  have h2 := dn_le p x
  have h3 := Nat.lt_log2_self (n := x)
  have hne : dn p x ≠ 0 := by have := Nat.two_pow_pos x.log2; omega
  rw [Nat.log2_eq_iff hne]; omega

theorem up_le_pow {p : Nat} (hp : 1 ≤ p) (x : Nat) : up p x ≤ 2^(x.log2 + 1) := by
  have h3 := Nat.lt_log2_self (n := x)
  unfold up; split
  · omega
  · rename_i h
    exact fup_min (ulp_pos p x) (pow_succ_log2_mod_ulp hp x) (Nat.le_of_lt h3) h

theorem G_zero (p : Nat) : G p 0 := Nat.zero_mod _

theorem G_of_rep {p M : Nat} (t : Nat) (hM : M < 2^p) : G p (M * 2^t) := by
  by_cases h0 : M = 0
  · subst h0; rw [Nat.zero_mul]; exact G_zero p
  · have hL := log2_lt_prec h0 hM
    unfold G ulp
    rw [log2_mul_two_pow h0]
    exact Nat.mod_eq_zero_of_dvd
      (Nat.dvd_trans (Nat.pow_dvd_pow 2 (show M.log2 + t + 1 - p ≤ t by omega)) (Nat.dvd_mul_left _ _))

theorem G_two_pow {p : Nat} (hp : 1 ≤ p) (k : Nat) : G p (2^k) := by
  have := G_of_rep (p := p) (M := 1) k (Nat.one_lt_two_pow (by omega))
  rwa [Nat.one_mul] at this

theorem G_of_lt {p x : Nat} (hp : 1 ≤ p) (h : x < 2^p) : G p x := by
  unfold G; rw [ulp_eq_one hp h]; exact Nat.mod_one x

theorem div_ulp_lt {p : Nat} (hp : 1 ≤ p) (x : Nat) : x / ulp p x < 2^p := by
  obtain ⟨k, hk, _, hk2⟩ := binade (x := x) hp
  have h3 := Nat.lt_log2_self (n := x)
  rw [Nat.div_lt_iff_lt_mul (ulp_pos p x)]
  rw [Nat.pow_succ, hk] at h3
  have := Nat.mul_le_mul_right (ulp p x) hk2
  rw [Nat.mul_assoc] at this
  generalize k * ulp p x = a at *
  generalize 2^p * ulp p x = b at *
  omega

theorem G_rep {p x : Nat} (hp : 1 ≤ p) (h : G p x) : ∃ M t, x = M * 2^t ∧ M < 2^p :=
  ⟨x / ulp p x, x.log2 + 1 - p, (Nat.div_mul_cancel (Nat.dvd_of_mod_eq_zero h)).symm, div_ulp_lt hp x⟩

theorem G_iff {p x : Nat} (hp : 1 ≤ p) : G p x ↔ ∃ M t, x = M * 2^t ∧ M < 2^p :=
  ⟨G_rep hp, fun ⟨_, t, e, hM⟩ => e ▸ G_of_rep t hM⟩

theorem dn_of_G {p x : Nat} (h : G p x) : dn p x = x :=
  Nat.div_mul_cancel (Nat.dvd_of_mod_eq_zero h)

theorem up_of_G {p x : Nat} (h : G p x) : up p x = x := by
  unfold G at h; simp [up, h]

theorem fl_of_G {p x : Nat} (h : G p x) : fl p x = x := by
  unfold fl; rw [rhe_of_dvd (ulp_pos p x) h]; exact dn_of_G h

theorem G_dn {p : Nat} (hp : 1 ≤ p) (x : Nat) : G p (dn p x) := by
  by_cases hx : x = 0
  · subst hx; rw [dn_zero]; exact G_zero p
  · unfold G; rw [ulp_congr p (log2_dn hp hx)]; exact Nat.mul_mod_left ..

theorem G_up {p : Nat} (hp : 1 ≤ p) (x : Nat) : G p (up p x) := by
  by_cases hx : x = 0
  · subst hx; rw [up_zero]; exact G_zero p
  · have h1 := up_le_pow hp x
    by_cases he : up p x = 2^(x.log2 + 1)
    · rw [he]; exact G_two_pow hp _
    · have h2 := le_up p x
      have h3 := Nat.log2_self_le hx
      have hne : up p x ≠ 0 := by omega
      have hl : (up p x).log2 = x.log2 := by rw [Nat.log2_eq_iff hne]; omega
      unfold G; rw [ulp_congr p hl]
      unfold up; split
      · assumption
      · unfold dn; rw [Nat.add_mod_right]; exact Nat.mul_mod_left ..

theorem fl_dn_or_up (p x : Nat) : fl p x = dn p x ∨ fl p x = up p x := by
  unfold fl
  by_cases h : x % ulp p x = 0
  · left; rw [rhe_of_dvd (ulp_pos p x) h]; rfl
  · rcases rhe_cases x (ulp p x) with e | e
    · left; rw [e]; rfl
    · right; rw [e]; simp only [up, h, ite_false, dn, Nat.add_mul, Nat.one_mul]

theorem G_fl {p : Nat} (hp : 1 ≤ p) (x : Nat) : G p (fl p x) := by
  rcases fl_dn_or_up p x with e | e <;> rw [e]
  · exact G_dn hp x
  · exact G_up hp x

theorem dn_le_fl (p x : Nat) : dn p x ≤ fl p x := by
  rcases fl_dn_or_up p x with e | e <;> rw [e]
  · exact Nat.le_refl _
  · exact dn_le_up p x

theorem fl_le_up (p x : Nat) : fl p x ≤ up p x := by
  rcases fl_dn_or_up p x with e | e <;> rw [e]
  · exact dn_le_up p x
  · exact Nat.le_refl _

theorem fl_zero (p : Nat) : fl p 0 = 0 := fl_of_G (G_zero p)

/-! ## extremality -/

theorem dn_max {p g x : Nat} (hp : 1 ≤ p) (hg : G p g) (h : g ≤ x) : g ≤ dn p x := by
  by_cases hx : x = 0
  · subst hx; rw [dn_zero]; exact h
  · have hl := log2_mono h
    by_cases he : g.log2 = x.log2
    · unfold G at hg; rw [ulp_congr p he] at hg
      exact fdn_max hg h
    · have h1 := Nat.lt_log2_self (n := g)
      have h2 := Nat.pow_le_pow_right (n := 2) (by omega) (show g.log2 + 1 ≤ x.log2 by omega)
      have h3 := pow_le_dn hp hx
      omega

theorem up_min {p g x : Nat} (hp : 1 ≤ p) (hg : G p g) (h : x ≤ g) : up p x ≤ g := by
  by_cases hx : x = 0
  · subst hx; rw [up_zero]; exact h
  · have hl := log2_mono h
    by_cases he : g.log2 = x.log2
    · unfold G at hg; rw [ulp_congr p he] at hg
      unfold up; split
      · exact h
      · rename_i hr
        exact fup_min (ulp_pos p x) hg h hr
    · have hg0 : g ≠ 0 := by omega
      have h1 := Nat.log2_self_le hg0
      have h2 := Nat.pow_le_pow_right (n := 2) (by omega) (show x.log2 + 1 ≤ g.log2 by omega)
      have h3 := up_le_pow hp x
      omega

theorem up_le_dn_add (p x : Nat) : up p x ≤ dn p x + ulp p x := by
  unfold up; split
  · have := lt_fdn_add x (ulp_pos p x); unfold dn; omega
  · exact Nat.le_refl _

/-- a `p`-bit number inside the bracket of `x` is one of its two ends -/
theorem eq_dn_or_up {p g x : Nat} (hp : 1 ≤ p) (hg : G p g) (h1 : dn p x ≤ g) (h2 : g ≤ up p x) :
    g = dn p x ∨ g = up p x := by
  by_cases hgx : g ≤ x
  · left; exact Nat.le_antisymm (dn_max hp hg hgx) h1
  · right; exact Nat.le_antisymm h2 (up_min hp hg (by omega))

/-! ## monotonicity -/

theorem fl_mono {p x y : Nat} (hp : 1 ≤ p) (h : x ≤ y) : fl p x ≤ fl p y := by
  by_cases hx : x = 0
  · subst hx; rw [fl_zero]; exact Nat.zero_le _
  · have hy : y ≠ 0 := by omega
    have hl := log2_mono h
    by_cases he : x.log2 = y.log2
    · unfold fl; rw [ulp_congr p he]
      exact Nat.mul_le_mul_right _ (rhe_mono h)
    · have h1 := fl_le_up p x
      have h2 := up_le_pow hp x
      have h3 := Nat.pow_le_pow_right (n := 2) (by omega) (show x.log2 + 1 ≤ y.log2 by omega)
      have h4 := pow_le_dn hp hy
      have h5 := dn_le_fl p y
      omega

/-- anything inside the bracket of `V` rounds to one of the two ends of the bracket -/
theorem fl_in_bracket {p V y : Nat} (hp : 1 ≤ p) (h1 : dn p V ≤ y) (h2 : y ≤ up p V) :
    fl p y = dn p V ∨ fl p y = up p V := by
  have a1 := fl_mono hp h1
  have a2 := fl_mono hp h2
  rw [fl_of_G (G_dn hp V)] at a1
  rw [fl_of_G (G_up hp V)] at a2
  exact eq_dn_or_up hp (G_fl hp y) a1 a2

/-! ## one step of the accumulation, limb term exact -/

/-- the smallest multiple of `d` that is `≥ x` -/
def fup (d x : Nat) : Nat := if x % d = 0 then x else x / d * d + d

theorem up_eq_fup (p x : Nat) : up p x = fup (ulp p x) x := rfl

theorem le_fup (x : Nat) {d : Nat} (hd : 0 < d) : x ≤ fup d x := by
  unfold fup; split
  · exact Nat.le_refl _
  · exact Nat.le_of_lt (lt_fdn_add x hd)

theorem fup_mod (d x : Nat) : fup d x % d = 0 := by
  unfold fup; split
  · assumption
  · rw [Nat.add_mod_right]; exact Nat.mul_mod_left ..

theorem fup_le {d g x : Nat} (hd : 0 < d) (hg : g % d = 0) (h : x ≤ g) : fup d x ≤ g := by
  unfold fup; split
  · exact h
  · rename_i hr; exact fup_min hd hg h hr

theorem fdn_add_mul (c y : Nat) {d : Nat} (hd : 0 < d) : (c * d + y) / d * d = c * d + y / d * d := by
  rw [Nat.add_comm, Nat.add_mul_div_right _ _ hd, Nat.add_mul, Nat.add_comm]

theorem fup_add_mul (c y : Nat) {d : Nat} (hd : 0 < d) : fup d (c * d + y) = c * d + fup d y := by
  have hm : (c * d + y) % d = y % d := by rw [Nat.add_comm, Nat.add_mul_mod_self_right]
  unfold fup
  rw [hm, fdn_add_mul c y hd]
  split
  · rfl
  · rw [Nat.add_assoc]

/-- multiples of `2^e` up to `2^s` have at most `s - e + 1` bits -/
theorem G_of_mult {p e s g : Nat} (hp : 1 ≤ p) (hes : e ≤ s) (hse : s - e ≤ p - 1)
    (hg : g % 2^e = 0) (hle : g ≤ 2^s) : G p g := by
  have e1 : g = g / 2^e * 2^e := (Nat.div_mul_cancel (Nat.dvd_of_mod_eq_zero hg)).symm
  rw [e1]
  apply G_of_rep
  have h1 : g / 2^e ≤ 2^s / 2^e := Nat.div_le_div_right hle
  rw [Nat.pow_div hes (by omega)] at h1
  have h2 : 2^(s - e) ≤ 2^(p - 1) := Nat.pow_le_pow_right (by omega) hse
  have h3 : 2^(p - 1) < 2^p := Nat.pow_lt_pow_right (by omega) (by omega)
  omega

theorem step_core {p s e c Lo a : Nat} (hp : 1 ≤ p) (hes : e ≤ s) (hse : s - e ≤ p - 1)
    (hLo : Lo < 2^s) (ha1 : dn p Lo ≤ a) (ha2 : a ≤ up p Lo) :
    (c * 2^e + Lo) / 2^e * 2^e ≤ c * 2^e + a ∧ c * 2^e + a ≤ fup (2^e) (c * 2^e + Lo) := by
  have hd := Nat.two_pow_pos e
  rw [fdn_add_mul c Lo hd, fup_add_mul c Lo hd]
  have h1 : Lo / 2^e * 2^e ≤ dn p Lo :=
    dn_max hp (G_of_mult hp hes hse (Nat.mul_mod_left ..)
      (Nat.le_trans (Nat.div_mul_le_self _ _) (Nat.le_of_lt hLo))) (Nat.div_mul_le_self _ _)
  have hs : (2^s) % 2^e = 0 := Nat.mod_eq_zero_of_dvd (Nat.pow_dvd_pow 2 hes)
  have h2 : up p Lo ≤ fup (2^e) Lo :=
    up_min hp (G_of_mult hp hes hse (fup_mod _ _) (fup_le hd hs (Nat.le_of_lt hLo))) (le_fup Lo hd)
  omega

/-- adding an exactly representable limb term `x·2^s` (`x < 2^p`) to an accumulator that brackets the low
part keeps the sum inside the bracket of the exact value -/
theorem step_exact {p s x Lo a : Nat} (hp : 1 ≤ p) (hx : x < 2^p) (hLo : Lo < 2^s)
    (ha1 : dn p Lo ≤ a) (ha2 : a ≤ up p Lo) :
    dn p (x * 2^s + Lo) ≤ x * 2^s + a ∧ x * 2^s + a ≤ up p (x * 2^s + Lo) := by
  by_cases hx0 : x = 0
  · subst hx0; simp only [Nat.zero_mul, Nat.zero_add]; exact ⟨ha1, ha2⟩
  · have hps := Nat.two_pow_pos s
    have hVlo : 2^s ≤ x * 2^s + Lo :=
      Nat.le_trans (Nat.le_mul_of_pos_left _ (by omega)) (Nat.le_add_right _ _)
    have hVhi : x * 2^s + Lo < 2^(p + s) := by
      have := Nat.mul_le_mul_right (2^s) (show x + 1 ≤ 2^p by omega)
      rw [Nat.add_mul, Nat.one_mul, ← Nat.pow_add] at this
      omega
    have hV : x * 2^s + Lo ≠ 0 := by omega
    have hL1 : s ≤ (x * 2^s + Lo).log2 := (Nat.le_log2 hV).2 hVlo
    have hL2 : (x * 2^s + Lo).log2 < p + s := (Nat.log2_lt hV).2 hVhi
    rw [up_eq_fup]
    unfold dn ulp
    generalize hl : (x * 2^s + Lo).log2 = L at *
    have hes : L + 1 - p ≤ s := by omega
    have hT : x * 2^s = (x * 2^(s - (L + 1 - p))) * 2^(L + 1 - p) := by
      rw [Nat.mul_assoc, ← Nat.pow_add]; congr 2; omega
    rw [hT]
    exact step_core hp hes (by omega) hLo ha1 ha2

theorem step_faithful_exact {p s x Lo a : Nat} (hp : 1 ≤ p) (hx : x < 2^p) (hLo : Lo < 2^s)
    (ha : a = dn p Lo ∨ a = up p Lo) :
    fl p (a + fl p (x * 2^s)) = dn p (x * 2^s + Lo) ∨ fl p (a + fl p (x * 2^s)) = up p (x * 2^s + Lo) := by
  have ha1 : dn p Lo ≤ a := by
    rcases ha with e | e <;> rw [e]
    · exact Nat.le_refl _
    · exact dn_le_up p Lo
  have ha2 : a ≤ up p Lo := by
    rcases ha with e | e <;> rw [e]
    · exact dn_le_up p Lo
    · exact Nat.le_refl _
  rw [fl_of_G (G_of_rep s hx), Nat.add_comm]
  obtain ⟨h1, h2⟩ := step_exact hp hx hLo ha1 ha2
  exact fl_in_bracket hp h1 h2

/-! ## the loop -/

/-- the step property: from a bracket of the low part to a bracket of the low part plus one limb -/
def StepOk (p w : Nat) : Prop :=
  ∀ s x Lo a, x < 2^w → Lo < 2^s → (a = dn p Lo ∨ a = up p Lo) →
    fl p (a + fl p (x * 2^s)) = dn p (x * 2^s + Lo) ∨ fl p (a + fl p (x * 2^s)) = up p (x * 2^s + Lo)

theorem accLoop_inv {p w : Nat} (step : StepOk p w) :
    ∀ (xs : List Nat) (i Lo a : Nat), (∀ x ∈ xs, x < 2^w) → Lo < 2^(w*i) → (a = dn p Lo ∨ a = up p Lo) →
      accLoop p w xs i a = dn p (Lo + 2^(w*i) * Cnl.Wide.toNat w xs)
      ∨ accLoop p w xs i a = up p (Lo + 2^(w*i) * Cnl.Wide.toNat w xs) := by
  intro xs
  induction xs with
  | nil => intro i Lo a _ _ ha; simpa [accLoop, Cnl.Wide.toNat] using ha
  | cons x xs ih =>
    intro i Lo a hxs hLo ha
    have hx : x < 2^w := hxs x (List.mem_cons_self ..)
    have hxs2 : ∀ y ∈ xs, y < 2^w := fun y hy => hxs y (List.mem_cons_of_mem _ hy)
    have hLo2 : x * 2^(w*i) + Lo < 2^(w*(i+1)) := by
      have := Nat.mul_le_mul_right (2^(w*i)) (show x + 1 ≤ 2^w by omega)
      have e2 : 2^(w*(i+1)) = 2^w * 2^(w*i) := by rw [Nat.mul_succ, Nat.pow_add, Nat.mul_comm]
      rw [Nat.add_mul, Nat.one_mul] at this
      omega
    have key := ih (i+1) (x * 2^(w*i) + Lo) _ hxs2 hLo2 (step (w*i) x Lo a hx hLo ha)
    have e : x * 2^(w*i) + Lo + 2^(w*(i+1)) * Cnl.Wide.toNat w xs
        = Lo + 2^(w*i) * Cnl.Wide.toNat w (x :: xs) := by
      simp only [Cnl.Wide.toNat]
      rw [Nat.mul_succ, Nat.pow_add, Nat.mul_add, Nat.mul_assoc, Nat.mul_comm x]
      omega
    rw [e] at key
    exact key

theorem stepOk_of_le {p w : Nat} (hp : 1 ≤ p) (hwp : w ≤ p) : StepOk p w := by
  intro s x Lo a hx hLo ha
  have : 2^w ≤ 2^p := Nat.pow_le_pow_right (by omega) hwp
  exact step_faithful_exact hp (by omega) hLo ha

theorem accLoop_of_stepOk {p w : Nat} (step : StepOk p w) (u : List Nat) (hu : ∀ x ∈ u, x < 2^w) :
    accLoop p w u 0 0 = dn p (Cnl.Wide.toNat w u) ∨ accLoop p w u 0 0 = up p (Cnl.Wide.toNat w u) := by
  have := accLoop_inv step u 0 0 0 hu (by simp) (Or.inl (dn_zero p).symm)
  simpa using this

/-- **T1**: when a limb fits the precision (`w ≤ p`), the rounded limb-by-limb sum is one of the two
`p`-bit neighbours of the exact value -/
theorem accLoop_faithful_of_le {p w : Nat} (hp : 1 ≤ p) (hwp : w ≤ p) (u : List Nat)
    (hu : ∀ x ∈ u, x < 2^w) :
    accLoop p w u 0 0 = dn p (Cnl.Wide.toNat w u) ∨ accLoop p w u 0 0 = up p (Cnl.Wide.toNat w u) :=
  accLoop_of_stepOk (stepOk_of_le hp hwp) u hu

example : accLoop 4 3 [5, 7, 2, 6] 0 0 = dn 4 (Cnl.Wide.toNat 3 [5, 7, 2, 6])
    ∨ accLoop 4 3 [5, 7, 2, 6] 0 0 = up 4 (Cnl.Wide.toNat 3 [5, 7, 2, 6]) :=
  accLoop_faithful_of_le (by decide) (by decide) _ (by decide)

/-! ## one step of the accumulation, limb term rounded (limbs wider than the precision) -/

theorem div_mod_of_mult_add {d a : Nat} (c : Nat) (ha : a < d) :
    (c * d + a) / d = c ∧ (c * d + a) % d = a := by
  have hd : 0 < d := by omega
  constructor
  · rw [Nat.add_comm, Nat.add_mul_div_right _ _ hd, Nat.div_eq_of_lt ha, Nat.zero_add]
  · rw [Nat.add_comm, Nat.add_mul_mod_self_right, Nat.mod_eq_of_lt ha]

theorem mult_gap {d a b : Nat} (ha : a % d = 0) (hb : b % d = 0) (h : a < b) : a + d ≤ b := by
  have ea : a / d * d = a := Nat.div_mul_cancel (Nat.dvd_of_mod_eq_zero ha)
  have eb : b / d * d = b := Nat.div_mul_cancel (Nat.dvd_of_mod_eq_zero hb)
  have hlt : a / d < b / d := by
    apply Decidable.byContradiction; intro hn
    have := Nat.mul_le_mul_right d (show b / d ≤ a / d by omega)
    omega
  have := Nat.mul_le_mul_right d (show a / d + 1 ≤ b / d from hlt)
  rw [Nat.add_mul, Nat.one_mul] at this
  omega

theorem ulp_le_of_le (p : Nat) {x y : Nat} (h : x ≤ y) : ulp p x ≤ ulp p y := by
  have := log2_mono h
  exact Nat.pow_le_pow_right (by omega) (by omega)

theorem ulp_scale {p x : Nat} (s : Nat) (hx : x ≠ 0) (h : p ≤ x.log2 + 1) :
    ulp p (x * 2^s) = ulp p x * 2^s := by
  unfold ulp; rw [log2_mul_two_pow hx, ← Nat.pow_add]; congr 1; omega

theorem rhe_up_tie {n d : Nat} (h : roundHalfEven n d = n / d + 1) (ht : 2 * (n % d) = d) :
    (n / d) % 2 = 1 := by
  simp only [roundHalfEven] at h
  have h1 : ¬ (2 * (n % d) < d) := by omega
  have h2 : ¬ (d < 2 * (n % d)) := by omega
  simp only [h1, h2, ite_false] at h
  by_cases h3 : n / d % 2 = 0
  · simp only [h3, ite_true] at h; omega
  · omega

/-- adding less than half an ulp (or exactly half an ulp to an even significand) is absorbed -/
theorem fl_add_small {p g a : Nat} (hp : 1 ≤ p) (hg : G p g) (hg0 : g ≠ 0)
    (h : 2 * a < ulp p g ∨ (2 * a = ulp p g ∧ (g / ulp p g) % 2 = 0)) : fl p (g + a) = g := by
  have hup := ulp_pos p g
  have ha : a < ulp p g := by omega
  have h1 := Nat.log2_self_le hg0
  have h2 := Nat.lt_log2_self (n := g)
  have h3 := mult_gap hg (pow_succ_log2_mod_ulp hp g) h2
  have hne : g + a ≠ 0 := by omega
  have hl : (g + a).log2 = g.log2 := by rw [Nat.log2_eq_iff hne]; omega
  unfold fl; rw [ulp_congr p hl]
  have hk : g / ulp p g * ulp p g = g := Nat.div_mul_cancel (Nat.dvd_of_mod_eq_zero hg)
  generalize ulp p g = u at *
  generalize g / u = k at *
  subst hk
  obtain ⟨e1, e2⟩ := div_mod_of_mult_add k ha
  simp only [roundHalfEven, e1, e2]
  rcases h with h | ⟨h, hev⟩
  · simp only [h, ite_true]
  · have n1 : ¬ (2 * a < u) := by omega
    have n2 : ¬ (u < 2 * a) := by omega
    simp only [n1, n2, ite_false, hev, ite_true]

/-- a limb term that is itself rounded (`x` has more than `p` significant bits): the accumulator only
needs to be at most `2^s` -/
theorem step_inexact {p s x Lo a : Nat} (hp : 1 ≤ p) (hx : 2^p ≤ x) (hG : ¬ G p x) (hLo : Lo < 2^s)
    (ha : a ≤ 2^s) :
    fl p (a + fl p (x * 2^s)) = dn p (x * 2^s + Lo) ∨ fl p (a + fl p (x * 2^s)) = up p (x * 2^s + Lo) := by
  have hpp := Nat.two_pow_pos p
  have hps := Nat.two_pow_pos s
  have hx0 : x ≠ 0 := by omega
  have hL : p ≤ x.log2 := (Nat.le_log2 hx0).2 hx
  -- the ulp of `x` is even
  have hux2 : ulp p x = 2 * 2^(x.log2 - p) := by
    unfold ulp; rw [← Nat.pow_succ']; congr 1; omega
  have huT := ulp_scale s hx0 (show p ≤ x.log2 + 1 by omega)
  have hdm := Nat.div_add_mod x (ulp p x)
  have hr1 : x % ulp p x ≠ 0 := hG
  have hr2 := Nat.mod_lt x (ulp_pos p x)
  have hfl : fl p (x * 2^s) = roundHalfEven x (ulp p x) * (ulp p x * 2^s) := by
    unfold fl; rw [huT, rhe_mul_right _ _ hps]
  -- decompose `T = q·uT + rx·2^s`
  have hT : x * 2^s = x / ulp p x * (ulp p x * 2^s) + x % ulp p x * 2^s := by
    rw [← Nat.mul_assoc, ← Nat.add_mul, Nat.mul_comm (x / ulp p x), hdm]
  have hW : x % ulp p x * 2^s + Lo < ulp p x * 2^s := by
    have := Nat.mul_le_mul_right (2^s) (show x % ulp p x + 1 ≤ ulp p x by omega)
    rw [Nat.add_mul, Nat.one_mul] at this
    omega
  have hW0 : x % ulp p x * 2^s + Lo ≠ 0 := by
    have := Nat.mul_pos (Nat.pos_of_ne_zero hr1) hps
    omega
  have h2s : 2 * 2^s ≤ ulp p x * 2^s := Nat.mul_le_mul_right _ (by omega)
  have hT0 : x * 2^s ≠ 0 := by
    have := Nat.mul_pos (Nat.pos_of_ne_zero hx0) hps
    omega
  -- `up T`
  have hupT := up_le_pow hp (x * 2^s)
  have hTdm := div_mod_of_mult_add (x / ulp p x) (show x % ulp p x * 2^s < ulp p x * 2^s by omega)
  rw [← hT] at hTdm
  have hrT : x * 2^s % (ulp p x * 2^s) ≠ 0 := by
    rw [hTdm.2]
    have := Nat.mul_pos (Nat.pos_of_ne_zero hr1) hps
    omega
  unfold up dn at hupT
  rw [huT, if_neg hrT, hTdm.1] at hupT
  -- `V` lies in the binade of `T`, strictly inside one ulp interval
  have hV : x * 2^s + Lo = x / ulp p x * (ulp p x * 2^s) + (x % ulp p x * 2^s + Lo) := by
    rw [← Nat.add_assoc, ← hT]
  have hVl : (x * 2^s + Lo).log2 = (x * 2^s).log2 := by
    have h1 := Nat.log2_self_le hT0
    rw [Nat.log2_eq_iff (by omega)]
    omega
  have hVdm := div_mod_of_mult_add (x / ulp p x) hW
  rw [← hV] at hVdm
  have hdnV : dn p (x * 2^s + Lo) = x / ulp p x * (ulp p x * 2^s) := by
    unfold dn; rw [ulp_congr p hVl, huT, hVdm.1]
  have hupV : up p (x * 2^s + Lo) = x / ulp p x * (ulp p x * 2^s) + ulp p x * 2^s := by
    unfold up; rw [hdnV, ulp_congr p hVl, huT, hVdm.2, if_neg hW0]
  rcases rhe_cases x (ulp p x) with e | e
  · -- the limb term was rounded down
    rw [hfl, e]
    apply fl_in_bracket hp
    · rw [hdnV]; omega
    · rw [hupV]; omega
  · -- the limb term was rounded up: the accumulator is absorbed
    right
    rw [hfl, e, hupV, Nat.add_comm a, Nat.add_mul, Nat.one_mul]
    have hg : G p (x / ulp p x * (ulp p x * 2^s) + ulp p x * 2^s) := by
      rw [← hupV]; exact G_up hp _
    have hle := ulp_le_of_le p (le_up p (x * 2^s + Lo))
    rw [ulp_congr p hVl, huT, hupV] at hle
    apply fl_add_small hp hg (by omega)
    by_cases hlt : 2 * a < ulp p (x / ulp p x * (ulp p x * 2^s) + ulp p x * 2^s)
    · exact Or.inl hlt
    · right
      have he1 : ulp p (x / ulp p x * (ulp p x * 2^s) + ulp p x * 2^s) = ulp p x * 2^s := by omega
      have he2 : ulp p x * 2^s = 2 * 2^s := by omega
      have he3 : ulp p x = 2 := Nat.eq_of_mul_eq_mul_right hps he2
      refine ⟨by omega, ?_⟩
      have hodd := rhe_up_tie e (by omega)
      rw [he1]
      have : x / ulp p x * (ulp p x * 2^s) + ulp p x * 2^s = (x / ulp p x + 1) * (ulp p x * 2^s) := by
        rw [Nat.add_mul, Nat.one_mul]
      rw [this, Nat.mul_div_cancel _ (by omega)]
      omega

/-- the step property holds for every limb width -/
theorem stepOk_all {p : Nat} (hp : 1 ≤ p) (w : Nat) : StepOk p w := by
  intro s x Lo a _ hLo ha
  by_cases hxp : x < 2^p
  · exact step_faithful_exact hp hxp hLo ha
  · by_cases hG : G p x
    · have hM := div_ulp_lt hp x
      have hx : x / ulp p x * ulp p x = x := Nat.div_mul_cancel (Nat.dvd_of_mod_eq_zero hG)
      have hLo2 : Lo < 2^(x.log2 + 1 - p + s) := by
        have := Nat.pow_le_pow_right (n := 2) (by omega) (show s ≤ x.log2 + 1 - p + s by omega)
        omega
      have key := step_faithful_exact hp hM hLo2 ha
      have e : x / ulp p x * 2^(x.log2 + 1 - p + s) = x * 2^s := by
        rw [Nat.pow_add, ← Nat.mul_assoc]; congr 1
      rw [e] at key
      exact key
    · have h2s : up p Lo ≤ 2^s := up_min hp (G_two_pow hp s) (Nat.le_of_lt hLo)
      have ha2 : a ≤ 2^s := by
        rcases ha with e | e <;> rw [e]
        · exact Nat.le_trans (dn_le_up p Lo) h2s
        · exact h2s
      exact step_inexact hp (by omega) hG hLo ha2

/-- **T2**: the rounded limb-by-limb sum is one of the two `p`-bit neighbours of the exact value, for
every limb width (limb terms wider than the precision are themselves rounded) -/
theorem accLoop_faithful {p w : Nat} (hp : 1 ≤ p) (u : List Nat) (hu : ∀ x ∈ u, x < 2^w) :
    accLoop p w u 0 0 = dn p (Cnl.Wide.toNat w u) ∨ accLoop p w u 0 0 = up p (Cnl.Wide.toNat w u) :=
  accLoop_of_stepOk (stepOk_all hp w) u hu

example : accLoop 3 5 [21, 13, 30] 0 0 = dn 3 (Cnl.Wide.toNat 5 [21, 13, 30])
    ∨ accLoop 3 5 [21, 13, 30] 0 0 = up 3 (Cnl.Wide.toNat 5 [21, 13, 30]) :=
  accLoop_faithful (by decide) _ (by decide)
example : accLoop 3 5 [21, 13, 30] 0 0 = up 3 (Cnl.Wide.toNat 5 [21, 13, 30]) := by decide +kernel
/-- faithful but not correctly rounded (double rounding): the exact value is `273`, the nearest
4-bit number is `288`, the loop returns the other neighbour `256` -/
example : Cnl.Wide.toNat 3 [1, 2, 4] = 273 ∧ accLoop 4 3 [1, 2, 4] 0 0 = 256 ∧ dn 4 273 = 256
    ∧ up 4 273 = 288 ∧ fl 4 273 = 288 := by decide +kernel

/-! ## link to the model: `Fmt.roundND` -/

/-- the datum of the format obtained by rounding the natural number `n` (sign `s`) -/
abbrev cN (F : Fmt) (s : Bool) (n : Nat) : FVal := F.roundND s n 1

theorem ilog2Q_one {n : Nat} (hn : n ≠ 0) : ilog2Q n 1 = (n.log2 : Int) := by
  have := ilog2Q_pow2 hn 0
  rw [Nat.pow_zero] at this
  rw [this]; omega

/-- a common power of two in numerator and denominator does not change the rounding -/
theorem roundND_scale (F : Fmt) (s : Bool) (n j : Nat) :
    F.roundND s (n * 2^j) (2^j) = F.roundND s n 1 := by
  by_cases hn : n = 0
  · subst hn; simp [Fmt.roundND]
  · have hne : n * 2^j ≠ 0 := by
      have := Nat.two_pow_pos j
      intro h; rcases Nat.mul_eq_zero.1 h with h | h <;> omega
    have hl1 : ilog2Q (n * 2^j) (2^j) = (n.log2 : Int) := by
      rw [ilog2Q_pow2 hne, log2_mul_two_pow hn]; omega
    have hm : ∀ sh : Int,
        (if 0 ≤ sh then roundHalfEven (n * 2^j) (2^j * 2^sh.toNat)
          else roundHalfEven (n * 2^j * 2^(-sh).toNat) (2^j))
        = (if 0 ≤ sh then roundHalfEven n (1 * 2^sh.toNat) else roundHalfEven (n * 2^(-sh).toNat) 1) := by
      intro sh
      split
      · rw [Nat.mul_comm (2^j), Nat.one_mul, rhe_mul_right _ _ (Nat.two_pow_pos j)]
      · rw [Nat.mul_right_comm]
        have := rhe_mul_right (n * 2^(-sh).toNat) 1 (Nat.two_pow_pos j)
        rw [Nat.one_mul] at this
        exact this
    simp only [Fmt.roundND, hn, hne, ite_false, hl1, ilog2Q_one hn, hm]

/-- a normal significand with an in-range exponent is its own datum -/
theorem roundND_normal (F : Fmt) (hF : FmtOk F) (s : Bool) {N : Nat} (t : Nat)
    (h1 : 2^(F.prec-1) ≤ N) (h2 : N < 2^F.prec) (hmax : (t : Int) + ((F.prec : Int) - 1) ≤ F.emax) :
    F.roundND s (N * 2^t) 1 = .fin s N t := by
  have hq := qmin_neg hF
  have := roundND_self F hF s (t : Int) h1 h2 (by omega) hmax t 0 (by omega)
  rw [Nat.pow_zero] at this
  exact this

/-- a significand in `[2^(prec-1), 2^prec]` at exponent `e`, with the carry into the next binade -/
def sig (F : Fmt) (s : Bool) (m e : Nat) : FVal :=
  if m = 2^F.prec then .fin s (2^(F.prec-1)) ((e : Int) + 1) else .fin s m e

theorem roundND_sig (F : Fmt) (hF : FmtOk F) (s : Bool) {m : Nat} (e : Nat)
    (h1 : 2^(F.prec-1) ≤ m) (h2 : m ≤ 2^F.prec)
    (hmax : (e : Int) + (if m = 2^F.prec then 1 else 0) + ((F.prec : Int) - 1) ≤ F.emax) :
    F.roundND s (m * 2^e) 1 = sig F s m e := by
  have hp : 1 ≤ F.prec := Nat.le_trans (by decide) hF.1
  have hpp : 2^F.prec = 2^(F.prec-1) * 2 := by
    rw [← Nat.pow_succ]; congr 1; omega
  unfold sig
  by_cases hm : m = 2^F.prec
  · rw [if_pos hm] at hmax ⊢
    have := roundND_normal F hF s (N := 2^(F.prec-1)) (e+1) (Nat.le_refl _)
      (Nat.pow_lt_pow_right (by omega) (by omega)) (by omega)
    rw [hm, hpp, Nat.mul_assoc, ← Nat.pow_succ', this]
    congr 1
  · rw [if_neg hm] at hmax ⊢
    exact roundND_normal F hF s e h1 (by omega) (by omega)

theorem emax_toNat {F : Fmt} (hF : FmtOk F) : (F.emax.toNat : Int) = F.emax := by
  obtain ⟨h1, h2, h3⟩ := hF; omega

theorem log2_lt_emax {F : Fmt} (hF : FmtOk F) {x : Nat} (hx : x ≠ 0) (h : x < 2^F.emax.toNat) :
    (x.log2 : Int) + 1 ≤ F.emax := by
  have := (Nat.log2_lt hx).2 h
  have := emax_toNat hF
  omega

/-- at least `prec` bits: `x / ulp` is a normal significand -/
theorem pow_le_div_ulp {p x : Nat} (hp : 1 ≤ p) (h : p ≤ x.log2 + 1) (hx : x ≠ 0) :
    2^(p-1) ≤ x / ulp p x := by
  rw [Nat.le_div_iff_mul_le (ulp_pos p x)]
  unfold ulp
  rw [← Nat.pow_add, show p - 1 + (x.log2 + 1 - p) = x.log2 by omega]
  exact Nat.log2_self_le hx

/-- rounding a natural number with more than `prec` bits into the format -/
theorem roundND_big (F : Fmt) (hF : FmtOk F) (s : Bool) {x : Nat} (hx : x ≠ 0) (hb : F.prec ≤ x.log2)
    (hmax : (x.log2 : Int) + 1 ≤ F.emax) :
    F.roundND s x 1 = sig F s (roundHalfEven x (ulp F.prec x)) (x.log2 + 1 - F.prec) := by
  obtain ⟨h1, h2, h3⟩ := hF
  have hnl : ¬ ((x.log2 : Int) < F.emin) := by omega
  have hsh : 0 ≤ (x.log2 : Int) - ((F.prec : Int) - 1) := by omega
  have hshn : ((x.log2 : Int) - ((F.prec : Int) - 1)).toNat = x.log2 + 1 - F.prec := by omega
  have hu : 1 * 2^(x.log2 + 1 - F.prec) = ulp F.prec x := by rw [Nat.one_mul]; rfl
  simp only [Fmt.roundND, hx, ite_false, ilog2Q_one hx, hnl, hsh, ite_true, hshn, hu, sig]
  have hq1 := pow_le_div_ulp (p := F.prec) (by omega) (by omega) hx
  have hq2 := div_ulp_lt (p := F.prec) (by omega) x
  by_cases hm : roundHalfEven x (ulp F.prec x) = 2^F.prec
  · have : ¬ (F.emax < (x.log2 : Int) - ((F.prec : Int) - 1) + 1 + ((F.prec : Int) - 1)) := by omega
    simp only [hm, ite_true, this, ite_false]
    congr 1; omega
  · have : ¬ (F.emax < (x.log2 : Int) - ((F.prec : Int) - 1) + ((F.prec : Int) - 1)) := by omega
    simp only [hm, ite_false, this]
    congr 1; omega

/-- **R1**: rounding a natural number into the format is the exact datum of `fl` of it -/
theorem roundND_fl (F : Fmt) (hF : FmtOk F) (s : Bool) {x : Nat} (hx : x ≠ 0) (h : x < 2^F.emax.toNat) :
    F.roundND s x 1 = cN F s (fl F.prec x) := by
  have hp : 1 ≤ F.prec := Nat.le_trans (by decide) hF.1
  have hmax := log2_lt_emax hF hx h
  by_cases hb : x.log2 < F.prec
  · have : x < 2^F.prec := (Nat.log2_lt hx).1 hb
    rw [fl_of_G (G_of_lt hp this)]
  · rw [roundND_big F hF s hx (by omega) hmax]
    unfold cN fl
    have hq1 := pow_le_div_ulp (p := F.prec) hp (by omega) hx
    have hq2 := div_ulp_lt (p := F.prec) hp x
    have hr1 : 2^(F.prec-1) ≤ roundHalfEven x (ulp F.prec x) := by
      rcases rhe_cases x (ulp F.prec x) with e | e <;> omega
    have hr2 : roundHalfEven x (ulp F.prec x) ≤ 2^F.prec := by
      rcases rhe_cases x (ulp F.prec x) with e | e <;> omega
    have := roundND_sig F hF s (x.log2 + 1 - F.prec) hr1 hr2 (by split <;> omega)
    unfold ulp at this ⊢
    rw [this]

example : binary32.roundND false 16777219 1 = cN binary32 false 16777220 ∧ fl 24 16777219 = 16777220 :=
  ⟨roundND_fl binary32 fmtOk_binary32 false (by decide) (by decide +kernel), by decide +kernel⟩

/-- the datum of a `prec`-bit number given by witnesses (this is `roundND_exact`) -/
theorem cN_rep_eq (F : Fmt) (hF : FmtOk F) (s : Bool) {M : Nat} (t : Nat) (hM : M ≠ 0) (hlt : M < 2^F.prec)
    (hmax : (M.log2 : Int) + t ≤ F.emax) :
    cN F s (M * 2^t)
      = .fin s (M * 2^(F.prec - 1 - M.log2)) ((M.log2 : Int) + t - ((F.prec : Int) - 1)) := by
  obtain ⟨h1, h2, h3⟩ := hF
  have := roundND_exact F s hM hlt t 0 (by omega) (by omega)
  rw [Nat.pow_zero] at this
  unfold cN
  rw [this]; congr 1

theorem cN_zero (F : Fmt) (s : Bool) : cN F s 0 = .fin s 0 F.qmin := by simp [cN, Fmt.roundND]

/-! ## addition of data -/

/-- `m · 2^e = n` -/
def Rep (m : Nat) (e : Int) (n : Nat) : Prop :=
  (0 ≤ e → m * 2^e.toNat = n) ∧ (e < 0 → m = n * 2^(-e).toNat)

theorem Rep.rescale {m : Nat} {e : Int} {n : Nat} (h : Rep m e n) {q : Int} (hq : q ≤ e) :
    Rep (m * 2^(e - q).toNat) q n := by
  obtain ⟨h1, h2⟩ := h
  constructor
  · intro hq0
    rw [Nat.mul_assoc, ← Nat.pow_add, show (e - q).toNat + q.toNat = e.toNat by omega]
    exact h1 (by omega)
  · intro hq0
    by_cases he : 0 ≤ e
    · rw [← h1 he, Nat.mul_assoc, ← Nat.pow_add]; congr 2; omega
    · rw [h2 (by omega), Nat.mul_assoc, ← Nat.pow_add]; congr 2; omega

theorem Rep.add {c1 c2 : Nat} {q : Int} {a b : Nat} (h1 : Rep c1 q a) (h2 : Rep c2 q b) :
    Rep (c1 + c2) q (a + b) := by
  constructor
  · intro h; rw [Nat.add_mul, h1.1 h, h2.1 h]
  · intro h; rw [Nat.add_mul, ← h1.2 h, ← h2.2 h]

theorem Rep.eq_zero_iff {c : Nat} {q : Int} {n : Nat} (h : Rep c q n) : c = 0 ↔ n = 0 := by
  by_cases hq : 0 ≤ q
  · have := h.1 hq
    have hp := Nat.two_pow_pos q.toNat
    constructor
    · intro hc; rw [hc, Nat.zero_mul] at this; exact this.symm
    · intro hn; rw [hn] at this
      rcases Nat.mul_eq_zero.1 this with h | h <;> omega
  · have := h.2 (by omega)
    have hp := Nat.two_pow_pos (-q).toNat
    constructor
    · intro hc; rw [hc] at this
      rcases Nat.mul_eq_zero.1 this.symm with h | h <;> omega
    · intro hn; rw [hn, Nat.zero_mul] at this; exact this

theorem ofDyadic_rep (F : Fmt) (s : Bool) {c : Nat} {q : Int} {n : Nat} (h : Rep c q n) :
    F.ofDyadic s c q = F.roundND s n 1 := by
  unfold Fmt.ofDyadic
  split
  · rename_i hq; rw [h.1 hq]
  · rename_i hq; rw [h.2 (by omega), roundND_scale]

/-- the sum of two non-negative finite numbers is the rounding of the exact sum -/
theorem add_rep (F : Fmt) {m1 m2 : Nat} {e1 e2 : Int} {a b : Nat} (h1 : Rep m1 e1 a) (h2 : Rep m2 e2 b) :
    F.add (.fin false m1 e1) (.fin false m2 e2) = F.roundND false (a + b) 1 := by
  have hq1 : (if e1 ≤ e2 then e1 else e2) ≤ e1 := by split <;> omega
  have hq2 : (if e1 ≤ e2 then e1 else e2) ≤ e2 := by split <;> omega
  simp only [Fmt.add]
  generalize (if e1 ≤ e2 then e1 else e2) = q at hq1 hq2 ⊢
  have hr := (h1.rescale hq1).add (h2.rescale hq2)
  have hs : FVal.scaled false m1 e1 q + FVal.scaled false m2 e2 q
      = ((m1 * 2^(e1 - q).toNat + m2 * 2^(e2 - q).toNat : Nat) : Int) := by
    simp [FVal.scaled]
  rw [hs]
  generalize m1 * 2^(e1 - q).toNat + m2 * 2^(e2 - q).toNat = c at hr ⊢
  by_cases hc : c = 0
  · have hn := hr.eq_zero_iff.1 hc
    subst hc
    simp [hn, Fmt.roundND]
  · have hc2 : ¬ ((c : Int) = 0) := by omega
    have hneg : decide ((c : Int) < 0) = false := by simp
    simp only [hc2, ite_false, hneg, Int.natAbs_natCast]
    exact ofDyadic_rep F false hr

/-- the datum of a `prec`-bit number has the value of the number -/
theorem cN_rep (F : Fmt) (hF : FmtOk F) (s : Bool) {n : Nat} (hG : G F.prec n) (h : n < 2^F.emax.toNat) :
    ∃ m e, cN F s n = .fin s m e ∧ Rep m e n := by
  have hp : 1 ≤ F.prec := Nat.le_trans (by decide) hF.1
  by_cases hn : n = 0
  · subst hn
    exact ⟨0, F.qmin, cN_zero F s, by simp [Rep]⟩
  · obtain ⟨M, t, rfl, hM⟩ := G_rep hp hG
    have hM0 : M ≠ 0 := by intro h0; subst h0; simp at hn
    have hL := log2_lt_prec hM0 hM
    have hmax := log2_lt_emax hF hn h
    rw [log2_mul_two_pow hM0] at hmax
    refine ⟨_, _, cN_rep_eq F hF s t hM0 hM (by omega), ?_, ?_⟩
    · intro he
      rw [Nat.mul_assoc, ← Nat.pow_add]; congr 2; omega
    · intro he
      rw [Nat.mul_assoc, ← Nat.pow_add]; congr 2; omega

/-- **A1**: adding the data of two `prec`-bit naturals gives the datum of the rounded sum -/
theorem add_cN (F : Fmt) (hF : FmtOk F) {a b : Nat} (ha : G F.prec a) (hb : G F.prec b)
    (h : a + b < 2^F.emax.toNat) :
    F.add (cN F false a) (cN F false b) = cN F false (fl F.prec (a + b)) := by
  obtain ⟨m1, e1, c1, r1⟩ := cN_rep F hF false ha (by omega)
  obtain ⟨m2, e2, c2, r2⟩ := cN_rep F hF false hb (by omega)
  rw [c1, c2, add_rep F r1 r2]
  by_cases h0 : a + b = 0
  · rw [h0, fl_zero]
  · exact roundND_fl F hF false h0 h

/-! ## bridge to the oracle of the conversion to floating point -/

open Cnl.WideFloatSpec in
/-- the two ends of the oracle's bracket are the data of `dn` and `up` -/
theorem bracket_eq (F : Fmt) (hF : FmtOk F) (s : Bool) {n : Nat} (hn : n ≠ 0) (h : n < 2^F.emax.toNat) :
    (bracket F s n).1 = cN F s (dn F.prec n) ∧ (bracket F s n).2.1 = cN F s (up F.prec n) := by
  have hp : 1 ≤ F.prec := Nat.le_trans (by decide) hF.1
  have hmax := log2_lt_emax hF hn h
  have hnot : ¬ (F.emax < (n.log2 : Int)) := by omega
  by_cases hb : n.log2 < F.prec
  · have hlt : n < 2^F.prec := (Nat.log2_lt hn).1 hb
    have hG := G_of_lt hp hlt
    have := cN_rep_eq F hF s 0 hn hlt (by omega)
    rw [Nat.pow_zero, Nat.mul_one] at this
    simp only [bracket, hnot, hb, ite_true, ite_false, dn_of_G hG, up_of_G hG, this]
    constructor <;> (congr 1)
  · have hu : ulp F.prec n = 2^(n.log2 + 1 - F.prec) := rfl
    have hq1 := pow_le_div_ulp hp (by omega) hn
    have hq2 := div_ulp_lt hp n
    rw [hu] at hq1 hq2
    have hm1 : ¬ (n / 2^(n.log2 + 1 - F.prec) = 2^F.prec) := by omega
    have hov : ¬ (F.emax < ((n.log2 + 1 - F.prec : Nat) : Int) + ((F.prec : Int) - 1)) := by omega
    have hdn : cN F s (dn F.prec n)
        = .fin s (n / 2^(n.log2 + 1 - F.prec)) ((n.log2 + 1 - F.prec : Nat) : Int) := by
      unfold cN dn; rw [hu]
      exact roundND_normal F hF s _ hq1 hq2 (by omega)
    constructor
    · simp only [bracket, hnot, hb, ite_false, hm1, hov, hdn]
    · by_cases hex : n % 2^(n.log2 + 1 - F.prec) = 0
      · have hG : G F.prec n := hex
        have e : up F.prec n = dn F.prec n := by rw [up_of_G hG, dn_of_G hG]
        simp only [bracket, hnot, hb, ite_false, hex, ite_true, hm1, hov, e, hdn]
      · have hup : up F.prec n = (n / 2^(n.log2 + 1 - F.prec) + 1) * 2^(n.log2 + 1 - F.prec) := by
          unfold up dn ulp; rw [if_neg hex, Nat.add_mul, Nat.one_mul]
        have hs := roundND_sig F hF s (n.log2 + 1 - F.prec) (m := n / 2^(n.log2 + 1 - F.prec) + 1)
          (by omega) (by omega) (by split <;> omega)
        unfold cN
        rw [hup, hs]
        by_cases hc : n / 2^(n.log2 + 1 - F.prec) + 1 = 2^F.prec
        · have hov2 : ¬ (F.emax < ((n.log2 + 1 - F.prec : Nat) : Int) + 1 + ((F.prec : Int) - 1)) := by omega
          simp only [bracket, hnot, hb, ite_false, hex, hc, ite_true, hov2, sig]
        · simp only [bracket, hnot, hb, ite_false, hex, hc, hov, sig]

/-- **T3**: the datum of either neighbour is accepted by the oracle (positive values) -/
theorem toFloatOk_pos (F : Fmt) (hF : FmtOk F) {n r : Nat} (hn : 0 < n) (h : n < 2^F.emax.toNat)
    (hr : r = dn F.prec n ∨ r = up F.prec n) :
    Cnl.WideFloatSpec.toFloatOk F (n : Int) (F.roundND false r 1) = true := by
  have hn0 : n ≠ 0 := by omega
  obtain ⟨b1, b2⟩ := bracket_eq F hF false hn0 h
  have hv : ¬ ((n : Int) = 0) := by omega
  have hd : decide ((n : Int) < 0) = false := by simp
  simp only [Cnl.WideFloatSpec.toFloatOk, hv, ite_false, hd, Int.natAbs_natCast, b1, b2]
  rcases hr with e | e <;> simp [e, cN]

/-- **T3**, negative values -/
theorem toFloatOk_neg (F : Fmt) (hF : FmtOk F) {n r : Nat} (hn : 0 < n) (h : n < 2^F.emax.toNat)
    (hr : r = dn F.prec n ∨ r = up F.prec n) :
    Cnl.WideFloatSpec.toFloatOk F (-(n : Int)) (F.roundND true r 1) = true := by
  have hn0 : n ≠ 0 := by omega
  obtain ⟨b1, b2⟩ := bracket_eq F hF true hn0 h
  have hv : ¬ (-(n : Int) = 0) := by omega
  have hd : decide (-(n : Int) < 0) = true := by simp; omega
  simp only [Cnl.WideFloatSpec.toFloatOk, hv, ite_false, hd, Int.natAbs_neg, Int.natAbs_natCast, b1, b2]
  rcases hr with e | e <;> simp [e, cN]

example : binary32.add (cN binary32 false 16777216) (cN binary32 false 3) = cN binary32 false 16777220 :=
  add_cN binary32 fmtOk_binary32 (a := 16777216) (b := 3) (by decide +kernel) (by decide +kernel)
    (by decide +kernel)

example : Cnl.WideFloatSpec.toFloatOk binary32 (16777217 : Nat) (binary32.roundND false 16777218 1) = true :=
  toFloatOk_pos binary32 fmtOk_binary32 (by decide) (by decide +kernel) (by decide +kernel)
example : Cnl.WideFloatSpec.toFloatOk binary32 (-((16777217 : Nat) : Int)) (binary32.roundND true 16777216 1) = true :=
  toFloatOk_neg binary32 fmtOk_binary32 (by decide) (by decide +kernel) (by decide +kernel)

end Cnl.FloatFaithful
