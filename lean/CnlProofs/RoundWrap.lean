import CnlProofs.RoundCvt
import CnlModel.RoundWrap
/-!
# Lemmas for C09: conversions between `scaled_integer<rounding_integer<Rep, Tag>, power<E>>`

Step-by-step evaluation of `CnlModel/RoundWrap.lean`:

* `roundShift_between` — in every mode `v / 2^k` rounded lies between `0` and `v`, hence in every
  integer type that holds `v`: the tagged division by `2^k` in the promoted source type never needs
  a representability hypothesis;
* `narrowing_eval` — `eS < eD`: the power `2^k` is the defined shift `1 << k` in the promoted type,
  the tagged division of C08 (`Rounding.binOp_div_eval`) returns the correctly rounded quotient, the
  final `static_cast` reduces it into the destination; `narrowing_ill` — otherwise the instantiation is
  ill-formed (`static_assert(0 < divisor)` of `default_scale`, since the repair);
* `widening_eval` — `eD ≤ eS`: one built-in multiplication by `2^(eS − eD)` in the promoted source
  type (exact if it fits, signed overflow otherwise, modular if unsigned), then the `static_cast`.

Lean core only.
-/
namespace Cnl.RoundWrap
open Cnl Cnl.Spec Cnl.Rounding Cnl.ScaledP Cnl.RoundCvtP

/-! ## the rounded quotient by a power of two lies between zero and the dividend -/

theorem mul_pos_ge {M p : Int} (hM : 0 ≤ M) (hp : 1 ≤ p) : M ≤ M * p := by
  have := Int.mul_le_mul_of_nonneg_left hp hM
  rwa [Int.mul_one] at this

theorem mul_neg_le {m p : Int} (hm : m ≤ 0) (hp : 1 ≤ p) : m * p ≤ m := by
  have := mul_pos_ge (M := -m) (by omega) hp
  rw [Int.neg_mul] at this
  omega

theorem nearestUp_between (v : Int) (k : Nat) :
    min v 0 ≤ (2 * v + 2^k) / 2^(k+1) ∧ (2 * v + 2^k) / 2^(k+1) ≤ max v 0 := by
  have hp := two_pow_pos k
  have hP : (0:Int) < 2^(k+1) := two_pow_pos (k+1)
  constructor
  · apply Int.le_ediv_of_mul_le hP
    rw [two_pow_succ, Int.mul_left_comm]
    have := mul_neg_le (m := min v 0) (p := 2^k) (by omega) (by omega)
    generalize min v 0 * 2^k = d at *
    omega
  · have : (2 * v + 2^k) / 2^(k+1) < max v 0 + 1 := by
      apply Int.ediv_lt_of_lt_mul hP
      rw [two_pow_succ, Int.add_mul, Int.one_mul, Int.mul_left_comm]
      have := mul_pos_ge (M := max v 0) (p := 2^k) (by omega) (by omega)
      generalize max v 0 * 2^k = d at *
      omega
    omega

theorem roundShift_between (m : RoundMode) (v : Int) (k : Nat) :
    min v 0 ≤ roundShift m v k ∧ roundShift m v k ≤ max v 0 := by
  have hp := two_pow_pos k
  cases m with
  | floor =>
    show min v 0 ≤ v / 2^k ∧ v / 2^k ≤ max v 0
    by_cases hv : 0 ≤ v
    · have := Int.ediv_nonneg hv (Int.le_of_lt hp)
      have := Int.ediv_le_self (2^k) hv
      omega
    · have := Int.ediv_neg_of_neg_of_pos (by omega : v < 0) hp
      have : v ≤ v / 2^k := Int.le_ediv_of_mul_le hp (mul_neg_le (by omega) (by omega))
      omega
  | truncate =>
    show min v 0 ≤ v.tdiv (2^k) ∧ v.tdiv (2^k) ≤ max v 0
    have h1 := Int.natAbs_tdiv_le_natAbs v (2^k)
    by_cases hv : 0 ≤ v
    · have := Int.tdiv_nonneg hv (Int.le_of_lt hp); omega
    · have := Int.tdiv_nonneg (a := -v) (b := 2^k) (by omega) (Int.le_of_lt hp)
      rw [Int.neg_tdiv] at this
      omega
  | nearestUp => exact nearestUp_between v k
  | nearestAway =>
    show min v 0 ≤ sgn v * ((2 * (v.natAbs : Int) + 2^k) / 2^(k+1))
      ∧ sgn v * ((2 * (v.natAbs : Int) + 2^k) / 2^(k+1)) ≤ max v 0
    have ⟨h1, h2⟩ := nearestUp_between (v.natAbs : Int) k
    generalize (2 * (v.natAbs : Int) + 2^k) / 2^(k+1) = w at *
    unfold sgn
    by_cases hn : v < 0
    · simp only [hn, ite_true]; omega
    · by_cases hz : v = 0
      · subst hz; simp
      · simp only [hn, hz, ite_false]; omega

/-- … hence a value of every integer type of which `v` is a value -/
theorem roundShift_inRange {T : IntTy} (m : RoundMode) {v : Int} (k : Nat) (hv : T.InRange v) :
    T.InRange (roundShift m v k) := by
  have ⟨h1, h2⟩ := roundShift_between m v k
  have hz := zero_le_max T
  unfold IntTy.InRange at *
  omega

/-! ## narrowing: the tagged division by `2^k` -/

/-- `decltype(s >> constant<…>){1} << constant<k>`: a defined shift with the value `2^k` whenever
`2^k` is representable in the promoted representation type -/
theorem power_eval (S : IntTy) {k : Nat} (hk : k < (promote S).digits) :
    cBin .shl (promote (promote S), 1) (i32, (k : Int)) = .ok (promote S, 2^k) := by
  have hpp := promote_promote S
  have hb := promote_bits_pos S
  have hsh : ¬((k : Int) < 0 ∨ (k : Int) ≥ (promote S).bits) := by
    have := RoundCvtP.digits_le_bits (promote S)
    omega
  simp only [cBin, hpp, hsh, ite_false, Int.toNat_natCast, Int.one_mul,
    IntTy.wrap_id hb (two_pow_inRange hk)]

/-- narrowing conversion: the correctly rounded quotient, for every source value and every mode -/
theorem narrowing_eval (mode : RdMode) (S D : IntTy) (hS : 1 ≤ S.bits) (eS eD : Int) (v : Int)
    (h : eS < eD) (hk : (eD - eS).toNat < (promote S).digits) (hv : S.InRange v) :
    convert mode S eS D eD v
      = .ok (D, D.wrap (roundShift (modeOf mode) v (eD - eS).toNat)) := by
  have hb := promote_bits_pos S
  have hT : usualArith S (promote S) = promote S := usualArith_self_promote S
  have hpw : (promote S).InRange (2^(eD - eS).toNat) := two_pow_inRange hk
  have hvP : (promote S).InRange v := promote_inRange hS hv
  have hp := two_pow_pos (eD - eS).toNat
  have hq : (promote S).InRange (roundDiv (modeOf mode) v (2^(eD - eS).toNat)) := by
    rw [← roundShift_eq_roundDiv]; exact roundShift_inRange _ _ hvP
  have hdiv := binOp_div_eval mode hS hb hv hpw (by rw [hT]; exact hvP) (by rw [hT]; exact hpw)
    (by omega) (by rw [hT]; exact hq)
  rw [hT, ← roundShift_eq_roundDiv] at hdiv
  have hne : ¬ (eD ≤ eS) := by omega
  simp only [convert, hne, ite_false, power_eval S hk, hp, ite_true, divideBy, Res.bind_ok, hdiv, Res.pure_eq,
    Cnl.convert]

/-- `1 << k` for `k` = the digits of a signed promoted type is its most negative number -/
theorem wrap_two_pow_digits {P : IntTy} (hs : P.signed = true) (hb : 1 ≤ P.bits) :
    P.wrap (2^P.digits) = -(2^P.digits) := by
  have hd : P.digits = P.bits - 1 := by unfold IntTy.digits; simp [hs]
  have hbits : P.bits = (P.bits - 1) + 1 := by omega
  have hpos := two_pow_pos (P.bits - 1)
  unfold IntTy.wrap
  simp only [hs, ite_true, hd]
  have h2 : (2:Int)^P.bits = 2 * 2^(P.bits - 1) := by
    have := two_pow_succ (P.bits - 1)
    rw [← hbits] at this
    omega
  rw [h2]
  generalize (2:Int)^(P.bits - 1) = x at *
  have : (x + x) % (2 * x) = 0 := by
    have : x + x = 2 * x := by omega
    rw [this]; exact Int.emod_self
  omega

/-- the narrowing conversion is well-formed exactly when `2^k` is representable in the promoted
representation type: otherwise the divisor is not a constant expression (shift by the width or more) or
not positive (`1 << digits` of a signed type), and the instantiation does not compile -/
theorem narrowing_ill (mode : RdMode) (S D : IntTy) (eS eD : Int) (v : Int)
    (h : eS < eD) (hk : ¬ (eD - eS).toNat < (promote S).digits) :
    ∃ m, convert mode S eS D eD v = .ill m := by
  have hpp := promote_promote S
  have hb := promote_bits_pos S
  have hne : ¬ (eD ≤ eS) := by omega
  simp only [convert, hne, ite_false]
  by_cases hsh : ((((eD - eS).toNat : Nat) : Int) < 0 ∨ (((eD - eS).toNat : Nat) : Int) ≥ (promote S).bits)
  · simp only [cBin, hpp, hsh, ite_true]
    exact ⟨_, rfl⟩
  · -- then k = digits = bits - 1 and the promoted type is signed
    have hdb := RoundCvtP.digits_le_bits (promote S)
    have hs : (promote S).signed = true := by
      apply Decidable.byContradiction; intro hs
      have : (promote S).digits = (promote S).bits := by unfold IntTy.digits; simp [hs]
      omega
    have hd : (promote S).digits = (promote S).bits - 1 := by unfold IntTy.digits; simp [hs]
    have hkd : (eD - eS).toNat = (promote S).digits := by omega
    have hpos := two_pow_pos (promote S).digits
    have hw := wrap_two_pow_digits hs hb
    have hnp : ¬ (0 < -((2:Int)^(promote S).digits)) := by omega
    rw [hkd] at hsh ⊢
    simp only [cBin, hpp, hsh, ite_false, Int.toNat_natCast, Int.one_mul, hw, hnp]
    exact ⟨_, rfl⟩

/-- where it is well-formed the repaired conversion is the conversion as found -/
theorem narrowing_orig_eq (mode : RdMode) (S D : IntTy) (eS eD : Int) (v : Int)
    (h : eS < eD) (hk : (eD - eS).toNat < (promote S).digits) :
    convertOrig mode S eS D eD v = convert mode S eS D eD v := by
  have hne : ¬ (eD ≤ eS) := by omega
  have hp := two_pow_pos (eD - eS).toNat
  simp only [convert, convertOrig, hne, ite_false, power_eval S hk, Res.bind_ok, hp, ite_true]

/-! ## widening: one multiplication in the promoted source type -/

theorem powOk_two {S : IntTy} {k : Nat} (hw : k = 0 ∨ k < (promote S).digits) : PowOk S k 2 := by
  rcases hw with h | h
  · exact Or.inl h
  · right; simpa using h

theorem widening_eval (mode : RdMode) (S D : IntTy) (hS : 1 ≤ S.bits) (eS eD : Int) (v : Int)
    (h : eD ≤ eS) (hw : eS = eD ∨ (eS - eD).toNat < (promote S).digits) (hv : S.InRange v) :
    convert mode S eS D eD v =
      if (promote S).InRange (v * 2^(eS - eD).toNat) then .ok (D, D.wrap (v * 2^(eS - eD).toNat))
      else if (promote S).signed = true then .ub .signedOverflow
      else .ok (D, D.wrap ((promote S).wrap (v * 2^(eS - eD).toNat))) := by
  have hb := promote_bits_pos S
  have hpo : PowOk S (eS - eD).toNat 2 := powOk_two (by rcases hw with h' | h'; left; omega; right; exact h')
  have hfp : (promote S).InRange (2^(eS - eD).toNat) := PowOk.fits (by decide) hpo (Or.inr rfl)
  have hsc := scaleInt_up_eq S hS (eS - eD) (by omega) 2 (by decide) hpo v hv
  rw [pw_two, IntTy.wrap_id hb hfp] at hsc
  simp only [convert, h, ite_true, hsc]
  by_cases hfit : (promote S).InRange (v * 2^(eS - eD).toNat)
  · simp only [hfit, ite_true, arith_ok hb hfit, Res.bind_ok, Res.pure_eq, Cnl.convert]
  · simp only [hfit, ite_false]
    by_cases hs : (promote S).signed = true
    · simp only [hs, ite_true, arith_signed hs, hfit, ite_false]; rfl
    · have hs' : (promote S).signed = false := by simpa using hs
      simp only [hs', arith_unsigned hs', Res.bind_ok, Res.pure_eq, Cnl.convert]
      rfl

end Cnl.RoundWrap
